import ModbusVerif.Lemmas.GoEvalTlsLemmas
/-
  Helpers for the source tie of the CONSTRUCTORS and SETTERS (Props/C16Src.lean): `NewClient`,
  `NewServer`, `ModbusClient.SetEncoding`, `ModbusClient.SetUnitId` as rendered by
  /verif/extract/gstmt.go (`Gen.gs_NewClient`, `Gen.gs_NewServer`, `Gen.gs_ModbusClient_SetEncoding`,
  `Gen.gs_ModbusClient_SetUnitId`) and evaluated by `Modbus.GoEval`.

  1. inputs (`CtorCli`, `CtorSrv`: every value the constructor reads), entry environments
     (`ctorCliEnv`, `ctorSrvEnv`), the oracle for the two opaque calls (`ctorOracle`), the documented
     default table (`ctorDflt*`), the observation of a finished run (`ctorCliObs`, `ctorSrvObs`) and
     what it must be (`ctorCliExp`, `ctorSrvExp`);
  2. the runs at a fixed fuel, for EVERY input, one lemma per arm of the scheme switch, put together
     in `ctorCli_obs` / `ctorSrv_obs`;
  3. the setters (`ctorEnc_run`, `ctorUnit_run`);
  4. `ctorRewrite`: a top-down syntactic rewriter used to DERIVE the sensitivity variants from the
     generated terms (a variant is the generated term with one local pattern replaced).

  Integers are NOT range-restricted here: the constructors only compare with 0 / 1 / 2 (no
  arithmetic, no conversion), so the runs are the same for every mathematical integer, in
  particular for every Go `uint` / `int64` value.
-/
set_option linter.unusedSimpArgs false
set_option linter.unusedVariables false
set_option maxRecDepth 100000

namespace Modbus.GoEval
open Modbus Modbus.Gen

/-! ### 1. inputs, environments, oracle -/

/-- everything `NewClient` reads. `url` = `conf.URL`; `speed … parity` the Go `uint` fields,
    `timeout` the `time.Duration` (int64 ns); `cert` / `roots`: the pointer values of
    `conf.TLSClientCert` / `conf.TLSRootCAs` as symbols (`"nil"` = absent); the result of
    `strings.SplitN(conf.URL, "://", 2)`: `parts` = its length, `scheme` = element 0, `rest` = element 1
    (read only when `parts = 2`). -/
structure CtorCli where
  url : String
  speed : Int
  dataBits : Int
  stopBits : Int
  parity : Int
  timeout : Int
  cert : String
  roots : String
  parts : Int
  scheme : String
  rest : String

/-- the two opaque calls of both constructors: `strings.SplitN` returns the slice value `sp`
    (its length and elements are the leaves `len(splitURL)`, `splitURL[0]`, `splitURL[1]` of the entry
    environment), `newLogger` returns `lg`. Every other callee: `none`. -/
def ctorOracle (sp lg : Val) : Oracle := fun f _ =>
  if f = "strings.SplitN" then some [sp]
  else if f = "newLogger" then some [lg]
  else none

/-- the text of the allocation in `NewClient` -/
def ctorCliLit : String := "&ModbusClient{ conf: *conf, }"
/-- the text of the allocation in `NewServer` -/
def ctorSrvLit : String := "&ModbusServer{ conf: *conf, handler: reqHandler, }"

/-- entry environment of `NewClient`.
    * `mc.conf.X` has the value of `conf.X` (`mc.conf` is a copy of `*conf`: the literal text);
    * the other fields of the fresh object are Go zero values (`mc.transportType` … = 0);
    * the locals `clientType` (a `string`) and the named result `err` are Go zero values: `""`, `nil`;
    * the result of `strings.SplitN` is visible through the three leaves;
    * a string literal leaf is the symbol of its content (`"\"rtu\""` ↦ `sym "rtu"`). -/
def ctorCliEnv (i : CtorCli) : Env :=
  [("mc.conf.URL", .sym i.url), ("mc.conf.Speed", .int i.speed), ("mc.conf.DataBits", .int i.dataBits),
   ("mc.conf.StopBits", .int i.stopBits), ("mc.conf.Parity", .int i.parity),
   ("mc.conf.Timeout", .int i.timeout), ("mc.conf.TLSClientCert", .sym i.cert),
   ("mc.conf.TLSRootCAs", .sym i.roots),
   ("len(splitURL)", .int i.parts), ("splitURL[0]", .sym i.scheme), ("splitURL[1]", .sym i.rest),
   ("clientType", .sym ""), ("err", .sym "nil"),
   ("mc.transportType", .int 0), ("mc.unitId", .int 0), ("mc.endianness", .int 0), ("mc.wordOrder", .int 0),
   ("\"://\"", .sym "://"), ("\"rtu\"", .sym "rtu"), ("\"rtuovertcp\"", .sym "rtuovertcp"),
   ("\"rtuoverudp\"", .sym "rtuoverudp"), ("\"tcp\"", .sym "tcp"), ("\"tcp+tls\"", .sym "tcp+tls"),
   ("\"udp\"", .sym "udp"), ("conf.Logger", .sym "conf.Logger"),
   ("fmt.Sprintf(\"modbus-client(%s)\", mc.conf.URL)", .sym "modbus-client(…)"),
   ("&ModbusClient{ conf: *conf, }", .sym "new(ModbusClient)")]

/-! ### the documented table -/

/-- transport type number of a scheme; 0: not a client scheme -/
def ctorSchemeType (s : String) : Int :=
  if s = "rtu" then 1 else if s = "rtuovertcp" then 2 else if s = "rtuoverudp" then 3
  else if s = "tcp" then 4 else if s = "tcp+tls" then 5 else if s = "udp" then 6 else 0

/-- `if x == 0 { x = d }`; a default of 0 means "no default": the value is kept -/
def orDflt (x d : Int) : Int := if x = 0 then d else x

/-- documented defaults per scheme (0 = the scheme does not default the field) -/
def ctorDfltSpeed (s : String) : Int :=
  if s = "rtu" then 19200 else if s = "rtuovertcp" then 19200 else if s = "rtuoverudp" then 19200 else 0
def ctorDfltDataBits (s : String) : Int := if s = "rtu" then 8 else 0
def ctorDfltStopBits (s : String) (parity : Int) : Int :=
  if s = "rtu" then (if parity = 0 then 2 else 1) else 0
def ctorDfltTimeout (s : String) : Int :=
  if s = "rtu" then 300000000
  else if s = "rtuovertcp" then 1000000000 else if s = "rtuoverudp" then 1000000000
  else if s = "tcp" then 1000000000 else if s = "tcp+tls" then 1000000000
  else if s = "udp" then 1000000000 else 0

/-- the value of `clientType` at the switch: `splitURL[0]` when there are two parts, else `""` -/
def CtorCli.ctype (i : CtorCli) : String := if i.parts = 2 then i.scheme else ""

/-- the configuration is accepted: a client scheme, and credentials when it is tcp+tls -/
def CtorCli.ok (i : CtorCli) : Prop :=
  ctorSchemeType i.ctype ≠ 0 ∧ (i.ctype = "tcp+tls" → i.cert ≠ "nil" ∧ i.roots ≠ "nil")

instance (i : CtorCli) : Decidable i.ok := by unfold CtorCli.ok; exact inferInstance

/-- what is observed of a finished run of `NewClient`: how it ended, the calls, the final bindings
    (`Env.read?`) of the named result, of the object's fields and of the two constant names (which
    must stay unbound), and how often the five fields that matter for "not assigned" are bound
    (entry binding included) -/
def ctorCliObs (r : Res) : End × Calls × List (Option Val) × List Nat :=
  (r.how, r.calls,
   ["err", "mc.transportType", "mc.conf.URL", "mc.conf.Speed", "mc.conf.DataBits", "mc.conf.StopBits",
    "mc.conf.Parity", "mc.conf.Timeout", "mc.unitId", "mc.endianness", "mc.wordOrder",
    "ErrConfigurationError", "nil"].map (Env.read? r.env),
   ["mc.transportType", "mc.unitId", "mc.endianness", "mc.wordOrder", "mc.conf.Parity"].map
     (fun k => writes k r.env))

/-- what it must be -/
def ctorCliExp (i : CtorCli) : End × Calls × List (Option Val) × List Nat :=
  (.returned,
   [("strings.SplitN", [.sym i.url, .sym "://", .int 2]),
    ("newLogger", [.sym "modbus-client(…)", .sym "conf.Logger"])],
   [some (.sym (if i.ok then "nil" else "ErrConfigurationError")),
    some (.int (if i.ok then ctorSchemeType i.ctype else 0)),
    some (.sym (if i.parts = 2 then i.rest else i.url)),
    some (.int (orDflt i.speed (ctorDfltSpeed i.ctype))),
    some (.int (orDflt i.dataBits (ctorDfltDataBits i.ctype))),
    some (.int (orDflt i.stopBits (ctorDfltStopBits i.ctype i.parity))),
    some (.int i.parity),
    some (.int (orDflt i.timeout (ctorDfltTimeout i.ctype))),
    some (.int (if i.ok then 1 else 0)), some (.int (if i.ok then 1 else 0)),
    some (.int (if i.ok then 1 else 0)), none, none],
   [if i.ok then 2 else 1, if i.ok then 2 else 1, if i.ok then 2 else 1, if i.ok then 2 else 1, 1])

theorem ctorCliObs_ite (p : Prop) [Decidable p] (x y : Res) :
    ctorCliObs (if p then x else y) = if p then ctorCliObs x else ctorCliObs y := by
  split <;> rfl

theorem ctor_writes_nil (x : String) : writes x [] = 0 := by exact id rfl
theorem ctor_writes_cons (x k : String) (v : Val) (env : Env) :
    writes x ((k, v) :: env) = writes x env + (if k = x then 1 else 0) :=
  writes_write x k v env

/-- fuel used for the fixed-fuel runs of both constructors -/
def ctorFuel : Nat := 40

/-- closes an observation goal after `go_eval`: every leaf of the `if`-tree against the table -/
macro "ctor_close" " [" ls:Lean.Parser.Tactic.simpLemma,* "]" : tactic => `(tactic|
  (repeat' split
   all_goals
     first
     | (simp [ctorCliObs, Env.read, read?_write, read?_cons, read?_nil, writes_write, ctor_writes_cons,
         ctor_writes_nil, orDflt, *, $ls,*]; done)
     | (simp_all [ctorCliObs, Env.read, read?_write, read?_cons, read?_nil, writes_write, ctor_writes_cons,
         ctor_writes_nil, orDflt, $ls,*]; done)))

/-! ### 2. `NewClient`, arm by arm -/

theorem ctorCli_rtu (i : CtorCli) (sp lg : Val) (hp : i.parts = 2) (hs : i.scheme = "rtu") :
    ctorCliObs (execFrom (ctorOracle sp lg) ctorFuel gs_NewClient (ctorCliEnv i) []) = ctorCliExp i := by
  obtain ⟨url, speed, dataBits, stopBits, parity, timeout, cert, roots, parts, scheme, rest⟩ := i
  simp only at hp hs
  subst hp hs
  simp only [ctorCliExp, CtorCli.ok, CtorCli.ctype, ctorSchemeType, ctorDfltSpeed, ctorDfltDataBits,
    ctorDfltStopBits, ctorDfltTimeout, String.reduceEq, ↓reduceIte, ne_eq, Int.reduceEq, not_false_eq_true,
    true_and, false_implies, ctorFuel]
  go_eval [gs_NewClient, ctorOracle, ctorCliEnv, ctorCliObs_ite]
  ctor_close []

theorem ctorCli_rtuovertcp (i : CtorCli) (sp lg : Val) (hp : i.parts = 2) (hs : i.scheme = "rtuovertcp") :
    ctorCliObs (execFrom (ctorOracle sp lg) ctorFuel gs_NewClient (ctorCliEnv i) []) = ctorCliExp i := by
  obtain ⟨url, speed, dataBits, stopBits, parity, timeout, cert, roots, parts, scheme, rest⟩ := i
  simp only at hp hs
  subst hp hs
  simp only [ctorCliExp, CtorCli.ok, CtorCli.ctype, ctorSchemeType, ctorDfltSpeed, ctorDfltDataBits,
    ctorDfltStopBits, ctorDfltTimeout, String.reduceEq, ↓reduceIte, ne_eq, Int.reduceEq, not_false_eq_true,
    true_and, false_implies, forall_const, ctorFuel]
  go_eval [gs_NewClient, ctorOracle, ctorCliEnv, ctorCliObs_ite]
  ctor_close []

theorem ctorCli_rtuoverudp (i : CtorCli) (sp lg : Val) (hp : i.parts = 2) (hs : i.scheme = "rtuoverudp") :
    ctorCliObs (execFrom (ctorOracle sp lg) ctorFuel gs_NewClient (ctorCliEnv i) []) = ctorCliExp i := by
  obtain ⟨url, speed, dataBits, stopBits, parity, timeout, cert, roots, parts, scheme, rest⟩ := i
  simp only at hp hs
  subst hp hs
  simp only [ctorCliExp, CtorCli.ok, CtorCli.ctype, ctorSchemeType, ctorDfltSpeed, ctorDfltDataBits,
    ctorDfltStopBits, ctorDfltTimeout, String.reduceEq, ↓reduceIte, ne_eq, Int.reduceEq, not_false_eq_true,
    true_and, false_implies, forall_const, ctorFuel]
  go_eval [gs_NewClient, ctorOracle, ctorCliEnv, ctorCliObs_ite]
  ctor_close []

theorem ctorCli_tcp (i : CtorCli) (sp lg : Val) (hp : i.parts = 2) (hs : i.scheme = "tcp") :
    ctorCliObs (execFrom (ctorOracle sp lg) ctorFuel gs_NewClient (ctorCliEnv i) []) = ctorCliExp i := by
  obtain ⟨url, speed, dataBits, stopBits, parity, timeout, cert, roots, parts, scheme, rest⟩ := i
  simp only at hp hs
  subst hp hs
  simp only [ctorCliExp, CtorCli.ok, CtorCli.ctype, ctorSchemeType, ctorDfltSpeed, ctorDfltDataBits,
    ctorDfltStopBits, ctorDfltTimeout, String.reduceEq, ↓reduceIte, ne_eq, Int.reduceEq, not_false_eq_true,
    true_and, false_implies, forall_const, ctorFuel]
  go_eval [gs_NewClient, ctorOracle, ctorCliEnv, ctorCliObs_ite]
  ctor_close []

theorem ctorCli_tls (i : CtorCli) (sp lg : Val) (hp : i.parts = 2) (hs : i.scheme = "tcp+tls") :
    ctorCliObs (execFrom (ctorOracle sp lg) ctorFuel gs_NewClient (ctorCliEnv i) []) = ctorCliExp i := by
  obtain ⟨url, speed, dataBits, stopBits, parity, timeout, cert, roots, parts, scheme, rest⟩ := i
  simp only at hp hs
  subst hp hs
  simp only [ctorCliExp, CtorCli.ok, CtorCli.ctype, ctorSchemeType, ctorDfltSpeed, ctorDfltDataBits,
    ctorDfltStopBits, ctorDfltTimeout, String.reduceEq, ↓reduceIte, ne_eq, Int.reduceEq, not_false_eq_true,
    true_and, false_implies, forall_const, ctorFuel]
  go_eval [gs_NewClient, ctorOracle, ctorCliEnv, ctorCliObs_ite]
  ctor_close []

theorem ctorCli_udp (i : CtorCli) (sp lg : Val) (hp : i.parts = 2) (hs : i.scheme = "udp") :
    ctorCliObs (execFrom (ctorOracle sp lg) ctorFuel gs_NewClient (ctorCliEnv i) []) = ctorCliExp i := by
  obtain ⟨url, speed, dataBits, stopBits, parity, timeout, cert, roots, parts, scheme, rest⟩ := i
  simp only at hp hs
  subst hp hs
  simp only [ctorCliExp, CtorCli.ok, CtorCli.ctype, ctorSchemeType, ctorDfltSpeed, ctorDfltDataBits,
    ctorDfltStopBits, ctorDfltTimeout, String.reduceEq, ↓reduceIte, ne_eq, Int.reduceEq, not_false_eq_true,
    true_and, false_implies, forall_const, ctorFuel]
  go_eval [gs_NewClient, ctorOracle, ctorCliEnv, ctorCliObs_ite]
  ctor_close []

/-- two parts, a scheme that is none of the six: the `default:` arm -/
theorem ctorCli_other (i : CtorCli) (sp lg : Val) (hp : i.parts = 2)
    (h1 : i.scheme ≠ "rtu") (h2 : i.scheme ≠ "rtuovertcp") (h3 : i.scheme ≠ "rtuoverudp")
    (h4 : i.scheme ≠ "tcp") (h5 : i.scheme ≠ "tcp+tls") (h6 : i.scheme ≠ "udp") :
    ctorCliObs (execFrom (ctorOracle sp lg) ctorFuel gs_NewClient (ctorCliEnv i) []) = ctorCliExp i := by
  obtain ⟨url, speed, dataBits, stopBits, parity, timeout, cert, roots, parts, scheme, rest⟩ := i
  simp only [ne_eq] at hp h1 h2 h3 h4 h5 h6
  subst hp
  simp only [ctorCliExp, CtorCli.ok, CtorCli.ctype, ctorSchemeType, ctorDfltSpeed, ctorDfltDataBits,
    ctorDfltStopBits, ctorDfltTimeout, h1, h2, h3, h4, h5, h6, String.reduceEq, ↓reduceIte, ne_eq,
    Int.reduceEq, not_false_eq_true, not_true_eq_false, false_and, true_and, false_implies, forall_const,
    ctorFuel]
  go_eval [gs_NewClient, ctorOracle, ctorCliEnv, ctorCliObs_ite, h1, h2, h3, h4, h5, h6, decide_false]
  ctor_close []

/-- `len(splitURL) ≠ 2`: `clientType` stays `""`, the `default:` arm -/
theorem ctorCli_noscheme (i : CtorCli) (sp lg : Val) (hp : i.parts ≠ 2) :
    ctorCliObs (execFrom (ctorOracle sp lg) ctorFuel gs_NewClient (ctorCliEnv i) []) = ctorCliExp i := by
  obtain ⟨url, speed, dataBits, stopBits, parity, timeout, cert, roots, parts, scheme, rest⟩ := i
  simp only [ne_eq] at hp
  simp only [ctorCliExp, CtorCli.ok, CtorCli.ctype, ctorSchemeType, ctorDfltSpeed, ctorDfltDataBits,
    ctorDfltStopBits, ctorDfltTimeout, hp, String.reduceEq, ↓reduceIte, ne_eq,
    Int.reduceEq, not_false_eq_true, not_true_eq_false, false_and, true_and, false_implies, forall_const,
    ctorFuel]
  go_eval [gs_NewClient, ctorOracle, ctorCliEnv, ctorCliObs_ite, hp, decide_false, decide_true]
  ctor_close []

/-- **`NewClient`, every input**: the observation of the run at fuel `ctorFuel` is the table -/
theorem ctorCli_obs (i : CtorCli) (sp lg : Val) :
    ctorCliObs (execFrom (ctorOracle sp lg) ctorFuel gs_NewClient (ctorCliEnv i) []) = ctorCliExp i := by
  by_cases hp : i.parts = 2
  · by_cases h1 : i.scheme = "rtu"
    · exact ctorCli_rtu i sp lg hp h1
    by_cases h2 : i.scheme = "rtuovertcp"
    · exact ctorCli_rtuovertcp i sp lg hp h2
    by_cases h3 : i.scheme = "rtuoverudp"
    · exact ctorCli_rtuoverudp i sp lg hp h3
    by_cases h4 : i.scheme = "tcp"
    · exact ctorCli_tcp i sp lg hp h4
    by_cases h5 : i.scheme = "tcp+tls"
    · exact ctorCli_tls i sp lg hp h5
    by_cases h6 : i.scheme = "udp"
    · exact ctorCli_udp i sp lg hp h6
    exact ctorCli_other i sp lg hp h1 h2 h3 h4 h5 h6
  · exact ctorCli_noscheme i sp lg hp

/-- the run is the same for every larger fuel -/
theorem ctorCli_run_ge (i : CtorCli) (sp lg : Val) (fuel : Nat) (hf : ctorFuel ≤ fuel) :
    exec (ctorOracle sp lg) fuel gs_NewClient (ctorCliEnv i) =
      execFrom (ctorOracle sp lg) ctorFuel gs_NewClient (ctorCliEnv i) [] := by
  refine execFrom_mono _ ctorFuel fuel _ _ [] hf ?_
  have h := congrArg (·.1) (ctorCli_obs i sp lg)
  simp only [ctorCliObs, ctorCliExp] at h
  rw [h]
  exact fun x => nomatch x

/-! ### 2b. `NewServer` -/

/-- everything `NewServer` reads: `url` = `conf.URL`, `timeout` (int64 ns), `maxClients` (`uint`),
    `cert` / `cas` the pointer values of `conf.TLSServerCert` / `conf.TLSClientCAs` (`"nil"` = absent),
    the result of `strings.SplitN` as for the client -/
structure CtorSrv where
  url : String
  timeout : Int
  maxClients : Int
  cert : String
  cas : String
  parts : Int
  scheme : String
  rest : String

/-- entry environment of `NewServer` (same conventions as `ctorCliEnv`) -/
def ctorSrvEnv (i : CtorSrv) : Env :=
  [("ms.conf.URL", .sym i.url), ("ms.conf.Timeout", .int i.timeout),
   ("ms.conf.MaxClients", .int i.maxClients), ("ms.conf.TLSServerCert", .sym i.cert),
   ("ms.conf.TLSClientCAs", .sym i.cas),
   ("len(splitURL)", .int i.parts), ("splitURL[0]", .sym i.scheme), ("splitURL[1]", .sym i.rest),
   ("serverType", .sym ""), ("err", .sym "nil"), ("ms.transportType", .int 0),
   ("\"://\"", .sym "://"), ("\"\"", .sym ""), ("\"tcp\"", .sym "tcp"), ("\"tcp+tls\"", .sym "tcp+tls"),
   ("ms.conf.Logger", .sym "conf.Logger"),
   ("fmt.Sprintf(\"modbus-server(%s)\", ms.conf.URL)", .sym "modbus-server(…)"),
   ("&ModbusServer{ conf: *conf, handler: reqHandler, }", .sym "new(ModbusServer)")]

/-- the value of `serverType` at the switch -/
def CtorSrv.stype (i : CtorSrv) : String := if i.parts = 2 then i.scheme else ""
/-- the value of `ms.conf.URL` at the empty-address test: the part after "://", or the whole URL -/
def CtorSrv.host (i : CtorSrv) : String := if i.parts = 2 then i.rest else i.url

/-- transport type number of a server scheme; 0: not a server scheme -/
def ctorSrvType (s : String) : Int := if s = "tcp" then 4 else if s = "tcp+tls" then 5 else 0
/-- documented server defaults: 120 s idle timeout, 10 clients, for both schemes -/
def ctorSrvDfltTimeout (s : String) : Int :=
  if s = "tcp" then 120000000000 else if s = "tcp+tls" then 120000000000 else 0
def ctorSrvDfltMaxClients (s : String) : Int := if s = "tcp" then 10 else if s = "tcp+tls" then 10 else 0

/-- accepted: a non-empty address, a server scheme, credentials when it is tcp+tls -/
def CtorSrv.ok (i : CtorSrv) : Prop :=
  i.host ≠ "" ∧ ctorSrvType i.stype ≠ 0 ∧ (i.stype = "tcp+tls" → i.cert ≠ "nil" ∧ i.cas ≠ "nil")

instance (i : CtorSrv) : Decidable i.ok := by unfold CtorSrv.ok; exact inferInstance

def ctorSrvObs (r : Res) : End × Calls × List (Option Val) × List Nat :=
  (r.how, r.calls,
   ["err", "ms.transportType", "ms.conf.URL", "ms.conf.Timeout", "ms.conf.MaxClients",
    "ErrConfigurationError", "nil"].map (Env.read? r.env),
   ["ms.transportType", "ms.conf.Timeout", "ms.conf.MaxClients"].map (fun k => writes k r.env))

/-- the empty address is refused BEFORE the switch: then no default is applied (the two fields keep
    one binding); otherwise the defaults of the scheme apply (0 = none) -/
def ctorSrvExp (i : CtorSrv) : End × Calls × List (Option Val) × List Nat :=
  (.returned,
   [("strings.SplitN", [.sym i.url, .sym "://", .int 2]),
    ("newLogger", [.sym "modbus-server(…)", .sym "conf.Logger"])],
   [some (.sym (if i.ok then "nil" else "ErrConfigurationError")),
    some (.int (if i.ok then ctorSrvType i.stype else 0)),
    some (.sym i.host),
    some (.int (if i.host = "" then i.timeout else orDflt i.timeout (ctorSrvDfltTimeout i.stype))),
    some (.int (if i.host = "" then i.maxClients else orDflt i.maxClients (ctorSrvDfltMaxClients i.stype))),
    none, none],
   [if i.ok then 2 else 1,
    if i.host = "" then 1 else if i.timeout = 0 ∧ ctorSrvType i.stype ≠ 0 then 2 else 1,
    if i.host = "" then 1 else if i.maxClients = 0 ∧ ctorSrvType i.stype ≠ 0 then 2 else 1])

theorem ctorSrvObs_ite (p : Prop) [Decidable p] (x y : Res) :
    ctorSrvObs (if p then x else y) = if p then ctorSrvObs x else ctorSrvObs y := by
  split <;> rfl

macro "ctor_close_srv" " [" ls:Lean.Parser.Tactic.simpLemma,* "]" : tactic => `(tactic|
  (repeat' split
   all_goals
     first
     | (simp [ctorSrvObs, Env.read, read?_write, read?_cons, read?_nil, writes_write, ctor_writes_cons,
         ctor_writes_nil, orDflt, *, $ls,*]; done)
     | (simp_all [ctorSrvObs, Env.read, read?_write, read?_cons, read?_nil, writes_write, ctor_writes_cons,
         ctor_writes_nil, orDflt, $ls,*]; done)))

theorem ctorSrv_tcp (i : CtorSrv) (sp lg : Val) (hp : i.parts = 2) (hs : i.scheme = "tcp") :
    ctorSrvObs (execFrom (ctorOracle sp lg) ctorFuel gs_NewServer (ctorSrvEnv i) []) = ctorSrvExp i := by
  obtain ⟨url, timeout, maxClients, cert, cas, parts, scheme, rest⟩ := i
  simp only at hp hs
  subst hp hs
  simp only [ctorSrvExp, CtorSrv.ok, CtorSrv.stype, CtorSrv.host, ctorSrvType, ctorSrvDfltTimeout,
    ctorSrvDfltMaxClients, String.reduceEq, ↓reduceIte, ne_eq, Int.reduceEq, not_false_eq_true,
    true_and, and_true, false_implies, forall_const, ctorFuel]
  go_eval [gs_NewServer, ctorOracle, ctorSrvEnv, ctorSrvObs_ite]
  ctor_close_srv []

theorem ctorSrv_tls (i : CtorSrv) (sp lg : Val) (hp : i.parts = 2) (hs : i.scheme = "tcp+tls") :
    ctorSrvObs (execFrom (ctorOracle sp lg) ctorFuel gs_NewServer (ctorSrvEnv i) []) = ctorSrvExp i := by
  obtain ⟨url, timeout, maxClients, cert, cas, parts, scheme, rest⟩ := i
  simp only at hp hs
  subst hp hs
  simp only [ctorSrvExp, CtorSrv.ok, CtorSrv.stype, CtorSrv.host, ctorSrvType, ctorSrvDfltTimeout,
    ctorSrvDfltMaxClients, String.reduceEq, ↓reduceIte, ne_eq, Int.reduceEq, not_false_eq_true,
    true_and, and_true, false_implies, forall_const, ctorFuel]
  go_eval [gs_NewServer, ctorOracle, ctorSrvEnv, ctorSrvObs_ite]
  ctor_close_srv []

theorem ctorSrv_other (i : CtorSrv) (sp lg : Val) (hp : i.parts = 2)
    (h1 : i.scheme ≠ "tcp") (h2 : i.scheme ≠ "tcp+tls") :
    ctorSrvObs (execFrom (ctorOracle sp lg) ctorFuel gs_NewServer (ctorSrvEnv i) []) = ctorSrvExp i := by
  obtain ⟨url, timeout, maxClients, cert, cas, parts, scheme, rest⟩ := i
  simp only [ne_eq] at hp h1 h2
  subst hp
  simp only [ctorSrvExp, CtorSrv.ok, CtorSrv.stype, CtorSrv.host, ctorSrvType, ctorSrvDfltTimeout,
    ctorSrvDfltMaxClients, h1, h2, String.reduceEq, ↓reduceIte, ne_eq, Int.reduceEq, not_false_eq_true,
    not_true_eq_false, false_and, and_false, true_and, and_true, false_implies, forall_const, ctorFuel]
  go_eval [gs_NewServer, ctorOracle, ctorSrvEnv, ctorSrvObs_ite, h1, h2, decide_false]
  ctor_close_srv []

theorem ctorSrv_noscheme (i : CtorSrv) (sp lg : Val) (hp : i.parts ≠ 2) :
    ctorSrvObs (execFrom (ctorOracle sp lg) ctorFuel gs_NewServer (ctorSrvEnv i) []) = ctorSrvExp i := by
  obtain ⟨url, timeout, maxClients, cert, cas, parts, scheme, rest⟩ := i
  simp only [ne_eq] at hp
  simp only [ctorSrvExp, CtorSrv.ok, CtorSrv.stype, CtorSrv.host, ctorSrvType, ctorSrvDfltTimeout,
    ctorSrvDfltMaxClients, hp, String.reduceEq, ↓reduceIte, ne_eq, Int.reduceEq, not_false_eq_true,
    not_true_eq_false, false_and, and_false, true_and, and_true, false_implies, forall_const, ctorFuel]
  go_eval [gs_NewServer, ctorOracle, ctorSrvEnv, ctorSrvObs_ite, hp, decide_false, decide_true]
  ctor_close_srv []

/-- **`NewServer`, every input**: the observation of the run at fuel `ctorFuel` is the table -/
theorem ctorSrv_obs (i : CtorSrv) (sp lg : Val) :
    ctorSrvObs (execFrom (ctorOracle sp lg) ctorFuel gs_NewServer (ctorSrvEnv i) []) = ctorSrvExp i := by
  by_cases hp : i.parts = 2
  · by_cases h1 : i.scheme = "tcp"
    · exact ctorSrv_tcp i sp lg hp h1
    by_cases h2 : i.scheme = "tcp+tls"
    · exact ctorSrv_tls i sp lg hp h2
    exact ctorSrv_other i sp lg hp h1 h2
  · exact ctorSrv_noscheme i sp lg hp

theorem ctorSrv_run_ge (i : CtorSrv) (sp lg : Val) (fuel : Nat) (hf : ctorFuel ≤ fuel) :
    exec (ctorOracle sp lg) fuel gs_NewServer (ctorSrvEnv i) =
      execFrom (ctorOracle sp lg) ctorFuel gs_NewServer (ctorSrvEnv i) [] := by
  refine execFrom_mono _ ctorFuel fuel _ _ [] hf ?_
  have h := congrArg (·.1) (ctorSrv_obs i sp lg)
  simp only [ctorSrvObs, ctorSrvExp] at h
  rw [h]
  exact fun x => nomatch x

/-! ### 3. the setters -/

/-- **`SetEncoding`, every pair of selector values, any entry environment, any oracle** (no call is
    made), fuel 8: both selectors valid → both fields assigned, in this order, nothing else;
    otherwise `err = ErrUnexpectedParameters` and NOTHING else is bound -/
theorem ctorEnc_run (o : Oracle) (env : Env) (cs : Calls) (e w : Int)
    (he : Env.read? env "endianness" = some (.int e)) (hw : Env.read? env "wordOrder" = some (.int w))
    (hx : Env.read? env "ErrUnexpectedParameters" = none) :
    execFrom o 8 gs_ModbusClient_SetEncoding env cs =
      if (e = 1 ∨ e = 2) ∧ (w = 1 ∨ w = 2) then
        ⟨Env.write (Env.write env "mc.endianness" (.int e)) "mc.wordOrder" (.int w), .returned, cs⟩
      else ⟨Env.write env "err" (.sym "ErrUnexpectedParameters"), .returned, cs⟩ := by
  by_cases e1 : e = 1 <;> by_cases e2 : e = 2 <;> by_cases w1 : w = 1 <;> by_cases w2 : w = 2 <;>
    go_eval [gs_ModbusClient_SetEncoding, he, hw, hx, e1, e2, w1, w2, ne_eq, not_true_eq_false,
      not_false_eq_true, decide_true, decide_false, Int.reduceEq, or_self, or_true, true_or, or_false,
      false_or, and_false, false_and]

/-- **`SetUnitId`**: the parameter's value is assigned, whatever it is; nothing else happens -/
theorem ctorUnit_run (o : Oracle) (env : Env) (cs : Calls) (v : Val)
    (hid : Env.read? env "id" = some v) :
    execFrom o 3 gs_ModbusClient_SetUnitId env cs = ⟨Env.write env "mc.unitId" v, .returned, cs⟩ := by
  go_eval [gs_ModbusClient_SetUnitId, hid]

/-! ### 4. deriving variants from the generated terms -/

/-- top-down rewriting: where `f` answers, the node is replaced (and not entered); elsewhere the
    children are rewritten -/
def ctorRewrite (f : GStmt → Option GStmt) : GStmt → GStmt
  | .seq a b => (f (.seq a b)).getD (.seq (ctorRewrite f a) (ctorRewrite f b))
  | .ite c t e => (f (.ite c t e)).getD (.ite c (ctorRewrite f t) (ctorRewrite f e))
  | .loop b => (f (.loop b)).getD (.loop (ctorRewrite f b))
  | s => (f s).getD s

/-- number of nodes `ctorRewrite f` replaces -/
def ctorSites (f : GStmt → Option GStmt) : GStmt → Nat
  | .seq a b => if (f (.seq a b)).isSome then 1 else ctorSites f a + ctorSites f b
  | .ite c t e => if (f (.ite c t e)).isSome then 1 else ctorSites f t + ctorSites f e
  | .loop b => if (f (.loop b)).isSome then 1 else ctorSites f b
  | s => if (f s).isSome then 1 else 0

/-- the condition expressions of all `if`s, in program order -/
def ctorConds : GStmt → List GExpr
  | .seq a b => ctorConds a ++ ctorConds b
  | .ite c t e => c :: (ctorConds t ++ ctorConds e)
  | .loop b => ctorConds b
  | _ => []

/-- every assignment `(target, right-hand side)`, in program order, all paths -/
def ctorAssigns : GStmt → List (String × GExpr)
  | .assign x e => [(x, e)]
  | .seq a b => ctorAssigns a ++ ctorAssigns b
  | .ite _ t e => ctorAssigns t ++ ctorAssigns e
  | .loop b => ctorAssigns b
  | _ => []

/-- targets bound by an assignment or a call, all paths -/
def ctorTargets : GStmt → List String
  | .assign x _ => [x]
  | .bindCall ts _ _ => ts
  | .seq a b => ctorTargets a ++ ctorTargets b
  | .ite _ t e => ctorTargets t ++ ctorTargets e
  | .loop b => ctorTargets b
  | _ => []

/-- literal value of an expression, if it is a literal -/
def ctorLit? : GExpr → Option Int
  | .lit v _ => some v
  | _ => none

/-- the string-literal leaf a `x == "…"` test compares with -/
def ctorCmpLit? : GExpr → Option (String × String)
  | .cmp "==" (.var x _) (.call l _) => some (x, l)
  | _ => none

/-- an assignment as data: target, literal value if the right-hand side is a literal, leaf text if
    it is a leaf -/
def ctorAsg (p : String × GExpr) : String × Option Int × Option String := (p.1, ctorLit? p.2, leafText? p.2)

/-- the arms of an `if / else if` chain: for each test the assignments of its arm; last: the else -/
def ctorArms : GStmt → List (Option (String × String) × List (String × Option Int × Option String))
  | .ite c t e => (ctorCmpLit? c, (ctorAssigns t).map ctorAsg) :: ctorArms e
  | s => [(none, (ctorAssigns s).map ctorAsg)]

/-- the body of the first loop of a statement (the `switch` of the constructors) -/
def ctorSwitch : GStmt → Option GStmt
  | .loop (.seq b .brk) => some b
  | .seq a b => (ctorSwitch a).orElse (fun _ => ctorSwitch b)
  | _ => none

end Modbus.GoEval
