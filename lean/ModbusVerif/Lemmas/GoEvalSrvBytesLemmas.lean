import ModbusVerif.Lemmas.GoEvalBytesLemmas
import ModbusVerif.Lemmas.GoEvalServerLemmas
/-
  Support for `Props/C03SrcBytes.lean`: the richer rendering `Gen.gsp_ModbusServer_handleTransport` of server.go
  `handleTransport` (every `append`, `[]byte{…}`, codec call is a call statement) run against the byte-string
  world `sliceWorld` of `GoEvalBytesLemmas`.

  1. ELEMENT STORES (`withStore0` / `stripStore0`). The two read arms build the payload as
         res = &pdu{…, payload: []byte{0}};  res.payload[0] = uint8(…);  [res.payload[0]++;]
         res.payload = append(res.payload, encoded...)
     `res.payload[0] = e` assigns an ELEMENT of a slice; the rendering has it as an assignment to the text leaf
     `res.payload[0]`, which the handle device (immutable objects) does not see. `withStore0 sl el` inserts after
     every `assign el e` the pseudo-call  `bindCall [sl] "bytes" [var el .u8]`  ("the one-element slice `sl` is
     now the one-element slice holding the value of `el`"); `stripStore0` removes exactly these pseudo-calls again
     (`srvB_strip`: stripping the instrumented term gives the generated term back). This is the meaning of a
     store to element 0 of a slice OF LENGTH ONE; `C03B_static_ops` / `C03B_static_stores` (Props/C03SrcBytes.lean) show that
     in the generated term every such assignment comes after `res.payload = []byte{0}` (object created by
     `bytes [0]`) with no `append` between.
  2. DECOMPOSITION. `srvGsB` (the instrumented term) is the skeleton `frameWithB` around seven `switch` arms and
     the tail (`srvB_frame`, by `rfl`); arms are named through accessors, nothing is copied by hand.
  3. ENVIRONMENT / WORLD of one iteration: `reqEnvB` = `Srv.reqEnvL` (Lemmas/GoEvalServerLemmas.lean: the leaves of
     the decoded request, `res = nil`, left-over `addr` / `quantity`, `len(coils)` = `len(regs)` = length of the
     handler's result, the composite literals as symbols) plus `res.payload` = handle `hnil` of the EMPTY slice
     (the `&pdu{ unitId: …, functionCode: … }` literal of the write arms has no `payload:` field: nil).
     `srvExtB pl hres herr` : `t.ReadRequest`, `bytesToUint16`, the four handler methods as `Srv.srvOracle pl
     (some [handle hres, sym herr])` (the handler's result slice is the INPUT object at handle `hres` of the
     entry log); `mapErrorToExceptionCode(err)` is answered by EVALUATING the generated
     `Gen.gs_mapErrorToExceptionCode` on the value of `err` (`mapCodeVal`); `t.Close` / `t.WriteResponse` are
     undefined: the iteration is cut there.
  4. OBSERVATION `builtB : Res → Calls × Option Action`: the handler calls of the log, and
     `t.Close` ↦ `close`; `t.WriteResponse(res)` ↦ `respond ⟨res.unitId, res.functionCode, bytes of res.payload⟩`
     (fields read from the final environment, both in 0..255, the payload through `bytesAt` on the final log).
-/
set_option linter.unusedSimpArgs false
set_option linter.unusedVariables false

namespace Modbus.GoEval.SrvB
open Modbus Modbus.Gen Modbus.GoEval Modbus.GoEval.Srv Modbus.Server

/-! ### 0. 16-bit objects -/

/-- a list of registers as object elements -/
def intsOfU16s (l : List U16) : List Int := l.map (fun v => (v.toNat : Int))

theorem u16sOfInts_intsOfU16s (l : List U16) : u16sOfInts (intsOfU16s l) = l := by
  induction l with
  | nil => rfl
  | cons v t ih =>
    simp only [u16sOfInts, intsOfU16s, List.map_cons, List.map_map] at ih ⊢
    rw [ih]
    simp only [Function.comp, ofInt16_toNat]

theorem u16sOfInts_length (l : List Int) : (u16sOfInts l).length = l.length := by
  simp only [u16sOfInts, List.length_map]
theorem boolsOfInts_length (l : List Int) : (boolsOfInts l).length = l.length := by
  simp only [boolsOfInts, List.length_map]

/-! ### 1. element stores -/

/-- after every `assign el e` re-create the one-element slice `sl` from the value of `el` -/
def withStore0 (sl el : String) : GStmt → GStmt
  | .assign x e =>
    if x = el then .seq (.assign x e) (.bindCall [sl] "bytes" [.var el .u8]) else .assign x e
  | .seq a b => .seq (withStore0 sl el a) (withStore0 sl el b)
  | .ite c t e => .ite c (withStore0 sl el t) (withStore0 sl el e)
  | .loop b => .loop (withStore0 sl el b)
  | s => s

/-- is this the pseudo-call `sl = bytes [el]` -/
def isStore0 (sl el : String) : GStmt → Bool
  | .bindCall [t] f [.var y .u8] => t = sl && f = "bytes" && y = el
  | _ => false

/-- remove the pseudo-calls again -/
def stripStore0 (sl el : String) : GStmt → GStmt
  | .seq (.assign x e) b =>
    if x = el ∧ isStore0 sl el b = true then .assign x e else .seq (.assign x e) (stripStore0 sl el b)
  | .seq a b => .seq (stripStore0 sl el a) (stripStore0 sl el b)
  | .ite c t e => .ite c (stripStore0 sl el t) (stripStore0 sl el e)
  | .loop b => .loop (stripStore0 sl el b)
  | s => s

/-- the instrumented term -/
def srvGsB : GStmt := withStore0 "res.payload" "res.payload[0]" gsp_ModbusServer_handleTransport

set_option maxRecDepth 100000 in
/-- nothing but the pseudo-calls was added -/
theorem srvB_strip : stripStore0 "res.payload" "res.payload[0]" srvGsB = gsp_ModbusServer_handleTransport := by
  rfl

/-! ### 2. decomposition -/

def srvBodyB : GStmt := lB (sA srvGsB)
def srvSwitchB : GStmt := sA (lB (sA (sB (sB srvBodyB))))
def srvTailB : GStmt := sB (sB (sB srvBodyB))
def armB12 : GStmt := iT srvSwitchB
def armB5 : GStmt := iT (iE srvSwitchB)
def armB15 : GStmt := iT (iE (iE srvSwitchB))
def armB34 : GStmt := iT (iE (iE (iE srvSwitchB)))
def armB6 : GStmt := iT (iE (iE (iE (iE srvSwitchB))))
def armB16 : GStmt := iT (iE (iE (iE (iE (iE srvSwitchB)))))
def armBDef : GStmt := iE (iE (iE (iE (iE (iE srvSwitchB)))))

/-- the skeleton of `handleTransport` around seven `switch` arms and the tail -/
def frameWithB (a12 a5 a15 a34 a6 a16 aDef tail : GStmt) : GStmt :=
  .seq (.loop (.seq (.bindCall ["req", "err"] "t.ReadRequest" [])
    (.seq (.ite (.cmp "!=" (.var "err" .other) (.var "nil" .other)) .ret .skip)
    (.seq (.loop (.seq
      (.ite (.or (fcIs 1) (fcIs 2)) a12
      (.ite (fcIs 5) a5
      (.ite (fcIs 15) a15
      (.ite (.or (fcIs 3) (fcIs 4)) a34
      (.ite (fcIs 6) a6
      (.ite (fcIs 16) a16 aDef)))))) .brk)) tail)))) .ret

set_option maxRecDepth 100000 in
/-- the instrumented term is this skeleton around its arms -/
theorem srvB_frame : srvGsB = frameWithB armB12 armB5 armB15 armB34 armB6 armB16 armBDef srvTailB := by rfl

/-! ### 3. environment and world -/

/-- the entry environment of one iteration: `Srv.reqEnvL` plus `res.payload` = the handle of the empty slice -/
def reqEnvB (hnil : Nat) (unit fc len a0 q0 n : Int) (dyn : Env) : Env :=
  ("res.payload", .int (hnil : Int)) :: reqEnvL unit fc len a0 q0 n dyn

/-- `mapErrorToExceptionCode(v)`: the generated function evaluated on the value `v` of its parameter -/
def mapCodeVal (v : Val) : Val :=
  Env.read (exec (fun _ _ => none) 40 gs_mapErrorToExceptionCode [("err", v)]).env "exceptionCode"

/-- the world of one iteration (see the header) -/
def srvExtB (pl : Bytes) (hres : Nat) (herr : String) : World := fun _ f args =>
  if f = "mapErrorToExceptionCode" then some [mapCodeVal (args.headD .unk)]
  else srvOracle pl (some [.int (hres : Int), .sym herr]) f args

theorem sliceWorld_srv (ext : World) (cs : Calls) (f : String) (args : List Val)
    (h : isSliceCallee f = false) : sliceWorld ext cs f args = ext cs f args :=
  sliceWorld_other ext cs f args h
theorem sliceWorld_readRequest (ext : World) (cs args) :
    sliceWorld ext cs "t.ReadRequest" args = ext cs "t.ReadRequest" args :=
  sliceWorld_other ext cs _ args (by decide)
theorem sliceWorld_b2u16 (ext : World) (cs args) :
    sliceWorld ext cs "bytesToUint16" args = ext cs "bytesToUint16" args :=
  sliceWorld_other ext cs _ args (by decide)
theorem sliceWorld_hCoils (ext : World) (cs args) :
    sliceWorld ext cs "ms.handler.HandleCoils" args = ext cs "ms.handler.HandleCoils" args :=
  sliceWorld_other ext cs _ args (by decide)
theorem sliceWorld_hDiscrete (ext : World) (cs args) :
    sliceWorld ext cs "ms.handler.HandleDiscreteInputs" args = ext cs "ms.handler.HandleDiscreteInputs" args :=
  sliceWorld_other ext cs _ args (by decide)
theorem sliceWorld_hHolding (ext : World) (cs args) :
    sliceWorld ext cs "ms.handler.HandleHoldingRegisters" args = ext cs "ms.handler.HandleHoldingRegisters" args :=
  sliceWorld_other ext cs _ args (by decide)
theorem sliceWorld_hInput (ext : World) (cs args) :
    sliceWorld ext cs "ms.handler.HandleInputRegisters" args = ext cs "ms.handler.HandleInputRegisters" args :=
  sliceWorld_other ext cs _ args (by decide)
theorem sliceWorld_mapErr (ext : World) (cs args) :
    sliceWorld ext cs "mapErrorToExceptionCode" args = ext cs "mapErrorToExceptionCode" args :=
  sliceWorld_other ext cs _ args (by decide)
theorem sliceWorld_close (ext : World) (cs args) :
    sliceWorld ext cs "t.Close" args = ext cs "t.Close" args :=
  sliceWorld_other ext cs _ args (by decide)
theorem sliceWorld_writeResponse (ext : World) (cs args) :
    sliceWorld ext cs "t.WriteResponse" args = ext cs "t.WriteResponse" args :=
  sliceWorld_other ext cs _ args (by decide)

/-! ### 4. observation -/

/-- the handler calls of a log -/
def hcallsB : Calls → Calls
  | [] => []
  | c :: cs =>
    if c.1 = "ms.handler.HandleCoils" ∨ c.1 = "ms.handler.HandleDiscreteInputs" ∨
       c.1 = "ms.handler.HandleHoldingRegisters" ∨ c.1 = "ms.handler.HandleInputRegisters"
    then c :: hcallsB cs else hcallsB cs

theorem hcallsB_nil : hcallsB [] = [] := by exact id rfl
theorem hcallsB_cons (c cs) : hcallsB (c :: cs) =
    if c.1 = "ms.handler.HandleCoils" ∨ c.1 = "ms.handler.HandleDiscreteInputs" ∨
       c.1 = "ms.handler.HandleHoldingRegisters" ∨ c.1 = "ms.handler.HandleInputRegisters"
    then c :: hcallsB cs else hcallsB cs := by exact id rfl
theorem hcallsB_append (a b : Calls) : hcallsB (a ++ b) = hcallsB a ++ hcallsB b := by
  induction a with
  | nil => rfl
  | cons c t ih =>
    simp only [List.cons_append, hcallsB_cons, ih]
    split <;> rfl

/-- the response object: unit id and function code in the range of `byte`, payload = the bytes of a handle -/
def pduAt (u fc : Val) (cs : Calls) (p : Val) : Option Action :=
  match u, fc, p with
  | .int u, .int fc, .int h =>
    if 0 ≤ u ∧ u < 256 ∧ 0 ≤ fc ∧ fc < 256 ∧ 0 ≤ h then
      (match bytesAt cs h.toNat with
       | some b => some (.respond { unit := BitVec.ofInt 8 u, fc := BitVec.ofInt 8 fc, payload := b })
       | none => none)
    else none
  | _, _, _ => none

/-- what the iteration did to the transport: `t.Close()` reached ↦ `close`; `t.WriteResponse(res)` reached ↦
    `respond` of the object whose fields the final environment holds -/
def builtAction (r : Res) : Option Action :=
  match r.how with
  | .stoppedAt f args =>
    if f = "t.Close" then some .close
    else if f = "t.WriteResponse" ∧ args = [Env.read r.env "res"] then
      pduAt (Env.read r.env "res.unitId") (Env.read r.env "res.functionCode") r.calls
        (Env.read r.env "res.payload")
    else none
  | _ => none

/-- handler calls performed, and what was done to the transport -/
def builtB (r : Res) : Calls × Option Action := (hcallsB r.calls, builtAction r)

theorem builtB_stopped (env f args cs) : builtB ⟨env, .stoppedAt f args, cs⟩ =
    (hcallsB cs,
     if f = "t.Close" then some .close
     else if f = "t.WriteResponse" ∧ args = [Env.read env "res"] then
       pduAt (Env.read env "res.unitId") (Env.read env "res.functionCode") cs (Env.read env "res.payload")
     else none) := by exact id rfl
theorem builtB_ite (p : Prop) [Decidable p] (x y : Res) :
    builtB (if p then x else y) = if p then builtB x else builtB y := by
  split <;> exact id rfl
theorem builtB_returned (env cs) : builtB ⟨env, .returned, cs⟩ = (hcallsB cs, none) := by exact id rfl
theorem builtB_fell (env cs) : builtB ⟨env, .fell, cs⟩ = (hcallsB cs, none) := by exact id rfl
theorem builtB_stuck (env t cs) : builtB ⟨env, .stuckAt t, cs⟩ = (hcallsB cs, none) := by exact id rfl
theorem builtB_oof (env cs) : builtB ⟨env, .outOfFuel, cs⟩ = (hcallsB cs, none) := by exact id rfl

theorem builtB_not_outOfFuel (r : Res) (a : Action) (c : Calls) (h : builtB r = (c, some a)) :
    r.how ≠ .outOfFuel := by
  intro h'
  obtain ⟨env, how, cs⟩ := r
  cases h'
  rw [builtB_oof] at h
  cases h

theorem pduAt_respond {cs : Calls} {h : Nat} {b b' : Bytes} {u fc : Int} {u' fc' : Byte}
    (hb : bytesAt cs h = some b) (hu : u = (u'.toNat : Int)) (hf : fc = (fc'.toNat : Int)) (hbb : b = b') :
    pduAt (.int u) (.int fc) cs (.int (h : Int)) = some (.respond { unit := u', fc := fc', payload := b' }) := by
  subst hu hf hbb
  have h1 := u'.isLt
  have h2 := fc'.isLt
  have hc : (0:Int) ≤ (u'.toNat : Int) ∧ (u'.toNat : Int) < 256 ∧ (0:Int) ≤ (fc'.toNat : Int) ∧
      (fc'.toNat : Int) < 256 ∧ (0:Int) ≤ (h : Int) := by omega
  simp only [pduAt, hc, and_self, ↓reduceIte, Int.toNat_natCast, hb, byteOfInt_toNat]

/-- `0x80 | fc` on a byte -/
theorem or128_byte (fc : Byte) :
    Int.ofNat (Nat.lor (bits64 128) (bits64 (fc.toNat : Int))) % 256 = (((fc ||| 0x80).toNat : Nat) : Int) := by
  have h := fc.isLt
  have h1 : bits64 128 = 128 := by decide
  have h2 : bits64 (fc.toNat : Int) = fc.toNat := by
    unfold bits64
    omega
  rw [h1, h2]
  have h3 : Nat.lor 128 fc.toNat = fc.toNat ||| 128 := by
    show 128 ||| fc.toNat = fc.toNat ||| 128
    exact Nat.or_comm _ _
  have h4 : (fc ||| 0x80).toNat = fc.toNat ||| 128 := by
    rw [BitVec.toNat_or]; rfl
  have h5 : fc.toNat ||| 128 < 256 := Nat.or_lt_two_pow (n := 8) h (by decide)
  rw [h3, h4]
  simp only [Int.ofNat_eq_natCast]
  omega

/-- `[]byte{v}` -/
theorem bytesAt_snoc_bytes1 (cs : Calls) (v : Int) {k : Nat} (hk : k = cs.length) :
    bytesAt (cs ++ [("bytes", [.int v])]) k = some [BitVec.ofInt 8 v] :=
  bytesAt_snoc_bytes cs [v] hk

/-- `0x80 | fc` for the eight served function codes -/
theorem or128_lits :
    Int.ofNat (Nat.lor (bits64 128) (bits64 1)) % 256 = 129 ∧ Int.ofNat (Nat.lor (bits64 128) (bits64 2)) % 256 = 130 ∧
    Int.ofNat (Nat.lor (bits64 128) (bits64 3)) % 256 = 131 ∧ Int.ofNat (Nat.lor (bits64 128) (bits64 4)) % 256 = 132 ∧
    Int.ofNat (Nat.lor (bits64 128) (bits64 5)) % 256 = 133 ∧ Int.ofNat (Nat.lor (bits64 128) (bits64 6)) % 256 = 134 ∧
    Int.ofNat (Nat.lor (bits64 128) (bits64 15)) % 256 = 143 ∧
    Int.ofNat (Nat.lor (bits64 128) (bits64 16)) % 256 = 144 := by decide
theorem or128_1 : Int.ofNat (Nat.lor (bits64 128) (bits64 1)) % 256 = 129 := or128_lits.1
theorem or128_2 : Int.ofNat (Nat.lor (bits64 128) (bits64 2)) % 256 = 130 := or128_lits.2.1
theorem or128_3 : Int.ofNat (Nat.lor (bits64 128) (bits64 3)) % 256 = 131 := or128_lits.2.2.1
theorem or128_4 : Int.ofNat (Nat.lor (bits64 128) (bits64 4)) % 256 = 132 := or128_lits.2.2.2.1
theorem or128_5 : Int.ofNat (Nat.lor (bits64 128) (bits64 5)) % 256 = 133 := or128_lits.2.2.2.2.1
theorem or128_6 : Int.ofNat (Nat.lor (bits64 128) (bits64 6)) % 256 = 134 := or128_lits.2.2.2.2.2.1
theorem or128_15 : Int.ofNat (Nat.lor (bits64 128) (bits64 15)) % 256 = 143 := or128_lits.2.2.2.2.2.2.1
theorem or128_16 : Int.ofNat (Nat.lor (bits64 128) (bits64 16)) % 256 = 144 := or128_lits.2.2.2.2.2.2.2

/-- the two exception codes the server sets itself -/
theorem mapCodeVal_IDA : mapCodeVal (.sym "ErrIllegalDataAddress") = .int 2 := by decide +kernel
theorem mapCodeVal_SDF : mapCodeVal (.sym "ErrServerDeviceFailure") = .int 4 := by decide +kernel

end Modbus.GoEval.SrvB

/-- `srv_slice_solve`: `slice_solve` (Lemmas/GoEvalBytesLemmas.lean) with the one-element literal `[]byte{v}` added -/
syntax "srv_slice_solve" : tactic
macro_rules
  | `(tactic| srv_slice_solve) => `(tactic| repeat' (first
      | with_reducible assumption
      | (refine Modbus.GoEval.SrvB.bytesAt_snoc_bytes1 _ _ ?_; len_solve)
      | (refine Modbus.GoEval.bytesAt_snoc_u16 _ _ _ ?_; len_solve)
      | (refine Modbus.GoEval.bytesAt_snoc_input _ _ ?_; len_solve)
      | (refine Modbus.GoEval.sliceAt_snoc_input _ _ ?_; len_solve)
      | (apply Modbus.GoEval.bytesAt_snoc_appendS; case hk => len_solve)
      | (apply Modbus.GoEval.bytesAt_snoc_append1; case hk => len_solve)
      | (apply Modbus.GoEval.bytesAt_snoc_append2; case hk => len_solve)
      | (apply Modbus.GoEval.bytesAt_snoc_append3; case hk => len_solve)
      | (apply Modbus.GoEval.bytesAt_snoc_encodeBools; case hk => len_solve)
      | (apply Modbus.GoEval.bytesAt_snoc_u16s; case hk => len_solve)
      | apply Modbus.GoEval.bytesAt_mono1
      | apply Modbus.GoEval.sliceAt_mono1))

/-- `srvb_eval [extra]`: run one iteration of the instrumented `gsp_ModbusServer_handleTransport` (`srvGsB`) against
    `sliceWorld (srvExtB …)` from `reqEnvB …` and reduce the observation `builtB`. Name the arm that is
    entered (`armB34` …) in the list: only that one is unfolded. -/
syntax "srvb_eval" " [" Lean.Parser.Tactic.simpLemma,* "]" : tactic
macro_rules
  | `(tactic| srvb_eval [$ls,*]) => `(tactic|
    (try rw [Modbus.GoEval.SrvB.srvB_frame]
     go_slices [Modbus.GoEval.SrvB.frameWithB, Modbus.GoEval.SrvB.srvExtB, Modbus.GoEval.SrvB.reqEnvB,
       Modbus.GoEval.SrvB.sliceWorld_readRequest, Modbus.GoEval.SrvB.sliceWorld_b2u16,
       Modbus.GoEval.SrvB.sliceWorld_hCoils, Modbus.GoEval.SrvB.sliceWorld_hDiscrete,
       Modbus.GoEval.SrvB.sliceWorld_hHolding, Modbus.GoEval.SrvB.sliceWorld_hInput,
       Modbus.GoEval.SrvB.sliceWorld_mapErr, Modbus.GoEval.SrvB.sliceWorld_close,
       Modbus.GoEval.SrvB.sliceWorld_writeResponse,
       Modbus.GoEval.Srv.srvOracle, Modbus.GoEval.Srv.decode16, Modbus.GoEval.Srv.reqEnvL,
       Modbus.GoEval.Srv.fcIs, Modbus.GoEval.SrvB.srvTailB, Modbus.GoEval.SrvB.srvSwitchB,
       Modbus.GoEval.SrvB.srvBodyB, Modbus.GoEval.Srv.sA, Modbus.GoEval.Srv.sB, Modbus.GoEval.Srv.lB,
       Modbus.GoEval.Srv.iT, Modbus.GoEval.Srv.iE, Modbus.GoEval.SrvB.srvGsB, Modbus.GoEval.SrvB.withStore0,
       Modbus.Gen.gsp_ModbusServer_handleTransport,
       Modbus.GoEval.Srv.litCoilsRead, Modbus.GoEval.Srv.litDiscrete, Modbus.GoEval.Srv.litCoil1,
       Modbus.GoEval.Srv.litCoilsWrite, Modbus.GoEval.Srv.litHoldingRead, Modbus.GoEval.Srv.litInput,
       Modbus.GoEval.Srv.litReg1, Modbus.GoEval.Srv.litRegsWrite, Modbus.GoEval.Srv.litPduData,
       Modbus.GoEval.Srv.litPduEcho, Modbus.GoEval.Srv.litPduIllegalFn, Modbus.GoEval.Srv.litPduException,
       Modbus.GoEval.SrvB.builtB_ite,
       List.cons.injEq, Modbus.GoEval.Val.sym.injEq, Modbus.GoEval.Val.int.injEq,
       List.getD_cons_zero, List.getD_cons_succ,
       Int.reduceEq, Int.reduceLT, Int.reduceNe, String.reduceNe, ne_eq, not_true_eq_false,
       not_false_eq_true, decide_false, decide_true, $ls,*]
     try simp only [Modbus.GoEval.SrvB.builtB_stopped, Modbus.GoEval.SrvB.builtB_returned,
       Modbus.GoEval.SrvB.builtB_fell, Modbus.GoEval.SrvB.builtB_stuck, Modbus.GoEval.SrvB.builtB_oof,
       Modbus.GoEval.SrvB.hcallsB_nil, Modbus.GoEval.SrvB.hcallsB_cons, Modbus.GoEval.SrvB.hcallsB_append,
       Modbus.GoEval.read_def, Modbus.GoEval.read?_write, Modbus.GoEval.read?_cons,
       Modbus.GoEval.read?_nil, Option.getD_some, Option.getD_none, List.headD_cons, List.headD_nil,
       List.append_nil, List.nil_append, List.cons_append,
       String.reduceEq, ↓reduceIte, or_false, false_or, or_true, true_or, and_true, true_and, and_self,
       and_false, false_and, reduceCtorEq, $ls,*]))
