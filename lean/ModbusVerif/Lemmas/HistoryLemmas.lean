import ModbusVerif.Model.Client
import ModbusVerif.Lemmas.MbapLemmas
import ModbusVerif.Lemmas.ClientRespLemmas
/-
  Histories of client calls (property C05, history form).

  A history is a list of public calls made one after the other on the same client; every call
  comes with the bytes that arrive from the peer while it is outstanding (`arrivals`: ANY byte
  string — late replies, duplicates, frames of other protocols, garbage) and with the way the
  stream ends once those bytes are used up (`ending`). `runHistory` folds `Client.Op.run` over the
  list, threading the transport state (`lastTxn`, `pending`) exactly as the client does.
  The configuration `cfg` is fixed over a history (the transport kind is fixed at construction
  of a client).
-/
namespace Modbus.History
open Modbus Modbus.Client

/-- one public call, with what the peer delivers while it is outstanding -/
structure Call where
  op       : Op
  arrivals : Bytes
  ending   : Ending
  deriving Repr, DecidableEq

/-- the outcome of one call of the history from transport state `st` -/
def Call.run (c : Call) (cfg : Cfg) (st : TState) : Result := c.op.run cfg st c.arrivals c.ending

/-- the calls of a history one after the other: the results, and the final transport state -/
def runHistory (cfg : Cfg) (st : TState) : List Call → List Result × TState
  | [] => ([], st)
  | c :: cs =>
    let r := c.op.run cfg st c.arrivals c.ending
    let rest := runHistory cfg r.state cs
    (r :: rest.1, rest.2)

/-- the transport state before call number `i` (0-based) = after the first `i` calls -/
def stateBefore (cfg : Cfg) (st : TState) (calls : List Call) (i : Nat) : TState :=
  (runHistory cfg st (calls.take i)).2

/-- does the call put a request on the wire (true) or is it rejected locally (false)? -/
def sends (cfg : Cfg) (op : Op) : Bool :=
  match op.core cfg with
  | none => false
  | some c =>
    match c.request with
    | .ok _ => true
    | .error _ => false

/-- number of requests sent by a list of calls -/
def sentCount (cfg : Cfg) (calls : List Call) : Nat := calls.countP (fun c => sends cfg c.op)

/-! ### one call -/

theorem sends_true_iff {cfg : Cfg} {op : Op} :
    sends cfg op = true ↔ ∃ c fc p, op.core cfg = some c ∧ c.request = .ok (fc, p) := by
  unfold sends
  cases hc : op.core cfg with
  | none => simp
  | some c =>
    cases hr : c.request with
    | error err => simp [hr]
    | ok fp => obtain ⟨fc, p⟩ := fp; simp [hr]

theorem sends_false_iff {cfg : Cfg} {op : Op} :
    sends cfg op = false ↔ op.core cfg = none ∨ ∃ c err, op.core cfg = some c ∧ c.request = .error err := by
  unfold sends
  cases hc : op.core cfg with
  | none => simp
  | some c =>
    cases hr : c.request with
    | error err => simp [hr]
    | ok fp => simp [hr]

/-- a core exchange whose request passes the local checks, on an MBAP kind: the request frame
    carries `lastTxn + 1`, and `lastTxn + 1` is the new counter WHATEVER the transport read and
    the validation give -/
theorem exchange_mbap_sent {c : Core} {cfg : Cfg} {fc : Byte} {p : Bytes} (st : TState)
    (arr : Bytes) (e : Ending) (hk : cfg.kind.isRtu = false) (hreq : c.request = .ok (fc, p)) :
    (c.exchange cfg st arr e).written = some (Mbap.assemble (st.lastTxn + 1) ⟨cfg.unitId, fc, p⟩) ∧
    (c.exchange cfg st arr e).state =
      ⟨st.lastTxn + 1, (Mbap.readResponse (st.lastTxn + 1) (st.pending ++ arr) e).2⟩ := by
  unfold Core.exchange
  rw [hreq]
  simp only [frameFor, transportRead, hk, Bool.false_eq_true, ↓reduceIte]
  cases unitCheck cfg.unitId (Mbap.readResponse (st.lastTxn + 1) (st.pending ++ arr) e).1 <;>
    exact ⟨rfl, rfl⟩

/-- a locally rejected core call touches neither the wire nor the transport state -/
theorem exchange_rejected {c : Core} {err : Err} (cfg : Cfg) (st : TState) (arr : Bytes)
    (e : Ending) (hreq : c.request = .error err) :
    c.exchange cfg st arr e = { written := none, result := some (.error err), state := st } := by
  unfold Core.exchange
  rw [hreq]

theorem run_of_core {op : Op} {c : Core} {cfg : Cfg} (st : TState) (arr : Bytes) (e : Ending)
    (hc : op.core cfg = some c) :
    (op.run cfg st arr e).written = (c.exchange cfg st arr e).written ∧
    (op.run cfg st arr e).state = (c.exchange cfg st arr e).state := by
  unfold Op.run
  rw [hc]
  exact ⟨rfl, rfl⟩

/-- a public call that sends, on an MBAP kind -/
theorem run_mbap_sent {op : Op} {cfg : Cfg} (st : TState) (arr : Bytes) (e : Ending)
    (hk : cfg.kind.isRtu = false) (hs : sends cfg op = true) :
    ∃ c fc p, op.core cfg = some c ∧ c.request = .ok (fc, p) ∧
      (op.run cfg st arr e).written = some (Mbap.assemble (st.lastTxn + 1) ⟨cfg.unitId, fc, p⟩) ∧
      (op.run cfg st arr e).state =
        ⟨st.lastTxn + 1, (Mbap.readResponse (st.lastTxn + 1) (st.pending ++ arr) e).2⟩ := by
  obtain ⟨c, fc, p, hc, hreq⟩ := sends_true_iff.mp hs
  obtain ⟨h1, h2⟩ := run_of_core st arr e hc
  obtain ⟨h3, h4⟩ := exchange_mbap_sent st arr e hk hreq
  exact ⟨c, fc, p, hc, hreq, h1.trans h3, h2.trans h4⟩

/-- a public call that does not send: nothing written, state unchanged, no success -/
theorem run_not_sent {op : Op} {cfg : Cfg} (st : TState) (arr : Bytes) (e : Ending)
    (hs : sends cfg op = false) :
    (op.run cfg st arr e).written = none ∧ (op.run cfg st arr e).state = st ∧
    ∀ v, (op.run cfg st arr e).result ≠ some (.ok v) := by
  rcases sends_false_iff.mp hs with hc | ⟨c, err, hc, hreq⟩
  · unfold Op.run
    rw [hc]
    exact ⟨rfl, rfl, fun v h => by cases h⟩
  · rw [ClientResp.run_rejected st arr e hc hreq]
    exact ⟨rfl, rfl, fun v h => by cases h⟩

theorem sends_iff_written {op : Op} {cfg : Cfg} (st : TState) (arr : Bytes) (e : Ending) :
    sends cfg op = true ↔ (op.run cfg st arr e).written ≠ none := by
  cases hs : sends cfg op with
  | false =>
    rw [(run_not_sent st arr e hs).1]; simp
  | true =>
    obtain ⟨c, fc, p, hc, hreq⟩ := sends_true_iff.mp hs
    rw [ClientResp.run_accepted st arr e hc hreq]; simp

/-- the first two bytes of an MBAP frame are the transaction id, high byte first -/
theorem take2_assemble (txn : U16) (p : Pdu) : (Mbap.assemble txn p).take 2 = be16 txn := rfl

theorem txn_of_frame (txn : U16) (p : Pdu) :
    mk16 ((Mbap.assemble txn p).getD 0 0) ((Mbap.assemble txn p).getD 1 0) = txn :=
  Mbap.mk16_hi_lo txn

/-! ### transaction ids -/

theorem txnOf_zero (t : U16) : Mbap.txnOf t 0 = t := by
  apply BitVec.eq_of_toNat_eq
  simp [Mbap.txnOf]

theorem txnOf_succ (t : U16) (n : Nat) : Mbap.txnOf t (n + 1) = Mbap.txnOf t n + 1 := by
  apply BitVec.eq_of_toNat_eq
  simp only [Mbap.txnOf, BitVec.toNat_add, BitVec.toNat_ofNat]
  have h1 : (1 : U16).toNat = 1 := rfl
  rw [h1]
  omega

/-! ### the fold -/

theorem runHistory_nil (cfg : Cfg) (st : TState) : runHistory cfg st [] = ([], st) := rfl

theorem runHistory_cons (cfg : Cfg) (st : TState) (c : Call) (cs : List Call) :
    runHistory cfg st (c :: cs) =
      (c.op.run cfg st c.arrivals c.ending ::
        (runHistory cfg (c.op.run cfg st c.arrivals c.ending).state cs).1,
       (runHistory cfg (c.op.run cfg st c.arrivals c.ending).state cs).2) := rfl

theorem runHistory_length (cfg : Cfg) (st : TState) (calls : List Call) :
    (runHistory cfg st calls).1.length = calls.length := by
  induction calls generalizing st with
  | nil => rfl
  | cons c cs ih => rw [runHistory_cons]; simp [ih]

theorem stateBefore_zero (cfg : Cfg) (st : TState) (calls : List Call) :
    stateBefore cfg st calls 0 = st := rfl

theorem stateBefore_cons_succ (cfg : Cfg) (st : TState) (c : Call) (cs : List Call) (i : Nat) :
    stateBefore cfg st (c :: cs) (i + 1) =
      stateBefore cfg (c.op.run cfg st c.arrivals c.ending).state cs i := rfl

theorem stateBefore_all (cfg : Cfg) (st : TState) (calls : List Call) :
    stateBefore cfg st calls calls.length = (runHistory cfg st calls).2 := by
  unfold stateBefore
  rw [List.take_length]

/-- the result of call `i` is `Op.run` from the state left by the calls before it -/
theorem result_at (cfg : Cfg) (st : TState) {calls : List Call} {i : Nat} {call : Call}
    (h : calls[i]? = some call) :
    (runHistory cfg st calls).1[i]? =
      some (call.op.run cfg (stateBefore cfg st calls i) call.arrivals call.ending) := by
  induction calls generalizing st i with
  | nil => simp at h
  | cons c cs ih =>
    cases i with
    | zero =>
      simp only [List.getElem?_cons_zero, Option.some.injEq] at h
      subst h
      rw [runHistory_cons, stateBefore_zero]
      rfl
    | succ i =>
      rw [List.getElem?_cons_succ] at h
      rw [runHistory_cons, stateBefore_cons_succ]
      simp only [List.getElem?_cons_succ]
      exact ih _ h

/-- the state before call `i+1` is the state call `i` leaves -/
theorem stateBefore_succ (cfg : Cfg) (st : TState) {calls : List Call} {i : Nat} {call : Call}
    (h : calls[i]? = some call) :
    stateBefore cfg st calls (i + 1) =
      (call.op.run cfg (stateBefore cfg st calls i) call.arrivals call.ending).state := by
  induction calls generalizing st i with
  | nil => simp at h
  | cons c cs ih =>
    cases i with
    | zero =>
      simp only [List.getElem?_cons_zero, Option.some.injEq] at h
      subst h
      rw [stateBefore_cons_succ, stateBefore_zero, stateBefore_zero]
    | succ i =>
      rw [List.getElem?_cons_succ] at h
      rw [stateBefore_cons_succ, stateBefore_cons_succ]
      exact ih _ h

theorem sentCount_take_succ (cfg : Cfg) {calls : List Call} {i : Nat} {call : Call}
    (h : calls[i]? = some call) :
    sentCount cfg (calls.take (i + 1)) =
      sentCount cfg (calls.take i) + (if sends cfg call.op = true then 1 else 0) := by
  unfold sentCount
  rw [List.take_add_one, h, List.countP_append]
  simp [List.countP_cons]

theorem sentCount_take_mono (cfg : Cfg) (calls : List Call) {i j : Nat} (h : i ≤ j) :
    sentCount cfg (calls.take i) ≤ sentCount cfg (calls.take j) := by
  unfold sentCount
  have : calls.take i = (calls.take j).take i := by
    rw [List.take_take, Nat.min_eq_left h]
  rw [this]
  exact List.Sublist.countP_le (List.take_sublist _ _)

/-- the transaction counter before call `i` is the initial one plus the number of requests SENT
    by the calls before it (16-bit wrap-around) -/
theorem stateBefore_lastTxn {cfg : Cfg} (hk : cfg.kind.isRtu = false) (st : TState)
    (calls : List Call) (i : Nat) :
    (stateBefore cfg st calls i).lastTxn = Mbap.txnOf st.lastTxn (sentCount cfg (calls.take i)) := by
  induction i with
  | zero =>
    rw [stateBefore_zero]
    show st.lastTxn = Mbap.txnOf st.lastTxn 0
    rw [txnOf_zero]
  | succ i ih =>
    cases hc : calls[i]? with
    | none =>
      have hlen : calls.length ≤ i := by
        rcases Nat.lt_or_ge i calls.length with h | h
        · rw [List.getElem?_eq_getElem h] at hc; cases hc
        · exact h
      have e1 : calls.take (i + 1) = calls.take i := by
        rw [List.take_of_length_le (by omega), List.take_of_length_le hlen]
      unfold stateBefore at ih ⊢
      rw [e1]; exact ih
    | some call =>
      rw [stateBefore_succ cfg st hc, sentCount_take_succ cfg hc]
      cases hs : sends cfg call.op with
      | false =>
        rw [(run_not_sent _ _ _ hs).2.1, ih]
        simp
      | true =>
        obtain ⟨_, _, _, _, _, _, h2⟩ := run_mbap_sent (stateBefore cfg st calls i) call.arrivals
          call.ending hk hs
        rw [h2, if_pos rfl, txnOf_succ, ← ih]

/-! ### the history theorems -/

/-- the id written by call `i` when it sends: `txnOf lastTxn₀ k`, `k` = number of requests sent by
    the calls 0..i inclusive -/
def idAt (cfg : Cfg) (st : TState) (calls : List Call) (i : Nat) : U16 :=
  Mbap.txnOf st.lastTxn (sentCount cfg (calls.take (i + 1)))

theorem idAt_eq {cfg : Cfg} (hk : cfg.kind.isRtu = false) (st : TState) {calls : List Call}
    {i : Nat} {call : Call} (h : calls[i]? = some call) (hs : sends cfg call.op = true) :
    idAt cfg st calls i = (stateBefore cfg st calls i).lastTxn + 1 := by
  unfold idAt
  rw [sentCount_take_succ cfg h, if_pos hs, txnOf_succ, stateBefore_lastTxn hk]

theorem request_ids {cfg : Cfg} (hk : cfg.kind.isRtu = false) (st : TState) {calls : List Call}
    {i : Nat} {call : Call} (h : calls[i]? = some call) (hs : sends cfg call.op = true) :
    ∃ r c fc p, (runHistory cfg st calls).1[i]? = some r ∧
      call.op.core cfg = some c ∧ c.request = .ok (fc, p) ∧
      r.written = some (Mbap.assemble (idAt cfg st calls i) ⟨cfg.unitId, fc, p⟩) ∧
      r.state.lastTxn = idAt cfg st calls i := by
  obtain ⟨c, fc, p, hc, hreq, hw, hst⟩ := run_mbap_sent (stateBefore cfg st calls i) call.arrivals
    call.ending hk hs
  refine ⟨_, c, fc, p, result_at cfg st h, hc, hreq, ?_, ?_⟩
  · rw [hw, idAt_eq hk st h hs]
  · rw [hst, idAt_eq hk st h hs]

/-- two sending calls `m < i`: the ids differ by the number of sends in between, which is positive -/
theorem sends_between_pos (cfg : Cfg) {calls : List Call} {m i : Nat} {ci : Call}
    (hmi : m < i) (hi : calls[i]? = some ci) (hsi : sends cfg ci.op = true) :
    sentCount cfg (calls.take (m + 1)) < sentCount cfg (calls.take (i + 1)) := by
  rw [sentCount_take_succ cfg hi, if_pos hsi]
  have := sentCount_take_mono cfg calls (i := m + 1) (j := i) (by omega)
  omega

theorem ids_distinct (cfg : Cfg) (st : TState) {calls : List Call} {m i : Nat} {ci : Call}
    (hmi : m < i) (hi : calls[i]? = some ci) (hsi : sends cfg ci.op = true)
    (hlt : sentCount cfg (calls.take (i + 1)) - sentCount cfg (calls.take (m + 1)) < 65536) :
    idAt cfg st calls i ≠ idAt cfg st calls m := by
  have hpos := sends_between_pos cfg hmi hi hsi
  unfold idAt
  exact Mbap.txnOf_ne st.lastTxn (Or.inr ⟨by omega, hlt⟩)

section sound
variable {cfg : Cfg}

/-- a call of a history that returns values sent a request, and read its reply from a frame
    carrying the id of that very request, preceded only by whole foreign frames -/
theorem history_id (hk : cfg.kind.isRtu = false) (st : TState) {calls : List Call} {i : Nat}
    {call : Call} {r : Result} {v : Val} (h : calls[i]? = some call)
    (hr : (runHistory cfg st calls).1[i]? = some r) (hv : r.result = some (.ok v)) :
    sends cfg call.op = true ∧
    ∃ pre res post,
      (stateBefore cfg st calls i).pending ++ call.arrivals =
        pre ++ Mbap.assemble (idAt cfg st calls i) res ++ post ∧
      Mbap.Skippable (idAt cfg st calls i) pre ∧
      stateBefore cfg st calls (i + 1) = ⟨idAt cfg st calls i, post⟩ := by
  rw [result_at cfg st h] at hr
  injection hr with hr
  subst hr
  cases hs : sends cfg call.op with
  | false => exact absurd hv ((run_not_sent _ _ _ hs).2.2 v)
  | true =>
    refine ⟨rfl, ?_⟩
    obtain ⟨c, fc, p, hc, hreq⟩ := sends_true_iff.mp hs
    rw [idAt_eq hk st h hs, stateBefore_succ cfg st h]
    rw [ClientResp.run_accepted _ _ _ hc hreq] at hv ⊢
    simp only [ClientResp.frameFor_mbap hk, ClientResp.transportRead_mbap hk] at hv ⊢
    obtain ⟨res, raw, hres, _, _, _⟩ := ClientResp.pduOutcome_ok_inv hv
    cases hrr : Mbap.readResponse ((stateBefore cfg st calls i).lastTxn + 1)
        ((stateBefore cfg st calls i).pending ++ call.arrivals) call.ending with
    | mk r post =>
      rw [hrr] at hres; simp only at hres; subst hres
      obtain ⟨pre, hpre, _, hs'⟩ := Mbap.readResponse_ok_inv _ _ _ (Nat.le_refl _) hrr
      exact ⟨pre, res, post, hs', hpre, rfl⟩

/-- ... and that frame carries a well-formed positive reply to the call's own request, from which
    the returned values are decoded (`C02_sound_mbap` at every step of the history) -/
theorem history_sound (he : cfg.endian ≠ .invalid) (hw : cfg.word ≠ .invalid)
    (hk : cfg.kind.isRtu = false) (st : TState) {calls : List Call} {i : Nat}
    {call : Call} {r : Result} {v : Val} (h : calls[i]? = some call)
    (hr : (runHistory cfg st calls).1[i]? = some r) (hv : r.result = some (.ok v)) :
    sends cfg call.op = true ∧
    ∃ pre res post,
      (stateBefore cfg st calls i).pending ++ call.arrivals =
        pre ++ Mbap.assemble (idAt cfg st calls i) res ++ post ∧
      Mbap.Skippable (idAt cfg st calls i) pre ∧
      Spec.PositiveReply cfg call.op res ∧ v = Spec.decodeReply cfg call.op res ∧
      stateBefore cfg st calls (i + 1) = ⟨idAt cfg st calls i, post⟩ := by
  rw [result_at cfg st h] at hr
  injection hr with hr
  subst hr
  cases hs : sends cfg call.op with
  | false => exact absurd hv ((run_not_sent _ _ _ hs).2.2 v)
  | true =>
    refine ⟨rfl, ?_⟩
    obtain ⟨c, fc, p, hc, hreq⟩ := sends_true_iff.mp hs
    obtain ⟨pre, res, post, h1, h2, h3, h4, _, h6⟩ := ClientResp.sound_mbap he hw hk hc hreq hv
    rw [idAt_eq hk st h hs, stateBefore_succ cfg st h]
    exact ⟨pre, res, post, h1, h2, h3, h4, h6⟩

/-- a frame with a foreign id anywhere in front of the part of the stream the call has yet to
    look at is invisible: the call behaves as if the stream started behind it -/
theorem run_skip (hk : cfg.kind.isRtu = false) {op : Op} {st : TState} {arr pre post : Bytes}
    (e : Ending) (hs : sends cfg op = true)
    (hpre : Mbap.Skippable (st.lastTxn + 1) pre) (hstream : st.pending ++ arr = pre ++ post) :
    op.run cfg st arr e = op.run cfg ⟨st.lastTxn, []⟩ post e := by
  obtain ⟨c, fc, p, hc, hreq⟩ := sends_true_iff.mp hs
  rw [ClientResp.run_accepted _ _ _ hc hreq, ClientResp.run_accepted _ _ _ hc hreq]
  simp only [ClientResp.frameFor_mbap hk, ClientResp.transportRead_mbap hk, List.nil_append]
  rw [hstream, Mbap.readResponse_skip post e hpre]

end sound

end Modbus.History
