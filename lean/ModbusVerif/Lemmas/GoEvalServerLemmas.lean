import ModbusVerif.Lemmas.GoEvalLemmas
import ModbusVerif.Lemmas.ServerLemmas
/-
  Support for `Props/C03Src.lean`: the generated term `Gen.gs_ModbusServer_handleTransport`
  (server.go `handleTransport`) cut into its `switch` arms, the environment / oracle of ONE
  iteration of its request loop, and the observation (`SVerdict`) made on a run.

  1. DECOMPOSITION. The term is large (8 function codes, ≈ 300 nodes). `simp` evaluates the
     arguments of `iteK` before it can drop the branch not taken, so evaluating the whole `switch`
     would evaluate every arm for every case. The arms are therefore named through ACCESSORS
     applied to the generated term (`srvArm5 := iT (iE srvSwitch)` …; nothing is copied by hand) and
     `srv_frame` (proved by `rfl`) states that the generated term IS the skeleton `frameWith`

        for { req, err = t.ReadRequest(); if err != nil { return }
              switch req.functionCode { 1,2 ↦ arm12 | 5 ↦ arm5 | 15 ↦ arm15 | 3,4 ↦ arm34 | 6 ↦ arm6
                                        | 16 ↦ arm16 | default ↦ armDef }
              tail }

     with the arms as opaque constants. A run unfolds only the arm it enters.

  2. ENVIRONMENT (`reqEnv unit fc payload a0 q0 n`). The leaves of the decoded request
     (`req.functionCode`, `req.unitId`, `len(req.payload)`, `req.payload[i]` for i < length ONLY,
     the slice leaves `req.payload[0:2]` / `req.payload[2:4]` ONLY when the payload is long enough);
     `res = nil` (zero value / `res = nil` at the end of the previous iteration); `addr`, `quantity`
     hold ARBITRARY values `a0`, `q0` (function-level variables: whatever an earlier request left);
     `len(coils)`, `len(regs)` = `n` (length of the handler's result); the composite literals are
     bound to a symbol carrying their own text (a fresh non-nil pointer); `nil` and the three error
     constants the function uses are bound to the symbol the evaluator gives them anyway
     (`constSyms_are_unbound_values`) so that no lookup has to walk through the payload leaves.

  3. ORACLE (`srvOracle payload hans`). `t.ReadRequest ↦ (req, nil)`; `bytesToUint16(1, s)` answers
     `mk16 p[0] p[1]` / `mk16 p[2] p[3]` when `s` is the value of the corresponding slice leaf and is
     UNDEFINED otherwise (a slice leaf that is not bound evaluates to `unk`: the run stops there,
     which stands for the Go panic of slicing past the capacity — assumption: cap = len for the
     request buffer, true for the TCP transport (`make([]byte, n)[1:]`); the RTU transport slices a
     256-byte buffer, so there a short slice would not even panic. Either way no run of the
     current source gets there: `C03S_validation` shows every run ends in one of the four regular
     verdicts). The four handler methods answer `hans` (`none`: the run is cut AT the handler call;
     `some [result, err]`: the handler returned). `t.Close` and `t.WriteResponse` are undefined: the
     iteration is cut where the transport is closed / the response is written.
-/
set_option linter.unusedSimpArgs false
set_option linter.unusedVariables false

namespace Modbus.GoEval.Srv
open Modbus Modbus.Gen Modbus.GoEval

/-! ### 1. decomposition -/

def sA : GStmt → GStmt | .seq a _ => a | s => s
def sB : GStmt → GStmt | .seq _ b => b | s => s
def lB : GStmt → GStmt | .loop b => b | s => s
def iT : GStmt → GStmt | .ite _ t _ => t | s => s
def iE : GStmt → GStmt | .ite _ _ e => e | s => s
def iC : GStmt → GExpr | .ite c _ _ => c | _ => .lit 0 .bool

/-- body of the request loop -/
def srvBody : GStmt := lB (sA gs_ModbusServer_handleTransport)
/-- the `switch req.functionCode` (nested `ite`) -/
def srvSwitch : GStmt := sA (lB (sA (sB (sB srvBody))))
/-- everything after the `switch`: nil-response check, error mapping / close, `t.WriteResponse` -/
def srvTail : GStmt := sB (sB (sB srvBody))
def srvArm12 : GStmt := iT srvSwitch
def srvArm5 : GStmt := iT (iE srvSwitch)
def srvArm15 : GStmt := iT (iE (iE srvSwitch))
def srvArm34 : GStmt := iT (iE (iE (iE srvSwitch)))
def srvArm6 : GStmt := iT (iE (iE (iE (iE srvSwitch))))
def srvArm16 : GStmt := iT (iE (iE (iE (iE (iE srvSwitch)))))
def srvArmDef : GStmt := iE (iE (iE (iE (iE (iE srvSwitch)))))

/-- `req.functionCode == n` -/
def fcIs (n : Int) : GExpr := .cmp "==" (.var "req.functionCode" .u8) (.lit n .u8)

/-- the skeleton of `handleTransport` around seven `switch` arms -/
def frameWith (a12 a5 a15 a34 a6 a16 aDef : GStmt) : GStmt :=
  .seq (.loop (.seq (.bindCall ["req", "err"] "t.ReadRequest" [])
    (.seq (.ite (.cmp "!=" (.var "err" .other) (.var "nil" .other)) .ret .skip)
    (.seq (.loop (.seq
      (.ite (.or (fcIs 1) (fcIs 2)) a12
      (.ite (fcIs 5) a5
      (.ite (fcIs 15) a15
      (.ite (.or (fcIs 3) (fcIs 4)) a34
      (.ite (fcIs 6) a6
      (.ite (fcIs 16) a16 aDef)))))) .brk)) srvTail)))) .ret

set_option maxRecDepth 10000 in
/-- the generated term is this skeleton around its arms -/
theorem srv_frame : gs_ModbusServer_handleTransport =
    frameWith srvArm12 srvArm5 srvArm15 srvArm34 srvArm6 srvArm16 srvArmDef := by rfl

/-- the `k`-th statement of a right-nested sequence `s0; (s1; (s2; …))` -/
def nthS : Nat → GStmt → GStmt
  | 0, s => sA s
  | k + 1, s => nthS k (sB s)

/-- replace the `k`-th statement of a right-nested sequence (sensitivity variants) -/
def setNth : Nat → GStmt → GStmt → GStmt
  | 0, new, .seq _ b => .seq new b
  | k + 1, new, .seq a b => .seq a (setNth k new b)
  | _, _, s => s

theorem setNth_zero (new a b) : setNth 0 new (.seq a b) = .seq new b := by exact id rfl
theorem setNth_succ (k new a b) : setNth (k + 1) new (.seq a b) = .seq a (setNth k new b) := by exact id rfl

/-- the case values are the package's function-code constants -/
theorem srv_case_values :
    intConst? "fcReadCoils" = some 1 ∧ intConst? "fcReadDiscreteInputs" = some 2 ∧
    intConst? "fcReadHoldingRegisters" = some 3 ∧ intConst? "fcReadInputRegisters" = some 4 ∧
    intConst? "fcWriteSingleCoil" = some 5 ∧ intConst? "fcWriteSingleRegister" = some 6 ∧
    intConst? "fcWriteMultipleCoils" = some 15 ∧ intConst? "fcWriteMultipleRegisters" = some 16 ∧
    intConst? "BIG_ENDIAN" = some 1 := by decide

/-! ### 2. environment -/

/-- the composite literals of the function (text = key = name of the value) -/
abbrev litCoilsRead : String := "&CoilsRequest{ ClientAddr: clientAddr, ClientRole: clientRole, UnitId: req.unitId, Addr: addr, Quantity: quantity, IsWrite: false, Args: nil, }"
abbrev litDiscrete : String := "&DiscreteInputsRequest{ ClientAddr: clientAddr, ClientRole: clientRole, UnitId: req.unitId, Addr: addr, Quantity: quantity, }"
abbrev litCoil1 : String := "&CoilsRequest{ ClientAddr: clientAddr, ClientRole: clientRole, UnitId: req.unitId, Addr: addr, Quantity: 1, IsWrite: true, Args: []bool{(req.payload[2] == 0xff)}, }"
abbrev litCoilsWrite : String := "&CoilsRequest{ ClientAddr: clientAddr, ClientRole: clientRole, UnitId: req.unitId, Addr: addr, Quantity: quantity, IsWrite: true, Args: decodeBools(quantity, req.payload[5:]), }"
abbrev litHoldingRead : String := "&HoldingRegistersRequest{ ClientAddr: clientAddr, ClientRole: clientRole, UnitId: req.unitId, Addr: addr, Quantity: quantity, IsWrite: false, Args: nil, }"
abbrev litInput : String := "&InputRegistersRequest{ ClientAddr: clientAddr, ClientRole: clientRole, UnitId: req.unitId, Addr: addr, Quantity: quantity, }"
abbrev litReg1 : String := "&HoldingRegistersRequest{ ClientAddr: clientAddr, ClientRole: clientRole, UnitId: req.unitId, Addr: addr, Quantity: 1, IsWrite: true, Args: []uint16{value}, }"
abbrev litRegsWrite : String := "&HoldingRegistersRequest{ ClientAddr: clientAddr, ClientRole: clientRole, UnitId: req.unitId, Addr: addr, Quantity: quantity, IsWrite: true, Args: bytesToUint16s(BIG_ENDIAN, req.payload[5:]), }"
/-- positive response to a read: byte count + data -/
abbrev litPduData : String := "&pdu{ unitId: req.unitId, functionCode: req.functionCode, payload: []byte{0}, }"
/-- positive response to a write: echo -/
abbrev litPduEcho : String := "&pdu{ unitId: req.unitId, functionCode: req.functionCode, }"
/-- exception response of the `default` case: illegal function -/
abbrev litPduIllegalFn : String := "&pdu{ unitId: req.unitId, functionCode: (0x80 | req.functionCode), payload: []byte{exIllegalFunction}, }"
/-- exception response built from `err` -/
abbrev litPduException : String := "&pdu{ unitId: req.unitId, functionCode: (0x80 | req.functionCode), payload: []byte{mapErrorToExceptionCode(err)}, }"

def lits : List String := [litCoilsRead, litDiscrete, litCoil1, litCoilsWrite, litHoldingRead, litInput,
  litReg1, litRegsWrite, litPduData, litPduEcho, litPduIllegalFn, litPduException]

/-- `req.payload[i]`, `i` from `i0`, one leaf per byte of `bs`: nothing beyond the length -/
def payloadLeaves : Nat → Bytes → Env
  | _, [] => []
  | i, b :: bs => ("req.payload[" ++ toString i ++ "]", .int b.toNat) :: payloadLeaves (i + 1) bs

/-- a slice leaf `req.payload[lo:hi]`, bound (to a symbol with its own name) only when `hi ≤ len` -/
def sliceLeaf (pl : Bytes) (hi : Nat) (k : String) : Env :=
  if hi ≤ pl.length then [(k, .sym k)] else []

/-- the payload-dependent leaves -/
def dynEnv (pl : Bytes) : Env :=
  sliceLeaf pl 2 "req.payload[0:2]" ++ sliceLeaf pl 4 "req.payload[2:4]" ++ payloadLeaves 0 pl

/-- the environment after `t.ReadRequest` returned the request (`len` = payload length, `dyn` = the
    payload-dependent leaves) -/
def reqEnvL (unit fc len a0 q0 n : Int) (dyn : Env) : Env :=
  ("req.functionCode", .int fc) :: ("req.unitId", .int unit) :: ("len(req.payload)", .int len) ::
  ("res", .sym "nil") :: ("addr", .int a0) :: ("quantity", .int q0) ::
  ("len(coils)", .int n) :: ("len(regs)", .int n) ::
  ("nil", .sym "nil") :: ("ErrProtocolError", .sym "ErrProtocolError") ::
  ("ErrIllegalDataAddress", .sym "ErrIllegalDataAddress") ::
  ("ErrServerDeviceFailure", .sym "ErrServerDeviceFailure") ::
  (litCoilsRead, .sym litCoilsRead) :: (litDiscrete, .sym litDiscrete) :: (litCoil1, .sym litCoil1) ::
  (litCoilsWrite, .sym litCoilsWrite) :: (litHoldingRead, .sym litHoldingRead) ::
  (litInput, .sym litInput) :: (litReg1, .sym litReg1) :: (litRegsWrite, .sym litRegsWrite) ::
  (litPduData, .sym litPduData) :: (litPduEcho, .sym litPduEcho) ::
  (litPduIllegalFn, .sym litPduIllegalFn) :: (litPduException, .sym litPduException) :: dyn

/-- the environment of one iteration for the request PDU (unit, fc, payload) -/
def reqEnv (unit fc : Byte) (pl : Bytes) (a0 q0 n : Int) : Env :=
  reqEnvL unit.toNat fc.toNat pl.length a0 q0 n (dynEnv pl)

/-- binding `nil` / the error constants changes nothing: it is the value the evaluator gives the
    unbound leaf -/
theorem constSyms_are_unbound_values :
    unboundVar "nil" .other = .sym "nil" ∧
    unboundVar "ErrProtocolError" .other = .sym "ErrProtocolError" ∧
    unboundVar "ErrIllegalDataAddress" .other = .sym "ErrIllegalDataAddress" ∧
    unboundVar "ErrServerDeviceFailure" .other = .sym "ErrServerDeviceFailure" := by decide

/-- payload of at least four bytes: both slices and the first four index leaves are bound -/
theorem dynEnv_cons4 (a b c d : Byte) (rest : Bytes) : dynEnv (a :: b :: c :: d :: rest) =
    ("req.payload[0:2]", .sym "req.payload[0:2]") :: ("req.payload[2:4]", .sym "req.payload[2:4]") ::
    ("req.payload[0]", .int a.toNat) :: ("req.payload[1]", .int b.toNat) ::
    ("req.payload[2]", .int c.toNat) :: ("req.payload[3]", .int d.toNat) :: payloadLeaves 4 rest := by
  have h2 : 2 ≤ (a :: b :: c :: d :: rest).length := by simp
  have h4 : 4 ≤ (a :: b :: c :: d :: rest).length := by simp
  simp only [dynEnv, sliceLeaf, if_pos h2, if_pos h4, payloadLeaves, List.cons_append, List.nil_append]
  have e0 : "req.payload[" ++ toString 0 ++ "]" = "req.payload[0]" := by decide
  have e1 : "req.payload[" ++ toString (0 + 1) ++ "]" = "req.payload[1]" := by decide
  have e2 : "req.payload[" ++ toString (0 + 1 + 1) ++ "]" = "req.payload[2]" := by decide
  have e3 : "req.payload[" ++ toString (0 + 1 + 1 + 1) ++ "]" = "req.payload[3]" := by decide
  rw [e0, e1, e2, e3]

theorem payloadLeaves_cons4 (e : Byte) (rest : Bytes) : payloadLeaves 4 (e :: rest) =
    ("req.payload[4]", .int e.toNat) :: payloadLeaves 5 rest := by
  have e4 : "req.payload[" ++ toString 4 ++ "]" = "req.payload[4]" := by decide
  simp only [payloadLeaves, e4]

theorem payloadLeaves_nil (i : Nat) : payloadLeaves i [] = [] := by cases i <;> rfl

/-! ### 3. oracle -/

/-- `bytesToUint16(BIG_ENDIAN, s)` on the two slices the function decodes -/
def decode16 (pl : Bytes) (args : List Val) : Option (List Val) :=
  if args = [.int 1, .sym "req.payload[0:2]"] then
    some [.int (mk16 (pl.getD 0 0) (pl.getD 1 0)).toNat]
  else if args = [.int 1, .sym "req.payload[2:4]"] then
    some [.int (mk16 (pl.getD 2 0) (pl.getD 3 0)).toNat]
  else none

def srvOracle (pl : Bytes) (hans : Option (List Val)) : Oracle := fun f args =>
  if f = "t.ReadRequest" then some [.sym "req", .sym "nil"]
  else if f = "bytesToUint16" then decode16 pl args
  else if f = "ms.handler.HandleCoils" then hans
  else if f = "ms.handler.HandleDiscreteInputs" then hans
  else if f = "ms.handler.HandleHoldingRegisters" then hans
  else if f = "ms.handler.HandleInputRegisters" then hans
  else none

/-! ### 4. observation -/

/-- the calls made through `ms.handler` (everything but the two helper callees) -/
def hcalls : Calls → Calls
  | [] => []
  | c :: cs => if c.1 = "t.ReadRequest" ∨ c.1 = "bytesToUint16" then hcalls cs else c :: hcalls cs

def isHandler (f : String) : Prop :=
  f = "ms.handler.HandleCoils" ∨ f = "ms.handler.HandleDiscreteInputs" ∨
  f = "ms.handler.HandleHoldingRegisters" ∨ f = "ms.handler.HandleInputRegisters"

instance (f : String) : Decidable (isHandler f) := by unfold isHandler; infer_instance

/-- the `Quantity:` field of a request literal, resolved in the environment of the call:
    the variable `quantity` or the constant 1 -/
def qtyAt (env : Env) (arg : Val) : Val :=
  match arg with
  | .sym lit =>
    if litField lit "Quantity" = some "quantity" then Env.read env "quantity"
    else if litField lit "Quantity" = some "1" then .int 1
    else .unk
  | _ => .unk

/-- what one iteration did -/
inductive SVerdict
  /-- cut AT a handler call (no handler called before): callee, the request literal passed, and the
      values of `req.unitId`, `addr`, the `Quantity:` field in the environment of the call -/
  | atHandler (callee : String) (arg unit addr qty : Val)
  /-- `t.Close()` reached (then `return`): no response; value of `err`; handler calls performed -/
  | closes (err : Val) (hc : Calls)
  /-- `t.WriteResponse(res)` reached: value of `res`, of `err`; handler calls performed -/
  | writes (res err : Val) (hc : Calls)
  | other
  deriving DecidableEq, Repr

def sverdict (r : Res) : SVerdict :=
  match r.how with
  | .stoppedAt f args =>
    if f = "t.Close" then .closes (Env.read r.env "err") (hcalls r.calls)
    else if f = "t.WriteResponse" then .writes (args.headD .unk) (Env.read r.env "err") (hcalls r.calls)
    else if isHandler f ∧ hcalls r.calls = [] then
      .atHandler f (args.headD .unk) (Env.read r.env "req.unitId") (Env.read r.env "addr")
        (qtyAt r.env (args.headD .unk))
    else .other
  | _ => .other

theorem sverdict_stopped (env f args cs) : sverdict ⟨env, .stoppedAt f args, cs⟩ =
    if f = "t.Close" then .closes (Env.read env "err") (hcalls cs)
    else if f = "t.WriteResponse" then .writes (args.headD .unk) (Env.read env "err") (hcalls cs)
    else if isHandler f ∧ hcalls cs = [] then
      .atHandler f (args.headD .unk) (Env.read env "req.unitId") (Env.read env "addr")
        (qtyAt env (args.headD .unk))
    else .other := by exact id rfl
theorem sverdict_returned (env cs) : sverdict ⟨env, .returned, cs⟩ = .other := by exact id rfl
theorem sverdict_fell (env cs) : sverdict ⟨env, .fell, cs⟩ = .other := by exact id rfl
theorem sverdict_stuck (env t cs) : sverdict ⟨env, .stuckAt t, cs⟩ = .other := by exact id rfl
theorem sverdict_oof (env cs) : sverdict ⟨env, .outOfFuel, cs⟩ = .other := by exact id rfl
theorem sverdict_ite (p : Prop) [Decidable p] (x y : Res) :
    sverdict (if p then x else y) = if p then sverdict x else sverdict y := by
  split <;> exact id rfl
theorem sverdict_not_outOfFuel (r : Res) (h : sverdict r ≠ .other) : r.how ≠ .outOfFuel := by
  intro h'; apply h; simp only [sverdict, h']

theorem hcalls_nil : hcalls [] = [] := by exact id rfl
theorem hcalls_cons (c cs) : hcalls (c :: cs) =
    if c.1 = "t.ReadRequest" ∨ c.1 = "bytesToUint16" then hcalls cs else c :: hcalls cs := by
  exact id rfl

theorem qtyAt_sym (env lit) : qtyAt env (.sym lit) =
    if litField lit "Quantity" = some "quantity" then Env.read env "quantity"
    else if litField lit "Quantity" = some "1" then .int 1
    else .unk := by exact id rfl

/-- the `Quantity:` fields of the eight request literals -/
theorem litQuantity :
    litField litCoilsRead "Quantity" = some "quantity" ∧ litField litDiscrete "Quantity" = some "quantity" ∧
    litField litCoil1 "Quantity" = some "1" ∧ litField litCoilsWrite "Quantity" = some "quantity" ∧
    litField litHoldingRead "Quantity" = some "quantity" ∧ litField litInput "Quantity" = some "quantity" ∧
    litField litReg1 "Quantity" = some "1" ∧ litField litRegsWrite "Quantity" = some "quantity" := by
  decide +kernel

theorem qtyAt_litCoilsRead (env) : qtyAt env (.sym litCoilsRead) = Env.read env "quantity" := by
  rw [qtyAt_sym, if_pos litQuantity.1]
theorem qtyAt_litDiscrete (env) : qtyAt env (.sym litDiscrete) = Env.read env "quantity" := by
  rw [qtyAt_sym, if_pos litQuantity.2.1]
theorem qtyAt_litCoil1 (env) : qtyAt env (.sym litCoil1) = .int 1 := by
  rw [qtyAt_sym, if_neg (by rw [litQuantity.2.2.1]; decide), if_pos litQuantity.2.2.1]
theorem qtyAt_litCoilsWrite (env) : qtyAt env (.sym litCoilsWrite) = Env.read env "quantity" := by
  rw [qtyAt_sym, if_pos litQuantity.2.2.2.1]
theorem qtyAt_litHoldingRead (env) : qtyAt env (.sym litHoldingRead) = Env.read env "quantity" := by
  rw [qtyAt_sym, if_pos litQuantity.2.2.2.2.1]
theorem qtyAt_litInput (env) : qtyAt env (.sym litInput) = Env.read env "quantity" := by
  rw [qtyAt_sym, if_pos litQuantity.2.2.2.2.2.1]
theorem qtyAt_litReg1 (env) : qtyAt env (.sym litReg1) = .int 1 := by
  rw [qtyAt_sym, if_neg (by rw [litQuantity.2.2.2.2.2.2.1]; decide), if_pos litQuantity.2.2.2.2.2.2.1]
theorem qtyAt_litRegsWrite (env) : qtyAt env (.sym litRegsWrite) = Env.read env "quantity" := by
  rw [qtyAt_sym, if_pos litQuantity.2.2.2.2.2.2.2]

end Modbus.GoEval.Srv

/-- `srv_eval [extra]`: run one iteration of `gs_ModbusServer_handleTransport` (goal:
    `sverdict (exec (srvOracle …) fuel gs_ModbusServer_handleTransport (reqEnvL …)) = …`) and reduce
    the verdict. Name the arm that is entered (`srvArm5` …) in the list: only that one is unfolded. -/
syntax "srv_eval" " [" Lean.Parser.Tactic.simpLemma,* "]" : tactic
macro_rules
  | `(tactic| srv_eval [$ls,*]) => `(tactic|
    (try rw [Modbus.GoEval.Srv.srv_frame]
     go_eval [Modbus.GoEval.Srv.frameWith, Modbus.GoEval.Srv.setNth_zero, Modbus.GoEval.Srv.setNth_succ,
       Modbus.GoEval.Srv.srvOracle, Modbus.GoEval.Srv.decode16, Modbus.GoEval.Srv.reqEnvL,
       Modbus.GoEval.Srv.fcIs, Modbus.GoEval.Srv.srvTail, Modbus.GoEval.Srv.srvSwitch,
       Modbus.GoEval.Srv.srvBody, Modbus.GoEval.Srv.sA, Modbus.GoEval.Srv.sB, Modbus.GoEval.Srv.lB,
       Modbus.GoEval.Srv.iT, Modbus.GoEval.Srv.iE, Modbus.Gen.gs_ModbusServer_handleTransport,
       Modbus.GoEval.Srv.litCoilsRead, Modbus.GoEval.Srv.litDiscrete, Modbus.GoEval.Srv.litCoil1,
       Modbus.GoEval.Srv.litCoilsWrite, Modbus.GoEval.Srv.litHoldingRead, Modbus.GoEval.Srv.litInput,
       Modbus.GoEval.Srv.litReg1, Modbus.GoEval.Srv.litRegsWrite, Modbus.GoEval.Srv.litPduData,
       Modbus.GoEval.Srv.litPduEcho, Modbus.GoEval.Srv.litPduIllegalFn, Modbus.GoEval.Srv.litPduException,
       Modbus.GoEval.Srv.sverdict_ite,
       List.cons.injEq, Modbus.GoEval.Val.sym.injEq, Modbus.GoEval.Val.int.injEq,
       List.getD_cons_zero, List.getD_cons_succ,
       Int.reduceEq, Int.reduceLT, Int.reduceNe, String.reduceNe, ne_eq, not_true_eq_false,
       not_false_eq_true, decide_false, decide_true, $ls,*]
     try simp only [Modbus.GoEval.Srv.sverdict_stopped, Modbus.GoEval.Srv.sverdict_returned,
       Modbus.GoEval.Srv.sverdict_fell, Modbus.GoEval.Srv.sverdict_stuck, Modbus.GoEval.Srv.sverdict_oof,
       Modbus.GoEval.Srv.hcalls_nil, Modbus.GoEval.Srv.hcalls_cons, Modbus.GoEval.Srv.isHandler,
       Modbus.GoEval.Srv.qtyAt_litCoilsRead, Modbus.GoEval.Srv.qtyAt_litDiscrete,
       Modbus.GoEval.Srv.qtyAt_litCoil1, Modbus.GoEval.Srv.qtyAt_litCoilsWrite,
       Modbus.GoEval.Srv.qtyAt_litHoldingRead, Modbus.GoEval.Srv.qtyAt_litInput,
       Modbus.GoEval.Srv.qtyAt_litReg1, Modbus.GoEval.Srv.qtyAt_litRegsWrite,
       Modbus.GoEval.read_def, Modbus.GoEval.read?_write, Modbus.GoEval.read?_cons,
       Modbus.GoEval.read?_nil, Option.getD_some, Option.getD_none, List.headD_cons, List.headD_nil,
       String.reduceEq, ↓reduceIte, or_false, false_or, or_true, true_or, and_true, true_and, and_self,
       and_false, false_and, reduceCtorEq]))
