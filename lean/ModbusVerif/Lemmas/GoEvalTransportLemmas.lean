import ModbusVerif.Lemmas.GoEvalLemmas
import ModbusVerif.Lemmas.GoEvalFrameLemmas
/-
  Running generated terms against a WORLD whose answers depend on the calls made so far.

  `GoEval.Oracle` is stateless (`callee → argument values → results`). The two transports'
  `ExecuteRequest` and the MBAP skip loop call the SAME callee with the SAME arguments several
  times and must get different answers: `tt.readMBAPFrame()` once per round of the skip loop,
  `time.Now()` twice, `rt.link.SetDeadline(time.Now().Add(rt.timeout))` twice. The staging of
  `GoEvalFrameLemmas` tells calls apart by their (distinct) argument values; here there is
  nothing to tell them apart by except the history.

  `World := Calls → Oracle`: the answer to a call may depend on the log of the calls performed
  before it (the log `execFrom` threads through a run anyway). `execFromW` is `execFrom`, clause by
  clause, with `o f args` replaced by `w cs f args` (`cs` the log at the moment of the call):

    * `execFromW_const`: for a world that ignores the log, `execFromW (fun _ => o) = execFrom o`
      (the evaluator is a conservative extension: same function on stateless oracles);
    * `execFromW_mono`: a run that does not end `outOfFuel` is the same for every larger fuel.

  The rewriting lemmas are the `W` copies of those of `GoEvalLemmas` (non-`@[defeq]`, one node at
  a time); `go_evalW [...]` / `go_evalW_nowrap [...]` = `go_eval` / `go_eval_nowrap` with them added.
  A symbolic fuel of the form `m + 6` is fine (`execFromW_seq` unifies `?n + 1` with it).

  Also here: `countCalls` / `wasCalled` (how often / whether a callee occurs in a log: what the
  worlds of Props/C05Src, C07Src, C19SrcExchange key their answers on), `plusVal` (exact integer
  addition on values), `callTextsOf` (the calls of a term with the texts of their leaf arguments;
  decidable, unlike `bindCalls`: `GExpr` has no `DecidableEq`).
-/
set_option linter.unusedSimpArgs false
set_option linter.unusedVariables false

namespace Modbus.GoEval
open Modbus.Gen

/-- answers by callee and argument values, given the calls performed so far -/
abbrev World := Calls → Oracle

/-- `execFrom` with a history-dependent oracle: the only change is `w cs f args` in `bindCall` -/
def execFromW (w : World) : Nat → GStmt → Env → Calls → Res
  | 0, _, env, cs => ⟨env, .outOfFuel, cs⟩
  | _ + 1, .skip, env, cs => ⟨env, .fell, cs⟩
  | n + 1, .seq a b, env, cs =>
    let r := execFromW w n a env cs
    match r.how with
    | .fell => execFromW w n b r.env r.calls
    | _ => r
  | _ + 1, .assign x e, env, cs =>
    if panics env e = true then ⟨env, .stuckAt "panic", cs⟩
    else ⟨Env.write env x (eval env e), .fell, cs⟩
  | _ + 1, .bindCall ts f as, env, cs =>
    if as.any (panics env) = true then ⟨env, .stuckAt "panic", cs⟩
    else callK env cs ts f (as.map (eval env)) (w cs f (as.map (eval env)))
  | n + 1, .ite c t e, env, cs =>
    if panics env c = true then ⟨env, .stuckAt "panic", cs⟩
    else iteK (eval env c).truth (execFromW w n t env cs) (execFromW w n e env cs)
      ⟨env, .stuckAt "cond", cs⟩
  | n + 1, .loop body, env, cs =>
    let r := execFromW w n body env cs
    match r.how with
    | .fell | .continued => execFromW w n (.loop body) r.env r.calls
    | .broke => { r with how := .fell }
    | _ => r
  | _ + 1, .ret, env, cs => ⟨env, .returned, cs⟩
  | _ + 1, .brk, env, cs => ⟨env, .broke, cs⟩
  | _ + 1, .cont, env, cs => ⟨env, .continued, cs⟩
  | _ + 1, .opaque text, env, cs => ⟨env, .stuckAt text, cs⟩

/-- run `s` from `env` with an empty call log -/
def execW (w : World) (fuel : Nat) (s : GStmt) (env : Env) : Res := execFromW w fuel s env []

def seqKW (w : World) (n : Nat) (b : GStmt) (r : Res) : Res :=
  match r.how with
  | .fell => execFromW w n b r.env r.calls
  | _ => r

def loopKW (w : World) (n : Nat) (body : GStmt) (r : Res) : Res :=
  match r.how with
  | .fell | .continued => execFromW w n (.loop body) r.env r.calls
  | .broke => { r with how := .fell }
  | _ => r

variable (w : World)

/-! ### one node at a time -/

theorem execFromW_zero (s env cs) : execFromW w 0 s env cs = ⟨env, .outOfFuel, cs⟩ := by
  cases s <;> rfl
theorem execFromW_seq (n a b env cs) :
    execFromW w (n+1) (.seq a b) env cs = seqKW w n b (execFromW w n a env cs) := by exact id rfl
theorem execFromW_loop (n body env cs) :
    execFromW w (n+1) (.loop body) env cs = loopKW w n body (execFromW w n body env cs) := by
  exact id rfl
theorem execFromW_skip (n env cs) : execFromW w (n+1) .skip env cs = ⟨env, .fell, cs⟩ := by exact id rfl
theorem execFromW_ret (n env cs) : execFromW w (n+1) .ret env cs = ⟨env, .returned, cs⟩ := by exact id rfl
theorem execFromW_brk (n env cs) : execFromW w (n+1) .brk env cs = ⟨env, .broke, cs⟩ := by exact id rfl
theorem execFromW_cont (n env cs) : execFromW w (n+1) .cont env cs = ⟨env, .continued, cs⟩ := by
  exact id rfl
theorem execFromW_opaque (n t env cs) :
    execFromW w (n+1) (.opaque t) env cs = ⟨env, .stuckAt t, cs⟩ := by exact id rfl
theorem execFromW_assign (n x e env cs) :
    execFromW w (n+1) (.assign x e) env cs =
      if panics env e = true then ⟨env, .stuckAt "panic", cs⟩
      else ⟨Env.write env x (eval env e), .fell, cs⟩ := by exact id rfl
theorem execFromW_bindCall (n ts f as env cs) :
    execFromW w (n+1) (.bindCall ts f as) env cs =
      if as.any (panics env) = true then ⟨env, .stuckAt "panic", cs⟩
      else callK env cs ts f (as.map (eval env)) (w cs f (as.map (eval env))) := by exact id rfl
theorem execFromW_ite (n c t e env cs) :
    execFromW w (n+1) (.ite c t e) env cs =
      if panics env c = true then ⟨env, .stuckAt "panic", cs⟩
      else iteK (eval env c).truth (execFromW w n t env cs) (execFromW w n e env cs)
        ⟨env, .stuckAt "cond", cs⟩ := by exact id rfl
theorem execW_def (n s env) : execW w n s env = execFromW w n s env [] := by exact id rfl

theorem seqKW_fell (n b env cs) : seqKW w n b ⟨env, .fell, cs⟩ = execFromW w n b env cs := by
  exact id rfl
theorem seqKW_returned (n b env cs) : seqKW w n b ⟨env, .returned, cs⟩ = ⟨env, .returned, cs⟩ := by
  exact id rfl
theorem seqKW_broke (n b env cs) : seqKW w n b ⟨env, .broke, cs⟩ = ⟨env, .broke, cs⟩ := by exact id rfl
theorem seqKW_continued (n b env cs) :
    seqKW w n b ⟨env, .continued, cs⟩ = ⟨env, .continued, cs⟩ := by exact id rfl
theorem seqKW_stuck (n b env cs t) :
    seqKW w n b ⟨env, .stuckAt t, cs⟩ = ⟨env, .stuckAt t, cs⟩ := by exact id rfl
theorem seqKW_stopped (n b env cs f vs) :
    seqKW w n b ⟨env, .stoppedAt f vs, cs⟩ = ⟨env, .stoppedAt f vs, cs⟩ := by exact id rfl
theorem seqKW_oof (n b env cs) : seqKW w n b ⟨env, .outOfFuel, cs⟩ = ⟨env, .outOfFuel, cs⟩ := by
  exact id rfl
theorem seqKW_ite (n b) (p : Prop) [Decidable p] (x y : Res) :
    seqKW w n b (if p then x else y) = if p then seqKW w n b x else seqKW w n b y := by
  split <;> exact id rfl
theorem seqKW_of_not_fell (n b) (r : Res) (h : r.how ≠ .fell) : seqKW w n b r = r := by
  unfold seqKW; split
  · contradiction
  · rfl

theorem loopKW_fell (n b env cs) :
    loopKW w n b ⟨env, .fell, cs⟩ = execFromW w n (.loop b) env cs := by exact id rfl
theorem loopKW_continued (n b env cs) :
    loopKW w n b ⟨env, .continued, cs⟩ = execFromW w n (.loop b) env cs := by exact id rfl
theorem loopKW_broke (n b env cs) : loopKW w n b ⟨env, .broke, cs⟩ = ⟨env, .fell, cs⟩ := by exact id rfl
theorem loopKW_returned (n b env cs) :
    loopKW w n b ⟨env, .returned, cs⟩ = ⟨env, .returned, cs⟩ := by exact id rfl
theorem loopKW_stuck (n b env cs t) :
    loopKW w n b ⟨env, .stuckAt t, cs⟩ = ⟨env, .stuckAt t, cs⟩ := by exact id rfl
theorem loopKW_stopped (n b env cs f vs) :
    loopKW w n b ⟨env, .stoppedAt f vs, cs⟩ = ⟨env, .stoppedAt f vs, cs⟩ := by exact id rfl
theorem loopKW_oof (n b env cs) : loopKW w n b ⟨env, .outOfFuel, cs⟩ = ⟨env, .outOfFuel, cs⟩ := by
  exact id rfl
theorem loopKW_ite (n b) (p : Prop) [Decidable p] (x y : Res) :
    loopKW w n b (if p then x else y) = if p then loopKW w n b x else loopKW w n b y := by
  split <;> exact id rfl

/-! ### conservative extension -/

/-- on a world that ignores the log `execFromW` IS `execFrom` -/
theorem execFromW_const (o : Oracle) : ∀ (n : Nat) (s : GStmt) (env : Env) (cs : Calls),
    execFromW (fun _ => o) n s env cs = execFrom o n s env cs := by
  intro n
  induction n with
  | zero => intro s env cs; rw [execFromW_zero, execFrom_zero]
  | succ n ih =>
    intro s env cs
    cases s with
    | seq a b =>
      rw [execFromW_seq, execFrom_seq, ih a env cs]
      generalize execFrom o n a env cs = r
      obtain ⟨e, hw, c⟩ := r
      cases hw with
      | fell => exact ih b e c
      | _ => rfl
    | ite c t e => rw [execFromW_ite, execFrom_ite, ih t env cs, ih e env cs]
    | loop body =>
      rw [execFromW_loop, execFrom_loop, ih body env cs]
      generalize execFrom o n body env cs = r
      obtain ⟨e, hw, c⟩ := r
      cases hw with
      | fell => exact ih (.loop body) e c
      | continued => exact ih (.loop body) e c
      | _ => rfl
    | _ => rfl

theorem execW_const (o : Oracle) (n s env) : execW (fun _ => o) n s env = exec o n s env :=
  execFromW_const o n s env []

/-! ### fuel -/

theorem execFromW_succ : ∀ (n : Nat) (s : GStmt) (env : Env) (cs : Calls),
    (execFromW w n s env cs).how ≠ .outOfFuel →
    execFromW w (n+1) s env cs = execFromW w n s env cs := by
  intro n
  induction n with
  | zero => intro s env cs h; exact absurd (by rw [execFromW_zero]) h
  | succ n ih =>
    intro s env cs h
    cases s with
    | seq a b =>
      rw [execFromW_seq] at h ⊢
      rw [execFromW_seq w n]
      have h1 : (execFromW w n a env cs).how ≠ .outOfFuel := by
        intro h1
        apply h
        rw [seqKW_of_not_fell _ _ _ _ (by rw [h1]; exact fun x => nomatch x)]
        exact h1
      rw [ih a env cs h1]
      generalize execFromW w n a env cs = r at h h1 ⊢
      obtain ⟨e, hw, c⟩ := r
      cases hw with
      | fell => exact ih b e c h
      | _ => rfl
    | ite c t e =>
      rw [execFromW_ite] at h ⊢
      rw [execFromW_ite w n]
      by_cases hp : panics env c = true
      · simp only [if_pos hp]
      · simp only [if_neg hp] at h ⊢
        cases hc : (eval env c).truth with
        | none => rfl
        | some bb =>
          rw [hc] at h
          cases bb with
          | true => exact ih t env cs h
          | false => exact ih e env cs h
    | loop body =>
      rw [execFromW_loop] at h ⊢
      rw [execFromW_loop w n]
      have h1 : (execFromW w n body env cs).how ≠ .outOfFuel := by
        intro h1
        apply h
        generalize execFromW w n body env cs = r at h1
        obtain ⟨e, hw, c⟩ := r
        cases h1
        rfl
      rw [ih body env cs h1]
      generalize execFromW w n body env cs = r at h h1 ⊢
      obtain ⟨e, hw, c⟩ := r
      cases hw with
      | fell => exact ih (.loop body) e c h
      | continued => exact ih (.loop body) e c h
      | _ => rfl
    | _ => rfl

theorem execFromW_mono (n m : Nat) (s : GStmt) (env : Env) (cs : Calls) (hm : n ≤ m)
    (h : (execFromW w n s env cs).how ≠ .outOfFuel) :
    execFromW w m s env cs = execFromW w n s env cs := by
  induction m with
  | zero => have : n = 0 := by omega
            rw [this]
  | succ m ih =>
    by_cases hn : n = m + 1
    · rw [hn]
    · have e := ih (by omega)
      rw [execFromW_succ w m s env cs (by rw [e]; exact h), e]

theorem execW_mono (n m : Nat) (s : GStmt) (env : Env) (hm : n ≤ m)
    (h : (execW w n s env).how ≠ .outOfFuel) : execW w m s env = execW w n s env :=
  execFromW_mono w n m s env [] hm h

/-! ### logs -/

/-- how often `f` was called in a log -/
def countCalls (f : String) : Calls → Nat
  | [] => 0
  | c :: t => if c.1 = f then countCalls f t + 1 else countCalls f t

theorem countCalls_nil (f) : countCalls f [] = 0 := by exact id rfl
theorem countCalls_cons (f g a t) :
    countCalls f ((g, a) :: t) = if g = f then countCalls f t + 1 else countCalls f t := by
  exact id rfl
theorem countCalls_append (f : String) (a b : Calls) :
    countCalls f (a ++ b) = countCalls f a + countCalls f b := by
  induction a with
  | nil => simp [countCalls]
  | cons c t ih =>
    simp only [List.cons_append, countCalls, ih]
    split <;> omega
theorem countCalls_snoc_same (f : String) (a : Calls) (vs : List Val) :
    countCalls f (a ++ [(f, vs)]) = countCalls f a + 1 := by
  rw [countCalls_append]; simp [countCalls]

/-- was `f` called in a log -/
def wasCalled (f : String) (cs : Calls) : Bool := cs.any (fun c => c.1 == f)

theorem wasCalled_nil (f) : wasCalled f [] = false := by exact id rfl
theorem wasCalled_cons (f g a t) :
    wasCalled f ((g, a) :: t) = (decide (g = f) || wasCalled f t) := by
  by_cases h : g = f <;> simp [wasCalled, List.any_cons, h]

/-- the callee names of a log, in order -/
def callees (cs : Calls) : List String := cs.map (·.1)

/-- observation through a conditional -/
theorem Res_how_ite (p : Prop) [Decidable p] (x y : Res) :
    (if p then x else y).how = if p then x.how else y.how := by split <;> rfl
theorem Res_calls_ite (p : Prop) [Decidable p] (x y : Res) :
    (if p then x else y).calls = if p then x.calls else y.calls := by split <;> rfl
theorem Res_env_ite (p : Prop) [Decidable p] (x y : Res) :
    (if p then x else y).env = if p then x.env else y.env := by split <;> rfl

/-- exact integer addition on values (`time.Time.Add`, no wrap-around) -/
def plusVal : Val → Val → Val
  | .int a, .int b => .int (a + b)
  | _, _ => .unk
theorem plusVal_int (a b) : plusVal (.int a) (.int b) = .int (a + b) := by exact id rfl

/-- the syntactic calls of a statement: callee and the source text of each argument that is a
    leaf (`none`: a compound expression) -/
def callTextsOf (s : GStmt) : List (String × List (Option String)) :=
  (bindCalls s).map (fun c => (c.2.1, c.2.2.map leafText?))

end Modbus.GoEval

/-- `go_evalW [extra]`: `go_eval` for runs of `execFromW` / `execW`;
    `go_evalW_nowrap [extra]`: the same with `wrap t v` left folded (see `go_eval_nowrap`) -/
syntax "go_evalW" (" [" Lean.Parser.Tactic.simpLemma,* "]")? : tactic
syntax "go_evalW_nowrap" (" [" Lean.Parser.Tactic.simpLemma,* "]")? : tactic
macro_rules
  | `(tactic| go_evalW) => `(tactic| go_evalW [])
  | `(tactic| go_evalW [$ls,*]) => `(tactic| go_evalW_nowrap [Modbus.GoEval.wrap_u8_def,
      Modbus.GoEval.wrap_u16_def, Modbus.GoEval.wrap_u32_def, Modbus.GoEval.wrap_u64_def,
      Modbus.GoEval.wrap_uint_def, Modbus.GoEval.wrap_i8_def, Modbus.GoEval.wrap_i16_def,
      Modbus.GoEval.wrap_i32_def, Modbus.GoEval.wrap_i64_def, Modbus.GoEval.wrap_int_def,
      Modbus.GoEval.wrap_bool_def, Modbus.GoEval.wrap_other_def, $ls,*])
macro_rules
  | `(tactic| go_evalW_nowrap) => `(tactic| go_evalW_nowrap [])
  | `(tactic| go_evalW_nowrap [$ls,*]) => `(tactic| go_eval_nowrap [Modbus.GoEval.execW_def,
      Modbus.GoEval.execFromW_seq, Modbus.GoEval.execFromW_loop, Modbus.GoEval.execFromW_skip,
      Modbus.GoEval.execFromW_ret, Modbus.GoEval.execFromW_brk, Modbus.GoEval.execFromW_cont,
      Modbus.GoEval.execFromW_opaque, Modbus.GoEval.execFromW_assign,
      Modbus.GoEval.execFromW_bindCall, Modbus.GoEval.execFromW_ite, Modbus.GoEval.execFromW_zero,
      Modbus.GoEval.seqKW_fell, Modbus.GoEval.seqKW_returned, Modbus.GoEval.seqKW_broke,
      Modbus.GoEval.seqKW_continued, Modbus.GoEval.seqKW_stuck, Modbus.GoEval.seqKW_stopped,
      Modbus.GoEval.seqKW_oof, Modbus.GoEval.seqKW_ite,
      Modbus.GoEval.loopKW_fell, Modbus.GoEval.loopKW_continued, Modbus.GoEval.loopKW_broke,
      Modbus.GoEval.loopKW_returned, Modbus.GoEval.loopKW_stuck, Modbus.GoEval.loopKW_stopped,
      Modbus.GoEval.loopKW_oof, Modbus.GoEval.loopKW_ite,
      Modbus.GoEval.countCalls_nil, Modbus.GoEval.countCalls_cons,
      Modbus.GoEval.wasCalled_nil, Modbus.GoEval.wasCalled_cons, Modbus.GoEval.plusVal_int,
      decide_true, decide_false, ne_eq, not_true_eq_false, not_false_eq_true, $ls,*])
