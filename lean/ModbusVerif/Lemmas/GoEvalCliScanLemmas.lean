import ModbusVerif.Lemmas.GoEvalTransportLemmas
import ModbusVerif.Lemmas.GoEvalLifeLemmas
/-
  Support for `Props/C20SrcScan.lean`: the scan / ping / decodeString functions of
  cmd/modbus-cli.go (`Gen.gs_cli_performBoolScan`, `…RegisterScan`, `…UnitIdScan`, `…Ping`,
  `gs_cli_decodeString`, regenerated on every run), evaluated by `Modbus.GoEval` for ALL outcomes of
  the client calls. Nothing is evaluated 65536 times: every loop is handled by induction.

   0. GENERIC LOOPS. `loop_counted`: a counted loop by induction on the rounds still to come, given
      an invariant `Inv i env cs`, the run of one round (ends `fell` or `continued`: a `continue`
      whose post statement was run) and of the exit round. `loop_diverges`: a loop whose rounds keep
      an invariant and never break runs out of EVERY fuel. Both for `execFromW` (oracles that see the
      call log; `execFromW_const`: the same evaluator on stateless oracles).
   1. SHAPE of the two address scans: `scanWith flag nameT nameE t head` (regType, start line,
      `addr = 0`, loop, found line, return), `scanHead t op bound call found onSkip onFail` (one round),
      `boolScan_shape`, `regScan_shape`: the generated terms ARE these (`rfl`).
   2. THE DEVICE `scanOracle ans`: reads answered by address. `ScanInv`: what a round needs of its
      environment. `bool_round` / `bool_exit` / `bool_loop` (the loop, any bound `b ≤ 0xffff`).
   3. `scanWith_run`: the function given the run of its loop; `ScanPre` (entry environment),
      `bool_run`. 4. `requests` / `printed`: reading a call log. 5. the register scan, same plan.
   6. `decodeString`: probe instrumentation (`withProbe` of GoEvalLifeLemmas), `historyP` (the
      bindings of an environment, oldest first), `ds_round` / `ds_exit` / `ds_loop` / `ds_run`.
   7. `performPing`: `pingWorld` (k-th probe ↦ `ans k`, by the number of probes in the log),
      `PingConst` / `PingDyn`, `ping_round` / `ping_exit` / `ping_loop` / `ping_run`.
   8. `performUnitIdScan`: `unitWorld` (answer by the unit id selected last in the log: `lastUnit`),
      `unit_round` / `unit_exit` / `unit_loop` / `unit_run`.
   9. variants that never end: `seq_diverges_*`, `scanWith_diverges`; the 16-bit counter
      (`bool16_round`, `bool16_loop_diverges`); `continue` without post statement
      (`boolNoPost_round`, `boolNoPost_loop_diverges`).
  10. term transformers `retype`, `dropPost`, `reBound`, `breakOnFail` and what they make of the
      generated bool scan (`rfl`). 11. reading the logs of ping and unit id scan.

  Conventions: string literals / qualified error constants are `abbrev`s of their leaf texts
  (`fmtFail`, `symIDA`, …); the environments bind them to symbols named by their own text.
-/
set_option linter.unusedSimpArgs false
set_option linter.unusedVariables false
set_option maxRecDepth 100000

namespace Modbus.GoEval.CliScan
open Modbus Modbus.Gen Modbus.GoEval

/-! ### 0. generic loops -/

/-- A COUNTED LOOP by induction on the rounds still to come. `Inv i env cs`: the state before round
    `i`. Every round `i < N` ends `fell` or `continued` in a state satisfying `Inv (i+1)`; in a state
    satisfying `Inv N` the body ends `broke` in a state satisfying `Post`. Then the loop entered in a
    state `Inv i` falls through in a state `Post` (fuel: rounds to come + `K` + 1). -/
theorem loop_counted (w : World) (head : GStmt) (K N : Nat) (Inv : Nat → Env → Calls → Prop)
    (step : ∀ (i : Nat) (env : Env) (cs : Calls) (m : Nat), i < N → Inv i env cs →
      ∃ env' cs', Inv (i + 1) env' cs' ∧
        (execFromW w (m + K) head env cs = ⟨env', .fell, cs'⟩ ∨
         execFromW w (m + K) head env cs = ⟨env', .continued, cs'⟩))
    (Post : Env → Calls → Prop)
    (stop : ∀ (env : Env) (cs : Calls) (m : Nat), Inv N env cs →
      ∃ env' cs', execFromW w (m + K) head env cs = ⟨env', .broke, cs'⟩ ∧ Post env' cs') :
    ∀ (k i : Nat) (env : Env) (cs : Calls), i + k = N → Inv i env cs →
      ∃ env' cs', execFromW w (k + K + 1) (.loop head) env cs = ⟨env', .fell, cs'⟩ ∧
        Post env' cs' := by
  intro k
  induction k with
  | zero =>
    intro i env cs hi inv
    have : i = N := by omega
    subst this
    obtain ⟨env', cs', h, post⟩ := stop env cs 0 inv
    refine ⟨env', cs', ?_, post⟩
    rw [execFromW_loop, h, loopKW_broke]
  | succ k ih =>
    intro i env cs hi inv
    obtain ⟨env1, cs1, inv1, h⟩ := step i env cs (k + 1) (by omega) inv
    obtain ⟨env', cs', h', inv'⟩ := ih (i + 1) env1 cs1 (by omega) inv1
    refine ⟨env', cs', ?_, inv'⟩
    have e : k + 1 + K = k + K + 1 := by omega
    rw [execFromW_loop]
    rcases h with h | h
    · rw [h, loopKW_fell, e, h']
    · rw [h, loopKW_continued, e, h']

/-- A LOOP THAT NEVER ENDS: every round entered in a state satisfying `Inv` ends `fell` or
    `continued` in such a state again (with fuel `K`). Then the loop runs out of EVERY fuel. -/
theorem loop_diverges (w : World) (head : GStmt) (K : Nat) (Inv : Env → Calls → Prop)
    (step : ∀ (env : Env) (cs : Calls), Inv env cs →
      ∃ env' cs', Inv env' cs' ∧
        (execFromW w K head env cs = ⟨env', .fell, cs'⟩ ∨
         execFromW w K head env cs = ⟨env', .continued, cs'⟩)) :
    ∀ (n : Nat) (env : Env) (cs : Calls), Inv env cs →
      (execFromW w n (.loop head) env cs).how = .outOfFuel := by
  intro n
  induction n with
  | zero => intro env cs _; rw [execFromW_zero]
  | succ n ih =>
    intro env cs inv
    rw [execFromW_loop]
    by_cases hoof : (execFromW w n head env cs).how = .outOfFuel
    · generalize execFromW w n head env cs = r at hoof
      obtain ⟨e, hw, c⟩ := r
      cases hoof
      rfl
    · obtain ⟨env1, cs1, inv1, h⟩ := step env cs inv
      have hK : (execFromW w K head env cs).how ≠ .outOfFuel := by
        rcases h with h | h <;> rw [h] <;> exact fun x => nomatch x
      have e1 := execFromW_mono w n (max n K) head env cs (Nat.le_max_left _ _) hoof
      have e2 := execFromW_mono w K (max n K) head env cs (Nat.le_max_right _ _) hK
      have e3 : execFromW w n head env cs = execFromW w K head env cs := by rw [← e1, e2]
      rw [e3]
      rcases h with h | h
      · rw [h, loopKW_fell]; exact ih env1 cs1 inv1
      · rw [h, loopKW_continued]; exact ih env1 cs1 inv1

/-- lists over `List.range` grow at the end -/
theorem flatMap_range_succ {α} (f : Nat → List α) (n : Nat) :
    (List.range (n + 1)).flatMap f = (List.range n).flatMap f ++ f n := by
  rw [List.range_succ, List.flatMap_append]; simp

theorem countP_range_succ (p : Nat → Bool) (n : Nat) :
    (List.range (n + 1)).countP p = (List.range n).countP p + (if p n = true then 1 else 0) := by
  rw [List.range_succ, List.countP_append]; simp [List.countP_cons]

theorem read?_write_ne (env : Env) (k x : String) (v : Val) (h : k ≠ x) :
    Env.read? (Env.write env k v) x = Env.read? env x := by
  rw [read?_write, if_neg h]
theorem read?_write_same (env : Env) (k : String) (v : Val) :
    Env.read? (Env.write env k v) k = some v := by
  rw [read?_write, if_pos rfl]

/-! ### 1. `performBoolScan` / `performRegisterScan`: shape -/

abbrev symIDA : String := "modbus.ErrIllegalDataAddress"
abbrev symIFN : String := "modbus.ErrIllegalFunction"
abbrev fmtStart : String := "\"starting %s scan\\n\""
abbrev fmtFail : String := "\"failed to read %s at address 0x%04x: %v\\n\""
abbrev fmtBoolRow : String := "\"0x%04x\\t%-5v : %v\\n\""
abbrev fmtRegRow : String := "\"0x%04x\\t%-5v : 0x%04x\\t%v\\n\""
abbrev fmtFound : String := "\"found %v %ss\\n\""

/-- `err == modbus.ErrIllegalDataAddress || err == modbus.ErrIllegalFunction` -/
def notThere : GExpr :=
  .or (.cmp "==" (.var "err" .other) (.var "modbus.ErrIllegalDataAddress" .other))
      (.cmp "==" (.var "err" .other) (.var "modbus.ErrIllegalFunction" .other))
def errNotNil : GExpr := .cmp "!=" (.var "err" .other) (.var "nil" .other)
/-- the post statement `addr++` of the `for` (counter of type `t`) -/
def addrInc (t : GTy) : GStmt := .assign "addr" (.bin "+" t (.var "addr" t) (.lit 1 t))
def countInc : GStmt := .assign "count" (.bin "+" .uint (.var "count" .uint) (.lit 1 .uint))
def failPrint (t : GTy) : GStmt :=
  .bindCall [] "fmt.Printf" [.call fmtFail .other, .var "regType" .other, .var "addr" t, .var "err" .other]

/-- one round of a scan loop: `if addr OP BOUND { call; if notThere { SKIP } else if err != nil { FAIL }
    else { found; count++ }; addr++ } else break` -/
def scanHead (t : GTy) (op : String) (bound : Int) (call found onSkip onFail : GStmt) : GStmt :=
  .ite (.cmp op (.var "addr" t) (.lit bound t))
    (.seq (.seq call (.ite notThere onSkip (.ite errNotNil onFail (.seq found countInc)))) (addrInc t))
    .brk

/-- what `continue` is rendered as: the post statement, then `continue` -/
def skipPost (t : GTy) : GStmt := .seq (addrInc t) .cont

/-- a scan function around its loop -/
def scanWith (flag nameT nameE : String) (t : GTy) (head : GStmt) : GStmt :=
  .seq (.ite (.var flag .bool) (.assign "regType" (.call nameT .other)) (.assign "regType" (.call nameE .other)))
    (.seq (.bindCall [] "fmt.Printf" [.call fmtStart .other, .var "regType" .other])
      (.seq (.seq (.assign "addr" (.lit 0 t)) (.loop head))
        (.seq (.bindCall [] "fmt.Printf" [.call fmtFound .other, .var "count" .uint, .var "regType" .other]) .ret)))

def boolCall (t : GTy) : GStmt :=
  .ite (.var "isCoil" .bool)
    (.bindCall ["val", "err"] "client.ReadCoil" [.conv .u16 (.var "addr" t)])
    (.bindCall ["val", "err"] "client.ReadDiscreteInput" [.conv .u16 (.var "addr" t)])
def boolFound (t : GTy) : GStmt :=
  .bindCall [] "fmt.Printf" [.call fmtBoolRow .other, .var "addr" t, .var "addr" t, .var "val" .bool]
def regCall (t : GTy) : GStmt :=
  .ite (.var "isHoldingReg" .bool)
    (.bindCall ["val", "err"] "client.ReadRegister" [.conv .u16 (.var "addr" t), .lit 0 .uint])
    (.bindCall ["val", "err"] "client.ReadRegister" [.conv .u16 (.var "addr" t), .lit 1 .uint])
def regFound (t : GTy) : GStmt :=
  .bindCall [] "fmt.Printf" [.call fmtRegRow .other, .var "addr" t, .var "addr" t, .var "val" .u16, .var "val" .u16]

/-- the loop body of `performBoolScan` with the bound `b` (the source: `0xffff`) -/
def boolHead (b : Int) : GStmt := scanHead .u32 "<=" b (boolCall .u32) (boolFound .u32) (skipPost .u32) (failPrint .u32)
def regHead (b : Int) : GStmt := scanHead .u32 "<=" b (regCall .u32) (regFound .u32) (skipPost .u32) (failPrint .u32)

/-- THE GENERATED TERMS are these skeletons (nothing else in them) -/
theorem boolScan_shape : gs_cli_performBoolScan =
    scanWith "isCoil" "\"coil\"" "\"discrete input\"" .u32 (boolHead 65535) := by rfl
theorem regScan_shape : gs_cli_performRegisterScan =
    scanWith "isHoldingReg" "\"holding register\"" "\"input register\"" .u32 (regHead 65535) := by rfl

/-! ### 2. the device: answers by address -/

/-- the answer `(value, err)` to a read whose first argument has the value `x` -/
def answerAt (ans : Nat → Val × String) : Val → Option (List Val)
  | .int v => some [(ans v.toNat).1, .sym (ans v.toNat).2]
  | _ => none

theorem answerAt_nat (ans : Nat → Val × String) (a : Nat) :
    answerAt ans (.int (a : Int)) = some [(ans a).1, .sym (ans a).2] := by
  simp only [answerAt, Int.toNat_natCast]

/-- ORACLE of the two address scans: `client.ReadCoil(a)`, `client.ReadDiscreteInput(a)`,
    `client.ReadRegister(a, _)` return `ans a` = (value, error symbol); `fmt.Printf` returns nothing;
    everything else is unanswered. -/
def scanOracle (ans : Nat → Val × String) : Oracle := fun f args =>
  if f = "client.ReadCoil" then answerAt ans (args.headD .unk)
  else if f = "client.ReadDiscreteInput" then answerAt ans (args.headD .unk)
  else if f = "client.ReadRegister" then answerAt ans (args.headD .unk)
  else if f = "fmt.Printf" then some []
  else none

def scanWorld (ans : Nat → Val × String) : World := fun _ => scanOracle ans

/-- is `e` one of the two "the register does not exist" errors -/
def isNotThere (e : String) : Bool := decide (e = symIDA) || decide (e = symIFN)

/-- what a scan loop needs of its environment before the round of address `a`, `c` found so far -/
structure ScanInv (flag : String) (fv : Bool) (rt : Val) (fmtRow : String) (a c : Int) (env : Env) : Prop where
  addr : Env.read? env "addr" = some (.int a)
  count : Env.read? env "count" = some (.int c)
  flag : Env.read? env flag = some (.ofBool fv)
  regType : Env.read? env "regType" = some rt
  ida : Env.read? env symIDA = some (.sym symIDA)
  ifn : Env.read? env symIFN = some (.sym symIFN)
  nil : Env.read? env "nil" = none
  fFail : Env.read? env fmtFail = some (.sym fmtFail)
  fRow : Env.read? env fmtRow = some (.sym fmtRow)
  fFound : Env.read? env fmtFound = some (.sym fmtFound)

/-- the environment after the round that read `(v, e)` (`a'` = the next address, `c'` = the
    incremented count) -/
def roundEnv (env : Env) (v : Val) (e : String) (a' c' : Int) : Env :=
  if isNotThere e = true then ((env.write "val" v).write "err" (.sym e)).write "addr" (.int a')
  else if e ≠ "nil" then ((env.write "val" v).write "err" (.sym e)).write "addr" (.int a')
  else (((env.write "val" v).write "err" (.sym e)).write "count" (.int c')).write "addr" (.int a')

def roundHow (e : String) : End := if isNotThere e = true then .continued else .fell

/-- the print of the round: nothing / the failure line / the row -/
def roundPrint (rt : Val) (row : List Val) (a : Int) (e : String) : Calls :=
  if isNotThere e = true then []
  else if e ≠ "nil" then [("fmt.Printf", [.sym fmtFail, rt, .int a, .sym e])]
  else [("fmt.Printf", row)]

def boolCallee (isCoil : Bool) : String := if isCoil = true then "client.ReadCoil" else "client.ReadDiscreteInput"

/-- ONE ROUND of the bool scan at address `a ≤ b ≤ 65535`, whatever the device answers -/
theorem bool_round (ans : Nat → Val × String) (b : Nat) (hb : b ≤ 65535) (isCoil : Bool) (rt : Val)
    (a c : Nat) (ha : a ≤ b) (hc : c < 18446744073709551615) (env : Env) (cs : Calls) (m : Nat)
    (inv : ScanInv "isCoil" isCoil rt fmtBoolRow a c env) :
    execFromW (scanWorld ans) (m + 8) (boolHead b) env cs =
      ⟨roundEnv env (ans a).1 (ans a).2 ((a + 1 : Nat) : Int) ((c : Int) + 1), roundHow (ans a).2,
        cs ++ (boolCallee isCoil, [.int a]) ::
          roundPrint rt [.sym fmtBoolRow, .int a, .int a, (ans a).1] a (ans a).2⟩ := by
  have hle : (a : Int) ≤ (b : Int) := by omega
  have hw16 : (a : Int) % 65536 = (a : Int) := by omega
  have hw32 : ((a : Int) + 1) % 4294967296 = ((a + 1 : Nat) : Int) := by omega
  have hw64 : ((c : Int) + 1) % 18446744073709551616 = (c : Int) + 1 := by omega
  cases isCoil <;>
  · go_evalW [boolHead, scanHead, boolCall, boolFound, skipPost, failPrint, notThere, errNotNil,
      addrInc, countInc, scanWorld, scanOracle, answerAt_nat, inv.addr, inv.count, inv.flag,
      inv.regType, inv.ida, inv.ifn, inv.nil, inv.fFail, inv.fRow, inv.fFound, hle, hw16, hw32, hw64,
      roundEnv, roundHow, roundPrint, boolCallee, isNotThere, Bool.or_eq_true, fmtFail, fmtBoolRow,
      fmtFound, symIDA, symIFN]
    repeat' split
    all_goals first | rfl | simp only [List.append_assoc, List.cons_append, List.nil_append]

/-- the exit round: `addr = b + 1`: `break`, nothing else -/
theorem bool_exit (ans : Nat → Val × String) (b : Nat) (isCoil : Bool) (rt : Val) (c : Int) (env : Env)
    (cs : Calls) (m : Nat) (inv : ScanInv "isCoil" isCoil rt fmtBoolRow ((b + 1 : Nat) : Int) c env) :
    execFromW (scanWorld ans) (m + 8) (boolHead b) env cs = ⟨env, .broke, cs⟩ := by
  have hle : ¬ ((b + 1 : Nat) : Int) ≤ (b : Int) := by omega
  go_evalW [boolHead, scanHead, inv.addr, hle]

theorem isNotThere_nil : isNotThere "nil" = false := by decide

/-- the invariant after a round -/
theorem ScanInv.round {flag : String} {fv : Bool} {rt : Val} {fmtRow : String} {a c : Int} {env : Env}
    (inv : ScanInv flag fv rt fmtRow a c env)
    (hf : "val" ≠ flag ∧ "err" ≠ flag ∧ "count" ≠ flag ∧ "addr" ≠ flag)
    (hr : "val" ≠ fmtRow ∧ "err" ≠ fmtRow ∧ "count" ≠ fmtRow ∧ "addr" ≠ fmtRow)
    (v : Val) (e : String) (a' c' : Int) :
    ScanInv flag fv rt fmtRow a' (if e = "nil" then c' else c) (roundEnv env v e a' c') := by
  obtain ⟨hf1, hf2, hf3, hf4⟩ := hf
  obtain ⟨hr1, hr2, hr3, hr4⟩ := hr
  by_cases hnt : isNotThere e = true
  · have hn : e ≠ "nil" := by intro h; rw [h, isNotThere_nil] at hnt; cases hnt
    simp only [roundEnv, hnt, if_true, if_neg hn]
    constructor
    all_goals
      simp only [read?_write, hf1, hf2, hf3, hf4, hr1, hr2, hr3, hr4, String.reduceEq, ↓reduceIte, fmtFail,
        fmtFound, symIDA, symIFN, inv.addr, inv.count, inv.flag, inv.regType, inv.ida, inv.ifn, inv.nil,
        inv.fFail, inv.fRow, inv.fFound]
  · by_cases hn : e = "nil"
    · subst hn
      simp only [roundEnv, isNotThere_nil, Bool.false_eq_true, if_false, if_true, ne_eq, not_true_eq_false]
      constructor
      all_goals
        simp only [read?_write, hf1, hf2, hf3, hf4, hr1, hr2, hr3, hr4, String.reduceEq, ↓reduceIte, fmtFail,
          fmtFound, symIDA, symIFN, inv.addr, inv.count, inv.flag, inv.regType, inv.ida, inv.ifn, inv.nil,
          inv.fFail, inv.fRow, inv.fFound]
    · simp only [roundEnv, hnt, hn, Bool.false_eq_true, if_false, if_true, ne_eq, not_false_eq_true]
      constructor
      all_goals
        simp only [read?_write, hf1, hf2, hf3, hf4, hr1, hr2, hr3, hr4, String.reduceEq, ↓reduceIte, fmtFail,
          fmtFound, symIDA, symIFN, inv.addr, inv.count, inv.flag, inv.regType, inv.ida, inv.ifn, inv.nil,
          inv.fFail, inv.fRow, inv.fFound]

theorem roundHow_cases (e : String) : roundHow e = .fell ∨ roundHow e = .continued := by
  unfold roundHow; split <;> simp

/-- number of addresses below `n` answered with `nil` -/
def nilCount (ans : Nat → Val × String) (n : Nat) : Nat :=
  (List.range n).countP (fun a => decide ((ans a).2 = "nil"))

theorem nilCount_succ (ans : Nat → Val × String) (n : Nat) :
    nilCount ans (n + 1) = nilCount ans n + (if (ans n).2 = "nil" then 1 else 0) := by
  unfold nilCount; rw [countP_range_succ]; simp

theorem nilCount_le (ans : Nat → Val × String) (n : Nat) : nilCount ans n ≤ n := by
  unfold nilCount
  exact Nat.le_trans List.countP_le_length (by simp)

/-- the calls of the round of address `a` in the bool scan -/
def boolRoundCalls (ans : Nat → Val × String) (isCoil : Bool) (rt : Val) (a : Nat) : Calls :=
  (boolCallee isCoil, [.int a]) ::
    roundPrint rt [.sym fmtBoolRow, .int a, .int a, (ans a).1] a (ans a).2

/-- THE LOOP of the bool scan entered at address 0 with `count = 0`: it falls through after the rounds
    of the addresses 0..b in order; `count` = the number of `nil` answers -/
theorem bool_loop (ans : Nat → Val × String) (b : Nat) (hb : b ≤ 65535) (isCoil : Bool) (rt : Val)
    (env : Env) (cs : Calls) (inv : ScanInv "isCoil" isCoil rt fmtBoolRow 0 0 env) :
    ∃ env', execFromW (scanWorld ans) (b + 10) (.loop (boolHead b)) env cs =
        ⟨env', .fell, cs ++ (List.range (b + 1)).flatMap (boolRoundCalls ans isCoil rt)⟩ ∧
      ScanInv "isCoil" isCoil rt fmtBoolRow ((b + 1 : Nat) : Int) (nilCount ans (b + 1) : Nat) env' := by
  have h := loop_counted (scanWorld ans) (boolHead b) 8 (b + 1)
    (fun i env' cs' => ScanInv "isCoil" isCoil rt fmtBoolRow (i : Nat) (nilCount ans i : Nat) env' ∧
      cs' = cs ++ (List.range i).flatMap (boolRoundCalls ans isCoil rt))
    (by
      intro i env1 cs1 m hi ⟨inv1, hcs⟩
      have hn := nilCount_le ans i
      refine ⟨roundEnv env1 (ans i).1 (ans i).2 ((i + 1 : Nat) : Int) ((nilCount ans i : Nat) + 1),
        cs1 ++ boolRoundCalls ans isCoil rt i, ⟨?_, ?_⟩, ?_⟩
      rotate_left 2
      · have := bool_round ans b hb isCoil rt i (nilCount ans i) (by omega) (by omega) env1 cs1 m inv1
        rcases roundHow_cases (ans i).2 with h | h
        · left; rw [this, h]; rfl
        · right; rw [this, h]; rfl
      · have := inv1.round (by decide) (by decide) (ans i).1 (ans i).2 ((i + 1 : Nat) : Int) ((nilCount ans i : Nat) + 1)
        rw [nilCount_succ]
        split at this <;> rename_i h
        · simpa [h] using this
        · simpa [h] using this
      · rw [hcs, flatMap_range_succ, List.append_assoc])
    (fun env' cs' => ScanInv "isCoil" isCoil rt fmtBoolRow ((b + 1 : Nat) : Int) (nilCount ans (b + 1) : Nat) env' ∧
      cs' = cs ++ (List.range (b + 1)).flatMap (boolRoundCalls ans isCoil rt))
    (by
      intro env1 cs1 m ⟨inv1, h1⟩
      exact ⟨env1, cs1, bool_exit ans b isCoil rt _ env1 cs1 m inv1, inv1, h1⟩)
    (b + 1) 0 env cs (by omega) ⟨by simpa [nilCount] using inv, by simp⟩
  obtain ⟨env', cs', h1, h2, h3⟩ := h
  refine ⟨env', ?_, h2⟩
  have e : b + 1 + 8 + 1 = b + 10 := by omega
  rw [← e, h1, h3]

/-! ### 3. the function around its loop -/

/-- the name the scan prints: `regType` -/
def regTypeOf (fv : Bool) (nameT nameE : String) : Val := .sym (if fv = true then nameT else nameE)

/-- A SCAN FUNCTION GIVEN THE RUN OF ITS LOOP: `regType` is chosen by the flag, the start line is
    printed, `addr = 0`, the loop, the `found` line with `count` and `regType`, `return`. -/
theorem scanWith_run (w : World) (hw : ∀ cs args, w cs "fmt.Printf" args = some [])
    (flag nameT nameE : String) (head : GStmt) (fv : Bool) (env0 : Env)
    (hflag : Env.read? env0 flag = some (.ofBool fv))
    (hT : Env.read? env0 nameT = some (.sym nameT)) (hE : Env.read? env0 nameE = some (.sym nameE))
    (hS : Env.read? env0 fmtStart = some (.sym fmtStart))
    (k : Nat) (env' : Env) (cs' : Calls) (c : Int)
    (hloop : execFromW w (k + 1) (.loop head)
        ((env0.write "regType" (regTypeOf fv nameT nameE)).write "addr" (.int 0))
        [("fmt.Printf", [.sym fmtStart, regTypeOf fv nameT nameE])] = ⟨env', .fell, cs'⟩)
    (hcount : Env.read? env' "count" = some (.int c))
    (hrt : Env.read? env' "regType" = some (regTypeOf fv nameT nameE))
    (hF : Env.read? env' fmtFound = some (.sym fmtFound)) :
    execFromW w (k + 5) (scanWith flag nameT nameE .u32 head) env0 [] =
      ⟨env', .returned, cs' ++ [("fmt.Printf", [.sym fmtFound, .int c, regTypeOf fv nameT nameE])]⟩ := by
  have hS1 : ∀ v, Env.read? (Env.write env0 "regType" v) fmtStart = some (.sym fmtStart) := by
    intro v; rw [read?_write_ne _ _ _ _ (by decide), hS]
  cases fv <;>
  · simp only [regTypeOf, Bool.false_eq_true, ↓reduceIte] at hloop hrt ⊢
    go_evalW [scanWith, hflag, hT, hE, hS1, hw, hloop, hcount, hrt, hF, read?_write_same]

/-- what a scan function needs of its entry environment: the parameters, the zero value of
    `var count uint`, the two error constants of package modbus and the string literals bound to
    symbols named by their text; `nil` not shadowed -/
structure ScanPre (flag nameT nameE fmtRow : String) (fv : Bool) (env0 : Env) : Prop where
  flag : Env.read? env0 flag = some (.ofBool fv)
  nameT : Env.read? env0 nameT = some (.sym nameT)
  nameE : Env.read? env0 nameE = some (.sym nameE)
  count : Env.read? env0 "count" = some (.int 0)
  ida : Env.read? env0 symIDA = some (.sym symIDA)
  ifn : Env.read? env0 symIFN = some (.sym symIFN)
  nil : Env.read? env0 "nil" = none
  fStart : Env.read? env0 fmtStart = some (.sym fmtStart)
  fFail : Env.read? env0 fmtFail = some (.sym fmtFail)
  fRow : Env.read? env0 fmtRow = some (.sym fmtRow)
  fFound : Env.read? env0 fmtFound = some (.sym fmtFound)

/-- the loop invariant holds at the loop entry -/
theorem ScanPre.entry {flag nameT nameE fmtRow : String} {fv : Bool} {env0 : Env}
    (pre : ScanPre flag nameT nameE fmtRow fv env0)
    (hf : "regType" ≠ flag ∧ "addr" ≠ flag) (hr : "regType" ≠ fmtRow ∧ "addr" ≠ fmtRow) (rt : Val) :
    ScanInv flag fv rt fmtRow 0 0 ((env0.write "regType" rt).write "addr" (.int 0)) := by
  obtain ⟨hf1, hf2⟩ := hf
  obtain ⟨hr1, hr2⟩ := hr
  constructor
  all_goals
    simp only [read?_write, hf1, hf2, hr1, hr2, String.reduceEq, ↓reduceIte, fmtFail, fmtFound, symIDA,
      symIFN, pre.flag, pre.count, pre.ida, pre.ifn, pre.nil, pre.fFail, pre.fRow, pre.fFound]

theorem scanWorld_printf (ans : Nat → Val × String) (cs : Calls) (args : List Val) :
    scanWorld ans cs "fmt.Printf" args = some [] := by
  simp only [scanWorld, scanOracle, String.reduceEq, ↓reduceIte]

abbrev nameCoil : String := "\"coil\""
abbrev nameDI : String := "\"discrete input\""
abbrev nameHR : String := "\"holding register\""
abbrev nameIR : String := "\"input register\""

/-- the whole log of a scan: start line, the rounds, `found` line -/
def scanLog (rt : Val) (rounds : Calls) (count : Nat) : Calls :=
  ("fmt.Printf", [.sym fmtStart, rt]) :: rounds ++ [("fmt.Printf", [.sym fmtFound, .int count, rt])]

/-- **`performBoolScan` with the bound `b ≤ 0xffff`**, any answers, any entry environment holding what
    `ScanPre` lists: it returns; its calls are the start line, the rounds of the addresses `0..b` in
    order, the `found` line with the number of `nil` answers. -/
theorem bool_run (ans : Nat → Val × String) (b : Nat) (hb : b ≤ 65535) (isCoil : Bool) (env0 : Env)
    (pre : ScanPre "isCoil" nameCoil nameDI fmtBoolRow isCoil env0) :
    ∃ env', execW (scanWorld ans) (b + 15)
        (scanWith "isCoil" nameCoil nameDI .u32 (boolHead b)) env0 =
      ⟨env', .returned, scanLog (regTypeOf isCoil nameCoil nameDI)
        ((List.range (b + 1)).flatMap (boolRoundCalls ans isCoil (regTypeOf isCoil nameCoil nameDI)))
        (nilCount ans (b + 1))⟩ ∧
      Env.read? env' "count" = some (.int (nilCount ans (b + 1) : Nat)) := by
  obtain ⟨env', hl, inv⟩ := bool_loop ans b hb isCoil (regTypeOf isCoil nameCoil nameDI) _
    [("fmt.Printf", [.sym fmtStart, regTypeOf isCoil nameCoil nameDI])]
    (pre.entry (by decide) (by decide) (regTypeOf isCoil nameCoil nameDI))
  refine ⟨env', ?_, inv.count⟩
  have := scanWith_run (scanWorld ans) (scanWorld_printf ans) "isCoil" nameCoil nameDI (boolHead b) isCoil env0
    pre.flag pre.nameT pre.nameE pre.fStart (b + 9) env' _ _ hl inv.count inv.regType inv.fFound
  rw [execW_def]
  have e : b + 15 = b + 9 + 5 + 1 := by omega
  rw [e, execFromW_succ _ _ _ _ _ (by rw [this]; exact fun x => nomatch x), this]
  simp only [scanLog, List.cons_append, List.nil_append, List.append_assoc]

/-! ### 4. reading a log -/

/-- the methods of `client` the scans and `ping` call -/
def clientNames : List String :=
  ["client.ReadCoil", "client.ReadDiscreteInput", "client.ReadRegister", "client.SetUnitId"]
def isRequest (c : String × List Val) : Bool := clientNames.contains c.1
/-- the calls of methods of `client` in a log, in order -/
def requests (cs : Calls) : Calls := cs.filter isRequest
def isPrint (c : String × List Val) : Bool := c.1 == "fmt.Printf" || c.1 == "fmt.Println"
/-- the `fmt.Printf` / `fmt.Println` calls of a log, in order: what is printed -/
def printed (cs : Calls) : Calls := cs.filter isPrint

theorem requests_append (a b : Calls) : requests (a ++ b) = requests a ++ requests b := List.filter_append ..
theorem printed_append (a b : Calls) : printed (a ++ b) = printed a ++ printed b := List.filter_append ..

theorem filter_flatMap_range {α} (p : α → Bool) (f : Nat → List α) (g : Nat → List α)
    (h : ∀ a, (f a).filter p = g a) : ∀ n, ((List.range n).flatMap f).filter p = (List.range n).flatMap g := by
  intro n
  induction n with
  | zero => rfl
  | succ n ih => rw [flatMap_range_succ, flatMap_range_succ, List.filter_append, ih, h]

theorem flatMap_single_range {α} (g : Nat → α) : ∀ n, (List.range n).flatMap (fun a => [g a]) = (List.range n).map g := by
  intro n
  induction n with
  | zero => rfl
  | succ n ih => rw [flatMap_range_succ, ih, List.range_succ, List.map_append]; rfl

theorem roundPrint_requests (rt : Val) (row : List Val) (a : Int) (e : String) :
    requests (roundPrint rt row a e) = [] := by
  unfold roundPrint; repeat' split
  all_goals rfl

theorem roundPrint_printed (rt : Val) (row : List Val) (a : Int) (e : String) :
    printed (roundPrint rt row a e) = roundPrint rt row a e := by
  unfold roundPrint; repeat' split
  all_goals rfl

theorem bool_round_requests (ans : Nat → Val × String) (isCoil : Bool) (rt : Val) (a : Nat) :
    requests (boolRoundCalls ans isCoil rt a) = [(boolCallee isCoil, [.int a])] := by
  have h := roundPrint_requests rt [.sym fmtBoolRow, .int a, .int a, (ans a).1] a (ans a).2
  unfold requests at h ⊢
  cases isCoil <;> simp only [boolRoundCalls, List.filter_cons, h] <;> rfl

theorem bool_round_printed (ans : Nat → Val × String) (isCoil : Bool) (rt : Val) (a : Nat) :
    printed (boolRoundCalls ans isCoil rt a) =
      roundPrint rt [.sym fmtBoolRow, .int a, .int a, (ans a).1] a (ans a).2 := by
  have h := roundPrint_printed rt [.sym fmtBoolRow, .int a, .int a, (ans a).1] a (ans a).2
  unfold printed at h ⊢
  cases isCoil <;> simp only [boolRoundCalls, List.filter_cons, h] <;> rfl

theorem requests_cons_print (args : List Val) (rest : Calls) :
    requests (("fmt.Printf", args) :: rest) = requests rest := by
  unfold requests; rw [List.filter_cons, if_neg (show ¬ isRequest ("fmt.Printf", args) = true from by rw [show isRequest ("fmt.Printf", args) = false from rfl]; decide)]
theorem printed_cons_print (args : List Val) (rest : Calls) :
    printed (("fmt.Printf", args) :: rest) = ("fmt.Printf", args) :: printed rest := by
  unfold printed; rw [List.filter_cons, if_pos (show isPrint ("fmt.Printf", args) = true from rfl)]

theorem requests_scanLog (rt : Val) (rounds : Calls) (n : Nat) :
    requests (scanLog rt rounds n) = requests rounds := by
  unfold scanLog
  rw [List.cons_append, requests_cons_print, requests_append, requests_cons_print]
  exact List.append_nil _

theorem printed_scanLog (rt : Val) (rounds : Calls) (n : Nat) :
    printed (scanLog rt rounds n) = scanLog rt (printed rounds) n := by
  unfold scanLog
  rw [List.cons_append, printed_cons_print, printed_append, printed_cons_print]
  rfl

/-- the requests of a bool scan over the addresses below `n`: one per address, in order -/
theorem bool_requests (ans : Nat → Val × String) (isCoil : Bool) (rt : Val) (n : Nat) :
    requests ((List.range n).flatMap (boolRoundCalls ans isCoil rt)) =
      (List.range n).map (fun (a : Nat) => (boolCallee isCoil, [Val.int a])) := by
  unfold requests
  rw [filter_flatMap_range isRequest _ (fun (a : Nat) => [(boolCallee isCoil, [Val.int a])])
    (bool_round_requests ans isCoil rt) n, flatMap_single_range]

theorem bool_printed (ans : Nat → Val × String) (isCoil : Bool) (rt : Val) (n : Nat) :
    printed ((List.range n).flatMap (boolRoundCalls ans isCoil rt)) =
      (List.range n).flatMap (fun (a : Nat) =>
        roundPrint rt [.sym fmtBoolRow, .int a, .int a, (ans a).1] a (ans a).2) := by
  unfold printed
  exact filter_flatMap_range isPrint _ _ (bool_round_printed ans isCoil rt) n

/-! ### 5. `performRegisterScan` -/

/-- `modbus.HOLDING_REGISTER` = 0 iff `isHoldingReg`, else `modbus.INPUT_REGISTER` = 1 -/
def regTypeArg (isHoldingReg : Bool) : Int := if isHoldingReg = true then 0 else 1

theorem regTypeArg_consts :
    regTypeArg true = const_HOLDING_REGISTER ∧ regTypeArg false = const_INPUT_REGISTER := ⟨rfl, rfl⟩

/-- ONE ROUND of the register scan at address `a ≤ b ≤ 65535`, whatever the device answers -/
theorem reg_round (ans : Nat → Val × String) (b : Nat) (hb : b ≤ 65535) (isH : Bool) (rt : Val)
    (a c : Nat) (ha : a ≤ b) (hc : c < 18446744073709551615) (env : Env) (cs : Calls) (m : Nat)
    (inv : ScanInv "isHoldingReg" isH rt fmtRegRow a c env) :
    execFromW (scanWorld ans) (m + 8) (regHead b) env cs =
      ⟨roundEnv env (ans a).1 (ans a).2 ((a + 1 : Nat) : Int) ((c : Int) + 1), roundHow (ans a).2,
        cs ++ ("client.ReadRegister", [.int a, .int (regTypeArg isH)]) ::
          roundPrint rt [.sym fmtRegRow, .int a, .int a, (ans a).1, (ans a).1] a (ans a).2⟩ := by
  have hle : (a : Int) ≤ (b : Int) := by omega
  have hw16 : (a : Int) % 65536 = (a : Int) := by omega
  have hw32 : ((a : Int) + 1) % 4294967296 = ((a + 1 : Nat) : Int) := by omega
  have hw64 : ((c : Int) + 1) % 18446744073709551616 = (c : Int) + 1 := by omega
  cases isH <;>
  · go_evalW [regHead, scanHead, regCall, regFound, skipPost, failPrint, notThere, errNotNil,
      addrInc, countInc, scanWorld, scanOracle, answerAt_nat, inv.addr, inv.count, inv.flag,
      inv.regType, inv.ida, inv.ifn, inv.nil, inv.fFail, inv.fRow, inv.fFound, hle, hw16, hw32, hw64,
      roundEnv, roundHow, roundPrint, regTypeArg, isNotThere, Bool.or_eq_true, fmtFail, fmtRegRow,
      fmtFound, symIDA, symIFN]
    repeat' split
    all_goals first | rfl | simp only [List.append_assoc, List.cons_append, List.nil_append]

theorem reg_exit (ans : Nat → Val × String) (b : Nat) (isH : Bool) (rt : Val) (c : Int) (env : Env)
    (cs : Calls) (m : Nat) (inv : ScanInv "isHoldingReg" isH rt fmtRegRow ((b + 1 : Nat) : Int) c env) :
    execFromW (scanWorld ans) (m + 8) (regHead b) env cs = ⟨env, .broke, cs⟩ := by
  have hle : ¬ ((b + 1 : Nat) : Int) ≤ (b : Int) := by omega
  go_evalW [regHead, scanHead, inv.addr, hle]

/-- the calls of the round of address `a` in the register scan -/
def regRoundCalls (ans : Nat → Val × String) (isH : Bool) (rt : Val) (a : Nat) : Calls :=
  ("client.ReadRegister", [.int a, .int (regTypeArg isH)]) ::
    roundPrint rt [.sym fmtRegRow, .int a, .int a, (ans a).1, (ans a).1] a (ans a).2

theorem reg_loop (ans : Nat → Val × String) (b : Nat) (hb : b ≤ 65535) (isH : Bool) (rt : Val)
    (env : Env) (cs : Calls) (inv : ScanInv "isHoldingReg" isH rt fmtRegRow 0 0 env) :
    ∃ env', execFromW (scanWorld ans) (b + 10) (.loop (regHead b)) env cs =
        ⟨env', .fell, cs ++ (List.range (b + 1)).flatMap (regRoundCalls ans isH rt)⟩ ∧
      ScanInv "isHoldingReg" isH rt fmtRegRow ((b + 1 : Nat) : Int) (nilCount ans (b + 1) : Nat) env' := by
  have h := loop_counted (scanWorld ans) (regHead b) 8 (b + 1)
    (fun i env' cs' => ScanInv "isHoldingReg" isH rt fmtRegRow (i : Nat) (nilCount ans i : Nat) env' ∧
      cs' = cs ++ (List.range i).flatMap (regRoundCalls ans isH rt))
    (by
      intro i env1 cs1 m hi ⟨inv1, hcs⟩
      have hn := nilCount_le ans i
      refine ⟨roundEnv env1 (ans i).1 (ans i).2 ((i + 1 : Nat) : Int) ((nilCount ans i : Nat) + 1),
        cs1 ++ regRoundCalls ans isH rt i, ⟨?_, ?_⟩, ?_⟩
      rotate_left 2
      · have := reg_round ans b hb isH rt i (nilCount ans i) (by omega) (by omega) env1 cs1 m inv1
        rcases roundHow_cases (ans i).2 with h | h
        · left; rw [this, h]; rfl
        · right; rw [this, h]; rfl
      · have := inv1.round (by decide) (by decide) (ans i).1 (ans i).2 ((i + 1 : Nat) : Int) ((nilCount ans i : Nat) + 1)
        rw [nilCount_succ]
        split at this <;> rename_i h
        · simpa [h] using this
        · simpa [h] using this
      · rw [hcs, flatMap_range_succ, List.append_assoc])
    (fun env' cs' => ScanInv "isHoldingReg" isH rt fmtRegRow ((b + 1 : Nat) : Int) (nilCount ans (b + 1) : Nat) env' ∧
      cs' = cs ++ (List.range (b + 1)).flatMap (regRoundCalls ans isH rt))
    (by
      intro env1 cs1 m ⟨inv1, h1⟩
      exact ⟨env1, cs1, reg_exit ans b isH rt _ env1 cs1 m inv1, inv1, h1⟩)
    (b + 1) 0 env cs (by omega) ⟨by simpa [nilCount] using inv, by simp⟩
  obtain ⟨env', cs', h1, h2, h3⟩ := h
  refine ⟨env', ?_, h2⟩
  have e : b + 1 + 8 + 1 = b + 10 := by omega
  rw [← e, h1, h3]

/-- **`performRegisterScan` with the bound `b ≤ 0xffff`** -/
theorem reg_run (ans : Nat → Val × String) (b : Nat) (hb : b ≤ 65535) (isH : Bool) (env0 : Env)
    (pre : ScanPre "isHoldingReg" nameHR nameIR fmtRegRow isH env0) :
    ∃ env', execW (scanWorld ans) (b + 15)
        (scanWith "isHoldingReg" nameHR nameIR .u32 (regHead b)) env0 =
      ⟨env', .returned, scanLog (regTypeOf isH nameHR nameIR)
        ((List.range (b + 1)).flatMap (regRoundCalls ans isH (regTypeOf isH nameHR nameIR)))
        (nilCount ans (b + 1))⟩ ∧
      Env.read? env' "count" = some (.int (nilCount ans (b + 1) : Nat)) := by
  obtain ⟨env', hl, inv⟩ := reg_loop ans b hb isH (regTypeOf isH nameHR nameIR) _
    [("fmt.Printf", [.sym fmtStart, regTypeOf isH nameHR nameIR])]
    (pre.entry (by decide) (by decide) (regTypeOf isH nameHR nameIR))
  refine ⟨env', ?_, inv.count⟩
  have := scanWith_run (scanWorld ans) (scanWorld_printf ans) "isHoldingReg" nameHR nameIR (regHead b) isH env0
    pre.flag pre.nameT pre.nameE pre.fStart (b + 9) env' _ _ hl inv.count inv.regType inv.fFound
  rw [execW_def]
  have e : b + 15 = b + 9 + 5 + 1 := by omega
  rw [e, execFromW_succ _ _ _ _ _ (by rw [this]; exact fun x => nomatch x), this]
  simp only [scanLog, List.cons_append, List.nil_append, List.append_assoc]

theorem reg_round_requests (ans : Nat → Val × String) (isH : Bool) (rt : Val) (a : Nat) :
    requests (regRoundCalls ans isH rt a) = [("client.ReadRegister", [.int a, .int (regTypeArg isH)])] := by
  have h := roundPrint_requests rt [.sym fmtRegRow, .int a, .int a, (ans a).1, (ans a).1] a (ans a).2
  unfold requests at h ⊢
  simp only [regRoundCalls, List.filter_cons, h]; rfl

theorem reg_round_printed (ans : Nat → Val × String) (isH : Bool) (rt : Val) (a : Nat) :
    printed (regRoundCalls ans isH rt a) =
      roundPrint rt [.sym fmtRegRow, .int a, .int a, (ans a).1, (ans a).1] a (ans a).2 := by
  have h := roundPrint_printed rt [.sym fmtRegRow, .int a, .int a, (ans a).1, (ans a).1] a (ans a).2
  unfold printed at h ⊢
  simp only [regRoundCalls, List.filter_cons, h]; rfl

theorem reg_requests (ans : Nat → Val × String) (isH : Bool) (rt : Val) (n : Nat) :
    requests ((List.range n).flatMap (regRoundCalls ans isH rt)) =
      (List.range n).map (fun (a : Nat) => ("client.ReadRegister", [Val.int a, Val.int (regTypeArg isH)])) := by
  unfold requests
  rw [filter_flatMap_range isRequest _
    (fun (a : Nat) => [("client.ReadRegister", [Val.int a, Val.int (regTypeArg isH)])])
    (reg_round_requests ans isH rt) n, flatMap_single_range]

theorem reg_printed (ans : Nat → Val × String) (isH : Bool) (rt : Val) (n : Nat) :
    printed ((List.range n).flatMap (regRoundCalls ans isH rt)) =
      (List.range n).flatMap (fun (a : Nat) =>
        roundPrint rt [.sym fmtRegRow, .int a, .int a, (ans a).1, (ans a).1] a (ans a).2) := by
  unfold printed
  exact filter_flatMap_range isPrint _ _ (reg_round_printed ans isH rt) n

/-! ### 6. `decodeString` -/

/-- the bindings made to the keys selected by `p`, oldest first (`Env.write` only ever prepends: this
    is the sequence of assignments to those keys, after the initial bindings) -/
def historyP (p : String → Bool) (env : Env) : List (String × Val) := (env.filter (fun q => p q.1)).reverse

theorem historyP_write (p : String → Bool) (env : Env) (k : String) (v : Val) :
    historyP p (Env.write env k v) = if p k = true then historyP p env ++ [(k, v)] else historyP p env := by
  unfold historyP Env.write
  rw [List.filter_cons]
  split <;> simp

/-- element of the input at the VALUE of the index; `unk` outside the list (Go: the index expression
    would panic; the loop test `idx < len(in)` comes first, the value is never read) -/
def byteAt (bs : Bytes) : Val → Val
  | .int v => if 0 ≤ v then (match bs[v.toNat]? with | some b => .int (b.toNat : Int) | none => .unk) else .unk
  | _ => .unk

theorem byteAt_lt (bs : Bytes) (k : Nat) (h : k < bs.length) :
    byteAt bs (.int (k : Int)) = .int ((bs[k].toNat : Nat) : Int) := by
  simp [byteAt, List.getElem?_eq_getElem h]

theorem byteAt_ge (bs : Bytes) (k : Nat) (h : bs.length ≤ k) : byteAt bs (.int (k : Int)) = .unk := by
  simp [byteAt, List.getElem?_eq_none h]

/-- the probe `in[idx] := #in[idx](idx)` is answered from the byte list and the VALUE of `idx`;
    nothing else is answered (the function makes no call) -/
def decodeOracle (bs : Bytes) : Oracle := fun f args =>
  if f = "#in[idx]" then some [byteAt bs (args.headD .unk)] else none

/-- `decodeString` with the leaf `in[idx]` re-bound from the probe at the head of every round -/
def dsGs : GStmt := withProbe "in[idx]" "#in[idx]" "idx" gs_cli_decodeString

def dsProbe : GStmt := .bindCall ["in[idx]"] "#in[idx]" [.var "idx" .int]

/-- one round: `if idx < #len(in) { if in[idx] >= 0x20 && in[idx] <= 0x7e { b = in[idx] } else { b = '.' };
    dec = append(dec, b); idx++ } else break` -/
def dsHead : GStmt :=
  .ite (.cmp "<" (.var "idx" .int) (.var "#len(in)" .int))
    (.seq (.seq (.ite (.and (.cmp ">=" (.var "in[idx]" .u8) (.lit 32 .u8)) (.cmp "<=" (.var "in[idx]" .u8) (.lit 126 .u8)))
                  (.assign "b" (.var "in[idx]" .u8)) (.assign "b" (.lit 46 .u8)))
                (.assign "dec" (.call "append(dec, b)" .other)))
          (.assign "idx" (.bin "+" .int (.var "idx" .int) (.lit 1 .int))))
    .brk

def dsWith (L : GStmt) : GStmt :=
  .seq (.seq (.assign "#len(in)" (.var "len(in)" .int)) (.seq (.assign "idx" (.lit 0 .int)) L))
    (.seq (.assign "out" (.call "string(dec)" .other)) .ret)

theorem decodeString_shape : gs_cli_decodeString = dsWith (.loop dsHead) := by rfl
theorem dsGs_eq : dsGs = dsWith (.loop (.seq dsProbe dsHead)) := by rfl
theorem strip_dsGs : stripProbe "#in[idx]" dsGs = gs_cli_decodeString := by rfl

/-- what `decodeString` keeps of a byte: itself if printable ASCII (0x20..0x7e), else `.` (0x2e) -/
def sanitize (x : Byte) : Byte := if 0x20 ≤ x.toNat ∧ x.toNat ≤ 0x7e then x else 0x2e

def isBD (k : String) : Bool := k == "b" || k == "dec"

/-- the assignments of one round: `b = sanitize x`, then `dec = append(dec, b)` -/
def dsRoundWrites (av : Val) (x : Byte) : List (String × Val) :=
  [("b", .int ((sanitize x).toNat : Nat)), ("dec", av)]

def dsProbeCall (k : Nat) : String × List Val := ("#in[idx]", [.int (k : Int)])

structure DsInv (bs : Bytes) (av : Val) (h0 : List (String × Val)) (cs0 : Calls) (i : Nat) (env : Env) (cs : Calls) : Prop where
  idx : Env.read? env "idx" = some (.int (i : Int))
  len : Env.read? env "#len(in)" = some (.int (bs.length : Int))
  app : Env.read? env "append(dec, b)" = some av
  hist : historyP isBD env = h0 ++ (bs.take i).flatMap (dsRoundWrites av)
  calls : cs = cs0 ++ (List.range i).map dsProbeCall

/-- the environment after the round of the byte `x` at index `i` -/
def dsRoundEnv (env : Env) (av : Val) (i : Nat) (x : Byte) : Env :=
  (((env.write "in[idx]" (.int (x.toNat : Nat))).write "b" (.int ((sanitize x).toNat : Nat))).write "dec" av).write
    "idx" (.int ((i + 1 : Nat) : Int))

theorem ds_round (bs : Bytes) (hn : bs.length < 2^63) (av : Val) (h0 : List (String × Val)) (cs0 : Calls)
    (i : Nat) (hi : i < bs.length) (env : Env) (cs : Calls) (m : Nat) (inv : DsInv bs av h0 cs0 i env cs) :
    execFromW (fun _ => decodeOracle bs) (m + 7) (.seq dsProbe dsHead) env cs =
      ⟨dsRoundEnv env av i bs[i], .fell, cs ++ [dsProbeCall i]⟩ := by
  have hlt : (i : Int) < (bs.length : Int) := by omega
  have hw : ((i : Int) + 1 + 9223372036854775808) % 18446744073709551616 - 9223372036854775808
      = ((i + 1 : Nat) : Int) := by omega
  have hx := bs[i].isLt
  have hby := byteAt_lt bs i hi
  by_cases hs : 0x20 ≤ bs[i].toNat ∧ bs[i].toNat ≤ 0x7e
  · have h1 : (32 : Int) ≤ ((bs[i].toNat : Nat) : Int) := by omega
    have h2 : ((bs[i].toNat : Nat) : Int) ≤ 126 := by omega
    have hsan : sanitize bs[i] = bs[i] := by simp only [sanitize, hs, and_self, ↓reduceIte]
    go_evalW [dsProbe, dsHead, decodeOracle, inv.idx, inv.len, inv.app, hlt, hw, hby, h1, h2, hsan, dsRoundEnv,
      dsProbeCall, ge_iff_le]
  · have hsan : sanitize bs[i] = 0x2e := by simp only [sanitize, hs, ↓reduceIte]
    by_cases h1 : (32 : Int) ≤ ((bs[i].toNat : Nat) : Int)
    · have h2 : ¬ ((bs[i].toNat : Nat) : Int) ≤ 126 := by omega
      go_evalW [dsProbe, dsHead, decodeOracle, inv.idx, inv.len, inv.app, hlt, hw, hby, h1, h2, hsan, dsRoundEnv,
        dsProbeCall, ge_iff_le]
      rfl
    · go_evalW [dsProbe, dsHead, decodeOracle, inv.idx, inv.len, inv.app, hlt, hw, hby, h1, hsan, dsRoundEnv,
        dsProbeCall, ge_iff_le]
      rfl

/-- the exit round (`idx = len(in)`): the probe binds `unk` (never read), then `break` -/
theorem ds_exit (bs : Bytes) (av : Val) (h0 : List (String × Val)) (cs0 : Calls) (env : Env) (cs : Calls)
    (m : Nat) (inv : DsInv bs av h0 cs0 bs.length env cs) :
    execFromW (fun _ => decodeOracle bs) (m + 7) (.seq dsProbe dsHead) env cs =
      ⟨env.write "in[idx]" .unk, .broke, cs ++ [dsProbeCall bs.length]⟩ := by
  have hby := byteAt_ge bs bs.length (Nat.le_refl _)
  go_evalW [dsProbe, dsHead, decodeOracle, inv.idx, inv.len, hby, dsProbeCall, Int.lt_irrefl]

theorem take_succ_flatMap {α β} (l : List α) (f : α → List β) (i : Nat) (hi : i < l.length) :
    (l.take (i + 1)).flatMap f = (l.take i).flatMap f ++ f l[i] := by
  rw [List.take_add_one, List.flatMap_append, List.getElem?_eq_getElem hi]; simp

theorem DsInv.round {bs : Bytes} {av : Val} {h0 : List (String × Val)} {cs0 : Calls} {i : Nat} {env : Env}
    {cs : Calls} (inv : DsInv bs av h0 cs0 i env cs) (hi : i < bs.length) :
    DsInv bs av h0 cs0 (i + 1) (dsRoundEnv env av i bs[i]) (cs ++ [dsProbeCall i]) := by
  constructor
  · simp only [dsRoundEnv, read?_write, ↓reduceIte]
  · simp only [dsRoundEnv, read?_write, String.reduceEq, ↓reduceIte, inv.len]
  · simp only [dsRoundEnv, read?_write, String.reduceEq, ↓reduceIte, inv.app]
  · rw [take_succ_flatMap _ _ _ hi, ← List.append_assoc, ← inv.hist]
    simp only [dsRoundEnv, historyP_write, isBD, String.reduceBEq, Bool.or_self, Bool.false_eq_true,
      ↓reduceIte, Bool.or_false, Bool.or_true, Bool.true_or, dsRoundWrites, List.append_assoc, List.cons_append,
      List.nil_append]
  · rw [inv.calls, List.range_succ, List.map_append, List.append_assoc]; rfl

/-- THE LOOP of `decodeString` entered at index 0 -/
theorem ds_loop (bs : Bytes) (hn : bs.length < 2^63) (av : Val) (env : Env) (cs : Calls)
    (inv : DsInv bs av (historyP isBD env) cs 0 env cs) :
    ∃ env', execFromW (fun _ => decodeOracle bs) (bs.length + 8) (.loop (.seq dsProbe dsHead)) env cs =
        ⟨env', .fell, cs ++ (List.range (bs.length + 1)).map dsProbeCall⟩ ∧
      historyP isBD env' = historyP isBD env ++ bs.flatMap (dsRoundWrites av) ∧
      (∀ x, x ≠ "in[idx]" → x ≠ "b" → x ≠ "dec" → x ≠ "idx" → Env.read? env' x = Env.read? env x) := by
  have h := loop_counted (fun _ => decodeOracle bs) (.seq dsProbe dsHead) 7 bs.length
    (fun i env' cs' => DsInv bs av (historyP isBD env) cs i env' cs' ∧
      (∀ x, x ≠ "in[idx]" → x ≠ "b" → x ≠ "dec" → x ≠ "idx" → Env.read? env' x = Env.read? env x))
    (by
      intro i env1 cs1 m hi ⟨inv1, fr⟩
      refine ⟨_, _, ⟨inv1.round hi, ?_⟩, Or.inl (ds_round bs hn av _ cs i hi env1 cs1 m inv1)⟩
      intro x h1 h2 h3 h4
      simp only [dsRoundEnv, read?_write, Ne.symm h1, Ne.symm h2, Ne.symm h3, Ne.symm h4, ↓reduceIte]
      exact fr x h1 h2 h3 h4)
    (fun env' cs' => cs' = cs ++ (List.range (bs.length + 1)).map dsProbeCall ∧
      historyP isBD env' = historyP isBD env ++ bs.flatMap (dsRoundWrites av) ∧
      (∀ x, x ≠ "in[idx]" → x ≠ "b" → x ≠ "dec" → x ≠ "idx" → Env.read? env' x = Env.read? env x))
    (by
      intro env1 cs1 m ⟨inv1, fr⟩
      refine ⟨_, _, ds_exit bs av _ cs env1 cs1 m inv1, ?_, ?_, ?_⟩
      · rw [inv1.calls, List.range_succ, List.map_append, List.append_assoc]; rfl
      · rw [historyP_write]
        simp only [isBD, String.reduceBEq, Bool.or_self, Bool.false_eq_true, ↓reduceIte]
        rw [inv1.hist, List.take_length]
      · intro x h1 h2 h3 h4
        simp only [read?_write, Ne.symm h1, ↓reduceIte]
        exact fr x h1 h2 h3 h4)
    bs.length 0 env cs (by omega) ⟨inv, fun _ _ _ _ _ => rfl⟩
  obtain ⟨env', cs', h1, h2, h3, h4⟩ := h
  exact ⟨env', by rw [h1, h2], h3, h4⟩

/-- **the whole (instrumented) `decodeString`** on the bytes `bs`, from any environment in which
    `len(in)` is their number: it returns; the assignments to `b` and `dec` are, for every input byte
    in order, `b = sanitize byte; dec = append(dec, b)`; finally `out = string(dec)`; the probes
    (the only calls) are those of the indexes `0..len` -/
theorem ds_run (bs : Bytes) (hn : bs.length < 2^63) (av : Val) (env0 : Env)
    (hlen : Env.read? env0 "len(in)" = some (.int (bs.length : Int)))
    (happ : Env.read? env0 "append(dec, b)" = some av) :
    ∃ env', execW (fun _ => decodeOracle bs) (bs.length + 11) dsGs env0 =
        ⟨env', .returned, (List.range (bs.length + 1)).map dsProbeCall⟩ ∧
      historyP isBD env' = historyP isBD env0 ++ bs.flatMap (dsRoundWrites av) ∧
      Env.read? env' "out" = some (Env.read env0 "string(dec)") := by
  have inv : DsInv bs av (historyP isBD ((env0.write "#len(in)" (.int (bs.length : Int))).write "idx" (.int 0))) []
      0 ((env0.write "#len(in)" (.int (bs.length : Int))).write "idx" (.int 0)) [] := by
    constructor
    · simp only [read?_write, ↓reduceIte]; rfl
    · simp only [read?_write, String.reduceEq, ↓reduceIte]
    · simp only [read?_write, String.reduceEq, ↓reduceIte, happ]
    · simp
    · simp
  obtain ⟨env', hl, hh, hfr⟩ := ds_loop bs hn av _ [] inv
  have hsd : Env.read env' "string(dec)" = Env.read env0 "string(dec)" := by
    rw [read_def, read_def, hfr _ (by decide) (by decide) (by decide) (by decide)]
    simp only [read?_write, String.reduceEq, ↓reduceIte]
  refine ⟨env'.write "out" (Env.read env0 "string(dec)"), ?_, ?_, ?_⟩
  · rw [execW_def, dsGs_eq]
    show execFromW _ (bs.length + 8 + 3) _ _ _ = _
    simp only [dsWith, execFromW_seq, execFromW_assign, execFromW_ret, panics_var, panics_lit, panics_call,
      eval_var, eval_lit, eval_call, hlen, eval_var_some, seqKW_fell, seqKW_returned, Bool.false_eq_true, ↓reduceIte, hl, hsd,
      List.nil_append]
  · rw [historyP_write, hh]
    simp only [isBD, String.reduceBEq, Bool.or_self, Bool.false_eq_true, ↓reduceIte, historyP_write]
  · simp only [read?_write, ↓reduceIte]

/-! ### 7. `performPing` -/

abbrev symRTO : String := "modbus.ErrRequestTimedOut"
abbrev symGWT : String := "modbus.ErrGWTargetFailedToRespond"
abbrev fmtPingStart : String := "\"ping: sending %v requests...\\n\""
abbrev fmtPingOk : String := "\"ok: seq = %v, time: %v\\n\""
abbrev fmtPingTo : String := "\"timeout (%v): seq = %v, time: %v\\n\""
abbrev fmtPingErr : String := "\"error (%v): seq = %v, time: %v\\n\""
abbrev fmtPingStat1 : String := "\"--- ping statistics ---\\n\""
abbrev fmtPingStat2 : String := "\"%v queries, %v target replies, %v transmission errors, %v timeouts, time: %v\\n\""
abbrev fmtPingRtt : String := "\"rtt min/avg/max = %v/%v/%v\\n\""
abbrev leafRtt : String := "rtt.Round(time.Microsecond)"
abbrev leafTotal : String := "time.Since(startTs).Round(time.Millisecond)"
abbrev leafMin : String := "minRTT.Round(time.Microsecond)"
abbrev leafAvg : String := "(avgRTT / time.Duration(count)).Round(time.Microsecond)"
abbrev leafMax : String := "maxRTT.Round(time.Microsecond)"

/-- one round of the loop of `performPing` (literally the generated text) -/
def pingHead : GStmt := (.ite (.cmp "<" (.var "run" .u16) (.var "count" .u16)) (.seq (.seq (.bindCall ["ts"] "time.Now" []) (.seq (.bindCall ["_", "err"] "client.ReadRegister" [(.lit (0) .u16), (.lit (0) .uint)]) (.seq (.bindCall ["rtt"] "time.Since" [(.var "ts" .other)]) (.seq (.assign "avgRTT" (.bin "+" .i64 (.var "avgRTT" .i64) (.var "rtt" .i64))) (.seq (.ite (.or (.cmp "==" (.var "run" .u16) (.lit (0) .u16)) (.cmp "<" (.var "rtt" .i64) (.var "minRTT" .i64))) (.assign "minRTT" (.var "rtt" .i64)) .skip) (.seq (.ite (.cmp ">" (.var "rtt" .i64) (.var "maxRTT" .i64)) (.assign "maxRTT" (.var "rtt" .i64)) .skip) (.seq (.loop (.seq (.ite (.or (.cmp "==" (.var "err" .other) (.var "nil" .other)) (.or (.cmp "==" (.var "err" .other) (.var "modbus.ErrIllegalDataAddress" .other)) (.cmp "==" (.var "err" .other) (.var "modbus.ErrIllegalFunction" .other)))) (.seq (.assign "okCount" (.bin "+" .uint (.var "okCount" .uint) (.lit 1 .uint))) (.bindCall [] "fmt.Printf" [(.call "\"ok: seq = %v, time: %v\\n\"" .other), (.bin "+" .u16 (.var "run" .u16) (.lit (1) .u16)), (.call "rtt.Round(time.Microsecond)" .i64)])) (.ite (.or (.cmp "==" (.var "err" .other) (.var "modbus.ErrRequestTimedOut" .other)) (.cmp "==" (.var "err" .other) (.var "modbus.ErrGWTargetFailedToRespond" .other))) (.seq (.assign "timeoutCount" (.bin "+" .uint (.var "timeoutCount" .uint) (.lit 1 .uint))) (.bindCall [] "fmt.Printf" [(.call "\"timeout (%v): seq = %v, time: %v\\n\"" .other), (.var "err" .other), (.bin "+" .u16 (.var "run" .u16) (.lit (1) .u16)), (.call "rtt.Round(time.Microsecond)" .i64)])) (.seq (.assign "otherErrCount" (.bin "+" .uint (.var "otherErrCount" .uint) (.lit 1 .uint))) (.bindCall [] "fmt.Printf" [(.call "\"error (%v): seq = %v, time: %v\\n\"" .other), (.var "err" .other), (.bin "+" .u16 (.var "run" .u16) (.lit (1) .u16)), (.call "rtt.Round(time.Microsecond)" .i64)])))) .brk)) (.ite (.cmp ">" (.var "interval" .i64) (.lit (0) .i64)) (.bindCall [] "time.Sleep" [(.var "interval" .i64)]) .skip)))))))) (.assign "run" (.bin "+" .u16 (.var "run" .u16) (.lit 1 .u16)))) .brk)

/-- `performPing` around its loop -/
def pingWith (L : GStmt) : GStmt := (.seq (.bindCall [] "fmt.Printf" [(.call "\"ping: sending %v requests...\\n\"" .other), (.var "count" .u16)]) (.seq (.bindCall ["startTs"] "time.Now" []) (.seq (.seq (.assign "run" (.lit (0) .u16)) L) (.seq (.bindCall [] "fmt.Printf" [(.bin "+" .other (.call "\"--- ping statistics ---\\n\"" .other) (.call "\"%v queries, %v target replies, %v transmission errors, %v timeouts, time: %v\\n\"" .other)), (.var "count" .u16), (.var "okCount" .uint), (.var "otherErrCount" .uint), (.var "timeoutCount" .uint), (.call "time.Since(startTs).Round(time.Millisecond)" .i64)]) (.seq (.bindCall [] "fmt.Printf" [(.call "\"rtt min/avg/max = %v/%v/%v\\n\"" .other), (.call "minRTT.Round(time.Microsecond)" .i64), (.call "(avgRTT / time.Duration(count)).Round(time.Microsecond)" .i64), (.call "maxRTT.Round(time.Microsecond)" .i64)]) .ret)))))

theorem ping_shape : gs_cli_performPing = pingWith (.loop pingHead) := by rfl

/-- WORLD of `performPing`: the `k`-th `client.ReadRegister` (k = number of such calls already in the
    log) returns `ans k` = (value, error symbol); the `k`-th `time.Since` returns the duration `rtt k`;
    `time.Now` returns an opaque instant; `time.Sleep`, `fmt.Printf` return nothing -/
def pingWorld (ans : Nat → Val × String) (rtt : Nat → Int) : World := fun cs f _ =>
  if f = "client.ReadRegister" then
    some [(ans (countCalls "client.ReadRegister" cs)).1, .sym (ans (countCalls "client.ReadRegister" cs)).2]
  else if f = "time.Since" then some [.int (rtt (countCalls "time.Since" cs))]
  else if f = "time.Now" then some [.sym "time.Now()"]
  else if f = "time.Sleep" then some []
  else if f = "fmt.Printf" then some []
  else none

/-- a key bound to some integer -/
def IntAt (env : Env) (x : String) : Prop := ∃ i : Int, Env.read? env x = some (.int i)

theorem intAt_write (env : Env) (k x : String) (v : Val) :
    IntAt (Env.write env k v) x ↔ if k = x then (∃ i : Int, v = .int i) else IntAt env x := by
  unfold IntAt
  rw [read?_write]
  split
  · constructor
    · rintro ⟨i, h⟩; exact ⟨i, by simpa using h⟩
    · rintro ⟨i, h⟩; exact ⟨i, by rw [h]⟩
  · exact Iff.rfl

/-- the keys `performPing` assigns -/
def pingWritten : List String :=
  ["startTs", "run", "ts", "_", "err", "rtt", "avgRTT", "minRTT", "maxRTT", "okCount", "timeoutCount",
   "otherErrCount"]

/-- what `performPing` reads and never assigns: the parameters `count`, `interval`, the four error
    constants and the literals / opaque leaves bound to symbols named by their text; `nil` free -/
structure PingConst (n : Nat) (d : Int) (env : Env) : Prop where
  count : Env.read? env "count" = some (.int n)
  interval : Env.read? env "interval" = some (.int d)
  nil : Env.read? env "nil" = none
  ida : Env.read? env symIDA = some (.sym symIDA)
  ifn : Env.read? env symIFN = some (.sym symIFN)
  rto : Env.read? env symRTO = some (.sym symRTO)
  gwt : Env.read? env symGWT = some (.sym symGWT)
  fStart : Env.read? env fmtPingStart = some (.sym fmtPingStart)
  fOk : Env.read? env fmtPingOk = some (.sym fmtPingOk)
  fTo : Env.read? env fmtPingTo = some (.sym fmtPingTo)
  fErr : Env.read? env fmtPingErr = some (.sym fmtPingErr)
  fStat1 : Env.read? env fmtPingStat1 = some (.sym fmtPingStat1)
  fStat2 : Env.read? env fmtPingStat2 = some (.sym fmtPingStat2)
  fRtt : Env.read? env fmtPingRtt = some (.sym fmtPingRtt)
  lRtt : Env.read? env leafRtt = some (.sym leafRtt)
  lTotal : Env.read? env leafTotal = some (.sym leafTotal)
  lMin : Env.read? env leafMin = some (.sym leafMin)
  lAvg : Env.read? env leafAvg = some (.sym leafAvg)
  lMax : Env.read? env leafMax = some (.sym leafMax)

theorem PingConst.write {n : Nat} {d : Int} {env : Env} (c : PingConst n d env) (k : String) (v : Val)
    (hk : k ∈ pingWritten) : PingConst n d (Env.write env k v) := by
  have ne : ∀ x, x ∉ pingWritten → k ≠ x := fun x hx h => hx (h ▸ hk)
  obtain ⟨h1, h2, h3, h4, h5, h6, h7, h8, h9, h10, h11, h12, h13, h14, h15, h16, h17, h18, h19⟩ := c
  constructor
  all_goals (rw [read?_write_ne _ _ _ _ (ne _ (by decide))]; assumption)

/-- the counters and the timing variables before round `k` -/
structure PingDyn (k okc toc erc : Nat) (env : Env) : Prop where
  run : Env.read? env "run" = some (.int k)
  ok : Env.read? env "okCount" = some (.int okc)
  to : Env.read? env "timeoutCount" = some (.int toc)
  er : Env.read? env "otherErrCount" = some (.int erc)
  avg : IntAt env "avgRTT"
  mn : IntAt env "minRTT"
  mx : IntAt env "maxRTT"

/-- the three arms of `switch err` in `performPing` -/
def pingOk (e : String) : Prop := e = "nil" ∨ e = symIDA ∨ e = symIFN
def pingTimeout (e : String) : Prop := e = symRTO ∨ e = symGWT
instance (e : String) : Decidable (pingOk e) := by unfold pingOk; infer_instance
instance (e : String) : Decidable (pingTimeout e) := by unfold pingTimeout; infer_instance

/-- the line printed for probe `k` (sequence number `k + 1`) that ended with `e` -/
def pingLine (e : String) (k : Nat) : String × List Val :=
  if pingOk e then ("fmt.Printf", [.sym fmtPingOk, .int ((k + 1 : Nat) : Int), .sym leafRtt])
  else if pingTimeout e then ("fmt.Printf", [.sym fmtPingTo, .sym e, .int ((k + 1 : Nat) : Int), .sym leafRtt])
  else ("fmt.Printf", [.sym fmtPingErr, .sym e, .int ((k + 1 : Nat) : Int), .sym leafRtt])

def pingProbe : String × List Val := ("client.ReadRegister", [.int 0, .int 0])

/-- the calls of round `k`: `time.Now()`, the probe `client.ReadRegister(0x0000, HOLDING_REGISTER)`,
    `time.Since(ts)`, the line, and `time.Sleep(interval)` iff `interval > 0` -/
def pingRoundCalls (ans : Nat → Val × String) (d : Int) (k : Nat) : Calls :=
  [("time.Now", []), pingProbe, ("time.Since", [.sym "time.Now()"]), pingLine (ans k).2 k] ++
    (if d > 0 then [("time.Sleep", [.int d])] else [])

theorem exists_int_eq (x : Int) : (∃ i : Int, Val.int x = Val.int i) = True :=
  eq_true ⟨x, rfl⟩

/-- ONE ROUND of `performPing` (probe `k < count`), whatever the probe returns -/
theorem ping_round (ans : Nat → Val × String) (rtt : Nat → Int) (n : Nat) (hn : n ≤ 65535) (d : Int)
    (k okc toc erc : Nat) (hk : k < n) (h1 : okc < 65536) (h2 : toc < 65536) (h3 : erc < 65536)
    (env : Env) (cs : Calls) (m : Nat) (c : PingConst n d env) (dy : PingDyn k okc toc erc env)
    (hc1 : countCalls "client.ReadRegister" cs = k) (hc2 : countCalls "time.Since" cs = k) :
    ∃ env' cs', execFromW (pingWorld ans rtt) (m + 20) pingHead env cs = ⟨env', .fell, cs'⟩ ∧
      cs' = cs ++ pingRoundCalls ans d k ∧
      PingConst n d env' ∧
      PingDyn (k + 1) (okc + if pingOk (ans k).2 then 1 else 0)
        (toc + if ¬ pingOk (ans k).2 ∧ pingTimeout (ans k).2 then 1 else 0)
        (erc + if ¬ pingOk (ans k).2 ∧ ¬ pingTimeout (ans k).2 then 1 else 0) env' := by
  obtain ⟨av, hav⟩ := dy.avg
  obtain ⟨mn, hmn⟩ := dy.mn
  obtain ⟨mx, hmx⟩ := dy.mx
  have hlt : (k : Int) < (n : Int) := by omega
  have hw16 : ((k : Int) + 1) % 65536 = ((k + 1 : Nat) : Int) := by omega
  have hwo : ((okc : Int) + 1) % 18446744073709551616 = ((okc + 1 : Nat) : Int) := by omega
  have hwt : ((toc : Int) + 1) % 18446744073709551616 = ((toc + 1 : Nat) : Int) := by omega
  have hwe : ((erc : Int) + 1) % 18446744073709551616 = ((erc + 1 : Nat) : Int) := by omega
  by_cases hd : d > 0 <;> by_cases hok : pingOk (ans k).2 <;> by_cases hto : pingTimeout (ans k).2 <;>
  · have hok' := hok
    have hto' := hto
    unfold pingOk at hok'
    unfold pingTimeout at hto'
    go_evalW [pingHead, pingWorld, countCalls_append, hc1, hc2, Nat.add_zero, c.count, c.interval, c.nil, c.ida, c.ifn,
      c.rto, c.gwt, c.fOk, c.fTo, c.fErr, c.lRtt, dy.run, dy.ok, dy.to, dy.er, hav, hmn, hmx, hlt, hw16, hwo,
      hwt, hwe, Bool.or_eq_true, hok', hto', hd, hok, hto, not_true_eq_false, not_false_eq_true, false_and,
      and_false, Nat.add_zero, fmtPingOk, fmtPingTo,
      fmtPingErr, leafRtt, symIDA, symIFN, symRTO, symGWT]
    repeat' split
    all_goals
      refine ⟨_, _, rfl, ?_, ?_, ?_⟩
      · simp only [pingRoundCalls, pingLine, pingProbe, hok, hto, hd, ↓reduceIte,
          List.append_assoc, List.cons_append, List.nil_append, fmtPingOk, fmtPingTo, fmtPingErr, leafRtt,
          symIDA, symIFN, symRTO, symGWT, not_false_eq_true, not_true_eq_false]
      · repeat (first | exact c | refine PingConst.write ?_ _ _ (by decide))
      · constructor
        all_goals
          simp only [read?_write, intAt_write, String.reduceEq, ↓reduceIte, dy.run, dy.ok, dy.to, dy.er,
            dy.avg, dy.mn, dy.mx, exists_int_eq, hok, hto, not_false_eq_true,
            not_true_eq_false, and_self, and_true, and_false, Nat.add_zero, symIDA, symIFN, symRTO, symGWT]

/-- the exit round (`run = count`): `break` -/
theorem ping_exit (ans : Nat → Val × String) (rtt : Nat → Int) (n : Nat) (d : Int) (okc toc erc : Nat)
    (env : Env) (cs : Calls) (m : Nat) (c : PingConst n d env) (dy : PingDyn n okc toc erc env) :
    execFromW (pingWorld ans rtt) (m + 20) pingHead env cs = ⟨env, .broke, cs⟩ := by
  go_evalW [pingHead, c.count, dy.run, Int.lt_irrefl]

/-- probes below `k` that count as a reply / a timeout / a transmission error -/
def pingOkCount (ans : Nat → Val × String) (k : Nat) : Nat :=
  (List.range k).countP (fun j => decide (pingOk (ans j).2))
def pingToCount (ans : Nat → Val × String) (k : Nat) : Nat :=
  (List.range k).countP (fun j => decide (¬ pingOk (ans j).2 ∧ pingTimeout (ans j).2))
def pingErrCount (ans : Nat → Val × String) (k : Nat) : Nat :=
  (List.range k).countP (fun j => decide (¬ pingOk (ans j).2 ∧ ¬ pingTimeout (ans j).2))

theorem countP_range_le (p : Nat → Bool) (k : Nat) : (List.range k).countP p ≤ k :=
  Nat.le_trans List.countP_le_length (by simp)

theorem pingRoundCalls_count (ans : Nat → Val × String) (d : Int) (k : Nat) :
    countCalls "client.ReadRegister" (pingRoundCalls ans d k) = 1 ∧
    countCalls "time.Since" (pingRoundCalls ans d k) = 1 := by
  unfold pingRoundCalls pingLine
  constructor <;> (repeat' split) <;> rfl

/-- THE LOOP of `performPing` entered with `run = 0` and zero counters -/
theorem ping_loop (ans : Nat → Val × String) (rtt : Nat → Int) (n : Nat) (hn : n ≤ 65535) (d : Int)
    (env : Env) (cs : Calls) (c : PingConst n d env) (dy : PingDyn 0 0 0 0 env)
    (hc1 : countCalls "client.ReadRegister" cs = 0) (hc2 : countCalls "time.Since" cs = 0) :
    ∃ env', execFromW (pingWorld ans rtt) (n + 21) (.loop pingHead) env cs =
        ⟨env', .fell, cs ++ (List.range n).flatMap (pingRoundCalls ans d)⟩ ∧
      PingConst n d env' ∧
      PingDyn n (pingOkCount ans n) (pingToCount ans n) (pingErrCount ans n) env' := by
  have h := loop_counted (pingWorld ans rtt) pingHead 20 n
    (fun i env' cs' => PingConst n d env' ∧
      PingDyn i (pingOkCount ans i) (pingToCount ans i) (pingErrCount ans i) env' ∧
      cs' = cs ++ (List.range i).flatMap (pingRoundCalls ans d) ∧
      countCalls "client.ReadRegister" cs' = i ∧ countCalls "time.Since" cs' = i)
    (by
      intro i env1 cs1 m hi ⟨c1, dy1, hcs, k1, k2⟩
      have b1 := countP_range_le (fun j => decide (pingOk (ans j).2)) i
      have b2 := countP_range_le (fun j => decide (¬ pingOk (ans j).2 ∧ pingTimeout (ans j).2)) i
      have b3 := countP_range_le (fun j => decide (¬ pingOk (ans j).2 ∧ ¬ pingTimeout (ans j).2)) i
      obtain ⟨env2, cs2, hrun, hcs2, c2, dy2⟩ := ping_round ans rtt n hn d i _ _ _ hi
        (show pingOkCount ans i < 65536 by unfold pingOkCount; omega)
        (show pingToCount ans i < 65536 by unfold pingToCount; omega)
        (show pingErrCount ans i < 65536 by unfold pingErrCount; omega) env1 cs1 m c1 dy1 k1 k2
      refine ⟨env2, cs2, ⟨c2, ?_, ?_, ?_, ?_⟩, Or.inl hrun⟩
      · have e1 : pingOkCount ans (i + 1) = pingOkCount ans i + if pingOk (ans i).2 then 1 else 0 := by
          unfold pingOkCount; rw [countP_range_succ]; simp
        have e2 : pingToCount ans (i + 1) =
            pingToCount ans i + if ¬ pingOk (ans i).2 ∧ pingTimeout (ans i).2 then 1 else 0 := by
          unfold pingToCount; rw [countP_range_succ]; simp
        have e3 : pingErrCount ans (i + 1) =
            pingErrCount ans i + if ¬ pingOk (ans i).2 ∧ ¬ pingTimeout (ans i).2 then 1 else 0 := by
          unfold pingErrCount; rw [countP_range_succ]; simp
        rw [e1, e2, e3]; exact dy2
      · rw [hcs2, hcs, flatMap_range_succ, List.append_assoc]
      · rw [hcs2, countCalls_append, k1, (pingRoundCalls_count ans d i).1]
      · rw [hcs2, countCalls_append, k2, (pingRoundCalls_count ans d i).2])
    (fun env' cs' => PingConst n d env' ∧
      PingDyn n (pingOkCount ans n) (pingToCount ans n) (pingErrCount ans n) env' ∧
      cs' = cs ++ (List.range n).flatMap (pingRoundCalls ans d))
    (by
      intro env1 cs1 m ⟨c1, dy1, hcs, _, _⟩
      exact ⟨env1, cs1, ping_exit ans rtt n d _ _ _ env1 cs1 m c1 dy1, c1, dy1, hcs⟩)
    n 0 env cs (by omega) ⟨c, by simpa [pingOkCount, pingToCount, pingErrCount] using dy, by simp, hc1, hc2⟩
  obtain ⟨env', cs', h1, h2, h3, h4⟩ := h
  exact ⟨env', by rw [h1, h4], h2, h3⟩

/-- what `performPing` needs of its entry environment besides `PingConst`: the zero values of its
    counters and `time.Duration` variables -/
structure PingZero (env : Env) : Prop where
  ok : Env.read? env "okCount" = some (.int 0)
  to : Env.read? env "timeoutCount" = some (.int 0)
  er : Env.read? env "otherErrCount" = some (.int 0)
  avg : Env.read? env "avgRTT" = some (.int 0)
  mn : Env.read? env "minRTT" = some (.int 0)
  mx : Env.read? env "maxRTT" = some (.int 0)

/-- the whole log of `performPing` -/
def pingLog (n : Nat) (rounds : Calls) (okc erc toc : Nat) : Calls :=
  [("fmt.Printf", [.sym fmtPingStart, .int n]), ("time.Now", [])] ++ rounds ++
    [("fmt.Printf", [.unk, .int n, .int okc, .int erc, .int toc, .sym leafTotal]),
     ("fmt.Printf", [.sym fmtPingRtt, .sym leafMin, .sym leafAvg, .sym leafMax])]

/-- **`performPing(client, count, interval)`** for every `count ≤ 65535`, every interval, every
    outcome of every probe -/
theorem ping_run (ans : Nat → Val × String) (rtt : Nat → Int) (n : Nat) (hn : n ≤ 65535) (d : Int)
    (env0 : Env) (c : PingConst n d env0) (z : PingZero env0) :
    ∃ env', execW (pingWorld ans rtt) (n + 25) (pingWith (.loop pingHead)) env0 =
      ⟨env', .returned, pingLog n ((List.range n).flatMap (pingRoundCalls ans d))
        (pingOkCount ans n) (pingErrCount ans n) (pingToCount ans n)⟩ := by
  have c1 : PingConst n d ((env0.write "startTs" (.sym "time.Now()")).write "run" (.int 0)) :=
    (c.write _ _ (by decide)).write _ _ (by decide)
  have dy1 : PingDyn 0 0 0 0 ((env0.write "startTs" (.sym "time.Now()")).write "run" (.int 0)) := by
    constructor
    all_goals
      simp only [read?_write, intAt_write, IntAt, String.reduceEq, ↓reduceIte, z.ok, z.to, z.er, z.avg, z.mn, z.mx]
    all_goals first | rfl | exact ⟨0, rfl⟩
  obtain ⟨env', hl, c2, dy2⟩ := ping_loop ans rtt n hn d _
    [("fmt.Printf", [.sym fmtPingStart, .int n]), ("time.Now", [])] c1 dy1 rfl rfl
  refine ⟨env', ?_⟩
  have hS : ∀ v, Env.read? (Env.write env0 "startTs" v) fmtPingStart = some (.sym fmtPingStart) := by
    intro v; rw [read?_write_ne _ _ _ _ (by decide), c.fStart]
  rw [execW_def]
  show execFromW _ (n + 21 + 4) _ _ _ = _
  go_evalW [pingWith, pingWorld, c.fStart, c.count, hl, c2.fStat1, c2.fStat2, c2.count, dy2.ok, dy2.to, dy2.er,
    c2.lTotal, c2.fRtt, c2.lMin, c2.lAvg, c2.lMax, pingLog, List.append_assoc]

/-! ### 8. `performUnitIdScan` -/

abbrev symIDV : String := "modbus.ErrIllegalDataValue"
abbrev fmtUnitStart : String := "\"starting unit id scan\""
abbrev fmtUnitOk : String := "\"0x%02x (%3v): ok\\n\""
abbrev fmtUnitErr : String := "\"0x%02x (%3v): %v\\n\""
abbrev fmtUnitFound : String := "\"found %v devices (%v errors, %v timeouts, %v gateway timeouts)\\n\""

/-- one round of the loop of `performUnitIdScan` (literally the generated text) -/
def unitHead : GStmt := (.ite (.cmp "<=" (.var "unitId" .uint) (.lit (255) .uint)) (.seq (.seq (.bindCall [] "client.SetUnitId" [(.conv .u8 (.var "unitId" .uint))]) (.seq (.bindCall ["_", "err"] "client.ReadRegister" [(.lit (0) .u16), (.lit (1) .uint)]) (.loop (.seq (.ite (.or (.cmp "==" (.var "err" .other) (.var "nil" .other)) (.or (.cmp "==" (.var "err" .other) (.var "modbus.ErrIllegalDataAddress" .other)) (.or (.cmp "==" (.var "err" .other) (.var "modbus.ErrIllegalFunction" .other)) (.cmp "==" (.var "err" .other) (.var "modbus.ErrIllegalDataValue" .other))))) (.seq (.bindCall [] "fmt.Printf" [(.call "\"0x%02x (%3v): ok\\n\"" .other), (.var "unitId" .uint), (.var "unitId" .uint)]) (.assign "countOk" (.bin "+" .uint (.var "countOk" .uint) (.lit 1 .uint)))) (.ite (.cmp "==" (.var "err" .other) (.var "modbus.ErrRequestTimedOut" .other)) (.assign "countTimeout" (.bin "+" .uint (.var "countTimeout" .uint) (.lit 1 .uint))) (.ite (.cmp "==" (.var "err" .other) (.var "modbus.ErrGWTargetFailedToRespond" .other)) (.assign "countGWTimeout" (.bin "+" .uint (.var "countGWTimeout" .uint) (.lit 1 .uint))) (.seq (.bindCall [] "fmt.Printf" [(.call "\"0x%02x (%3v): %v\\n\"" .other), (.var "unitId" .uint), (.var "unitId" .uint), (.var "err" .other)]) (.assign "countErr" (.bin "+" .uint (.var "countErr" .uint) (.lit 1 .uint))))))) .brk)))) (.assign "unitId" (.bin "+" .uint (.var "unitId" .uint) (.lit 1 .uint)))) .brk)

/-- `performUnitIdScan` around its loop -/
def unitWith (L : GStmt) : GStmt := (.seq (.bindCall [] "fmt.Println" [(.call "\"starting unit id scan\"" .other)]) (.seq (.seq (.assign "unitId" (.lit (0) .uint)) L) (.seq (.bindCall [] "fmt.Printf" [(.call "\"found %v devices (%v errors, %v timeouts, %v gateway timeouts)\\n\"" .other), (.var "countOk" .uint), (.var "countErr" .uint), (.var "countTimeout" .uint), (.var "countGWTimeout" .uint)]) .ret)))

theorem unitScan_shape : gs_cli_performUnitIdScan = unitWith (.loop unitHead) := by rfl

/-- the argument of the last `client.SetUnitId` of a log: the unit id currently selected -/
def lastUnit (cs : Calls) : Val :=
  cs.foldl (fun u c => if c.1 = "client.SetUnitId" then c.2.headD .unk else u) .unk

theorem lastUnit_snoc_set (cs : Calls) (v : Val) : lastUnit (cs ++ [("client.SetUnitId", [v])]) = v := by
  simp [lastUnit, List.foldl_append]

theorem lastUnit_snoc_other (cs : Calls) (f : String) (args : List Val) (h : f ≠ "client.SetUnitId") :
    lastUnit (cs ++ [(f, args)]) = lastUnit cs := by
  simp [lastUnit, List.foldl_append, h]

/-- WORLD of `performUnitIdScan`: `client.ReadRegister` is answered by `ans u` = (value, error symbol),
    `u` the unit id selected by the last `client.SetUnitId` of the log (unanswered when there is
    none); `client.SetUnitId`, `fmt.Printf`, `fmt.Println` return nothing -/
def unitWorld (ans : Nat → Val × String) : World := fun cs f _ =>
  if f = "client.ReadRegister" then answerAt ans (lastUnit cs)
  else if f = "client.SetUnitId" then some []
  else if f = "fmt.Printf" then some []
  else if f = "fmt.Println" then some []
  else none

def unitWritten : List String := ["unitId", "_", "err", "countOk", "countErr", "countTimeout", "countGWTimeout"]

structure UnitConst (env : Env) : Prop where
  nil : Env.read? env "nil" = none
  ida : Env.read? env symIDA = some (.sym symIDA)
  ifn : Env.read? env symIFN = some (.sym symIFN)
  idv : Env.read? env symIDV = some (.sym symIDV)
  rto : Env.read? env symRTO = some (.sym symRTO)
  gwt : Env.read? env symGWT = some (.sym symGWT)
  fStart : Env.read? env fmtUnitStart = some (.sym fmtUnitStart)
  fOk : Env.read? env fmtUnitOk = some (.sym fmtUnitOk)
  fErr : Env.read? env fmtUnitErr = some (.sym fmtUnitErr)
  fFound : Env.read? env fmtUnitFound = some (.sym fmtUnitFound)

theorem UnitConst.write {env : Env} (c : UnitConst env) (k : String) (v : Val)
    (hk : k ∈ unitWritten) : UnitConst (Env.write env k v) := by
  have ne : ∀ x, x ∉ unitWritten → k ≠ x := fun x hx h => hx (h ▸ hk)
  obtain ⟨h1, h2, h3, h4, h5, h6, h7, h8, h9, h10⟩ := c
  constructor
  all_goals (rw [read?_write_ne _ _ _ _ (ne _ (by decide))]; assumption)

structure UnitDyn (u ok er to gw : Nat) (env : Env) : Prop where
  unit : Env.read? env "unitId" = some (.int u)
  ok : Env.read? env "countOk" = some (.int ok)
  er : Env.read? env "countErr" = some (.int er)
  to : Env.read? env "countTimeout" = some (.int to)
  gw : Env.read? env "countGWTimeout" = some (.int gw)

/-- the four arms of `switch err` in `performUnitIdScan`: reply (no error, or one of the exceptions
    illegal data address / illegal function / illegal data value), request timeout, gateway
    timeout, anything else -/
def unitPresent (e : String) : Prop := e = "nil" ∨ e = symIDA ∨ e = symIFN ∨ e = symIDV
instance (e : String) : Decidable (unitPresent e) := by unfold unitPresent; infer_instance

def unitClass (e : String) : Nat :=
  if unitPresent e then 0 else if e = symRTO then 1 else if e = symGWT then 2 else 3

/-- what is printed for unit id `u`: `ok`, nothing (two timeouts), or the error -/
def unitPrint (e : String) (u : Nat) : Calls :=
  if unitPresent e then [("fmt.Printf", [.sym fmtUnitOk, .int u, .int u])]
  else if e = symRTO then []
  else if e = symGWT then []
  else [("fmt.Printf", [.sym fmtUnitErr, .int u, .int u, .sym e])]

/-- the calls of the round of unit id `u` whose probe ends with `e`: select it, ONE probe
    `client.ReadRegister(0, modbus.INPUT_REGISTER)`, the line -/
def unitRoundCalls (e : String) (u : Nat) : Calls :=
  [("client.SetUnitId", [.int u]), ("client.ReadRegister", [.int 0, .int 1])] ++ unitPrint e u

def ind (p : Prop) [Decidable p] : Nat := if p then 1 else 0

theorem not_present_RTO : ¬ unitPresent symRTO := by decide
theorem not_present_GWT : ¬ unitPresent symGWT := by decide

theorem unit_round (ans : Nat → Val × String) (u ok er to gw : Nat) (hu : u ≤ 255)
    (h1 : ok < 65536) (h2 : er < 65536) (h3 : to < 65536) (h4 : gw < 65536)
    (env : Env) (cs : Calls) (m : Nat) (c : UnitConst env) (dy : UnitDyn u ok er to gw env)
    (v : Val) (e : String) (hans : ans u = (v, e)) :
    ∃ env' cs', execFromW (unitWorld ans) (m + 14) unitHead env cs = ⟨env', .fell, cs'⟩ ∧
      cs' = cs ++ unitRoundCalls e u ∧ UnitConst env' ∧
      UnitDyn (u + 1) (ok + ind (unitClass e = 0)) (er + ind (unitClass e = 3))
        (to + ind (unitClass e = 1)) (gw + ind (unitClass e = 2)) env' := by
  have hle : (u : Int) ≤ 255 := by omega
  have hw8 : (u : Int) % 256 = (u : Int) := by omega
  have hwu : ((u : Int) + 1) % 18446744073709551616 = ((u + 1 : Nat) : Int) := by omega
  have hwo : ((ok : Int) + 1) % 18446744073709551616 = ((ok + 1 : Nat) : Int) := by omega
  have hwe : ((er : Int) + 1) % 18446744073709551616 = ((er + 1 : Nat) : Int) := by omega
  have hwt : ((to : Int) + 1) % 18446744073709551616 = ((to + 1 : Nat) : Int) := by omega
  have hwg : ((gw : Int) + 1) % 18446744073709551616 = ((gw + 1 : Nat) : Int) := by omega
  by_cases hp : unitPresent e
  · have hp' := hp
    unfold unitPresent at hp'
    go_evalW [unitHead, unitWorld, lastUnit_snoc_set, answerAt_nat, hans, c.nil, c.ida, c.ifn, c.idv, c.rto, c.gwt,
      c.fOk, c.fErr, dy.unit, dy.ok, dy.er, dy.to, dy.gw, hle, hw8, hwu, hwo, hwe, hwt, hwg,
      Bool.or_eq_true, hp', hp, unitClass, ind, Nat.add_zero, Nat.reduceEqDiff]
    refine ⟨_, _, rfl, ?_, ?_, ?_⟩
    · simp only [unitRoundCalls, unitPrint, hp, ↓reduceIte, List.append_assoc, List.cons_append,
        List.nil_append, List.append_nil]
    · repeat (first | exact c | refine UnitConst.write ?_ _ _ (by decide))
    · constructor
      all_goals
        simp only [read?_write, String.reduceEq, ↓reduceIte, dy.unit, dy.ok, dy.er, dy.to, dy.gw]
  · have hp' : e ≠ "nil" ∧ e ≠ symIDA ∧ e ≠ symIFN ∧ e ≠ symIDV := by
      simpa [unitPresent, not_or] using hp
    obtain ⟨n1, n2, n3, n4⟩ := hp'
    by_cases hr : e = symRTO
    · go_evalW [unitHead, unitWorld, lastUnit_snoc_set, answerAt_nat, hans, c.nil, c.ida, c.ifn, c.idv, c.rto, c.gwt,
        c.fOk, c.fErr, dy.unit, dy.ok, dy.er, dy.to, dy.gw, hle, hw8, hwu, hwo, hwe, hwt, hwg,
        Bool.or_eq_true, n1, n2, n3, n4, hp, hr, unitClass, ind, Nat.add_zero, Nat.reduceEqDiff, or_self,
        not_present_RTO, not_present_GWT]
      refine ⟨_, _, rfl, ?_, ?_, ?_⟩
      · simp only [unitRoundCalls, unitPrint, hp, hr, not_present_RTO, ↓reduceIte, List.append_assoc, List.cons_append,
          List.nil_append, List.append_nil]
      · repeat (first | exact c | refine UnitConst.write ?_ _ _ (by decide))
      · constructor
        all_goals
          simp only [read?_write, String.reduceEq, ↓reduceIte, dy.unit, dy.ok, dy.er, dy.to, dy.gw]
    · by_cases hg : e = symGWT
      · go_evalW [unitHead, unitWorld, lastUnit_snoc_set, answerAt_nat, hans, c.nil, c.ida, c.ifn, c.idv, c.rto, c.gwt,
          c.fOk, c.fErr, dy.unit, dy.ok, dy.er, dy.to, dy.gw, hle, hw8, hwu, hwo, hwe, hwt, hwg,
          Bool.or_eq_true, n1, n2, n3, n4, hp, hr, hg, unitClass, ind, Nat.add_zero, Nat.reduceEqDiff, or_self,
          not_present_RTO, not_present_GWT, show ¬ symGWT = symRTO by decide]
        refine ⟨_, _, rfl, ?_, ?_, ?_⟩
        · simp only [unitRoundCalls, unitPrint, hp, hr, hg, not_present_GWT, show ¬ symGWT = symRTO by decide, ↓reduceIte, List.append_assoc, List.cons_append,
            List.nil_append, List.append_nil]
        · repeat (first | exact c | refine UnitConst.write ?_ _ _ (by decide))
        · constructor
          all_goals
            simp only [read?_write, String.reduceEq, ↓reduceIte, dy.unit, dy.ok, dy.er, dy.to, dy.gw]
      · go_evalW [unitHead, unitWorld, lastUnit_snoc_set, answerAt_nat, hans, c.nil, c.ida, c.ifn, c.idv, c.rto, c.gwt,
          c.fOk, c.fErr, dy.unit, dy.ok, dy.er, dy.to, dy.gw, hle, hw8, hwu, hwo, hwe, hwt, hwg,
          Bool.or_eq_true, n1, n2, n3, n4, hp, hr, hg, unitClass, ind, Nat.add_zero, Nat.reduceEqDiff, or_self,
          not_present_RTO, not_present_GWT, show ¬ symGWT = symRTO by decide]
        refine ⟨_, _, rfl, ?_, ?_, ?_⟩
        · simp only [unitRoundCalls, unitPrint, hp, hr, hg, not_present_GWT, show ¬ symGWT = symRTO by decide, ↓reduceIte, List.append_assoc, List.cons_append,
            List.nil_append, List.append_nil]
        · repeat (first | exact c | refine UnitConst.write ?_ _ _ (by decide))
        · constructor
          all_goals
            simp only [read?_write, String.reduceEq, ↓reduceIte, dy.unit, dy.ok, dy.er, dy.to, dy.gw]

theorem unit_exit (ans : Nat → Val × String) (ok er to gw : Nat) (env : Env) (cs : Calls) (m : Nat)
    (dy : UnitDyn 256 ok er to gw env) :
    execFromW (unitWorld ans) (m + 14) unitHead env cs = ⟨env, .broke, cs⟩ := by
  have hle : ¬ ((256 : Nat) : Int) ≤ 255 := by omega
  go_evalW [unitHead, dy.unit, hle]

/-- unit ids below `k` in class `c` (0 present, 1 request timeout, 2 gateway timeout, 3 other error) -/
def unitCount (ans : Nat → Val × String) (c : Nat) (k : Nat) : Nat :=
  (List.range k).countP (fun u => decide (unitClass (ans u).2 = c))

theorem unitCount_succ (ans : Nat → Val × String) (c k : Nat) :
    unitCount ans c (k + 1) = unitCount ans c k + ind (unitClass (ans k).2 = c) := by
  unfold unitCount ind; rw [countP_range_succ]; simp

theorem unitCount_le (ans : Nat → Val × String) (c k : Nat) : unitCount ans c k ≤ k :=
  countP_range_le _ k

/-- THE LOOP of `performUnitIdScan` entered with `unitId = 0` and zero counters -/
theorem unit_loop (ans : Nat → Val × String) (env : Env) (cs : Calls) (c : UnitConst env)
    (dy : UnitDyn 0 0 0 0 0 env) :
    ∃ env', execFromW (unitWorld ans) (256 + 15) (.loop unitHead) env cs =
        ⟨env', .fell, cs ++ (List.range 256).flatMap (fun u => unitRoundCalls (ans u).2 u)⟩ ∧
      UnitConst env' ∧
      UnitDyn 256 (unitCount ans 0 256) (unitCount ans 3 256) (unitCount ans 1 256) (unitCount ans 2 256) env' := by
  have h := loop_counted (unitWorld ans) unitHead 14 256
    (fun i env' cs' => UnitConst env' ∧
      UnitDyn i (unitCount ans 0 i) (unitCount ans 3 i) (unitCount ans 1 i) (unitCount ans 2 i) env' ∧
      cs' = cs ++ (List.range i).flatMap (fun u => unitRoundCalls (ans u).2 u))
    (by
      intro i env1 cs1 m hi ⟨c1, dy1, hcs⟩
      have b0 := unitCount_le ans 0 i
      have b1 := unitCount_le ans 1 i
      have b2 := unitCount_le ans 2 i
      have b3 := unitCount_le ans 3 i
      obtain ⟨env2, cs2, hrun, hcs2, c2, dy2⟩ := unit_round ans i _ _ _ _ (by omega) (by omega) (by omega)
        (by omega) (by omega) env1 cs1 m c1 dy1 (ans i).1 (ans i).2 rfl
      refine ⟨env2, cs2, ⟨c2, ?_, ?_⟩, Or.inl hrun⟩
      · rw [unitCount_succ, unitCount_succ, unitCount_succ, unitCount_succ]; exact dy2
      · rw [hcs2, hcs, flatMap_range_succ, List.append_assoc])
    (fun env' cs' => UnitConst env' ∧
      UnitDyn 256 (unitCount ans 0 256) (unitCount ans 3 256) (unitCount ans 1 256) (unitCount ans 2 256) env' ∧
      cs' = cs ++ (List.range 256).flatMap (fun u => unitRoundCalls (ans u).2 u))
    (by
      intro env1 cs1 m ⟨c1, dy1, hcs⟩
      exact ⟨env1, cs1, unit_exit ans _ _ _ _ env1 cs1 m dy1, c1, dy1, hcs⟩)
    256 0 env cs (by omega) ⟨c, by simpa [unitCount] using dy, by simp⟩
  obtain ⟨env', cs', h1, h2, h3, h4⟩ := h
  exact ⟨env', by rw [h1, h4], h2, h3⟩

/-- the zero values of the four counters of `performUnitIdScan` -/
structure UnitZero (env : Env) : Prop where
  ok : Env.read? env "countOk" = some (.int 0)
  er : Env.read? env "countErr" = some (.int 0)
  to : Env.read? env "countTimeout" = some (.int 0)
  gw : Env.read? env "countGWTimeout" = some (.int 0)

/-- the whole log of `performUnitIdScan` -/
def unitLog (rounds : Calls) (ok er to gw : Nat) : Calls :=
  [("fmt.Println", [.sym fmtUnitStart])] ++ rounds ++
    [("fmt.Printf", [.sym fmtUnitFound, .int ok, .int er, .int to, .int gw])]

/-- **`performUnitIdScan(client)`**, whatever each unit id answers -/
theorem unit_run (ans : Nat → Val × String) (env0 : Env) (c : UnitConst env0) (z : UnitZero env0) :
    ∃ env', execW (unitWorld ans) (256 + 18) (unitWith (.loop unitHead)) env0 =
      ⟨env', .returned, unitLog ((List.range 256).flatMap (fun u => unitRoundCalls (ans u).2 u))
        (unitCount ans 0 256) (unitCount ans 3 256) (unitCount ans 1 256) (unitCount ans 2 256)⟩ := by
  have c1 : UnitConst (env0.write "unitId" (.int 0)) := c.write _ _ (by decide)
  have dy1 : UnitDyn 0 0 0 0 0 (env0.write "unitId" (.int 0)) := by
    constructor
    all_goals simp only [read?_write, String.reduceEq, ↓reduceIte, z.ok, z.er, z.to, z.gw]
    all_goals rfl
  obtain ⟨env', hl, c2, dy2⟩ := unit_loop ans _ [("fmt.Println", [.sym fmtUnitStart])] c1 dy1
  refine ⟨env', ?_⟩
  rw [execW_def]
  show execFromW _ (256 + 15 + 3) _ _ _ = _
  go_evalW [unitWith, unitWorld, c.fStart, hl, c2.fFound, dy2.ok, dy2.er, dy2.to, dy2.gw, unitLog,
    List.append_assoc]

/-! ### 9. variants: runs that never end -/

/-- a run that ends (not `outOfFuel`) with some fuel is, with ANY fuel, either that run or out of fuel -/
theorem run_or_oof (w : World) {K : Nat} {s : GStmt} {env : Env} {cs : Calls} {r : Res}
    (h : execFromW w K s env cs = r) (hr : r.how ≠ .outOfFuel) (n : Nat) :
    (execFromW w n s env cs).how = .outOfFuel ∨ execFromW w n s env cs = r := by
  by_cases hoof : (execFromW w n s env cs).how = .outOfFuel
  · exact Or.inl hoof
  · right
    have e1 := execFromW_mono w n (max n K) s env cs (Nat.le_max_left _ _) hoof
    have e2 := execFromW_mono w K (max n K) s env cs (Nat.le_max_right _ _) (by rw [h]; exact hr)
    rw [← e1, e2, h]

theorem seq_diverges_left (w : World) (a b : GStmt) (env : Env) (cs : Calls)
    (h : ∀ n, (execFromW w n a env cs).how = .outOfFuel) :
    ∀ n, (execFromW w n (.seq a b) env cs).how = .outOfFuel := by
  intro n
  cases n with
  | zero => rw [execFromW_zero]
  | succ n =>
    rw [execFromW_seq]
    have := h n
    generalize execFromW w n a env cs = r at this
    obtain ⟨e, hw, c⟩ := r
    cases this
    rfl

theorem seq_diverges_right (w : World) (a b : GStmt) (env env1 : Env) (cs cs1 : Calls) (K : Nat)
    (ha : execFromW w K a env cs = ⟨env1, .fell, cs1⟩)
    (hb : ∀ n, (execFromW w n b env1 cs1).how = .outOfFuel) :
    ∀ n, (execFromW w n (.seq a b) env cs).how = .outOfFuel := by
  intro n
  cases n with
  | zero => rw [execFromW_zero]
  | succ n =>
    rw [execFromW_seq]
    rcases run_or_oof w ha (fun x => nomatch x) n with h | h
    · generalize execFromW w n a env cs = r at h
      obtain ⟨e, hw, c⟩ := r
      cases h
      rfl
    · rw [h, seqKW_fell]; exact hb n

/-- a scan function whose loop never ends never ends -/
theorem scanWith_diverges (w : World) (hw : ∀ cs args, w cs "fmt.Printf" args = some [])
    (flag nameT nameE : String) (t : GTy) (head : GStmt) (fv : Bool) (env0 : Env)
    (hflag : Env.read? env0 flag = some (.ofBool fv))
    (hT : Env.read? env0 nameT = some (.sym nameT)) (hE : Env.read? env0 nameE = some (.sym nameE))
    (hS : Env.read? env0 fmtStart = some (.sym fmtStart))
    (hloop : ∀ n, (execFromW w n (.loop head)
        ((env0.write "regType" (regTypeOf fv nameT nameE)).write "addr" (.int 0))
        [("fmt.Printf", [.sym fmtStart, regTypeOf fv nameT nameE])]).how = .outOfFuel) :
    ∀ n, (execFromW w n (scanWith flag nameT nameE t head) env0 []).how = .outOfFuel := by
  have hS1 : ∀ v, Env.read? (Env.write env0 "regType" v) fmtStart = some (.sym fmtStart) := by
    intro v; rw [read?_write_ne _ _ _ _ (by decide), hS]
  unfold scanWith
  refine seq_diverges_right w _ _ env0 (env0.write "regType" (regTypeOf fv nameT nameE)) [] [] 2 ?_ ?_
  · cases fv <;> go_evalW [hflag, hT, hE, regTypeOf]
  refine seq_diverges_right w _ _ _ (env0.write "regType" (regTypeOf fv nameT nameE)) []
    [("fmt.Printf", [.sym fmtStart, regTypeOf fv nameT nameE])] 1 ?_ ?_
  · go_evalW [hS1, hw, read?_write_same]
  refine seq_diverges_left w _ _ _ _ ?_
  refine seq_diverges_right w _ _ _ ((env0.write "regType" (regTypeOf fv nameT nameE)).write "addr" (.int 0)) _ _ 1 ?_ hloop
  go_evalW []

/-! #### the 16-bit counter -/

/-- the loop body of `performBoolScan` with `var addr uint16` instead of `uint32` -/
def boolHead16 : GStmt :=
  scanHead .u16 "<=" 65535 (boolCall .u16) (boolFound .u16) (skipPost .u16) (failPrint .u16)

/-- ONE ROUND with a 16-bit counter at ANY address `a ≤ 65535`: the test `addr <= 0xffff` holds, and
    the next address is `(a + 1) mod 65536` -/
theorem bool16_round (ans : Nat → Val × String) (isCoil : Bool) (rt : Val) (a : Nat) (c : Int)
    (ha : a ≤ 65535) (env : Env) (cs : Calls) (m : Nat)
    (inv : ScanInv "isCoil" isCoil rt fmtBoolRow a c env) :
    execFromW (scanWorld ans) (m + 8) boolHead16 env cs =
      ⟨roundEnv env (ans a).1 (ans a).2 (((a : Int) + 1) % 65536) ((c + 1) % 18446744073709551616),
        roundHow (ans a).2,
        cs ++ (boolCallee isCoil, [.int a]) ::
          roundPrint rt [.sym fmtBoolRow, .int a, .int a, (ans a).1] a (ans a).2⟩ := by
  have hle : (a : Int) ≤ 65535 := by omega
  have hw16 : (a : Int) % 65536 = (a : Int) := by omega
  cases isCoil <;>
  · go_evalW [boolHead16, scanHead, boolCall, boolFound, skipPost, failPrint, notThere, errNotNil,
      addrInc, countInc, scanWorld, scanOracle, answerAt_nat, inv.addr, inv.count, inv.flag,
      inv.regType, inv.ida, inv.ifn, inv.nil, inv.fFail, inv.fRow, inv.fFound, hle, hw16,
      roundEnv, roundHow, roundPrint, boolCallee, isNotThere, Bool.or_eq_true, fmtFail, fmtBoolRow,
      fmtFound, symIDA, symIFN]
    repeat' split
    all_goals first | rfl | simp only [List.append_assoc, List.cons_append, List.nil_append]

/-- WITH A 16-BIT COUNTER THE LOOP NEVER ENDS: `addr <= 0xffff` is always true, after address 65535
    the counter wraps to 0 -/
theorem bool16_loop_diverges (ans : Nat → Val × String) (isCoil : Bool) (rt : Val) (env : Env) (cs : Calls)
    (inv : ScanInv "isCoil" isCoil rt fmtBoolRow 0 0 env) (n : Nat) :
    (execFromW (scanWorld ans) n (.loop boolHead16) env cs).how = .outOfFuel := by
  refine loop_diverges (scanWorld ans) boolHead16 8
    (fun env' _ => ∃ (a : Nat) (c : Int), a ≤ 65535 ∧ ScanInv "isCoil" isCoil rt fmtBoolRow a c env')
    ?_ n env cs ⟨0, 0, by omega, inv⟩
  intro env1 cs1 ⟨a, c, ha, inv1⟩
  have hr := bool16_round ans isCoil rt a c ha env1 cs1 0 inv1
  have hinv := inv1.round (by decide) (by decide) (ans a).1 (ans a).2 (((a : Int) + 1) % 65536)
    ((c + 1) % 18446744073709551616)
  rw [show (0 + 8 : Nat) = 8 from rfl] at hr
  have e : (((a + 1) % 65536 : Nat) : Int) = ((a : Int) + 1) % 65536 := by omega
  rcases roundHow_cases (ans a).2 with h | h
  · rw [h] at hr
    exact ⟨_, _, ⟨(a + 1) % 65536, _, by omega, by rw [e]; exact hinv⟩, Or.inl hr⟩
  · rw [h] at hr
    exact ⟨_, _, ⟨(a + 1) % 65536, _, by omega, by rw [e]; exact hinv⟩, Or.inr hr⟩

/-! #### `continue` without the post statement -/

/-- the loop body of `performBoolScan` with `continue` rendered as `.cont` alone (the post statement
    `addr++` is NOT run on `continue`) -/
def boolHeadNoPost : GStmt :=
  scanHead .u32 "<=" 65535 (boolCall .u32) (boolFound .u32) .cont (failPrint .u32)

/-- ONE ROUND of that variant: at a "not there" address the counter is not advanced -/
theorem boolNoPost_round (ans : Nat → Val × String) (isCoil : Bool) (rt : Val) (a : Nat) (c : Int)
    (ha : a ≤ 65535) (env : Env) (cs : Calls) (m : Nat)
    (inv : ScanInv "isCoil" isCoil rt fmtBoolRow a c env) :
    execFromW (scanWorld ans) (m + 8) boolHeadNoPost env cs =
      if isNotThere (ans a).2 = true then
        ⟨(env.write "val" (ans a).1).write "err" (.sym (ans a).2), .continued, cs ++ [(boolCallee isCoil, [.int a])]⟩
      else
        ⟨roundEnv env (ans a).1 (ans a).2 ((a + 1 : Nat) : Int) ((c + 1) % 18446744073709551616), .fell,
          cs ++ (boolCallee isCoil, [.int a]) ::
            roundPrint rt [.sym fmtBoolRow, .int a, .int a, (ans a).1] a (ans a).2⟩ := by
  have hle : (a : Int) ≤ 65535 := by omega
  have hw16 : (a : Int) % 65536 = (a : Int) := by omega
  have hw32 : ((a : Int) + 1) % 4294967296 = ((a + 1 : Nat) : Int) := by omega
  cases isCoil <;>
  · go_evalW [boolHeadNoPost, scanHead, boolCall, boolFound, failPrint, notThere, errNotNil,
      addrInc, countInc, scanWorld, scanOracle, answerAt_nat, inv.addr, inv.count, inv.flag,
      inv.regType, inv.ida, inv.ifn, inv.nil, inv.fFail, inv.fRow, inv.fFound, hle, hw16, hw32,
      roundEnv, roundPrint, boolCallee, isNotThere, Bool.or_eq_true, fmtFail, fmtBoolRow,
      fmtFound, symIDA, symIFN]
    repeat' split
    all_goals first | rfl | simp only [List.append_assoc, List.cons_append, List.nil_append]

theorem ScanInv.bind {flag : String} {fv : Bool} {rt : Val} {fmtRow : String} {a c : Int} {env : Env}
    (inv : ScanInv flag fv rt fmtRow a c env)
    (hf : "val" ≠ flag ∧ "err" ≠ flag) (hr : "val" ≠ fmtRow ∧ "err" ≠ fmtRow) (v : Val) (e : String) :
    ScanInv flag fv rt fmtRow a c ((env.write "val" v).write "err" (.sym e)) := by
  obtain ⟨hf1, hf2⟩ := hf
  obtain ⟨hr1, hr2⟩ := hr
  constructor
  all_goals
    simp only [read?_write, hf1, hf2, hr1, hr2, String.reduceEq, ↓reduceIte, fmtFail,
      fmtFound, symIDA, symIFN, inv.addr, inv.count, inv.flag, inv.regType, inv.ida, inv.ifn, inv.nil,
      inv.fFail, inv.fRow, inv.fFound]

/-- WITHOUT THE POST STATEMENT ON `continue` the loop never ends as soon as ONE address `a0 ≤ 0xffff`
    is answered with illegal data address / illegal function: the scan reads `a0` again and again -/
theorem boolNoPost_loop_diverges (ans : Nat → Val × String) (isCoil : Bool) (rt : Val) (env : Env) (cs : Calls)
    (inv : ScanInv "isCoil" isCoil rt fmtBoolRow 0 0 env) (a0 : Nat) (h0 : a0 ≤ 65535)
    (hnt : isNotThere (ans a0).2 = true) (n : Nat) :
    (execFromW (scanWorld ans) n (.loop boolHeadNoPost) env cs).how = .outOfFuel := by
  refine loop_diverges (scanWorld ans) boolHeadNoPost 8
    (fun env' _ => ∃ (a : Nat) (c : Int), a ≤ a0 ∧ ScanInv "isCoil" isCoil rt fmtBoolRow a c env')
    ?_ n env cs ⟨0, 0, by omega, inv⟩
  intro env1 cs1 ⟨a, c, ha, inv1⟩
  have hr := boolNoPost_round ans isCoil rt a c (by omega) env1 cs1 0 inv1
  rw [show (0 + 8 : Nat) = 8 from rfl] at hr
  by_cases h : isNotThere (ans a).2 = true
  · rw [if_pos h] at hr
    exact ⟨_, _, ⟨a, c, ha, inv1.bind (by decide) (by decide) _ _⟩, Or.inr hr⟩
  · rw [if_neg h] at hr
    have hlt : a < a0 := by
      rcases Nat.lt_or_ge a a0 with h1 | h1
      · exact h1
      · have : a = a0 := by omega
        subst this; exact absurd hnt h
    exact ⟨_, _, ⟨a + 1, _, by omega, inv1.round (by decide) (by decide) _ _ _ _⟩, Or.inl hr⟩

/-! ### 10. term transformers (the variants are DERIVED from the generated terms) -/

/-- every expression node of type `a` gets the type `b` -/
def retypeE (a b : GTy) : GExpr → GExpr
  | .lit v t => .lit v (if t = a then b else t)
  | .var x t => .var x (if t = a then b else t)
  | .call x t => .call x t
  | .conv t e => .conv t (retypeE a b e)
  | .bin op t x y => .bin op (if t = a then b else t) (retypeE a b x) (retypeE a b y)
  | .cmp op x y => .cmp op (retypeE a b x) (retypeE a b y)
  | .not e => .not (retypeE a b e)
  | .and x y => .and (retypeE a b x) (retypeE a b y)
  | .or x y => .or (retypeE a b x) (retypeE a b y)

def retype (a b : GTy) : GStmt → GStmt
  | .seq x y => .seq (retype a b x) (retype a b y)
  | .assign x e => .assign x (retypeE a b e)
  | .bindCall ts f as => .bindCall ts f (as.map (retypeE a b))
  | .ite c t e => .ite (retypeE a b c) (retype a b t) (retype a b e)
  | .loop x => .loop (retype a b x)
  | s => s

/-- `continue` as rendered BEFORE the fix of the translator: `.cont` alone, the post statement of
    the three-clause `for` is dropped -/
def dropPost : GStmt → GStmt
  | .seq _ .cont => .cont
  | .seq x y => .seq (dropPost x) (dropPost y)
  | .ite c t e => .ite c (dropPost t) (dropPost e)
  | .loop x => .loop (dropPost x)
  | s => s

/-- the loop bound `0xffff` (a literal 65535 on the right of a comparison in a condition) replaced
    by `b`, the comparison operator `op` by `op'` -/
def reBoundE (b : Int) (op' : String) : GExpr → GExpr
  | .cmp op x (.lit v t) => if v = 65535 then .cmp op' x (.lit b t) else .cmp op x (.lit v t)
  | e => e

def reBound (b : Int) (op' : String) : GStmt → GStmt
  | .seq x y => .seq (reBound b op' x) (reBound b op' y)
  | .ite c t e => .ite (reBoundE b op' c) (reBound b op' t) (reBound b op' e)
  | .loop x => .loop (reBound b op' x)
  | s => s

/-- the branch of `err != nil` (the failure line) followed by `break`: a scan that stops at the first
    error other than the two "not there" errors -/
def breakOnFail : GStmt → GStmt
  | .seq x y => .seq (breakOnFail x) (breakOnFail y)
  | .ite (.cmp "!=" (.var "err" t1) (.var "nil" t2)) t e =>
    .ite (.cmp "!=" (.var "err" t1) (.var "nil" t2)) (.seq t .brk) (breakOnFail e)
  | .ite c t e => .ite c (breakOnFail t) (breakOnFail e)
  | .loop x => .loop (breakOnFail x)
  | s => s

theorem retype_boolScan : retype .u32 .u16 gs_cli_performBoolScan =
    scanWith "isCoil" nameCoil nameDI .u16 boolHead16 := by rfl
theorem dropPost_boolScan : dropPost gs_cli_performBoolScan =
    scanWith "isCoil" nameCoil nameDI .u32 boolHeadNoPost := by rfl
theorem reBound_boolScan (b : Int) : reBound b "<=" gs_cli_performBoolScan =
    scanWith "isCoil" nameCoil nameDI .u32 (boolHead b) := by rfl
theorem reBound_regScan (b : Int) : reBound b "<=" gs_cli_performRegisterScan =
    scanWith "isHoldingReg" nameHR nameIR .u32 (regHead b) := by rfl
theorem reBound_id : reBound 65535 "<=" gs_cli_performBoolScan = gs_cli_performBoolScan ∧
    reBound 65535 "<=" gs_cli_performRegisterScan = gs_cli_performRegisterScan := ⟨by rfl, by rfl⟩

/-! ### 11. reading the logs of `performPing` and `performUnitIdScan` -/

/-- the `time.Sleep` calls of a log, in order -/
def sleeps (cs : Calls) : Calls := cs.filter (fun c => c.1 == "time.Sleep")

theorem ping_round_requests (ans : Nat → Val × String) (d : Int) (k : Nat) :
    requests (pingRoundCalls ans d k) = [pingProbe] := by
  unfold pingRoundCalls pingLine requests
  repeat' split
  all_goals rfl

theorem ping_round_sleeps (ans : Nat → Val × String) (d : Int) (k : Nat) :
    sleeps (pingRoundCalls ans d k) = if d > 0 then [("time.Sleep", [.int d])] else [] := by
  unfold pingRoundCalls pingLine sleeps
  repeat' split
  all_goals rfl

theorem ping_round_printed (ans : Nat → Val × String) (d : Int) (k : Nat) :
    printed (pingRoundCalls ans d k) = [pingLine (ans k).2 k] := by
  unfold pingRoundCalls pingLine printed
  repeat' split
  all_goals rfl

theorem ping_requests (ans : Nat → Val × String) (d : Int) (n : Nat) (okc erc toc : Nat) :
    requests (pingLog n ((List.range n).flatMap (pingRoundCalls ans d)) okc erc toc) =
      List.replicate n pingProbe := by
  have h : requests ((List.range n).flatMap (pingRoundCalls ans d)) = (List.range n).map (fun _ => pingProbe) := by
    unfold requests
    rw [filter_flatMap_range isRequest _ (fun _ => [pingProbe]) (ping_round_requests ans d) n,
      flatMap_single_range]
  unfold pingLog
  rw [requests_append, requests_append, h]
  have : (List.range n).map (fun _ => pingProbe) = List.replicate n pingProbe := by
    apply List.ext_getElem <;> simp
  rw [this]
  show [] ++ _ ++ [] = _
  simp

theorem ping_sleeps (ans : Nat → Val × String) (d : Int) (n : Nat) (okc erc toc : Nat) :
    sleeps (pingLog n ((List.range n).flatMap (pingRoundCalls ans d)) okc erc toc) =
      if d > 0 then List.replicate n ("time.Sleep", [.int d]) else [] := by
  have h : sleeps ((List.range n).flatMap (pingRoundCalls ans d)) =
      (List.range n).flatMap (fun _ => if d > 0 then [("time.Sleep", [Val.int d])] else []) := by
    unfold sleeps
    exact filter_flatMap_range _ _ _ (ping_round_sleeps ans d) n
  have e : sleeps (pingLog n ((List.range n).flatMap (pingRoundCalls ans d)) okc erc toc) =
      sleeps ((List.range n).flatMap (pingRoundCalls ans d)) := by
    unfold pingLog sleeps
    rw [List.filter_append, List.filter_append]
    show [] ++ _ ++ [] = _
    simp
  rw [e, h]
  split
  · rw [flatMap_single_range]
    apply List.ext_getElem <;> simp
  · simp

theorem ping_printed (ans : Nat → Val × String) (d : Int) (n : Nat) (okc erc toc : Nat) :
    printed (pingLog n ((List.range n).flatMap (pingRoundCalls ans d)) okc erc toc) =
      ("fmt.Printf", [.sym fmtPingStart, .int n]) :: (List.range n).map (fun k => pingLine (ans k).2 k) ++
        [("fmt.Printf", [.unk, .int n, .int okc, .int erc, .int toc, .sym leafTotal]),
         ("fmt.Printf", [.sym fmtPingRtt, .sym leafMin, .sym leafAvg, .sym leafMax])] := by
  have h : printed ((List.range n).flatMap (pingRoundCalls ans d)) =
      (List.range n).map (fun k => pingLine (ans k).2 k) := by
    unfold printed
    rw [filter_flatMap_range isPrint _ (fun k => [pingLine (ans k).2 k]) (ping_round_printed ans d) n,
      flatMap_single_range]
  unfold pingLog
  rw [printed_append, printed_append, h]
  rfl

theorem unit_round_requests (e : String) (u : Nat) :
    requests (unitRoundCalls e u) =
      [("client.SetUnitId", [.int u]), ("client.ReadRegister", [.int 0, .int 1])] := by
  unfold unitRoundCalls unitPrint requests
  repeat' split
  all_goals rfl

theorem unit_round_printed (e : String) (u : Nat) : printed (unitRoundCalls e u) = unitPrint e u := by
  unfold unitRoundCalls unitPrint printed
  repeat' split
  all_goals rfl

theorem unit_requests (ans : Nat → Val × String) (n : Nat) (ok er to gw : Nat) :
    requests (unitLog ((List.range n).flatMap (fun u => unitRoundCalls (ans u).2 u)) ok er to gw) =
      (List.range n).flatMap (fun (u : Nat) =>
        [("client.SetUnitId", [Val.int u]), ("client.ReadRegister", [Val.int 0, Val.int 1])]) := by
  unfold unitLog
  rw [requests_append, requests_append]
  have h : requests ((List.range n).flatMap (fun u => unitRoundCalls (ans u).2 u)) = _ :=
    filter_flatMap_range isRequest _ _ (fun u => unit_round_requests (ans u).2 u) n
  rw [h]
  show [] ++ _ ++ [] = _
  simp

theorem unit_printed (ans : Nat → Val × String) (n : Nat) (ok er to gw : Nat) :
    printed (unitLog ((List.range n).flatMap (fun u => unitRoundCalls (ans u).2 u)) ok er to gw) =
      ("fmt.Println", [.sym fmtUnitStart]) :: (List.range n).flatMap (fun u => unitPrint (ans u).2 u) ++
        [("fmt.Printf", [.sym fmtUnitFound, .int ok, .int er, .int to, .int gw])] := by
  unfold unitLog
  rw [printed_append, printed_append]
  have h : printed ((List.range n).flatMap (fun u => unitRoundCalls (ans u).2 u)) = _ :=
    filter_flatMap_range isPrint _ _ (fun u => unit_round_printed (ans u).2 u) n
  rw [h]
  rfl

theorem lastUnit_round (A : Calls) (e : String) (u : Nat) :
    lastUnit (A ++ unitRoundCalls e u) = .int u := by
  unfold unitRoundCalls unitPrint lastUnit
  repeat' split
  all_goals simp [List.foldl_append]

/-- the unit id left selected by the scan over `0..n`: `n` -/
theorem unit_lastUnit (ans : Nat → Val × String) (n : Nat) (ok er to gw : Nat) :
    lastUnit (unitLog ((List.range (n + 1)).flatMap (fun u => unitRoundCalls (ans u).2 u)) ok er to gw) =
      .int n := by
  unfold unitLog
  rw [lastUnit_snoc_other _ _ _ (by decide), flatMap_range_succ, ← List.append_assoc, lastUnit_round]

theorem pingCount_succ (ans : Nat → Val × String) (i : Nat) :
    pingOkCount ans (i + 1) = pingOkCount ans i + (if pingOk (ans i).2 then 1 else 0) ∧
    pingToCount ans (i + 1) =
      pingToCount ans i + (if ¬ pingOk (ans i).2 ∧ pingTimeout (ans i).2 then 1 else 0) ∧
    pingErrCount ans (i + 1) =
      pingErrCount ans i + (if ¬ pingOk (ans i).2 ∧ ¬ pingTimeout (ans i).2 then 1 else 0) := by
  refine ⟨?_, ?_, ?_⟩
  · unfold pingOkCount; rw [countP_range_succ]; simp
  · unfold pingToCount; rw [countP_range_succ]; simp
  · unfold pingErrCount; rw [countP_range_succ]; simp

/-- every probe is counted exactly once -/
theorem pingCount_sum (ans : Nat → Val × String) :
    ∀ m, pingOkCount ans m + pingErrCount ans m + pingToCount ans m = m := by
  intro m
  induction m with
  | zero => rfl
  | succ m ih =>
    obtain ⟨e1, e2, e3⟩ := pingCount_succ ans m
    rw [e1, e2, e3]
    by_cases a : pingOk (ans m).2 <;> by_cases b : pingTimeout (ans m).2 <;>
      simp only [a, b, not_true_eq_false, not_false_eq_true, and_self, and_true, and_false, false_and,
        true_and, ↓reduceIte] <;> omega

end Modbus.GoEval.CliScan
