import ModbusVerif.Lemmas.GoEvalLemmas
import ModbusVerif.Model.Prelude
/-
  Helpers for evaluating the RESPONSE side of the client with `Modbus.GoEval`
  (used by `Props/C02Src.lean`).

  * Symbols that CARRY data: `excSym c` (the answer of the `mapExceptionCodeToError` oracle for the
    exception code `c`) and `bytesSym bs` (the value of a byte-slice leaf such as
    `res.payload[1:]`). Both are injective and differ from `nil` / `ErrProtocolError`, so a
    theorem that states `err = sym (excSym c)` or `bytes = sym (bytesSym bs)` pins the data down.
  * `callArgs`: the argument lists of the performed calls to one callee (= `Res.argsOf`, in a
    form `simp only` can evaluate on a literal call log).
  * bit operations on the 64-bit pattern for the two shapes that occur:
    `fc | 0x80` for the eight function codes, `fc & 0x80` for a symbolic byte.
  All rewriting lemmas are stated non-`@[defeq]` (`by exact id rfl`), see `GoEvalLemmas.lean`.
-/
set_option linter.unusedSimpArgs false

namespace Modbus.GoEval.Resp
open Modbus Modbus.GoEval

/-! ### symbols carrying data -/

/-- the error value `mapExceptionCodeToError(c)`: `!` followed by `c` marks (unary, injective) -/
def excSym (c : Int) : String := String.ofList ('!' :: List.replicate c.toNat 'x')

/-- a byte slice as a symbol: `#` followed by one character per byte -/
def bytesSym (bs : Bytes) : String := String.ofList ('#' :: bs.map (fun b => Char.ofNat b.toNat))

theorem nil_ofList : "nil" = String.ofList ['n', 'i', 'l'] := by decide
theorem perr_ofList : "ErrProtocolError" = String.ofList "ErrProtocolError".toList := by simp

theorem excSym_ne_nil (c : Int) : (excSym c = "nil") = False := by
  apply eq_false
  rw [nil_ofList, excSym]; intro h
  have := String.ofList_injective h
  simp at this
theorem excSym_ne_perr (c : Int) : (excSym c = "ErrProtocolError") = False := by
  apply eq_false
  rw [perr_ofList, excSym]; intro h
  have h2 := congrArg List.head? (String.ofList_injective h)
  revert h2
  simp
theorem excSym_inj {a b : Int} (ha : 0 ≤ a) (hb : 0 ≤ b) (h : excSym a = excSym b) : a = b := by
  have h2 := congrArg List.length (String.ofList_injective h)
  simp at h2
  omega

theorem char_of_byte : ∀ b : Byte, (Char.ofNat b.toNat).toNat = b.toNat := by decide
theorem byteChars_inj : ∀ {a b : Bytes},
    a.map (fun b => Char.ofNat b.toNat) = b.map (fun b => Char.ofNat b.toNat) → a = b
  | [], [], _ => rfl
  | [], _ :: _, h => by simp at h
  | _ :: _, [], h => by simp at h
  | x :: xs, y :: ys, h => by
    simp only [List.map_cons, List.cons.injEq] at h
    have hx : x.toNat = y.toNat := by
      rw [← char_of_byte x, ← char_of_byte y, h.1]
    rw [BitVec.eq_of_toNat_eq hx, byteChars_inj h.2]
theorem bytesSym_inj {a b : Bytes} (h : bytesSym a = bytesSym b) : a = b := by
  have h2 := String.ofList_injective h
  simp only [List.cons.injEq, true_and] at h2
  exact byteChars_inj h2
theorem bytesSym_ne_nil (bs : Bytes) : (bytesSym bs = "nil") = False := by
  apply eq_false
  rw [nil_ofList, bytesSym]; intro h
  have h2 := congrArg List.head? (String.ofList_injective h)
  revert h2
  simp

/-- answer of the `mapExceptionCodeToError` oracle: a symbol carrying the code -/
def excAnswer : List Val → Val
  | [.int c] => .sym (excSym c)
  | _ => .unk
theorem excAnswer_int (c : Int) : excAnswer [.int c] = .sym (excSym c) := by exact id rfl

/-! ### the call log -/

/-- argument lists of the performed calls to `g`, in order -/
def callArgs : Calls → String → List (List Val)
  | [], _ => []
  | (f, a) :: r, g => if f = g then a :: callArgs r g else callArgs r g
theorem callArgs_nil (g) : callArgs [] g = [] := by exact id rfl
theorem callArgs_cons (f a r g) :
    callArgs ((f, a) :: r) g = if f = g then a :: callArgs r g else callArgs r g := by exact id rfl
theorem callArgs_eq_argsOf (r : Res) (g : String) : callArgs r.calls g = r.argsOf g := by
  unfold Res.argsOf
  induction r.calls with
  | nil => rfl
  | cons x xs ih =>
    obtain ⟨f, a⟩ := x
    rw [callArgs_cons, List.filter_cons]
    by_cases h : f = g
    · simp [h, ih]
    · have : (f == g) = false := by simpa using h
      simp [h, this, ih]

/-! ### bit operations -/

theorem or80_1 : Int.ofNat (Nat.lor (bits64 1) (bits64 128)) = 129 := by decide
theorem or80_2 : Int.ofNat (Nat.lor (bits64 2) (bits64 128)) = 130 := by decide
theorem or80_3 : Int.ofNat (Nat.lor (bits64 3) (bits64 128)) = 131 := by decide
theorem or80_4 : Int.ofNat (Nat.lor (bits64 4) (bits64 128)) = 132 := by decide
theorem or80_5 : Int.ofNat (Nat.lor (bits64 5) (bits64 128)) = 133 := by decide
theorem or80_6 : Int.ofNat (Nat.lor (bits64 6) (bits64 128)) = 134 := by decide
theorem or80_15 : Int.ofNat (Nat.lor (bits64 15) (bits64 128)) = 143 := by decide
theorem or80_16 : Int.ofNat (Nat.lor (bits64 16) (bits64 128)) = 144 := by decide

/-- `b & 0x80` on the 64-bit pattern is the byte `b &&& 0x80` -/
theorem land80 (b : Byte) :
    Int.ofNat (Nat.land (bits64 (b.toNat : Int)) (bits64 128)) = ((b &&& (0x80 : Byte)).toNat : Int) := by
  have hb := b.isLt
  have h1 : bits64 (b.toNat : Int) = b.toNat := by
    unfold bits64
    rw [Int.emod_eq_of_lt (by omega) (by omega)]
    exact Int.toNat_natCast _
  have h2 : bits64 128 = 128 := by decide
  rw [h1, h2, BitVec.toNat_and]
  rfl

theorem byteOfNat_int_toNat (a : Byte) : byteOfNat (Int.toNat (a.toNat : Int)) = a := by
  simp [byteOfNat]

end Modbus.GoEval.Resp
