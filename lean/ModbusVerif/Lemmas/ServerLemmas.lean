import ModbusVerif.Model.Server
import ModbusVerif.Spec.ServerSpec
import ModbusVerif.Lemmas.MbapLemmas
import ModbusVerif.Props.C17
/-
  Lemmas for property C03 / C13 (server side).

  1. bridges between the model's byte-level helpers and the specification's
     (`mk16`/`word`, `decodeBools`/`unpackBools`, `bytesToUint16s`/`unpackRegs`, `assemble`/`mbapFrame`);
  2. `handle_eq` : the model's `Server.handle`, function code by function code, is
     `handleSpec` — the specification's classification + handler invocation + reply, with the
     single deviation F8 (handler result `ErrProtocolError` ⇒ close) spelled out;
  3. the session loop: fuel irrelevance, fuel-free unfolding (`run_of_err`, `run_of_ok`),
     an induction principle over all events of any run.
-/
namespace Modbus.Server
open Modbus Enc

/-! ### 1. bridges -/

theorem mk16_eq_word (a b : Byte) : mk16 a b = Spec.word a b := by
  apply BitVec.eq_of_toNat_eq
  rw [EncLemmas.toNat_mk16, Spec.word, BitVec.toNat_ofNat]
  have := a.isLt; have := b.isLt
  omega

theorem be16_word (a b : Byte) : be16 (Spec.word a b) = [a, b] := by
  rw [← mk16_eq_word, be16, EncLemmas.hi_mk16, EncLemmas.lo_mk16]

theorem u16_eq_zero_iff (q : U16) : q = 0 ↔ q.toNat = 0 := by
  constructor
  · intro h; subst h; rfl
  · intro h; apply BitVec.eq_of_toNat_eq; simpa using h

theorem byte_eq_ofNat_iff (b : Byte) (n : Nat) (hn : n < 256) : b = byteOfNat n ↔ b.toNat = n := by
  constructor
  · intro h; subst h; simp [byteOfNat, BitVec.toNat_ofNat]; omega
  · intro h; apply BitVec.eq_of_toNat_eq; simp [byteOfNat, BitVec.toNat_ofNat]; omega

theorem coilLen_eq (n : Nat) : (n / 8 + if n % 8 = 0 then 0 else 1) = Spec.coilLen n := by
  unfold Spec.coilLen; split <;> omega

theorem unpackBools_eq (q : Nat) (data : Bytes) (hl : Spec.coilLen q ≤ data.length) :
    decodeBools q data = some (Spec.unpackBools q data) :=
  Props.C17.decodeBools_value q data hl

theorem unpackBools_length (q : Nat) (data : Bytes) : (Spec.unpackBools q data).length = q := by
  simp [Spec.unpackBools]

theorem unpackRegs_eq : (data : Bytes) → data.length % 2 = 0 →
    bytesToUint16s .big data = some (Spec.unpackRegs data)
  | [], _ => by simp [bytesToUint16s, Spec.unpackRegs]
  | [_], hl => by simp at hl
  | a :: b :: rest, hl => by
    have ih := unpackRegs_eq rest (by simp at hl; omega)
    rw [EncLemmas.u16s_step, ih]
    simp [EncLemmas.u16Of, Spec.unpackRegs, mk16_eq_word]

theorem unpackRegs_length : (data : Bytes) → (Spec.unpackRegs data).length = data.length / 2
  | [] => by simp [Spec.unpackRegs]
  | [_] => by simp [Spec.unpackRegs]
  | a :: b :: rest => by
    have ih := unpackRegs_length rest
    simp [Spec.unpackRegs, ih]; omega

theorem regBytes_big (l : List U16) : uint16sToBytes .big l = l.flatMap (Spec.regBytes .big) := by
  simp only [uint16sToBytes]; congr 1

theorem flatMap_regBytes_length (l : List U16) : (l.flatMap (Spec.regBytes .big)).length = 2 * l.length := by
  induction l with
  | nil => rfl
  | cons v vs ih => simp [List.flatMap_cons, Spec.regBytes, ih]; omega

theorem packBools_length (l : List Bool) : (Spec.packBools l).length = Spec.coilLen l.length := by
  simp [Spec.packBools]

/-- the specification's MBAP frame is the transport's -/
theorem mbapFrame_eq (txn : U16) (p : Pdu) : Spec.mbapFrame txn p = Mbap.assemble txn p := by
  have hhi : ∀ v : U16, hi v = byteOfNat (v.toNat / 256) := by
    intro v; apply BitVec.eq_of_toNat_eq
    rw [EncLemmas.toNat_hi]; simp [byteOfNat, BitVec.toNat_ofNat]
  have hlo : ∀ v : U16, lo v = byteOfNat (v.toNat % 256) := by
    intro v; apply BitVec.eq_of_toNat_eq
    rw [EncLemmas.toNat_lo]; simp [byteOfNat, BitVec.toNat_ofNat]
  have h1 : byteOfNat ((u16OfNat (2 + p.payload.length)).toNat / 256) = byteOfNat ((2 + p.payload.length) / 256) := by
    apply BitVec.eq_of_toNat_eq
    simp [byteOfNat, u16OfNat, BitVec.toNat_ofNat]; omega
  have h2 : byteOfNat ((u16OfNat (2 + p.payload.length)).toNat % 256) = byteOfNat ((2 + p.payload.length) % 256) := by
    apply BitVec.eq_of_toNat_eq
    simp [byteOfNat, u16OfNat, BitVec.toNat_ofNat]
  simp only [Spec.mbapFrame, Mbap.assemble, be16, hhi, hlo, h1, h2]
  simp

theorem wire_eq (fs : List (U16 × Pdu)) :
    Spec.wire fs = (fs.map (fun f => Mbap.assemble f.1 f.2)).flatten := by
  simp only [Spec.wire, mbapFrame_eq]

theorem exception_eq (req : Pdu) (c : Byte) : exception req c = .respond (Spec.excPdu req c) := by
  simp [exception, Spec.excPdu, BitVec.or_comm]

theorem mapError_eq (e : Err) : mapError e = Spec.exceptionCode e := by
  cases e <;> rfl

/-! ### 2. `handle` is the specification (up to F8) -/

/-- the model's per-request step expressed with the specification:
    classification, handler invocation, reply. The `if` is finding F8. -/
def handleSpec {σ : Type} (h : Handler σ) (st : σ) (req : Pdu) : σ × Option HReq × Action :=
  match Spec.classify req.unit req.fc req.payload with
  | .malformed => (st, none, .close)
  | .unsupported => (st, none, .respond (Spec.excPdu req 1))
  | .addrRange => (st, none, .respond (Spec.excPdu req 2))
  | .valid r =>
    let x := Spec.invoke h st r
    (x.1, some r,
      if x.2 = .error .protocolError then .close else .respond (Spec.replyPdu req r x.2))

variable {σ : Type} (h : Handler σ) (st : σ)

theorem onError_eq (req : Pdu) (r : HReq) (e : Err) :
    onError req e = if Spec.HResult.error e = .error .protocolError then Action.close
      else .respond (Spec.replyPdu req r (.error e)) := by
  unfold onError
  by_cases he : e = .protocolError
  · subst he; simp
  · have : Spec.HResult.error e ≠ .error .protocolError := by
      intro h'; injection h' with h'; exact he h'
    rw [if_neg he, if_neg this, exception_eq, mapError_eq]; rfl

/-- shared tail of fc 01/02: result of the handler to action -/
theorem tail_readBits (req : Pdu) (r : HReq) (qty : U16) (x : σ × Except Err (List Bool))
    (hw : Spec.isWrite r = false) (hq : Spec.qtyOf r = qty) :
    (match x.2 with
      | .error e => (x.1, some r, onError req e)
      | .ok coils =>
        if coils.length = qty.toNat then
          (x.1, some r, Action.respond { unit := req.unit, fc := req.fc, payload := byteOfNat (coils.length / 8 + if coils.length % 8 = 0 then 0 else 1) :: encodeBools coils })
        else (x.1, some r, exception req 4)) =
    (x.1, some r,
      if (match x.2 with | .ok l => Spec.HResult.bits l | .error e => Spec.HResult.error e) =
          Spec.HResult.error Err.protocolError then Action.close
      else Action.respond (Spec.replyPdu req r
        (match x.2 with | .ok l => Spec.HResult.bits l | .error e => Spec.HResult.error e))) := by
  obtain ⟨st', res⟩ := x
  cases res with
  | error e => simp only [onError_eq _ r]
  | ok l =>
    simp [Spec.replyPdu, hw, hq, exception_eq, coilLen_eq, Props.C17.bools_layout]
    split <;> rfl

/-- shared tail of fc 03/04 -/
theorem tail_readRegs (req : Pdu) (r : HReq) (qty : U16) (x : σ × Except Err (List U16))
    (hw : Spec.isWrite r = false) (hq : Spec.qtyOf r = qty) :
    (match x.2 with
      | .error e => (x.1, some r, onError req e)
      | .ok regs =>
        if regs.length = qty.toNat then
          (x.1, some r, Action.respond { unit := req.unit, fc := req.fc, payload := byteOfNat (regs.length * 2) :: uint16sToBytes .big regs })
        else (x.1, some r, exception req 4)) =
    (x.1, some r,
      if (match x.2 with | .ok l => Spec.HResult.regs l | .error e => Spec.HResult.error e) =
          Spec.HResult.error Err.protocolError then Action.close
      else Action.respond (Spec.replyPdu req r
        (match x.2 with | .ok l => Spec.HResult.regs l | .error e => Spec.HResult.error e))) := by
  obtain ⟨st', res⟩ := x
  cases res with
  | error e => simp only [onError_eq _ r]
  | ok l =>
    simp [Spec.replyPdu, hw, hq, exception_eq, regBytes_big, Nat.mul_comm]
    split <;> rfl

/-- shared tail of fc 05/0F -/
theorem tail_writeBits (req : Pdu) (r : HReq) (echo : Bytes) (x : σ × Except Err (List Bool))
    (hw : Spec.isWrite r = true) (he : req.payload.take 4 = echo) :
    (match x.2 with
      | .error e => (x.1, some r, onError req e)
      | .ok _ => (x.1, some r, Action.respond { unit := req.unit, fc := req.fc, payload := echo })) =
    (x.1, some r,
      if (match x.2 with | .ok l => Spec.HResult.bits l | .error e => Spec.HResult.error e) =
          Spec.HResult.error Err.protocolError then Action.close
      else Action.respond (Spec.replyPdu req r
        (match x.2 with | .ok l => Spec.HResult.bits l | .error e => Spec.HResult.error e))) := by
  obtain ⟨st', res⟩ := x
  cases res with
  | error e => simp only [onError_eq _ r]
  | ok l => simp [Spec.replyPdu, hw, he]

/-- shared tail of fc 06/10 -/
theorem tail_writeRegs (req : Pdu) (r : HReq) (echo : Bytes) (x : σ × Except Err (List U16))
    (hw : Spec.isWrite r = true) (he : req.payload.take 4 = echo) :
    (match x.2 with
      | .error e => (x.1, some r, onError req e)
      | .ok _ => (x.1, some r, Action.respond { unit := req.unit, fc := req.fc, payload := echo })) =
    (x.1, some r,
      if (match x.2 with | .ok l => Spec.HResult.regs l | .error e => Spec.HResult.error e) =
          Spec.HResult.error Err.protocolError then Action.close
      else Action.respond (Spec.replyPdu req r
        (match x.2 with | .ok l => Spec.HResult.regs l | .error e => Spec.HResult.error e))) := by
  obtain ⟨st', res⟩ := x
  cases res with
  | error e => simp only [onError_eq _ r]
  | ok l => simp [Spec.replyPdu, hw, he]

theorem handle_fc01 (u : Byte) (pl : Bytes) :
    handle h st ⟨u, 0x01, pl⟩ = handleSpec h st ⟨u, 0x01, pl⟩ := by
  rcases pl with _ | ⟨a1, _ | ⟨a0, _ | ⟨q1, _ | ⟨q0, _ | ⟨x, t⟩⟩⟩⟩⟩
  · simp [handle, handleSpec, Spec.classify]
  · simp [handle, handleSpec, Spec.classify]
  · simp [handle, handleSpec, Spec.classify]
  · simp [handle, handleSpec, Spec.classify]
  · simp only [handle, handleSpec, Spec.classify, Spec.checkQtyRange, Spec.qtyLimit, mk16_eq_word,
      u16_eq_zero_iff]
    simp
    generalize Spec.word q1 q0 = qty
    generalize Spec.word a1 a0 = addr
    by_cases c1 : qty.toNat = 0 ∨ 2000 < qty.toNat
    · rw [if_pos c1.symm, if_pos c1]
    · rw [if_neg (c1 ∘ Or.symm), if_neg c1]
      by_cases c2 : 65535 < addr.toNat + qty.toNat - 1
      · rw [if_pos c2, if_pos c2, exception_eq]
      · rw [if_neg c2, if_neg c2]
        simp only [Spec.invoke]
        exact tail_readBits ⟨u, 1, _⟩ (HReq.coils u addr qty false []) qty (h.coils st _) rfl rfl
  · simp [handle, handleSpec, Spec.classify]

theorem handle_fc02 (u : Byte) (pl : Bytes) :
    handle h st ⟨u, 0x02, pl⟩ = handleSpec h st ⟨u, 0x02, pl⟩ := by
  rcases pl with _ | ⟨a1, _ | ⟨a0, _ | ⟨q1, _ | ⟨q0, _ | ⟨x, t⟩⟩⟩⟩⟩
  · simp [handle, handleSpec, Spec.classify]
  · simp [handle, handleSpec, Spec.classify]
  · simp [handle, handleSpec, Spec.classify]
  · simp [handle, handleSpec, Spec.classify]
  · simp only [handle, handleSpec, Spec.classify, Spec.checkQtyRange, Spec.qtyLimit, mk16_eq_word,
      u16_eq_zero_iff]
    simp
    generalize Spec.word q1 q0 = qty
    generalize Spec.word a1 a0 = addr
    by_cases c1 : qty.toNat = 0 ∨ 2000 < qty.toNat
    · rw [if_pos c1.symm, if_pos c1]
    · rw [if_neg (c1 ∘ Or.symm), if_neg c1]
      by_cases c2 : 65535 < addr.toNat + qty.toNat - 1
      · rw [if_pos c2, if_pos c2, exception_eq]
      · rw [if_neg c2, if_neg c2]
        simp only [Spec.invoke]
        exact tail_readBits ⟨u, 2, _⟩ (HReq.discrete u addr qty) qty (h.discrete st _) rfl rfl
  · simp [handle, handleSpec, Spec.classify]

theorem handle_fc03 (u : Byte) (pl : Bytes) :
    handle h st ⟨u, 0x03, pl⟩ = handleSpec h st ⟨u, 0x03, pl⟩ := by
  rcases pl with _ | ⟨a1, _ | ⟨a0, _ | ⟨q1, _ | ⟨q0, _ | ⟨x, t⟩⟩⟩⟩⟩
  · simp [handle, handleSpec, Spec.classify]
  · simp [handle, handleSpec, Spec.classify]
  · simp [handle, handleSpec, Spec.classify]
  · simp [handle, handleSpec, Spec.classify]
  · simp only [handle, handleSpec, Spec.classify, Spec.checkQtyRange, Spec.qtyLimit, mk16_eq_word,
      u16_eq_zero_iff]
    simp
    generalize Spec.word q1 q0 = qty
    generalize Spec.word a1 a0 = addr
    by_cases c1 : qty.toNat = 0 ∨ 125 < qty.toNat
    · rw [if_pos c1.symm, if_pos c1]
    · rw [if_neg (c1 ∘ Or.symm), if_neg c1]
      by_cases c2 : 65535 < addr.toNat + qty.toNat - 1
      · rw [if_pos c2, if_pos c2, exception_eq]
      · rw [if_neg c2, if_neg c2]
        simp only [Spec.invoke]
        exact tail_readRegs ⟨u, 3, _⟩ (HReq.holding u addr qty false []) qty (h.holding st _) rfl rfl
  · simp [handle, handleSpec, Spec.classify]

theorem handle_fc04 (u : Byte) (pl : Bytes) :
    handle h st ⟨u, 0x04, pl⟩ = handleSpec h st ⟨u, 0x04, pl⟩ := by
  rcases pl with _ | ⟨a1, _ | ⟨a0, _ | ⟨q1, _ | ⟨q0, _ | ⟨x, t⟩⟩⟩⟩⟩
  · simp [handle, handleSpec, Spec.classify]
  · simp [handle, handleSpec, Spec.classify]
  · simp [handle, handleSpec, Spec.classify]
  · simp [handle, handleSpec, Spec.classify]
  · simp only [handle, handleSpec, Spec.classify, Spec.checkQtyRange, Spec.qtyLimit, mk16_eq_word,
      u16_eq_zero_iff]
    simp
    generalize Spec.word q1 q0 = qty
    generalize Spec.word a1 a0 = addr
    by_cases c1 : qty.toNat = 0 ∨ 125 < qty.toNat
    · rw [if_pos c1.symm, if_pos c1]
    · rw [if_neg (c1 ∘ Or.symm), if_neg c1]
      by_cases c2 : 65535 < addr.toNat + qty.toNat - 1
      · rw [if_pos c2, if_pos c2, exception_eq]
      · rw [if_neg c2, if_neg c2]
        simp only [Spec.invoke]
        exact tail_readRegs ⟨u, 4, _⟩ (HReq.input u addr qty) qty (h.input st _) rfl rfl
  · simp [handle, handleSpec, Spec.classify]

theorem ite_byteCount {α : Type} (bc : Byte) (n m : Nat) (hn : n < 256) (A B : α) :
    (if bc = byteOfNat n then (if m = n then A else B) else B) =
      if bc.toNat = n ∧ m = n then A else B := by
  simp only [byte_eq_ofNat_iff bc n hn]
  by_cases h1 : bc.toNat = n <;> by_cases h2 : m = n <;> simp [h1, h2]

theorem handle_fc05 (u : Byte) (pl : Bytes) :
    handle h st ⟨u, 0x05, pl⟩ = handleSpec h st ⟨u, 0x05, pl⟩ := by
  rcases pl with _ | ⟨a1, _ | ⟨a0, _ | ⟨v1, _ | ⟨v0, _ | ⟨x, t⟩⟩⟩⟩⟩
  · simp [handle, handleSpec, Spec.classify]
  · simp [handle, handleSpec, Spec.classify]
  · simp [handle, handleSpec, Spec.classify]
  · simp [handle, handleSpec, Spec.classify]
  · simp only [handle, handleSpec, Spec.classify, mk16_eq_word]
    simp
    by_cases c : (v1 = 255#8 ∨ v1 = 0#8) ∧ v0 = 0#8
    · have c' : ¬(¬v1 = 255#8 ∧ ¬v1 = 0#8 ∨ ¬v0 = 0#8) := by
        rcases c with ⟨c1 | c1, c2⟩ <;> simp [c1, c2]
      rw [if_neg c', if_pos c]
      simp only [Spec.invoke, be16_word]
      exact tail_writeBits ⟨u, 5, _⟩ (HReq.coils u _ 1 true _) _ (h.coils st _) rfl rfl
    · have c' : ¬v1 = 255#8 ∧ ¬v1 = 0#8 ∨ ¬v0 = 0#8 := by
        by_cases h0 : v0 = 0#8
        · left
          exact ⟨fun h1 => c ⟨Or.inl h1, h0⟩, fun h1 => c ⟨Or.inr h1, h0⟩⟩
        · exact Or.inr h0
      rw [if_pos c', if_neg c]
  · simp [handle, handleSpec, Spec.classify]

theorem handle_fc06 (u : Byte) (pl : Bytes) :
    handle h st ⟨u, 0x06, pl⟩ = handleSpec h st ⟨u, 0x06, pl⟩ := by
  rcases pl with _ | ⟨a1, _ | ⟨a0, _ | ⟨v1, _ | ⟨v0, _ | ⟨x, t⟩⟩⟩⟩⟩
  · simp [handle, handleSpec, Spec.classify]
  · simp [handle, handleSpec, Spec.classify]
  · simp [handle, handleSpec, Spec.classify]
  · simp [handle, handleSpec, Spec.classify]
  · simp only [handle, handleSpec, Spec.classify, mk16_eq_word]
    simp
    simp only [Spec.invoke, be16_word]
    exact tail_writeRegs ⟨u, 6, _⟩ (HReq.holding u _ 1 true _) _ (h.holding st _) rfl rfl
  · simp [handle, handleSpec, Spec.classify]

theorem handle_fc0F (u : Byte) (pl : Bytes) :
    handle h st ⟨u, 0x0F, pl⟩ = handleSpec h st ⟨u, 0x0F, pl⟩ := by
  rcases pl with _ | ⟨a1, _ | ⟨a0, _ | ⟨q1, _ | ⟨q0, _ | ⟨bc, _ | ⟨d, ds⟩⟩⟩⟩⟩⟩
  · simp [handle, handleSpec, Spec.classify]
  · simp [handle, handleSpec, Spec.classify]
  · simp [handle, handleSpec, Spec.classify]
  · simp [handle, handleSpec, Spec.classify]
  · simp [handle, handleSpec, Spec.classify]
  · simp [handle, handleSpec, Spec.classify]
  · simp only [handle, handleSpec, Spec.classify, Spec.checkQtyRange, Spec.qtyLimit, mk16_eq_word,
      u16_eq_zero_iff]
    simp
    have e1 := be16_word a1 a0
    have e2 := be16_word q1 q0
    generalize Spec.word q1 q0 = qty at e2 ⊢
    generalize Spec.word a1 a0 = addr at e1 ⊢
    rw [if_neg (by omega)]
    by_cases c1 : qty.toNat = 0 ∨ 1968 < qty.toNat
    · rw [if_pos c1.symm, if_pos c1]
    · rw [if_neg (c1 ∘ Or.symm), if_neg c1]
      by_cases c2 : 65535 < addr.toNat + qty.toNat - 1
      · rw [if_pos c2, if_pos c2, exception_eq]
      · rw [if_neg c2, if_neg c2]
        simp only [coilLen_eq]
        rw [ite_byteCount bc _ _ (by unfold Spec.coilLen; omega)]
        by_cases c3 : bc.toNat = Spec.coilLen qty.toNat ∧ ds.length + 1 = Spec.coilLen qty.toNat
        · rw [if_pos c3, if_pos c3, unpackBools_eq _ _ (by simp; omega)]
          simp only [Spec.invoke, e1, e2]
          exact tail_writeBits ⟨u, 15, _⟩ (HReq.coils u addr qty true _) _ (h.coils st _) rfl rfl
        · rw [if_neg c3, if_neg c3]

theorem handle_fc10 (u : Byte) (pl : Bytes) :
    handle h st ⟨u, 0x10, pl⟩ = handleSpec h st ⟨u, 0x10, pl⟩ := by
  rcases pl with _ | ⟨a1, _ | ⟨a0, _ | ⟨q1, _ | ⟨q0, _ | ⟨bc, _ | ⟨d, ds⟩⟩⟩⟩⟩⟩
  · simp [handle, handleSpec, Spec.classify]
  · simp [handle, handleSpec, Spec.classify]
  · simp [handle, handleSpec, Spec.classify]
  · simp [handle, handleSpec, Spec.classify]
  · simp [handle, handleSpec, Spec.classify]
  · simp [handle, handleSpec, Spec.classify]
  · simp only [handle, handleSpec, Spec.classify, Spec.checkQtyRange, Spec.qtyLimit, mk16_eq_word,
      u16_eq_zero_iff]
    simp
    have e1 := be16_word a1 a0
    have e2 := be16_word q1 q0
    generalize Spec.word q1 q0 = qty at e2 ⊢
    generalize Spec.word a1 a0 = addr at e1 ⊢
    rw [if_neg (by omega)]
    by_cases c1 : qty.toNat = 0 ∨ 123 < qty.toNat
    · rw [if_pos c1.symm, if_pos c1]
    · rw [if_neg (c1 ∘ Or.symm), if_neg c1]
      by_cases c2 : 65535 < addr.toNat + qty.toNat - 1
      · rw [if_pos c2, if_pos c2, exception_eq]
      · rw [if_neg c2, if_neg c2]
        simp only [Nat.mul_comm qty.toNat 2]
        rw [ite_byteCount bc _ _ (by omega)]
        by_cases c3 : bc.toNat = 2 * qty.toNat ∧ ds.length + 1 = 2 * qty.toNat
        · rw [if_pos c3, if_pos c3, unpackRegs_eq _ (by simp; omega)]
          simp only [Spec.invoke, e1, e2]
          exact tail_writeRegs ⟨u, 16, _⟩ (HReq.holding u addr qty true _) _ (h.holding st _) rfl rfl
        · rw [if_neg c3, if_neg c3]

theorem handle_unsupported (u fc : Byte) (pl : Bytes)
    (h1 : fc ≠ 0x01) (h2 : fc ≠ 0x02) (h3 : fc ≠ 0x03) (h4 : fc ≠ 0x04) (h5 : fc ≠ 0x05)
    (h6 : fc ≠ 0x06) (hF : fc ≠ 0x0F) (h10 : fc ≠ 0x10) :
    handle h st ⟨u, fc, pl⟩ = handleSpec h st ⟨u, fc, pl⟩ := by
  have h1' : ¬ fc = 1#8 := h1
  have h2' : ¬ fc = 2#8 := h2
  have h3' : ¬ fc = 3#8 := h3
  have h4' : ¬ fc = 4#8 := h4
  have h5' : ¬ fc = 5#8 := h5
  have h6' : ¬ fc = 6#8 := h6
  have hF' : ¬ fc = 15#8 := hF
  have h10' : ¬ fc = 16#8 := h10
  simp [handle, handleSpec, Spec.classify, h1', h2', h3', h4', h5', h6', hF', h10', exception_eq]

/-- the model's request step is the specification's, for every PDU and every handler -/
theorem handle_eq (req : Pdu) : handle h st req = handleSpec h st req := by
  obtain ⟨u, fc, pl⟩ := req
  by_cases h1 : fc = 0x01
  · subst h1; exact handle_fc01 h st u pl
  by_cases h2 : fc = 0x02
  · subst h2; exact handle_fc02 h st u pl
  by_cases h3 : fc = 0x03
  · subst h3; exact handle_fc03 h st u pl
  by_cases h4 : fc = 0x04
  · subst h4; exact handle_fc04 h st u pl
  by_cases h5 : fc = 0x05
  · subst h5; exact handle_fc05 h st u pl
  by_cases h6 : fc = 0x06
  · subst h6; exact handle_fc06 h st u pl
  by_cases hF : fc = 0x0F
  · subst hF; exact handle_fc0F h st u pl
  by_cases h10 : fc = 0x10
  · subst h10; exact handle_fc10 h st u pl
  exact handle_unsupported h st u fc pl h1 h2 h3 h4 h5 h6 hF h10

/-! ### 3. the session loop -/

/-- the events of one handled request, followed by `cont` (the rest of the session) if and
    only if the request was answered -/
def frameStep (hr : σ × Option HReq × Action) (txn : U16) (cont : σ → σ × List Event) :
    σ × List Event :=
  let evCall := match hr.2.1 with | some c => [Event.call c] | none => []
  match hr.2.2 with
  | .close => (hr.1, evCall ++ [.closed])
  | .panic => (hr.1, evCall ++ [.panic])
  | .respond p => ((cont hr.1).1, evCall ++ [.respond (Mbap.assemble txn p)] ++ (cont hr.1).2)

theorem runAux_err {fuel : Nat} {s rest : Bytes} {e : Ending} {err : Err}
    (hrf : Mbap.readFrame s e = (.err err, rest)) :
    runAux h (fuel + 1) st s e = (st, [.ended err]) := by
  rw [runAux, hrf]

theorem runAux_ok {fuel : Nat} {s rest : Bytes} {e : Ending} {req : Pdu} {txn : U16}
    (hrf : Mbap.readFrame s e = (.ok req txn, rest)) :
    runAux h (fuel + 1) st s e =
      frameStep (handle h st req) txn (fun st' => runAux h fuel st' rest e) := by
  rw [runAux, hrf]
  simp only [frameStep]
  rcases handle h st req with ⟨st', call, act⟩
  cases act <;> rfl

/-- any fuel above the stream length gives the same session -/
theorem runAux_fuel (e : Ending) :
    ∀ (f1 f2 : Nat) (st : σ) (s : Bytes), s.length < f1 → s.length < f2 →
      runAux h f1 st s e = runAux h f2 st s e := by
  intro f1
  induction f1 with
  | zero => intro f2 st s h1; omega
  | succ f1 ih =>
    intro f2 st s h1 h2
    cases f2 with
    | zero => omega
    | succ f2 =>
      cases hrf : Mbap.readFrame s e with
      | mk r rest =>
        cases r with
        | err err => rw [runAux_err h st hrf, runAux_err h st hrf]
        | ok req txn =>
          have := Mbap.readFrame_progress hrf (Or.inr ⟨req, txn, rfl⟩)
          rw [runAux_ok h st hrf, runAux_ok h st hrf]
          congr 1
          funext st'
          exact ih f2 st' rest (by omega) (by omega)

/-- more fuel than `length + 1` changes nothing -/
theorem fuel_suffices (s : Bytes) (e : Ending) (k : Nat) :
    runAux h (s.length + 1 + k) st s e = runAux h (s.length + 1) st s e :=
  runAux_fuel h e _ _ st s (by omega) (by omega)

theorem runAux_eq_run {fuel : Nat} {s : Bytes} {e : Ending} (hf : s.length < fuel) :
    runAux h fuel st s e = run h st s e :=
  runAux_fuel h e _ _ st s hf (by omega)

/-- fuel-free unfolding of the session loop: the read fails -/
theorem run_of_err {s rest : Bytes} {e : Ending} {err : Err}
    (hrf : Mbap.readFrame s e = (.err err, rest)) : run h st s e = (st, [.ended err]) :=
  runAux_err h st hrf

/-- fuel-free unfolding of the session loop: a frame was read -/
theorem run_of_ok {s rest : Bytes} {e : Ending} {req : Pdu} {txn : U16}
    (hrf : Mbap.readFrame s e = (.ok req txn, rest)) :
    run h st s e = frameStep (handle h st req) txn (fun st' => run h st' rest e) := by
  have := Mbap.readFrame_progress hrf (Or.inr ⟨req, txn, rfl⟩)
  unfold run
  rw [runAux_ok h st hrf]
  congr 1
  funext st'
  exact runAux_fuel h e _ _ st' rest (by omega) (by omega)

theorem run_nil (e : Ending) : run h st [] e = (st, [.ended e.err]) := by
  have hrf : Mbap.readFrame [] e = (.err e.err, []) := by
    rw [Mbap.readFrame_short7 e (by simp)]; simp [Strm.shortErr]
  exact run_of_err h st hrf

/-! ### 4. consequences of `handle_eq` -/

theorem checkQtyRange_valid {fc : Byte} {addr qty : U16} {k : Spec.ReqClass} {r : HReq}
    (hc : Spec.checkQtyRange fc addr qty k = .valid r) :
    k = .valid r ∧ 1 ≤ qty.toNat ∧ qty.toNat ≤ Spec.qtyLimit fc ∧ addr.toNat + qty.toNat - 1 ≤ 0xFFFF := by
  unfold Spec.checkQtyRange at hc
  split at hc
  · cases hc
  split at hc
  · cases hc
  exact ⟨hc, by omega, by omega, by omega⟩

theorem classify_valid_args {u fc : Byte} {pl : Bytes} {r : HReq}
    (hc : Spec.classify u fc pl = .valid r) : Spec.ArgsInRange r := by
  unfold Spec.classify at hc
  split at hc
  next hfc =>
    split at hc
    next a1 a0 q1 q0 =>
      obtain ⟨hk, h1, h2, h3⟩ := checkQtyRange_valid hc
      rcases hfc with rfl | rfl | rfl | rfl
      · simp [Spec.qtyLimit] at hk h2; subst hk; exact ⟨h1, h2, h3, rfl⟩
      · simp [Spec.qtyLimit] at hk h2; subst hk; exact ⟨h1, h2, h3⟩
      · simp [Spec.qtyLimit] at hk h2; subst hk; exact ⟨h1, h2, h3, rfl⟩
      · simp [Spec.qtyLimit] at hk h2; subst hk; exact ⟨h1, h2, h3⟩
    · cases hc
  split at hc
  next hfc =>
    split at hc
    next a1 a0 v1 v0 =>
      split at hc
      · injection hc with hc; subst hc; simp [Spec.ArgsInRange]; 
        have := (Spec.word a1 a0).isLt; omega
      · cases hc
    · cases hc
  split at hc
  next hfc =>
    split at hc
    next a1 a0 v1 v0 =>
      injection hc with hc; subst hc; simp [Spec.ArgsInRange]
      have := (Spec.word a1 a0).isLt; omega
    · cases hc
  split at hc
  next hfc =>
    split at hc
    next a1 a0 q1 q0 bc d ds =>
      obtain ⟨hk, h1, h2, h3⟩ := checkQtyRange_valid hc
      subst hfc
      split at hk
      next hb =>
        injection hk with hk; subst hk
        simp [Spec.qtyLimit] at h2
        exact ⟨h1, h2, h3, unpackBools_length _ _⟩
      · cases hk
    · cases hc
  split at hc
  next hfc =>
    split at hc
    next a1 a0 q1 q0 bc d ds =>
      obtain ⟨hk, h1, h2, h3⟩ := checkQtyRange_valid hc
      subst hfc
      split at hk
      next hb =>
        injection hk with hk; subst hk
        simp [Spec.qtyLimit] at h2
        refine ⟨h1, h2, h3, ?_⟩
        rw [unpackRegs_length, hb.2]; omega
      · cases hk
    · cases hc
  cases hc

/-- the four ways a request is treated -/
theorem handle_cases (req : Pdu) :
    (∃ r, Spec.classify req.unit req.fc req.payload = .valid r ∧
      handle h st req = ((Spec.invoke h st r).1, some r,
        if (Spec.invoke h st r).2 = .error .protocolError then .close
        else .respond (Spec.replyPdu req r (Spec.invoke h st r).2))) ∨
    (Spec.classify req.unit req.fc req.payload = .unsupported ∧
      handle h st req = (st, none, .respond (Spec.excPdu req 1))) ∨
    (Spec.classify req.unit req.fc req.payload = .addrRange ∧
      handle h st req = (st, none, .respond (Spec.excPdu req 2))) ∨
    (Spec.classify req.unit req.fc req.payload = .malformed ∧
      handle h st req = (st, none, .close)) := by
  rw [handle_eq, handleSpec]
  cases Spec.classify req.unit req.fc req.payload with
  | valid r => exact Or.inl ⟨r, rfl, rfl⟩
  | unsupported => exact Or.inr (Or.inl ⟨rfl, rfl⟩)
  | addrRange => exact Or.inr (Or.inr (Or.inl ⟨rfl, rfl⟩))
  | malformed => exact Or.inr (Or.inr (Or.inr ⟨rfl, rfl⟩))

/-- no request and no handler behaviour makes the request step panic -/
theorem handle_ne_panic (req : Pdu) : (handle h st req).2.2 ≠ .panic := by
  rcases handle_cases h st req with ⟨r, _, he⟩ | ⟨_, he⟩ | ⟨_, he⟩ | ⟨_, he⟩ <;> rw [he] <;> simp
  split <;> simp

/-- a handler is only ever called with the decoded arguments of a valid request -/
theorem handle_call_valid {req : Pdu} {r : HReq} (hc : (handle h st req).2.1 = some r) :
    Spec.classify req.unit req.fc req.payload = .valid r := by
  rcases handle_cases h st req with ⟨r', hv, he⟩ | ⟨_, he⟩ | ⟨_, he⟩ | ⟨_, he⟩ <;> rw [he] at hc <;>
    simp at hc
  rw [hv, hc]

theorem handle_call_args {req : Pdu} {r : HReq} (hc : (handle h st req).2.1 = some r) :
    Spec.ArgsInRange r :=
  classify_valid_args (handle_call_valid h st hc)

theorem replyPdu_unit (req : Pdu) (r : HReq) (res : Spec.HResult) :
    (Spec.replyPdu req r res).unit = req.unit := by
  cases res <;> simp only [Spec.replyPdu, Spec.excPdu] <;> (repeat' split) <;> rfl

theorem reply_fits (req : Pdu) (r : HReq) (hr : Spec.ArgsInRange r) :
    (Spec.replyPdu req r (Spec.invoke h st r).2).payload.length ≤ 252 := by
  cases r with
  | coils u a q w args =>
    simp only [Spec.invoke]
    rcases h.coils st _ with ⟨st', res⟩
    cases res with
    | error e => simp [Spec.replyPdu, Spec.excPdu]
    | ok l =>
      cases w with
      | true => simp [Spec.replyPdu, Spec.isWrite]; omega
      | false =>
        have := hr.2.1
        by_cases hl : l.length = q.toNat
        · simp [Spec.replyPdu, Spec.isWrite, Spec.qtyOf, hl, packBools_length, Spec.coilLen]
          omega
        · simp [Spec.replyPdu, Spec.isWrite, Spec.qtyOf, hl, Spec.excPdu]
  | discrete u a q =>
    simp only [Spec.invoke]
    rcases h.discrete st _ with ⟨st', res⟩
    cases res with
    | error e => simp [Spec.replyPdu, Spec.excPdu]
    | ok l =>
      have := hr.2.1
      by_cases hl : l.length = q.toNat
      · simp [Spec.replyPdu, Spec.isWrite, Spec.qtyOf, hl, packBools_length, Spec.coilLen]
        omega
      · simp [Spec.replyPdu, Spec.isWrite, Spec.qtyOf, hl, Spec.excPdu]
  | holding u a q w args =>
    simp only [Spec.invoke]
    rcases h.holding st _ with ⟨st', res⟩
    cases res with
    | error e => simp [Spec.replyPdu, Spec.excPdu]
    | ok l =>
      cases w with
      | true => simp [Spec.replyPdu, Spec.isWrite]; omega
      | false =>
        have := hr.2.1
        by_cases hl : l.length = q.toNat
        · simp [Spec.replyPdu, Spec.isWrite, Spec.qtyOf, hl, -List.length_flatMap, flatMap_regBytes_length]
          omega
        · simp [Spec.replyPdu, Spec.isWrite, Spec.qtyOf, hl, Spec.excPdu]
  | input u a q =>
    simp only [Spec.invoke]
    rcases h.input st _ with ⟨st', res⟩
    cases res with
    | error e => simp [Spec.replyPdu, Spec.excPdu]
    | ok l =>
      have := hr.2.1
      by_cases hl : l.length = q.toNat
      · simp [Spec.replyPdu, Spec.isWrite, Spec.qtyOf, hl, -List.length_flatMap, flatMap_regBytes_length]
        omega
      · simp [Spec.replyPdu, Spec.isWrite, Spec.qtyOf, hl, Spec.excPdu]

theorem handle_respond_fits {req : Pdu} {p : Pdu} (hc : (handle h st req).2.2 = .respond p) :
    p.payload.length ≤ 252 ∧ p.unit = req.unit := by
  rcases handle_cases h st req with ⟨r, hv, he⟩ | ⟨_, he⟩ | ⟨_, he⟩ | ⟨_, he⟩ <;> rw [he] at hc <;>
    simp only [] at hc
  · split at hc
    · cases hc
    · injection hc with hc; subst hc
      exact ⟨reply_fits h st req r (classify_valid_args hv), replyPdu_unit _ _ _⟩
  · injection hc with hc; subst hc; simp [Spec.excPdu]
  · injection hc with hc; subst hc; simp [Spec.excPdu]
  · cases hc

/-! ### 5. every event of every session -/

theorem mem_frameStep {hr : σ × Option HReq × Action} {txn : U16} {cont : σ → σ × List Event}
    {ev : Event} (hm : ev ∈ (frameStep hr txn cont).2) :
    (∃ c, hr.2.1 = some c ∧ ev = .call c) ∨ (hr.2.2 = .close ∧ ev = .closed) ∨
    (hr.2.2 = .panic ∧ ev = .panic) ∨
    (∃ p, hr.2.2 = .respond p ∧ (ev = .respond (Mbap.assemble txn p) ∨ ev ∈ (cont hr.1).2)) := by
  obtain ⟨st', call, act⟩ := hr
  cases act with
  | close =>
    cases call <;> simp [frameStep] at hm ⊢ <;> simp [hm]
  | panic =>
    cases call <;> simp [frameStep] at hm ⊢ <;> simp [hm]
  | respond p =>
    cases call <;> simp [frameStep] at hm ⊢ <;> rcases hm with hm | hm <;> simp [hm]

/-- induction principle: a property of events holds for every event of every session, for every
    input, as soon as it holds for the events one request step can produce -/
theorem runAux_events {P : Event → Prop} {e : Ending}
    (hend : ∀ err, P (.ended err)) (hclosed : P .closed)
    (hcall : ∀ st req r, req.payload.length ≤ 252 → (handle h st req).2.1 = some r → P (.call r))
    (hresp : ∀ st req txn p, req.payload.length ≤ 252 → (handle h st req).2.2 = .respond p →
      P (.respond (Mbap.assemble txn p))) :
    ∀ (fuel : Nat) (st : σ) (s : Bytes), ∀ ev ∈ (runAux h fuel st s e).2, P ev := by
  intro fuel
  induction fuel with
  | zero =>
    intro st s ev hm
    simp [runAux] at hm; subst hm; exact hend _
  | succ fuel ih =>
    intro st s ev hm
    cases hrf : Mbap.readFrame s e with
    | mk r rest =>
      cases r with
      | err err =>
        rw [runAux_err h st hrf] at hm
        simp at hm; subst hm; exact hend _
      | ok req txn =>
        have hp := (Mbap.readFrame_ok_inv hrf).2
        rw [runAux_ok h st hrf] at hm
        rcases mem_frameStep hm with ⟨c, hc, rfl⟩ | ⟨_, rfl⟩ | ⟨hpan, _⟩ | ⟨p, hpr, rfl | hm'⟩
        · exact hcall st req c hp hc
        · exact hclosed
        · exact absurd hpan (handle_ne_panic h st req)
        · exact hresp st req txn p hp hpr
        · exact ih _ _ _ hm'

theorem run_events {P : Event → Prop} {e : Ending}
    (hend : ∀ err, P (.ended err)) (hclosed : P .closed)
    (hcall : ∀ st req r, req.payload.length ≤ 252 → (handle h st req).2.1 = some r → P (.call r))
    (hresp : ∀ st req txn p, req.payload.length ≤ 252 → (handle h st req).2.2 = .respond p →
      P (.respond (Mbap.assemble txn p)))
    (st : σ) (s : Bytes) : ∀ ev ∈ (run h st s e).2, P ev :=
  runAux_events h hend hclosed hcall hresp _ st s

/-! ### F8: handlers that never return `ErrProtocolError` -/

/-- the handler never returns `ErrProtocolError`, on any table, in any state, for any request -/
def Handler.NoProtoErr (h : Handler σ) : Prop :=
  ∀ st r, (h.coils st r).2 ≠ .error .protocolError ∧ (h.discrete st r).2 ≠ .error .protocolError ∧
    (h.holding st r).2 ≠ .error .protocolError ∧ (h.input st r).2 ≠ .error .protocolError

theorem Handler.NoProtoErr.spec {h : Handler σ} (hn : h.NoProtoErr) : Spec.NoProtoErr h := by
  intro st r
  obtain ⟨h1, h2, h3, h4⟩ := hn st r
  cases r <;> simp only [Spec.invoke]
  · cases hx : (h.coils st _).2 with
    | ok l => simp
    | error e => rw [hx] at h1; simpa using h1
  · cases hx : (h.discrete st _).2 with
    | ok l => simp
    | error e => rw [hx] at h2; simpa using h2
  · cases hx : (h.holding st _).2 with
    | ok l => simp
    | error e => rw [hx] at h3; simpa using h3
  · cases hx : (h.input st _).2 with
    | ok l => simp
    | error e => rw [hx] at h4; simpa using h4

/-! ### 6. one complete frame; pipelined frames -/

theorem run_frame (txn : U16) (req : Pdu) (rest : Bytes) (e : Ending) (hp : req.payload.length ≤ 252) :
    run h st (Mbap.assemble txn req ++ rest) e =
      frameStep (handle h st req) txn (fun st' => run h st' rest e) :=
  run_of_ok h st (Mbap.readFrame_assemble txn req rest e hp)

/-- one request step is what the specification demands, provided the handler does not answer
    this request with `ErrProtocolError` (F8) -/
theorem frameStep_spec (txn : U16) (req : Pdu) (cont : σ → σ × List Event)
    (hne : ∀ r, Spec.classify req.unit req.fc req.payload = .valid r →
      (Spec.invoke h st r).2 ≠ .error .protocolError) :
    frameStep (handle h st req) txn cont =
      if Spec.staysOpen req then
        ((cont (Spec.serverEvents h st txn req).1).1,
          (Spec.serverEvents h st txn req).2 ++ (cont (Spec.serverEvents h st txn req).1).2)
      else Spec.serverEvents h st txn req := by
  rw [handle_eq, handleSpec, Spec.serverEvents, Spec.staysOpen]
  cases hc : Spec.classify req.unit req.fc req.payload with
  | valid r => simp [frameStep, mbapFrame_eq, hne r hc]
  | unsupported => simp [frameStep, mbapFrame_eq]
  | addrRange => simp [frameStep, mbapFrame_eq]
  | malformed => simp [frameStep]

/-- F8: the handler answers a valid request with `ErrProtocolError` -/
theorem frameStep_f8 (txn : U16) (req : Pdu) (cont : σ → σ × List Event) (r : HReq)
    (hv : Spec.classify req.unit req.fc req.payload = .valid r)
    (he : (Spec.invoke h st r).2 = .error .protocolError) :
    frameStep (handle h st req) txn cont = ((Spec.invoke h st r).1, [.call r, .closed]) := by
  rw [handle_eq, handleSpec, hv]
  simp [frameStep, he]

theorem checkQtyRange_ne_unsupported {fc : Byte} {a q : U16} {k : Spec.ReqClass}
    (hk : k ≠ .unsupported) : Spec.checkQtyRange fc a q k ≠ .unsupported := by
  unfold Spec.checkQtyRange
  split
  · simp
  split
  · simp
  exact hk

/-- the supported function codes are exactly 01–06, 0F, 10 -/
theorem classify_unsupported_iff (u fc : Byte) (pl : Bytes) :
    Spec.classify u fc pl = .unsupported ↔
      (fc ≠ 1 ∧ fc ≠ 2 ∧ fc ≠ 3 ∧ fc ≠ 4 ∧ fc ≠ 5 ∧ fc ≠ 6 ∧ fc ≠ 15 ∧ fc ≠ 16) := by
  constructor
  · intro hc
    unfold Spec.classify at hc
    repeat' split at hc
    all_goals first
      | cases hc
      | (refine absurd hc (checkQtyRange_ne_unsupported ?_); first | (split <;> simp; done) | (simp; done))
      | simp_all
    rename_i h1 h5 h6 hF h10
    exact ⟨fun h => h1 (Or.inl h), fun h => h1 (Or.inr (Or.inl h)),
      fun h => h1 (Or.inr (Or.inr (Or.inl h))), fun h => h1 (Or.inr (Or.inr (Or.inr h))),
      h5, h6, hF, h10⟩
  · rintro ⟨h1, h2, h3, h4, h5, h6, h7, h8⟩
    have h1' : ¬ fc = 1#8 := h1
    have h2' : ¬ fc = 2#8 := h2
    have h3' : ¬ fc = 3#8 := h3
    have h4' : ¬ fc = 4#8 := h4
    have h5' : ¬ fc = 5#8 := h5
    have h6' : ¬ fc = 6#8 := h6
    have hF' : ¬ fc = 15#8 := h7
    have h10' : ¬ fc = 16#8 := h8
    simp [Spec.classify, h1', h2', h3', h4', h5', h6', hF', h10']

/-! ### 7. complete frames followed by different tails (C13) -/

def Event.isEnded : Event → Bool
  | .ended _ => true
  | _ => false

def Event.isCall : Event → Bool
  | .call _ => true
  | _ => false

/-- the byte stream of a list of complete frames -/
def frames (fs : List (U16 × Pdu)) : Bytes := (fs.map (fun f => Mbap.assemble f.1 f.2)).flatten

theorem frames_cons (txn : U16) (req : Pdu) (fs : List (U16 × Pdu)) (t : Bytes) :
    frames ((txn, req) :: fs) ++ t = Mbap.assemble txn req ++ (frames fs ++ t) := by
  simp [frames]

/-- complete frames followed by two tails on which the session just ends: either the session
    never gets to the tail (a frame closed the connection) and the runs coincide, or they differ
    in the final `ended` error only -/
theorem run_frames_tail (e : Ending) (t1 t2 : Bytes) (err1 err2 : Err)
    (h1 : ∀ st, run h st t1 e = (st, [.ended err1])) (h2 : ∀ st, run h st t2 e = (st, [.ended err2])) :
    ∀ (fs : List (U16 × Pdu)) (st : σ), (∀ f ∈ fs, f.2.payload.length ≤ 252) →
      run h st (frames fs ++ t1) e = run h st (frames fs ++ t2) e ∨
      ∃ st' evs, run h st (frames fs ++ t1) e = (st', evs ++ [.ended err1]) ∧
        run h st (frames fs ++ t2) e = (st', evs ++ [.ended err2]) ∧
        (∀ ev ∈ evs, ev.isEnded = false) := by
  intro fs
  induction fs with
  | nil =>
    intro st _
    right
    exact ⟨st, [], by simp [frames, h1], by simp [frames, h2], by simp⟩
  | cons f fs ih =>
    intro st hf
    obtain ⟨txn, req⟩ := f
    have hp : req.payload.length ≤ 252 := hf (txn, req) List.mem_cons_self
    have hf' : ∀ g ∈ fs, g.2.payload.length ≤ 252 := fun g hg => hf g (List.mem_cons_of_mem _ hg)
    rw [frames_cons, frames_cons, run_frame h st txn req _ e hp, run_frame h st txn req _ e hp]
    rcases handle h st req with ⟨st1, call, act⟩
    cases act with
    | close => left; rfl
    | panic => left; rfl
    | respond p =>
      rcases ih st1 hf' with heq | ⟨st', evs, ha, hb, hne⟩
      · left; simp only [frameStep, heq]
      · right
        refine ⟨st', (match call with | some c => [Event.call c] | none => []) ++
          [.respond (Mbap.assemble txn p)] ++ evs, ?_, ?_, ?_⟩
        · simp only [frameStep, ha, List.append_assoc]
        · simp only [frameStep, hb, List.append_assoc]
        · intro ev hev
          cases call <;> simp at hev <;> rcases hev with hev | hev
          · subst hev; rfl
          · exact hne ev hev
          · subst hev; rfl
          · rcases hev with hev | hev
            · subst hev; rfl
            · exact hne ev hev

/-! ### 8. handlers for the concrete examples -/

/-- a handler over no state: every table answers with a fixed result -/
def constHandler (bits : Except Err (List Bool)) (regs : Except Err (List U16)) : Handler Unit :=
  { coils := fun _ _ => ((), bits), discrete := fun _ _ => ((), bits),
    holding := fun _ _ => ((), regs), input := fun _ _ => ((), regs) }

theorem constHandler_noProtoErr (bits : Except Err (List Bool)) (regs : Except Err (List U16))
    (hb : bits ≠ .error .protocolError) (hr : regs ≠ .error .protocolError) :
    (constHandler bits regs).NoProtoErr :=
  fun _ _ => ⟨hb, hb, hr, hr⟩

end Modbus.Server
