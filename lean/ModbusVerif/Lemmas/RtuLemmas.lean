import ModbusVerif.Model.Rtu
import ModbusVerif.Lemmas.StreamLemmas
import ModbusVerif.Lemmas.CrcLemmas
/-
  Lemmas about the RTU framing layer (`Rtu.assemble` / `Rtu.readFrame` / `Rtu.afterRead`):
  round trip, inversion, strict prefixes, wrong CRC field, consumption.
-/
namespace Modbus.Rtu
open Modbus Modbus.Strm Modbus.Crc

/-- a PDU is *length-consistent* when the length `readRTUFrame` derives from the function code
    and the first payload byte is the real payload length, and the frame fits 256 bytes -/
def Consistent (p : Pdu) : Prop :=
  p.payload ≠ [] ∧
  expectedResponseLength p.fc (p.payload.getD 0 0) = .ok (p.payload.length - 1) ∧
  p.payload.length + 4 ≤ 256

instance (p : Pdu) : Decidable (Consistent p) := by unfold Consistent; infer_instance

/-- the error `readRTUFrame` ends with when the stream stops after `k` bytes of a longer frame -/
def prefixErr (k : Nat) (e : Ending) : Err :=
  if k = 0 then e.err
  else if k < 3 then .shortFrame
  else if k = 3 then e.err
  else if e = .eof then .shortFrame
  else e.err

theorem prefixErr_add_three (m : Nat) (e : Ending) :
    prefixErr (m + 3) e = if m = 0 then e.err else if e = .eof then .shortFrame else e.err := by
  unfold prefixErr
  rw [if_neg (by omega), if_neg (by omega)]
  by_cases h0 : m = 0
  · rw [if_pos h0, if_pos (by omega)]
  · rw [if_neg h0, if_neg (by omega)]

/-! ### frames -/

theorem assemble_eq (p : Pdu) :
    assemble p = p.unit :: p.fc :: (p.payload ++ crc16 (p.unit :: p.fc :: p.payload)) := rfl

theorem crc16_eq (body : Bytes) : crc16 body = [lo (add init body), hi (add init body)] := rfl

theorem length_crc16 (body : Bytes) : (crc16 body).length = 2 := rfl

theorem length_assemble (p : Pdu) : (assemble p).length = p.payload.length + 4 := by
  simp [assemble_eq, length_crc16]

/-- R5: the frame ends with the reference CRC-16/MODBUS of everything before, low byte first -/
theorem frame_ends_with_reference_crc (p : Pdu) :
    assemble p = [p.unit, p.fc] ++ p.payload ++
      [lo (refCrc ([p.unit, p.fc] ++ p.payload)), hi (refCrc ([p.unit, p.fc] ++ p.payload))] := by
  show [p.unit, p.fc] ++ p.payload ++ crc16 ([p.unit, p.fc] ++ p.payload) = _
  rw [crc16_eq, add_eq_refAdd]
  rfl

/-- the receiver's whole-frame check passes on every assembled frame -/
theorem crcOk_assemble (p : Pdu) : crcOk (assemble p) = true := by
  show crcOk (([p.unit] ++ [p.fc] ++ p.payload) ++
    [lo (add init ([p.unit] ++ [p.fc] ++ p.payload)), hi (add init ([p.unit] ++ [p.fc] ++ p.payload))]) = true
  rw [crcOk_append_pair, isEqual_iff]
  exact ⟨rfl, rfl⟩

/-! ### `readFrame`, case by case -/

theorem readFrame_short3 {s : Bytes} (e : Ending) (h : s.length < 3) :
    readFrame s e = (.error (prefixErr s.length e), []) := by
  unfold readFrame
  rw [readFull_short_of_lt (n := 3) e h]
  simp only []
  unfold prefixErr
  by_cases h0 : s.length = 0
  · rw [if_neg (by omega), if_pos h0]
  · rw [if_pos (by omega), if_neg h0, if_pos h]

private theorem readFrame_hdr {u fc b : Byte} {tl : Bytes} (e : Ending) :
    readFull 3 (u :: fc :: b :: tl) e = .ok [u, fc, b] tl :=
  readFull_append' (n := 3) [u, fc, b] tl e rfl

theorem readFrame_cons3_lenErr {u fc b : Byte} {tl : Bytes} {err : Err} (e : Ending)
    (h : expectedResponseLength fc b = .error err) :
    readFrame (u :: fc :: b :: tl) e = (.error err, tl) := by
  unfold readFrame
  rw [readFrame_hdr]
  simp only [List.getD_cons_zero, List.getD_cons_succ, h]

theorem readFrame_cons3_tooLong {u fc b : Byte} {tl : Bytes} {n : Nat} (e : Ending)
    (h : expectedResponseLength fc b = .ok n) (hn : 256 < n + 5) :
    readFrame (u :: fc :: b :: tl) e = (.error .protocolError, tl) := by
  unfold readFrame
  rw [readFrame_hdr]
  simp only [List.getD_cons_zero, List.getD_cons_succ, h]
  rw [if_pos (by simp only [maxRTUFrameLength]; omega)]

theorem readFrame_cons3_short {u fc b : Byte} {tl : Bytes} {n : Nat} (e : Ending)
    (h : expectedResponseLength fc b = .ok n) (hn : n + 5 ≤ 256) (hs : tl.length < n + 2) :
    readFrame (u :: fc :: b :: tl) e = (.error (prefixErr (tl.length + 3) e), []) := by
  unfold readFrame
  rw [readFrame_hdr]
  simp only [List.getD_cons_zero, List.getD_cons_succ, h]
  rw [if_neg (by simp only [maxRTUFrameLength]; omega), readFull_short_of_lt e hs]
  simp only []
  rw [prefixErr_add_three]
  by_cases h0 : tl.length = 0 <;> by_cases he : e = .eof <;>
    simp only [h0, he, ↓reduceIte]

theorem readFrame_cons3_full {u fc b l h : Byte} {data rest : Bytes} {n : Nat} (e : Ending)
    (hl : expectedResponseLength fc b = .ok n) (hn : n + 5 ≤ 256) (hd : data.length = n) :
    readFrame (u :: fc :: b :: (data ++ l :: h :: rest)) e =
      (if isEqual (add init (u :: fc :: b :: data)) l h then .ok ⟨u, fc, b :: data⟩
       else .error .badCRC, rest) := by
  unfold readFrame
  rw [readFrame_hdr]
  simp only [List.getD_cons_zero, List.getD_cons_succ, hl]
  rw [if_neg (by simp only [maxRTUFrameLength]; omega)]
  have hsplit : data ++ l :: h :: rest = (data ++ [l, h]) ++ rest := by simp
  rw [hsplit, readFull_append' (data ++ [l, h]) rest e (by simp [hd])]
  simp only []
  have h1 : (data ++ [l, h]).take n = data := by
    rw [← hd]; simp
  have h2 : (data ++ [l, h]).getD n 0 = l := by
    rw [← hd]; simp [List.getD_eq_getElem?_getD]
  have h3 : (data ++ [l, h]).getD (n + 1) 0 = h := by
    rw [← hd]; simp [List.getD_eq_getElem?_getD]
  rw [h1, h2, h3]
  show (if isEqual (add init (u :: fc :: b :: data)) l h = true then _ else _) = _
  split <;> rfl

/-! ### R1: round trip -/

/-- R1: an assembled frame of a length-consistent PDU parses back to the PDU and leaves exactly
    what follows it -/
theorem readFrame_assemble {p : Pdu} (rest : Bytes) (e : Ending) (hp : Consistent p) :
    readFrame (assemble p ++ rest) e = (.ok p, rest) := by
  obtain ⟨u, fc, payload⟩ := p
  obtain ⟨hne, hl, hlen⟩ := hp
  simp only at hne hl hlen
  match payload, hne with
  | b :: data, _ =>
    simp only [List.getD_cons_zero, List.length_cons, Nat.add_sub_cancel] at hl hlen
    rw [assemble_eq, crc16_eq]
    simp only [List.cons_append, List.append_assoc]
    rw [readFrame_cons3_full e hl (by omega) rfl,
      if_pos (by rw [isEqual_iff]; exact ⟨rfl, rfl⟩)]
    rfl

/-! ### R4: any other CRC field -/

/-- R4: with any CRC field other than the computed one the frame is consumed and rejected with
    ErrBadCRC -/
theorem readFrame_bad_crc {p : Pdu} {l h : Byte} (rest : Bytes) (e : Ending) (hp : Consistent p)
    (hc : [l, h] ≠ crc16 ([p.unit, p.fc] ++ p.payload)) :
    readFrame ([p.unit, p.fc] ++ p.payload ++ [l, h] ++ rest) e = (.error .badCRC, rest) := by
  obtain ⟨u, fc, payload⟩ := p
  obtain ⟨hne, hl, hlen⟩ := hp
  simp only at hne hl hlen hc
  match payload, hne with
  | b :: data, _ =>
    simp only [List.getD_cons_zero, List.length_cons, Nat.add_sub_cancel] at hl hlen
    simp only [List.cons_append, List.append_assoc, List.nil_append]
    rw [readFrame_cons3_full e hl (by omega) rfl, if_neg]
    · rw [isEqual_iff]
      rintro ⟨rfl, rfl⟩
      exact hc rfl

/-! ### R2: inversion -/

/-- R2: whatever `readFrame` accepts is exactly the assembled frame of a length-consistent PDU,
    followed by the unread rest -/
theorem readFrame_ok_inv {s rest : Bytes} {e : Ending} {p : Pdu}
    (h : readFrame s e = (.ok p, rest)) : Consistent p ∧ s = assemble p ++ rest := by
  by_cases h3 : s.length < 3
  · rw [readFrame_short3 e h3] at h; cases h
  · match s, h3 with
    | u :: fc :: b :: tl, _ =>
      cases hl : expectedResponseLength fc b with
      | error err => rw [readFrame_cons3_lenErr e hl] at h; cases h
      | ok n =>
        by_cases hn : 256 < n + 5
        · rw [readFrame_cons3_tooLong e hl hn] at h; cases h
        · have hn' : n + 5 ≤ 256 := by omega
          by_cases hs : tl.length < n + 2
          · rw [readFrame_cons3_short e hl hn' hs] at h; cases h
          · have hd : (tl.take n).length = n := by rw [List.length_take]; omega
            have hr2 : ((tl.drop n).take 2).length = 2 := by
              rw [List.length_take, List.length_drop]; omega
            match hq : (tl.drop n).take 2, hr2 with
            | [l, hh], _ =>
              have hsplit : tl = tl.take n ++ l :: hh :: tl.drop (n + 2) := by
                have e1 : tl = tl.take n ++ tl.drop n := (List.take_append_drop _ _).symm
                have e2 : tl.drop n = (tl.drop n).take 2 ++ (tl.drop n).drop 2 :=
                  (List.take_append_drop _ _).symm
                rw [hq, List.drop_drop] at e2
                calc tl = tl.take n ++ tl.drop n := e1
                  _ = tl.take n ++ ([l, hh] ++ tl.drop (n + 2)) := by rw [← e2]
                  _ = _ := by simp
              rw [hsplit, readFrame_cons3_full e hl hn' hd] at h
              by_cases hc : isEqual (add init (u :: fc :: b :: tl.take n)) l hh = true
              · rw [if_pos hc] at h
                injection h with h1 h2
                injection h1 with h1
                subst h1
                rw [isEqual_iff] at hc
                obtain ⟨rfl, rfl⟩ := hc
                refine ⟨⟨by simp, ?_, ?_⟩, ?_⟩
                · simp only [List.getD_cons_zero, List.length_cons, Nat.add_sub_cancel, hd]
                  exact hl
                · simp only [List.length_cons, hd]; omega
                · subst h2
                  rw [assemble_eq, crc16_eq]
                  simp only [List.cons_append, List.append_assoc, List.nil_append]
                  exact congrArg (fun x => u :: fc :: b :: x) hsplit
              · rw [if_neg hc] at h; cases h
    | [], h3 => simp at h3
    | [_], h3 => simp at h3
    | [_, _], h3 => simp at h3

/-- R2, CRC part: the bytes consumed by a successful read pass the whole-frame CRC check, i.e.
    they end with the correct CRC of everything before -/
theorem readFrame_ok_crcOk {s rest : Bytes} {e : Ending} {p : Pdu}
    (h : readFrame s e = (.ok p, rest)) :
    crcOk (assemble p) = true ∧ s.take (p.payload.length + 4) = assemble p := by
  obtain ⟨_, hs⟩ := readFrame_ok_inv h
  refine ⟨crcOk_assemble p, ?_⟩
  rw [hs, ← length_assemble, List.take_left']
  rfl

/-! ### R3: strict prefixes -/

/-- R3: a strict prefix of the frame of a length-consistent PDU is never accepted: the read ends
    with ErrShortFrame or the Read error of the stream ending, and nothing stays unread -/
theorem readFrame_strict_prefix {s t : Bytes} {p : Pdu} (e : Ending) (hp : Consistent p)
    (hst : s ++ t = assemble p) (ht : t ≠ []) :
    readFrame s e = (.error (prefixErr s.length e), []) := by
  have htl : 0 < t.length := List.length_pos_iff.mpr ht
  have hlen : s.length + t.length = p.payload.length + 4 := by
    rw [← List.length_append, hst, length_assemble]
  by_cases h3 : s.length < 3
  · exact readFrame_short3 e h3
  · obtain ⟨u, fc, payload⟩ := p
    obtain ⟨hne, hl, hlen'⟩ := hp
    simp only at hne hl hlen' hlen
    match payload, hne with
    | b :: data, _ =>
      simp only [List.getD_cons_zero, List.length_cons, Nat.add_sub_cancel] at hl hlen' hlen
      match s, h3 with
      | u' :: fc' :: b' :: tl, _ =>
        rw [assemble_eq] at hst
        simp only [List.cons_append, List.cons.injEq] at hst
        obtain ⟨rfl, rfl, rfl, _⟩ := hst
        simp only [List.length_cons] at hlen
        rw [readFrame_cons3_short e hl (by omega) (by omega)]
        simp only [List.length_cons]
      | [], h3 => simp at h3
      | [_], h3 => simp at h3
      | [_, _], h3 => simp at h3

theorem readFrame_strict_prefix' {s t : Bytes} {p : Pdu} (e : Ending) (hp : Consistent p)
    (hst : s ++ t = assemble p) (ht : t ≠ []) :
    ∃ err, readFrame s e = (.error err, []) :=
  ⟨_, readFrame_strict_prefix e hp hst ht⟩

/-- cutting a valid frame anywhere before its end -/
theorem readFrame_take_assemble {k : Nat} {p : Pdu} (e : Ending) (hp : Consistent p)
    (hk : k < (assemble p).length) :
    readFrame ((assemble p).take k) e = (.error (prefixErr k e), []) := by
  have ht : (assemble p).drop k ≠ [] := by
    intro h
    have := congrArg List.length h
    simp only [List.length_drop, List.length_nil] at this
    omega
  rw [readFrame_strict_prefix e hp (List.take_append_drop k _) ht, List.length_take,
    Nat.min_eq_left (Nat.le_of_lt hk)]

/-- the errors a cut-off frame ends with -/
theorem prefixErr_cases (k : Nat) (e : Ending) : prefixErr k e = .shortFrame ∨ prefixErr k e = e.err := by
  unfold prefixErr
  repeat' split
  all_goals simp

/-! ### R6: consumption -/

/-- the errors `readFrame` can end with, and what is left unread with them -/
theorem readFrame_error_inv {s rest : Bytes} {e : Ending} {err : Err}
    (h : readFrame s e = (.error err, rest)) :
    err = .badCRC ∨ err = .protocolError ∨ ((err = .shortFrame ∨ err = e.err) ∧ rest = []) := by
  by_cases h3 : s.length < 3
  · rw [readFrame_short3 e h3] at h
    injection h with h1 h2; injection h1 with h1
    subst h1 h2
    exact Or.inr (Or.inr ⟨prefixErr_cases _ _, rfl⟩)
  · match s, h3 with
    | u :: fc :: b :: tl, _ =>
      cases hl : expectedResponseLength fc b with
      | error err' =>
        rw [readFrame_cons3_lenErr e hl] at h
        injection h with h1 h2; injection h1 with h1
        subst h1
        have : err' = .protocolError := by
          unfold expectedResponseLength at hl
          repeat' split at hl
          all_goals (cases hl; try rfl)
        exact Or.inr (Or.inl this)
      | ok n =>
        by_cases hn : 256 < n + 5
        · rw [readFrame_cons3_tooLong e hl hn] at h
          injection h with h1 h2; injection h1 with h1
          exact Or.inr (Or.inl h1.symm)
        · have hn' : n + 5 ≤ 256 := by omega
          by_cases hs : tl.length < n + 2
          · rw [readFrame_cons3_short e hl hn' hs] at h
            injection h with h1 h2; injection h1 with h1
            subst h1 h2
            exact Or.inr (Or.inr ⟨prefixErr_cases _ _, rfl⟩)
          · have hd : (tl.take n).length = n := by rw [List.length_take]; omega
            have hr2 : ((tl.drop n).take 2).length = 2 := by
              rw [List.length_take, List.length_drop]; omega
            match hq : (tl.drop n).take 2, hr2 with
            | [l, hh], _ =>
              have hsplit : tl = tl.take n ++ l :: hh :: tl.drop (n + 2) := by
                have e1 : tl = tl.take n ++ tl.drop n := (List.take_append_drop _ _).symm
                have e2 : tl.drop n = (tl.drop n).take 2 ++ (tl.drop n).drop 2 :=
                  (List.take_append_drop _ _).symm
                rw [hq, List.drop_drop] at e2
                calc tl = tl.take n ++ tl.drop n := e1
                  _ = tl.take n ++ ([l, hh] ++ tl.drop (n + 2)) := by rw [← e2]
                  _ = _ := by simp
              rw [hsplit, readFrame_cons3_full e hl hn' hd] at h
              by_cases hc : isEqual (add init (u :: fc :: b :: tl.take n)) l hh = true
              · rw [if_pos hc] at h; cases h
              · rw [if_neg hc] at h
                injection h with h1 h2; injection h1 with h1
                exact Or.inl h1.symm
    | [], h3 => simp at h3
    | [_], h3 => simp at h3
    | [_, _], h3 => simp at h3

/-- R6: the unread rest is a suffix of the stream: `s = consumed ++ rest` -/
theorem readFrame_rest_suffix {s rest : Bytes} {e : Ending} {r : Except Err Pdu}
    (h : readFrame s e = (r, rest)) : ∃ consumed, s = consumed ++ rest := by
  by_cases h3 : s.length < 3
  · rw [readFrame_short3 e h3] at h
    injection h with _ h2; subst h2; exact ⟨s, by simp⟩
  · match s, h3 with
    | u :: fc :: b :: tl, _ =>
      cases hl : expectedResponseLength fc b with
      | error err' =>
        rw [readFrame_cons3_lenErr e hl] at h
        injection h with _ h2; subst h2; exact ⟨[u, fc, b], rfl⟩
      | ok n =>
        by_cases hn : 256 < n + 5
        · rw [readFrame_cons3_tooLong e hl hn] at h
          injection h with _ h2; subst h2; exact ⟨[u, fc, b], rfl⟩
        · have hn' : n + 5 ≤ 256 := by omega
          by_cases hs : tl.length < n + 2
          · rw [readFrame_cons3_short e hl hn' hs] at h
            injection h with _ h2; subst h2; exact ⟨u :: fc :: b :: tl, by simp⟩
          · unfold readFrame at h
            rw [readFrame_hdr] at h
            simp only [List.getD_cons_zero, List.getD_cons_succ, hl] at h
            rw [if_neg (by simp only [maxRTUFrameLength]; omega),
              readFull_ok_of_le e (by omega)] at h
            simp only [] at h
            have h2 : rest = tl.drop (n + 2) := by
              split at h <;> (injection h with _ h2; exact h2.symm)
            subst h2
            exact ⟨u :: fc :: b :: tl.take (n + 2), by simp⟩
    | [], h3 => simp at h3
    | [_], h3 => simp at h3
    | [_, _], h3 => simp at h3

/-- R6: the unread rest is never longer than the stream -/
theorem readFrame_rest_le {s rest : Bytes} {e : Ending} {r : Except Err Pdu}
    (h : readFrame s e = (r, rest)) : rest.length ≤ s.length := by
  obtain ⟨c, hs⟩ := readFrame_rest_suffix h
  rw [hs, List.length_append]; omega

/-! ### `afterRead` -/

theorem afterRead_ok (p : Pdu) (rest : Bytes) : afterRead (.ok p, rest) = (.ok p, rest) := rfl

theorem afterRead_badCRC (rest : Bytes) :
    afterRead (.error .badCRC, rest) = (.error .badCRC, rest.drop 1024) := rfl
theorem afterRead_protocolError (rest : Bytes) :
    afterRead (.error .protocolError, rest) = (.error .protocolError, rest.drop 1024) := rfl
theorem afterRead_shortFrame (rest : Bytes) :
    afterRead (.error .shortFrame, rest) = (.error .shortFrame, rest.drop 1024) := rfl

/-- the outcome is never changed by `afterRead` -/
theorem afterRead_fst (r : (Except Err Pdu) × Bytes) : (afterRead r).1 = r.1 := by
  unfold afterRead
  split <;> rfl

/-- what stays pending is either all of the rest or the rest minus the first 1024 bytes -/
theorem afterRead_snd (r : (Except Err Pdu) × Bytes) :
    (afterRead r).2 = r.2 ∨ (afterRead r).2 = r.2.drop 1024 := by
  unfold afterRead
  split
  · exact Or.inr rfl
  · exact Or.inr rfl
  · exact Or.inr rfl
  · exact Or.inl rfl

/-- R6: after a transport-level rejection (bad CRC / protocol error / short frame) the pending
    input is the unread rest minus (up to) 1024 flushed bytes -/
theorem afterRead_flush {err : Err} (rest : Bytes)
    (h : err = .badCRC ∨ err = .protocolError ∨ err = .shortFrame) :
    afterRead (.error err, rest) = (.error err, rest.drop 1024) := by
  rcases h with rfl | rfl | rfl <;> rfl

/-- after ANY error out of `readFrame` the pending input is the unread rest minus 1024 bytes
    (for a Read error nothing was left unread in the first place) -/
theorem afterRead_readFrame_error {s rest : Bytes} {e : Ending} {err : Err}
    (h : readFrame s e = (.error err, rest)) :
    afterRead (readFrame s e) = (.error err, rest.drop 1024) := by
  rw [h]
  rcases readFrame_error_inv h with rfl | rfl | ⟨_, rfl⟩
  · rfl
  · rfl
  · show afterRead (.error err, []) = (.error err, [])
    unfold afterRead
    split <;> first | rfl | simp_all

/-- ... hence nothing stays pending when the stream was at most 1024 bytes long -/
theorem afterRead_readFrame_error_nil {s rest : Bytes} {e : Ending} {err : Err}
    (h : readFrame s e = (.error err, rest)) (hs : s.length ≤ 1024) :
    afterRead (readFrame s e) = (.error err, []) := by
  rw [afterRead_readFrame_error h]
  have := readFrame_rest_le h
  rw [List.drop_eq_nil_of_le (by omega)]

/-! ### non-vacuity -/

/-- sample PDU: read-holding-registers (0x03) response from unit 1, one register = 0x000a -/
def rsp03 : Pdu := ⟨1, 3, [2, 0x00, 0x0a]⟩

example : Consistent rsp03 := by decide
example : assemble rsp03 = [0x01, 0x03, 0x02, 0x00, 0x0a, 0x38, 0x43] := by decide +kernel
example : readFrame (assemble rsp03 ++ [0xFF]) .timeout = (.ok rsp03, [0xFF]) := by decide +kernel
example : readFrame ([0x01, 0x03, 0x02, 0x00, 0x0a] ++ [0x38, 0x42] ++ [0xFF]) .timeout =
    (.error .badCRC, [0xFF]) := by decide +kernel
example : readFrame ((assemble rsp03).take 5) .eof = (.error .shortFrame, []) := by decide +kernel
example : readFrame ((assemble rsp03).take 5) .timeout = (.error .ioTimeout, []) := by decide +kernel
example : readFrame ((assemble rsp03).take 3) .eof = (.error .ioEOF, []) := by decide +kernel
example : readFrame ((assemble rsp03).take 2) .timeout = (.error .shortFrame, []) := by decide +kernel
/-- a PDU that is not length-consistent (byte count 4, two data bytes) does not round-trip -/
example : ¬ Consistent ⟨1, 3, [4, 0x00, 0x0a]⟩ := by decide
example : readFrame (assemble ⟨1, 3, [4, 0x00, 0x0a]⟩) .timeout = (.error .ioTimeout, []) := by
  decide +kernel

end Modbus.Rtu
