/-
  LockingLemmas — soundness of the lockset checker of `ModbusVerif/Model/Locking.lean`.

    T1  `no_race`                       checker accepts every thread ⇒ no schedule reaches `RaceAt`
    T2  `mutex_exclusive`               at most one thread is holding in every reachable state
        `critical_sections_contiguous`  between `acq` by i and the next `rel` by i nobody else
                                        acquires, releases or touches a mutable field
    T3  `wellLocked_append`, `wellLocked_flatten`   entries compose sequentially
        `discipline_no_race` …          packaged for `disciplineOk` / `initState`
-/
import ModbusVerif.Model.Locking

namespace Modbus.Locking

/-! ### the checker, one step at a time -/

theorem wellLocked_acq {mf h rest} :
    wellLocked mf h (.acq :: rest) = true ↔ h = false ∧ wellLocked mf true rest = true := by
  simp [wellLocked]

theorem wellLocked_rel {mf h rest} :
    wellLocked mf h (.rel :: rest) = true ↔ h = true ∧ wellLocked mf false rest = true := by
  simp [wellLocked]

theorem wellLocked_rd {mf h f rest} :
    wellLocked mf h (.rd f :: rest) = true ↔ (f ∈ mf → h = true) ∧ wellLocked mf h rest = true := by
  by_cases hf : f ∈ mf <;> simp [wellLocked, hf]

theorem wellLocked_wr {mf h f rest} :
    wellLocked mf h (.wr f :: rest) = true ↔ (f ∈ mf → h = true) ∧ wellLocked mf h rest = true := by
  by_cases hf : f ∈ mf <;> simp [wellLocked, hf]

theorem wellLocked_stuck {mf h rest} : wellLocked mf h (.stuck :: rest) = false := by
  simp [wellLocked]

/-- T3: a well-locked prefix that ends without the mutex can be followed by any entry -/
theorem wellLocked_append {mf : List String} {a b : List Step} :
    ∀ {h : Bool}, wellLocked mf h a = true → wellLocked mf false b = true →
      wellLocked mf h (a ++ b) = true := by
  induction a with
  | nil => intro h ha hb; cases h <;> simp_all [wellLocked]
  | cons st rest ih =>
    intro h ha hb
    cases st with
    | acq => rw [List.cons_append, wellLocked_acq] at *; exact ⟨ha.1, ih ha.2 hb⟩
    | rel => rw [List.cons_append, wellLocked_rel] at *; exact ⟨ha.1, ih ha.2 hb⟩
    | rd f => rw [List.cons_append, wellLocked_rd] at *; exact ⟨ha.1, ih ha.2 hb⟩
    | wr f => rw [List.cons_append, wellLocked_wr] at *; exact ⟨ha.1, ih ha.2 hb⟩
    | stuck => simp [wellLocked] at ha

/-- T3: entries are closed under concatenation -/
theorem entryOk_append {mf : List String} {a b : List Step}
    (ha : entryOk mf a = true) (hb : entryOk mf b = true) : entryOk mf (a ++ b) = true :=
  wellLocked_append ha hb

/-- T3: any finite sequence of entries is again an entry -/
theorem wellLocked_flatten {mf : List String} {L : List (List Step)}
    (h : ∀ l ∈ L, entryOk mf l = true) : wellLocked mf false L.flatten = true := by
  induction L with
  | nil => simp [wellLocked]
  | cons l L ih =>
    rw [List.flatten_cons]
    exact wellLocked_append (h l (by simp)) (ih (fun l' hl' => h l' (by simp [hl'])))

/-! ### the semantics, one step at a time -/

/-- what a performed step is and does -/
theorem step_spec {s s' : State} {tid : Nat} (hs : step s tid = some s') :
    ∃ t st rest, s.threads[tid]? = some t ∧ t.todo = st :: rest ∧ next s tid = some st ∧
      ((st = .acq ∧ s.holder = none ∧ s' = ⟨s.threads.set tid ⟨rest, true⟩, some tid⟩) ∨
       (st = .rel ∧ s' = ⟨s.threads.set tid ⟨rest, false⟩, none⟩) ∨
       ((∃ f, st = .rd f ∨ st = .wr f) ∧ s' = ⟨s.threads.set tid ⟨rest, t.holding⟩, s.holder⟩)) := by
  unfold step at hs
  cases hget : s.threads[tid]? with
  | none => simp [hget] at hs
  | some t =>
    rw [hget] at hs
    dsimp only at hs
    cases htodo : t.todo with
    | nil => simp [htodo] at hs
    | cons st rest =>
      have hn : next s tid = some st := by simp [next, hget, htodo]
      refine ⟨t, st, rest, rfl, htodo, hn, ?_⟩
      rw [htodo] at hs
      cases st with
      | acq =>
        by_cases hh : s.holder = none
        · simp [hh] at hs; exact Or.inl ⟨rfl, hh, hs.symm⟩
        · simp [hh] at hs
      | rel => simp at hs; exact Or.inr (Or.inl ⟨rfl, hs.symm⟩)
      | rd f => simp at hs; exact Or.inr (Or.inr ⟨⟨f, Or.inl rfl⟩, hs.symm⟩)
      | wr f => simp at hs; exact Or.inr (Or.inr ⟨⟨f, Or.inr rfl⟩, hs.symm⟩)
      | stuck => simp at hs

theorem next_spec {s : State} {i : Nat} {a : Step} (h : next s i = some a) :
    ∃ t rest, s.threads[i]? = some t ∧ t.todo = a :: rest := by
  unfold next at h
  cases hget : s.threads[i]? with
  | none => simp [hget] at h
  | some t =>
    rw [hget] at h
    exact ⟨t, _, rfl, (List.head?_eq_some_iff.mp h).choose_spec⟩

theorem getElem?_set_cases {l : List Thread} {tid i : Nat} {t' t'' : Thread}
    (h : (l.set tid t')[i]? = some t'') :
    (i = tid ∧ t'' = t') ∨ (i ≠ tid ∧ l[i]? = some t'') := by
  rw [List.getElem?_set] at h
  by_cases hi : tid = i
  · subst hi
    simp at h
    exact Or.inl ⟨rfl, h.2.symm⟩
  · simp [hi] at h
    exact Or.inr ⟨fun e => hi e.symm, h⟩

/-! ### the invariant -/

/-- (a) the holder is exactly the thread that is holding; (b) every thread's remaining steps are
    well-locked from its current holding state -/
structure Inv (mf : List String) (s : State) : Prop where
  excl : ∀ (i : Nat) (t : Thread), s.threads[i]? = some t → (t.holding = true ↔ s.holder = some i)
  wl : ∀ (i : Nat) (t : Thread), s.threads[i]? = some t → wellLocked mf t.holding t.todo = true

theorem inv_init {mf : List String} {s0 : State} (hh : s0.holder = none)
    (ht : ∀ t ∈ s0.threads, t.holding = false ∧ wellLocked mf false t.todo = true) :
    Inv mf s0 := by
  constructor
  · intro i t hget
    have := ht t (List.mem_iff_getElem?.mpr ⟨i, hget⟩)
    simp [this.1, hh]
  · intro i t hget
    have := ht t (List.mem_iff_getElem?.mpr ⟨i, hget⟩)
    rw [this.1]; exact this.2

theorem inv_step {mf : List String} {s s' : State} {tid : Nat}
    (hinv : Inv mf s) (hs : step s tid = some s') : Inv mf s' := by
  obtain ⟨t, st, rest, hget, htodo, _, hcases⟩ := step_spec hs
  have hwl := hinv.wl tid t hget
  have hex := hinv.excl tid t hget
  rw [htodo] at hwl
  rcases hcases with ⟨hst, hfree, rfl⟩ | ⟨hst, rfl⟩ | ⟨⟨f, hst⟩, rfl⟩
  · -- acq
    subst hst
    rw [wellLocked_acq] at hwl
    constructor
    · intro i t'' hi
      rcases getElem?_set_cases hi with ⟨rfl, rfl⟩ | ⟨hne, hi'⟩
      · simp
      · have := hinv.excl i t'' hi'
        rw [hfree] at this
        have hf : t''.holding = false := by
          cases hb : t''.holding with
          | false => rfl
          | true => exact absurd (this.mp hb) (by simp)
        simp [hf]
        exact fun e => hne e.symm
    · intro i t'' hi
      rcases getElem?_set_cases hi with ⟨rfl, rfl⟩ | ⟨_, hi'⟩
      · exact hwl.2
      · exact hinv.wl i t'' hi'
  · -- rel
    subst hst
    rw [wellLocked_rel] at hwl
    have hholder : s.holder = some tid := hex.mp hwl.1
    constructor
    · intro i t'' hi
      rcases getElem?_set_cases hi with ⟨rfl, rfl⟩ | ⟨hne, hi'⟩
      · simp
      · have := hinv.excl i t'' hi'
        rw [hholder] at this
        have hf : t''.holding = false := by
          cases hb : t''.holding with
          | false => rfl
          | true =>
            have := this.mp hb
            exact absurd (Option.some.inj this).symm hne
        simp [hf]
    · intro i t'' hi
      rcases getElem?_set_cases hi with ⟨rfl, rfl⟩ | ⟨_, hi'⟩
      · exact hwl.2
      · exact hinv.wl i t'' hi'
  · -- rd / wr
    have hrest : wellLocked mf t.holding rest = true := by
      rcases hst with rfl | rfl
      · exact (wellLocked_rd.mp hwl).2
      · exact (wellLocked_wr.mp hwl).2
    constructor
    · intro i t'' hi
      rcases getElem?_set_cases hi with ⟨rfl, rfl⟩ | ⟨_, hi'⟩
      · exact hex
      · exact hinv.excl i t'' hi'
    · intro i t'' hi
      rcases getElem?_set_cases hi with ⟨rfl, rfl⟩ | ⟨_, hi'⟩
      · exact hrest
      · exact hinv.wl i t'' hi'

theorem inv_run {mf : List String} (sched : List Nat) :
    ∀ {s : State}, Inv mf s → Inv mf (run s sched) := by
  induction sched with
  | nil => intro s h; exact h
  | cons tid sched ih =>
    intro s h
    unfold run
    cases hs : step s tid with
    | none => exact ih h
    | some s' => exact ih (inv_step h hs)

/-- a thread about to touch a mutable field is the holder -/
theorem holder_of_touchesMut {mf : List String} {s : State} {i : Nat} {a : Step}
    (hinv : Inv mf s) (hn : next s i = some a) (ha : a.touchesMut mf) : s.holder = some i := by
  obtain ⟨t, rest, hget, htodo⟩ := next_spec hn
  obtain ⟨f, hf, hto⟩ := ha
  have hwl := hinv.wl i t hget
  rw [htodo] at hwl
  apply (hinv.excl i t hget).mp
  rcases hto with rfl | rfl
  · exact (wellLocked_rd.mp hwl).1 hf
  · exact (wellLocked_wr.mp hwl).1 hf

/-- under the invariant no two distinct threads are both about to touch a mutable field
    (not even two reads) -/
theorem inv_no_conflict {mf : List String} {s : State} (hinv : Inv mf s) {i j : Nat} {a b : Step}
    (hi : next s i = some a) (hj : next s j = some b)
    (ha : a.touchesMut mf) (hb : b.touchesMut mf) : i = j := by
  have h1 := holder_of_touchesMut hinv hi ha
  have h2 := holder_of_touchesMut hinv hj hb
  rw [h1] at h2
  exact Option.some.inj h2

theorem inv_no_race {mf : List String} {s : State} (hinv : Inv mf s) : ¬ RaceAt mf s := by
  rintro ⟨i, j, f, a, b, hne, hf, hi, hj, ha, hb, _⟩
  exact hne (inv_no_conflict hinv hi hj ⟨f, hf, ha⟩ ⟨f, hf, hb⟩)

/-! ### T1 -/

/-- T1 (lockset soundness): if initially nobody holds the mutex and every thread's program passes
    the checker, then NO schedule (any interleaving, any number of threads) reaches a state in which
    two threads are about to perform conflicting accesses to a mutable field. -/
theorem no_race {mf : List String} {s0 : State} (hh : s0.holder = none)
    (ht : ∀ t ∈ s0.threads, t.holding = false ∧ wellLocked mf false t.todo = true)
    (sched : List Nat) : ¬ RaceAt mf (run s0 sched) :=
  inv_no_race (inv_run sched (inv_init hh ht))

/-! ### T2 -/

/-- T2a (mutual exclusion): in every reachable state at most one thread is holding -/
theorem mutex_exclusive {mf : List String} {s0 : State} (hh : s0.holder = none)
    (ht : ∀ t ∈ s0.threads, t.holding = false ∧ wellLocked mf false t.todo = true)
    (sched : List Nat) {i j : Nat} {ti tj : Thread}
    (hi : (run s0 sched).threads[i]? = some ti) (hj : (run s0 sched).threads[j]? = some tj)
    (hhi : ti.holding = true) (hhj : tj.holding = true) : i = j := by
  have hinv := inv_run sched (inv_init (mf := mf) hh ht)
  have h1 := (hinv.excl i ti hi).mp hhi
  have h2 := (hinv.excl j tj hj).mp hhj
  rw [h1] at h2
  exact Option.some.inj h2

/-- what another thread may do while thread `i` is inside its critical section: no `acq`, no `rel`,
    no access to a mutable field -/
def Harmless (mf : List String) (st : Step) : Prop :=
  st ≠ .acq ∧ st ≠ .rel ∧ ¬ st.touchesMut mf

/-- while `i` holds the mutex and has not released it, every step of another thread is harmless -/
theorem held_section {mf : List String} {i : Nat} (sched : List Nat) :
    ∀ {s : State} {mid rest : List (Nat × Step)}, Inv mf s → s.holder = some i →
      trace s sched = mid ++ rest → (i, Step.rel) ∉ mid →
      ∀ p ∈ mid, p.1 ≠ i → Harmless mf p.2 := by
  induction sched with
  | nil =>
    intro s mid rest _ _ htr _ p hp
    simp [trace] at htr
    simp [htr.1] at hp
  | cons tid sched ih =>
    intro s mid rest hinv hhold htr hnorel p hp hpi
    unfold trace at htr
    cases hs : step s tid with
    | none => rw [hs] at htr; exact ih hinv hhold htr hnorel p hp hpi
    | some s' =>
      rw [hs] at htr
      obtain ⟨t, st, rest', hget, htodo, hn, hcases⟩ := step_spec hs
      simp only [hn] at htr
      have hinv' := inv_step hinv hs
      cases mid with
      | nil => simp at hp
      | cons q mid' =>
        rw [List.cons_append] at htr
        have hq : q = (tid, st) := (List.cons.inj htr).1.symm
        have htr' : trace s' sched = mid' ++ rest := (List.cons.inj htr).2
        have hnorel' : (i, Step.rel) ∉ mid' := fun h => hnorel (List.mem_cons_of_mem _ h)
        have hwl := hinv.wl tid t hget
        have hex := hinv.excl tid t hget
        rw [htodo] at hwl
        -- the holder is still `i` after this step, and the step is harmless unless `tid = i`
        have key : s'.holder = some i ∧ (tid ≠ i → Harmless mf st) := by
          rcases hcases with ⟨_, hfree, _⟩ | ⟨hst, hs'⟩ | ⟨⟨f, hst⟩, hs'⟩
          · rw [hhold] at hfree; simp at hfree
          · subst hst
            have hh : s.holder = some tid := hex.mp (wellLocked_rel.mp hwl).1
            rw [hhold] at hh
            have hti : tid = i := (Option.some.inj hh).symm
            subst hti
            exact absurd (by rw [hq]; simp) hnorel
          · refine ⟨by rw [hs']; exact hhold, fun hne => ?_⟩
            have hnh : t.holding = false := by
              cases hb : t.holding with
              | false => rfl
              | true =>
                have := hex.mp hb
                rw [hhold] at this
                exact absurd (Option.some.inj this).symm hne
            refine ⟨by rcases hst with rfl | rfl <;> simp,
                    by rcases hst with rfl | rfl <;> simp, ?_⟩
            rintro ⟨g, hg, hto⟩
            rcases hst with rfl | rfl
            · have := (wellLocked_rd.mp hwl).1
              rcases hto with h | h
              · cases h; rw [hnh] at this; exact absurd (this hg) (by simp)
              · cases h
            · have := (wellLocked_wr.mp hwl).1
              rcases hto with h | h
              · cases h
              · cases h; rw [hnh] at this; exact absurd (this hg) (by simp)
        rcases List.mem_cons.mp hp with rfl | hp'
        · rw [hq] at hpi ⊢
          exact key.2 hpi
        · exact ih hinv' key.1 htr' hnorel' p hp' hpi

theorem contiguous_of_inv {mf : List String} {i : Nat} (sched : List Nat) :
    ∀ {s : State} {pre mid rest : List (Nat × Step)}, Inv mf s →
      trace s sched = pre ++ (i, Step.acq) :: (mid ++ rest) → (i, Step.rel) ∉ mid →
      ∀ p ∈ mid, p.1 ≠ i → Harmless mf p.2 := by
  induction sched with
  | nil => intro s pre mid rest _ htr; simp [trace] at htr
  | cons tid sched ih =>
    intro s pre mid rest hinv htr hnorel
    unfold trace at htr
    cases hs : step s tid with
    | none => rw [hs] at htr; exact ih hinv htr hnorel
    | some s' =>
      rw [hs] at htr
      obtain ⟨t, st, rest', hget, htodo, hn, hcases⟩ := step_spec hs
      simp only [hn] at htr
      have hinv' := inv_step hinv hs
      cases pre with
      | nil =>
        rw [List.nil_append] at htr
        have hq : (tid, st) = (i, Step.acq) := (List.cons.inj htr).1
        have htr' : trace s' sched = mid ++ rest := (List.cons.inj htr).2
        have htid : tid = i := (Prod.mk.inj hq).1
        have hst : st = .acq := (Prod.mk.inj hq).2
        have hhold : s'.holder = some i := by
          rcases hcases with ⟨_, _, hs'⟩ | ⟨h, _⟩ | ⟨⟨f, h⟩, _⟩
          · rw [hs', htid]
          · rw [hst] at h; cases h
          · rw [hst] at h; rcases h with h | h <;> cases h
        exact held_section sched hinv' hhold htr' hnorel
      | cons q pre' =>
        rw [List.cons_append] at htr
        exact ih hinv' (List.cons.inj htr).2 hnorel

/-- T2b (critical sections are contiguous w.r.t. the shared state): split the trace of performed
    steps at any `acq` by thread `i`; as long as `i` has not released (`mid` contains no `rel` by
    `i`), every step of any OTHER thread is harmless: it is not an `acq`, not a `rel`, and touches
    no mutable field.  With "transport!" ∈ mf: the i/o steps of one exchange are never interleaved
    with another thread's i/o on the same connection. -/
theorem critical_sections_contiguous {mf : List String} {s0 : State} (hh : s0.holder = none)
    (ht : ∀ t ∈ s0.threads, t.holding = false ∧ wellLocked mf false t.todo = true)
    (sched : List Nat) {i : Nat} {pre mid rest : List (Nat × Step)}
    (htr : trace s0 sched = pre ++ (i, Step.acq) :: (mid ++ rest))
    (hnorel : (i, Step.rel) ∉ mid) :
    ∀ p ∈ mid, p.1 ≠ i → Harmless mf p.2 :=
  contiguous_of_inv sched (inv_init hh ht) htr hnorel

/-- the transport corollary: inside thread `i`'s critical section no other thread performs a step
    on field `f ∈ mf` (instantiate `f := "transport!"`) -/
theorem no_foreign_access_in_section {mf : List String} {s0 : State} (hh : s0.holder = none)
    (ht : ∀ t ∈ s0.threads, t.holding = false ∧ wellLocked mf false t.todo = true)
    (sched : List Nat) {i : Nat} {pre mid rest : List (Nat × Step)}
    (htr : trace s0 sched = pre ++ (i, Step.acq) :: (mid ++ rest))
    (hnorel : (i, Step.rel) ∉ mid) {f : String} (hf : f ∈ mf) {j : Nat} {st : Step}
    (hmem : (j, st) ∈ mid) (hto : st.touches f) : j = i := by
  apply Classical.byContradiction
  intro hne
  exact (critical_sections_contiguous hh ht sched htr hnorel (j, st) hmem hne).2.2 ⟨f, hf, hto⟩

/-! ### packaged for `disciplineOk` -/

theorem entryOk_of_discipline {prog : Program} {pub ctors : List String} {fuel : Nat}
    (hd : disciplineOk prog pub ctors fuel = true) {m : String} (hm : m ∈ entries prog pub) :
    entryOk (mutableFields prog ctors) (entrySteps prog fuel m) = true :=
  List.all_eq_true.mp hd m hm

/-- the hypotheses of T1/T2 hold for `initState` when the discipline check passes and every thread
    runs a finite sequence of entry methods -/
theorem initState_ok {prog : Program} {pub ctors : List String} {fuel : Nat}
    (hd : disciplineOk prog pub ctors fuel = true) {calls : List (List String)}
    (hc : ∀ ms ∈ calls, ∀ m ∈ ms, m ∈ entries prog pub) :
    (initState prog fuel calls).holder = none ∧
    ∀ t ∈ (initState prog fuel calls).threads,
      t.holding = false ∧ wellLocked (mutableFields prog ctors) false t.todo = true := by
  refine ⟨rfl, ?_⟩
  intro t ht
  simp only [initState, List.mem_map] at ht
  obtain ⟨ms, hms, rfl⟩ := ht
  refine ⟨rfl, wellLocked_flatten ?_⟩
  intro l hl
  obtain ⟨m, hm, rfl⟩ := List.mem_map.mp hl
  exact entryOk_of_discipline hd (hc ms hms m hm)

/-- T1 + T3 for a checked program: any number of threads, each running any finite sequence of
    entry methods, under any schedule: no race on a mutable field -/
theorem discipline_no_race {prog : Program} {pub ctors : List String} {fuel : Nat}
    (hd : disciplineOk prog pub ctors fuel = true) (calls : List (List String))
    (hc : ∀ ms ∈ calls, ∀ m ∈ ms, m ∈ entries prog pub) (sched : List Nat) :
    ¬ RaceAt (mutableFields prog ctors) (run (initState prog fuel calls) sched) :=
  no_race (initState_ok hd hc).1 (initState_ok hd hc).2 sched

/-- T2a for a checked program -/
theorem discipline_mutex_exclusive {prog : Program} {pub ctors : List String} {fuel : Nat}
    (hd : disciplineOk prog pub ctors fuel = true) (calls : List (List String))
    (hc : ∀ ms ∈ calls, ∀ m ∈ ms, m ∈ entries prog pub) (sched : List Nat)
    {i j : Nat} {ti tj : Thread}
    (hi : (run (initState prog fuel calls) sched).threads[i]? = some ti)
    (hj : (run (initState prog fuel calls) sched).threads[j]? = some tj)
    (hhi : ti.holding = true) (hhj : tj.holding = true) : i = j :=
  mutex_exclusive (mf := mutableFields prog ctors) (initState_ok hd hc).1 (initState_ok hd hc).2
    sched hi hj hhi hhj

/-- T2b for a checked program -/
theorem discipline_sections_contiguous {prog : Program} {pub ctors : List String} {fuel : Nat}
    (hd : disciplineOk prog pub ctors fuel = true) (calls : List (List String))
    (hc : ∀ ms ∈ calls, ∀ m ∈ ms, m ∈ entries prog pub) (sched : List Nat)
    {i : Nat} {pre mid rest : List (Nat × Step)}
    (htr : trace (initState prog fuel calls) sched = pre ++ (i, Step.acq) :: (mid ++ rest))
    (hnorel : (i, Step.rel) ∉ mid) :
    ∀ p ∈ mid, p.1 ≠ i → Harmless (mutableFields prog ctors) p.2 :=
  critical_sections_contiguous (initState_ok hd hc).1 (initState_ok hd hc).2 sched htr hnorel

end Modbus.Locking
