import ModbusVerif.Lemmas.GoEvalLemmas
import ModbusVerif.Lemmas.StreamLemmas
/-
  Running a generated frame reader (`Gen.gs_tcpTransport_readMBAPFrame`,
  `Gen.gs_rtuTransport_readRTUFrame`) against a BYTE STREAM.

  `GoEval.Oracle` is stateless (`callee → argument values → results`), a stream is not. The
  stream is threaded through the run by STAGING (`staged`):

    stage k   run the function from the start with the oracle `readOracle pure ans`, where `ans`
              holds the answers to the first k `io.ReadFull` calls, keyed by the VALUE of the
              buffer argument (the readers pass a different buffer expression to each read, and
              every such leaf is bound to the symbol of its own source text); any other
              `io.ReadFull` is unanswered, so the run ends or STOPS at the (k+1)-th read
              (`End.stoppedAt "io.ReadFull" [conn, buf]`);
    next      `nextRead`: the length of that buffer is computed by the reader-specific `bufLen`
              FROM THE ENVIRONMENT AT THE STOP (e.g. the current value of `bytesNeeded`), the
              answer is `Strm.readFull n rest e` on the still unread part of the stream; the
              bytes read are stored in the heap (`(buffer, n, bytes)`), from which the next
              stage's environment derives the leaves that read the buffer (`rxbuf[6]`, …);
    stage k+1 runs again from the start with k+1 answers. `execFrom` is a function: up to
              the (k+1)-th read it does exactly what stage k did.

  Nothing about the requested lengths or the order of the reads is assumed: both are read off
  the run. `Run.rest` is the unread remainder of the stream.

  Also here: `execFrom_loopFree` (a loop-free statement never runs out of fuel once the fuel
  exceeds its depth), so that the theorems hold for every sufficiently large fuel.
-/
set_option linter.unusedSimpArgs false
set_option linter.unusedVariables false

namespace Modbus.GoEval
open Modbus Modbus.Gen Modbus.Strm

/-! ### fuel of loop-free statements -/

def depth : GStmt → Nat
  | .seq a b => max (depth a) (depth b) + 1
  | .ite _ t e => max (depth t) (depth e) + 1
  | .loop b => depth b + 1
  | _ => 1

def loopFree : GStmt → Bool
  | .seq a b => loopFree a && loopFree b
  | .ite _ t e => loopFree t && loopFree e
  | .loop _ => false
  | _ => true

theorem depth_pos (s : GStmt) : 1 ≤ depth s := by
  cases s <;> simp [depth]

theorem execFrom_loopFree (o : Oracle) : ∀ (s : GStmt) (n : Nat) (env : Env) (cs : Calls),
    loopFree s = true → depth s ≤ n → (execFrom o n s env cs).how ≠ .outOfFuel := by
  intro s
  induction s with
  | seq a b iha ihb =>
    intro n env cs hl hd
    simp only [loopFree, Bool.and_eq_true] at hl
    simp only [depth] at hd
    obtain ⟨m, rfl⟩ : ∃ m, n = m + 1 := ⟨n - 1, by omega⟩
    rw [execFrom_seq]
    have h1 := iha m env cs hl.1 (by omega)
    generalize execFrom o m a env cs = r at h1
    obtain ⟨e', hw, c'⟩ := r
    cases hw with
    | fell => exact ihb m e' c' hl.2 (by omega)
    | outOfFuel => exact absurd rfl h1
    | _ => exact fun h => nomatch h
  | ite c t e iht ihe =>
    intro n env cs hl hd
    simp only [loopFree, Bool.and_eq_true] at hl
    simp only [depth] at hd
    obtain ⟨m, rfl⟩ : ∃ m, n = m + 1 := ⟨n - 1, by omega⟩
    rw [execFrom_ite]
    split
    · exact fun h => nomatch h
    · cases hc : (eval env c).truth with
      | none => exact fun h => nomatch h
      | some bb =>
        cases bb with
        | true => exact iht m env cs hl.1 (by omega)
        | false => exact ihe m env cs hl.2 (by omega)
  | loop b _ => intro n env cs hl; simp [loopFree] at hl
  | skip =>
    intro n env cs _ hd
    obtain ⟨m, rfl⟩ : ∃ m, n = m + 1 := ⟨n - 1, by simp only [depth] at hd; omega⟩
    exact fun h => nomatch h
  | ret =>
    intro n env cs _ hd
    obtain ⟨m, rfl⟩ : ∃ m, n = m + 1 := ⟨n - 1, by simp only [depth] at hd; omega⟩
    exact fun h => nomatch h
  | brk =>
    intro n env cs _ hd
    obtain ⟨m, rfl⟩ : ∃ m, n = m + 1 := ⟨n - 1, by simp only [depth] at hd; omega⟩
    exact fun h => nomatch h
  | cont =>
    intro n env cs _ hd
    obtain ⟨m, rfl⟩ : ∃ m, n = m + 1 := ⟨n - 1, by simp only [depth] at hd; omega⟩
    exact fun h => nomatch h
  | «opaque» t =>
    intro n env cs _ hd
    obtain ⟨m, rfl⟩ : ∃ m, n = m + 1 := ⟨n - 1, by simp only [depth] at hd; omega⟩
    exact fun h => nomatch h
  | assign x e =>
    intro n env cs _ hd
    obtain ⟨m, rfl⟩ : ∃ m, n = m + 1 := ⟨n - 1, by simp only [depth] at hd; omega⟩
    rw [execFrom_assign]; split <;> exact fun h => nomatch h
  | bindCall ts f as =>
    intro n env cs _ hd
    obtain ⟨m, rfl⟩ : ∃ m, n = m + 1 := ⟨n - 1, by simp only [depth] at hd; omega⟩
    rw [execFrom_bindCall]
    split
    · exact fun h => nomatch h
    · cases o f (List.map (eval env) as) <;> exact fun h => nomatch h

/-- a loop-free statement gives the same run for every fuel ≥ its depth -/
theorem exec_loopFree (o : Oracle) (s : GStmt) (n m : Nat) (env : Env)
    (hl : loopFree s = true) (hd : depth s ≤ n) (hm : n ≤ m) :
    exec o m s env = exec o n s env :=
  exec_mono o n m s env hm (execFrom_loopFree o s n env [] hl hd)

/-! ### `io.ReadFull` results as values -/

/-- the symbol of an error value. The four i/o errors are values of other packages (`io.EOF`,
    `io.ErrUnexpectedEOF`, a timeout `net.Error`, any other error); they are pairwise distinct
    and distinct from `nil` and from the package's `Err…` constants, so comparing by name is
    sound. -/
def errSym : Err → String
  | .ioEOF => "io.EOF"
  | .ioUnexpectedEOF => "io.ErrUnexpectedEOF"
  | .ioTimeout => "net.timeout"
  | .ioOther => "net.other"
  | e => e.name

theorem errSym_ioEOF : errSym .ioEOF = "io.EOF" := by exact id rfl
theorem errSym_ioUnexpectedEOF : errSym .ioUnexpectedEOF = "io.ErrUnexpectedEOF" := by exact id rfl
theorem errSym_ioTimeout : errSym .ioTimeout = "net.timeout" := by exact id rfl
theorem errSym_ioOther : errSym .ioOther = "net.other" := by exact id rfl
theorem errSym_protocolError : errSym .protocolError = "ErrProtocolError" := by exact id rfl
theorem errSym_unknownProtocolId : errSym .unknownProtocolId = "ErrUnknownProtocolId" := by
  exact id rfl
theorem errSym_shortFrame : errSym .shortFrame = "ErrShortFrame" := by exact id rfl
theorem errSym_badCRC : errSym .badCRC = "ErrBadCRC" := by exact id rfl

/-- the errors a frame reader can return, back from their symbols -/
def symErr (s : String) : Option Err :=
  if s = "io.EOF" then some .ioEOF
  else if s = "io.ErrUnexpectedEOF" then some .ioUnexpectedEOF
  else if s = "net.timeout" then some .ioTimeout
  else if s = "net.other" then some .ioOther
  else if s = "ErrProtocolError" then some .protocolError
  else if s = "ErrUnknownProtocolId" then some .unknownProtocolId
  else if s = "ErrShortFrame" then some .shortFrame
  else if s = "ErrBadCRC" then some .badCRC
  else none

def _root_.Modbus.Strm.RF.got : RF → Bytes
  | .ok bs _ => bs
  | .short g _ => g
def _root_.Modbus.Strm.RF.rest : RF → Bytes
  | .ok _ r => r
  | .short _ _ => []
/-- `(n, err)` as returned by `io.ReadFull` -/
def rfVals : RF → List Val
  | .ok bs _ => [.int bs.length, .sym "nil"]
  | .short g err => [.int g.length, .sym (errSym err)]

theorem RF_got_ok (bs r) : (RF.ok bs r).got = bs := by exact id rfl
theorem RF_got_short (g err) : (RF.short g err).got = g := by exact id rfl
theorem RF_rest_ok (bs r) : (RF.ok bs r).rest = r := by exact id rfl
theorem RF_rest_short (g err) : (RF.short g err).rest = [] := by exact id rfl
theorem rfVals_ok (bs r) : rfVals (.ok bs r) = [.int bs.length, .sym "nil"] := by exact id rfl
theorem rfVals_short (g err) : rfVals (.short g err) = [.int g.length, .sym (errSym err)] := by
  exact id rfl

/-! ### answers, heap, the read oracle -/

/-- answers to the reads performed so far, keyed by the value of the buffer argument -/
abbrev Answers := List (Val × List Val)
/-- buffers filled so far: (buffer value, requested length, bytes stored) -/
abbrev Heap := List (Val × Nat × Bytes)

def ansLookup : Answers → Val → Option (List Val)
  | [], _ => none
  | (b, r) :: t, x => if b = x then some r else ansLookup t x

def heapGet : Heap → Val → Bytes
  | [], _ => []
  | (b, _, bs) :: t, x => if b = x then bs else heapGet t x
def heapLen : Heap → Val → Nat
  | [], _ => 0
  | (b, n, _) :: t, x => if b = x then n else heapLen t x

theorem ansLookup_nil (x) : ansLookup [] x = none := by exact id rfl
theorem ansLookup_cons (b r t x) :
    ansLookup ((b, r) :: t) x = if b = x then some r else ansLookup t x := by exact id rfl
theorem heapGet_nil (x) : heapGet [] x = [] := by exact id rfl
theorem heapGet_cons (b n bs t x) :
    heapGet ((b, n, bs) :: t) x = if b = x then bs else heapGet t x := by exact id rfl
theorem heapLen_nil (x) : heapLen [] x = 0 := by exact id rfl
theorem heapLen_cons (b n bs t x) :
    heapLen ((b, n, bs) :: t) x = if b = x then n else heapLen t x := by exact id rfl

/-- `io.ReadFull(conn, buf)` is answered from `ans` by the value of `buf` (unanswered: the run
    stops there); every other call goes to `pure` -/
def readOracle (pure : Oracle) (ans : Answers) : Oracle := fun f args =>
  if f = "io.ReadFull" then ansLookup ans (args.getD 1 .unk) else pure f args

/-! ### staging -/

structure Run where
  res  : Res       -- the final run
  rest : Bytes     -- unread remainder of the stream
  heap : Heap      -- the buffers filled
  deriving Repr

/-- the read at which a run stopped: buffer value and its length, by `bufLen` in the
    environment at the stop -/
def nextRead (bufLen : Env → Val → Option Nat) (r : Res) : Option (Val × Nat) :=
  match r.how with
  | .stoppedAt f args =>
    if f = "io.ReadFull" then
      (bufLen r.env (args.getD 1 .unk)).map (fun n => (args.getD 1 .unk, n))
    else none
  | _ => none

theorem nextRead_stopped (bl env f args cs) :
    nextRead bl ⟨env, .stoppedAt f args, cs⟩ =
      if f = "io.ReadFull" then (bl env (args.getD 1 .unk)).map (fun n => (args.getD 1 .unk, n))
      else none := by exact id rfl
theorem nextRead_returned (bl env cs) : nextRead bl ⟨env, .returned, cs⟩ = none := by exact id rfl
theorem nextRead_stuck (bl env t cs) : nextRead bl ⟨env, .stuckAt t, cs⟩ = none := by exact id rfl
theorem nextRead_fell (bl env cs) : nextRead bl ⟨env, .fell, cs⟩ = none := by exact id rfl
theorem nextRead_ite (bl) (p : Prop) [Decidable p] (x y : Res) :
    nextRead bl (if p then x else y) = if p then nextRead bl x else nextRead bl y := by
  split <;> exact id rfl

/-- `staged stage bufLen e k heap ans rest`: at most `k` further reads. `stage heap ans` is the
    run of the function with the leaves derived from `heap` and the reads in `ans` answered. -/
def staged (stage : Heap → Answers → Res) (bufLen : Env → Val → Option Nat) (e : Ending) :
    Nat → Heap → Answers → Bytes → Run
  | 0, heap, ans, rest => ⟨stage heap ans, rest, heap⟩
  | k + 1, heap, ans, rest =>
    match nextRead bufLen (stage heap ans) with
    | none => ⟨stage heap ans, rest, heap⟩
    | some (b, n) =>
      staged stage bufLen e k ((b, n, (readFull n rest e).got) :: heap)
        (ans ++ [(b, rfVals (readFull n rest e))]) (readFull n rest e).rest

theorem staged_zero (stage bl e heap ans rest) :
    staged stage bl e 0 heap ans rest = ⟨stage heap ans, rest, heap⟩ := by exact id rfl
theorem staged_done (stage bl e k heap ans rest) (h : nextRead bl (stage heap ans) = none) :
    staged stage bl e (k + 1) heap ans rest = ⟨stage heap ans, rest, heap⟩ := by
  simp only [staged, h]
theorem staged_next (stage bl e k heap ans rest b n)
    (h : nextRead bl (stage heap ans) = some (b, n)) :
    staged stage bl e (k + 1) heap ans rest =
      staged stage bl e k ((b, n, (readFull n rest e).got) :: heap)
        (ans ++ [(b, rfVals (readFull n rest e))]) (readFull n rest e).rest := by
  simp only [staged, h]

/-! ### bytes -/

theorem byte_toNat_lt (b : Byte) : b.toNat < 256 := b.isLt
theorem u16_toNat_lt (b : U16) : b.toNat < 65536 := b.isLt
theorem byteOfNat_toNat (b : Byte) : byteOfNat b.toNat = b := by simp [byteOfNat]
theorem u16OfNat_toNat' (v : U16) : u16OfNat v.toNat = v := by simp [u16OfNat]
theorem wrap_u8_byte (b : Byte) : wrap .u8 (b.toNat : Int) = (b.toNat : Int) :=
  wrap_u8 (by omega) (by have := b.isLt; omega)
theorem wrap_int_byte (b : Byte) : wrap .int (b.toNat : Int) = (b.toNat : Int) :=
  wrap_int (by omega) (by have := b.isLt; omega)
theorem wrap_int_u16 (b : U16) : wrap .int (b.toNat : Int) = (b.toNat : Int) :=
  wrap_int (by omega) (by have := b.isLt; omega)

/-- the four errors of a short read -/
theorem shortErr_cases (n : Nat) (e : Ending) :
    shortErr n e = .ioTimeout ∨ shortErr n e = .ioEOF ∨ shortErr n e = .ioUnexpectedEOF ∨
      shortErr n e = .ioOther := by
  unfold shortErr
  cases e <;> split <;> simp [Ending.err]

end Modbus.GoEval
