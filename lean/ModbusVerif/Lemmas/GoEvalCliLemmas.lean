import ModbusVerif.Lemmas.GoEvalLemmas
import ModbusVerif.Model.Cli
/-
  Support for `Props/C20Src.lean`: the generated terms of cmd/modbus-cli.go (`Gen.gs_cli_main`,
  `Gen.gs_cli_parse…`) cut into the parts the property talks about, the environment / oracle of ONE
  round of the argument loop, and the observation made on a run.

  1. GENERIC. Accessors (`sA`, `sB`, `lB`, `iT`, `iE`, `iC`, `nthS`, `spine`), `callees`, and two
     facts about EVERY run of a statement, for every oracle, environment and fuel:
     `calls_within` (the calls a run performs are calls of `bindCall` nodes of the statement) and
     `stopped_within` (so is the call at which a run is cut).
  2. DECOMPOSITION of `gs_cli_main` (accessors applied to the generated term; nothing is copied):
     top-level statement 24 is the argument loop (`argLoopStmt`), its round is `argRound`
     (`arg := flag.Args()[#i]`; body; `#i++`), the body `argBody` is

        splitArgs ← var []string; o ← var operation; splitArgs ← strings.Split(arg, ":")
        if len(splitArgs) < 2 && splitArgs[0] != "repeat" && splitArgs[0] != "date" { Printf; os.Exit(2) }
        switch splitArgs[0] { 11 arms }            -- `argSwitch`, arms `armRcRdi` … `armDefault`
        runList = append(runList, o)

     (`arg_frame`, by `rfl`).
  3. ENVIRONMENT of one round (`startEnv arg len p0 p1 p2 p3`; `roundEnv arg parts` for a list of
     parts): the leaves `len(splitArgs)`, `splitArgs[0..3]` (a part that does not exist is `unk`:
     reading it would be the Go panic), `nil`, `arg`, the two opaque leaves of the body
     (`append(runList, o)`, `[]byte(splitArgs[3])`), and every STRING LITERAL leaf the round
     compares with, bound to the symbol of its content (`litEnv`; `litEnv_honest`: key = quoted
     value, no escapes). No `o.*` leaf is bound: `o` is a fresh record (marker `o ← var operation`
     at the head of the body, Props/C20Src `C20S_fresh_record`).
  4. ORACLE (`cliOracle`): the parse helpers answer what the MODEL's functions say
     (`Cli.parseAddressAndQuantityE`, `parseUint16E`, … `parseDurationE`) for the text of their
     ONE string argument (`paqAns`, `u16Ans`, …: value(s) and `"nil"` / `"error"`); the two `var`
     markers answer a fresh value; `strings.Split` answers only for the separator ":";
     `fmt.Printf` is performed; `os.Exit` — and every other callee — is undefined (the run is cut
     there: the process ends).
  5. OBSERVATION `RVerdict` (`rverdict`): `refused code` (cut at `os.Exit(code)`) | `accepted o`
     (fell through with `runList` assigned `append(runList, o)`; `o : ORec` = the newest binding of
     every `o.<field>` leaf, `none` = never assigned = zero value) | `other`. `runV` = the verdict
     of a round on explicit leaves, fuel 60. Tactic `cli_round [arm, …]`.
-/
set_option linter.unusedSimpArgs false
set_option linter.unusedVariables false

namespace Modbus.GoEval.CliSrc
open Modbus Modbus.Gen Modbus.GoEval

/-! ### 1. generic: accessors -/

def sA : GStmt → GStmt | .seq a _ => a | s => s
def sB : GStmt → GStmt | .seq _ b => b | s => s
def lB : GStmt → GStmt | .loop b => b | s => s
def iT : GStmt → GStmt | .ite _ t _ => t | s => s
def iE : GStmt → GStmt | .ite _ _ e => e | s => s
def iC : GStmt → GExpr | .ite c _ _ => c | _ => .lit 0 .bool

/-- drop the first `k` statements of a right-nested sequence -/
def sBn : Nat → GStmt → GStmt
  | 0, s => s
  | k + 1, s => sBn k (sB s)

/-- the `k`-th statement of a right-nested sequence `s0; (s1; (s2; …))` (not the last one) -/
def nthS (k : Nat) (s : GStmt) : GStmt := sA (sBn k s)

/-- the statements of a right-nested sequence -/
def spine : GStmt → List GStmt
  | .seq a b => a :: spine b
  | s => [s]

/-- callee names of all `bindCall` nodes, program order, all paths -/
def callees (s : GStmt) : List String := (bindCalls s).map (·.2.1)

theorem callees_seq (a b) : callees (.seq a b) = callees a ++ callees b := by
  simp [callees, bindCalls]
theorem callees_ite (c t e) : callees (.ite c t e) = callees t ++ callees e := by
  simp [callees, bindCalls]
theorem callees_loop (b) : callees (.loop b) = callees b := by simp [callees, bindCalls]
theorem callees_bindCall (ts f as) : callees (.bindCall ts f as) = [f] := by
  simp [callees, bindCalls]

/-! ### 1b. generic: every call of a run is a call of the term -/

/-- EVERY run (any oracle, fuel, environment, history): the log grows by calls whose callee is
    the callee of a `bindCall` node of the statement -/
theorem calls_within (o : Oracle) : ∀ (n : Nat) (s : GStmt) (env : Env) (cs : Calls),
    ∃ l, (execFrom o n s env cs).calls = cs ++ l ∧ ∀ c ∈ l, c.1 ∈ callees s := by
  intro n
  induction n with
  | zero => intro s env cs; exact ⟨[], by rw [execFrom_zero]; simp, by simp⟩
  | succ n ih =>
    intro s env cs
    cases s with
    | skip => exact ⟨[], by rw [execFrom_skip]; simp, by simp⟩
    | ret => exact ⟨[], by rw [execFrom_ret]; simp, by simp⟩
    | brk => exact ⟨[], by rw [execFrom_brk]; simp, by simp⟩
    | cont => exact ⟨[], by rw [execFrom_cont]; simp, by simp⟩
    | «opaque» t => exact ⟨[], by rw [execFrom_opaque]; simp, by simp⟩
    | assign x e =>
      refine ⟨[], ?_, by simp⟩
      rw [execFrom_assign]; split <;> simp
    | bindCall ts f as =>
      rw [execFrom_bindCall]
      split
      · exact ⟨[], by simp, by simp⟩
      · cases o f (as.map (eval env)) with
        | none => exact ⟨[], by rw [callK_none]; simp, by simp⟩
        | some rs =>
          refine ⟨[(f, as.map (eval env))], by rw [callK_some], ?_⟩
          intro c hc
          rw [callees_bindCall]
          simp only [List.mem_singleton] at hc ⊢
          rw [hc]
    | seq a b =>
      rw [execFrom_seq]
      obtain ⟨l1, h1, m1⟩ := ih a env cs
      generalize execFrom o n a env cs = r at h1
      obtain ⟨e, hw, c⟩ := r
      simp only at h1
      cases hw with
      | fell =>
        rw [seqK_fell]
        obtain ⟨l2, h2, m2⟩ := ih b e c
        refine ⟨l1 ++ l2, by rw [h2, h1, List.append_assoc], ?_⟩
        intro x hx
        rw [callees_seq]
        rcases List.mem_append.mp hx with hx | hx
        · exact List.mem_append_left _ (m1 x hx)
        · exact List.mem_append_right _ (m2 x hx)
      | _ =>
        refine ⟨l1, h1, ?_⟩
        intro x hx
        rw [callees_seq]
        exact List.mem_append_left _ (m1 x hx)
    | ite c t e =>
      rw [execFrom_ite]
      split
      · exact ⟨[], by simp, by simp⟩
      · cases (eval env c).truth with
        | none => exact ⟨[], by rw [iteK_none]; simp, by simp⟩
        | some bb =>
          cases bb with
          | true =>
            rw [iteK_true]
            obtain ⟨l, h, m⟩ := ih t env cs
            exact ⟨l, h, fun x hx => by rw [callees_ite]; exact List.mem_append_left _ (m x hx)⟩
          | false =>
            rw [iteK_false]
            obtain ⟨l, h, m⟩ := ih e env cs
            exact ⟨l, h, fun x hx => by rw [callees_ite]; exact List.mem_append_right _ (m x hx)⟩
    | loop body =>
      rw [execFrom_loop]
      obtain ⟨l1, h1, m1⟩ := ih body env cs
      generalize execFrom o n body env cs = r at h1
      obtain ⟨e, hw, c⟩ := r
      simp only at h1
      have again : ∃ l, (execFrom o n (.loop body) e c).calls = cs ++ l ∧
          ∀ x ∈ l, x.1 ∈ callees (.loop body) := by
        obtain ⟨l2, h2, m2⟩ := ih (.loop body) e c
        refine ⟨l1 ++ l2, by rw [h2, h1, List.append_assoc], ?_⟩
        intro x hx
        rcases List.mem_append.mp hx with hx | hx
        · rw [callees_loop]; exact m1 x hx
        · exact m2 x hx
      have same : ∀ x ∈ l1, x.1 ∈ callees (.loop body) := fun x hx => by
        rw [callees_loop]; exact m1 x hx
      cases hw with
      | fell => rw [loopK_fell]; exact again
      | continued => rw [loopK_continued]; exact again
      | broke => rw [loopK_broke]; exact ⟨l1, h1, same⟩
      | returned => rw [loopK_returned]; exact ⟨l1, h1, same⟩
      | stuckAt t => rw [loopK_stuck]; exact ⟨l1, h1, same⟩
      | stoppedAt f vs => rw [loopK_stopped]; exact ⟨l1, h1, same⟩
      | outOfFuel => rw [loopK_oof]; exact ⟨l1, h1, same⟩

/-- EVERY run: a run that is cut at a call (`stoppedAt f _`) is cut at a `bindCall` node of the
    statement -/
theorem stopped_within (o : Oracle) : ∀ (n : Nat) (s : GStmt) (env : Env) (cs : Calls) (f : String)
    (vs : List Val), (execFrom o n s env cs).how = .stoppedAt f vs → f ∈ callees s := by
  intro n
  induction n with
  | zero => intro s env cs f vs h; rw [execFrom_zero] at h; cases h
  | succ n ih =>
    intro s env cs f vs h
    cases s with
    | skip => rw [execFrom_skip] at h; cases h
    | ret => rw [execFrom_ret] at h; cases h
    | brk => rw [execFrom_brk] at h; cases h
    | cont => rw [execFrom_cont] at h; cases h
    | «opaque» t => rw [execFrom_opaque] at h; cases h
    | assign x e =>
      rw [execFrom_assign] at h
      split at h <;> cases h
    | bindCall ts g as =>
      rw [execFrom_bindCall] at h
      split at h
      · cases h
      · cases ho : o g (as.map (eval env)) with
        | none =>
          rw [ho, callK_none] at h
          simp only [End.stoppedAt.injEq] at h
          rw [callees_bindCall, ← h.1]; simp
        | some rs => rw [ho, callK_some] at h; cases h
    | seq a b =>
      rw [execFrom_seq] at h
      have ha := ih a env cs f vs
      generalize execFrom o n a env cs = r at h ha
      obtain ⟨e, hw, c⟩ := r
      rw [callees_seq]
      cases hw with
      | fell => rw [seqK_fell] at h; exact List.mem_append_right _ (ih b e c f vs h)
      | stoppedAt g ws =>
        rw [seqK_stopped] at h
        exact List.mem_append_left _ (ha h)
      | returned => rw [seqK_returned] at h; cases h
      | broke => rw [seqK_broke] at h; cases h
      | continued => rw [seqK_continued] at h; cases h
      | stuckAt t => rw [seqK_stuck] at h; cases h
      | outOfFuel => rw [seqK_oof] at h; cases h
    | ite c t e =>
      rw [execFrom_ite] at h
      rw [callees_ite]
      split at h
      · cases h
      · cases hc : (eval env c).truth with
        | none => rw [hc, iteK_none] at h; cases h
        | some bb =>
          cases bb with
          | true => rw [hc, iteK_true] at h; exact List.mem_append_left _ (ih t env cs f vs h)
          | false => rw [hc, iteK_false] at h; exact List.mem_append_right _ (ih e env cs f vs h)
    | loop body =>
      rw [execFrom_loop] at h
      have hb := ih body env cs f vs
      generalize execFrom o n body env cs = r at h hb
      obtain ⟨e, hw, c⟩ := r
      cases hw with
      | fell => rw [loopK_fell] at h; exact ih (.loop body) e c f vs h
      | continued => rw [loopK_continued] at h; exact ih (.loop body) e c f vs h
      | stoppedAt g ws =>
        rw [loopK_stopped] at h
        rw [callees_loop]; exact hb h
      | broke => rw [loopK_broke] at h; cases h
      | returned => rw [loopK_returned] at h; cases h
      | stuckAt t => rw [loopK_stuck] at h; cases h
      | outOfFuel => rw [loopK_oof] at h; cases h

/-! ### 2. decomposition of `gs_cli_main` -/

/-- top-level statement 24 of `main`: `#len := len(flag.Args()); #i := 0; for #i < #len { … }` -/
def argLoopStmt : GStmt := nthS 24 gs_cli_main
/-- the counted loop itself -/
def argLoop : GStmt := sBn 2 argLoopStmt
/-- one round: `arg := flag.Args()[#i]; body; #i++` -/
def argRound : GStmt := iT (lB argLoop)
/-- the body of `for _, arg := range flag.Args()` -/
def argBody : GStmt := sA (sB argRound)
/-- the `switch splitArgs[0]` (nested `ite`) -/
def argSwitch : GStmt := sA (lB (nthS 4 argBody))
def armRcRdi : GStmt := iT argSwitch
def armRhRi : GStmt := iT (iE argSwitch)
def armWc : GStmt := iT (iE (iE argSwitch))
def armWr : GStmt := iT (iE (iE (iE argSwitch)))
def armSleep : GStmt := iT (iE (iE (iE (iE argSwitch))))
def armSid : GStmt := iT (iE (iE (iE (iE (iE argSwitch)))))
def armRepeat : GStmt := iT (iE (iE (iE (iE (iE (iE argSwitch))))))
def armDate : GStmt := iT (iE (iE (iE (iE (iE (iE (iE argSwitch)))))))
def armScan : GStmt := iT (iE (iE (iE (iE (iE (iE (iE (iE argSwitch))))))))
def armPing : GStmt := iT (iE (iE (iE (iE (iE (iE (iE (iE (iE argSwitch)))))))))
def armDefault : GStmt := iE (iE (iE (iE (iE (iE (iE (iE (iE (iE argSwitch)))))))))

/-- `splitArgs[0] == "<n>"` -/
def nameIs (n : String) : GExpr :=
  .cmp "==" (.var "splitArgs[0]" .other) (.call ("\"" ++ n ++ "\"") .other)
/-- `splitArgs[0] != "<n>"` -/
def nameIsNot (n : String) : GExpr :=
  .cmp "!=" (.var "splitArgs[0]" .other) (.call ("\"" ++ n ++ "\"") .other)

/-- the `case` list `a, b, c` of a tagged switch: `tag == a || (tag == b || tag == c)` -/
def anyName : List String → GExpr
  | [] => .lit 0 .bool
  | [n] => nameIs n
  | n :: ns => .or (nameIs n) (anyName ns)

/-- `fmt.Printf(<format>, …); os.Exit(2)` with the format text `fmtText` -/
def isRefusal (fmtText : String) : GStmt → Bool
  | .seq (.bindCall [] "fmt.Printf" (.call t .other :: _)) (.bindCall [] "os.Exit" [.lit 2 .int]) => t == fmtText
  | .seq (.bindCall [] "fmt.Printf" (.bin "+" .other (.call t .other) (.call _ .other) :: _))
      (.bindCall [] "os.Exit" [.lit 2 .int]) => t == fmtText
  | _ => false

/-- the skeleton of the loop body around the eleven arms of the `switch` -/
def bodyFrame (illegal aRc aRh aWc aWr aSleep aSid aRepeat aDate aScan aPing aDef : GStmt) : GStmt :=
  .seq (.bindCall ["splitArgs"] "var []string" [])
  (.seq (.bindCall ["o"] "var operation" [])
  (.seq (.bindCall ["splitArgs"] "strings.Split" [.var "arg" .other, .call "\":\"" .other])
  (.seq (.ite (.and (.and (.cmp "<" (.var "len(splitArgs)" .int) (.lit 2 .int)) (nameIsNot "repeat"))
                (nameIsNot "date")) illegal .skip)
  (.seq (.loop (.seq
      (.ite (anyName ["rc", "readCoil", "readCoils", "rdi", "readDiscreteInput", "readDiscreteInputs"]) aRc
      (.ite (anyName ["rh", "readHoldingRegister", "readHoldingRegisters", "ri", "readInputRegister",
                      "readInputRegisters"]) aRh
      (.ite (anyName ["wc", "writeCoil"]) aWc
      (.ite (anyName ["wr", "writeRegister"]) aWr
      (.ite (anyName ["sleep"]) aSleep
      (.ite (anyName ["suid", "setUnitId", "sid"]) aSid
      (.ite (anyName ["repeat"]) aRepeat
      (.ite (anyName ["date"]) aDate
      (.ite (anyName ["scan"]) aScan
      (.ite (anyName ["ping"]) aPing aDef)))))))))) .brk))
  (.assign "runList" (.call "append(runList, o)" .other))))))

/-- the refusal statement of the `len(splitArgs) < 2` test -/
def illegalStmt : GStmt := iT (nthS 3 argBody)

set_option maxRecDepth 100000 in
/-- the loop body of the generated term IS this skeleton around its arms -/
theorem arg_frame : argBody =
    bodyFrame illegalStmt armRcRdi armRhRi armWc armWr armSleep armSid armRepeat armDate armScan
      armPing armDefault := by rfl

set_option maxRecDepth 100000 in
/-- the argument loop of the generated term around its body: a counted loop over `flag.Args()`
    that binds `arg` to the `#i`-th argument at the head of every round -/
theorem argLoop_frame : argLoopStmt =
    .seq (.assign "#len(flag.Args())" (.var "len(flag.Args())" .int))
    (.seq (.assign "#i" (.lit 0 .int))
    (.loop (.ite (.cmp "<" (.var "#i" .int) (.var "#len(flag.Args())" .int))
      (.seq (.assign "arg" (.var "flag.Args()[#i]" .other))
      (.seq argBody
        (.assign "#i" (.bin "+" .int (.var "#i" .int) (.lit 1 .int))))) .brk))) := by rfl

/-! ### 3. environment of one round -/

/-- the string literals the loop body compares with (content, without the quotes) -/
def litNames : List String :=
  [":", "repeat", "date",
   "rc", "readCoil", "readCoils", "rdi", "readDiscreteInput", "readDiscreteInputs",
   "rh", "readHoldingRegister", "readHoldingRegisters", "ri", "readInputRegister", "readInputRegisters",
   "wc", "writeCoil", "wr", "writeRegister", "sleep", "suid", "setUnitId", "sid", "scan", "ping",
   "uint16", "int16", "uint32", "int32", "float32", "uint64", "int64", "float64", "bytes", "string",
   "true", "false",
   "c", "coils", "di", "discreteInputs", "h", "hr", "holding", "holdingRegisters", "i", "ir", "input",
   "inputRegisters", "s"]

/-- a Go string literal leaf `"<n>"` denotes the string `n` -/
def litEnv : Env := litNames.map (fun n => ("\"" ++ n ++ "\"", .sym n))

/-- every key of `litEnv` is its value between double quotes, and no literal needs an escape -/
theorem litEnv_honest :
    litEnv.all (fun p => match p.2 with
      | .sym v => p.1 == "\"" ++ v ++ "\"" && !(v.toList.contains '"') && !(v.toList.contains '\\')
      | _ => false) = true := by decide +kernel

/-- the environment at the head of a round. `len` = `len(splitArgs)`, `p0 … p3` = the parts (`unk` for
    a part that does not exist); `nil`; the literals; the two opaque leaves of the body; and NO
    `o.*` leaf: `o` is a fresh record (`o ← var operation`). -/
def startEnv (arg : String) (len : Int) (p0 p1 p2 p3 : Val) : Env :=
  ("len(splitArgs)", .int len) :: ("splitArgs[0]", p0) :: ("splitArgs[1]", p1) :: ("splitArgs[2]", p2) ::
  ("splitArgs[3]", p3) :: ("nil", .sym "nil") :: ("arg", .sym arg) ::
  ("append(runList, o)", .sym "append(runList, o)") ::
  ("[]byte(splitArgs[3])", .sym "[]byte(splitArgs[3])") :: litEnv

/-- the `k`-th part as a value -/
def partVal (parts : List String) (k : Nat) : Val :=
  match parts[k]? with
  | some s => .sym s
  | none => .unk

/-- the environment of the round for the argument `arg` split into `parts` -/
def roundEnv (arg : String) (parts : List String) : Env :=
  startEnv arg parts.length (partVal parts 0) (partVal parts 1) (partVal parts 2) (partVal parts 3)

theorem roundEnv_1 (arg p0) : roundEnv arg [p0] = startEnv arg 1 (.sym p0) .unk .unk .unk := by rfl
theorem roundEnv_2 (arg p0 p1) : roundEnv arg [p0, p1] = startEnv arg 2 (.sym p0) (.sym p1) .unk .unk := by rfl
theorem roundEnv_3 (arg p0 p1 p2) :
    roundEnv arg [p0, p1, p2] = startEnv arg 3 (.sym p0) (.sym p1) (.sym p2) .unk := by rfl
theorem roundEnv_4 (arg p0 p1 p2 p3) :
    roundEnv arg [p0, p1, p2, p3] = startEnv arg 4 (.sym p0) (.sym p1) (.sym p2) (.sym p3) := by rfl
theorem roundEnv_5 (arg p0 p1 p2 p3 p4 rest) :
    roundEnv arg (p0 :: p1 :: p2 :: p3 :: p4 :: rest) =
      startEnv arg ((rest.length : Int) + 5) (.sym p0) (.sym p1) (.sym p2) (.sym p3) := by
  simp only [roundEnv, partVal, List.length_cons, List.getElem?_cons_zero, List.getElem?_cons_succ]
  have e : ((rest.length + 1 + 1 + 1 + 1 + 1 : Nat) : Int) = (rest.length : Int) + 5 := by omega
  rw [e]

/-! ### 4. oracle: the parse helpers answer what the MODEL says -/

/-- answer of `parseAddressAndQuantity(t)`: addr, quantity, error ("nil" = none) -/
def paqAns (t : String) : Int × Int × String :=
  match Cli.parseAddressAndQuantityE t.toList with
  | .ok (a, q) => (a.toNat, q.toNat, "nil")
  | .error _ => (0, 0, "error")

/-- answer of a numeric parse helper: value, error -/
def numAns {n : Nat} (r : Except Cli.NumErr (BitVec n)) : Int × String :=
  match r with
  | .ok x => (x.toNat, "nil")
  | .error _ => (0, "error")

def u16Ans (t : String) : Int × String := numAns (Cli.parseUint16E t.toList)
def i16Ans (t : String) : Int × String := numAns (Cli.parseInt16E t.toList)
def u32Ans (t : String) : Int × String := numAns (Cli.parseUint32E t.toList)
def i32Ans (t : String) : Int × String := numAns (Cli.parseInt32E t.toList)
def u64Ans (t : String) : Int × String := numAns (Cli.parseUint64E t.toList)
def i64Ans (t : String) : Int × String := numAns (Cli.parseInt64E t.toList)
def uidAns (t : String) : Int × String := numAns (Cli.parseUnitIdE t.toList)
/-- floats: the model's convention (header of Model/Cli.lean): the field is a numeral of the bit
    pattern; the answer's value is that bit pattern -/
def f32Ans (t : String) : Int × String := numAns (Cli.parseUint32E t.toList)
def f64Ans (t : String) : Int × String := numAns (Cli.parseUint64E t.toList)
/-- `parseHexBytes`: an opaque slice, error -/
def hexAns (t : String) : String :=
  match Cli.parseHexBytesE t.toList with
  | .ok _ => "nil"
  | .error _ => "error"
/-- `time.ParseDuration`: an opaque duration, error -/
def durAns (t : String) : String :=
  match Cli.parseDurationE t.toList with
  | .ok _ => "nil"
  | .error _ => "error"

/-- a call with ONE string argument -/
def symArg1 (k : String → List Val) : List Val → Option (List Val)
  | [.sym t] => some (k t)
  | _ => none
theorem symArg1_def (k t) : symArg1 k [.sym t] = some (k t) := by exact id rfl

def ans2 (r : Int × String) : List Val := [.int r.1, .sym r.2]
theorem ans2_def (r) : ans2 r = [.int r.1, .sym r.2] := by exact id rfl

/-- the world of one round -/
def cliOracle : Oracle := fun f args =>
  if f = "var []string" then some [.sym "nil"]
  else if f = "var operation" then some [.sym "operation{}"]
  else if f = "strings.Split" then (if args.tail = [.sym ":"] then some [.sym "splitArgs"] else none)
  else if f = "fmt.Printf" then some []
  else if f = "parseAddressAndQuantity" then
    symArg1 (fun t => [.int (paqAns t).1, .int (paqAns t).2.1, .sym (paqAns t).2.2]) args
  else if f = "parseUint16" then symArg1 (fun t => ans2 (u16Ans t)) args
  else if f = "parseInt16" then symArg1 (fun t => ans2 (i16Ans t)) args
  else if f = "parseUint32" then symArg1 (fun t => ans2 (u32Ans t)) args
  else if f = "parseInt32" then symArg1 (fun t => ans2 (i32Ans t)) args
  else if f = "parseUint64" then symArg1 (fun t => ans2 (u64Ans t)) args
  else if f = "parseInt64" then symArg1 (fun t => ans2 (i64Ans t)) args
  else if f = "parseFloat32" then symArg1 (fun t => ans2 (f32Ans t)) args
  else if f = "parseFloat64" then symArg1 (fun t => ans2 (f64Ans t)) args
  else if f = "parseUnitId" then symArg1 (fun t => ans2 (uidAns t)) args
  else if f = "parseHexBytes" then symArg1 (fun t => [.sym "hex.DecodeString(splitArgs[3])", .sym (hexAns t)]) args
  else if f = "time.ParseDuration" then symArg1 (fun t => [.sym "time.ParseDuration(..)", .sym (durAns t)]) args
  else none

/-! ### 5. observation -/

/-- the fields of `o` (the newest binding of each `o.<field>` leaf; `none`: never assigned in this
    round = the zero value of a fresh record) -/
structure ORec where
  op : Option Val
  addr : Option Val
  quantity : Option Val
  isCoil : Option Val
  isHoldingReg : Option Val
  coil : Option Val
  u16 : Option Val
  u32 : Option Val
  u64 : Option Val
  f32 : Option Val
  f64 : Option Val
  bytes : Option Val
  unitId : Option Val
  duration : Option Val
  deriving DecidableEq, Repr

def recOf (env : Env) : ORec :=
  { op := Env.read? env "o.op", addr := Env.read? env "o.addr", quantity := Env.read? env "o.quantity",
    isCoil := Env.read? env "o.isCoil", isHoldingReg := Env.read? env "o.isHoldingReg",
    coil := Env.read? env "o.coil", u16 := Env.read? env "o.u16", u32 := Env.read? env "o.u32",
    u64 := Env.read? env "o.u64", f32 := Env.read? env "o.f32", f64 := Env.read? env "o.f64",
    bytes := Env.read? env "o.bytes", unitId := Env.read? env "o.unitId",
    duration := Env.read? env "o.duration" }

theorem recOf_def (env : Env) : recOf env =
  { op := Env.read? env "o.op", addr := Env.read? env "o.addr", quantity := Env.read? env "o.quantity",
    isCoil := Env.read? env "o.isCoil", isHoldingReg := Env.read? env "o.isHoldingReg",
    coil := Env.read? env "o.coil", u16 := Env.read? env "o.u16", u32 := Env.read? env "o.u32",
    u64 := Env.read? env "o.u64", f32 := Env.read? env "o.f32", f64 := Env.read? env "o.f64",
    bytes := Env.read? env "o.bytes", unitId := Env.read? env "o.unitId",
    duration := Env.read? env "o.duration" } := by exact id rfl

/-- what one round did -/
inductive RVerdict
  /-- cut at `os.Exit(code)`: the process ends -/
  | refused (code : Val)
  /-- fell through to the end of the body, `runList` assigned `append(runList, o)`: the record -/
  | accepted (o : ORec)
  | other
  deriving DecidableEq, Repr

def rverdict (r : Res) : RVerdict :=
  match r.how with
  | .stoppedAt f args => if f = "os.Exit" then .refused (args.headD .unk) else .other
  | .fell => if Env.read r.env "runList" = .sym "append(runList, o)" then .accepted (recOf r.env) else .other
  | _ => .other

theorem rverdict_stopped (env f args cs) : rverdict ⟨env, .stoppedAt f args, cs⟩ =
    if f = "os.Exit" then .refused (args.headD .unk) else .other := by exact id rfl
theorem rverdict_fell (env cs) : rverdict ⟨env, .fell, cs⟩ =
    if Env.read env "runList" = .sym "append(runList, o)" then .accepted (recOf env) else .other := by
  exact id rfl
theorem rverdict_returned (env cs) : rverdict ⟨env, .returned, cs⟩ = .other := by exact id rfl
theorem rverdict_broke (env cs) : rverdict ⟨env, .broke, cs⟩ = .other := by exact id rfl
theorem rverdict_continued (env cs) : rverdict ⟨env, .continued, cs⟩ = .other := by exact id rfl
theorem rverdict_stuck (env t cs) : rverdict ⟨env, .stuckAt t, cs⟩ = .other := by exact id rfl
theorem rverdict_oof (env cs) : rverdict ⟨env, .outOfFuel, cs⟩ = .other := by exact id rfl
theorem rverdict_ite (p : Prop) [Decidable p] (a b : Res) :
    rverdict (if p then a else b) = if p then rverdict a else rverdict b := by split <;> rfl

/-- the verdict of one round on explicit leaves (fuel 60) -/
def runV (arg : String) (len : Int) (p0 p1 p2 p3 : Val) : RVerdict :=
  rverdict (execFrom cliOracle 60 argBody (startEnv arg len p0 p1 p2 p3) [])

/-- refused with exit status 2 -/
abbrev R2 : RVerdict := .refused (.int 2)

/-- the record with no field assigned -/
def noRec : ORec := ⟨none, none, none, none, none, none, none, none, none, none, none, none, none, none⟩

end Modbus.GoEval.CliSrc

/-- `cli_round [extra]`: run one round of the argument loop (goal:
    `rverdict (execFrom cliOracle fuel argBody (startEnv …) []) = …`) and reduce the verdict.
    Name the arm that is entered (`armRcRdi` …) in the list: only that one is unfolded. -/
syntax "cli_round" " [" Lean.Parser.Tactic.simpLemma,* "]" : tactic
macro_rules
  | `(tactic| cli_round [$ls,*]) => `(tactic|
    (try unfold Modbus.GoEval.CliSrc.runV
     try rw [Modbus.GoEval.CliSrc.arg_frame]
     go_eval [Modbus.GoEval.CliSrc.noRec, Modbus.GoEval.CliSrc.bodyFrame, Modbus.GoEval.CliSrc.anyName, Modbus.GoEval.CliSrc.nameIs,
       Modbus.GoEval.CliSrc.nameIsNot, Modbus.GoEval.CliSrc.startEnv, Modbus.GoEval.CliSrc.litEnv,
       Modbus.GoEval.CliSrc.litNames, String.reduceAppend, Modbus.GoEval.CliSrc.cliOracle,
       Modbus.GoEval.CliSrc.symArg1_def, Modbus.GoEval.CliSrc.ans2_def,
       Modbus.GoEval.CliSrc.illegalStmt,
       Modbus.GoEval.CliSrc.argSwitch, Modbus.GoEval.CliSrc.argBody, Modbus.GoEval.CliSrc.argRound,
       Modbus.GoEval.CliSrc.argLoop, Modbus.GoEval.CliSrc.argLoopStmt, Modbus.GoEval.CliSrc.nthS,
       Modbus.GoEval.CliSrc.sBn, Modbus.GoEval.CliSrc.sA, Modbus.GoEval.CliSrc.sB,
       Modbus.GoEval.CliSrc.lB, Modbus.GoEval.CliSrc.iT, Modbus.GoEval.CliSrc.iE,
       Modbus.Gen.gs_cli_main, Modbus.GoEval.CliSrc.rverdict_ite,
       ne_eq, String.reduceNe, not_true_eq_false, not_false_eq_true, Int.reduceLT, Int.reduceGT,
       Int.reduceEq, Int.reduceNe, decide_true, decide_false, List.tail_cons,
       Bool.or_eq_true, Bool.and_eq_true, decide_eq_true_eq, or_false, false_or, or_true, true_or,
       and_false, false_and, $ls,*]
     try simp only [Modbus.GoEval.CliSrc.rverdict_fell, Modbus.GoEval.CliSrc.rverdict_stopped,
       Modbus.GoEval.CliSrc.rverdict_returned, Modbus.GoEval.CliSrc.rverdict_broke,
       Modbus.GoEval.CliSrc.rverdict_continued, Modbus.GoEval.CliSrc.rverdict_stuck,
       Modbus.GoEval.CliSrc.rverdict_oof, Modbus.GoEval.CliSrc.recOf_def,
       Modbus.GoEval.read_def, Modbus.GoEval.read?_write, Modbus.GoEval.read?_cons,
       Modbus.GoEval.read?_nil, Option.getD_some, Option.getD_none, List.headD_cons, List.headD_nil,
       String.reduceEq, ↓reduceIte, reduceCtorEq]
     try simp only [ite_self]))
