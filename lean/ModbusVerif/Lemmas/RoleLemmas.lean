import ModbusVerif.Model.Role
import ModbusVerif.Spec.RoleSpec
/-
  Lemmas for property C15: Go's `utf8.Valid` against Unicode Table 3-7, Go's DER length parser
  against X.690 definite lengths, `asn1.Unmarshal` into a string on a UTF8String TLV, and the
  `extractRole` loop; absence of faults (panic / fuel / unmodelled) in all of them.
-/
namespace Modbus.Role
open Modbus.Spec

/-! ## lengths -/

theorem shorterThan_eq : ∀ (p : Bytes) (k : Nat), shorterThan p k = decide (p.length < k)
  | _, 0 => by simp [shorterThan]
  | [], k+1 => by simp [shorterThan]
  | _ :: r, k+1 => by simp [shorterThan, shorterThan_eq r k]

theorem beDigitsFuel_eq (f : Nat) : ∀ n, n ≤ f → beDigitsFuel f n = beDigitsFuel n n := by
  induction f using Nat.strongRecOn with
  | _ f ih =>
    intro n hn
    cases f with
    | zero => have : n = 0 := by omega
              subst this; rfl
    | succ f =>
      cases n with
      | zero => simp [beDigitsFuel]
      | succ m =>
        simp only [beDigitsFuel]
        rw [ih f (by omega) ((m+1)/256) (by omega), ← ih m (by omega) ((m+1)/256) (by omega)]

theorem beDigits_eq (n : Nat) :
    beDigits n = if n = 0 then [] else beDigits (n / 256) ++ [byteOfNat (n % 256)] := by
  unfold beDigits
  cases n with
  | zero => rfl
  | succ m =>
    simp only [beDigitsFuel]
    rw [beDigitsFuel_eq m ((m+1)/256) (by omega)]

theorem beDigits_zero : beDigits 0 = [] := by rw [beDigits_eq]; rfl

theorem byteOfNat_toNat (b : Byte) : byteOfNat b.toNat = b := by
  simp [byteOfNat]

theorem shift_or (acc : Nat) (b : Byte) : acc <<< 8 ||| b.toNat = acc * 256 + b.toNat := by
  rw [← Nat.shiftLeft_add_eq_or_of_lt (by have := b.isLt; omega), Nat.shiftLeft_eq]

theorem shift_or_nat (acc d : Nat) (h : d < 256) : acc <<< 8 ||| d = acc * 256 + d := by
  rw [← Nat.shiftLeft_add_eq_or_of_lt (by omega), Nat.shiftLeft_eq]

theorem beDigits_step (acc : Nat) (b : Byte) (h : acc * 256 + b.toNat ≠ 0) :
    beDigits (acc * 256 + b.toNat) = beDigits acc ++ [b] := by
  rw [beDigits_eq, if_neg h]
  have hb := b.isLt
  have h1 : (acc * 256 + b.toNat) / 256 = acc := by omega
  have h2 : (acc * 256 + b.toNat) % 256 = b.toNat := by omega
  rw [h1, h2, byteOfNat_toNat]

theorem lengthLoop_ok_inv : ∀ (k acc : Nat) (bs : Bytes) (n : Nat) (rest : Bytes),
    lengthLoop k acc bs = .ok (n, rest) →
    ∃ ds, ds.length = k ∧ bs = ds ++ rest ∧ beDigits n = beDigits acc ++ ds ∧ (acc < 2^31 → n < 2^31) := by
  intro k
  induction k with
  | zero =>
    intro acc bs n rest h
    simp only [lengthLoop, Except.ok.injEq, Prod.mk.injEq] at h
    exact ⟨[], rfl, by simp [h.2], by simp [h.1], fun hh => h.1 ▸ hh⟩
  | succ k ih =>
    intro acc bs n rest h
    cases bs with
    | nil => simp [lengthLoop] at h
    | cons b bs' =>
      simp only [lengthLoop, List.isEmpty_cons, Bool.false_eq_true, if_false, idx,
        List.getElem?_cons_zero, List.drop_succ_cons, List.drop_zero, shift_or] at h
      split at h
      · cases h
      · split at h
        · cases h
        · rename_i h23 h0
          obtain ⟨ds, hl, hbs, hd, hn⟩ := ih _ _ _ _ h
          have h0' : acc * 256 + b.toNat ≠ 0 := by simpa using h0
          refine ⟨b :: ds, by simp [hl], by simp [hbs], ?_, fun _ => hn ?_⟩
          · rw [hd, beDigits_step acc b h0']; simp
          · have := b.isLt; omega

theorem lengthLoop_error : ∀ (k acc : Nat) (bs : Bytes) (e : Fault),
    lengthLoop k acc bs = .error e → e = .err := by
  intro k
  induction k with
  | zero => intro acc bs e h; simp [lengthLoop] at h
  | succ k ih =>
    intro acc bs e h
    cases bs with
    | nil => simp [lengthLoop] at h; exact h.symm
    | cons b bs' =>
      simp only [lengthLoop, List.isEmpty_cons, Bool.false_eq_true, if_false, idx,
        List.getElem?_cons_zero, List.drop_succ_cons, List.drop_zero] at h
      split at h
      · cases h; rfl
      · split at h
        · cases h; rfl
        · exact ih _ _ _ h


theorem lengthLoop_append : ∀ (a b acc : Nat) (bs : Bytes),
    lengthLoop (a + b) acc bs =
      match lengthLoop a acc bs with
      | .ok (acc', bs') => lengthLoop b acc' bs'
      | .error e => .error e := by
  intro a
  induction a with
  | zero => intro b acc bs; simp [lengthLoop]
  | succ a ih =>
    intro b acc bs
    rw [Nat.succ_add]
    cases bs with
    | nil => simp [lengthLoop]
    | cons x bs' =>
      simp only [lengthLoop, List.isEmpty_cons, Bool.false_eq_true, if_false, idx,
        List.getElem?_cons_zero, List.drop_succ_cons, List.drop_zero]
      split
      · rfl
      · split
        · rfl
        · exact ih _ _ _

theorem byteOfNat_toNat' (n : Nat) (h : n < 256) : (byteOfNat n).toNat = n := by
  simp [byteOfNat, Nat.mod_eq_of_lt h]

theorem beDigits_small (m : Nat) (h0 : 0 < m) (h : m < 256) : beDigits m = [byteOfNat m] := by
  rw [beDigits_eq, if_neg (by omega)]
  have : m / 256 = 0 := by omega
  rw [this, beDigits_zero, Nat.mod_eq_of_lt h]; rfl

theorem lengthLoop_beDigits (m : Nat) : 0 < m → m < 2^31 → ∀ rest,
    lengthLoop (beDigits m).length 0 (beDigits m ++ rest) = .ok (m, rest) := by
  induction m using Nat.strongRecOn with
  | _ m ih =>
    intro h0 hm rest
    by_cases hs : m < 256
    · rw [beDigits_small m h0 hs]
      simp [lengthLoop, idx, byteOfNat_toNat' m hs]
      omega
    · rw [beDigits_eq, if_neg (by omega), List.length_append, List.append_assoc, lengthLoop_append,
        ih (m / 256) (by omega) (by omega) (by omega)]
      have hlt : m % 256 < 256 := by omega
      simp only [List.length_singleton, lengthLoop, List.singleton_append, List.isEmpty_cons,
        Bool.false_eq_true, if_false, idx, List.getElem?_cons_zero,
        byteOfNat_toNat' _ hlt, shift_or_nat _ _ hlt, List.drop_succ_cons, List.drop_zero]
      have e : m / 256 * 256 + m % 256 = m := by omega
      rw [e, if_neg (by omega)]
      simp
      omega

theorem beDigits_length_le : ∀ (k m : Nat), m < 256^k → (beDigits m).length ≤ k := by
  intro k
  induction k with
  | zero => intro m h; have : m = 0 := by simpa using h
            subst this; simp [beDigits_zero]
  | succ k ih =>
    intro m h
    rw [beDigits_eq]
    split
    · simp
    · have : m / 256 < 256^k := by
        rw [Nat.div_lt_iff_lt_mul (by decide)]; rwa [Nat.pow_succ] at h
      have := ih _ this
      simp; omega

theorem beDigits_length_pos (m : Nat) (h : 0 < m) : 0 < (beDigits m).length := by
  rw [beDigits_eq, if_neg (by omega)]; simp

/-! ### the header octet -/

theorem forall_byte {p : Byte → Prop} (h : ∀ i : Fin 256, p (BitVec.ofFin i)) : ∀ b, p b := fun b => by
  have := h b.toFin
  simpa using this

theorem short_form_enc : ∀ n, n < 128 →
    ((byteOfNat n &&& 0x80 == 0) = true ∧ (byteOfNat n &&& 0x7f).toNat = n) := by decide +kernel

theorem long_form_enc : ∀ k, k < 128 →
    ((byteOfNat (0x80 + k) &&& 0x80 == 0) = false ∧ (byteOfNat (0x80 + k) &&& 0x7f).toNat = k) := by
  decide +kernel

theorem short_form_dec : ∀ b : Byte, (b &&& 0x80 == 0) = true →
    ((b &&& 0x7f).toNat < 0x80 ∧ byteOfNat (b &&& 0x7f).toNat = b) := forall_byte (by decide +kernel)

theorem long_form_dec : ∀ b : Byte, (b &&& 0x80 == 0) = false →
    byteOfNat (0x80 + (b &&& 0x7f).toNat) = b := forall_byte (by decide +kernel)

theorem parseLength_der (n : Nat) (hn : n < 2^31) (rest : Bytes) :
    parseLength (derLength n ++ rest) = .ok (n, rest) := by
  unfold derLength
  split
  · rename_i h
    obtain ⟨h1, h2⟩ := short_form_enc n h
    simp only [parseLength, List.cons_append, List.nil_append, List.isEmpty_cons, Bool.false_eq_true,
      if_false, idx, List.getElem?_cons_zero, h1, h2, if_true, List.drop_succ_cons, List.drop_zero]
  · rename_i h
    have hk4 : (beDigits n).length ≤ 4 := beDigits_length_le 4 n (by omega)
    have hk0 := beDigits_length_pos n (by omega)
    obtain ⟨h1, h2⟩ := long_form_enc (beDigits n).length (by omega)
    simp only [parseLength, List.cons_append, List.isEmpty_cons, Bool.false_eq_true, if_false, idx,
      List.getElem?_cons_zero, h1, h2, List.drop_succ_cons, List.drop_zero,
      lengthLoop_beDigits n (by omega) hn rest]
    rw [if_neg (by simp only [beq_iff_eq]; omega), if_neg h]

theorem parseLength_ok_inv (t : Bytes) (n : Nat) (body : Bytes) (h : parseLength t = .ok (n, body)) :
    t = derLength n ++ body ∧ n < 2^31 := by
  cases t with
  | nil => simp [parseLength] at h
  | cons b t' =>
    simp only [parseLength, List.isEmpty_cons, Bool.false_eq_true, if_false, idx,
      List.getElem?_cons_zero, List.drop_succ_cons, List.drop_zero] at h
    split at h
    · rename_i hb
      obtain ⟨h1, h2⟩ := short_form_dec b (by simpa using hb)
      simp only [Except.ok.injEq, Prod.mk.injEq] at h
      obtain ⟨rfl, rfl⟩ := h
      refine ⟨?_, by omega⟩
      unfold derLength
      rw [if_pos h1, h2]; rfl
    · rename_i hb
      split at h
      · cases h
      · split at h
        · cases h
        · rename_i length rest' hl
          split at h
          · cases h
          · rename_i hge
            simp only [Except.ok.injEq, Prod.mk.injEq] at h
            obtain ⟨rfl, rfl⟩ := h
            obtain ⟨ds, hlen, hbs, hd, hlt⟩ := lengthLoop_ok_inv _ _ _ _ _ hl
            rw [beDigits_zero, List.nil_append] at hd
            refine ⟨?_, hlt (by decide)⟩
            unfold derLength
            rw [if_neg hge, hd, hlen, long_form_dec b (by simpa using hb), hbs]
            rfl

theorem parseLength_error (t : Bytes) (e : Fault) (h : parseLength t = .error e) : e = .err := by
  cases t with
  | nil => simp [parseLength] at h; exact h.symm
  | cons b t' =>
    simp only [parseLength, List.isEmpty_cons, Bool.false_eq_true, if_false, idx,
      List.getElem?_cons_zero, List.drop_succ_cons, List.drop_zero] at h
    split at h
    · cases h
    · split at h
      · cases h; rfl
      · split at h
        · rename_i e' he
          cases h
          exact lengthLoop_error _ _ _ _ he
        · split at h
          · cases h; rfl
          · cases h

/-! ## utf8.Valid -/

def firstFn (b : Byte) : Byte :=
  if b < 0x80 then AS else if b < 0xC2 then XX else if b < 0xE0 then S1
  else if b == 0xE0 then S2 else if b < 0xED then S3 else if b == 0xED then S4
  else if b < 0xF0 then S3 else if b == 0xF0 then S5 else if b < 0xF4 then S6
  else if b == 0xF4 then S7 else XX

set_option maxRecDepth 100000 in
theorem first_eq : ∀ b : Byte, first b = firstFn b := forall_byte (by decide +kernel)

set_option maxRecDepth 100000 in
theorem firstFn_facts : ∀ b : Byte,
    (firstFn b = AS ∨ firstFn b = XX ∨ firstFn b = S1 ∨ firstFn b = S2 ∨ firstFn b = S3
      ∨ firstFn b = S4 ∨ firstFn b = S5 ∨ firstFn b = S6 ∨ firstFn b = S7) ∧
    (decide (b < runeSelf) = (firstFn b == AS)) ∧
    (wf1 b = (firstFn b == AS)) ∧
    (inRange b 0xC2 0xDF = (firstFn b == S1)) ∧
    ((b == 0xE0) = (firstFn b == S2)) ∧
    ((inRange b 0xE1 0xEC || inRange b 0xEE 0xEF) = (firstFn b == S3)) ∧
    ((b == 0xED) = (firstFn b == S4)) ∧
    ((b == 0xF0) = (firstFn b == S5)) ∧
    (inRange b 0xF1 0xF3 = (firstFn b == S6)) ∧
    ((b == 0xF4) = (firstFn b == S7)) :=
  forall_byte (by decide +kernel)

theorem outside_iff (c lo hi : Byte) : (c < lo ∨ hi < c) ↔ inRange c lo hi = false := by
  simp only [inRange, Bool.and_eq_false_iff, decide_eq_false_iff_not, BitVec.not_le]

theorem outside_iff' (c lo hi : Byte) :
    (decide (c < lo) = true ∨ decide (hi < c) = true) ↔ inRange c lo hi = false := by
  simp only [decide_eq_true_eq, outside_iff]

theorem size_acc :
    (S1.toNat &&& 7 = 2 ∧ acceptRanges (S1 >>> 4) = ⟨0x80, 0xBF⟩) ∧
    (S2.toNat &&& 7 = 3 ∧ acceptRanges (S2 >>> 4) = ⟨0xA0, 0xBF⟩) ∧
    (S3.toNat &&& 7 = 3 ∧ acceptRanges (S3 >>> 4) = ⟨0x80, 0xBF⟩) ∧
    (S4.toNat &&& 7 = 3 ∧ acceptRanges (S4 >>> 4) = ⟨0x80, 0x9F⟩) ∧
    (S5.toNat &&& 7 = 4 ∧ acceptRanges (S5 >>> 4) = ⟨0x90, 0xBF⟩) ∧
    (S6.toNat &&& 7 = 4 ∧ acceptRanges (S6 >>> 4) = ⟨0x80, 0xBF⟩) ∧
    (S7.toNat &&& 7 = 4 ∧ acceptRanges (S7 >>> 4) = ⟨0x80, 0x8F⟩) := by decide

theorem consts_ne : (AS == XX) = false ∧ (S1 == XX) = false ∧ (S2 == XX) = false ∧ (S3 == XX) = false ∧
  (S4 == XX) = false ∧ (S5 == XX) = false ∧ (S6 == XX) = false ∧ (S7 == XX) = false := by decide

/-- one iteration of Go's loop on a non-ASCII lead byte against the Unicode table -/
def StepOk (b0 : Byte) (r0 : Bytes) : M (Option Nat) → Prop
  | .ok none => validUtf8 (b0 :: r0) = false
  | .ok (some size) => 1 ≤ size ∧ size ≤ r0.length + 1 ∧
      validUtf8 (b0 :: r0) = validUtf8 ((b0 :: r0).drop size)
  | .error _ => False

set_option maxRecDepth 4000 in
theorem multiByte_spec (b0 : Byte) (r0 : Bytes) (hb : ¬ b0 < runeSelf) :
    StepOk b0 r0 (multiByte (b0 :: r0) b0) := by
  obtain ⟨hc, hAS, h1, h2, hE0, h3, hED, hF0, h4, hF4⟩ := firstFn_facts b0
  have hb' : decide (b0 < runeSelf) = false := by simpa using hb
  rw [hb'] at hAS
  rcases hc with h | h | h | h | h | h | h | h | h
  · rw [h] at hAS; exact absurd hAS (by decide)
  all_goals
    simp only [h, XX, AS, S1, S2, S3, S4, S5, S6, S7, BitVec.reduceBEq, Bool.or_eq_false_iff, BitVec.ofNat_eq_ofNat] at h1 h2 hE0 h3 hED hF0 h4 hF4
  · -- XX
    rcases r0 with _ | ⟨c1, _ | ⟨c2, _ | ⟨c3, r3⟩⟩⟩ <;>
      simp [multiByte, first_eq, h, validUtf8, wf2, wf3, wf4, StepOk, h1, h2, hE0, h3, hED, hF0, h4, hF4]
  all_goals
    rcases r0 with _ | ⟨c1, _ | ⟨c2, _ | ⟨c3, r3⟩⟩⟩ <;>
      simp [multiByte, first_eq, h, consts_ne, size_acc, shorterThan, idx, outside_iff] <;>
      (try simp only [apply_ite (StepOk _ _)]) <;>
      simp [StepOk, validUtf8, wf2, wf3, wf4, h1, h2, hE0, h3, hED, hF0, h4, hF4, locb, hicb] <;>
      (repeat' split) <;> simp_all

theorem validUtf8_ascii (b0 : Byte) (r0 : Bytes) (hb : b0 < runeSelf) :
    validUtf8 (b0 :: r0) = validUtf8 r0 := by
  obtain ⟨-, hAS, h1, h2, hE0, h3, hED, hF0, h4, hF4⟩ := firstFn_facts b0
  have hb' : decide (b0 < runeSelf) = true := by simpa using hb
  rw [hb'] at hAS
  have h : firstFn b0 = AS := by simpa using hAS.symm
  simp only [h, AS, S1, S2, S3, S4, S5, S6, S7, BitVec.reduceBEq, Bool.or_eq_false_iff,
    BitVec.ofNat_eq_ofNat] at h1 h2 hE0 h3 hED hF0 h4 hF4
  rcases r0 with _ | ⟨c1, _ | ⟨c2, _ | ⟨c3, r3⟩⟩⟩ <;>
    simp [validUtf8, wf2, wf3, wf4, h1, h2, hE0, h3, hED, hF0, h4, hF4]

theorem validLoop_nil (fuel : Nat) : validLoop (fuel+1) [] = .ok true := rfl

set_option maxRecDepth 100000 in
theorem validLoop_cons (fuel : Nat) (pi : Byte) (r : Bytes) : validLoop (fuel+1) (pi :: r) =
    if pi < runeSelf then validLoop fuel r
    else
      match multiByte (pi :: r) pi with
      | .error e => .error e
      | .ok none => .ok false
      | .ok (some size) => validLoop fuel ((pi :: r).drop size) := rfl

/-- `StepOk` on the result of `multiByte` as a variable (keeps `multiByte` out of matches) -/
def StepRes (b0 : Byte) (r0 : Bytes) : Option Nat → Prop
  | none => validUtf8 (b0 :: r0) = false
  | some size => 1 ≤ size ∧ size ≤ r0.length + 1 ∧
      validUtf8 (b0 :: r0) = validUtf8 ((b0 :: r0).drop size)

set_option maxRecDepth 100000 in
theorem multiByte_res (b0 : Byte) (r0 : Bytes) (hb : ¬ b0 < runeSelf) :
    ∃ o, multiByte (b0 :: r0) b0 = .ok o ∧ StepRes b0 r0 o := by
  have hs := multiByte_spec b0 r0 hb
  cases hm : multiByte (b0 :: r0) b0 with
  | error e => rw [hm] at hs; exact hs.elim
  | ok o =>
    rw [hm] at hs
    refine ⟨o, rfl, ?_⟩
    cases o with
    | none => exact hs
    | some size => exact hs

theorem validLoop_eq : ∀ (fuel : Nat) (p : Bytes), p.length < fuel →
    validLoop fuel p = .ok (validUtf8 p) := by
  intro fuel
  induction fuel with
  | zero => intro p h; omega
  | succ fuel ih =>
    intro p h
    cases p with
    | nil => rw [validLoop_nil]; rfl
    | cons b0 r0 =>
      rw [validLoop_cons]
      split
      · rename_i hb
        rw [ih r0 (by simpa using h), validUtf8_ascii b0 r0 hb]
      · rename_i hb
        obtain ⟨o, hm, hs⟩ := multiByte_res b0 r0 hb
        rw [hm]
        cases o with
        | none => simp only [StepRes] at hs; simp [hs]
        | some size =>
          simp only [StepRes] at hs
          obtain ⟨h1, h2, h3⟩ := hs
          simp only
          rw [ih _ (by simp at h ⊢; omega), h3]

theorem top_clear_or (a b : Byte) (h : (a ||| b) &&& 0x80 = 0) : a &&& 0x80 = 0 ∧ b &&& 0x80 = 0 := by
  rw [BitVec.and_or_distrib_right] at h
  exact BitVec.or_eq_zero_iff.mp h

theorem top_clear_lt : ∀ a : Byte, a &&& 0x80 = 0 → a < runeSelf := forall_byte (by decide +kernel)

theorem validUtf8_fastPath (p : Bytes) : validUtf8 (fastPath p) = validUtf8 p := by
  fun_induction fastPath p with
  | case1 a0 a1 a2 a3 a4 a5 a6 a7 r h => rfl
  | case2 a0 a1 a2 a3 a4 a5 a6 a7 r h ih =>
    have h0 : (a0 ||| a1 ||| a2 ||| a3 ||| a4 ||| a5 ||| a6 ||| a7) &&& 0x80 = 0 := by simpa using h
    obtain ⟨h0, h7⟩ := top_clear_or _ _ h0
    obtain ⟨h0, h6⟩ := top_clear_or _ _ h0
    obtain ⟨h0, h5⟩ := top_clear_or _ _ h0
    obtain ⟨h0, h4⟩ := top_clear_or _ _ h0
    obtain ⟨h0, h3⟩ := top_clear_or _ _ h0
    obtain ⟨h0, h2⟩ := top_clear_or _ _ h0
    obtain ⟨h0, h1⟩ := top_clear_or _ _ h0
    rw [ih, validUtf8_ascii _ _ (top_clear_lt _ h0), validUtf8_ascii _ _ (top_clear_lt _ h1),
      validUtf8_ascii _ _ (top_clear_lt _ h2), validUtf8_ascii _ _ (top_clear_lt _ h3),
      validUtf8_ascii _ _ (top_clear_lt _ h4), validUtf8_ascii _ _ (top_clear_lt _ h5),
      validUtf8_ascii _ _ (top_clear_lt _ h6), validUtf8_ascii _ _ (top_clear_lt _ h7)]
  | case3 p h => rfl

/-- Go's `utf8.Valid` never faults and computes exactly "concatenation of well-formed sequences" -/
theorem utf8ValidChecked_ok (p : Bytes) : utf8ValidChecked p = .ok (validUtf8 p) := by
  unfold utf8ValidChecked
  rw [validLoop_eq _ _ (Nat.lt_succ_self _), validUtf8_fastPath]

theorem utf8Valid_eq (p : Bytes) : utf8Valid p = validUtf8 p := by
  unfold utf8Valid
  rw [utf8ValidChecked_ok]

/-! ## asn1.Unmarshal into a string -/

theorem parseTagAndLength_0c (t : Bytes) : parseTagAndLength (0x0c :: t) =
    match parseLength t with
    | .error e => .error e
    | .ok (length, rest) => .ok (⟨0, 12, length, false⟩, rest) := by
  simp [parseTagAndLength, idx]
  rfl

/-- `asn1.Unmarshal` into a string on a value that starts with the UTF8String identifier octet -/
theorem unmarshalChecked_0c (t : Bytes) : unmarshalChecked (0x0c :: t) =
    match parseLength t with
    | .error e => .error e
    | .ok (n, body) =>
      if body.length < n then .error .err
      else if validUtf8 (body.take n) then .ok (body.take n, body.drop n)
      else .error .err := by
  unfold unmarshalChecked
  rw [parseTagAndLength_0c]
  cases h : parseLength t with
  | error e => simp
  | ok r =>
    obtain ⟨n, body⟩ := r
    simp only [List.isEmpty_cons, Bool.false_eq_true, if_false, tagUTF8String, shorterThan_eq,
      sliceTo, sliceFrom, parseUTF8String, utf8ValidChecked_ok]
    by_cases hl : body.length < n
    · simp [hl]
    · cases hv : validUtf8 (body.take n) <;> simp [hl, hv]

theorem unmarshalChecked_0c_error (t : Bytes) (e : Fault) (h : unmarshalChecked (0x0c :: t) = .error e) :
    e = .err := by
  rw [unmarshalChecked_0c] at h
  cases hp : parseLength t with
  | error e' =>
    rw [hp] at h; cases h
    exact parseLength_error _ _ hp
  | ok r =>
    obtain ⟨n, body⟩ := r
    rw [hp] at h
    simp only at h
    split at h
    · cases h; rfl
    · split at h
      · cases h
      · cases h; rfl

theorem unmarshalChecked_der (s rest : Bytes) (hv : validUtf8 s = true) (hl : s.length < 2^31) :
    unmarshalChecked (derUTF8 s ++ rest) = .ok (s, rest) := by
  unfold derUTF8
  rw [List.cons_append, List.append_assoc, unmarshalChecked_0c, parseLength_der _ hl]
  simp [hv]

theorem unmarshalChecked_ok_inv (t s rest : Bytes) (h : unmarshalChecked (0x0c :: t) = .ok (s, rest)) :
    0x0c :: t = derUTF8 s ++ rest ∧ validUtf8 s = true ∧ s.length < 2^31 := by
  rw [unmarshalChecked_0c] at h
  cases hp : parseLength t with
  | error e' => rw [hp] at h; cases h
  | ok r =>
    obtain ⟨n, body⟩ := r
    rw [hp] at h
    simp only at h
    obtain ⟨ht, hn⟩ := parseLength_ok_inv _ _ _ hp
    split at h
    · cases h
    · rename_i hlen
      split at h
      · rename_i hv
        simp only [Except.ok.injEq, Prod.mk.injEq] at h
        obtain ⟨rfl, rfl⟩ := h
        have hl : (body.take n).length = n := by simp; omega
        refine ⟨?_, hv, by omega⟩
        unfold derUTF8
        rw [hl, ht, List.cons_append, List.append_assoc, List.take_append_drop]
      · cases h

/-! ## extractRole -/

theorem oid_eq : modbusRoleOID = roleOID := rfl

theorem isRoleValue_unique {v s s' : Bytes} (h : IsRoleValue v s) (h' : IsRoleValue v s') : s = s' := by
  have a := unmarshalChecked_der s [] h.2.1 h.2.2
  have b := unmarshalChecked_der s' [] h'.2.1 h'.2.2
  rw [List.append_nil, ← h.1] at a
  rw [List.append_nil, ← h'.1, a] at b
  simpa using b

theorem derLength_ne_nil (n : Nat) : derLength n ≠ [] := by
  unfold derLength; split <;> simp

theorem roleLoop_skip (e : Ext) (more : List Ext) (st : St) (h : e.id ≠ modbusRoleOID) :
    roleLoop (e :: more) st = roleLoop more st := by
  simp [roleLoop, h]

theorem roleLoop_found : ∀ (exts : List Ext) (st : St), st.found = true →
    roleLoop exts st = .ok (if roleExts exts = [] then st else { st with badCert := true }) := by
  intro exts
  induction exts with
  | nil => intro st _; simp [roleLoop, roleExts]
  | cons e more ih =>
    intro st hf
    by_cases h : e.id = modbusRoleOID
    · simp [roleLoop, h, hf, roleExts, ← oid_eq]
    · rw [roleLoop_skip _ _ _ h, ih st hf]
      simp [roleExts, ← oid_eq, h]

theorem roleLoop_good (e : Ext) (more : List Ext) (st : St) (s : Bytes) (h : e.id = modbusRoleOID)
    (hf : st.found = false) (hv : IsRoleValue e.value s) :
    roleLoop (e :: more) st = roleLoop more { st with found := true, role := s } := by
  obtain ⟨hd, hval, hlen⟩ := hv
  have hu := unmarshalChecked_der s [] hval hlen
  rw [List.append_nil, ← hd] at hu
  have h2 : shorterThan e.value 2 = false := by
    rw [shorterThan_eq, hd]
    unfold derUTF8
    have := derLength_ne_nil s.length
    cases hh : derLength s.length with
    | nil => exact absurd hh this
    | cons a b => simp
  have h0 : idx e.value 0 = .ok 0x0c := by rw [hd]; rfl
  simp [roleLoop, h, hf, h2, h0, hu]

theorem roleLoop_bad (e : Ext) (more : List Ext) (st : St) (h : e.id = modbusRoleOID)
    (hf : st.found = false) (hv : ¬ ∃ s, IsRoleValue e.value s) :
    ∃ st', roleLoop (e :: more) st = .ok st' ∧ st'.badCert = true := by
  simp only [roleLoop, h, if_true, hf, Bool.false_eq_true, if_false]
  split
  · exact ⟨_, rfl, rfl⟩
  · rename_i h2
    cases hv' : e.value with
    | nil => simp [hv', shorterThan] at h2
    | cons v0 t =>
      simp only [idx, List.getElem?_cons_zero]
      by_cases h0 : v0 = 0x0c
      · subst h0
        simp only [bne_self_eq_false, Bool.false_eq_true, if_false]
        cases hu : unmarshalChecked (0x0c :: t) with
        | error fe =>
          have := unmarshalChecked_0c_error _ _ hu
          subst this
          exact ⟨_, rfl, rfl⟩
        | ok r =>
          obtain ⟨s, rest⟩ := r
          cases rest with
          | cons a b => exact ⟨_, rfl, rfl⟩
          | nil =>
            exfalso
            apply hv
            obtain ⟨h1, h2, h3⟩ := unmarshalChecked_ok_inv _ _ _ hu
            exact ⟨s, by rw [hv', h1, List.append_nil], h2, h3⟩
      · rw [if_pos (by simpa using h0)]
        exact ⟨_, rfl, rfl⟩


theorem roleExts_cons_role (x : Ext) (xs : List Ext) (h : x.id = modbusRoleOID) :
    roleExts (x :: xs) = x :: roleExts xs := by
  simp [roleExts, ← oid_eq, h]

theorem roleExts_cons_other (x : Ext) (xs : List Ext) (h : x.id ≠ modbusRoleOID) :
    roleExts (x :: xs) = roleExts xs := by
  simp [roleExts, ← oid_eq, h]

/-- what the loop computes, by the list of role extensions of the certificate -/
theorem roleLoop_scan : ∀ (exts : List Ext) (st : St), st.found = false → st.badCert = false →
    ∃ st', roleLoop exts st = .ok st' ∧
      (roleExts exts = [] → st' = st) ∧
      (∀ e, roleExts exts = [e] → ∀ s, IsRoleValue e.value s → st'.badCert = false ∧ st'.role = s) ∧
      (∀ e, roleExts exts = [e] → (¬ ∃ s, IsRoleValue e.value s) → st'.badCert = true) ∧
      (2 ≤ (roleExts exts).length → st'.badCert = true) := by
  intro exts
  induction exts with
  | nil =>
    intro st _ _
    exact ⟨st, rfl, fun _ => rfl, by simp [roleExts], by simp [roleExts], by simp [roleExts]⟩
  | cons x xs ih =>
    intro st hf hb
    by_cases h : x.id = modbusRoleOID
    · rw [roleExts_cons_role x xs h]
      by_cases hg : ∃ s, IsRoleValue x.value s
      · obtain ⟨s, hs⟩ := hg
        rw [roleLoop_good x xs st s h hf hs, roleLoop_found _ _ rfl]
        refine ⟨_, rfl, by simp, ?_, ?_, ?_⟩
        · intro e he s' hs'
          simp only [List.cons.injEq] at he
          obtain ⟨rfl, hxs⟩ := he
          rw [if_pos hxs]
          exact ⟨hb, isRoleValue_unique hs hs'⟩
        · intro e he hne
          simp only [List.cons.injEq] at he
          exact absurd ⟨s, he.1 ▸ hs⟩ hne
        · intro hl
          have : roleExts xs ≠ [] := by
            intro h0; rw [h0] at hl; simp at hl
          rw [if_neg this]
      · obtain ⟨st', hst, hbad⟩ := roleLoop_bad x xs st h hf hg
        refine ⟨st', hst, by simp, ?_, fun _ _ _ => hbad, fun _ => hbad⟩
        intro e he s hs
        simp only [List.cons.injEq] at he
        exact absurd ⟨s, he.1 ▸ hs⟩ hg
    · rw [roleExts_cons_other x xs h, roleLoop_skip _ _ _ h]
      exact ih st hf hb

/-- `extractRole` never faults -/
theorem extractRoleChecked_ok (exts : List Ext) : extractRoleChecked exts = .ok (extractRole exts) := by
  unfold extractRole extractRoleChecked
  obtain ⟨st', h, -⟩ := roleLoop_scan exts ⟨[], false, false⟩ rfl rfl
  rw [h]

theorem extractRole_faithful (exts : List Ext) (e : Ext) (s : Bytes) (h1 : roleExts exts = [e])
    (hv : IsRoleValue e.value s) : extractRole exts = s := by
  unfold extractRole extractRoleChecked
  obtain ⟨st', h, -, h2, -⟩ := roleLoop_scan exts ⟨[], false, false⟩ rfl rfl
  obtain ⟨hb, hr⟩ := h2 e h1 s hv
  rw [h]
  simp [hb, hr]

theorem extractRole_empty (exts : List Ext) (hn : ¬ ∃ s, HasRole exts s) : extractRole exts = [] := by
  unfold extractRole extractRoleChecked
  obtain ⟨st', h, h0, -, h3, h4⟩ := roleLoop_scan exts ⟨[], false, false⟩ rfl rfl
  rw [h]
  simp only
  cases hre : roleExts exts with
  | nil => rw [h0 hre]; rfl
  | cons e more =>
    cases more with
    | nil =>
      have : ¬ ∃ s, IsRoleValue e.value s := fun ⟨s, hs⟩ => hn ⟨s, e, hre, hs⟩
      rw [h3 e hre this]; rfl
    | cons e' more' =>
      rw [h4 (by rw [hre]; simp)]; rfl

/-! ## the spec functions against their declarative readings -/

theorem validUtf8_step (b0 : Byte) (r0 : Bytes) : validUtf8 (b0 :: r0) =
    (wf1 b0 && validUtf8 r0 ||
      (match r0 with
       | [] => false
       | b1 :: r1 =>
         (wf2 b0 b1 && validUtf8 r1 ||
           (match r1 with
            | [] => false
            | b2 :: r2 =>
              (wf3 b0 b1 b2 && validUtf8 r2 ||
                (match r2 with
                 | [] => false
                 | b3 :: r3 => wf4 b0 b1 b2 b3 && validUtf8 r3)))))) := by
  rw [validUtf8.eq_def]; rfl

theorem wellFormed_of_valid : ∀ (n : Nat) (bs : Bytes), bs.length ≤ n → validUtf8 bs = true →
    WellFormedUtf8 bs := by
  intro n
  induction n with
  | zero =>
    intro bs hl _
    have : bs = [] := List.eq_nil_of_length_eq_zero (by omega)
    subst this; exact .nil
  | succ n ih =>
    intro bs hl hv
    cases bs with
    | nil => exact .nil
    | cons b0 r0 =>
      rw [validUtf8_step] at hv
      simp only [Bool.or_eq_true, Bool.and_eq_true] at hv
      simp only [List.length_cons] at hl
      rcases hv with ⟨h1, h2⟩ | hv
      · exact .seq [b0] r0 h1 (ih _ (by omega) h2)
      · cases r0 with
        | nil => simp at hv
        | cons b1 r1 =>
          simp only [Bool.or_eq_true, Bool.and_eq_true, List.length_cons] at hv hl
          rcases hv with ⟨h1, h2⟩ | hv
          · exact .seq [b0, b1] r1 h1 (ih _ (by omega) h2)
          · cases r1 with
            | nil => simp at hv
            | cons b2 r2 =>
              simp only [Bool.or_eq_true, Bool.and_eq_true, List.length_cons] at hv hl
              rcases hv with ⟨h1, h2⟩ | hv
              · exact .seq [b0, b1, b2] r2 h1 (ih _ (by omega) h2)
              · cases r2 with
                | nil => simp at hv
                | cons b3 r3 =>
                  simp only [Bool.and_eq_true, List.length_cons] at hv hl
                  exact .seq [b0, b1, b2, b3] r3 hv.1 (ih _ (by omega) hv.2)

theorem valid_of_wellFormed {bs : Bytes} (h : WellFormedUtf8 bs) : validUtf8 bs = true := by
  induction h with
  | nil => rfl
  | seq q r hq _ ih =>
    rcases q with _ | ⟨b0, _ | ⟨b1, _ | ⟨b2, _ | ⟨b3, _ | ⟨b4, q'⟩⟩⟩⟩⟩ <;>
      simp [wellFormedSeq] at hq <;> (rw [List.cons_append, validUtf8_step]; simp [hq, ih])

/-- `validUtf8` decides "is a concatenation of well-formed UTF-8 byte sequences" (Unicode D92) -/
theorem validUtf8_iff_wellFormed (bs : Bytes) : validUtf8 bs = true ↔ WellFormedUtf8 bs :=
  ⟨wellFormed_of_valid bs.length bs (Nat.le_refl _), valid_of_wellFormed⟩

theorem derLength_length_le (n : Nat) (h : n < 2^31) : (derLength n).length ≤ 5 := by
  unfold derLength
  split
  · simp
  · have := beDigits_length_le 4 n (by omega)
    simp; omega

theorem decodeRole_some_imp {v s : Bytes} (h : decodeRole v = some s) : IsRoleValue v s := by
  unfold decodeRole at h
  obtain ⟨k, _, hk⟩ := List.exists_of_findSome?_eq_some h
  simp only at hk
  split at hk
  · rename_i hc
    simp only [Bool.and_eq_true, beq_iff_eq, decide_eq_true_eq] at hc
    cases hk
    exact ⟨hc.1.1, hc.1.2, hc.2⟩
  · cases hk

theorem decodeRole_of_isRoleValue {v s : Bytes} (h : IsRoleValue v s) : decodeRole v = some s := by
  cases hd : decodeRole v with
  | some s' => rw [isRoleValue_unique h (decodeRole_some_imp hd)]
  | none =>
    exfalso
    unfold decodeRole at hd
    rw [List.findSome?_eq_none_iff] at hd
    have hk := derLength_length_le s.length h.2.2
    have := hd (1 + (derLength s.length).length) (by simp; omega)
    have hdrop : v.drop (1 + (derLength s.length).length) = s := by
      rw [h.1]; unfold derUTF8
      rw [Nat.add_comm, List.drop_succ_cons, List.drop_left]
    simp only [hdrop] at this
    rw [if_pos (by simp [← h.1, h.2.1, h.2.2])] at this
    cases this

theorem decodeRole_eq_some_iff (v s : Bytes) : decodeRole v = some s ↔ IsRoleValue v s :=
  ⟨decodeRole_some_imp, decodeRole_of_isRoleValue⟩

/-- the model agrees with the executable specification on every certificate -/
theorem extractRole_eq_roleOf (exts : List Ext) : extractRole exts = roleOf exts := by
  unfold roleOf
  cases hre : roleExts exts with
  | nil =>
    exact extractRole_empty exts (fun ⟨s, e, he, _⟩ => by rw [hre] at he; cases he)
  | cons e more =>
    cases more with
    | cons e' more' =>
      exact extractRole_empty exts (fun ⟨s, e, he, _⟩ => by rw [hre] at he; cases he)
    | nil =>
      simp only
      cases hd : decodeRole e.value with
      | some s => exact extractRole_faithful exts e s hre (decodeRole_some_imp hd)
      | none =>
        refine extractRole_empty exts (fun ⟨s, e', he, hv⟩ => ?_)
        rw [hre] at he
        simp only [List.cons.injEq, and_true] at he
        subst he
        rw [decodeRole_of_isRoleValue hv] at hd
        cases hd

/-! ## the two table look-ups are in range (the `getD` defaults are never used) -/

set_option maxRecDepth 10000 in
theorem firstTable_size : firstTable.size = 256 := by decide

theorem acceptRangesTable_size : acceptRangesTable.size = 16 := by decide

theorem first_index_lt (b : Byte) : b.toNat < firstTable.size := by
  rw [firstTable_size]; exact b.isLt

theorem acceptRanges_index_lt : ∀ x : Byte, (x >>> 4).toNat < acceptRangesTable.size :=
  forall_byte (by decide +kernel)

/-! ## named ways of not being a well-formed role value -/

theorem isRoleValue_head {v s : Bytes} (h : IsRoleValue v s) : v.head? = some 0x0c := by
  rw [h.1]; rfl

theorem isRoleValue_length {v s : Bytes} (h : IsRoleValue v s) : 2 ≤ v.length := by
  rw [h.1]; unfold derUTF8
  have := derLength_ne_nil s.length
  cases hh : derLength s.length with
  | nil => exact absurd hh this
  | cons a b => simp

/-- a well-formed TLV followed by anything is not a role value -/
theorem not_isRoleValue_trailing {s extra s' : Bytes} (hv : validUtf8 s = true) (hl : s.length < 2^31)
    (he : extra ≠ []) : ¬ IsRoleValue (derUTF8 s ++ extra) s' := by
  intro h
  have a := unmarshalChecked_der s extra hv hl
  have b := unmarshalChecked_der s' [] h.2.1 h.2.2
  rw [List.append_nil, ← h.1, a] at b
  simp only [Except.ok.injEq, Prod.mk.injEq] at b
  exact he b.2

/-- the DER encoding determines the string (for supported lengths) -/
theorem derUTF8_inj {s s' : Bytes} (hl : s.length < 2^31) (hl' : s'.length < 2^31)
    (h : derUTF8 s = derUTF8 s') : s = s' := by
  unfold derUTF8 at h
  simp only [List.cons.injEq, true_and] at h
  have a := parseLength_der s.length hl s
  have b := parseLength_der s'.length hl' s'
  rw [h, b] at a
  simp only [Except.ok.injEq, Prod.mk.injEq] at a
  exact a.2.symm

theorem not_isRoleValue_invalid {s s' : Bytes} (hv : validUtf8 s = false) (hl : s.length < 2^31) :
    ¬ IsRoleValue (derUTF8 s) s' := by
  intro h
  have := derUTF8_inj hl h.2.2 h.1
  subst this
  rw [h.2.1] at hv
  cases hv

/-- a value whose DER parse would be a valid `Unmarshal` is the only way to be a role value -/
theorem isRoleValue_iff_unmarshal (v s : Bytes) :
    IsRoleValue v s ↔ (v.head? = some 0x0c ∧ unmarshalUtf8String v = .ok (s, [])) := by
  constructor
  · intro h
    refine ⟨isRoleValue_head h, ?_⟩
    have a := unmarshalChecked_der s [] h.2.1 h.2.2
    rw [List.append_nil, ← h.1] at a
    simp [unmarshalUtf8String, a]
  · rintro ⟨hh, hu⟩
    cases v with
    | nil => cases hh
    | cons v0 t =>
      simp only [List.head?_cons, Option.some.injEq] at hh
      subst hh
      unfold unmarshalUtf8String at hu
      cases hc : unmarshalChecked (0x0c :: t) with
      | error e => rw [hc] at hu; cases hu
      | ok r =>
        rw [hc] at hu
        simp only [Except.ok.injEq] at hu
        subst hu
        obtain ⟨h1, h2, h3⟩ := unmarshalChecked_ok_inv _ _ _ hc
        exact ⟨by rw [h1, List.append_nil], h2, h3⟩

/-- "exactly one role extension, at any position": the explicit form of `roleExts exts = [e]` -/
theorem roleExts_single_iff (exts : List Ext) (e : Ext) :
    roleExts exts = [e] ↔
      ∃ pre post, exts = pre ++ e :: post ∧ e.id = roleOID ∧
        (∀ x ∈ pre, x.id ≠ roleOID) ∧ (∀ x ∈ post, x.id ≠ roleOID) := by
  constructor
  · intro h
    induction exts with
    | nil => simp [roleExts] at h
    | cons x xs ih =>
      by_cases hx : x.id = roleOID
      · have hre : roleExts (x :: xs) = x :: roleExts xs := by simp [roleExts, hx]
        rw [hre] at h
        simp only [List.cons.injEq] at h
        obtain ⟨rfl, hxs⟩ := h
        refine ⟨[], xs, rfl, hx, by simp, ?_⟩
        intro y hy hyid
        have : y ∈ roleExts xs := by simp [roleExts, hy, hyid]
        rw [hxs] at this; cases this
      · have hre : roleExts (x :: xs) = roleExts xs := by simp [roleExts, hx]
        rw [hre] at h
        obtain ⟨pre, post, rfl, hid, hpre, hpost⟩ := ih h
        refine ⟨x :: pre, post, rfl, hid, ?_, hpost⟩
        intro y hy
        rcases List.mem_cons.mp hy with rfl | hy
        · exact hx
        · exact hpre y hy
  · rintro ⟨pre, post, rfl, hid, hpre, hpost⟩
    have h1 : roleExts pre = [] := by
      simp only [roleExts, List.filter_eq_nil_iff, beq_iff_eq]; exact hpre
    have h2 : roleExts post = [] := by
      simp only [roleExts, List.filter_eq_nil_iff, beq_iff_eq]; exact hpost
    unfold roleExts at h1 h2 ⊢
    rw [List.filter_append, h1, List.filter_cons, h2]
    simp [hid]

end Modbus.Role
