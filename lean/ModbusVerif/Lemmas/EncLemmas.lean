import ModbusVerif.Model.Encoding
import ModbusVerif.Spec.Layout
/-
  Helper lemmas for property C17 (register encodings, coil packing).
  Core Lean only. Strategy for the codec lemmas: go to `toNat`, where `++` is
  `a * 256 + b` and `extractLsb'` is `/ 2^k % 256`, and let `omega` finish.
-/
namespace Modbus.EncLemmas
open Modbus

/-! ### 16 bit -/

theorem toNat_app8 {n} (a : BitVec n) (b : Byte) : (BitVec.append a b).toNat = a.toNat * 256 + b.toNat := by
  have h := @BitVec.toNat_append n 8 a b
  simp only [HAppend.hAppend] at h
  rw [h, ← Nat.shiftLeft_add_eq_or_of_lt b.isLt, Nat.shiftLeft_eq]
theorem toNat_mk16 (a b : Byte) : (mk16 a b).toNat = a.toNat * 256 + b.toNat := toNat_app8 a b
theorem toNat_hi (v : U16) : (hi v).toNat = v.toNat / 256 % 256 := by
  simp [hi, BitVec.extractLsb'_toNat, Nat.shiftRight_eq_div_pow]
theorem toNat_lo (v : U16) : (lo v).toNat = v.toNat % 256 := by
  simp [lo, BitVec.extractLsb'_toNat]
theorem mk16_hi_lo (v : U16) : mk16 (hi v) (lo v) = v := by
  apply BitVec.eq_of_toNat_eq
  simp only [toNat_mk16, toNat_hi, toNat_lo]
  have := v.isLt
  omega
theorem hi_mk16 (a b : Byte) : hi (mk16 a b) = a := by
  apply BitVec.eq_of_toNat_eq
  simp only [toNat_mk16, toNat_hi]
  have := a.isLt; have := b.isLt
  omega
theorem lo_mk16 (a b : Byte) : lo (mk16 a b) = b := by
  apply BitVec.eq_of_toNat_eq
  simp only [toNat_mk16, toNat_lo]
  have := a.isLt; have := b.isLt
  omega

theorem u16_roundtrip (e : Endian) (v : U16) (he : e ≠ .invalid) :
    Enc.bytesToUint16 e (Enc.uint16ToBytes e v) = some v := by
  cases e <;> simp_all [Enc.bytesToUint16, Enc.uint16ToBytes, be16, le16, mk16_hi_lo]

theorem u16_roundtrip_bytes (e : Endian) (a b : Byte) (he : e ≠ .invalid) :
    (Enc.bytesToUint16 e [a, b]).map (Enc.uint16ToBytes e) = some [a, b] := by
  cases e <;> simp_all [Enc.bytesToUint16, Enc.uint16ToBytes, be16, le16, hi_mk16, lo_mk16]

theorem u16s_cons (e : Endian) (he : e ≠ .invalid) (v : U16) (rest : Bytes) :
    Enc.bytesToUint16s e (Enc.uint16ToBytes e v ++ rest) = (Enc.bytesToUint16s e rest).map (v :: ·) := by
  cases e <;> simp_all [Enc.bytesToUint16s, Enc.bytesToUint16, Enc.uint16ToBytes, be16, le16, mk16_hi_lo] <;>
    cases Enc.bytesToUint16s _ rest <;> simp

theorem u16s_roundtrip (e : Endian) (he : e ≠ .invalid) (vs : List U16) :
    Enc.bytesToUint16s e (Enc.uint16sToBytes e vs) = some vs := by
  induction vs with
  | nil => simp [Enc.uint16sToBytes, Enc.bytesToUint16s]
  | cons v vs ih =>
    have : Enc.uint16sToBytes e (v :: vs) = Enc.uint16ToBytes e v ++ Enc.uint16sToBytes e vs := by
      simp [Enc.uint16sToBytes]
    rw [this, u16s_cons e he, ih]; rfl


def u16Of (e : Endian) (a b : Byte) : U16 :=
  match e with | .big => mk16 a b | .little => mk16 b a | .invalid => 0

theorem u16s_step (e : Endian) (a b : Byte) (rest : Bytes) :
    Enc.bytesToUint16s e (a :: b :: rest) = (Enc.bytesToUint16s e rest).map (u16Of e a b :: ·) := by
  cases e <;> simp [Enc.bytesToUint16s, Enc.bytesToUint16, u16Of] <;>
    cases Enc.bytesToUint16s _ rest <;> simp

theorem u16Of_bytes (e : Endian) (he : e ≠ .invalid) (a b : Byte) :
    Enc.uint16ToBytes e (u16Of e a b) = [a, b] := by
  cases e <;> simp_all [Enc.uint16ToBytes, u16Of, be16, le16, hi_mk16, lo_mk16]

theorem u16s_none_iff (e : Endian) : (bs : Bytes) →
    (Enc.bytesToUint16s e bs = none ↔ bs.length % 2 ≠ 0)
  | [] => by simp [Enc.bytesToUint16s]
  | [_] => by simp [Enc.bytesToUint16s]
  | a :: b :: rest => by
    have ih := u16s_none_iff e rest
    rw [u16s_step]; simp [ih]; omega

theorem u16s_converse (e : Endian) (he : e ≠ .invalid) : (bs : Bytes) → bs.length % 2 = 0 →
    ∃ vs, Enc.bytesToUint16s e bs = some vs ∧ Enc.uint16sToBytes e vs = bs
  | [], _ => ⟨[], by simp [Enc.bytesToUint16s, Enc.uint16sToBytes]⟩
  | [_], h => by simp at h
  | a :: b :: rest, h => by
    have ⟨vs, h1, h2⟩ := u16s_converse e he rest (by simp at h; omega)
    refine ⟨u16Of e a b :: vs, ?_, ?_⟩
    · rw [u16s_step, h1]; rfl
    · simp only [Enc.uint16sToBytes] at h2 ⊢
      simp [h2, u16Of_bytes e he]

/-! ### 32 / 64 bit: byte extraction versus concatenation -/
theorem toNat_mk32 (a b c d : Byte) :
    (Enc.mk32 a b c d).toNat = ((a.toNat * 256 + b.toNat) * 256 + c.toNat) * 256 + d.toNat := by
  show (BitVec.append (BitVec.append (BitVec.append a b) c) d).toNat = _
  simp only [toNat_app8]
theorem toNat_byteAt32 (v : U32) (i : Nat) : (Enc.byteAt32 v i).toNat = v.toNat / 2^(8*i) % 256 := by
  simp [Enc.byteAt32, BitVec.extractLsb'_toNat, Nat.shiftRight_eq_div_pow]

theorem mk32_byteAt (v : U32) :
    Enc.mk32 (Enc.byteAt32 v 3) (Enc.byteAt32 v 2) (Enc.byteAt32 v 1) (Enc.byteAt32 v 0) = v := by
  apply BitVec.eq_of_toNat_eq
  simp only [toNat_mk32, toNat_byteAt32]
  have := v.isLt
  omega
theorem byteAt32_mk (a b c d : Byte) :
    Enc.byteAt32 (Enc.mk32 a b c d) 3 = a ∧ Enc.byteAt32 (Enc.mk32 a b c d) 2 = b ∧
    Enc.byteAt32 (Enc.mk32 a b c d) 1 = c ∧ Enc.byteAt32 (Enc.mk32 a b c d) 0 = d := by
  refine ⟨?_, ?_, ?_, ?_⟩ <;> apply BitVec.eq_of_toNat_eq <;> simp only [toNat_mk32, toNat_byteAt32] <;>
   (have := a.isLt; have := b.isLt; have := c.isLt; have := d.isLt; omega)
theorem toNat_mk64 (a b c d e f g h : Byte) :
    (Enc.mk64 a b c d e f g h).toNat = ((((((a.toNat * 256 + b.toNat) * 256 + c.toNat) * 256 + d.toNat) * 256 + e.toNat) * 256 + f.toNat) * 256 + g.toNat) * 256 + h.toNat := by
  show (BitVec.append (BitVec.append (BitVec.append (BitVec.append (BitVec.append (BitVec.append (BitVec.append a b) c) d) e) f) g) h).toNat = _
  simp only [toNat_app8]
theorem toNat_byteAt64 (v : U64) (i : Nat) : (Enc.byteAt64 v i).toNat = v.toNat / 2^(8*i) % 256 := by
  simp [Enc.byteAt64, BitVec.extractLsb'_toNat, Nat.shiftRight_eq_div_pow]
theorem mk64_byteAt (v : U64) :
    Enc.mk64 (Enc.byteAt64 v 7) (Enc.byteAt64 v 6) (Enc.byteAt64 v 5) (Enc.byteAt64 v 4) (Enc.byteAt64 v 3) (Enc.byteAt64 v 2) (Enc.byteAt64 v 1) (Enc.byteAt64 v 0) = v := by
  apply BitVec.eq_of_toNat_eq
  simp only [toNat_mk64, toNat_byteAt64]
  have := v.isLt
  omega
theorem byteAt64_mk (a b c d e f g h : Byte) :
    Enc.byteAt64 (Enc.mk64 a b c d e f g h) 7 = a ∧ Enc.byteAt64 (Enc.mk64 a b c d e f g h) 6 = b ∧
    Enc.byteAt64 (Enc.mk64 a b c d e f g h) 5 = c ∧ Enc.byteAt64 (Enc.mk64 a b c d e f g h) 4 = d ∧ 
    Enc.byteAt64 (Enc.mk64 a b c d e f g h) 3 = e ∧ Enc.byteAt64 (Enc.mk64 a b c d e f g h) 2 = f ∧
    Enc.byteAt64 (Enc.mk64 a b c d e f g h) 1 = g ∧ Enc.byteAt64 (Enc.mk64 a b c d e f g h) 0 = h := by
  refine ⟨?_, ?_, ?_, ?_, ?_, ?_, ?_, ?_⟩ <;> apply BitVec.eq_of_toNat_eq <;> simp only [toNat_mk64, toNat_byteAt64] <;>
   (have := a.isLt; have := b.isLt; have := c.isLt; have := d.isLt; have := e.isLt; have := f.isLt; have := g.isLt; have := h.isLt; omega)

/-! ### 32 bit: encode / decode -/
theorem u32_enc_dec (e : Endian) (w : WordOrder) (he : e ≠ .invalid) (hw : w ≠ .invalid) (a b c d : Byte) :
    Enc.uint32ToBytes e w (Enc.u32OfBytes e w a b c d) = [a, b, c, d] := by
  have h := byteAt32_mk
  cases e <;> cases w <;> simp_all [Enc.uint32ToBytes, Enc.u32OfBytes, Enc.be32, Enc.le32]

theorem u32s_cons (e : Endian) (w : WordOrder) (he : e ≠ .invalid) (hw : w ≠ .invalid) (v : U32) (rest : Bytes) :
    Enc.bytesToUint32s e w (Enc.uint32ToBytes e w v ++ rest) = (Enc.bytesToUint32s e w rest).map (v :: ·) := by
  cases e <;> cases w <;>
    simp_all [Enc.uint32ToBytes, Enc.bytesToUint32s, Enc.u32OfBytes, Enc.be32, Enc.le32, mk32_byteAt] <;>
    cases Enc.bytesToUint32s _ _ rest <;> simp

theorem u32s_step (e : Endian) (w : WordOrder) (a b c d : Byte) (rest : Bytes) :
    Enc.bytesToUint32s e w (a :: b :: c :: d :: rest)
      = (Enc.bytesToUint32s e w rest).map (Enc.u32OfBytes e w a b c d :: ·) := by
  simp only [Enc.bytesToUint32s]; cases Enc.bytesToUint32s e w rest <;> simp

theorem u32s_roundtrip (e : Endian) (w : WordOrder) (he : e ≠ .invalid) (hw : w ≠ .invalid) (vs : List U32) :
    Enc.bytesToUint32s e w (vs.flatMap (Enc.uint32ToBytes e w)) = some vs := by
  induction vs with
  | nil => simp [Enc.bytesToUint32s]
  | cons v vs ih => rw [List.flatMap_cons, u32s_cons e w he hw, ih]; rfl

theorem u32s_none_iff (e : Endian) (w : WordOrder) : (bs : Bytes) →
    (Enc.bytesToUint32s e w bs = none ↔ bs.length % 4 ≠ 0)
  | [] => by simp [Enc.bytesToUint32s]
  | [_] => by simp [Enc.bytesToUint32s]
  | [_, _] => by simp [Enc.bytesToUint32s]
  | [_, _, _] => by simp [Enc.bytesToUint32s]
  | a :: b :: c :: d :: rest => by
    have ih := u32s_none_iff e w rest
    rw [u32s_step]; simp [ih]; omega

theorem u32s_converse (e : Endian) (w : WordOrder) (he : e ≠ .invalid) (hw : w ≠ .invalid) :
    (bs : Bytes) → bs.length % 4 = 0 →
    ∃ vs, Enc.bytesToUint32s e w bs = some vs ∧ vs.flatMap (Enc.uint32ToBytes e w) = bs
  | [], _ => ⟨[], by simp [Enc.bytesToUint32s]⟩
  | [_], h => by simp at h
  | [_, _], h => by simp at h
  | [_, _, _], h => by simp at h
  | a :: b :: c :: d :: rest, h => by
    have ⟨vs, h1, h2⟩ := u32s_converse e w he hw rest (by simp at h; omega)
    refine ⟨Enc.u32OfBytes e w a b c d :: vs, ?_, ?_⟩
    · rw [u32s_step, h1]; rfl
    · simp [h2, u32_enc_dec e w he hw]

/-! ### 64 bit: encode / decode -/
theorem u64_enc_dec (e : Endian) (w : WordOrder) (he : e ≠ .invalid) (hw : w ≠ .invalid)
    (a b c d f g h i : Byte) :
    Enc.uint64ToBytes e w (Enc.u64OfBytes e w a b c d f g h i) = [a, b, c, d, f, g, h, i] := by
  have h := byteAt64_mk
  cases e <;> cases w <;> simp_all [Enc.uint64ToBytes, Enc.u64OfBytes, Enc.be64, Enc.le64]

theorem u64s_cons (e : Endian) (w : WordOrder) (he : e ≠ .invalid) (hw : w ≠ .invalid) (v : U64) (rest : Bytes) :
    Enc.bytesToUint64s e w (Enc.uint64ToBytes e w v ++ rest) = (Enc.bytesToUint64s e w rest).map (v :: ·) := by
  cases e <;> cases w <;>
    simp_all [Enc.uint64ToBytes, Enc.bytesToUint64s, Enc.u64OfBytes, Enc.be64, Enc.le64, mk64_byteAt] <;>
    cases Enc.bytesToUint64s _ _ rest <;> simp

theorem u64s_step (e : Endian) (w : WordOrder) (a b c d f g h i : Byte) (rest : Bytes) :
    Enc.bytesToUint64s e w (a :: b :: c :: d :: f :: g :: h :: i :: rest)
      = (Enc.bytesToUint64s e w rest).map (Enc.u64OfBytes e w a b c d f g h i :: ·) := by
  simp only [Enc.bytesToUint64s]; cases Enc.bytesToUint64s e w rest <;> simp

theorem u64s_roundtrip (e : Endian) (w : WordOrder) (he : e ≠ .invalid) (hw : w ≠ .invalid) (vs : List U64) :
    Enc.bytesToUint64s e w (vs.flatMap (Enc.uint64ToBytes e w)) = some vs := by
  induction vs with
  | nil => simp [Enc.bytesToUint64s]
  | cons v vs ih => rw [List.flatMap_cons, u64s_cons e w he hw, ih]; rfl

theorem u64s_none_iff (e : Endian) (w : WordOrder) : (bs : Bytes) →
    (Enc.bytesToUint64s e w bs = none ↔ bs.length % 8 ≠ 0)
  | [] => by simp [Enc.bytesToUint64s]
  | [_] => by simp [Enc.bytesToUint64s]
  | [_, _] => by simp [Enc.bytesToUint64s]
  | [_, _, _] => by simp [Enc.bytesToUint64s]
  | [_, _, _, _] => by simp [Enc.bytesToUint64s]
  | [_, _, _, _, _] => by simp [Enc.bytesToUint64s]
  | [_, _, _, _, _, _] => by simp [Enc.bytesToUint64s]
  | [_, _, _, _, _, _, _] => by simp [Enc.bytesToUint64s]
  | a :: b :: c :: d :: f :: g :: h :: i :: rest => by
    have ih := u64s_none_iff e w rest
    rw [u64s_step]; simp [ih]; omega

theorem u64s_converse (e : Endian) (w : WordOrder) (he : e ≠ .invalid) (hw : w ≠ .invalid) :
    (bs : Bytes) → bs.length % 8 = 0 →
    ∃ vs, Enc.bytesToUint64s e w bs = some vs ∧ vs.flatMap (Enc.uint64ToBytes e w) = bs
  | [], _ => ⟨[], by simp [Enc.bytesToUint64s]⟩
  | [_], h => by simp at h
  | [_, _], h => by simp at h
  | [_, _, _], h => by simp at h
  | [_, _, _, _], h => by simp at h
  | [_, _, _, _, _], h => by simp at h
  | [_, _, _, _, _, _], h => by simp at h
  | [_, _, _, _, _, _, _], h => by simp at h
  | a :: b :: c :: d :: f :: g :: k :: i :: rest, h => by
    have ⟨vs, h1, h2⟩ := u64s_converse e w he hw rest (by simp at h; omega)
    refine ⟨Enc.u64OfBytes e w a b c d f g k i :: vs, ?_, ?_⟩
    · rw [u64s_step, h1]; rfl
    · simp [h2, u64_enc_dec e w he hw]

/-! ### layout -/
theorem layout16 (e : Endian) (v : U16) : Enc.uint16ToBytes e v = Spec.layout16 e v := by
  cases e <;> simp [Enc.uint16ToBytes, Spec.layout16, Spec.regs16, Spec.regBytes, be16, le16]

theorem ext8_of_ext16 {n} (v : BitVec n) (s t : Nat) (ht : t + 8 ≤ 16) :
    (v.extractLsb' s 16).extractLsb' t 8 = v.extractLsb' (s + t) 8 := by
  apply BitVec.eq_of_getLsbD_eq
  intro i hi
  simp only [BitVec.getLsbD_extractLsb']
  have h1 : t + i < 16 := by omega
  simp [hi, h1, Nat.add_assoc]

theorem layout32 (e : Endian) (w : WordOrder) (he : e ≠ .invalid) (hw : w ≠ .invalid) (v : U32) :
    Enc.uint32ToBytes e w v = Spec.layout32 e w v := by
  cases e <;> cases w <;>
    simp_all [Enc.uint32ToBytes, Spec.layout32, Spec.orderRegs, Spec.regs32, Spec.regBytes,
      Enc.be32, Enc.le32, Enc.byteAt32, hi, lo, ext8_of_ext16]

theorem layout64 (e : Endian) (w : WordOrder) (he : e ≠ .invalid) (hw : w ≠ .invalid) (v : U64) :
    Enc.uint64ToBytes e w v = Spec.layout64 e w v := by
  cases e <;> cases w <;>
    simp_all [Enc.uint64ToBytes, Spec.layout64, Spec.orderRegs, Spec.regs64, Spec.regBytes,
      Enc.be64, Enc.le64, Enc.byteAt64, hi, lo, ext8_of_ext16]

/-! ### coils -/
theorem getLsbD_bit0 (b : Bool) (i : Nat) :
    (((if b = true then 1 else 0 : Nat) : Byte)).getLsbD i = (b && decide (i = 0)) := by
  cases b <;> simp [BitVec.getLsbD_one]

theorem packByte_bit (l : List Bool) (i : Nat) :
    (Enc.packByte l).getLsbD i = (decide (i < 8) && l.getD i false) := by
  induction l generalizing i with
  | nil => simp [Enc.packByte]
  | cons b bs ih =>
    simp only [Enc.packByte, BitVec.getLsbD_or, BitVec.getLsbD_shiftLeft, getLsbD_bit0, ih]
    cases i with
    | zero => simp
    | succ i =>
      by_cases h : i + 1 < 8
      · have : i < 8 := by omega
        simp [h, this]
      · simp [h]

theorem encodeBools_cons (b : Bool) (bs : List Bool) :
    Enc.encodeBools (b :: bs) = Enc.packByte ((b :: bs).take 8) :: Enc.encodeBools ((b :: bs).drop 8) := by
  rw [Enc.encodeBools]

theorem encodeBools_length (bs : List Bool) : (Enc.encodeBools bs).length = (bs.length + 7) / 8 := by
  induction h : bs.length using Nat.strongRecOn generalizing bs with
  | _ n ih =>
    cases bs with
    | nil => simp [Enc.encodeBools] at h ⊢; omega
    | cons b t =>
      rw [encodeBools_cons, List.length_cons, ih _ _ _ rfl]
      · simp at h ⊢; omega
      · simp at h ⊢; omega

/-- bit i of byte j of the packed form is input bit 8*j+i (false beyond the input: zero padding) -/
theorem encodeBools_bit (bs : List Bool) (j i : Nat) (hi : i < 8) :
    ((Enc.encodeBools bs).getD j 0).getLsbD i = bs.getD (8*j + i) false := by
  induction j generalizing bs with
  | zero =>
    cases bs with
    | nil => simp [Enc.encodeBools]
    | cons b t =>
      rw [encodeBools_cons]
      simp only [List.getD_cons_zero, packByte_bit]
      simp only [List.getD_eq_getElem?_getD, List.getElem?_take, hi, if_true]
      simp
  | succ j ih =>
    cases bs with
    | nil => simp [Enc.encodeBools]
    | cons b t =>
      rw [encodeBools_cons, List.getD_cons_succ, ih]
      simp only [List.getD_eq_getElem?_getD, List.getElem?_drop]
      congr 2; omega

/-- the bit that Go's `decodeBools` reads for position p -/
def bitAt (bytes : Bytes) (p : Nat) : Bool := (bytes.getD (p / 8) 0).getLsbD (p % 8)

/-- exact behaviour of the decoding loop: it panics iff the last index read is out of range -/
theorem decodeBoolsFrom_eq (bytes : Bytes) (i n : Nat) :
    Enc.decodeBoolsFrom bytes i n =
      if n = 0 ∨ (i + n - 1) / 8 < bytes.length then some ((List.range' i n).map (bitAt bytes)) else none := by
  induction n generalizing i with
  | zero => simp [Enc.decodeBoolsFrom]
  | succ n ih =>
    rw [Enc.decodeBoolsFrom, ih]
    have e : i + (n + 1) - 1 = i + 1 + n - 1 := by omega
    by_cases h : i / 8 < bytes.length
    · rw [List.getElem?_eq_getElem h]
      by_cases h2 : n = 0 ∨ (i + 1 + n - 1) / 8 < bytes.length
      · have h3 : n + 1 = 0 ∨ (i + (n + 1) - 1) / 8 < bytes.length := by
          rcases h2 with h2 | h2
          · subst h2; exact Or.inr (by simpa using h)
          · rw [e]; exact Or.inr h2
        rw [if_pos h2, if_pos h3]
        simp [List.range'_succ, bitAt, List.getD_eq_getElem?_getD, List.getElem?_eq_getElem h]
      · have h3 : ¬ (n + 1 = 0 ∨ (i + (n + 1) - 1) / 8 < bytes.length) := by
          rw [e]; exact fun h' => h2 (Or.inr (h'.resolve_left (by omega)))
        rw [if_neg h2, if_neg h3]
    · have h3 : ¬ (n + 1 = 0 ∨ (i + (n + 1) - 1) / 8 < bytes.length) := by omega
      rw [List.getElem?_eq_none (by omega), if_neg h3]

theorem decodeBools_eq (q : Nat) (bytes : Bytes) :
    Enc.decodeBools q bytes =
      if (q + 7) / 8 ≤ bytes.length then some ((List.range q).map (bitAt bytes)) else none := by
  rw [Enc.decodeBools, decodeBoolsFrom_eq, List.range_eq_range']
  by_cases h : (q + 7) / 8 ≤ bytes.length
  · have h' : q = 0 ∨ (0 + q - 1) / 8 < bytes.length := by omega
    rw [if_pos h, if_pos h']
  · have h' : ¬ (q = 0 ∨ (0 + q - 1) / 8 < bytes.length) := by omega
    rw [if_neg h, if_neg h']

theorem bitAt_encodeBools (bs : List Bool) (p : Nat) : bitAt (Enc.encodeBools bs) p = bs.getD p false := by
  rw [bitAt, encodeBools_bit _ _ _ (Nat.mod_lt _ (by decide)), Nat.div_add_mod]

theorem decode_encode (bs : List Bool) : Enc.decodeBools bs.length (Enc.encodeBools bs) = some bs := by
  rw [decodeBools_eq, encodeBools_length, if_pos (Nat.le_refl _)]
  congr 1
  apply List.ext_getElem
  · simp
  · intro i h1 h2
    simp [bitAt_encodeBools, List.getD_eq_getElem?_getD, List.getElem?_eq_getElem h2]

theorem encode_decode (bytes : Bytes) (l : List Bool)
    (h : Enc.decodeBools (8 * bytes.length) bytes = some l) : Enc.encodeBools l = bytes := by
  rw [decodeBools_eq, if_pos (by omega)] at h
  injection h with h
  subst h
  apply List.ext_getElem
  · simp [encodeBools_length]; omega
  · intro j h1 h2
    apply BitVec.eq_of_getLsbD_eq
    intro i hi
    have e1 := encodeBools_bit ((List.range (8 * bytes.length)).map (bitAt bytes)) j i hi
    rw [List.getD_eq_getElem?_getD, List.getElem?_eq_getElem h1] at e1
    simp only [Option.getD_some] at e1
    rw [e1]
    have h3 : 8 * j + i < 8 * bytes.length := by omega
    simp only [List.getD_eq_getElem?_getD, List.getElem?_map, List.getElem?_range h3, Option.map_some,
      Option.getD_some, bitAt]
    have : (8 * j + i) / 8 = j := by omega
    have : (8 * j + i) % 8 = i := by omega
    simp [*]

/-! ### coils against the reference layout -/
theorem coilByte_bit (bs : List Bool) (j i : Nat) (hi : i < 8) :
    (Spec.coilByte bs j).getLsbD i = Spec.coilBit bs (8 * j + i) := by
  rw [Spec.coilByte, BitVec.getLsbD_ofBoolListLE]
  match i, hi with
  | 0, _ | 1, _ | 2, _ | 3, _ | 4, _ | 5, _ | 6, _ | 7, _ => simp

theorem coilBit_eq (bs : List Bool) (p : Nat) : Spec.coilBit bs p = bs.getD p false := by
  unfold Spec.coilBit
  split
  · rfl
  · rw [List.getD_eq_getElem?_getD, List.getElem?_eq_none (by omega)]; rfl

theorem encodeBools_eq_spec (bs : List Bool) : Enc.encodeBools bs = Spec.packBools bs := by
  apply List.ext_getElem
  · simp [encodeBools_length, Spec.packBools, Spec.coilLen]
  · intro j h1 h2
    apply BitVec.eq_of_getLsbD_eq
    intro i hi
    have e1 := encodeBools_bit bs j i hi
    rw [List.getD_eq_getElem?_getD, List.getElem?_eq_getElem h1] at e1
    simp only [Option.getD_some] at e1
    simp [e1, Spec.packBools, coilByte_bit _ _ _ hi, coilBit_eq]

end Modbus.EncLemmas
