import ModbusVerif.Lemmas.GoEvalLemmas
import ModbusVerif.Model.Cli
/-
  Support for `Props/C20SrcRun.lean`: the RUN LOOP of cmd/modbus-cli.go `main`
  (`for opIdx := 0; opIdx < len(runList); opIdx++ { o := &runList[opIdx]; switch o.op { … } }`) inside
  the generated term `Gen.gs_cli_main` (≈ 40 kB; the first half, flag and argument parsing, is not
  touched here).

  1. LOCATION / DECOMPOSITION. Nothing is copied by hand: the run loop is found on the right spine
     of the generated term (`findInit "opIdx"`: the statement `opIdx = 0; loop …`), its parts are
     named by accessors (`cliHead`, `cliRound`, `cliSwitch`, `arm k`, `armDefault`, and inside an arm
     `armVar`, `armCall`, `armFail`, `armRow` …). The frame lemmas (`run_frame`, `head_frame`,
     `round_frame`, `switch_frame`, `readArm_shape`, `writeArm_shape`), all by `rfl`, state that the
     generated term IS the skeleton built from these parts.
  2. DISPATCH. `mkSwitch tbl d` is a tagged `switch o.op` as the translator renders it (nested
     `ite`, several values of one `case` joined by `||`); `mkSwitch_run` (generic in the arms):
     with `o.op = v` the switch runs exactly `selectArm tbl d v`.
  3. COMPOSITION. `round_run_*`: one round of the loop given the run of the selected arm;
     `readArmWith_run`: a read arm given the runs of its pieces; `rowLoop_run` / `printPart_run`:
     the counted print loop `for idx := range res` by induction on the number of remaining rows.
  4. ORACLE `cliOracle rv e`: the client read methods return `(rv, e)`, the write methods `e`
     (`e` a symbol: `"nil"` or an error), `var []T` markers (the translator's rendering of a
     value-less `var res []T` inside the loop body: `res` is re-initialised on every round) return
     `nil`, `fmt.Printf`, `time.Sleep`, `client.SetUnitId`, `perform…Scan`, `performPing` return
     nothing; `os.Exit` is UNDEFINED (the run stops there: the process ends).
  5. PER-ARM RUNS for ALL field values, stated for ANY environment in which the leaves the arm
     reads are bound (hypotheses `Env.read? env "o.addr" = some (.int a)` …), any call history, any
     left-over bindings of `res`, `err`, `idx`, `#len(res)`.

  Text-keyed leaves (see Model/GoEval.lean): `o.op`, `o.addr`, … are leaves of their own; the
  theorems bind them to the fields of the CURRENT record. `len(res)` / `res[idx]` stand for the
  length / the element at the loop index of the slice the client call returned (`res[idx]` has ONE
  value in one environment: the rows show WHICH expression is printed next to which address, the
  element itself is the leaf named `res[idx]`). String literals are `.call` leaves named by their
  quoted text; their value is whatever the environment says (`Env.read env text`).
-/
set_option linter.unusedSimpArgs false
set_option linter.unusedVariables false
set_option maxRecDepth 100000

namespace Modbus.GoEval.CliRun
open Modbus Modbus.Gen Modbus.GoEval

/-! ### 1. location and decomposition -/

def sA : GStmt → GStmt | .seq a _ => a | s => s
def sB : GStmt → GStmt | .seq _ b => b | s => s
def lB : GStmt → GStmt | .loop b => b | s => s
def iT : GStmt → GStmt | .ite _ t _ => t | s => s
def iE : GStmt → GStmt | .ite _ _ e => e | s => s
def iC : GStmt → GExpr | .ite c _ _ => c | _ => .lit 0 .bool

/-- the first statement `x = e; r` (a `for x := e; …` loop with its initialisation) on the right
    spine of a sequence -/
def findInit (x : String) : GStmt → GStmt
  | .seq a b =>
    match a with
    | .seq (.assign y e) r => if y = x then .seq (.assign y e) r else findInit x b
    | _ => findInit x b
  | s => s

/-- what follows that statement -/
def afterInit (x : String) : GStmt → GStmt
  | .seq a b =>
    match a with
    | .seq (.assign y _) _ => if y = x then b else afterInit x b
    | _ => afterInit x b
  | s => s

/-- `opIdx = 0; for opIdx < len(runList) { … }` -/
def cliRunPart : GStmt := findInit "opIdx" gs_cli_main
/-- `if opIdx < len(runList) { round } else break` -/
def cliHead : GStmt := lB (sB cliRunPart)
/-- `o = &runList[opIdx]; switch o.op { … }; opIdx++` -/
def cliRound : GStmt := iT cliHead
/-- the `switch o.op` (nested `ite`) -/
def cliSwitch : GStmt := sA (lB (sB (sA cliRound)))

def nE : Nat → GStmt → GStmt
  | 0, s => s
  | k + 1, s => nE k (iE s)
/-- the `k`-th `case` of the switch, in source order -/
def arm (k : Nat) : GStmt := iT (nE k cliSwitch)
/-- the `default` case -/
def armDefault : GStmt := nE 25 cliSwitch

def opIdxInc : GStmt := .assign "opIdx" (.bin "+" .int (.var "opIdx" .int) (.lit 1 .int))
def opIdxLt : GExpr := .cmp "<" (.var "opIdx" .int) (.var "len(runList)" .int)
def roundWith (sw : GStmt) : GStmt :=
  .seq (.seq (.assign "o" (.call "&runList[opIdx]" .other)) (.loop (.seq sw .brk))) opIdxInc

theorem run_frame : cliRunPart = .seq (.assign "opIdx" (.lit 0 .int)) (.loop cliHead) := by rfl
theorem run_is_last : afterInit "opIdx" gs_cli_main = .ret := by rfl
theorem head_frame : cliHead = .ite opIdxLt cliRound .brk := by rfl
theorem round_frame : cliRound = roundWith cliSwitch := by rfl

/-- `o.op == n` -/
def opIs (n : Int) : GExpr := .cmp "==" (.var "o.op" .uint) (.lit n .uint)
/-- the condition of `case k1, k2, …:` -/
def caseCond : List Int → GExpr
  | [] => .lit 0 .bool
  | [k] => opIs k
  | k :: ks => .or (opIs k) (caseCond ks)
/-- a tagged switch on `o.op` -/
def mkSwitch : List (List Int × GStmt) → GStmt → GStmt
  | [], d => d
  | (ks, a) :: r, d => .ite (caseCond ks) a (mkSwitch r d)

/-- the case values of the run loop's switch with their arms, in source order -/
def cliTable : List (List Int × GStmt) :=
  [([1], arm 0), ([2, 3], arm 1), ([4, 5], arm 2), ([6], arm 3), ([7, 8], arm 4), ([9], arm 5),
   ([10], arm 6), ([11], arm 7), ([13], arm 8), ([14], arm 9), ([16], arm 10), ([15], arm 11),
   ([17], arm 12), ([19], arm 13), ([18], arm 14), ([20], arm 15), ([21], arm 16), ([23], arm 17),
   ([22], arm 18), ([24], arm 19), ([25], arm 20), ([26], arm 21), ([27], arm 22), ([28], arm 23),
   ([29], arm 24)]

/-- the generated switch is the tagged switch over this table -/
theorem switch_frame : cliSwitch = mkSwitch cliTable armDefault := by rfl

/-! parts of a read arm `var res []T; if flag { res, err = client.X(…) } else { … };
    if err != nil { Printf(fail) } else { for idx := range res { row } }` -/

def armVar (a : GStmt) : GStmt := sA a
def armCall (a : GStmt) : GStmt := sA (sB a)
def armAfter (a : GStmt) : GStmt := sB (sB a)
def armFail (a : GStmt) : GStmt := iT (armAfter a)
def armPrint (a : GStmt) : GStmt := iE (armAfter a)
def armLoopHead (a : GStmt) : GStmt := lB (sB (sB (armPrint a)))
def armRow (a : GStmt) : GStmt := sA (iT (armLoopHead a))
/-- the two call sites of a read arm -/
def armCallT (a : GStmt) : GStmt := iT (armCall a)
def armCallE (a : GStmt) : GStmt := iE (armCall a)

def errNotNil : GExpr := .cmp "!=" (.var "err" .other) (.var "nil" .other)
def idxLt : GExpr := .cmp "<" (.var "idx" .int) (.var "#len(res)" .int)
def idxInc : GStmt := .assign "idx" (.bin "+" .int (.var "idx" .int) (.lit 1 .int))
def rowLoop (row : GStmt) : GStmt := .loop (.ite idxLt (.seq row idxInc) .brk)
def printPart (row : GStmt) : GStmt :=
  .seq (.assign "#len(res)" (.var "len(res)" .int)) (.seq (.assign "idx" (.lit 0 .int)) (rowLoop row))
def readArmWith (v call fail row : GStmt) : GStmt :=
  .seq v (.seq call (.ite errNotNil fail (printPart row)))

theorem readArm_shape (k : Nat) (hk : k < 7) :
    arm k = readArmWith (armVar (arm k)) (armCall (arm k)) (armFail (arm k)) (armRow (arm k)) := by
  have : k = 0 ∨ k = 1 ∨ k = 2 ∨ k = 3 ∨ k = 4 ∨ k = 5 ∨ k = 6 := by omega
  rcases this with rfl | rfl | rfl | rfl | rfl | rfl | rfl <;> rfl

/-! parts of a write arm `err = client.X(o.addr, value); if err != nil { Printf(fail) } else { Printf(ok) }` -/

def wCall (a : GStmt) : GStmt := sA a
def wFail (a : GStmt) : GStmt := iT (sB a)
def wOk (a : GStmt) : GStmt := iE (sB a)
def writeArmWith (call fail ok : GStmt) : GStmt := .seq call (.ite errNotNil fail ok)

theorem writeArm_shape (k : Nat) (h7 : 7 ≤ k) (h16 : k ≤ 16) :
    arm k = writeArmWith (wCall (arm k)) (wFail (arm k)) (wOk (arm k)) := by
  have : k = 7 ∨ k = 8 ∨ k = 9 ∨ k = 10 ∨ k = 11 ∨ k = 12 ∨ k = 13 ∨ k = 14 ∨ k = 15 ∨ k = 16 := by omega
  rcases this with rfl | rfl | rfl | rfl | rfl | rfl | rfl | rfl | rfl | rfl <;> rfl

/-! ### 2. dispatch -/

def hasCode : List Int → Int → Bool
  | [], _ => false
  | k :: ks, v => decide (v = k) || hasCode ks v

/-- the arm a tagged switch selects for the tag value `v` -/
def selectArm : List (List Int × GStmt) → GStmt → Int → GStmt
  | [], d, _ => d
  | (ks, a) :: r, d, v => if hasCode ks v = true then a else selectArm r d v

theorem caseCond_eval (env : Env) (v : Int) (h : Env.read? env "o.op" = some (.int v)) :
    ∀ ks : List Int, panics env (caseCond ks) = false ∧
      (eval env (caseCond ks)).truth = some (hasCode ks v) := by
  have hop : ∀ k, eval env (opIs k) = .ofBool (decide (v = k)) := by
    intro k; simp only [opIs, eval_cmp, eval_var, h, eval_var_some, eval_lit, cmpop_int_eq]
  have hpan : ∀ k, panics env (opIs k) = false := by
    intro k; simp only [opIs, panics_cmp, panics_var, panics_lit, Bool.or_self]
  intro ks
  induction ks with
  | nil => exact ⟨rfl, rfl⟩
  | cons k ks ih =>
    cases ks with
    | nil =>
      refine ⟨hpan k, ?_⟩
      show (eval env (opIs k)).truth = _
      rw [hop, truth_ofBool]
      simp only [hasCode, Bool.or_false]
    | cons k2 ks2 =>
      obtain ⟨ih1, ih2⟩ := ih
      constructor
      · show panics env (.or (opIs k) (caseCond (k2 :: ks2))) = false
        rw [panics_or, hpan k, ih1]; simp
      · show (eval env (.or (opIs k) (caseCond (k2 :: ks2)))).truth = _
        rw [eval_or, hop]
        show _ = some (decide (v = k) || hasCode (k2 :: ks2) v)
        unfold orVal
        rw [truth_ofBool, ih2]
        cases decide (v = k) <;> cases hasCode (k2 :: ks2) v <;> rfl

/-- with `o.op = v` a tagged switch runs exactly the selected arm (generic in the arms: nothing of
    them is unfolded) -/
theorem mkSwitch_run (o : Oracle) (d : GStmt) (env : Env) (cs : Calls) (v : Int)
    (h : Env.read? env "o.op" = some (.int v)) :
    ∀ (tbl : List (List Int × GStmt)) (fuel m : Nat), fuel + tbl.length ≤ m →
      (execFrom o fuel (selectArm tbl d v) env cs).how ≠ .outOfFuel →
      execFrom o m (mkSwitch tbl d) env cs = execFrom o fuel (selectArm tbl d v) env cs := by
  intro tbl
  induction tbl with
  | nil =>
    intro fuel m hm hne
    exact execFrom_mono o fuel m _ env cs (by simpa using hm) hne
  | cons p r ih =>
    obtain ⟨ks, a⟩ := p
    intro fuel m hm hne
    obtain ⟨m', rfl⟩ : ∃ m', m = m' + 1 := ⟨m - 1, by simp at hm; omega⟩
    have hm' : fuel + r.length ≤ m' := by simp at hm; omega
    obtain ⟨hp, ht⟩ := caseCond_eval env v h ks
    show execFrom o (m' + 1) (.ite (caseCond ks) a (mkSwitch r d)) env cs = _
    rw [execFrom_ite, hp, ht]
    simp only [Bool.false_eq_true, ↓reduceIte]
    unfold selectArm at hne ⊢
    cases hc : hasCode ks v with
    | true =>
      rw [iteK_true]
      simp only [hc, ↓reduceIte] at hne ⊢
      exact execFrom_mono o fuel m' _ env cs (by omega) hne
    | false =>
      rw [iteK_false]
      simp only [hc, Bool.false_eq_true, ↓reduceIte] at hne ⊢
      exact ih fuel m' hm' hne

/-- every other tag value: the `default` case -/
theorem select_default (d : GStmt) (v : Int) (h : v < 1 ∨ v = 12 ∨ 29 < v) :
    selectArm cliTable d v = d := by
  have e : ∀ k : Int, v ≠ k → decide (v = k) = false := fun k hk => decide_eq_false hk
  simp only [selectArm, cliTable, hasCode, Bool.or_false]
  rw [e 1 (by omega), e 2 (by omega), e 3 (by omega), e 4 (by omega), e 5 (by omega), e 6 (by omega),
    e 7 (by omega), e 8 (by omega), e 9 (by omega), e 10 (by omega), e 11 (by omega), e 13 (by omega),
    e 14 (by omega), e 15 (by omega), e 16 (by omega), e 17 (by omega), e 18 (by omega), e 19 (by omega),
    e 20 (by omega), e 21 (by omega), e 22 (by omega), e 23 (by omega), e 24 (by omega), e 25 (by omega),
    e 26 (by omega), e 27 (by omega), e 28 (by omega), e 29 (by omega)]
  simp

/-! ### 3. composition -/

theorem lift (o : Oracle) {n : Nat} {s : GStmt} {env : Env} {cs : Calls} {r : Res}
    (h : execFrom o n s env cs = r) (hr : r.how ≠ .outOfFuel) {m : Nat} (hm : n ≤ m) :
    execFrom o m s env cs = r := by
  rw [execFrom_mono o n m s env cs hm (by rw [h]; exact hr), h]

theorem fell_ne_oof : End.fell ≠ End.outOfFuel := fun h => nomatch h

theorem read?_write_ne (env : Env) (k x : String) (v : Val) (h : k ≠ x) :
    Env.read? (Env.write env k v) x = Env.read? env x := by
  rw [read?_write, if_neg h]
theorem read?_write_same (env : Env) (k : String) (v : Val) :
    Env.read? (Env.write env k v) k = some v := by
  rw [read?_write, if_pos rfl]

theorem ite_run_true (o : Oracle) {n : Nat} {c : GExpr} {t e : GStmt} {env : Env} {cs : Calls}
    (hp : panics env c = false) (ht : (eval env c).truth = some true) :
    execFrom o (n + 1) (.ite c t e) env cs = execFrom o n t env cs := by
  rw [execFrom_ite, hp, ht, if_neg Bool.false_ne_true, iteK_true]
theorem ite_run_false (o : Oracle) {n : Nat} {c : GExpr} {t e : GStmt} {env : Env} {cs : Calls}
    (hp : panics env c = false) (ht : (eval env c).truth = some false) :
    execFrom o (n + 1) (.ite c t e) env cs = execFrom o n e env cs := by
  rw [execFrom_ite, hp, ht, if_neg Bool.false_ne_true, iteK_false]
theorem assign_run (o : Oracle) {n : Nat} {x : String} {e : GExpr} {env : Env} {cs : Calls} {v : Val}
    (hp : panics env e = false) (hv : eval env e = v) :
    execFrom o (n + 1) (.assign x e) env cs = ⟨Env.write env x v, .fell, cs⟩ := by
  rw [execFrom_assign, hp, if_neg Bool.false_ne_true, hv]

theorem errNotNil_eval {env : Env} {e : String} (he : Env.read? env "err" = some (.sym e))
    (hn : Env.read? env "nil" = some (.sym "nil")) :
    panics env errNotNil = false ∧ (eval env errNotNil).truth = some (decide (e ≠ "nil")) := by
  constructor
  · simp only [errNotNil, panics_cmp, panics_var, Bool.or_self]
  · simp only [errNotNil, eval_cmp, eval_var, he, hn, eval_var_some, cmpop_sym_ne, truth_ofBool]

theorem idxLt_eval {env : Env} {i n : Int} (hi : Env.read? env "idx" = some (.int i))
    (hn : Env.read? env "#len(res)" = some (.int n)) :
    panics env idxLt = false ∧ (eval env idxLt).truth = some (decide (i < n)) := by
  constructor
  · simp only [idxLt, panics_cmp, panics_var, Bool.or_self]
  · simp only [idxLt, eval_cmp, eval_var, hi, hn, eval_var_some, cmpop_int_lt, truth_ofBool]

theorem incr_run (o : Oracle) (x : String) {env : Env} {cs : Calls} {i : Int}
    (hi : Env.read? env x = some (.int i)) (h0 : -9223372036854775808 ≤ i + 1)
    (h1 : i + 1 < 9223372036854775808) (f : Nat) :
    execFrom o (f + 1) (.assign x (.bin "+" .int (.var x .int) (.lit 1 .int))) env cs =
      ⟨Env.write env x (.int (i + 1)), .fell, cs⟩ := by
  simp only [execFrom_assign, panics_bin, panics_var, panics_lit, eval_bin, eval_var, hi,
    eval_var_some, eval_lit, binVal_int, binop_add, binVal_some, binPanics_int, Option.isNone_some,
    Bool.or_self, Bool.false_eq_true, ↓reduceIte, wrap_int h0 h1]

theorem idxInc_run (o : Oracle) {env : Env} {cs : Calls} {i : Int}
    (hi : Env.read? env "idx" = some (.int i)) (h0 : -9223372036854775808 ≤ i + 1)
    (h1 : i + 1 < 9223372036854775808) (f : Nat) :
    execFrom o (f + 1) idxInc env cs = ⟨Env.write env "idx" (.int (i + 1)), .fell, cs⟩ :=
  incr_run o "idx" hi h0 h1 f
theorem opIdxInc_run (o : Oracle) {env : Env} {cs : Calls} {i : Int}
    (hi : Env.read? env "opIdx" = some (.int i)) (h0 : -9223372036854775808 ≤ i + 1)
    (h1 : i + 1 < 9223372036854775808) (f : Nat) :
    execFrom o (f + 1) opIdxInc env cs = ⟨Env.write env "opIdx" (.int (i + 1)), .fell, cs⟩ :=
  incr_run o "opIdx" hi h0 h1 f

/-- the calls of `k` rows from index `i` on -/
def rows (pr : Int → Calls) : Int → Nat → Calls
  | _, 0 => []
  | i, k + 1 => pr i ++ rows pr (i + 1) k

theorem rows_snoc (pr : Int → Calls) : ∀ (k : Nat) (i : Int),
    rows pr i (k + 1) = rows pr i k ++ pr (i + (k : Nat)) := by
  intro k
  induction k with
  | zero => intro i; simp [rows]
  | succ k ih =>
    intro i
    rw [rows, ih (i + 1), rows, List.append_assoc]
    congr 2
    simp only [Int.natCast_add, Int.natCast_one]
    congr 1
    omega

theorem rows_eq (pr : Int → Calls) (i : Int) : ∀ (k : Nat),
    rows pr i k = (List.range k).flatMap (fun j => pr (i + (j : Nat))) := by
  intro k
  induction k with
  | zero => rfl
  | succ k ih => rw [rows_snoc, ih, List.range_succ, List.flatMap_append]; simp

/-- the counted loop `for idx := range res { row }` from index `i` with `k` rows to go: `row` does
    not change the environment and performs the calls `pr idx` -/
theorem rowLoop_run (o : Oracle) (row : GStmt) (n : Int) (hn : n < 9223372036854775808) (fb : Nat)
    (P : Env → Prop) (pr : Int → Calls)
    (hP : ∀ env v, P env → P (Env.write env "idx" v))
    (hrow : ∀ env cs i, P env → Env.read? env "idx" = some (.int i) → 0 ≤ i → i < n →
      execFrom o fb row env cs = ⟨env, .fell, cs ++ pr i⟩) :
    ∀ (k : Nat) (i : Int) (env : Env) (cs : Calls), P env → Env.read? env "idx" = some (.int i) →
      Env.read? env "#len(res)" = some (.int n) → 0 ≤ i → i + k = n →
      ∀ F : Nat, k + fb + 3 ≤ F →
      ∃ env', execFrom o F (rowLoop row) env cs = ⟨env', .fell, cs ++ rows pr i k⟩ ∧
        (∀ x, x ≠ "idx" → Env.read? env' x = Env.read? env x) := by
  intro k
  induction k with
  | zero =>
    intro i env cs hp hi hl h0 hk F hF
    have hin : ¬ i < n := by omega
    obtain ⟨hp1, ht⟩ := idxLt_eval hi hl
    refine ⟨env, ?_, fun _ _ => rfl⟩
    obtain ⟨F1, rfl⟩ : ∃ F1, F = F1 + 1 := ⟨F - 1, by omega⟩
    obtain ⟨F2, rfl⟩ : ∃ F2, F1 = F2 + 1 := ⟨F1 - 1, by omega⟩
    obtain ⟨F3, rfl⟩ : ∃ F3, F2 = F3 + 1 := ⟨F2 - 1, by omega⟩
    unfold rowLoop
    rw [execFrom_loop, ite_run_false o hp1 (by rw [ht, decide_eq_false hin]), execFrom_brk, loopK_broke]
    simp only [rows, List.append_nil]
  | succ k ih =>
    intro i env cs hp hi hl h0 hk F hF
    have hlt : i < n := by omega
    obtain ⟨hp1, ht⟩ := idxLt_eval hi hl
    obtain ⟨F1, rfl⟩ : ∃ F1, F = F1 + 1 := ⟨F - 1, by omega⟩
    obtain ⟨F2, rfl⟩ : ∃ F2, F1 = F2 + 1 := ⟨F1 - 1, by omega⟩
    obtain ⟨F3, rfl⟩ : ∃ F3, F2 = F3 + 1 := ⟨F2 - 1, by omega⟩
    obtain ⟨F4, rfl⟩ : ∃ F4, F3 = F4 + 1 := ⟨F3 - 1, by omega⟩
    have hr := lift o (hrow env cs i hp hi h0 hlt) fell_ne_oof (m := F4 + 1) (by omega)
    have hl2 : Env.read? (Env.write env "idx" (.int (i + 1))) "#len(res)" = some (.int n) := by
      rw [read?_write_ne _ _ _ _ (by decide)]; exact hl
    obtain ⟨env', h1, h2⟩ := ih (i + 1) (Env.write env "idx" (.int (i + 1))) (cs ++ pr i)
      (hP _ _ hp) (read?_write_same _ _ _) hl2 (by omega) (by omega) (F4 + 3) (by omega)
    refine ⟨env', ?_, ?_⟩
    · unfold rowLoop at h1 ⊢
      rw [execFrom_loop, ite_run_true o hp1 (by rw [ht, decide_eq_true hlt]), execFrom_seq, hr, seqK_fell]
      rw [idxInc_run o hi (by omega) (by omega) F4, loopK_fell, h1]
      simp only [rows, List.append_assoc]
    · intro x hx
      rw [h2 x hx, read?_write_ne _ _ _ _ (Ne.symm hx)]

/-- `#len(res) = len(res); idx = 0; loop` -/
theorem printPart_run (o : Oracle) (row : GStmt) (n : Int) (h0 : 0 ≤ n) (hn : n < 9223372036854775808)
    (fb : Nat) (P : Env → Prop) (pr : Int → Calls)
    (hP : ∀ env v, P env → P (Env.write env "idx" v))
    (hrow : ∀ env cs i, P env → Env.read? env "idx" = some (.int i) → 0 ≤ i → i < n →
      execFrom o fb row env cs = ⟨env, .fell, cs ++ pr i⟩)
    (env : Env) (cs : Calls) (hlen : Env.read? env "len(res)" = some (.int n))
    (hP0 : P (Env.write (Env.write env "#len(res)" (.int n)) "idx" (.int 0)))
    (F : Nat) (hF : n.toNat + fb + 5 ≤ F) :
    ∃ env', execFrom o F (printPart row) env cs = ⟨env', .fell, cs ++ rows pr 0 n.toNat⟩ ∧
      (∀ x, x ≠ "idx" → x ≠ "#len(res)" → Env.read? env' x = Env.read? env x) := by
  obtain ⟨F1, rfl⟩ : ∃ F1, F = F1 + 1 := ⟨F - 1, by omega⟩
  obtain ⟨F2, rfl⟩ : ∃ F2, F1 = F2 + 1 := ⟨F1 - 1, by omega⟩
  obtain ⟨F3, rfl⟩ : ∃ F3, F2 = F3 + 1 := ⟨F2 - 1, by omega⟩
  have hl2 : Env.read? (Env.write (Env.write env "#len(res)" (.int n)) "idx" (.int 0)) "#len(res)"
      = some (.int n) := by
    rw [read?_write_ne _ _ _ _ (by decide), read?_write_same]
  obtain ⟨env', h1, h2⟩ := rowLoop_run o row n hn fb P pr hP hrow n.toNat 0 _ cs hP0
    (read?_write_same _ _ _) hl2 (by omega) (by omega) (F3 + 1) (by omega)
  refine ⟨env', ?_, ?_⟩
  · unfold printPart
    rw [execFrom_seq, assign_run o (panics_var _ _ _)
        (show eval env (.var "len(res)" .int) = .int n by rw [eval_var, hlen]),
      seqK_fell, execFrom_seq, assign_run o (panics_lit _ _ _) (eval_lit _ _ _), seqK_fell, h1]
  · intro x hx hx2
    rw [h2 x hx, read?_write_ne _ _ _ _ (Ne.symm hx), read?_write_ne _ _ _ _ (Ne.symm hx2)]

/-- a read arm from the runs of its pieces -/
theorem readArmWith_run (o : Oracle) (v call fail row : GStmt) (env : Env) (cs : Calls)
    (mk callee : String) (args : List Val) (rv : Val) (e : String) (n : Int) (fb : Nat)
    (P : Env → Prop) (pr : Int → Calls) (failCalls : Calls)
    (hv : execFrom o 1 v env cs = ⟨Env.write env "res" (.sym "nil"), .fell, cs ++ [(mk, [])]⟩)
    (hc : execFrom o 2 call (Env.write env "res" (.sym "nil")) (cs ++ [(mk, [])]) =
      ⟨Env.write (Env.write (Env.write env "res" (.sym "nil")) "res" rv) "err" (.sym e), .fell,
        (cs ++ [(mk, [])]) ++ [(callee, args)]⟩)
    (hf : e ≠ "nil" → execFrom o 1 fail
        (Env.write (Env.write (Env.write env "res" (.sym "nil")) "res" rv) "err" (.sym e))
        ((cs ++ [(mk, [])]) ++ [(callee, args)]) =
      ⟨Env.write (Env.write (Env.write env "res" (.sym "nil")) "res" rv) "err" (.sym e), .fell,
        ((cs ++ [(mk, [])]) ++ [(callee, args)]) ++ failCalls⟩)
    (hnil : Env.read? env "nil" = some (.sym "nil"))
    (hlen : Env.read? env "len(res)" = some (.int n)) (h0 : 0 ≤ n) (hn : n < 9223372036854775808)
    (hP : ∀ env v, P env → P (Env.write env "idx" v))
    (hP0 : e = "nil" → P (Env.write (Env.write
      (Env.write (Env.write (Env.write env "res" (.sym "nil")) "res" rv) "err" (.sym e))
      "#len(res)" (.int n)) "idx" (.int 0)))
    (hrow : ∀ env cs i, P env → Env.read? env "idx" = some (.int i) → 0 ≤ i → i < n →
      execFrom o fb row env cs = ⟨env, .fell, cs ++ pr i⟩)
    (F : Nat) (hF : n.toNat + fb + 8 ≤ F) :
    ∃ env', execFrom o F (readArmWith v call fail row) env cs =
        ⟨env', .fell, cs ++ [(mk, []), (callee, args)] ++
          (if e = "nil" then rows pr 0 n.toNat else failCalls)⟩ ∧
      (∀ x, x ≠ "res" → x ≠ "err" → x ≠ "#len(res)" → x ≠ "idx" →
        Env.read? env' x = Env.read? env x) := by
  obtain ⟨F1, rfl⟩ : ∃ F1, F = F1 + 1 := ⟨F - 1, by omega⟩
  obtain ⟨F2, rfl⟩ : ∃ F2, F1 = F2 + 1 := ⟨F1 - 1, by omega⟩
  obtain ⟨F3, rfl⟩ : ∃ F3, F2 = F3 + 1 := ⟨F2 - 1, by omega⟩
  have hv' := lift o hv fell_ne_oof (m := F3 + 2) (by omega)
  have hc' := lift o hc fell_ne_oof (m := F3 + 1) (by omega)
  have he2 : Env.read? (Env.write (Env.write (Env.write env "res" (.sym "nil")) "res" rv) "err" (.sym e))
      "err" = some (.sym e) := read?_write_same _ _ _
  have hn2 : Env.read? (Env.write (Env.write (Env.write env "res" (.sym "nil")) "res" rv) "err" (.sym e))
      "nil" = some (.sym "nil") := by
    rw [read?_write_ne _ _ _ _ (by decide), read?_write_ne _ _ _ _ (by decide),
      read?_write_ne _ _ _ _ (by decide)]; exact hnil
  obtain ⟨hp1, ht⟩ := errNotNil_eval he2 hn2
  have frame3 : ∀ x, x ≠ "res" → x ≠ "err" →
      Env.read? (Env.write (Env.write (Env.write env "res" (.sym "nil")) "res" rv) "err" (.sym e)) x
        = Env.read? env x := by
    intro x h1 h2
    rw [read?_write_ne _ _ _ _ (Ne.symm h2), read?_write_ne _ _ _ _ (Ne.symm h1),
      read?_write_ne _ _ _ _ (Ne.symm h1)]
  by_cases hen : e = "nil"
  · have hlen2 : Env.read? (Env.write (Env.write (Env.write env "res" (.sym "nil")) "res" rv) "err" (.sym e))
        "len(res)" = some (.int n) := by
      rw [frame3 _ (by decide) (by decide)]; exact hlen
    obtain ⟨env', h1, h2⟩ := printPart_run o row n h0 hn fb P pr hP hrow _
      ((cs ++ [(mk, [])]) ++ [(callee, args)]) hlen2 (hP0 hen) F3 (by omega)
    refine ⟨env', ?_, ?_⟩
    · unfold readArmWith
      rw [execFrom_seq, hv', seqK_fell, execFrom_seq, hc', seqK_fell,
        ite_run_false o hp1 (by rw [ht, decide_eq_false (by simpa using hen)]), h1, if_pos hen]
      simp only [List.append_assoc, List.cons_append, List.nil_append]
    · intro x hx1 hx2 hx3 hx4
      rw [h2 x hx4 hx3, frame3 x hx1 hx2]
  · have hf' := lift o (hf hen) fell_ne_oof (m := F3) (by omega)
    refine ⟨Env.write (Env.write (Env.write env "res" (.sym "nil")) "res" rv) "err" (.sym e), ?_, ?_⟩
    · unfold readArmWith
      rw [execFrom_seq, hv', seqK_fell, execFrom_seq, hc', seqK_fell,
        ite_run_true o hp1 (by rw [ht, decide_eq_true (by simpa using hen)]), hf', if_neg hen]
      simp only [List.append_assoc, List.cons_append, List.nil_append]
    · intro x hx1 hx2 _ _
      exact frame3 x hx1 hx2

/-- one round of the run loop when the selected arm falls through -/
theorem round_run_fell (o : Oracle) (env : Env) (cs : Calls) (v j : Int) (fa : Nat)
    (env2 : Env) (cs2 : Calls)
    (hop : Env.read? env "o.op" = some (.int v))
    (harm : execFrom o fa (selectArm cliTable armDefault v)
      (Env.write env "o" (Env.read env "&runList[opIdx]")) cs = ⟨env2, .fell, cs2⟩)
    (hj : Env.read? env2 "opIdx" = some (.int j)) (hj0 : -9223372036854775808 ≤ j + 1)
    (hj1 : j + 1 < 9223372036854775808) (F : Nat) (hF : fa + 31 ≤ F) :
    execFrom o F cliRound env cs = ⟨Env.write env2 "opIdx" (.int (j + 1)), .fell, cs2⟩ := by
  obtain ⟨F1, rfl⟩ : ∃ F1, F = F1 + 1 := ⟨F - 1, by omega⟩
  obtain ⟨F2, rfl⟩ : ∃ F2, F1 = F2 + 1 := ⟨F1 - 1, by omega⟩
  obtain ⟨F3, rfl⟩ : ∃ F3, F2 = F3 + 1 := ⟨F2 - 1, by omega⟩
  obtain ⟨F4, rfl⟩ : ∃ F4, F3 = F4 + 1 := ⟨F3 - 1, by omega⟩
  obtain ⟨F5, rfl⟩ : ∃ F5, F4 = F5 + 1 := ⟨F4 - 1, by omega⟩
  have hop1 : Env.read? (Env.write env "o" (Env.read env "&runList[opIdx]")) "o.op" = some (.int v) := by
    rw [read?_write_ne _ _ _ _ (by decide)]; exact hop
  have hsw := mkSwitch_run o armDefault _ cs v hop1 cliTable fa (F5 + 1) (by simp [cliTable]; omega)
    (by rw [harm]; exact fell_ne_oof)
  rw [round_frame, switch_frame]
  unfold roundWith
  rw [execFrom_seq, execFrom_seq, assign_run o (panics_call _ _ _) (eval_call _ _ _),
    seqK_fell, execFrom_loop, execFrom_seq, hsw, harm, seqK_fell, execFrom_brk, loopK_broke, seqK_fell]
  rw [opIdxInc_run o hj hj0 hj1]

/-- … and when it stops at a call the oracle does not answer (`os.Exit`): the process ends there -/
theorem round_run_stopped (o : Oracle) (env : Env) (cs : Calls) (v : Int) (fa : Nat)
    (env2 : Env) (cs2 : Calls) (f : String) (args : List Val)
    (hop : Env.read? env "o.op" = some (.int v))
    (harm : execFrom o fa (selectArm cliTable armDefault v)
      (Env.write env "o" (Env.read env "&runList[opIdx]")) cs = ⟨env2, .stoppedAt f args, cs2⟩)
    (F : Nat) (hF : fa + 31 ≤ F) :
    execFrom o F cliRound env cs = ⟨env2, .stoppedAt f args, cs2⟩ := by
  obtain ⟨F1, rfl⟩ : ∃ F1, F = F1 + 1 := ⟨F - 1, by omega⟩
  obtain ⟨F2, rfl⟩ : ∃ F2, F1 = F2 + 1 := ⟨F1 - 1, by omega⟩
  obtain ⟨F3, rfl⟩ : ∃ F3, F2 = F3 + 1 := ⟨F2 - 1, by omega⟩
  obtain ⟨F4, rfl⟩ : ∃ F4, F3 = F4 + 1 := ⟨F3 - 1, by omega⟩
  obtain ⟨F5, rfl⟩ : ∃ F5, F4 = F5 + 1 := ⟨F4 - 1, by omega⟩
  have hop1 : Env.read? (Env.write env "o" (Env.read env "&runList[opIdx]")) "o.op" = some (.int v) := by
    rw [read?_write_ne _ _ _ _ (by decide)]; exact hop
  have hsw := mkSwitch_run o armDefault _ cs v hop1 cliTable fa (F5 + 1) (by simp [cliTable]; omega)
    (by rw [harm]; exact fun h => nomatch h)
  rw [round_frame, switch_frame]
  unfold roundWith
  rw [execFrom_seq, execFrom_seq, assign_run o (panics_call _ _ _) (eval_call _ _ _),
    seqK_fell, execFrom_loop, execFrom_seq, hsw, harm, seqK_stopped, loopK_stopped, seqK_stopped]

/-- the loop head: another round while `opIdx < len(runList)`, otherwise the loop is left and
    `main` returns (`run_is_last`) -/
theorem head_run (o : Oracle) (env : Env) (cs : Calls) (j len : Int)
    (hj : Env.read? env "opIdx" = some (.int j)) (hl : Env.read? env "len(runList)" = some (.int len))
    (F : Nat) :
    execFrom o (F + 2) cliHead env cs =
      if j < len then execFrom o (F + 1) cliRound env cs else ⟨env, .broke, cs⟩ := by
  rw [head_frame, execFrom_ite]
  simp only [opIdxLt, panics_cmp, panics_var, Bool.or_self, Bool.false_eq_true, ↓reduceIte, eval_cmp,
    eval_var, hj, hl, eval_var_some, cmpop_int_lt, truth_ofBool, iteK_decide, execFrom_brk]

/-! ### 4. oracle -/

/-- the results of the calls of the run loop: reads return `(rv, e)`, writes `e`; `os.Exit` is
    undefined (the process ends there) -/
def cliOracle (rv : Val) (e : String) : Oracle := fun f _ =>
  if f = "fmt.Printf" then some []
  else if f = "var []bool" then some [.sym "nil"]
  else if f = "var []uint16" then some [.sym "nil"]
  else if f = "var []uint32" then some [.sym "nil"]
  else if f = "var []float32" then some [.sym "nil"]
  else if f = "var []uint64" then some [.sym "nil"]
  else if f = "var []float64" then some [.sym "nil"]
  else if f = "var []byte" then some [.sym "nil"]
  else if f = "client.ReadCoils" then some [rv, .sym e]
  else if f = "client.ReadDiscreteInputs" then some [rv, .sym e]
  else if f = "client.ReadRegisters" then some [rv, .sym e]
  else if f = "client.ReadUint32s" then some [rv, .sym e]
  else if f = "client.ReadFloat32s" then some [rv, .sym e]
  else if f = "client.ReadUint64s" then some [rv, .sym e]
  else if f = "client.ReadFloat64s" then some [rv, .sym e]
  else if f = "client.ReadBytes" then some [rv, .sym e]
  else if f = "client.WriteCoil" then some [.sym e]
  else if f = "client.WriteRegister" then some [.sym e]
  else if f = "client.WriteUint32" then some [.sym e]
  else if f = "client.WriteFloat32" then some [.sym e]
  else if f = "client.WriteUint64" then some [.sym e]
  else if f = "client.WriteFloat64" then some [.sym e]
  else if f = "client.WriteBytes" then some [.sym e]
  else if f = "client.SetUnitId" then some []
  else if f = "time.Sleep" then some []
  else if f = "performBoolScan" then some []
  else if f = "performRegisterScan" then some []
  else if f = "performUnitIdScan" then some []
  else if f = "performPing" then some []
  else none

/-! ### 5. the arms -/

/-- argument `k` of a call statement, its callee, the text of a leaf -/
def argN (k : Nat) : GStmt → GExpr
  | .bindCall _ _ as => as.getD k (.lit 0 .other)
  | _ => .lit 0 .other
def calleeOf : GStmt → String
  | .bindCall _ f _ => f
  | _ => ""
def leafName : GExpr → String
  | .var x _ | .call x _ => x
  | _ => ""

/-- marker, flag leaf, callee and argument values of the read arm `k` (0 bools, 1 uint16/int16,
    2 uint32/int32, 3 float32, 4 uint64/int64, 5 float64, 6 bytes) -/
def readMarker : Nat → String
  | 0 => "var []bool" | 1 => "var []uint16" | 2 => "var []uint32" | 3 => "var []float32"
  | 4 => "var []uint64" | 5 => "var []float64" | _ => "var []byte"
def readFlagLeaf : Nat → String
  | 0 => "o.isCoil" | _ => "o.isHoldingReg"
def readCallee : Nat → Bool → String
  | 0, flag => if flag then "client.ReadCoils" else "client.ReadDiscreteInputs"
  | 1, _ => "client.ReadRegisters" | 2, _ => "client.ReadUint32s" | 3, _ => "client.ReadFloat32s"
  | 4, _ => "client.ReadUint64s" | 5, _ => "client.ReadFloat64s" | _, _ => "client.ReadBytes"
/-- `(o.addr, o.quantity + 1 [uint16], HOLDING_REGISTER = 0 | INPUT_REGISTER = 1)` -/
def readArgs : Nat → Bool → Int → Int → List Val
  | 0, _, a, q => [.int a, .int ((q + 1) % 65536)]
  | _, flag, a, q => [.int a, .int ((q + 1) % 65536), .int (if flag then 0 else 1)]

/-- `o.addr + uint16(idx)` -/
def col1 (a i : Int) : Val := .int ((a + i % 65536) % 65536)
/-- `o.addr + uint16(idx) * s` -/
def colS (a i s : Int) : Val := .int ((a + i % 65536 * s % 65536) % 65536)
/-- `o.addr + uint16(idx / 2)` (idx ≥ 0) -/
def colB (a i : Int) : Val := .int ((a + i / 2 % 65536) % 65536)

/-- the text of the format literal of a `Printf` statement -/
def fmtOf (s : GStmt) : String := leafName (argN 0 s)

/-- the row statement's `Printf`s -/
def rowStmt (k : Nat) : GStmt := armRow (arm k)
def pf (env0 : Env) (s : GStmt) (args : List Val) : String × List Val :=
  ("fmt.Printf", Env.read env0 (fmtOf s) :: args)

/-- the four `Printf`s of the `bytes` row and the `decodeString(…)` leaf -/
def bytesHead : GStmt := iT (sA (rowStmt 6))
def bytesByte : GStmt := sA (sB (rowStmt 6))
def bytesTail : GStmt := iT (sB (sB (rowStmt 6)))
def bytesGap : GStmt := iT (iE (sB (sB (rowStmt 6))))
def decodeLeaf : String := leafName (argN 1 bytesTail)

/-- the calls of row `i` of read arm `k` (`x`: the leaf `res[idx]`, `opv`: `o.op`, `n`: `len(res)`) -/
def rowCalls : Nat → Env → Int → Int → Int → Val → Int → Calls
  | 0, env0, a, _, _, x, i => [pf env0 (rowStmt 0) [col1 a i, col1 a i, x]]
  | 1, env0, a, opv, _, x, i =>
    [if opv = 2 then pf env0 (iT (rowStmt 1)) [col1 a i, col1 a i, x, x]
     else pf env0 (iE (rowStmt 1)) [col1 a i, col1 a i, x, convVal .i16 x]]
  | 2, env0, a, opv, _, x, i =>
    [if opv = 4 then pf env0 (iT (rowStmt 2)) [colS a i 2, colS a i 2, x, x]
     else pf env0 (iE (rowStmt 2)) [colS a i 2, colS a i 2, x, convVal .i32 x]]
  | 3, env0, a, _, _, x, i => [pf env0 (rowStmt 3) [colS a i 2, colS a i 2, x]]
  | 4, env0, a, opv, _, x, i =>
    [if opv = 7 then pf env0 (iT (rowStmt 4)) [colS a i 4, colS a i 4, x, x]
     else pf env0 (iE (rowStmt 4)) [colS a i 4, colS a i 4, x, convVal .i64 x]]
  | 5, env0, a, _, _, x, i => [pf env0 (rowStmt 5) [colS a i 4, colS a i 4, x]]
  | _, env0, a, _, n, x, i =>
    (if i % 16 = 0 then [pf env0 bytesHead [colB a i, colB a i]] else []) ++
    [pf env0 bytesByte [x]] ++
    (if i % 16 = 15 ∨ i = n - 1 then [pf env0 bytesTail [Env.read env0 decodeLeaf]]
     else if i % 16 = 7 then [pf env0 bytesGap []] else [])

/-- the failure message of read arm `k` -/
def readFailCalls (k : Nat) (env0 : Env) (e : String) : Calls :=
  [pf env0 (armFail (arm k)) [.sym e]]

end Modbus.GoEval.CliRun

/-- `cli_eval [extra]`: `go_eval` with the accessors of the run loop unfolded -/
syntax "cli_eval" " [" Lean.Parser.Tactic.simpLemma,* "]" : tactic
macro_rules
  | `(tactic| cli_eval [$ls,*]) => `(tactic|
    go_eval [Modbus.GoEval.CliRun.armVar, Modbus.GoEval.CliRun.armCall, Modbus.GoEval.CliRun.armAfter,
      Modbus.GoEval.CliRun.armFail, Modbus.GoEval.CliRun.armPrint, Modbus.GoEval.CliRun.armLoopHead,
      Modbus.GoEval.CliRun.armRow, Modbus.GoEval.CliRun.armCallT, Modbus.GoEval.CliRun.armCallE,
      Modbus.GoEval.CliRun.wCall, Modbus.GoEval.CliRun.wFail, Modbus.GoEval.CliRun.wOk,
      Modbus.GoEval.CliRun.rowStmt, Modbus.GoEval.CliRun.bytesHead, Modbus.GoEval.CliRun.bytesByte,
      Modbus.GoEval.CliRun.bytesTail, Modbus.GoEval.CliRun.bytesGap, Modbus.GoEval.CliRun.decodeLeaf,
      Modbus.GoEval.CliRun.fmtOf, Modbus.GoEval.CliRun.pf, Modbus.GoEval.CliRun.argN,
      Modbus.GoEval.CliRun.calleeOf, Modbus.GoEval.CliRun.leafName,
      Modbus.GoEval.CliRun.col1, Modbus.GoEval.CliRun.colS, Modbus.GoEval.CliRun.colB,
      Modbus.GoEval.CliRun.arm, Modbus.GoEval.CliRun.armDefault, Modbus.GoEval.CliRun.nE,
      Modbus.GoEval.CliRun.iT, Modbus.GoEval.CliRun.iE, Modbus.GoEval.CliRun.iC,
      Modbus.GoEval.CliRun.sA, Modbus.GoEval.CliRun.sB, Modbus.GoEval.CliRun.lB,
      Modbus.GoEval.CliRun.cliSwitch, Modbus.GoEval.CliRun.cliRound, Modbus.GoEval.CliRun.cliHead,
      Modbus.GoEval.CliRun.cliRunPart, Modbus.GoEval.CliRun.findInit, Modbus.Gen.gs_cli_main,
      Modbus.GoEval.CliRun.cliOracle, List.getD_cons_zero, List.getD_cons_succ,
      Int.reduceEq, Int.reduceNeg, $ls,*])

/-- the same with `wrap` left folded (give `wrap_int`-style equations in the list) -/
syntax "cli_eval_nowrap" " [" Lean.Parser.Tactic.simpLemma,* "]" : tactic
macro_rules
  | `(tactic| cli_eval_nowrap [$ls,*]) => `(tactic|
    go_eval_nowrap [Modbus.GoEval.CliRun.armVar, Modbus.GoEval.CliRun.armCall, Modbus.GoEval.CliRun.armAfter,
      Modbus.GoEval.CliRun.armFail, Modbus.GoEval.CliRun.armPrint, Modbus.GoEval.CliRun.armLoopHead,
      Modbus.GoEval.CliRun.armRow, Modbus.GoEval.CliRun.armCallT, Modbus.GoEval.CliRun.armCallE,
      Modbus.GoEval.CliRun.wCall, Modbus.GoEval.CliRun.wFail, Modbus.GoEval.CliRun.wOk,
      Modbus.GoEval.CliRun.rowStmt, Modbus.GoEval.CliRun.bytesHead, Modbus.GoEval.CliRun.bytesByte,
      Modbus.GoEval.CliRun.bytesTail, Modbus.GoEval.CliRun.bytesGap, Modbus.GoEval.CliRun.decodeLeaf,
      Modbus.GoEval.CliRun.fmtOf, Modbus.GoEval.CliRun.pf, Modbus.GoEval.CliRun.argN,
      Modbus.GoEval.CliRun.calleeOf, Modbus.GoEval.CliRun.leafName,
      Modbus.GoEval.CliRun.col1, Modbus.GoEval.CliRun.colS, Modbus.GoEval.CliRun.colB,
      Modbus.GoEval.CliRun.arm, Modbus.GoEval.CliRun.armDefault, Modbus.GoEval.CliRun.nE,
      Modbus.GoEval.CliRun.iT, Modbus.GoEval.CliRun.iE, Modbus.GoEval.CliRun.iC,
      Modbus.GoEval.CliRun.sA, Modbus.GoEval.CliRun.sB, Modbus.GoEval.CliRun.lB,
      Modbus.GoEval.CliRun.cliSwitch, Modbus.GoEval.CliRun.cliRound, Modbus.GoEval.CliRun.cliHead,
      Modbus.GoEval.CliRun.cliRunPart, Modbus.GoEval.CliRun.findInit, Modbus.Gen.gs_cli_main,
      Modbus.GoEval.CliRun.cliOracle, List.getD_cons_zero, List.getD_cons_succ,
      Int.reduceEq, Int.reduceNeg, $ls,*])

namespace Modbus.GoEval.CliRun
open Modbus Modbus.Gen Modbus.GoEval

/-- the leaves a row reads, apart from `idx` -/
structure RowLeaves (env env0 : Env) (a opv n : Int) (x : Val) : Prop where
  addr : Env.read? env "o.addr" = some (.int a)
  op : Env.read? env "o.op" = some (.int opv)
  elem : Env.read? env "res[idx]" = some x
  len : Env.read? env "len(res)" = some (.int n)
  other : ∀ t, t ≠ "idx" → t ≠ "#len(res)" → t ≠ "res" → t ≠ "err" → Env.read? env t = Env.read? env0 t

theorem RowLeaves.write_idx {env env0 : Env} {a opv n : Int} {x : Val} (h : RowLeaves env env0 a opv n x)
    (v : Val) : RowLeaves (Env.write env "idx" v) env0 a opv n x where
  addr := by rw [read?_write_ne _ _ _ _ (by decide)]; exact h.addr
  op := by rw [read?_write_ne _ _ _ _ (by decide)]; exact h.op
  elem := by rw [read?_write_ne _ _ _ _ (by decide)]; exact h.elem
  len := by rw [read?_write_ne _ _ _ _ (by decide)]; exact h.len
  other := by
    intro t h1 h2 h3 h4
    rw [read?_write_ne _ _ _ _ (Ne.symm h1)]; exact h.other t h1 h2 h3 h4

/-- the format literals (leaf texts: Go source text, quotes included); `formats_tie` checks them
    against the generated term -/
abbrev fmtBools : String := "\"0x%04x\\t%-5v : %v\\n\""
abbrev fmt16 : String := "\"0x%04x\\t%-5v : 0x%04x\\t%v\\n\""
abbrev fmt32 : String := "\"0x%04x\\t%-5v : 0x%08x\\t%v\\n\""
abbrev fmtFloat : String := "\"0x%04x\\t%-5v : %f\\n\""
abbrev fmt64 : String := "\"0x%04x\\t%-5v : 0x%016x\\t%v\\n\""
abbrev fmtBytesHead : String := "\"0x%04x\\t%-5v : \""
abbrev fmtBytesByte : String := "\"%02x\""
abbrev fmtBytesTail : String := "\" <%s>\\n\""
abbrev fmtBytesGap : String := "\" \""
abbrev decodeText : String := "decodeString(res[(idx / 16 * 16) : (idx/16*16)+(idx%16)+1])"

theorem formats_tie :
    fmtOf (rowStmt 0) = fmtBools ∧
    fmtOf (iT (rowStmt 1)) = fmt16 ∧ fmtOf (iE (rowStmt 1)) = fmt16 ∧
    fmtOf (iT (rowStmt 2)) = fmt32 ∧ fmtOf (iE (rowStmt 2)) = fmt32 ∧
    fmtOf (rowStmt 3) = fmtFloat ∧
    fmtOf (iT (rowStmt 4)) = fmt64 ∧ fmtOf (iE (rowStmt 4)) = fmt64 ∧
    fmtOf (rowStmt 5) = fmtFloat ∧
    fmtOf bytesHead = fmtBytesHead ∧ fmtOf bytesByte = fmtBytesByte ∧ fmtOf bytesTail = fmtBytesTail ∧
    fmtOf bytesGap = fmtBytesGap ∧ decodeLeaf = decodeText := by
  refine ⟨?_, ?_, ?_, ?_, ?_, ?_, ?_, ?_, ?_, ?_, ?_, ?_, ?_, ?_⟩ <;> rfl

theorem row0 (rv : Val) (e : String) (env env0 : Env) (cs : Calls) (a opv n i : Int) (x : Val)
    (h : RowLeaves env env0 a opv n x) (hi : Env.read? env "idx" = some (.int i)) :
    execFrom (cliOracle rv e) 2 (armRow (arm 0)) env cs = ⟨env, .fell, cs ++ rowCalls 0 env0 a opv n x i⟩ := by
  have hf := h.other fmtBools (by decide) (by decide) (by decide) (by decide)
  cli_eval [rowCalls, h.addr, h.op, h.elem, hi, hf]

theorem row1 (rv : Val) (e : String) (env env0 : Env) (cs : Calls) (a opv n i : Int) (x : Val)
    (h : RowLeaves env env0 a opv n x) (hi : Env.read? env "idx" = some (.int i)) :
    execFrom (cliOracle rv e) 2 (armRow (arm 1)) env cs = ⟨env, .fell, cs ++ rowCalls 1 env0 a opv n x i⟩ := by
  have hf := h.other fmt16 (by decide) (by decide) (by decide) (by decide)
  by_cases h2 : opv = 2
  · cli_eval [rowCalls, h.addr, h.op, h.elem, hi, hf, h2]
  · cli_eval [rowCalls, h.addr, h.op, h.elem, hi, hf, h2]

theorem row2 (rv : Val) (e : String) (env env0 : Env) (cs : Calls) (a opv n i : Int) (x : Val)
    (h : RowLeaves env env0 a opv n x) (hi : Env.read? env "idx" = some (.int i)) :
    execFrom (cliOracle rv e) 2 (armRow (arm 2)) env cs = ⟨env, .fell, cs ++ rowCalls 2 env0 a opv n x i⟩ := by
  have hf := h.other fmt32 (by decide) (by decide) (by decide) (by decide)
  by_cases h2 : opv = 4
  · cli_eval [rowCalls, h.addr, h.op, h.elem, hi, hf, h2]
  · cli_eval [rowCalls, h.addr, h.op, h.elem, hi, hf, h2]

theorem row3 (rv : Val) (e : String) (env env0 : Env) (cs : Calls) (a opv n i : Int) (x : Val)
    (h : RowLeaves env env0 a opv n x) (hi : Env.read? env "idx" = some (.int i)) :
    execFrom (cliOracle rv e) 2 (armRow (arm 3)) env cs = ⟨env, .fell, cs ++ rowCalls 3 env0 a opv n x i⟩ := by
  have hf := h.other fmtFloat (by decide) (by decide) (by decide) (by decide)
  cli_eval [rowCalls, h.addr, h.op, h.elem, hi, hf]

theorem row4 (rv : Val) (e : String) (env env0 : Env) (cs : Calls) (a opv n i : Int) (x : Val)
    (h : RowLeaves env env0 a opv n x) (hi : Env.read? env "idx" = some (.int i)) :
    execFrom (cliOracle rv e) 2 (armRow (arm 4)) env cs = ⟨env, .fell, cs ++ rowCalls 4 env0 a opv n x i⟩ := by
  have hf := h.other fmt64 (by decide) (by decide) (by decide) (by decide)
  by_cases h2 : opv = 7
  · cli_eval [rowCalls, h.addr, h.op, h.elem, hi, hf, h2]
  · cli_eval [rowCalls, h.addr, h.op, h.elem, hi, hf, h2]

theorem row5 (rv : Val) (e : String) (env env0 : Env) (cs : Calls) (a opv n i : Int) (x : Val)
    (h : RowLeaves env env0 a opv n x) (hi : Env.read? env "idx" = some (.int i)) :
    execFrom (cliOracle rv e) 2 (armRow (arm 5)) env cs = ⟨env, .fell, cs ++ rowCalls 5 env0 a opv n x i⟩ := by
  have hf := h.other fmtFloat (by decide) (by decide) (by decide) (by decide)
  cli_eval [rowCalls, h.addr, h.op, h.elem, hi, hf]

theorem row6 (rv : Val) (e : String) (env env0 : Env) (cs : Calls) (a opv n i : Int) (x : Val)
    (h : RowLeaves env env0 a opv n x) (hi : Env.read? env "idx" = some (.int i)) (h0 : 0 ≤ i)
    (h1 : i < 9223372036854775808) (hn0 : 0 ≤ n) (hn : n < 9223372036854775808) :
    execFrom (cliOracle rv e) 6 (armRow (arm 6)) env cs = ⟨env, .fell, cs ++ rowCalls 6 env0 a opv n x i⟩ := by
  have hf1 := h.other fmtBytesHead (by decide) (by decide) (by decide) (by decide)
  have hf2 := h.other fmtBytesByte (by decide) (by decide) (by decide) (by decide)
  have hf3 := h.other fmtBytesTail (by decide) (by decide) (by decide) (by decide)
  have hf4 := h.other fmtBytesGap (by decide) (by decide) (by decide) (by decide)
  have hd := h.other decodeText (by decide) (by decide) (by decide) (by decide)
  have w1 : wrap .int (i % 16) = i % 16 := wrap_int (by omega) (by omega)
  have w2 : wrap .int (i / 2) = i / 2 := wrap_int (by omega) (by omega)
  have w3 : wrap .int (n - 1) = n - 1 := wrap_int (by omega) (by omega)
  cli_eval_nowrap [rowCalls, h.addr, h.op, h.elem, h.len, hi, hf1, hf2, hf3, hf4, hd, tdiv_of_nonneg _ h0,
    tmod_of_nonneg _ h0, w1, w2, w3, wrap_u16_def, Bool.or_eq_true]
  repeat' split
  all_goals first
    | rfl
    | (exfalso; omega)
    | simp only [List.append_assoc, List.cons_append, List.nil_append, List.append_nil]

/-- the rows of all seven read arms -/
theorem row_run (k : Nat) (hk : k < 7) (rv : Val) (e : String) (env env0 : Env) (cs : Calls)
    (a opv n i : Int) (x : Val) (h : RowLeaves env env0 a opv n x)
    (hi : Env.read? env "idx" = some (.int i)) (h0 : 0 ≤ i) (h1 : i < n) (hn : n < 9223372036854775808) :
    execFrom (cliOracle rv e) 6 (armRow (arm k)) env cs = ⟨env, .fell, cs ++ rowCalls k env0 a opv n x i⟩ := by
  have : k = 0 ∨ k = 1 ∨ k = 2 ∨ k = 3 ∨ k = 4 ∨ k = 5 ∨ k = 6 := by omega
  rcases this with rfl | rfl | rfl | rfl | rfl | rfl | rfl
  · exact lift _ (row0 rv e env env0 cs a opv n i x h hi) fell_ne_oof (by omega)
  · exact lift _ (row1 rv e env env0 cs a opv n i x h hi) fell_ne_oof (by omega)
  · exact lift _ (row2 rv e env env0 cs a opv n i x h hi) fell_ne_oof (by omega)
  · exact lift _ (row3 rv e env env0 cs a opv n i x h hi) fell_ne_oof (by omega)
  · exact lift _ (row4 rv e env env0 cs a opv n i x h hi) fell_ne_oof (by omega)
  · exact lift _ (row5 rv e env env0 cs a opv n i x h hi) fell_ne_oof (by omega)
  · exact row6 rv e env env0 cs a opv n i x h hi h0 (by omega) (by omega) hn

/-- `var res []T`: `res` is nil again -/
theorem readVar_run (k : Nat) (hk : k < 7) (rv : Val) (e : String) (env : Env) (cs : Calls) :
    execFrom (cliOracle rv e) 1 (armVar (arm k)) env cs =
      ⟨Env.write env "res" (.sym "nil"), .fell, cs ++ [(readMarker k, [])]⟩ := by
  have : k = 0 ∨ k = 1 ∨ k = 2 ∨ k = 3 ∨ k = 4 ∨ k = 5 ∨ k = 6 := by omega
  rcases this with rfl | rfl | rfl | rfl | rfl | rfl | rfl <;> cli_eval [readMarker]

/-- the client call of a read arm, for all values of the fields it reads -/
theorem readCall_run (k : Nat) (hk : k < 7) (rv : Val) (e : String) (env : Env) (cs : Calls)
    (a q : Int) (flag : Bool)
    (hflag : Env.read? env (readFlagLeaf k) = some (.ofBool flag))
    (ha : Env.read? env "o.addr" = some (.int a)) (hq : Env.read? env "o.quantity" = some (.int q)) :
    execFrom (cliOracle rv e) 2 (armCall (arm k)) env cs =
      ⟨Env.write (Env.write env "res" rv) "err" (.sym e), .fell,
        cs ++ [(readCallee k flag, readArgs k flag a q)]⟩ := by
  have : k = 0 ∨ k = 1 ∨ k = 2 ∨ k = 3 ∨ k = 4 ∨ k = 5 ∨ k = 6 := by omega
  rcases this with rfl | rfl | rfl | rfl | rfl | rfl | rfl <;> simp only [readFlagLeaf] at hflag <;>
    cases flag <;> cli_eval [readCallee, readArgs, hflag, ha, hq]

abbrev fmtFailBools : String := "\"failed to read coils/discrete inputs: %v\\n\""
abbrev fmtFailRegs : String := "\"failed to read holding/input registers: %v\\n\""

theorem readFail_run (k : Nat) (hk : k < 7) (rv : Val) (e : String) (env env0 : Env) (cs : Calls)
    (e' : String) (herr : Env.read? env "err" = some (.sym e'))
    (hfmt : ∀ t, t ≠ "idx" → t ≠ "#len(res)" → t ≠ "res" → t ≠ "err" → Env.read? env t = Env.read? env0 t) :
    execFrom (cliOracle rv e) 1 (armFail (arm k)) env cs = ⟨env, .fell, cs ++ readFailCalls k env0 e'⟩ := by
  have hf1 := hfmt fmtFailBools (by decide) (by decide) (by decide) (by decide)
  have hf2 := hfmt fmtFailRegs (by decide) (by decide) (by decide) (by decide)
  have : k = 0 ∨ k = 1 ∨ k = 2 ∨ k = 3 ∨ k = 4 ∨ k = 5 ∨ k = 6 := by omega
  rcases this with rfl | rfl | rfl | rfl | rfl | rfl | rfl <;> cli_eval [readFailCalls, herr, hf1, hf2]

/-- a whole read arm: marker, ONE client call with the evaluated arguments, then either the failure
    message (non-nil error: nothing else, the arm falls through) or one row per element -/
theorem readArm_run (k : Nat) (hk : k < 7) (rv : Val) (e : String) (env : Env) (cs : Calls)
    (a q opv n : Int) (flag : Bool) (x : Val)
    (hflag : Env.read? env (readFlagLeaf k) = some (.ofBool flag))
    (ha : Env.read? env "o.addr" = some (.int a)) (hq : Env.read? env "o.quantity" = some (.int q))
    (hop : Env.read? env "o.op" = some (.int opv)) (hnil : Env.read? env "nil" = some (.sym "nil"))
    (hlen : Env.read? env "len(res)" = some (.int n)) (hx : Env.read? env "res[idx]" = some x)
    (h0 : 0 ≤ n) (hn : n < 9223372036854775808) (F : Nat) (hF : n.toNat + 14 ≤ F) :
    ∃ env', execFrom (cliOracle rv e) F (arm k) env cs =
        ⟨env', .fell, cs ++ [(readMarker k, []), (readCallee k flag, readArgs k flag a q)] ++
          (if e = "nil" then rows (rowCalls k env a opv n x) 0 n.toNat else readFailCalls k env e)⟩ ∧
      (∀ t, t ≠ "res" → t ≠ "err" → t ≠ "#len(res)" → t ≠ "idx" → Env.read? env' t = Env.read? env t) := by
  rw [readArm_shape k hk]
  have hk' : readFlagLeaf k ≠ "res" := by
    have : k = 0 ∨ k = 1 ∨ k = 2 ∨ k = 3 ∨ k = 4 ∨ k = 5 ∨ k = 6 := by omega
    rcases this with rfl | rfl | rfl | rfl | rfl | rfl | rfl <;> decide
  have frame3 : ∀ t, t ≠ "res" → t ≠ "err" →
      Env.read? (Env.write (Env.write (Env.write env "res" (.sym "nil")) "res" rv) "err" (.sym e)) t
        = Env.read? env t := by
    intro t h1 h2
    rw [read?_write_ne _ _ _ _ (Ne.symm h2), read?_write_ne _ _ _ _ (Ne.symm h1),
      read?_write_ne _ _ _ _ (Ne.symm h1)]
  have frame5 : ∀ t, t ≠ "res" → t ≠ "err" → t ≠ "#len(res)" → t ≠ "idx" →
      Env.read? (Env.write (Env.write (Env.write (Env.write (Env.write env "res" (.sym "nil")) "res" rv)
        "err" (.sym e)) "#len(res)" (.int n)) "idx" (.int 0)) t = Env.read? env t := by
    intro t h1 h2 h3 h4
    rw [read?_write_ne _ _ _ _ (Ne.symm h4), read?_write_ne _ _ _ _ (Ne.symm h3), frame3 t h1 h2]
  refine readArmWith_run (cliOracle rv e) _ _ _ _ env cs (readMarker k) (readCallee k flag)
    (readArgs k flag a q) rv e n 6 (fun env' => RowLeaves env' env a opv n x)
    (rowCalls k env a opv n x) (readFailCalls k env e)
    (readVar_run k hk rv e env cs) ?_ ?_ hnil hlen h0 hn (fun _ v h => h.write_idx v) ?_ ?_ F (by omega)
  · exact readCall_run k hk rv e _ _ a q flag
      (by rw [read?_write_ne _ _ _ _ (Ne.symm hk')]; exact hflag)
      (by rw [read?_write_ne _ _ _ _ (by decide)]; exact ha)
      (by rw [read?_write_ne _ _ _ _ (by decide)]; exact hq)
  · intro _
    exact readFail_run k hk rv e _ env _ e (read?_write_same _ _ _)
      (fun t _ _ h3 h4 => frame3 t h3 h4)
  · intro _
    exact {
      addr := by rw [frame5 _ (by decide) (by decide) (by decide) (by decide)]; exact ha
      op := by rw [frame5 _ (by decide) (by decide) (by decide) (by decide)]; exact hop
      elem := by rw [frame5 _ (by decide) (by decide) (by decide) (by decide)]; exact hx
      len := by rw [frame5 _ (by decide) (by decide) (by decide) (by decide)]; exact hlen
      other := fun t h1 h2 h3 h4 => frame5 t h3 h4 h2 h1 }
  · intro env' cs' i hp hi hi0 hin
    exact row_run k hk rv e env' env cs' a opv n i x hp hi hi0 hin hn

/-! write arms (7 coil, 8 uint16, 9 int16, 10 uint32, 11 int32, 12 float32, 13 uint64, 14 int64,
    15 float64, 16 bytes / string) -/

def writeCallee : Nat → String
  | 7 => "client.WriteCoil" | 8 => "client.WriteRegister" | 9 => "client.WriteRegister"
  | 10 => "client.WriteUint32" | 11 => "client.WriteUint32" | 12 => "client.WriteFloat32"
  | 13 => "client.WriteUint64" | 14 => "client.WriteUint64" | 15 => "client.WriteFloat64"
  | _ => "client.WriteBytes"
def writeValueLeaf : Nat → String
  | 7 => "o.coil" | 8 => "o.u16" | 9 => "o.u16" | 10 => "o.u32" | 11 => "o.u32" | 12 => "o.f32"
  | 13 => "o.u64" | 14 => "o.u64" | 15 => "o.f64" | _ => "o.bytes"
/-- the value as it is handed to `Printf`: the signed forms print `int16(o.u16)`, `int32(o.u32)`,
    `int64(o.u64)` -/
def writeShown : Nat → Val → Val
  | 9, v => convVal .i16 v | 11, v => convVal .i32 v | 14, v => convVal .i64 v | _, v => v
/-- arguments of the success message (`bytes`: the length is printed, not the value) -/
def writeOkArgs : Nat → Env → Int → Val → List Val
  | 7, _, a, v => [v, .int a] | 8, _, a, v => [v, .int a] | 9, _, a, v => [convVal .i16 v, .int a]
  | 10, _, a, v => [v, .int a] | 11, _, a, v => [convVal .i32 v, .int a] | 12, _, a, v => [v, .int a]
  | 13, _, a, v => [v, .int a] | 14, _, a, v => [convVal .i64 v, .int a] | 15, _, a, v => [v, .int a]
  | _, env0, a, _ => [Env.read env0 "len(o.bytes)", .int a]
/-- the message a write arm prints -/
def writePrintCalls (k : Nat) (env0 : Env) (a : Int) (v : Val) (e : String) : Calls :=
  if e = "nil" then [pf env0 (wOk (arm k)) (writeOkArgs k env0 a v)]
  else [pf env0 (wFail (arm k)) [writeShown k v, .int a, .sym e]]

/-- a whole write arm: ONE client call `(o.addr, value)`, then one message; the arm falls through
    whether or not the call failed -/
theorem writeArm_run (k : Nat) (h7 : 7 ≤ k) (h16 : k ≤ 16) (rv : Val) (e : String) (env : Env)
    (cs : Calls) (a : Int) (v : Val)
    (ha : Env.read? env "o.addr" = some (.int a)) (hv : Env.read? env (writeValueLeaf k) = some v)
    (hnil : Env.read? env "nil" = some (.sym "nil")) (F : Nat) (hF : 5 ≤ F) :
    execFrom (cliOracle rv e) F (arm k) env cs =
      ⟨Env.write env "err" (.sym e), .fell,
        cs ++ (writeCallee k, [.int a, v]) :: writePrintCalls k env a v e⟩ := by
  refine lift _ ?_ fell_ne_oof hF
  have : k = 7 ∨ k = 8 ∨ k = 9 ∨ k = 10 ∨ k = 11 ∨ k = 12 ∨ k = 13 ∨ k = 14 ∨ k = 15 ∨ k = 16 := by omega
  by_cases hen : e = "nil"
  · subst hen
    rcases this with rfl | rfl | rfl | rfl | rfl | rfl | rfl | rfl | rfl | rfl <;>
      simp only [writeValueLeaf] at hv <;>
      cli_eval [writeCallee, writeShown, writeOkArgs, writePrintCalls, ha, hv, hnil, ne_eq, not_true_eq_false,
        List.append_assoc]
    cases Env.read? env "len(o.bytes)" <;> simp
  · rcases this with rfl | rfl | rfl | rfl | rfl | rfl | rfl | rfl | rfl | rfl <;>
      simp only [writeValueLeaf] at hv <;>
      cli_eval [writeCallee, writeShown, writeOkArgs, writePrintCalls, ha, hv, hnil, hen, ne_eq,
        not_false_eq_true, List.append_assoc]

/-! the remaining arms -/

/-- `sleep`: no client call -/
theorem sleep_run (rv : Val) (e : String) (env : Env) (cs : Calls) (F : Nat) (hF : 1 ≤ F) :
    execFrom (cliOracle rv e) F (arm 17) env cs =
      ⟨env, .fell, cs ++ [("time.Sleep", [Env.read env "o.duration"])]⟩ := by
  refine lift _ ?_ fell_ne_oof hF
  cli_eval []
  cases Env.read? env "o.duration" <;> simp [unboundVar]

/-- `setUnitId`: `client.SetUnitId(o.unitId)`, no request -/
theorem setUnitId_run (rv : Val) (e : String) (env : Env) (cs : Calls) (F : Nat) (hF : 1 ≤ F) :
    execFrom (cliOracle rv e) F (arm 18) env cs =
      ⟨env, .fell, cs ++ [("client.SetUnitId", [Env.read env "o.unitId"])]⟩ := by
  refine lift _ ?_ fell_ne_oof hF
  cli_eval []
  cases Env.read? env "o.unitId" <;> simp

/-- `repeat`: `opIdx = -1` (the increment at the end of the round makes it 0: the list starts over) -/
theorem repeat_run (rv : Val) (e : String) (env : Env) (cs : Calls) (F : Nat) (hF : 1 ≤ F) :
    execFrom (cliOracle rv e) F (arm 19) env cs = ⟨Env.write env "opIdx" (.int (-1)), .fell, cs⟩ := by
  refine lift _ ?_ fell_ne_oof hF
  cli_eval []

/-- `date`: one line, no client call -/
theorem date_run (rv : Val) (e : String) (env : Env) (cs : Calls) (F : Nat) (hF : 1 ≤ F) :
    execFrom (cliOracle rv e) F (arm 20) env cs =
      ⟨env, .fell, cs ++ [pf env (arm 20) [Env.read env "time.Now().Format(time.RFC3339)"]]⟩ := by
  refine lift _ ?_ fell_ne_oof hF
  cli_eval []

/-- `scan:<coils|di>`: `performBoolScan(client, o.isCoil)` -/
theorem scanBools_run (rv : Val) (e : String) (env : Env) (cs : Calls) (F : Nat) (hF : 1 ≤ F)
    (hc : Env.read? env "client" = some (.sym "client")) :
    execFrom (cliOracle rv e) F (arm 21) env cs =
      ⟨env, .fell, cs ++ [("performBoolScan", [.sym "client", Env.read env "o.isCoil"])]⟩ := by
  refine lift _ ?_ fell_ne_oof hF
  cli_eval [hc]
  cases Env.read? env "o.isCoil" <;> simp

/-- `scan:<hr|ir>`: `performRegisterScan(client, o.isHoldingReg)` -/
theorem scanRegisters_run (rv : Val) (e : String) (env : Env) (cs : Calls) (F : Nat) (hF : 1 ≤ F)
    (hc : Env.read? env "client" = some (.sym "client")) :
    execFrom (cliOracle rv e) F (arm 22) env cs =
      ⟨env, .fell, cs ++ [("performRegisterScan", [.sym "client", Env.read env "o.isHoldingReg"])]⟩ := by
  refine lift _ ?_ fell_ne_oof hF
  cli_eval [hc]
  cases Env.read? env "o.isHoldingReg" <;> simp

/-- `scan:sid`: `performUnitIdScan(client)` -/
theorem scanUnitId_run (rv : Val) (e : String) (env : Env) (cs : Calls) (F : Nat) (hF : 1 ≤ F)
    (hc : Env.read? env "client" = some (.sym "client")) :
    execFrom (cliOracle rv e) F (arm 23) env cs =
      ⟨env, .fell, cs ++ [("performUnitIdScan", [.sym "client"])]⟩ := by
  refine lift _ ?_ fell_ne_oof hF
  cli_eval [hc]

/-- `ping`: `performPing(client, o.quantity, o.duration)` -/
theorem ping_run (rv : Val) (e : String) (env : Env) (cs : Calls) (F : Nat) (hF : 1 ≤ F)
    (hc : Env.read? env "client" = some (.sym "client")) :
    execFrom (cliOracle rv e) F (arm 24) env cs =
      ⟨env, .fell, cs ++ [("performPing", [.sym "client", Env.read env "o.quantity", Env.read env "o.duration"])]⟩ := by
  refine lift _ ?_ fell_ne_oof hF
  cli_eval [hc]
  cases Env.read? env "o.quantity" <;> cases Env.read? env "o.duration" <;> simp

/-- `default`: `"unknown operation %v\n"` is printed and the process exits with status 100 -/
theorem default_run (rv : Val) (e : String) (env : Env) (cs : Calls) (ov : Val) (F : Nat) (hF : 3 ≤ F)
    (ho : Env.read? env "o" = some ov) :
    execFrom (cliOracle rv e) F armDefault env cs =
      ⟨env, .stoppedAt "os.Exit" [.int 100], cs ++ [pf env (sA armDefault) [ov]]⟩ := by
  have h3 : execFrom (cliOracle rv e) 3 armDefault env cs =
      ⟨env, .stoppedAt "os.Exit" [.int 100], cs ++ [pf env (sA armDefault) [ov]]⟩ := by
    cli_eval [ho]
  exact lift _ h3 (fun h => nomatch h) hF

/-! ### 6. static facts -/

/-- the callees of an arm, in program order (all paths) -/
def callees (s : GStmt) : List String := (bindCalls s).map (·.2.1)

theorem callees_arms :
    callees (arm 0) = ["var []bool", "client.ReadCoils", "client.ReadDiscreteInputs", "fmt.Printf", "fmt.Printf"] ∧
    callees (arm 1) = ["var []uint16", "client.ReadRegisters", "client.ReadRegisters", "fmt.Printf", "fmt.Printf", "fmt.Printf"] ∧
    callees (arm 2) = ["var []uint32", "client.ReadUint32s", "client.ReadUint32s", "fmt.Printf", "fmt.Printf", "fmt.Printf"] ∧
    callees (arm 3) = ["var []float32", "client.ReadFloat32s", "client.ReadFloat32s", "fmt.Printf", "fmt.Printf"] ∧
    callees (arm 4) = ["var []uint64", "client.ReadUint64s", "client.ReadUint64s", "fmt.Printf", "fmt.Printf", "fmt.Printf"] ∧
    callees (arm 5) = ["var []float64", "client.ReadFloat64s", "client.ReadFloat64s", "fmt.Printf", "fmt.Printf"] ∧
    callees (arm 6) = ["var []byte", "client.ReadBytes", "client.ReadBytes", "fmt.Printf", "fmt.Printf", "fmt.Printf", "fmt.Printf", "fmt.Printf"] ∧
    callees (arm 7) = ["client.WriteCoil", "fmt.Printf", "fmt.Printf"] ∧
    callees (arm 8) = ["client.WriteRegister", "fmt.Printf", "fmt.Printf"] ∧
    callees (arm 9) = ["client.WriteRegister", "fmt.Printf", "fmt.Printf"] ∧
    callees (arm 10) = ["client.WriteUint32", "fmt.Printf", "fmt.Printf"] ∧
    callees (arm 11) = ["client.WriteUint32", "fmt.Printf", "fmt.Printf"] ∧
    callees (arm 12) = ["client.WriteFloat32", "fmt.Printf", "fmt.Printf"] ∧
    callees (arm 13) = ["client.WriteUint64", "fmt.Printf", "fmt.Printf"] ∧
    callees (arm 14) = ["client.WriteUint64", "fmt.Printf", "fmt.Printf"] ∧
    callees (arm 15) = ["client.WriteFloat64", "fmt.Printf", "fmt.Printf"] ∧
    callees (arm 16) = ["client.WriteBytes", "fmt.Printf", "fmt.Printf"] ∧
    callees (arm 17) = ["time.Sleep"] ∧ callees (arm 18) = ["client.SetUnitId"] ∧ callees (arm 19) = [] ∧
    callees (arm 20) = ["fmt.Printf"] ∧ callees (arm 21) = ["performBoolScan"] ∧
    callees (arm 22) = ["performRegisterScan"] ∧ callees (arm 23) = ["performUnitIdScan"] ∧
    callees (arm 24) = ["performPing"] ∧ callees armDefault = ["fmt.Printf", "os.Exit"] := by
  refine ⟨?_, ?_, ?_, ?_, ?_, ?_, ?_, ?_, ?_, ?_, ?_, ?_, ?_, ?_, ?_, ?_, ?_, ?_, ?_, ?_, ?_, ?_, ?_, ?_, ?_, ?_⟩ <;>
    decide +kernel

/-- no statement of the run loop is untranslated, and the only assignment to `opIdx` inside a round
    apart from the increment is `repeat`'s -/
theorem run_no_opaque : opaques cliRunPart = [] := by decide +kernel

end Modbus.GoEval.CliRun
