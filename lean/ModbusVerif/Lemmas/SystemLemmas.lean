import ModbusVerif.Model.System
import ModbusVerif.Spec.RegFile
import ModbusVerif.Props.C01
import ModbusVerif.Props.C02
import ModbusVerif.Props.C03
import ModbusVerif.Props.C17
/-
  Proofs for property C04 (closed loop client ∘ server ∘ memory handler refines the abstract
  register file). The chain for one accepted call:

    C01  request frame = MBAP frame around `Spec.pdu cfg op`
    §2   `Spec.classify` of that PDU = `.valid (Spec.handlerReq cfg op)`      (spec ↔ spec)
    C03  the server calls the handler exactly once with that object and answers with
         `Spec.replyPdu`
    §3   the memory handler returns exactly the addressed entries / stores the arguments
    §4   that reply is a `Spec.PositiveReply`, and `Spec.decodeReply` of it is the value of the
         abstract register file (layout laws of C17 / C02)
    C02  the client accepts exactly that reply and returns `Spec.decodeReply`
-/
namespace Modbus.SystemLemmas
open Modbus Modbus.Client Modbus.Server Modbus.System Modbus.Spec

/-! ### 1. the request on the wire -/

/-- the request PDU of the specification as a `Pdu` -/
def reqPdu (cfg : Cfg) (op : Op) : Pdu :=
  { unit := cfg.unitId, fc := (Spec.pdu cfg op).1, payload := (Spec.pdu cfg op).2 }

def IsTcp (k : Kind) : Prop := k = .tcp ∨ k = .tcpTls

theorem IsTcp.notRtu {k : Kind} (h : IsTcp k) : k.isRtu = false := by
  rcases h with h | h <;> subst h <;> rfl

theorem wrap_tcp {k : Kind} (hk : IsTcp k) (u : Byte) (t : U16) (fc : Byte) (pl : Bytes) :
    Spec.wrap k u t fc pl = Mbap.assemble (t + 1) ⟨u, fc, pl⟩ := by
  rcases hk with h | h <;> subst h <;> simp [Spec.wrap, Spec.wrapMbap, Mbap.assemble]

theorem requestFrame_accepted {cfg : Cfg} {op : Op} (st : TState)
    (he : cfg.endian ≠ .invalid) (hw : cfg.word ≠ .invalid) (hk : IsTcp cfg.kind)
    (hacc : Spec.breaksLimits op = false) :
    op.requestFrame cfg st = some (.ok (Mbap.assemble (st.lastTxn + 1) (reqPdu cfg op))) := by
  rw [Props.C01.C01_emits_spec op cfg st he hw]
  simp [Spec.request, hacc, wrap_tcp hk, reqPdu]

theorem requestFrame_rejected {cfg : Cfg} {op : Op} (st : TState)
    (he : cfg.endian ≠ .invalid) (hw : cfg.word ≠ .invalid)
    (hrej : Spec.breaksLimits op = true) :
    op.requestFrame cfg st = some (.error .unexpectedParameters) := by
  rw [Props.C01.C01_emits_spec op cfg st he hw]
  simp [Spec.request, hrej]

/-! ### 2. the server's reading of the specified request is the specified handler call -/

theorem word_hi_lo (v : U16) : Spec.word (hi v) (lo v) = v := by
  rw [← Server.mk16_eq_word, EncLemmas.mk16_hi_lo]

theorem checkQtyRange_ok {fc : Byte} {a q : U16} {k : ReqClass} (h1 : 1 ≤ q.toNat)
    (h2 : q.toNat ≤ qtyLimit fc) (h3 : a.toNat + q.toNat ≤ 65536) : checkQtyRange fc a q k = k := by
  unfold checkQtyRange; rw [if_neg (by omega), if_neg (by omega)]

theorem classify_read {cfg : Cfg} {op : Op} (hacc : Spec.breaksLimits op = false)
    (hfn : fn op = .readCoils ∨ fn op = .readDiscreteInputs ∨ fn op = .readRegisters) :
    Spec.classify cfg.unitId (Spec.pdu cfg op).1 (Spec.pdu cfg op).2 = .valid (handlerReq cfg op) := by
  have hb := ClientReq.accepted_bounds op hacc
  have hq := ClientReq.quantity_exact op hacc
  simp only [Spec.pdu, handlerReq, functionCode, limit] at *
  rcases hfn with h | h | h <;> rw [h] at hb ⊢ <;> simp only [Fn.limit] at hb
  · simp only [be16, List.cons_append, List.nil_append, classify, word_hi_lo]
    simp
    rw [checkQtyRange_ok (by omega) (by simp [qtyLimit]; omega) (by omega)]
  · simp only [be16, List.cons_append, List.nil_append, classify, word_hi_lo]
    simp
    rw [checkQtyRange_ok (by omega) (by simp [qtyLimit]; omega) (by omega)]
  · by_cases hr : regType? op = some 1
    · simp only [hr, be16, List.cons_append, List.nil_append, classify, word_hi_lo]
      simp
      rw [checkQtyRange_ok (by omega) (by simp [qtyLimit]; omega) (by omega)]
    · simp only [hr, be16, List.cons_append, List.nil_append, classify, word_hi_lo]
      simp
      rw [checkQtyRange_ok (by omega) (by simp [qtyLimit]; omega) (by omega)]
theorem writeLayout_eq_data (cfg : Cfg) (op : Op) : writeLayout cfg op = Spec.data cfg op ∨
    (fn op ≠ .writeSingleRegister ∧ fn op ≠ .writeMultipleRegisters) := by
  cases op <;> first | (left; rfl) | (right; exact ⟨by simp [fn], by simp [fn]⟩)

theorem regImage_eq {cfg : Cfg} {op : Op}
    (hfn : fn op = .writeSingleRegister ∨ fn op = .writeMultipleRegisters) :
    regImage cfg op = unpackRegs (Spec.data cfg op) := by
  rcases writeLayout_eq_data cfg op with h | h
  · simp [regImage, regsOfWire, h]
  · rcases hfn with h' | h'
    · exact absurd h' h.1
    · exact absurd h' h.2

theorem classify_writeCoil {cfg : Cfg} {op : Op} (hacc : Spec.breaksLimits op = false)
    (hfn : fn op = .writeSingleCoil) :
    Spec.classify cfg.unitId (Spec.pdu cfg op).1 (Spec.pdu cfg op).2 = .valid (handlerReq cfg op) := by
  cases op <;> simp [fn] at hfn
  rename_i a v
  cases v <;>
    simp [Spec.pdu, handlerReq, functionCode, fn, Spec.data, Spec.addr, Spec.items, coilArgs, be16,
      classify, word_hi_lo] <;> rfl

theorem classify_writeReg {cfg : Cfg} {op : Op} (hacc : Spec.breaksLimits op = false)
    (hfn : fn op = .writeSingleRegister) :
    Spec.classify cfg.unitId (Spec.pdu cfg op).1 (Spec.pdu cfg op).2 = .valid (handlerReq cfg op) := by
  cases op <;> simp [fn] at hfn
  rename_i a v
  cases he : cfg.endian <;>
    simp [Spec.pdu, handlerReq, functionCode, fn, Spec.data, Spec.addr, Spec.items, be16,
      classify, word_hi_lo, regImage, regsOfWire, writeLayout, layout16, regs16, regBytes, he, unpackRegs] <;> rfl

theorem exists_cons {α} (l : List α) (h : 0 < l.length) : ∃ d ds, l = d :: ds := by
  cases l with
  | nil => simp at h
  | cons d ds => exact ⟨d, ds, rfl⟩

theorem classify_writeCoils {cfg : Cfg} {op : Op} (hacc : Spec.breaksLimits op = false)
    (hfn : fn op = .writeMultipleCoils) :
    Spec.classify cfg.unitId (Spec.pdu cfg op).1 (Spec.pdu cfg op).2 = .valid (handlerReq cfg op) := by
  cases op <;> simp [fn] at hfn
  rename_i a vs
  have hb := ClientReq.accepted_bounds _ hacc
  have hq := ClientReq.quantity_exact _ hacc
  simp only [limit, fn, Fn.limit, Spec.items, Spec.addr] at hb hq
  have hl : (packBools vs).length = coilLen vs.length := Server.packBools_length vs
  have hcl : 1 ≤ coilLen vs.length ∧ coilLen vs.length ≤ 246 := by unfold coilLen; omega
  obtain ⟨d, ds, hd⟩ := exists_cons (packBools vs) (by omega)
  have hargs : unpackBools vs.length (packBools vs) = vs := ClientResp.bitsOf_packBools vs
  simp only [Spec.pdu, handlerReq, functionCode, fn, Spec.data, Spec.addr, Spec.items, coilArgs, be16,
    List.cons_append, List.nil_append]
  rw [hd] at hl hargs ⊢
  simp only [classify, word_hi_lo]
  simp
  rw [checkQtyRange_ok (by omega) (by simp [qtyLimit]; omega) (by omega)]
  rw [hq, hargs, if_pos]
  refine ⟨?_, by simpa using hl⟩
  simp only [List.length_cons] at hl
  rw [hl, ClientReq.toNat_byteOfNat]; omega

theorem classify_writeRegs {cfg : Cfg} {op : Op} (hacc : Spec.breaksLimits op = false)
    (hfn : fn op = .writeMultipleRegisters) :
    Spec.classify cfg.unitId (Spec.pdu cfg op).1 (Spec.pdu cfg op).2 = .valid (handlerReq cfg op) := by
  have hb := ClientReq.accepted_bounds _ hacc
  have hq := ClientReq.quantity_exact _ hacc
  have hl := ClientReq.data_length cfg op
  have hri := regImage_eq (cfg := cfg) (Or.inr hfn)
  simp only [limit, ClientReq.dataLen, hfn, Fn.limit] at hb hl
  obtain ⟨d, ds, hd⟩ := exists_cons (Spec.data cfg op) (by omega)
  simp only [Spec.pdu, handlerReq, functionCode, hfn, be16,
    List.cons_append, List.nil_append, hri]
  rw [hd] at hl ⊢
  simp only [classify, word_hi_lo]
  simp
  rw [checkQtyRange_ok (by omega) (by simp [qtyLimit]; omega) (by omega)]
  rw [hq, if_pos]
  refine ⟨?_, by simpa using hl⟩
  simp only [List.length_cons] at hl
  rw [hl, ClientReq.toNat_byteOfNat]; omega

/-- spec ↔ spec: the request PDU of `Spec/Request.lean`, classified by `Spec/ServerSpec.lean`, is
    a valid request for exactly the handler call of `Spec/RegFile.lean` -/
theorem classify_request (cfg : Cfg) (op : Op) (hacc : Spec.breaksLimits op = false) :
    Spec.classify cfg.unitId (Spec.pdu cfg op).1 (Spec.pdu cfg op).2 = .valid (handlerReq cfg op) := by
  cases hfn : fn op
  · exact classify_read hacc (Or.inl hfn)
  · exact classify_read hacc (Or.inr (Or.inl hfn))
  · exact classify_read hacc (Or.inr (Or.inr hfn))
  · exact classify_writeCoil hacc hfn
  · exact classify_writeReg hacc hfn
  · exact classify_writeCoils hacc hfn
  · exact classify_writeRegs hacc hfn

/-! ### 3. the memory handler -/

theorem readAt_eq_window {α : Type} (f : Nat → α) (n : Nat) : ∀ a, readAt f a n = window f a n := by
  induction n with
  | zero => intro a; simp [readAt, window]
  | succ n ih =>
    intro a
    rw [readAt, ih, window, window, List.range_succ_eq_map]
    simp [Function.comp_def, Nat.add_assoc, Nat.add_comm 1]

theorem window_length {α : Type} (f : Nat → α) (a n : Nat) : (window f a n).length = n := by
  simp [window]

theorem writeAt_eq_store {α : Type} [Inhabited α] (vs : List α) :
    ∀ (f : Nat → α) (a : Nat), writeAt f a vs = store f a vs := by
  induction vs with
  | nil => intro f a; funext x; simp [writeAt, store]; omega
  | cons v vs ih =>
    intro f a
    rw [writeAt, ih]
    funext x
    simp only [store, List.length_cons]
    by_cases hx : x = a
    · subst hx; simp; omega
    · by_cases hr : a + 1 ≤ x ∧ x < a + 1 + vs.length
      · have h2 : a ≤ x ∧ x < a + (vs.length + 1) := by omega
        rw [if_pos hr, if_pos h2]
        have : x - a = (x - (a + 1)) + 1 := by omega
        rw [this, List.getD_cons_succ]
      · have h2 : ¬ (a ≤ x ∧ x < a + (vs.length + 1)) := by omega
        rw [if_neg hr, if_neg h2, if_neg hx]

/-- what the memory handler answers for the handler call of an accepted operation -/
def memResult (mem : Mem) (op : Op) : HResult :=
  let a := (Spec.addr op).toNat
  let n := Spec.items op
  match fn op with
  | .readCoils => .bits (window mem.coils a n)
  | .readDiscreteInputs => .bits (window mem.discrete a n)
  | .readRegisters => .regs (window (regTable mem op) a n)
  | .writeSingleCoil | .writeMultipleCoils => .bits []
  | .writeSingleRegister | .writeMultipleRegisters => .regs []

theorem invoke_mem (cfg : Cfg) (mem : Mem) (op : Op) (hacc : Spec.breaksLimits op = false) :
    Spec.invoke memHandler mem (handlerReq cfg op) = ((regfileStep cfg mem op).2, memResult mem op) := by
  have hq := ClientReq.quantity_exact op hacc
  simp only [handlerReq, regfileStep, hacc, memResult, regTable]
  cases fn op
  · simp [invoke, memHandler, readAt_eq_window, hq]
  · simp [invoke, memHandler, readAt_eq_window, hq]
  · by_cases hr : regType? op = some 1 <;> simp [hr, invoke, memHandler, readAt_eq_window, hq]
  · simp [invoke, memHandler, writeAt_eq_store]
  · simp [invoke, memHandler, writeAt_eq_store]
  · simp [invoke, memHandler, writeAt_eq_store]
  · simp [invoke, memHandler, writeAt_eq_store]

theorem memResult_ne_error (mem : Mem) (op : Op) (e : Err) : memResult mem op ≠ .error e := by
  unfold memResult; cases fn op <;> simp

/-! ### 4. the server's reply is a well-formed reply carrying the register-file value -/

/-- the reply PDU the server sends for an accepted operation -/
def replyOf (cfg : Cfg) (mem : Mem) (op : Op) : Pdu :=
  replyPdu (reqPdu cfg op) (handlerReq cfg op) (memResult mem op)

theorem replyOf_bits {cfg : Cfg} {mem : Mem} {op : Op} (hacc : Spec.breaksLimits op = false)
    (hfn : fn op = .readCoils ∨ fn op = .readDiscreteInputs) :
    ∃ l : List Bool, l.length = Spec.items op ∧
      (regfileStep cfg mem op).1 = .ok (.bools l) ∧
      replyOf cfg mem op = ⟨cfg.unitId, functionCode op, byteOfNat (coilLen l.length) :: packBools l⟩ := by
  have hq := ClientReq.quantity_exact op hacc
  rcases hfn with h | h
  · refine ⟨window mem.coils (Spec.addr op).toNat (Spec.items op), window_length _ _ _, ?_, ?_⟩
    · simp [regfileStep, hacc, h]
    · simp [replyOf, memResult, handlerReq, h, replyPdu, isWrite, qtyOf, window_length, hq, reqPdu, Spec.pdu]
  · refine ⟨window mem.discrete (Spec.addr op).toNat (Spec.items op), window_length _ _ _, ?_, ?_⟩
    · simp [regfileStep, hacc, h]
    · simp [replyOf, memResult, handlerReq, h, replyPdu, isWrite, qtyOf, window_length, hq, reqPdu, Spec.pdu]

theorem replyOf_regs {cfg : Cfg} {mem : Mem} {op : Op} (hacc : Spec.breaksLimits op = false)
    (hfn : fn op = .readRegisters) :
    ∃ l : List U16, l.length = Spec.items op ∧
      (regfileStep cfg mem op).1 = .ok (regValue cfg op l) ∧
      replyOf cfg mem op = ⟨cfg.unitId, functionCode op, byteOfNat (2 * l.length) :: wireImage l⟩ := by
  have hq := ClientReq.quantity_exact op hacc
  refine ⟨window (regTable mem op) (Spec.addr op).toNat (Spec.items op), window_length _ _ _, ?_, ?_⟩
  · simp [regfileStep, hacc, hfn]
  · by_cases hr : regType? op = some 1 <;>
    simp [replyOf, memResult, handlerReq, hfn, hr, replyPdu, isWrite, qtyOf, window_length, hq, reqPdu, Spec.pdu, wireImage]

theorem replyOf_write {cfg : Cfg} {mem : Mem} {op : Op} (hacc : Spec.breaksLimits op = false)
    (hfn : fn op = .writeSingleCoil ∨ fn op = .writeMultipleCoils ∨ fn op = .writeSingleRegister ∨
      fn op = .writeMultipleRegisters) :
    (regfileStep cfg mem op).1 = .ok .unit ∧
    replyOf cfg mem op = ⟨cfg.unitId, functionCode op, (Spec.pdu cfg op).2.take 4⟩ := by
  rcases hfn with h | h | h | h <;>
  · refine ⟨?_, ?_⟩
    · simp [regfileStep, hacc, h]
    · simp [replyOf, memResult, handlerReq, h, replyPdu, isWrite, reqPdu, Spec.pdu]

/-- the value the specification of replies (`Spec/Reply.lean`) reads from the server's reply is the
    value of the abstract register file, and the reply is well formed -/
theorem reply_ok (cfg : Cfg) (mem : Mem) (op : Op) (hacc : Spec.breaksLimits op = false) :
    PositiveReply cfg op (replyOf cfg mem op) ∧
    (regfileStep cfg mem op).1 = .ok (decodeReply cfg op (replyOf cfg mem op)) := by
  cases hfn : fn op
  case readCoils | readDiscreteInputs =>
    obtain ⟨l, hl, hv, hr⟩ := replyOf_bits (cfg := cfg) (mem := mem) hacc (by simp [hfn])
    rw [hr, hv]
    refine ⟨⟨rfl, rfl, ?_⟩, ?_⟩
    · simp [PayloadOk, hfn, ByteCounted, reqItems, hl, Server.packBools_length]
    · have hb := ClientResp.bitsOf_packBools l
      cases op <;> simp [fn] at hfn <;>
        simp [decodeReply, replyData, reqItems, ← hl, hb]
  case readRegisters =>
    obtain ⟨l, hl, hv, hr⟩ := replyOf_regs (cfg := cfg) (mem := mem) hacc hfn
    rw [hr, hv]
    refine ⟨⟨rfl, rfl, ?_⟩, ?_⟩
    · have hlen : (wireImage l).length = 2 * l.length := Server.flatMap_regBytes_length l
      simp [PayloadOk, hfn, ByteCounted, reqItems, hl, hlen]
    · cases op <;> simp [fn] at hfn <;> simp [decodeReply, replyData, regValue]
  case writeSingleCoil | writeSingleRegister =>
    obtain ⟨hv, hr⟩ := replyOf_write (cfg := cfg) (mem := mem) hacc (by simp [hfn])
    rw [hr, hv]
    refine ⟨⟨rfl, rfl, ?_⟩, ?_⟩
    · cases op <;> simp [fn] at hfn
      rename_i a v
      first
        | (have := ClientReq.length_layout16 cfg.endian v
           simp [PayloadOk, fn, Spec.pdu, Spec.data, echoValue, reqAddr, be16, Spec.addr]
           rw [← this, List.take_length])
        | (cases v <;> simp [PayloadOk, fn, Spec.pdu, Spec.data, echoValue, reqAddr, be16, Spec.addr])
    · cases op <;> simp [fn] at hfn <;> simp [decodeReply]
  case writeMultipleCoils | writeMultipleRegisters =>
    obtain ⟨hv, hr⟩ := replyOf_write (cfg := cfg) (mem := mem) hacc (by simp [hfn])
    rw [hr, hv]
    refine ⟨⟨rfl, rfl, ?_⟩, ?_⟩
    · simp [PayloadOk, hfn, Spec.pdu, reqAddr, reqItems, be16]
    · cases op <;> simp [fn] at hfn <;> simp [decodeReply]

/-! ### 5. one step of the closed loop -/

theorem reqPdu_payload_le (cfg : Cfg) (op : Op) (hacc : Spec.breaksLimits op = false) :
    (reqPdu cfg op).payload.length ≤ 252 := by
  have := ClientReq.payload_length_le cfg op hacc
  simp only [reqPdu]; omega

/-- the server session on the frame of an accepted request (handler not answering with
    `ErrProtocolError`): one call with the specified request object, one response, then the
    session waits for the next frame -/
theorem server_run_accepted (h : Handler Mem) (cfg : Cfg) (op : Op) (mem : Mem) (txn : U16)
    (hacc : Spec.breaksLimits op = false)
    (hne : (Spec.invoke h mem (handlerReq cfg op)).2 ≠ .error .protocolError) :
    Server.run h mem (Mbap.assemble txn (reqPdu cfg op)) .timeout =
      ((Spec.invoke h mem (handlerReq cfg op)).1,
        [.call (handlerReq cfg op),
         .respond (Mbap.assemble txn
            (replyPdu (reqPdu cfg op) (handlerReq cfg op) (Spec.invoke h mem (handlerReq cfg op)).2)),
         .ended .ioTimeout]) := by
  have := (Props.C03.C03_valid_request h mem txn (reqPdu cfg op) [] .timeout
    (reqPdu_payload_le cfg op hacc) (handlerReq cfg op) (classify_request cfg op hacc) hne).1
  rw [List.append_nil, Server.run_nil] at this
  exact this

/-- F8: the handler answers with `ErrProtocolError`: one call, then the connection is closed -/
theorem server_run_f8 (h : Handler Mem) (cfg : Cfg) (op : Op) (mem : Mem) (txn : U16)
    (hacc : Spec.breaksLimits op = false)
    (he : (Spec.invoke h mem (handlerReq cfg op)).2 = .error .protocolError) :
    Server.run h mem (Mbap.assemble txn (reqPdu cfg op)) .timeout =
      ((Spec.invoke h mem (handlerReq cfg op)).1, [.call (handlerReq cfg op), .closed]) := by
  have := Props.C03.C03_frame_step_f8 h mem txn (reqPdu cfg op) [] .timeout
    (reqPdu_payload_le cfg op hacc) (handlerReq cfg op) (classify_request cfg op hacc) he
  rw [List.append_nil] at this
  exact this

theorem stepFull_accepted (h : Handler Mem) {cfg : Cfg} {op : Op} (st : TState) (mem : Mem)
    (he : cfg.endian ≠ .invalid) (hw : cfg.word ≠ .invalid) (hk : IsTcp cfg.kind)
    (hacc : Spec.breaksLimits op = false)
    (hne : (Spec.invoke h mem (handlerReq cfg op)).2 ≠ .error .protocolError) :
    stepFull h cfg st mem op =
      (op.run cfg st (Mbap.assemble (st.lastTxn + 1)
          (replyPdu (reqPdu cfg op) (handlerReq cfg op) (Spec.invoke h mem (handlerReq cfg op)).2))
          .timeout,
       (Spec.invoke h mem (handlerReq cfg op)).1,
       [.call (handlerReq cfg op),
         .respond (Mbap.assemble (st.lastTxn + 1)
            (replyPdu (reqPdu cfg op) (handlerReq cfg op) (Spec.invoke h mem (handlerReq cfg op)).2)),
         .ended .ioTimeout]) := by
  unfold stepFull
  rw [requestFrame_accepted st he hw hk hacc]
  simp only [server_run_accepted h cfg op mem _ hacc hne]
  simp [responses, hungUp]

theorem stepFull_f8 (h : Handler Mem) {cfg : Cfg} {op : Op} (st : TState) (mem : Mem)
    (he : cfg.endian ≠ .invalid) (hw : cfg.word ≠ .invalid) (hk : IsTcp cfg.kind)
    (hacc : Spec.breaksLimits op = false)
    (hpe : (Spec.invoke h mem (handlerReq cfg op)).2 = .error .protocolError) :
    stepFull h cfg st mem op =
      (op.run cfg st [] .eof, (Spec.invoke h mem (handlerReq cfg op)).1,
       [.call (handlerReq cfg op), .closed]) := by
  unfold stepFull
  rw [requestFrame_accepted st he hw hk hacc]
  simp only [server_run_f8 h cfg op mem _ hacc hpe]
  simp [responses, hungUp]

theorem stepFull_rejected (h : Handler Mem) {cfg : Cfg} {op : Op} (st : TState) (mem : Mem)
    (he : cfg.endian ≠ .invalid) (hw : cfg.word ≠ .invalid)
    (hrej : Spec.breaksLimits op = true) :
    stepFull h cfg st mem op =
      ({ written := none, result := some (.error .unexpectedParameters), state := st }, mem, []) := by
  unfold stepFull
  rw [requestFrame_rejected st he hw hrej]
  simp only
  obtain ⟨c, hc, hr⟩ := ClientReq.core_spec cfg he hw op
  rw [if_pos hrej] at hr
  simp only [Op.run, hc, ClientReq.exchange_of_error c cfg st [] .timeout _ hr]

/-- the client on a well-formed positive reply that is the only thing arriving -/
theorem run_on_reply {cfg : Cfg} {op : Op} (st : TState) (res : Pdu) (e : Ending)
    (he : cfg.endian ≠ .invalid) (hw : cfg.word ≠ .invalid) (hk : IsTcp cfg.kind)
    (hp : st.pending = []) (hacc : Spec.breaksLimits op = false)
    (hpos : PositiveReply cfg op res) :
    op.run cfg st (Mbap.assemble (st.lastTxn + 1) res) e =
      { written := some (Mbap.assemble (st.lastTxn + 1) (reqPdu cfg op)),
        result := some (.ok (decodeReply cfg op res)),
        state := ⟨st.lastTxn + 1, []⟩ } := by
  obtain ⟨c, hc, hr⟩ := ClientReq.core_spec cfg he hw op
  rw [if_neg (by simp [hacc])] at hr
  have h2 := Props.C02.C02_complete_mbap he hw hk.notRtu hc hr (st := st)
    (arrivals := Mbap.assemble (st.lastTxn + 1) res) (pre := []) (post := []) e
    Mbap.Skippable.nil hpos (by simp [hp])
  have h1 : (op.run cfg st (Mbap.assemble (st.lastTxn + 1) res) e).written
      = some (Mbap.assemble (st.lastTxn + 1) (reqPdu cfg op)) := by
    simp only [Op.run, hc]
    rw [ClientReq.exchange_written_of_ok c cfg st _ e _ _ hr, ClientReq.frameFor_eq_wrap, wrap_tcp hk]
    rfl
  generalize op.run cfg st (Mbap.assemble (st.lastTxn + 1) res) e = r at h1 h2
  cases r; simp_all

/-- the client on a well-formed exception reply -/
theorem run_on_exception {cfg : Cfg} {op : Op} (st : TState) (res : Pdu) (code : Byte) (e : Ending)
    (he : cfg.endian ≠ .invalid) (hw : cfg.word ≠ .invalid) (hk : IsTcp cfg.kind)
    (hp : st.pending = []) (hacc : Spec.breaksLimits op = false)
    (hex : ExceptionReply cfg op res code) :
    op.run cfg st (Mbap.assemble (st.lastTxn + 1) res) e =
      { written := some (Mbap.assemble (st.lastTxn + 1) (reqPdu cfg op)),
        result := some (.error (exceptionError code)),
        state := ⟨st.lastTxn + 1, []⟩ } := by
  obtain ⟨c, hc, hr⟩ := ClientReq.core_spec cfg he hw op
  rw [if_neg (by simp [hacc])] at hr
  have h2 := Props.C02.C02_exception_mbap hk.notRtu hc hr (st := st)
    (arrivals := Mbap.assemble (st.lastTxn + 1) res) (pre := []) (post := []) e
    Mbap.Skippable.nil hex (by simp [hp])
  have h1 : (op.run cfg st (Mbap.assemble (st.lastTxn + 1) res) e).written
      = some (Mbap.assemble (st.lastTxn + 1) (reqPdu cfg op)) := by
    simp only [Op.run, hc]
    rw [ClientReq.exchange_written_of_ok c cfg st _ e _ _ hr, ClientReq.frameFor_eq_wrap, wrap_tcp hk]
    rfl
  generalize op.run cfg st (Mbap.assemble (st.lastTxn + 1) res) e = r at h1 h2
  cases r; simp_all

/-! ### 6. the step theorems -/

/-- one call against the memory handler, completely -/
theorem stepFull_mem {cfg : Cfg} (st : TState) (mem : Mem) (op : Op)
    (he : cfg.endian ≠ .invalid) (hw : cfg.word ≠ .invalid) (hk : IsTcp cfg.kind)
    (hp : st.pending = []) :
    stepFull memHandler cfg st mem op =
      if Spec.breaksLimits op then
        ({ written := none, result := some (.error .unexpectedParameters), state := st }, mem, [])
      else
        ({ written := some (Mbap.assemble (st.lastTxn + 1) (reqPdu cfg op)),
           result := some (regfileStep cfg mem op).1,
           state := ⟨st.lastTxn + 1, []⟩ },
         (regfileStep cfg mem op).2,
         [.call (handlerReq cfg op),
          .respond (Mbap.assemble (st.lastTxn + 1) (replyOf cfg mem op)),
          .ended .ioTimeout]) := by
  by_cases hb : Spec.breaksLimits op = true
  · rw [if_pos hb, stepFull_rejected memHandler st mem he hw hb]
  · have hacc : Spec.breaksLimits op = false := by simpa using hb
    have hinv := invoke_mem cfg mem op hacc
    have hne : (Spec.invoke memHandler mem (handlerReq cfg op)).2 ≠ .error .protocolError := by
      rw [hinv]; exact memResult_ne_error mem op _
    obtain ⟨hpos, hval⟩ := reply_ok cfg mem op hacc
    rw [if_neg hb, stepFull_accepted memHandler st mem he hw hk hacc hne, hinv]
    show (op.run cfg st (Mbap.assemble (st.lastTxn + 1) (replyOf cfg mem op)) .timeout, _, _) = _
    rw [run_on_reply st _ .timeout he hw hk hp hacc hpos, hval]
    rfl

theorem regfileStep_rejected (cfg : Cfg) (mem : Mem) (op : Op) (hb : Spec.breaksLimits op = true) :
    regfileStep cfg mem op = (.error .unexpectedParameters, mem) := by
  simp [regfileStep, hb]

/-- the three observable components of a step, in the form of the property -/
theorem step_mem {cfg : Cfg} (st : TState) (mem : Mem) (op : Op)
    (he : cfg.endian ≠ .invalid) (hw : cfg.word ≠ .invalid) (hk : IsTcp cfg.kind)
    (hp : st.pending = []) :
    (step memHandler cfg st mem op).1.result = some (regfileStep cfg mem op).1 ∧
    (step memHandler cfg st mem op).1.state
      = (if Spec.breaksLimits op then st else ⟨st.lastTxn + 1, []⟩) ∧
    (step memHandler cfg st mem op).2 = (regfileStep cfg mem op).2 := by
  simp only [step, stepFull_mem st mem op he hw hk hp]
  by_cases hb : Spec.breaksLimits op = true
  · simp [hb, regfileStep_rejected cfg mem op hb]
  · simp [hb]

theorem step_mem_written {cfg : Cfg} (st : TState) (mem : Mem) (op : Op)
    (he : cfg.endian ≠ .invalid) (hw : cfg.word ≠ .invalid) (hk : IsTcp cfg.kind)
    (hp : st.pending = []) :
    (step memHandler cfg st mem op).1.written
      = (match Spec.request cfg st op with | .ok f => some f | .error _ => none) := by
  simp only [step, stepFull_mem st mem op he hw hk hp, Spec.request]
  by_cases hb : Spec.breaksLimits op = true
  · simp [hb]
  · simp [hb, wrap_tcp hk, reqPdu]

/-! ### handler calls -/

theorem stepCalls_eq (h : Handler Mem) {cfg : Cfg} (st : TState) (mem : Mem) (op : Op)
    (he : cfg.endian ≠ .invalid) (hw : cfg.word ≠ .invalid) (hk : IsTcp cfg.kind) :
    stepCalls h cfg st mem op = (handlerSees cfg op).toList := by
  unfold stepCalls handlerSees
  by_cases hb : Spec.breaksLimits op = true
  · rw [stepFull_rejected h st mem he hw hb]; simp [hb]
  · have hacc : Spec.breaksLimits op = false := by simpa using hb
    by_cases hpe : (Spec.invoke h mem (handlerReq cfg op)).2 = .error .protocolError
    · rw [stepFull_f8 h st mem he hw hk hacc hpe]; simp [hacc]
    · rw [stepFull_accepted h st mem he hw hk hacc hpe]; simp [hacc]

/-! ### errors returned by the handler -/

theorem invoke_err (e : Err) (mem : Mem) (r : HReq) :
    Spec.invoke (errHandler e) mem r = (mem, .error e) := by
  cases r <;> rfl

/-- the error a caller sees when the handler returned `e` (and the server answered) -/
def surfaced (e : Err) : Err := Client.mapException (Server.mapError e)

theorem surfaced_table (e : Err) :
    surfaced e =
      if e ∈ [Err.illegalFunction, .illegalDataAddress, .illegalDataValue, .serverDeviceFailure,
              .acknowledge, .serverDeviceBusy, .memoryParityError, .gwPathUnavailable,
              .gwTargetFailedToRespond] then e else .serverDeviceFailure := by
  cases e <;> simp [surfaced, Server.mapError, Client.mapException]

theorem stepFull_err (e : Err) (hne : e ≠ .protocolError) {cfg : Cfg} (st : TState) (mem : Mem) (op : Op)
    (he : cfg.endian ≠ .invalid) (hw : cfg.word ≠ .invalid) (hk : IsTcp cfg.kind)
    (hp : st.pending = []) (hacc : Spec.breaksLimits op = false) :
    stepFull (errHandler e) cfg st mem op =
      ({ written := some (Mbap.assemble (st.lastTxn + 1) (reqPdu cfg op)),
         result := some (.error (surfaced e)),
         state := ⟨st.lastTxn + 1, []⟩ }, mem,
       [.call (handlerReq cfg op),
        .respond (Mbap.assemble (st.lastTxn + 1) (excPdu (reqPdu cfg op) (Server.mapError e))),
        .ended .ioTimeout]) := by
  have hne' : (Spec.invoke (errHandler e) mem (handlerReq cfg op)).2 ≠ .error .protocolError := by
    rw [invoke_err]; intro h; injection h with h; exact hne h
  rw [stepFull_accepted (errHandler e) st mem he hw hk hacc hne', invoke_err]
  have hex : ExceptionReply cfg op (excPdu (reqPdu cfg op) (Server.mapError e)) (Server.mapError e) :=
    ⟨Or.inl rfl, rfl, rfl⟩
  show (op.run cfg st (Mbap.assemble (st.lastTxn + 1) (excPdu (reqPdu cfg op) (exceptionCode e))) .timeout, _, _) = _
  rw [← Server.mapError_eq]
  rw [run_on_exception st _ _ .timeout he hw hk hp hacc hex, surfaced, ClientResp.mapException_eq]
  simp only [replyPdu, Server.mapError_eq]

/-- F8: the handler returns `ErrProtocolError`: no response, the connection is closed, the caller
    gets end-of-file -/
theorem stepFull_protoErr {cfg : Cfg} (st : TState) (mem : Mem) (op : Op)
    (he : cfg.endian ≠ .invalid) (hw : cfg.word ≠ .invalid) (hk : IsTcp cfg.kind)
    (hp : st.pending = []) (hacc : Spec.breaksLimits op = false) :
    stepFull (errHandler .protocolError) cfg st mem op =
      ({ written := some (Mbap.assemble (st.lastTxn + 1) (reqPdu cfg op)),
         result := some (.error .ioEOF),
         state := ⟨st.lastTxn + 1, []⟩ }, mem,
       [.call (handlerReq cfg op), .closed]) := by
  rw [stepFull_f8 (errHandler .protocolError) st mem he hw hk hacc (by rw [invoke_err]), invoke_err]
  obtain ⟨c, hc, hr⟩ := ClientReq.core_spec cfg he hw op
  rw [if_neg (by simp [hacc])] at hr
  rw [ClientResp.run_accepted st [] .eof hc hr]
  simp only [ClientResp.frameFor_mbap hk.notRtu, ClientResp.transportRead_mbap hk.notRtu, hp,
    List.append_nil, Mbap.readResponse_nil]
  rfl

/-! ### 7. histories -/

/-- tcp or tcp+tls, and an encoding `SetEncoding` can have stored -/
def Valid (cfg : Cfg) : Prop := IsTcp cfg.kind ∧ cfg.endian ≠ .invalid ∧ cfg.word ≠ .invalid

theorem setEnc_eq (cfg : Cfg) (e w : Nat) : System.setEnc cfg e w = regfileSetEnc cfg e w := by
  unfold System.setEnc regfileSetEnc
  by_cases h1 : e = 1 <;> by_cases h2 : e = 2 <;> by_cases h3 : w = 1 <;> by_cases h4 : w = 2 <;>
    simp [h1, h2, h3, h4] <;> omega

theorem setEnc_valid {cfg cfg' : Cfg} {e w : Nat} (hv : Valid cfg)
    (h : System.setEnc cfg e w = .ok cfg') : Valid cfg' := by
  unfold System.setEnc at h
  split at h
  · cases h
  · split at h
    · cases h
    · injection h with h; subst h
      refine ⟨hv.1, ?_, ?_⟩
      · simp only; split <;> simp
      · simp only; split <;> simp

theorem run_mem : ∀ (cmds : List Cmd) (cfg : Cfg) (st : TState) (mem : Mem),
    Valid cfg → st.pending = [] →
    (System.run memHandler cfg st mem cmds).1 = (regfileRun cfg mem cmds).1.map some ∧
    (System.run memHandler cfg st mem cmds).2.1 = (regfileRun cfg mem cmds).2.1 ∧
    (System.run memHandler cfg st mem cmds).2.2.2 = (regfileRun cfg mem cmds).2.2 ∧
    (System.run memHandler cfg st mem cmds).2.2.1
      = ⟨st.lastTxn + BitVec.ofNat 16 (requestsSent cmds), []⟩ := by
  intro cmds
  induction cmds with
  | nil =>
    intro cfg st mem _ hp
    refine ⟨rfl, rfl, rfl, ?_⟩
    cases st; simp_all [System.run, requestsSent]
  | cons c cs ih =>
    intro cfg st mem hv hp
    cases c with
    | op o =>
      obtain ⟨h1, h2, h3⟩ := step_mem st mem o hv.2.1 hv.2.2 hv.1 hp
      have hp' : (step memHandler cfg st mem o).1.state.pending = [] := by
        rw [h2]; split <;> simp [hp]
      obtain ⟨i1, i2, i3, i4⟩ := ih cfg (step memHandler cfg st mem o).1.state
        (step memHandler cfg st mem o).2 hv hp'
      simp only [System.run, exec, regfileRun, requestsSent]
      rw [h3] at i1 i2 i3 i4 ⊢
      refine ⟨?_, i2, i3, ?_⟩
      · rw [i1, h1]; rfl
      · rw [i4, h2]
        by_cases hb : breaksLimits o = true
        · simp [hb]
        · simp [hb, BitVec.add_assoc]
          rw [BitVec.ofNat_add]
    | setUnit u =>
      have hv' : Valid { cfg with unitId := u } := hv
      obtain ⟨i1, i2, i3, i4⟩ := ih { cfg with unitId := u } st mem hv' hp
      simp only [System.run, exec, regfileRun, requestsSent]
      exact ⟨by rw [i1]; rfl, i2, i3, i4⟩
    | setEnc e w =>
      simp only [System.run, exec, regfileRun, requestsSent]
      rw [← setEnc_eq]
      cases hs : System.setEnc cfg e w with
      | ok cfg' =>
        obtain ⟨i1, i2, i3, i4⟩ := ih cfg' st mem (setEnc_valid hv hs) hp
        exact ⟨by simp only [i1]; rfl, i2, i3, i4⟩
      | error err =>
        obtain ⟨i1, i2, i3, i4⟩ := ih cfg st mem hv hp
        exact ⟨by simp only [i1]; rfl, i2, i3, i4⟩

/-- every handler invocation of a history, for ANY handler -/
theorem runCalls_eq (h : Handler Mem) : ∀ (cmds : List Cmd) (cfg : Cfg) (st : TState) (mem : Mem),
    Valid cfg → System.runCalls h cfg st mem cmds = regfileCalls cfg cmds := by
  intro cmds
  induction cmds with
  | nil => intros; rfl
  | cons c cs ih =>
    intro cfg st mem hv
    cases c with
    | op o =>
      simp only [System.runCalls, exec, regfileCalls]
      rw [stepCalls_eq h st mem o hv.2.1 hv.2.2 hv.1, ih _ _ _ hv]
    | setUnit u =>
      have hv' : Valid { cfg with unitId := u } := hv
      simp only [System.runCalls, exec, regfileCalls, List.nil_append]
      exact ih _ _ _ hv'
    | setEnc e w =>
      simp only [System.runCalls, exec, regfileCalls, List.nil_append]
      rw [← setEnc_eq]
      cases hs : System.setEnc cfg e w with
      | ok cfg' => exact ih _ _ _ (setEnc_valid hv hs)
      | error err => exact ih _ _ _ hv

/-! ### 8. the register image is the documented layout -/

theorem wireImage_regsOfWire : ∀ d : Bytes, d.length % 2 = 0 → wireImage (regsOfWire d) = d
  | [], _ => rfl
  | [_], h => by simp at h
  | a :: b :: rest, h => by
    have ih := wireImage_regsOfWire rest (by simp at h; omega)
    simp only [wireImage, regsOfWire] at ih ⊢
    simp only [unpackRegs, List.flatMap_cons, ih, regBytes]
    have := Server.be16_word a b
    simp only [be16] at this
    simp [this]

theorem regsOfWire_wireImage : ∀ l : List U16, regsOfWire (wireImage l) = l
  | [] => rfl
  | r :: rs => by
    have ih := regsOfWire_wireImage rs
    simp only [wireImage, regsOfWire] at ih ⊢
    simp only [List.flatMap_cons, regBytes, List.cons_append, List.nil_append, unpackRegs, ih, word_hi_lo]

theorem writeLayout_even (cfg : Cfg) (op : Op) : (writeLayout cfg op).length % 2 = 0 := by
  have h := ClientReq.data_length cfg op
  cases op <;> first
    | rfl
    | (simp only [writeLayout, Spec.data, ClientReq.dataLen, fn, Spec.items] at h ⊢; omega)

/-- a register write stores the registers whose wire bytes (two per register, high byte first)
    are the documented layout of the arguments -/
theorem wireImage_regImage (cfg : Cfg) (op : Op) : wireImage (regImage cfg op) = writeLayout cfg op :=
  wireImage_regsOfWire _ (writeLayout_even cfg op)

/-- reading typed values back from the register image of typed values -/
theorem read_back_u16 (cfg : Cfg) (he : cfg.endian ≠ .invalid) (vs : List U16) :
    wireRegs cfg.endian (wireImage (regsOfWire (vs.flatMap (layout16 cfg.endian)))) = vs := by
  rw [wireImage_regsOfWire _ (by
    rw [ClientReq.length_flatMap_const _ 2 (ClientReq.length_layout16 _) vs]; omega)]
  exact ClientResp.layout16_wireRegs _ he vs

theorem read_back_u32 (cfg : Cfg) (he : cfg.endian ≠ .invalid) (hw : cfg.word ≠ .invalid)
    (vs : List U32) :
    join32 cfg.word (wireRegs cfg.endian
      (wireImage (regsOfWire (vs.flatMap (layout32 cfg.endian cfg.word))))) = vs := by
  rw [wireImage_regsOfWire _ (by
    rw [ClientReq.length_flatMap_const _ 4 (ClientReq.length_layout32 _ _) vs]; omega)]
  exact ClientResp.layout32_join32 _ _ he hw vs

theorem read_back_u64 (cfg : Cfg) (he : cfg.endian ≠ .invalid) (hw : cfg.word ≠ .invalid)
    (vs : List U64) :
    join64 cfg.word (wireRegs cfg.endian
      (wireImage (regsOfWire (vs.flatMap (layout64 cfg.endian cfg.word))))) = vs := by
  rw [wireImage_regsOfWire _ (by
    rw [ClientReq.length_flatMap_const _ 8 (ClientReq.length_layout64 _ _) vs]; omega)]
  exact ClientResp.layout64_join64 _ _ he hw vs

end Modbus.SystemLemmas
