import ModbusVerif.Model.IoTraceExt
import ModbusVerif.Lemmas.IoLemmas
import ModbusVerif.Lemmas.ServerLemmas
import ModbusVerif.Props.C19
/-
  Lemmas for `Props/C07Ext.lean` and `Props/C09Idle.lean`:
  * `runWith`: inversion along a trace, monotonicity in the discipline, `runWith (durOk ε) = runClock ε`;
  * abstract properties of a discipline (`SleepOk`, `SdOk`, `Slack`, `WriteLe`, `LateFails`,
    `NotEarly`) and which of `durOk`, `durOkδ`, `durOkSerial` has them;
  * reads under one deadline with slack (`run_slack`), bound on the number of empty polls;
  * the RTU skeleton on the serial wrapper (`elapsed_skeleton`);
  * `waitOf` / `postOf` against Timing.lean, the concrete margins;
  * the clocked client call;
  * `ReadRequest`, the server session, `serveTimed`.
-/
namespace Modbus.Io
open Modbus Modbus.Strm Modbus.Mbap

/-! ### runWith -/

section generic
variable {ok : Clock → Op → Nat → Prop} [∀ c op d, Decidable (ok c op d)]

theorem runWith_cons (c : Clock) (op : Op) (d : Nat) (rest : List (Op × Nat)) :
    runWith ok c ((op, d) :: rest) = if ok c op d then runWith ok (c.step op d) rest else none := rfl

theorem runWith_nil_inv {c c' : Clock} {durs : List (Op × Nat)}
    (hmap : durs.map Prod.fst = []) (hrun : runWith ok c durs = some c') : c' = c := by
  have : durs = [] := by simpa using hmap
  subst this
  injection hrun with hrun
  exact hrun.symm

theorem runWith_cons_inv {c c' : Clock} {durs : List (Op × Nat)} {op : Op} {ops : List Op}
    (hmap : durs.map Prod.fst = op :: ops) (hrun : runWith ok c durs = some c') :
    ∃ d rest, durs = (op, d) :: rest ∧ rest.map Prod.fst = ops ∧ ok c op d ∧
      runWith ok (c.step op d) rest = some c' := by
  cases durs with
  | nil => cases hmap
  | cons x rest =>
    obtain ⟨op', d⟩ := x
    simp only [List.map_cons, List.cons.injEq] at hmap
    obtain ⟨rfl, hrest⟩ := hmap
    rw [runWith_cons] at hrun
    by_cases hd : ok c op' d
    · rw [if_pos hd] at hrun; exact ⟨d, rest, rfl, hrest, hd, hrun⟩
    · rw [if_neg hd] at hrun; cases hrun

theorem runWith_append_inv {a b : List Op} :
    ∀ {c c' : Clock} {durs : List (Op × Nat)}, durs.map Prod.fst = a ++ b →
      runWith ok c durs = some c' →
      ∃ da db c1, durs = da ++ db ∧ da.map Prod.fst = a ∧ db.map Prod.fst = b ∧
        runWith ok c da = some c1 ∧ runWith ok c1 db = some c' := by
  induction a with
  | nil =>
    intro c c' durs hmap hrun
    exact ⟨[], durs, c, rfl, rfl, by simpa using hmap, rfl, hrun⟩
  | cons op a ih =>
    intro c c' durs hmap hrun
    obtain ⟨d, rest, hdurs, hrest, hd, hrun'⟩ := runWith_cons_inv (by simpa using hmap) hrun
    obtain ⟨da, db, c1, h0, h1, h2, h3, h4⟩ := ih hrest hrun'
    refine ⟨(op, d) :: da, db, c1, by rw [hdurs, h0]; rfl, by simp [h1], h2, ?_, h4⟩
    rw [runWith_cons, if_pos hd, h3]

/-- a weaker discipline accepts what a stronger one accepts -/
theorem runWith_mono {ok' : Clock → Op → Nat → Prop} [∀ c op d, Decidable (ok' c op d)]
    (h : ∀ c op d, ok c op d → ok' c op d) :
    ∀ {c c' : Clock} {durs : List (Op × Nat)}, runWith ok c durs = some c' →
      runWith ok' c durs = some c' := by
  intro c c' durs
  induction durs generalizing c with
  | nil => exact id
  | cons x rest ih =>
    obtain ⟨op, d⟩ := x
    intro hrun
    rw [runWith_cons] at hrun
    by_cases hd : ok c op d
    · rw [if_pos hd] at hrun
      rw [runWith_cons, if_pos (h c op d hd)]
      exact ih hrun
    · rw [if_neg hd] at hrun; cases hrun

theorem step_now (c : Clock) (op : Op) (d : Nat) : (c.step op d).now = c.now + d := by
  cases op <;> rfl

/-- the clock never runs backwards -/
theorem runWith_now_le : ∀ {c c' : Clock} {durs : List (Op × Nat)},
    runWith ok c durs = some c' → c.now ≤ c'.now := by
  intro c c' durs
  induction durs generalizing c with
  | nil => intro h; injection h with h; subst h; exact Nat.le_refl _
  | cons x rest ih =>
    obtain ⟨op, d⟩ := x
    intro hrun
    rw [runWith_cons] at hrun
    by_cases hd : ok c op d
    · rw [if_pos hd] at hrun
      have := ih hrun
      rw [step_now] at this
      omega
    · rw [if_neg hd] at hrun; cases hrun

end generic

theorem runWith_durOk (ε : Nat) : ∀ (c : Clock) (durs : List (Op × Nat)),
    runWith (durOk ε) c durs = runClock ε c durs := by
  intro c durs
  induction durs generalizing c with
  | nil => rfl
  | cons x rest ih =>
    obtain ⟨op, d⟩ := x
    rw [runWith_cons, runClock_cons]
    by_cases hd : durOk ε c op d
    · rw [if_pos hd, if_pos hd]; exact ih _
    · rw [if_neg hd, if_neg hd]

/-! ### properties of a discipline -/

/-- A-sleep -/
def SleepOk (ε : Nat) (ok : Clock → Op → Nat → Prop) : Prop :=
  ∀ c ns d, ok c (.sleep ns) d → ns ≤ d ∧ d ≤ ns + ε

/-- `SetDeadline` takes no time -/
def SdOk (ok : Clock → Op → Nat → Prop) : Prop :=
  ∀ c rel d, ok c (.setDeadline rel) d → d = 0

/-- the ops of class `P` obey the armed deadline with slack `δ` -/
def Slack (P : Op → Bool) (δ : Nat) (ok : Clock → Op → Nat → Prop) : Prop :=
  ∀ c op d D, P op = true → c.deadline = some D → ok c op d →
    (if c.now ≤ D then c.now + d ≤ D + δ else d = 0)

/-- `Write` lasts at most `wmax` -/
def WriteLe (wmax : Nat) (ok : Clock → Op → Nat → Prop) : Prop :=
  ∀ c L d, ok c (.write L) d → d ≤ wmax

/-- a `Read` started after the deadline is not a `read` -/
def LateFails (ok : Clock → Op → Nat → Prop) : Prop :=
  ∀ c op d, ok c op d → outcomeOk c op

/-- A-deadline⁻ -/
def NotEarly (ok : Clock → Op → Nat → Prop) : Prop :=
  ∀ c op d, ok c op d → timeoutNotEarly c op d

theorem SleepOk.mono {ε : Nat} {ok ok' : Clock → Op → Nat → Prop} (h : ∀ c op d, ok' c op d → ok c op d)
    (hs : SleepOk ε ok) : SleepOk ε ok' := fun c ns d hd => hs c ns d (h _ _ _ hd)
theorem SdOk.mono {ok ok' : Clock → Op → Nat → Prop} (h : ∀ c op d, ok' c op d → ok c op d)
    (hs : SdOk ok) : SdOk ok' := fun c r d hd => hs c r d (h _ _ _ hd)
theorem Slack.mono {P : Op → Bool} {δ : Nat} {ok ok' : Clock → Op → Nat → Prop}
    (h : ∀ c op d, ok' c op d → ok c op d) (hs : Slack P δ ok) : Slack P δ ok' :=
  fun c op d D hp hD hd => hs c op d D hp hD (h _ _ _ hd)
theorem WriteLe.mono {wmax : Nat} {ok ok' : Clock → Op → Nat → Prop}
    (h : ∀ c op d, ok' c op d → ok c op d) (hs : WriteLe wmax ok) : WriteLe wmax ok' :=
  fun c L d hd => hs c L d (h _ _ _ hd)

theorem durOkδ_zero (ε : Nat) (c : Clock) (op : Op) (d : Nat) : durOkδ ε 0 c op d ↔ durOk ε c op d := by
  obtain ⟨now, dl⟩ := c
  cases op <;> cases dl <;> simp only [durOkδ, durOk] <;> try exact Iff.rfl
  all_goals
    split <;> omega

theorem durOkδ_mono {ε δ δ' : Nat} (h : δ ≤ δ') {c : Clock} {op : Op} {d : Nat}
    (hd : durOkδ ε δ c op d) : durOkδ ε δ' c op d := by
  obtain ⟨now, dl⟩ := c
  cases op <;> cases dl <;> simp only [durOkδ] at hd ⊢ <;> try exact hd
  all_goals
    split at hd
    · rename_i hh; rw [if_pos hh]; omega
    · rename_i hh; rw [if_neg hh]; omega

/-- the serial wrapper's reads obey the deadline with slack `δ` -/
theorem durOkSerial_read_slack {ε δ wmax : Nat} {c : Clock} {op : Op} {d : Nat}
    (hr : op.isRead = true) (hd : durOkSerial ε δ wmax c op d) : durOkδ ε δ c op d := by
  obtain ⟨now, dl⟩ := c
  cases op <;> first | cases hr | skip
  all_goals
    cases dl <;> simp only [durOkSerial, durOkδ] at hd ⊢ <;> try trivial
    all_goals
      split at hd
      · rename_i hh; rw [if_pos hh]; omega
      · rename_i hh; rw [if_neg hh]; omega

theorem sleepOk_durOk (ε : Nat) : SleepOk ε (durOk ε) := fun _ _ _ hd => hd
theorem sdOk_durOk (ε : Nat) : SdOk (durOk ε) := fun _ _ _ hd => hd
theorem sleepOk_durOkδ (ε δ : Nat) : SleepOk ε (durOkδ ε δ) := fun _ _ _ hd => hd
theorem sdOk_durOkδ (ε δ : Nat) : SdOk (durOkδ ε δ) := fun _ _ _ hd => hd
theorem sleepOk_serial (ε δ wmax : Nat) : SleepOk ε (durOkSerial ε δ wmax) := fun _ _ _ hd => hd
theorem sdOk_serial (ε δ wmax : Nat) : SdOk (durOkSerial ε δ wmax) := fun _ _ _ hd => hd
theorem writeLe_serial (ε δ wmax : Nat) : WriteLe wmax (durOkSerial ε δ wmax) := fun _ _ _ hd => hd

theorem slack_durOkδ (ε δ : Nat) : Slack Op.isIO δ (durOkδ ε δ) := by
  intro c op d D hp hD hd
  cases op <;> first | cases hp | skip
  all_goals
    simp only [durOkδ, hD] at hd
    exact hd

theorem slack_durOk (ε : Nat) : Slack Op.isIO 0 (durOk ε) :=
  Slack.mono (fun c op d h => (durOkδ_zero ε c op d).mpr h) (slack_durOkδ ε 0)

theorem Slack.reads {δ : Nat} {ok : Clock → Op → Nat → Prop} (h : Slack Op.isIO δ ok) :
    Slack Op.isRead δ ok := fun c op d D hp => h c op d D (isIO_of_isRead hp)

theorem slack_serial (ε δ wmax : Nat) : Slack Op.isRead δ (durOkSerial ε δ wmax) := by
  intro c op d D hp hD hd
  exact slack_durOkδ ε δ c op d D (isIO_of_isRead hp) hD (durOkSerial_read_slack hp hd)

/-! ### reads (and writes) under one deadline, with slack -/

section generic
variable {ok : Clock → Op → Nat → Prop} [∀ c op d, Decidable (ok c op d)]

theorem step_of_isIO {c : Clock} {op : Op} {d : Nat} (h : op.isIO = true) :
    (c.step op d).deadline = c.deadline ∧ (c.step op d).now = c.now + d := by
  cases op <;> first | exact ⟨rfl, rfl⟩ | cases h

/-- any number of ops of class `P` under the armed deadline `D`: the end is no later than
    `D + δ` (or at once, if started after `D + δ`); the deadline stays -/
theorem run_slack {P : Op → Bool} {δ D : Nat} (hPio : ∀ op, P op = true → op.isIO = true)
    (hs : Slack P δ ok) {ops : List Op} (hops : ∀ op ∈ ops, P op = true) :
    ∀ {c c' : Clock} {durs : List (Op × Nat)}, durs.map Prod.fst = ops → c.deadline = some D →
      runWith ok c durs = some c' →
      c'.deadline = some D ∧ c'.now ≤ max c.now (D + δ) ∧ c.now ≤ c'.now := by
  induction ops with
  | nil =>
    intro c c' durs hmap hD hrun
    have := runWith_nil_inv hmap hrun
    subst this
    exact ⟨hD, Nat.le_max_left _ _, Nat.le_refl _⟩
  | cons op ops ih =>
    intro c c' durs hmap hD hrun
    obtain ⟨d, rest, _, hrest, hd, hrun'⟩ := runWith_cons_inv hmap hrun
    have hp := hops op List.mem_cons_self
    obtain ⟨e1, e2⟩ := step_of_isIO (c := c) (d := d) (hPio op hp)
    have hsl := hs c op d D hp hD hd
    obtain ⟨h1, h2, h3⟩ := ih (fun o ho => hops o (List.mem_cons_of_mem _ ho)) hrest
      (by rw [e1]; exact hD) hrun'
    rw [e2] at h2 h3
    refine ⟨h1, ?_, by omega⟩
    split at hsl <;> omega

theorem run_sleepW {ε ns : Nat} (hsl : SleepOk ε ok) {c c' : Clock} {durs : List (Op × Nat)}
    (hmap : durs.map Prod.fst = [.sleep ns]) (hrun : runWith ok c durs = some c') :
    c'.deadline = c.deadline ∧ c'.now ≤ c.now + ns + ε ∧ c.now + ns ≤ c'.now := by
  obtain ⟨d, rest, _, hrest, hd, hrun'⟩ := runWith_cons_inv hmap hrun
  have := runWith_nil_inv hrest hrun'
  subst this
  have := hsl c ns d hd
  simp only [Clock.step]
  exact ⟨trivial, by omega, by omega⟩

theorem run_setDeadlineW {rel : Nat} (hsd : SdOk ok) {c c' : Clock} {durs : List (Op × Nat)}
    (hmap : durs.map Prod.fst = [.setDeadline rel]) (hrun : runWith ok c durs = some c') :
    c' = ⟨c.now, some (c.now + rel)⟩ := by
  obtain ⟨d, rest, _, hrest, hd, hrun'⟩ := runWith_cons_inv hmap hrun
  have := runWith_nil_inv hrest hrun'
  subst this
  have := hsd c rel d hd
  subst this
  rfl

/-- the part of an RTU exchange up to the end of the post-transmission sleep (= in front of the
    first read in the code before fix c501b6a): `c2` is the clock when `Write` is called, `dWr`
    the time `Write` takes, `c4` the clock when the sleep is over -/
theorem rtuPreOld_run {ε T L w post t0 : Nat} {dl0 : Option Nat} (hsl : SleepOk ε ok) (hsd : SdOk ok)
    {durs : List (Op × Nat)} {c4 : Clock}
    (hmap : durs.map Prod.fst = rtuPreTraceOld T L w post)
    (hrun : runWith ok ⟨t0, dl0⟩ durs = some c4) :
    ∃ c2 dWr, c2.deadline = some (t0 + T) ∧ t0 + w ≤ c2.now ∧
      c2.now ≤ t0 + (if w > 0 then w + ε else 0) ∧ ok c2 (.write L) dWr ∧
      c4.deadline = some (t0 + T) ∧ c2.now + dWr + post ≤ c4.now ∧
      c4.now ≤ c2.now + dWr + post + ε := by
  unfold rtuPreTraceOld at hmap
  obtain ⟨d3, dM, c2, _, h3, hM, r3, rM⟩ := runWith_append_inv hmap hrun
  obtain ⟨dA, dW, c1, _, hA, hW, rA, rW⟩ := runWith_append_inv h3 r3
  have hc1 := run_setDeadlineW hsd hA rA
  simp only at hc1
  have hc2 : c2.deadline = some (t0 + T) ∧ t0 + w ≤ c2.now ∧
      c2.now ≤ t0 + (if w > 0 then w + ε else 0) := by
    by_cases hw : w > 0
    · rw [if_pos hw] at hW ⊢
      obtain ⟨h1, h2, h2'⟩ := run_sleepW hsl hW rW
      rw [hc1] at h1 h2 h2'
      simp only at h2 h2'
      exact ⟨h1, by omega, by omega⟩
    · rw [if_neg hw] at hW ⊢
      have := runWith_nil_inv hW rW
      rw [this, hc1]
      exact ⟨rfl, by simp only; omega, Nat.le_refl _⟩
  obtain ⟨dWr, rest, _, hrest, hdWr, rSl⟩ := runWith_cons_inv (op := .write L) (ops := [.sleep post]) hM rM
  obtain ⟨hc4d, hc4, hc4'⟩ := run_sleepW hsl hrest rSl
  simp only [Clock.step] at hc4d hc4 hc4'
  exact ⟨c2, dWr, hc2.1, hc2.2.1, hc2.2.2, hdWr, by rw [hc4d]; exact hc2.1, hc4', hc4⟩

theorem rtuPreTrace_eq_old (T L w post : Nat) :
    rtuPreTrace T L w post = rtuPreTraceOld T L w post ++ [.setDeadline T] := by
  simp [rtuPreTrace, rtuPreTraceOld]

/-- the part of an RTU exchange in front of the first read (code since fix c501b6a): `c2` is
    the clock when `Write` is called, `dWr` the time `Write` takes, `tR` the instant the
    post-transmission sleep is over: the second deadline `tR + T` is armed and the first `Read`
    starts -/
theorem rtuPre_run {ε T L w post t0 : Nat} {dl0 : Option Nat} (hsl : SleepOk ε ok) (hsd : SdOk ok)
    {durs : List (Op × Nat)} {c4 : Clock}
    (hmap : durs.map Prod.fst = rtuPreTrace T L w post)
    (hrun : runWith ok ⟨t0, dl0⟩ durs = some c4) :
    ∃ c2 dWr tR, c2.deadline = some (t0 + T) ∧ t0 + w ≤ c2.now ∧
      c2.now ≤ t0 + (if w > 0 then w + ε else 0) ∧ ok c2 (.write L) dWr ∧
      c2.now + dWr + post ≤ tR ∧ tR ≤ c2.now + dWr + post + ε ∧
      c4 = ⟨tR, some (tR + T)⟩ := by
  rw [rtuPreTrace_eq_old] at hmap
  obtain ⟨dO, dS, c3, _, hO, hS, rO, rS⟩ := runWith_append_inv hmap hrun
  obtain ⟨c2, dWr, h1, h2, h3, h4, _, h6, h7⟩ := rtuPreOld_run hsl hsd hO rO
  exact ⟨c2, dWr, c3.now, h1, h2, h3, h4, h6, h7, run_setDeadlineW hsd hS rS⟩

theorem rtuSkeleton_eq (T rate L w post : Nat) (reads : List Op) (flush : Option (List Op)) :
    rtuSkeleton T rate L w post reads flush = rtuPreTrace T L w post ++ reads ++
      (match flush with
       | none => []
       | some f => [.sleep (Timing.maxRTUFrameLength * Timing.t1 rate), .setDeadline 500000] ++ f) := rfl

/-- worst-case end of an RTU exchange when `Write` lasts at most `wmax` (whatever the first
    deadline is) and the reads obey the second deadline with slack `δ` -/
theorem elapsed_skeleton {ε δ wmax T rate L w post t0 : Nat} {dl0 : Option Nat}
    (hsl : SleepOk ε ok) (hsd : SdOk ok) (hrs : Slack Op.isRead δ ok) (hwr : WriteLe wmax ok)
    {reads : List Op} {flush : Option (List Op)}
    (hreads : ∀ op ∈ reads, op.isRead = true)
    (hflush : ∀ f, flush = some f → ∀ op ∈ f, op.isRead = true)
    {durs : List (Op × Nat)} {c' : Clock}
    (hmap : durs.map Prod.fst = rtuSkeleton T rate L w post reads flush)
    (hrun : runWith ok ⟨t0, dl0⟩ durs = some c') :
    c'.now ≤ t0 + (if w > 0 then w + ε else 0) + wmax + (post + ε) + (T + δ) +
      (if flush.isSome then Timing.maxRTUFrameLength * Timing.t1 rate + ε + 500000 + δ else 0) := by
  rw [rtuSkeleton_eq] at hmap
  obtain ⟨d1, dTail, c5, _, h1, hTail, r1, rTail⟩ := runWith_append_inv hmap hrun
  obtain ⟨dP, dR, c4, _, hP, hR, rP, rR⟩ := runWith_append_inv h1 r1
  obtain ⟨c2, dWr, tR, _, _, hc2, hdWr, _, htR, hc4⟩ := rtuPre_run hsl hsd hP rP
  have hw := hwr c2 L dWr hdWr
  subst hc4
  obtain ⟨hc5d, hc5, _⟩ := run_slack (P := Op.isRead) (D := tR + T) (fun _ => isIO_of_isRead) hrs
    hreads hR rfl rR
  simp only at hc5
  have hbase : c5.now ≤ t0 + (if w > 0 then w + ε else 0) + wmax + (post + ε) + (T + δ) := by
    omega
  cases flush with
  | none =>
    have := runWith_nil_inv hTail rTail
    subst this
    simpa using hbase
  | some f =>
    simp only at hTail
    rw [Option.isSome_some, if_pos rfl]
    obtain ⟨dS, dF, c7, _, hS, hF, rS, rF⟩ := runWith_append_inv hTail rTail
    obtain ⟨dS1, dS2, c6, _, hS1, hS2, rS1, rS2⟩ := runWith_append_inv
      (a := [.sleep (Timing.maxRTUFrameLength * Timing.t1 rate)]) (b := [.setDeadline 500000]) hS rS
    obtain ⟨_, hc6, _⟩ := run_sleepW hsl hS1 rS1
    have hc7 := run_setDeadlineW hsd hS2 rS2
    obtain ⟨_, hc', _⟩ := run_slack (P := Op.isRead) (D := c6.now + 500000) (fun _ => isIO_of_isRead) hrs
      (hflush f rfl) hF (by rw [hc7]) rF
    rw [hc7] at hc'
    simp only at hc'
    omega

/-- one absolute deadline armed at `t0`, then ops of class `P` only, slack `δ` -/
theorem elapsed_single_deadlineW {P : Op → Bool} {δ T t0 : Nat} {dl0 : Option Nat}
    (hPio : ∀ op, P op = true → op.isIO = true) (hsd : SdOk ok) (hs : Slack P δ ok)
    {ops : List Op} (hops : ∀ op ∈ ops, P op = true) {durs : List (Op × Nat)} {c' : Clock}
    (hmap : durs.map Prod.fst = .setDeadline T :: ops)
    (hrun : runWith ok ⟨t0, dl0⟩ durs = some c') :
    c'.now ≤ t0 + T + δ ∧ t0 ≤ c'.now ∧ c'.deadline = some (t0 + T) := by
  obtain ⟨d, rest, _, hrest, hd, hrun'⟩ := runWith_cons_inv hmap hrun
  have := hsd _ _ _ hd
  subst this
  obtain ⟨h1, h2, h3⟩ := run_slack (D := t0 + T) hPio hs hops hrest rfl hrun'
  simp only [Clock.step, Nat.add_zero] at h2 h3
  exact ⟨by omega, h3, h1⟩

/-- code before fix c501b6a, with a bound on `Write`: the first `Read` starts no later than
    `t0 + [w + ε] + wmax + post + ε` -/
theorem rtuPreOld_run_le {ε wmax T L w post t0 : Nat} {dl0 : Option Nat} (hsl : SleepOk ε ok)
    (hsd : SdOk ok) (hwr : WriteLe wmax ok) {durs : List (Op × Nat)} {c4 : Clock}
    (hmap : durs.map Prod.fst = rtuPreTraceOld T L w post)
    (hrun : runWith ok ⟨t0, dl0⟩ durs = some c4) :
    c4.deadline = some (t0 + T) ∧ t0 + w + post ≤ c4.now ∧
      c4.now ≤ t0 + (if w > 0 then w + ε else 0) + wmax + post + ε := by
  obtain ⟨c2, dWr, _, h1, h2, hdWr, hc4d, h3, h4⟩ := rtuPreOld_run hsl hsd hmap hrun
  have := hwr c2 L dWr hdWr
  exact ⟨hc4d, by omega, by omega⟩

/-- code before fix c501b6a, without a bound on `Write`: the two sleeps alone -/
theorem rtuPreOld_run_ge {ε T L w post t0 : Nat} {dl0 : Option Nat} (hsl : SleepOk ε ok)
    (hsd : SdOk ok) {durs : List (Op × Nat)} {c4 : Clock}
    (hmap : durs.map Prod.fst = rtuPreTraceOld T L w post)
    (hrun : runWith ok ⟨t0, dl0⟩ durs = some c4) :
    c4.deadline = some (t0 + T) ∧ t0 + w + post ≤ c4.now := by
  obtain ⟨c2, dWr, _, h1, h2, hdWr, hc4d, h3, h4⟩ := rtuPreOld_run hsl hsd hmap hrun
  exact ⟨hc4d, by omega⟩

/-- code since fix c501b6a: when the first `Read` starts the deadline is `T` away, whatever the
    sleeps and the `Write` took; the `Write` was called no later than `t0 + [w + ε]` under the
    first deadline `t0 + T` -/
theorem rtuPre_run_fresh {ε T L w post t0 : Nat} {dl0 : Option Nat} (hsl : SleepOk ε ok)
    (hsd : SdOk ok) {durs : List (Op × Nat)} {c4 : Clock}
    (hmap : durs.map Prod.fst = rtuPreTrace T L w post)
    (hrun : runWith ok ⟨t0, dl0⟩ durs = some c4) :
    c4.deadline = some (c4.now + T) ∧ t0 + w + post ≤ c4.now ∧
      ∃ c2 dWr, c2.deadline = some (t0 + T) ∧ c2.now ≤ t0 + (if w > 0 then w + ε else 0) ∧
        ok c2 (.write L) dWr ∧ c4.now ≤ c2.now + dWr + post + ε := by
  obtain ⟨c2, dWr, tR, h1, h2, h3, h4, h5, h6, h7⟩ := rtuPre_run hsl hsd hmap hrun
  subst h7
  exact ⟨rfl, by simp only; omega, c2, dWr, h1, h3, h4, h6⟩

end generic

theorem elapsed_skeleton_le {ε δ wmax T rate w post t0 : Nat} (flush : Option (List Op)) :
    t0 + (if w > 0 then w + ε else 0) + wmax + (post + ε) + (T + δ) +
      (if flush.isSome then Timing.maxRTUFrameLength * Timing.t1 rate + ε + 500000 + δ else 0) ≤
    t0 + T + rtuMarginSerial rate w post ε δ wmax := by
  unfold rtuMarginSerial rtuMargin
  cases flush <;> simp only [Option.isSome] <;> split <;> simp <;> omega

/-! ### the serial traces -/

theorem gotSum_replicate_poll (p n : Nat) : gotSum (List.replicate p (Op.read n 0)) = 0 := by
  induction p with
  | zero => rfl
  | succ p ih => simp [List.replicate_succ, gotSum, Op.got, ih]

theorem rfTraceSerial_isRead (n a p : Nat) : ∀ op ∈ rfTraceSerial n a p, op.isRead = true := by
  unfold rfTraceSerial
  intro op h
  split at h
  · simp at h
  · rcases List.mem_append.mp h with h | h
    · rw [List.mem_replicate] at h; rw [h.2]; rfl
    · exact rfTrace_isRead _ _ op h

theorem rfTraceSerial_zero (n a : Nat) : rfTraceSerial n a 0 = rfTrace n a := by
  by_cases h : n = 0
  · simp [rfTraceSerial, rfTrace, h]
  · simp [rfTraceSerial, h]

theorem gotSum_rfTraceSerial (n a p : Nat) : gotSum (rfTraceSerial n a p) = gotSum (rfTrace n a) := by
  by_cases h : n = 0
  · simp [rfTraceSerial, rfTrace, h]
  · simp [rfTraceSerial, h, gotSum_append, gotSum_replicate_poll]

/-- the polls and what follows them -/
theorem rfTraceSerial_shape (n a p : Nat) (hn : 0 < n) :
    rfTraceSerial n a p = List.replicate p (.read n 0) ++ rfTrace n a := by
  unfold rfTraceSerial; rw [if_neg (by omega)]

theorem rtuReadOpsSerial_isRead (s : Bytes) (p1 p2 : Nat) :
    ∀ op ∈ rtuReadOpsSerial s p1 p2, op.isRead = true := by
  intro op hop
  unfold rtuReadOpsSerial at hop
  rcases List.mem_append.mp hop with h | h
  · exact rfTraceSerial_isRead _ _ _ op h
  · split at h
    · simp only [] at h
      split at h
      · simp at h
      · split at h
        · simp at h
        · exact rfTraceSerial_isRead _ _ _ op h
    · simp at h

theorem rtuReadOpsSerial_zero (s : Bytes) : rtuReadOpsSerial s 0 0 = rtuReadOps s := by
  unfold rtuReadOpsSerial rtuReadOps
  simp only [rfTraceSerial_zero]
  rfl

theorem gotSum_rtuReadOpsSerial (s : Bytes) (p1 p2 : Nat) :
    gotSum (rtuReadOpsSerial s p1 p2) = gotSum (rtuReadOps s) := by
  unfold rtuReadOpsSerial rtuReadOps
  rw [gotSum_append, gotSum_append, gotSum_rfTraceSerial]
  congr 1
  by_cases h3 : 3 ≤ s.length
  · rw [if_pos h3, if_pos h3]
    simp only []
    cases Rtu.expectedResponseLength ((List.take 3 s).getD 1 0) ((List.take 3 s).getD 2 0) with
    | error err => rfl
    | ok n =>
      simp only []
      by_cases c1 : 3 + (n + 2) > Rtu.maxRTUFrameLength
      · rw [if_pos c1, if_pos c1]
      · rw [if_neg c1, if_neg c1, gotSum_rfTraceSerial]
  · rw [if_neg h3, if_neg h3]

theorem flushOpsSerial_isRead (k p : Nat) : ∀ op ∈ flushOpsSerial k p, op.isRead = true :=
  rfTraceSerial_isRead _ _ _

theorem rtuTail_eq_needsResync (rate : Nat) (r : (Except Err Pdu) × Bytes) :
    rtuTail rate r = if needsResync r then resyncOps rate r.2.length else [] := by
  obtain ⟨x, rest⟩ := r
  cases x with
  | ok p => rfl
  | error err => cases err <;> rfl

theorem rtuTrace_eq_skeleton (T rate L w post : Nat) (s : Bytes) (e : Ending) :
    rtuTrace T rate L w post s e = rtuSkeleton T rate L w post (rtuReadOps s)
      (if needsResync (Rtu.readFrame s e) then
        some (rfTrace Rtu.discardLen (Rtu.readFrame s e).2.length) else none) := by
  unfold rtuTrace rtuSkeleton
  rw [rtuTail_eq_needsResync]
  cases needsResync (Rtu.readFrame s e) <;> simp [resyncOps]

theorem rtuTraceSerial_zero (T rate L w post : Nat) (s : Bytes) (e : Ending) :
    rtuTraceSerial T rate L w post s e 0 0 0 = rtuTrace T rate L w post s e := by
  rw [rtuTrace_eq_skeleton]
  unfold rtuTraceSerial flushOpsSerial
  rw [rtuReadOpsSerial_zero, rfTraceSerial_zero]

theorem rtuTraceSerial_flush_isRead (s : Bytes) (e : Ending) (p3 : Nat) :
    ∀ f, (if needsResync (Rtu.readFrame s e) then
      some (flushOpsSerial (Rtu.readFrame s e).2.length p3) else none) = some f →
      ∀ op ∈ f, op.isRead = true := by
  intro f hf
  split at hf
  · injection hf with hf; subst hf; exact flushOpsSerial_isRead _ _
  · cases hf

theorem gotSum_rtuSkeleton (T rate L w post : Nat) (reads : List Op) (flush : Option (List Op)) :
    gotSum (rtuSkeleton T rate L w post reads flush) =
      gotSum reads + gotSum (match flush with | none => [] | some f => f) := by
  unfold rtuSkeleton
  cases flush <;> by_cases hw : w > 0 <;> simp [gotSum_append, gotSum, Op.got, hw]

/-- empty polls take nothing off the stream -/
theorem gotSum_rtuTraceSerial (T rate L w post : Nat) (s : Bytes) (e : Ending) (p1 p2 p3 : Nat) :
    gotSum (rtuTraceSerial T rate L w post s e p1 p2 p3) = gotSum (rtuTrace T rate L w post s e) := by
  rw [rtuTrace_eq_skeleton]
  unfold rtuTraceSerial
  rw [gotSum_rtuSkeleton, gotSum_rtuSkeleton, gotSum_rtuReadOpsSerial]
  cases needsResync (Rtu.readFrame s e)
  · rfl
  · simp only [if_true]
    unfold flushOpsSerial
    rw [gotSum_rfTraceSerial]

/-! ### number of empty polls -/

section generic
variable {ok : Clock → Op → Nat → Prop} [∀ c op d, Decidable (ok c op d)]

theorem isRead_of_isPoll {op : Op} (h : op.isPoll = true) : ∃ n g, op = .read n g := by
  cases op with
  | read n g => exact ⟨n, g, rfl⟩
  | _ => simp [Op.isPoll] at h

/-- every empty poll is entered not after the deadline `D` (a later call fails instead); if each
    of them lasts at least `δmin` (the port's timeout has to expire before `serial.ErrTimeout`
    comes back), `k` consecutive polls started at `t` satisfy `t + k·δmin ≤ D + δmin` -/
theorem polls_bounded (hl : LateFails ok) {δmin D : Nat} :
    ∀ {durs : List (Op × Nat)} {t : Nat} {c' : Clock}, durs ≠ [] →
      (∀ p ∈ durs, p.1.isPoll = true ∧ δmin ≤ p.2) →
      runWith ok ⟨t, some D⟩ durs = some c' → t + durs.length * δmin ≤ D + δmin := by
  intro durs
  induction durs with
  | nil => intro t c' h; exact absurd rfl h
  | cons x rest ih =>
    intro t c' _ hall hrun
    obtain ⟨op, d⟩ := x
    obtain ⟨hpoll, hd⟩ := hall (op, d) List.mem_cons_self
    obtain ⟨n, g, rfl⟩ := isRead_of_isPoll hpoll
    rw [runWith_cons] at hrun
    by_cases hk : ok ⟨t, some D⟩ (.read n g) d
    · rw [if_pos hk] at hrun
      have hle : t ≤ D := hl _ _ _ hk
      by_cases hr : rest = []
      · subst hr; simp; omega
      · have := ih (t := t + d) hr (fun p hp => hall p (List.mem_cons_of_mem _ hp)) hrun
        rw [List.length_cons, Nat.succ_mul]
        simp only at hd
        omega
    · rw [if_neg hk] at hrun; cases hrun

end generic

/-! ### the arguments of the inter-frame sleeps; concrete margins -/

theorem waitOf_le {rate la now : Nat} (h : la ≤ now) : waitOf rate la now ≤ Timing.t35 rate := by
  unfold waitOf; omega

theorem postOf_le {rate n ts now2 : Nat} (h : ts ≤ now2) :
    postOf rate n ts now2 ≤ n * Timing.t1 rate + Timing.t35 rate := by
  unfold postOf; omega

theorem postOf_self (rate n ts : Nat) : postOf rate n ts ts = minTimeoutRtu rate n := by
  unfold postOf minTimeoutRtu; omega

/-- Timing.lean `txStart` is `now` plus the argument of the first sleep -/
theorem txStart_eq_waitOf (now la rate : Nat) :
    Timing.txStart now la rate = now + waitOf rate la now := by
  unfold Timing.txStart waitOf; omega

/-- the time `Write` takes comes off the second sleep -/
theorem write_add_postOf (rate n ts dWr : Nat) :
    dWr + postOf rate n ts (ts + dWr) = max dWr (n * Timing.t1 rate + Timing.t35 rate) := by
  unfold postOf; omega

/-- Timing.lean `exchangeTimes.readStart` is the return of `Write` plus the second sleep
    (argument `postOf`, oversleep `lag2`) -/
theorem readStart_eq_postOf (rate la : Nat) (ev : Timing.Events) (hw : ev.writeErr = false) :
    let t := Timing.exchangeTimes rate la ev
    t.readStart = t.ts + ev.writeDur + postOf rate ev.n t.ts (t.ts + ev.writeDur) + ev.lag2 := by
  simp only [Timing.exchangeTimes, hw, postOf]
  simp
  omega

/-- along a physically possible history the recorded last activity is never in the future when
    the next call starts (it is at most the previous call's last clock reading) -/
theorem history_la_le_now (rate : Nat) : ∀ (evs : List Timing.Events) (la pf : Nat), la ≤ pf →
    Timing.wellTimed rate la pf evs →
    ∀ i (h : i < (Timing.history rate la evs).length) (h' : i < evs.length),
      ((Timing.history rate la evs)[i]).1 ≤ evs[i].now := by
  intro evs
  induction evs with
  | nil => intro la pf _ _ i h; simp [Timing.history] at h
  | cons ev evs ih =>
    intro la pf hle hw i h h'
    simp only [Timing.wellTimed] at hw
    cases i with
    | zero => simp only [Timing.history, List.getElem_cons_zero]; omega
    | succ i =>
      simp only [Timing.history, List.length_cons] at h h'
      have hrec := (Props.C19.exchange_record rate la ev).2.2.2.2.2
      have := ih _ _ hrec hw.2 i (by omega) (by omega)
      simpa [Timing.history] using this

theorem rtuMargin_le_marginRtu {rate n w post ε : Nat} (hw : w ≤ Timing.t35 rate)
    (hp : post ≤ n * Timing.t1 rate + Timing.t35 rate) :
    rtuMargin rate w post ε ≤ marginRtu rate n ε := by
  unfold rtuMargin marginRtu Timing.maxRTUFrameLength
  rw [Nat.add_mul]
  split <;> omega

/-! ### the clocked client call -/

section client
open Modbus.Client
variable {cfg : Cfg} {op : Client.Op} {c : Core} {fc : Byte} {p : Bytes}

/-- first read after the deadline: ErrRequestTimedOut, whatever has arrived -/
theorem clockedResult_late (hcore : op.core cfg = some c) (hreq : c.request = .ok (fc, p))
    {st : TState} {ck : Clock} {D : Nat} (hD : ck.deadline = some D) (hl : D < ck.now)
    (availAt : Nat) (arrivals : Bytes) (e : Ending) :
    clockedResult op cfg st ck availAt arrivals e = some (.error .requestTimedOut) := by
  unfold clockedResult
  rw [hD]
  simp only
  rw [if_pos hl]
  exact ClientResp.silence_is_timeout hcore hreq rfl

/-- first read not after the deadline, bytes there by the deadline: the unclocked model -/
theorem clockedResult_intime {st : TState} {ck : Clock} {D availAt : Nat}
    (hD : ck.deadline = some D) (h1 : ck.now ≤ D) (h2 : availAt ≤ D) (arrivals : Bytes) (e : Ending) :
    clockedResult op cfg st ck availAt arrivals e = (op.run cfg st arrivals e).result := by
  unfold clockedResult
  rw [hD]
  simp only
  rw [if_neg (by omega)]
  unfold seen
  rw [if_neg (by omega), if_pos h2]

end client

theorem rtuTrace_eq_pre (T rate L w post : Nat) (s : Bytes) (e : Ending) :
    rtuTrace T rate L w post s e =
      rtuPreTrace T L w post ++ rtuReadOps s ++ rtuTail rate (Rtu.readFrame s e) := rfl

theorem mbapTrace_eq_pre (T L : Nat) (txn : U16) (s : Bytes) :
    mbapTrace T L txn s = mbapPreTrace T L ++ mbapReads txn s := rfl

theorem rfTrace_head {n a : Nat} (hn : 0 < n) (ha : 0 < a) :
    ∃ k rest, rfTrace n a = .read n k :: rest := by
  unfold rfTrace
  rw [if_neg (by omega)]
  by_cases h : n ≤ a
  · rw [if_pos h]; exact ⟨_, _, rfl⟩
  · rw [if_neg h, if_neg (by omega)]; exact ⟨_, _, rfl⟩

theorem rtuReadOps_head {s : Bytes} (hs : s ≠ []) : ∃ k rest, rtuReadOps s = .read 3 k :: rest := by
  have hl : 0 < s.length := List.length_pos_iff.mpr hs
  obtain ⟨k, rest, h⟩ := rfTrace_head (n := 3) (by omega) hl
  unfold rtuReadOps
  rw [h]
  exact ⟨k, _, rfl⟩

section generic
variable {ok : Clock → Op → Nat → Prop} [∀ c op d, Decidable (ok c op d)]

/-- outcomes coupled to the clock, RTU, CODE BEFORE FIX c501b6a: when the two sleeps alone
    outlast the timeout, no run of the exchange contains a `Read` that returned data - the stream it sees is empty -/
theorem late_read_sees_nothing {ε T L w post t0 : Nat} {dl0 : Option Nat} (hsl : SleepOk ε ok)
    (hsd : SdOk ok) (hlf : LateFails ok) {s : Bytes} {tail : List Op}
    {durs : List (Op × Nat)} {c' : Clock}
    (hmap : durs.map Prod.fst = rtuPreTraceOld T L w post ++ rtuReadOps s ++ tail)
    (hrun : runWith ok ⟨t0, dl0⟩ durs = some c') (hT : T < w + post) : s = [] := by
  apply Classical.byContradiction
  intro hs
  obtain ⟨k, rest, hhead⟩ := rtuReadOps_head hs
  obtain ⟨d1, dTail, c5, _, h1, _, r1, _⟩ := runWith_append_inv hmap hrun
  obtain ⟨dP, dR, c4, _, hP, hR, rP, rR⟩ := runWith_append_inv h1 r1
  obtain ⟨c2, dWr, _, hc2, _, _, hc4d, hc4, _⟩ := rtuPreOld_run hsl hsd hP rP
  rw [hhead] at hR
  obtain ⟨d, _, _, _, hd, _⟩ := runWith_cons_inv hR rR
  have := hlf _ _ _ hd
  unfold outcomeOk at this
  rw [hc4d] at this
  simp only at this
  omega

/-- MBAP: the clock when the first `Read` starts -/
theorem mbapPre_run {δ T L t0 : Nat} {dl0 : Option Nat} (hsd : SdOk ok) (hs : Slack Op.isIO δ ok)
    {durs : List (Op × Nat)} {c2 : Clock}
    (hmap : durs.map Prod.fst = mbapPreTrace T L)
    (hrun : runWith ok ⟨t0, dl0⟩ durs = some c2) :
    c2.deadline = some (t0 + T) ∧ t0 ≤ c2.now ∧ c2.now ≤ t0 + T + δ := by
  obtain ⟨h1, h2, h3⟩ := elapsed_single_deadlineW (P := Op.isIO) (fun _ h => h) hsd hs
    (ops := [.write L]) (by intro op h; simp at h; subst h; rfl) hmap hrun
  exact ⟨h3, h2, h1⟩

end generic

/-! ### server side -/

/-- the reads of `readMBAPFrame` do not depend on the transaction id the client is waiting for -/
theorem mbapFrameStep_ops (txn : U16) (s : Bytes) : (mbapFrameStep txn s).ops = mbapFrameReads s := by
  unfold mbapFrameReads mbapFrameStep
  by_cases h7 : mbapHeaderLength ≤ s.length
  · simp only [if_pos h7]
    repeat' split
    all_goals rfl
  · simp only [if_neg h7]

theorem mbapFrameReads_isRead (s : Bytes) : ∀ op ∈ mbapFrameReads s, op.isRead = true :=
  (step_spec 0 s .timeout).2.2.1

theorem mbapFrameReads_length_le (s : Bytes) : (mbapFrameReads s).length ≤ 3 :=
  (step_spec 0 s .timeout).2.2.2.1

/-- `ReadRequest` fails with the stream's ending error exactly when one of its `Read` calls
    hit the end of the stream -/
theorem hasEnd_mbapFrameReads (s : Bytes) (e : Ending) :
    hasEnd (mbapFrameReads s) = true ↔ ∃ k, (readFrame s e).1 = .err (shortErr k e) :=
  (step_spec 0 s e).2.2.2.2.2

theorem readFrame_timeout_iff (s : Bytes) :
    (readFrame s .timeout).1 = .err .ioTimeout ↔ hasEnd (mbapFrameReads s) = true := by
  rw [hasEnd_mbapFrameReads s .timeout]
  constructor
  · intro h; exact ⟨0, by rw [h, shortErr_timeout]⟩
  · rintro ⟨k, h⟩; rw [h, shortErr_timeout]

theorem gotSum_mbapFrameReads (s : Bytes) (e : Ending) :
    gotSum (mbapFrameReads s) + (readFrame s e).2.length = s.length :=
  (step_spec 0 s e).2.1

theorem countDeadlines_cons_sd (T : Nat) (l : List Op) :
    countDeadlines (.setDeadline T :: l) = 1 + countDeadlines l := by
  unfold countDeadlines
  rw [List.filter_cons_of_pos (by rfl), List.length_cons]; omega

theorem sessionTrace_cons (T : Nat) (it : Iter) (its : List Iter) :
    sessionTrace T (it :: its) = iterTrace T it ++ sessionTrace T its := by
  simp [sessionTrace]

theorem sessionTrace_append (T : Nat) (a b : List Iter) :
    sessionTrace T (a ++ b) = sessionTrace T a ++ sessionTrace T b := by
  simp [sessionTrace]

theorem iterTrace_eq (T : Nat) (it : Iter) :
    iterTrace T it = .setDeadline T :: (mbapFrameReads it.view ++
      (match it.resp with | some L => [.write L] | none => [])) := rfl

theorem countDeadlines_iterTrace (T : Nat) (it : Iter) : countDeadlines (iterTrace T it) = 1 := by
  rw [iterTrace_eq, countDeadlines_cons_sd, countDeadlines_append,
    countDeadlines_reads (mbapFrameReads_isRead it.view)]
  cases it.resp <;> simp [countDeadlines, Op.isSetDeadline]

theorem countDeadlines_sessionTrace (T : Nat) (its : List Iter) :
    countDeadlines (sessionTrace T its) = its.length := by
  induction its with
  | nil => rfl
  | cons it its ih =>
    rw [sessionTrace_cons, countDeadlines_append, countDeadlines_iterTrace, ih, List.length_cons]
    omega

theorem writeLens_append (a b : List Op) : writeLens (a ++ b) = writeLens a ++ writeLens b := by
  induction a with
  | nil => rfl
  | cons x a ih => cases x <;> simp [writeLens, ih]

theorem writeLens_reads {t : List Op} (h : ∀ op ∈ t, op.isRead = true) : writeLens t = [] := by
  induction t with
  | nil => rfl
  | cons x t ih =>
    have hx := h x List.mem_cons_self
    have := ih (fun o ho => h o (List.mem_cons_of_mem _ ho))
    cases x <;> first | simpa [writeLens] using this | cases hx

theorem writeLens_iterTrace (T : Nat) (it : Iter) :
    writeLens (iterTrace T it) = (match it.resp with | some L => [L] | none => []) := by
  rw [iterTrace_eq]
  simp only [writeLens]
  rw [writeLens_append, writeLens_reads (mbapFrameReads_isRead it.view)]
  cases it.resp <;> rfl

theorem respondLens_append (a b : List Server.Event) :
    respondLens (a ++ b) = respondLens a ++ respondLens b := by
  induction a with
  | nil => rfl
  | cons x a ih => cases x <;> simp [respondLens, ih]

section server
variable {σ : Type} (h : Server.Handler σ)

theorem serverItersAux_err {fuel : Nat} {st : σ} {s rest : Bytes} {e : Ending} {err : Err}
    (hrf : readFrame s e = (.err err, rest)) : serverItersAux h (fuel + 1) st s e = [⟨s, none⟩] := by
  rw [serverItersAux, hrf]

theorem serverItersAux_respond {fuel : Nat} {st : σ} {s rest : Bytes} {e : Ending} {req : Pdu}
    {txn : U16} {p : Pdu} (hrf : readFrame s e = (.ok req txn, rest))
    (hact : (Server.handle h st req).2.2 = .respond p) :
    serverItersAux h (fuel + 1) st s e = ⟨s, some (assemble txn p).length⟩ ::
      serverItersAux h fuel (Server.handle h st req).1 rest e := by
  rw [serverItersAux, hrf]
  simp only [hact]

theorem serverItersAux_stop {fuel : Nat} {st : σ} {s rest : Bytes} {e : Ending} {req : Pdu}
    {txn : U16} (hrf : readFrame s e = (.ok req txn, rest))
    (hact : ∀ p, (Server.handle h st req).2.2 ≠ .respond p) :
    serverItersAux h (fuel + 1) st s e = [⟨s, none⟩] := by
  rw [serverItersAux, hrf]
  -- the catch-all branch: its side condition `∀ p, … ≠ respond p` is `hact`
  simp only

theorem respondLens_evCall (call : Option Server.HReq) :
    respondLens (match call with | some c => [Server.Event.call c] | none => []) = [] := by
  cases call <;> rfl

/-- the frames written in the trace are the frames of the `respond` events of `Server.runAux`,
    in order (any fuel) -/
theorem serverIters_writes (T : Nat) (e : Ending) : ∀ (fuel : Nat) (st : σ) (s : Bytes),
    writeLens (sessionTrace T (serverItersAux h fuel st s e)) =
      respondLens (Server.runAux h fuel st s e).2 := by
  intro fuel
  induction fuel with
  | zero => intro st s; rfl
  | succ fuel ih =>
    intro st s
    cases hrf : readFrame s e with
    | mk r rest =>
      cases r with
      | err err =>
        rw [serverItersAux_err h hrf, Server.runAux_err h st hrf, sessionTrace_cons,
          writeLens_append, writeLens_iterTrace]
        rfl
      | ok req txn =>
        rw [Server.runAux_ok h st hrf]
        cases hact : (Server.handle h st req).2.2 with
        | respond p =>
          rw [serverItersAux_respond h hrf hact, sessionTrace_cons, writeLens_append,
            writeLens_iterTrace, ih]
          simp only [Server.frameStep, hact, respondLens_append]
          cases (Server.handle h st req).2.1 <;> rfl
        | close =>
          rw [serverItersAux_stop h hrf (by intro p hp; rw [hact] at hp; cases hp),
            sessionTrace_cons, writeLens_append, writeLens_iterTrace]
          simp only [Server.frameStep, hact, respondLens_append]
          cases (Server.handle h st req).2.1 <;> rfl
        | panic =>
          rw [serverItersAux_stop h hrf (by intro p hp; rw [hact] at hp; cases hp),
            sessionTrace_cons, writeLens_append, writeLens_iterTrace]
          simp only [Server.frameStep, hact, respondLens_append]
          cases (Server.handle h st req).2.1 <;> rfl

theorem not_ended_mem_evCall (call : Option Server.HReq) (x : Server.Event) (err : Err) :
    Server.Event.ended err ∉ (match call with | some c => [Server.Event.call c] | none => []) ++ [x] ↔
      x ≠ .ended err := by
  cases call <;> simp [eq_comm]

/-- with enough fuel: every iteration but the last writes a response, the last one does not;
    and if the session ends because `ReadRequest` failed with `err`, it is the `ReadRequest` of
    the last iteration that failed with it -/
theorem serverIters_shape (e : Ending) : ∀ (fuel : Nat) (st : σ) (s : Bytes), s.length < fuel →
    ∃ pre v, serverItersAux h fuel st s e = pre ++ [⟨v, none⟩] ∧
      (∀ it ∈ pre, it.resp.isSome = true) ∧
      (∀ err, Server.Event.ended err ∈ (Server.runAux h fuel st s e).2 → (readFrame v e).1 = .err err) := by
  intro fuel
  induction fuel with
  | zero => intro st s hf; omega
  | succ fuel ih =>
    intro st s hf
    cases hrf : readFrame s e with
    | mk r rest =>
      cases r with
      | err err0 =>
        refine ⟨[], s, by rw [serverItersAux_err h hrf]; rfl, by simp, ?_⟩
        intro err hmem
        rw [Server.runAux_err h st hrf] at hmem
        simp at hmem
        rw [hrf, hmem]
      | ok req txn =>
        have hprog := readFrame_progress hrf (Or.inr ⟨req, txn, rfl⟩)
        cases hact : (Server.handle h st req).2.2 with
        | respond p =>
          obtain ⟨pre, v, h1, h2, h3⟩ := ih (Server.handle h st req).1 rest (by omega)
          refine ⟨⟨s, some (assemble txn p).length⟩ :: pre, v, ?_, ?_, ?_⟩
          · rw [serverItersAux_respond h hrf hact, h1]; rfl
          · intro it hit
            rcases List.mem_cons.mp hit with rfl | hit
            · rfl
            · exact h2 it hit
          · intro err hmem
            rw [Server.runAux_ok h st hrf] at hmem
            simp only [Server.frameStep, hact] at hmem
            rcases List.mem_append.mp hmem with hm | hm
            · exfalso
              revert hm
              cases (Server.handle h st req).2.1 <;> simp
            · exact h3 err hm
        | close =>
          refine ⟨[], s, by rw [serverItersAux_stop h hrf (by intro p hp; rw [hact] at hp; cases hp)]; rfl,
            by simp, ?_⟩
          intro err hmem
          rw [Server.runAux_ok h st hrf] at hmem
          simp only [Server.frameStep, hact] at hmem
          exfalso
          revert hmem
          cases (Server.handle h st req).2.1 <;> simp
        | panic =>
          refine ⟨[], s, by rw [serverItersAux_stop h hrf (by intro p hp; rw [hact] at hp; cases hp)]; rfl,
            by simp, ?_⟩
          intro err hmem
          rw [Server.runAux_ok h st hrf] at hmem
          simp only [Server.frameStep, hact] at hmem
          exfalso
          revert hmem
          cases (Server.handle h st req).2.1 <;> simp

end server

/-! ### the server session on the clock -/

section generic
variable {ok : Clock → Op → Nat → Prop} [∀ c op d, Decidable (ok c op d)]

/-- A-deadline⁻, accumulated: reads under the armed deadline `D`, one of which is cut off by the
    deadline, do not end before `D` -/
theorem run_reads_notEarly (hne : NotEarly ok) {D : Nat} {ops : List Op}
    (hops : ∀ op ∈ ops, op.isRead = true) (hend : hasEnd ops = true) :
    ∀ {c c' : Clock} {durs : List (Op × Nat)}, durs.map Prod.fst = ops → c.deadline = some D →
      runWith ok c durs = some c' → D ≤ c'.now := by
  induction ops with
  | nil => simp [hasEnd] at hend
  | cons op ops ih =>
    intro c c' durs hmap hD hrun
    obtain ⟨d, rest, _, hrest, hd, hrun'⟩ := runWith_cons_inv hmap hrun
    have hmono := runWith_now_le hrun'
    rw [step_now] at hmono
    by_cases hop : op.isEnd = true
    · cases op <;> first | cases hop | skip
      have := hne _ _ _ hd
      unfold timeoutNotEarly at this
      rw [hD] at this
      simp only at this
      omega
    · have hend' : hasEnd ops = true := by
        simp only [hasEnd, List.any_cons, Bool.or_eq_true] at hend ⊢
        rcases hend with h | h
        · exact absurd h hop
        · exact h
      have hio := isIO_of_isRead (hops op List.mem_cons_self)
      exact ih (fun o ho => hops o (List.mem_cons_of_mem _ ho)) hend' hrest
        (by rw [(step_of_isIO hio).1]; exact hD) hrun'

/-- one `ReadRequest` started at `tS`: it arms `tS + T` and returns by `tS + T + δ` -/
theorem readRequest_run {δ T tS : Nat} {dl0 : Option Nat} (hsd : SdOk ok) (hrs : Slack Op.isRead δ ok)
    {s : Bytes} {durs : List (Op × Nat)} {c' : Clock}
    (hmap : durs.map Prod.fst = readRequestTrace T s)
    (hrun : runWith ok ⟨tS, dl0⟩ durs = some c') :
    c'.deadline = some (tS + T) ∧ tS ≤ c'.now ∧ c'.now ≤ tS + T + δ := by
  obtain ⟨h1, h2, h3⟩ := elapsed_single_deadlineW (P := Op.isRead) (fun _ => isIO_of_isRead) hsd hrs
    (mbapFrameReads_isRead s) hmap hrun
  exact ⟨h3, h2, h1⟩

/-- ... and if it fails with the timeout error, it does so no earlier than `tS + T` -/
theorem readRequest_idle {T tS : Nat} {dl0 : Option Nat} (hsd : SdOk ok) (hne : NotEarly ok)
    {s : Bytes} (hto : hasEnd (mbapFrameReads s) = true) {durs : List (Op × Nat)} {c' : Clock}
    (hmap : durs.map Prod.fst = readRequestTrace T s)
    (hrun : runWith ok ⟨tS, dl0⟩ durs = some c') : tS + T ≤ c'.now := by
  obtain ⟨d, rest, _, hrest, hd, hrun'⟩ := runWith_cons_inv hmap hrun
  have := hsd _ _ _ hd
  subst this
  exact run_reads_notEarly hne (mbapFrameReads_isRead s) hto hrest rfl hrun'

/-- the iteration `it` of a session: `cS` is the clock when its `ReadRequest` begins, `cR` the
    clock when that `ReadRequest` returns -/
theorem session_iter_run {δ T : Nat} (hsd : SdOk ok) (hrs : Slack Op.isRead δ ok)
    {pre post : List Iter} {it : Iter} {c0 c' : Clock} {durs : List (Op × Nat)}
    (hmap : durs.map Prod.fst = sessionTrace T (pre ++ it :: post))
    (hrun : runWith ok c0 durs = some c') :
    ∃ dpre dreq drest cS cR, durs = dpre ++ (dreq ++ drest) ∧
      dpre.map Prod.fst = sessionTrace T pre ∧ dreq.map Prod.fst = readRequestTrace T it.view ∧
      drest.map Prod.fst =
        (match it.resp with | some L => [.write L] | none => []) ++ sessionTrace T post ∧
      runWith ok c0 dpre = some cS ∧ runWith ok cS dreq = some cR ∧ runWith ok cR drest = some c' ∧
      c0.now ≤ cS.now ∧ cR.deadline = some (cS.now + T) ∧ cS.now ≤ cR.now ∧
      cR.now ≤ cS.now + T + δ := by
  rw [sessionTrace_append, sessionTrace_cons, iterTrace, List.append_assoc] at hmap
  obtain ⟨dpre, d2, cS, hd, h1, h2, r1, r2⟩ := runWith_append_inv hmap hrun
  obtain ⟨dreq, drest, cR, hd2, h3, h4, r3, r4⟩ := runWith_append_inv h2 r2
  have hmono := runWith_now_le r1
  obtain ⟨tS, dlS⟩ := cS
  obtain ⟨g1, g2, g3⟩ := readRequest_run hsd hrs h3 r3
  exact ⟨dpre, dreq, drest, ⟨tS, dlS⟩, cR, by rw [hd, hd2], h1, h3, h4, r1, r3, r4, hmono, g1, g2, g3⟩

end generic

/-! ### the timed abstraction of the loop -/

theorem spaced_mono {T : Nat} : ∀ {l : List (Nat × Nat)} {p p' : Nat}, p ≤ p' → spaced T p l →
    spaced T p' l := by
  intro l
  cases l with
  | nil => intros; trivial
  | cons x rest =>
    obtain ⟨a, proc⟩ := x
    intro p p' hp hs
    simp only [spaced] at hs ⊢
    exact ⟨by omega, hs.2⟩

theorem lastArrival_mono : ∀ (l : List (Nat × Nat)) {p p' : Nat}, p ≤ p' →
    lastArrival p l ≤ lastArrival p' l := by
  intro l
  cases l with
  | nil => intro p p' h; exact h
  | cons x rest => obtain ⟨a, proc⟩ := x; intro p p' _; exact Nat.le_refl _

theorem serveTimed_cons_pos {T tS a proc : Nat} {rest : List (Nat × Nat)} (h : a ≤ tS + T) :
    serveTimed T tS ((a, proc) :: rest) =
      ((serveTimed T (max tS a + proc) rest).1 + 1, (serveTimed T (max tS a + proc) rest).2) := by
  rw [serveTimed, if_pos h]

theorem serveTimed_cons_neg {T tS a proc : Nat} {rest : List (Nat × Nat)} (h : ¬ a ≤ tS + T) :
    serveTimed T tS ((a, proc) :: rest) = (0, tS + T) := by
  rw [serveTimed, if_neg h]

/-- never ended for idleness before `T` after the session began -/
theorem serveTimed_not_early (T : Nat) : ∀ (l : List (Nat × Nat)) (tS : Nat),
    tS + T ≤ (serveTimed T tS l).2 := by
  intro l
  induction l with
  | nil => intro tS; exact Nat.le_refl _
  | cons x rest ih =>
    obtain ⟨a, proc⟩ := x
    intro tS
    by_cases h : a ≤ tS + T
    · rw [serveTimed_cons_pos h]
      have := ih (max tS a + proc)
      simp only
      omega
    · rw [serveTimed_cons_neg h]; exact Nat.le_refl _

/-- a client that never lets more than `T` pass between two requests is never dropped for
    idleness: all requests are answered, and the idle end comes no earlier than `T` after its
    last request arrived -/
theorem serveTimed_spaced (T : Nat) : ∀ (l : List (Nat × Nat)) (tS : Nat), spaced T tS l →
    (serveTimed T tS l).1 = l.length ∧ lastArrival tS l + T ≤ (serveTimed T tS l).2 := by
  intro l
  induction l with
  | nil => intro tS _; exact ⟨rfl, Nat.le_refl _⟩
  | cons x rest ih =>
    obtain ⟨a, proc⟩ := x
    intro tS hs
    simp only [spaced] at hs
    rw [serveTimed_cons_pos hs.1]
    have hle : a ≤ max tS a + proc := by omega
    obtain ⟨h1, h2⟩ := ih (max tS a + proc) (spaced_mono hle hs.2)
    have := lastArrival_mono rest hle
    simp only [lastArrival, List.length_cons]
    exact ⟨by omega, by omega⟩

end Modbus.Io
