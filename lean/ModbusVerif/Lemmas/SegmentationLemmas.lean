import ModbusVerif.Model.Rtu
import ModbusVerif.Lemmas.StreamLemmas
import ModbusVerif.Lemmas.MbapLemmas
import ModbusVerif.Lemmas.RtuLemmas
/-
  C12, remaining gaps:
  (1) `readRTUFrame` and the RTU flush (`discard`) performed with the `io.ReadFull` loop over an
      arbitrarily chunked source (`readFullC` / `readFullChunked`);
  (2) `readMBAPFrame`, the MBAP skip loop, `readRTUFrame` and the flush performed through the
      UDP datagram → stream adapter (`Udp.readFullU`, the `io.ReadFull` loop over `Udp.read`).
  All of them are shown to compute what the flat stream model computes on the concatenated
  stream (`List.flatten` of the chunks, resp. `Udp.State.pendingBytes`).
-/
namespace Modbus

/-! ## Part 1: RTU over a chunked source -/
namespace Rtu
open Modbus.Strm Modbus.Crc

/-- `readRTUFrame` performed with the `io.ReadFull` loop on a chunked source:
    same reads, same checks, same order as `Rtu.readFrame`
    (ReadFull 3; expectedResponseLength; size check; ReadFull (n+2); CRC) -/
def readFrameC (src : List Bytes) (e : Ending) : (Except Err Pdu) × List Bytes :=
  match readFullC 3 src e with
  | .short got _ =>
    if got.length > 0 then (.error .shortFrame, []) else (.error e.err, [])
  | .ok h rest =>
    match expectedResponseLength (h.getD 1 0) (h.getD 2 0) with
    | .error err => (.error err, rest)
    | .ok n =>
      let bytesNeeded := n + 2
      if 3 + bytesNeeded > maxRTUFrameLength then (.error .protocolError, rest)
      else
        match readFullC bytesNeeded rest e with
        | .short got _ =>
          if got.length = 0 then (.error e.err, [])
          else if e = .eof then (.error .shortFrame, [])
          else (.error e.err, [])
        | .ok body rest' =>
          let data := body.take n
          let c := Crc.add Crc.init (h ++ data)
          if Crc.isEqual c (body.getD n 0) (body.getD (n+1) 0) then
            (.ok { unit := h.getD 0 0, fc := h.getD 1 0, payload := h.getD 2 0 :: data }, rest')
          else (.error .badCRC, rest')

/-- RTU frame reading is independent of the segmentation of the byte stream -/
theorem readFrameC_flatten (src : List Bytes) (e : Ending) :
    (readFrameC src e).1 = (readFrame src.flatten e).1 ∧
    ((readFrameC src e).2).flatten = (readFrame src.flatten e).2 := by
  unfold readFrameC readFrame
  cases h1 : readFullC 3 src e with
  | short got err =>
    rw [readFullC_short_inv h1]
    simp only []
    split <;> exact ⟨rfl, rfl⟩
  | ok h rest =>
    rw [readFullC_ok_inv h1]
    simp only []
    cases hl : expectedResponseLength (h.getD 1 0) (h.getD 2 0) with
    | error err => exact ⟨rfl, rfl⟩
    | ok n =>
      simp only []
      by_cases c1 : 3 + (n + 2) > maxRTUFrameLength
      · rw [if_pos c1, if_pos c1]; exact ⟨rfl, rfl⟩
      · rw [if_neg c1, if_neg c1]
        cases h2 : readFullC (n + 2) rest e with
        | short got err =>
          rw [readFullC_short_inv h2]
          simp only []
          split
          · exact ⟨rfl, rfl⟩
          · split <;> exact ⟨rfl, rfl⟩
        | ok body rest' =>
          rw [readFullC_ok_inv h2]
          simp only []
          split <;> exact ⟨rfl, rfl⟩

/-- two segmentations of the same byte stream: same PDU / same error, same unread bytes -/
theorem readFrameC_segmentation {src₁ src₂ : List Bytes} (e : Ending)
    (h : src₁.flatten = src₂.flatten) :
    (readFrameC src₁ e).1 = (readFrameC src₂ e).1 ∧
    ((readFrameC src₁ e).2).flatten = ((readFrameC src₂ e).2).flatten := by
  obtain ⟨a1, a2⟩ := readFrameC_flatten src₁ e
  obtain ⟨b1, b2⟩ := readFrameC_flatten src₂ e
  rw [a1, a2, b1, b2, h]
  exact ⟨rfl, rfl⟩

/-- `discard` on a chunked source: `io.ReadFull(link, rxbuf[0:1024])`, result ignored -/
def discardC (src : List Bytes) : List Bytes := (readFullChunked discardLen src).2

theorem discardC_flatten (src : List Bytes) : (discardC src).flatten = src.flatten.drop discardLen :=
  readFullChunked_snd discardLen src

/-- what `ExecuteRequest` does after `readRTUFrame`, on a chunked source: on bad CRC / protocol
    error / short frame `discard` runs the `io.ReadFull` loop for 1024 bytes and drops them -/
def afterReadC (r : (Except Err Pdu) × List Bytes) : (Except Err Pdu) × List Bytes :=
  match r with
  | (.error .badCRC, rest) => (.error .badCRC, discardC rest)
  | (.error .protocolError, rest) => (.error .protocolError, discardC rest)
  | (.error .shortFrame, rest) => (.error .shortFrame, discardC rest)
  | r => r

/-- forget the segmentation of the unread rest -/
def flatR (r : (Except Err Pdu) × List Bytes) : (Except Err Pdu) × Bytes := (r.1, r.2.flatten)

/-- the flush step commutes with forgetting the segmentation -/
theorem afterReadC_flat (r : (Except Err Pdu) × List Bytes) :
    flatR (afterReadC r) = afterRead (flatR r) := by
  obtain ⟨o, rest⟩ := r
  unfold afterReadC afterRead flatR
  cases o with
  | ok p => rfl
  | error err =>
    cases err <;> simp only [discardC_flatten] <;> rfl

theorem afterReadC_flush {err : Err} (rest : List Bytes)
    (h : err = .badCRC ∨ err = .protocolError ∨ err = .shortFrame) :
    (afterReadC (.error err, rest)).1 = .error err ∧
    ((afterReadC (.error err, rest)).2).flatten = rest.flatten.drop 1024 := by
  rcases h with rfl | rfl | rfl <;> exact ⟨rfl, discardC_flatten rest⟩

/-- read + flush over a chunked source = read + flush over the concatenated stream -/
theorem afterReadC_readFrameC_flatten (src : List Bytes) (e : Ending) :
    (afterReadC (readFrameC src e)).1 = (afterRead (readFrame src.flatten e)).1 ∧
    ((afterReadC (readFrameC src e)).2).flatten = (afterRead (readFrame src.flatten e)).2 := by
  have h := afterReadC_flat (readFrameC src e)
  have hf : flatR (readFrameC src e) = readFrame src.flatten e :=
    Prod.ext (readFrameC_flatten src e).1 (readFrameC_flatten src e).2
  rw [hf] at h
  rw [← h]
  exact ⟨rfl, rfl⟩

end Rtu

/-! ## Part 2: the UDP datagram → stream adapter -/
namespace Udp
open Modbus.Strm

/-- outcome of `io.ReadFull(wrapper, buf[0:n])` on the adapter, with the adapter state after it -/
inductive RFU
  | ok (bs : Bytes) (st : State)
  | short (got : Bytes) (err : Err) (st : State)
  deriving Repr, DecidableEq

/-- forget the adapter state: what is still pending -/
def RFU.flat : RFU → RF
  | .ok bs st => .ok bs st.pendingBytes
  | .short got err _ => .short got err

/-- `io.ReadFull(wrapper, buf[0:n])` with its error: fewer than `n` bytes gathered means `Read`
    failed (nothing buffered, no datagram queued) and the loop ended with the Read error,
    to which `io.ReadFull` applies the usual rule (`shortErr`) -/
def readFullUE (n : Nat) (st : State) (e : Ending) : RFU :=
  let r := readFullU n st
  if r.1.length = n then .ok r.1 r.2 else .short r.1 (shortErr r.1.length e) r.2

/-- a short read happens exactly when fewer than `n` bytes are pending -/
theorem readFullUE_short_iff (n : Nat) (st : State) (e : Ending) :
    (∃ got err st', readFullUE n st e = .short got err st') ↔ st.pendingBytes.length < n := by
  unfold readFullUE
  simp only [(readFullU_pending n st).1, List.length_take]
  constructor
  · rintro ⟨got, err, st', h⟩
    split at h
    · cases h
    · omega
  · intro h
    rw [if_neg (by omega)]
    exact ⟨_, _, _, rfl⟩

theorem readFullUE_flat (n : Nat) (st : State) (e : Ending) :
    (readFullUE n st e).flat = readFull n st.pendingBytes e := by
  obtain ⟨h1, h2⟩ := readFullU_pending n st
  by_cases h : n ≤ st.pendingBytes.length
  · have hl : (readFullU n st).1.length = n := by
      rw [h1, List.length_take]; exact Nat.min_eq_left h
    rw [readFull_ok_of_le e h]
    unfold readFullUE
    simp only [hl, if_true, RFU.flat]
    rw [h1, h2]
  · have h' : st.pendingBytes.length < n := Nat.lt_of_not_le h
    have h1' : (readFullU n st).1 = st.pendingBytes := by
      rw [h1]; exact List.take_of_length_le (Nat.le_of_lt h')
    have hne : st.pendingBytes.length ≠ n := by omega
    rw [readFull_short_of_lt e h']
    unfold readFullUE
    simp only [h1', hne, if_false, RFU.flat]

theorem readFullUE_ok_inv {n : Nat} {st st' : State} {bs : Bytes} {e : Ending}
    (h : readFullUE n st e = .ok bs st') :
    readFull n st.pendingBytes e = .ok bs st'.pendingBytes := by
  rw [← readFullUE_flat, h]; rfl

theorem readFullUE_short_inv {n : Nat} {st st' : State} {got : Bytes} {err : Err} {e : Ending}
    (h : readFullUE n st e = .short got err st') :
    readFull n st.pendingBytes e = .short got err ∧ st'.pendingBytes = [] := by
  refine ⟨by rw [← readFullUE_flat, h]; rfl, ?_⟩
  have hlt : st.pendingBytes.length < n :=
    (readFullUE_short_iff n st e).mp ⟨_, _, _, h⟩
  unfold readFullUE at h
  simp only [] at h
  split at h
  · cases h
  · injection h with _ _ h3
    rw [← h3, (readFullU_pending n st).2]
    exact List.drop_of_length_le (Nat.le_of_lt hlt)

/-- two adapter states with the same pending bytes: same `ReadFull` outcome -/
theorem readFullUE_pending_congr {st₁ st₂ : State} (n : Nat) (e : Ending)
    (h : st₁.pendingBytes = st₂.pendingBytes) :
    (readFullUE n st₁ e).flat = (readFullUE n st₂ e).flat := by
  rw [readFullUE_flat, readFullUE_flat, h]

/-- empty leftover, datagrams that fit the receive buffer: the pending bytes are the
    concatenation of the datagrams -/
theorem pendingBytes_fresh {ds : List Bytes} (h : ∀ d ∈ ds, d.length ≤ rxbufLen) :
    (State.mk [] ds).pendingBytes = ds.flatten := by
  rw [pendingBytes_of_small ⟨[], ds⟩ h]; rfl

/-- a datagram longer than the receive buffer loses its tail -/
theorem pendingBytes_long_datagram (d : Bytes) (ds : List Bytes) :
    (State.mk [] (d :: ds)).pendingBytes = d.take rxbufLen ++ (State.mk [] ds).pendingBytes := by
  simp [State.pendingBytes]

end Udp

namespace Mbap
open Modbus.Strm Modbus.Udp

/-- `readMBAPFrame` performed through the UDP adapter: same reads, same checks, same order as
    `Mbap.readFrame`, each `io.ReadFull` being the loop over `Udp.read` -/
def readFrameU (st : Udp.State) (e : Ending) : Frame × Udp.State :=
  match readFullUE mbapHeaderLength st e with
  | .short _ err st' => (.err err, st')
  | .ok h st1 =>
    let txn   := mk16 (h.getD 0 0) (h.getD 1 0)
    let proto := mk16 (h.getD 2 0) (h.getD 3 0)
    let len   := (mk16 (h.getD 4 0) (h.getD 5 0)).toNat
    let unit  := h.getD 6 0
    if len + mbapHeaderLength > maxTCPFrameLength + 1 then (.err .protocolError, st1)
    else if len ≤ 1 then (.err .protocolError, st1)
    else
      match readFullUE (len - 1) st1 e with
      | .short _ err st' => (.err err, st')
      | .ok body st2 =>
        if proto ≠ 0 then (.err .unknownProtocolId, st2)
        else (.ok { unit := unit, fc := body.getD 0 0, payload := body.drop 1 } txn, st2)

/-- MBAP frame reading through the adapter = frame reading on the pending bytes -/
theorem readFrameU_pending (st : Udp.State) (e : Ending) :
    (readFrameU st e).1 = (readFrame st.pendingBytes e).1 ∧
    (readFrameU st e).2.pendingBytes = (readFrame st.pendingBytes e).2 := by
  unfold readFrameU readFrame
  cases h1 : readFullUE mbapHeaderLength st e with
  | short got err st' =>
    obtain ⟨hs, hp⟩ := readFullUE_short_inv h1
    rw [hs]; exact ⟨rfl, hp⟩
  | ok h st1 =>
    rw [readFullUE_ok_inv h1]
    simp only []
    by_cases c1 : (mk16 (h.getD 4 0) (h.getD 5 0)).toNat + mbapHeaderLength > maxTCPFrameLength + 1
    · rw [if_pos c1, if_pos c1]; exact ⟨rfl, rfl⟩
    · rw [if_neg c1, if_neg c1]
      by_cases c2 : (mk16 (h.getD 4 0) (h.getD 5 0)).toNat ≤ 1
      · rw [if_pos c2, if_pos c2]; exact ⟨rfl, rfl⟩
      · rw [if_neg c2, if_neg c2]
        cases h2 : readFullUE ((mk16 (h.getD 4 0) (h.getD 5 0)).toNat - 1) st1 e with
        | short got err st' =>
          obtain ⟨hs, hp⟩ := readFullUE_short_inv h2
          rw [hs]; exact ⟨rfl, hp⟩
        | ok body st2 =>
          rw [readFullUE_ok_inv h2]
          simp only []
          by_cases c3 : mk16 (h.getD 2 0) (h.getD 3 0) ≠ 0
          · rw [if_pos c3, if_pos c3]; exact ⟨rfl, rfl⟩
          · rw [if_neg c3, if_neg c3]; exact ⟨rfl, rfl⟩

theorem readFrameU_eq (st : Udp.State) (e : Ending) :
    readFrame st.pendingBytes e = ((readFrameU st e).1, (readFrameU st e).2.pendingBytes) :=
  Prod.ext (readFrameU_pending st e).1.symm (readFrameU_pending st e).2.symm

/-- the client's skip loop through the adapter -/
def readResponseAuxU : Nat → U16 → Udp.State → Ending → (Except Err Pdu) × Udp.State
  | 0, _, st, _ => (.error .ioOther, st)
  | fuel+1, txn, st, e =>
    match readFrameU st e with
    | (.err .unknownProtocolId, st') => readResponseAuxU fuel txn st' e
    | (.err err, st') => (.error err, st')
    | (.ok p t, st') => if t = txn then (.ok p, st') else readResponseAuxU fuel txn st' e

def readResponseU (txn : U16) (st : Udp.State) (e : Ending) : (Except Err Pdu) × Udp.State :=
  readResponseAuxU (st.pendingBytes.length + 1) txn st e

theorem readResponseAuxU_pending (txn : U16) (e : Ending) :
    ∀ (fuel : Nat) (st : Udp.State),
      (readResponseAuxU fuel txn st e).1 = (readResponseAux fuel txn st.pendingBytes e).1 ∧
      (readResponseAuxU fuel txn st e).2.pendingBytes =
        (readResponseAux fuel txn st.pendingBytes e).2 := by
  intro fuel
  induction fuel with
  | zero => intro st; exact ⟨rfl, rfl⟩
  | succ fuel ih =>
    intro st
    have hflat := readFrameU_eq st e
    cases hc : readFrameU st e with
    | mk r st' =>
      rw [hc] at hflat
      simp only [] at hflat
      cases r with
      | ok p t =>
        rw [readResponseAux_ok hflat, readResponseAuxU, hc]
        simp only []
        by_cases ht : t = txn
        · rw [if_pos ht, if_pos ht]; exact ⟨rfl, rfl⟩
        · rw [if_neg ht, if_neg ht]; exact ih st'
      | err err =>
        by_cases hu : err = .unknownProtocolId
        · subst hu
          rw [readResponseAux_skipProto hflat, readResponseAuxU, hc]
          exact ih st'
        · rw [readResponseAux_err hflat hu, readResponseAuxU, hc]
          cases err <;> first | exact ⟨rfl, rfl⟩ | exact absurd rfl hu

/-- the skip loop through the adapter = the skip loop on the pending bytes -/
theorem readResponseU_pending (txn : U16) (st : Udp.State) (e : Ending) :
    (readResponseU txn st e).1 = (readResponse txn st.pendingBytes e).1 ∧
    (readResponseU txn st e).2.pendingBytes = (readResponse txn st.pendingBytes e).2 :=
  readResponseAuxU_pending txn e _ st

end Mbap

namespace Rtu
open Modbus.Strm Modbus.Udp Modbus.Crc

/-- `readRTUFrame` performed through the UDP adapter (rtuoverudp): same reads, same checks,
    same order as `Rtu.readFrame` -/
def readFrameU (st : Udp.State) (e : Ending) : (Except Err Pdu) × Udp.State :=
  match readFullUE 3 st e with
  | .short got _ st' =>
    if got.length > 0 then (.error .shortFrame, st') else (.error e.err, st')
  | .ok h st1 =>
    match expectedResponseLength (h.getD 1 0) (h.getD 2 0) with
    | .error err => (.error err, st1)
    | .ok n =>
      let bytesNeeded := n + 2
      if 3 + bytesNeeded > maxRTUFrameLength then (.error .protocolError, st1)
      else
        match readFullUE bytesNeeded st1 e with
        | .short got _ st' =>
          if got.length = 0 then (.error e.err, st')
          else if e = .eof then (.error .shortFrame, st')
          else (.error e.err, st')
        | .ok body st2 =>
          let data := body.take n
          let c := Crc.add Crc.init (h ++ data)
          if Crc.isEqual c (body.getD n 0) (body.getD (n+1) 0) then
            (.ok { unit := h.getD 0 0, fc := h.getD 1 0, payload := h.getD 2 0 :: data }, st2)
          else (.error .badCRC, st2)

/-- RTU frame reading through the adapter = frame reading on the pending bytes -/
theorem readFrameU_pending (st : Udp.State) (e : Ending) :
    (readFrameU st e).1 = (readFrame st.pendingBytes e).1 ∧
    (readFrameU st e).2.pendingBytes = (readFrame st.pendingBytes e).2 := by
  unfold readFrameU readFrame
  cases h1 : readFullUE 3 st e with
  | short got err st' =>
    obtain ⟨hs, hp⟩ := readFullUE_short_inv h1
    rw [hs]
    simp only []
    split <;> exact ⟨rfl, hp⟩
  | ok h st1 =>
    rw [readFullUE_ok_inv h1]
    simp only []
    cases hl : expectedResponseLength (h.getD 1 0) (h.getD 2 0) with
    | error err => exact ⟨rfl, rfl⟩
    | ok n =>
      simp only []
      by_cases c1 : 3 + (n + 2) > maxRTUFrameLength
      · rw [if_pos c1, if_pos c1]; exact ⟨rfl, rfl⟩
      · rw [if_neg c1, if_neg c1]
        cases h2 : readFullUE (n + 2) st1 e with
        | short got err st' =>
          obtain ⟨hs, hp⟩ := readFullUE_short_inv h2
          rw [hs]
          simp only []
          split
          · exact ⟨rfl, hp⟩
          · split <;> exact ⟨rfl, hp⟩
        | ok body st2 =>
          rw [readFullUE_ok_inv h2]
          simp only []
          split <;> exact ⟨rfl, rfl⟩

/-- `discard` through the adapter: `io.ReadFull(link, rxbuf[0:1024])`, result ignored -/
def discardU (st : Udp.State) : Udp.State := (readFullU discardLen st).2

theorem discardU_pending (st : Udp.State) :
    (discardU st).pendingBytes = st.pendingBytes.drop discardLen :=
  (readFullU_pending discardLen st).2

/-- the flush step of `ExecuteRequest` through the adapter -/
def afterReadU (r : (Except Err Pdu) × Udp.State) : (Except Err Pdu) × Udp.State :=
  match r with
  | (.error .badCRC, st) => (.error .badCRC, discardU st)
  | (.error .protocolError, st) => (.error .protocolError, discardU st)
  | (.error .shortFrame, st) => (.error .shortFrame, discardU st)
  | r => r

/-- forget the adapter state: what is still pending -/
def pendR (r : (Except Err Pdu) × Udp.State) : (Except Err Pdu) × Bytes := (r.1, r.2.pendingBytes)

theorem afterReadU_pend (r : (Except Err Pdu) × Udp.State) :
    pendR (afterReadU r) = afterRead (pendR r) := by
  obtain ⟨o, st⟩ := r
  unfold afterReadU afterRead pendR
  cases o with
  | ok p => rfl
  | error err =>
    cases err <;> simp only [discardU_pending] <;> rfl

/-- read + flush through the adapter = read + flush on the pending bytes -/
theorem afterReadU_readFrameU_pending (st : Udp.State) (e : Ending) :
    (afterReadU (readFrameU st e)).1 = (afterRead (readFrame st.pendingBytes e)).1 ∧
    (afterReadU (readFrameU st e)).2.pendingBytes = (afterRead (readFrame st.pendingBytes e)).2 := by
  have h := afterReadU_pend (readFrameU st e)
  have hf : pendR (readFrameU st e) = readFrame st.pendingBytes e :=
    Prod.ext (readFrameU_pending st e).1 (readFrameU_pending st e).2
  rw [hf] at h
  rw [← h]
  exact ⟨rfl, rfl⟩

end Rtu
end Modbus
