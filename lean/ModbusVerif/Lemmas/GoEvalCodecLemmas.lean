import ModbusVerif.Lemmas.GoEvalLemmas
import ModbusVerif.Lemmas.EncLemmas
/-
  Running a generated LOOP over an indexed slice (`for i = 0; i < n; i++ { … x[i] … y[i/8] … }`),
  as needed for the coil codec of encoding.go (`Gen.gs_encodeBools`, `Gen.gs_decodeBools`; C17).

  `GoEval` keys every leaf by its source TEXT: `in[i]`, `out[i/8]`, `in[i/8]` are single keys, and
  `execFrom` never changes their binding when `i` changes. Evaluated as is, a loop would read the
  same element in every round. The slices are therefore kept in a MEMORY next to the environment,
  and the loop is run by `loopMem`, which is `execFrom … (.loop body)` (same fuel accounting, same
  treatment of `fell` / `continued` / `broke` / everything else) with two hooks per round:

    load   before the round, the indexed leaves are (re)bound to the elements that the CURRENT
           index selects (`Mem.load`); an index out of range binds `unk` ("no value": the Go
           program would panic when it reads the element; the evaluator has no value to go on,
           and the run gets stuck / stops where the value is needed);
    store  after the round, the element leaves that the body assigns are written back
           (`Mem.store`, which sees the environment at the start of the round — the index the
           element was addressed with — and the one at its end).

  `loopMem_trivial`: with hooks that do nothing `loopMem` IS `execFrom` on `.loop body`.
  What the hooks add is the meaning of the index expression INSIDE a leaf text (`i/8` in
  `out[i/8]`), which the translator does not render; it is supplied by the `Mem` instance (and is
  stated in the theorem that uses it).

  Also here: the integer/bit-vector facts for one round of each loop (`u8_or_shl`, `u8_shr_and`),
  and the pure folds `encFold` (= `Enc.encodeBools`) the rounds compute.
-/
set_option linter.unusedSimpArgs false
set_option linter.unusedVariables false

namespace Modbus.GoEval
open Modbus Modbus.Gen

/-! ### static structure -/

/-- bodies of all `loop` nodes of a statement, in program order (outer before inner) -/
def loopBodies : GStmt → List GStmt
  | .seq a b => loopBodies a ++ loopBodies b
  | .ite _ t e => loopBodies t ++ loopBodies e
  | .loop b => b :: loopBodies b
  | _ => []

/-! ### loops with a memory -/

/-- the two hooks of `loopMem`; `σ` is the memory (the slices) -/
structure Mem (σ : Type) where
  /-- bind the indexed leaves for the current index, at the start of a round -/
  load : σ → Env → Env
  /-- memory after a round: old memory, environment at the start (after `load`) and at the end -/
  store : σ → Env → Env → σ

/-- `execFrom o fuel (.loop body)` with `load` before and `store` after every round -/
def loopMem {σ : Type} (o : Oracle) (M : Mem σ) : Nat → GStmt → σ → Env → Calls → σ × Res
  | 0, _, m, env, cs => (m, ⟨env, .outOfFuel, cs⟩)
  | n + 1, body, m, env, cs =>
    let r := execFrom o n body (M.load m env) cs
    match r.how with
    | .fell | .continued => loopMem o M n body (M.store m (M.load m env) r.env) r.env r.calls
    | .broke => (M.store m (M.load m env) r.env, { r with how := .fell })
    | _ => (m, r)

theorem loopMem_zero {σ} (o : Oracle) (M : Mem σ) (body m env cs) :
    loopMem o M 0 body m env cs = (m, ⟨env, .outOfFuel, cs⟩) := by exact id rfl

theorem loopMem_fell {σ} (o : Oracle) (M : Mem σ) (n body m env cs env' cs')
    (h : execFrom o n body (M.load m env) cs = ⟨env', .fell, cs'⟩) :
    loopMem o M (n + 1) body m env cs = loopMem o M n body (M.store m (M.load m env) env') env' cs' := by
  simp only [loopMem, h]

theorem loopMem_broke {σ} (o : Oracle) (M : Mem σ) (n body m env cs env' cs')
    (h : execFrom o n body (M.load m env) cs = ⟨env', .broke, cs'⟩) :
    loopMem o M (n + 1) body m env cs = (M.store m (M.load m env) env', ⟨env', .fell, cs'⟩) := by
  simp only [loopMem, h]

theorem loopMem_stopped {σ} (o : Oracle) (M : Mem σ) (n body m env cs env' cs' f vs)
    (h : execFrom o n body (M.load m env) cs = ⟨env', .stoppedAt f vs, cs'⟩) :
    loopMem o M (n + 1) body m env cs = (m, ⟨env', .stoppedAt f vs, cs'⟩) := by
  simp only [loopMem, h]

theorem loopMem_stuck {σ} (o : Oracle) (M : Mem σ) (n body m env cs env' cs' t)
    (h : execFrom o n body (M.load m env) cs = ⟨env', .stuckAt t, cs'⟩) :
    loopMem o M (n + 1) body m env cs = (m, ⟨env', .stuckAt t, cs'⟩) := by
  simp only [loopMem, h]

/-- hooks that do nothing -/
def Mem.trivial : Mem Unit := ⟨fun _ env => env, fun _ _ _ => ()⟩

/-- with trivial hooks, `loopMem` is the evaluator's own loop -/
theorem loopMem_trivial (o : Oracle) (body : GStmt) : ∀ (n : Nat) (env : Env) (cs : Calls),
    (loopMem o Mem.trivial n body () env cs).2 = execFrom o n (.loop body) env cs := by
  intro n
  induction n with
  | zero => intro env cs; rfl
  | succ n ih =>
    intro env cs
    rw [execFrom_loop]
    simp only [loopMem, Mem.trivial]
    generalize execFrom o n body env cs = r
    obtain ⟨e, hw, c⟩ := r
    cases hw with
    | fell => exact ih e c
    | continued => exact ih e c
    | _ => rfl

/-- the body of one round at any fuel ≥ the fuel at which it is known to end -/
theorem execFrom_ge_codec (o : Oracle) (n m : Nat) (s : GStmt) (env : Env) (cs : Calls) (r : Res)
    (h : execFrom o n s env cs = r) (hr : r.how ≠ .outOfFuel) (hm : n ≤ m) :
    execFrom o m s env cs = r := by
  rw [execFrom_mono o n m s env cs hm (by rw [h]; exact hr), h]

/-! ### integers of one round -/

theorem bits64_small (x : Nat) (h : x < 18446744073709551616) : bits64 (x : Int) = x := by
  unfold bits64
  have : ((x : Int) % 18446744073709551616) = (x : Int) := by omega
  rw [this]; rfl

theorem bits64_one : bits64 1 = 1 := by decide

theorem wrap_uint_nat (x : Nat) (h : x < 18446744073709551616) : wrap .uint (x : Int) = (x : Int) :=
  wrap_uint (by omega) (by omega)

theorem wrap_uint_succ (i : Nat) (h : i + 1 < 18446744073709551616) :
    wrap .uint ((i : Int) + 1) = ((i + 1 : Nat) : Int) := by
  rw [wrap_uint (by omega) (by omega)]; rfl

/-- `i % 8` in `uint`: the value, unwrapped -/
theorem wrap_uint_mod8 (i : Nat) : wrap .uint ((i : Int).tmod 8) = ((i % 8 : Nat) : Int) := by
  rw [tmod_natCast_left, wrap_uint (by omega) (by omega)]; rfl

/-- `i / 8` in `uint` -/
theorem wrap_uint_div8 (i : Nat) (h : i < 18446744073709551616) :
    wrap .uint ((i : Int).tdiv 8) = ((i / 8 : Nat) : Int) := by
  rw [tdiv_natCast_left, wrap_uint (by omega) (by omega)]; rfl

theorem wrap_int_mod8 (n : Nat) : wrap .int ((n : Int).tmod 8) = ((n % 8 : Nat) : Int) := by
  rw [tmod_natCast_left, wrap_int (by omega) (by omega)]; rfl

theorem natCast_not_neg (x : Nat) : ¬ ((x : Int) < 0) := by omega

/-- `out[i/8] |= 0x01 << (i % 8)` evaluated in `uint8`, for every byte and every shift < 8:
    the `Int`-level result of `GoEval` is the bit-vector `v ||| (1 <<< s)` -/
theorem u8_or_shl (v : Byte) (s : Nat) (hs : s < 8) :
    wrap .u8 (Int.ofNat (Nat.lor (bits64 (v.toNat : Int)) (bits64 (wrap .u8 (1 * 2 ^ s)))))
      = ((v ||| (1#8 <<< s)).toNat : Int) := by
  have hv := v.isLt
  have h2 : (2 : Nat) ^ s < 256 := by
    have : (2 : Nat) ^ s < 2 ^ 8 := Nat.pow_lt_pow_right (by decide) hs
    simpa using this
  have e0 : (2 : Int) ^ s = ((2 ^ s : Nat) : Int) := (Int.natCast_pow 2 s).symm
  rw [Int.one_mul, e0]
  have e2 : (v ||| (1#8 <<< s)).toNat = v.toNat ||| 2 ^ s := by
    rw [BitVec.toNat_or, BitVec.toNat_shiftLeft]
    congr 1
    simp only [BitVec.toNat_ofNat, Nat.shiftLeft_eq]
    omega
  rw [e2]
  have hl : v.toNat ||| 2 ^ s < 2 ^ 8 := Nat.or_lt_two_pow hv (by simpa using h2)
  generalize 2 ^ s = p at h2 hl ⊢
  have e3 : wrap .u8 (p : Int) = (p : Int) := wrap_u8 (by omega) (by omega)
  rw [e3, bits64_small v.toNat (by omega), bits64_small p (by omega)]
  show wrap .u8 ((v.toNat ||| p : Nat) : Int) = _
  exact wrap_u8 (by omega) (by omega)

/-- `((in[i/8] >> (i % 8)) & 0x01) == 0x01` evaluated in `uint8`, for every byte and every shift:
    the `Int`-level comparison of `GoEval` is bit `s` of the byte -/
theorem u8_shr_and (v : Byte) (s : Nat) :
    decide (wrap .u8 (Int.ofNat (Nat.land (bits64 (wrap .u8 ((v.toNat : Int) >>> s))) (bits64 1))) = 1)
      = v.getLsbD s := by
  have hv := v.isLt
  have e0 : (v.toNat : Int) >>> s = ((v.toNat >>> s : Nat) : Int) := rfl
  have hle : v.toNat >>> s ≤ v.toNat := by
    rw [Nat.shiftRight_eq_div_pow]; exact Nat.div_le_self _ _
  have e4 : v.getLsbD s = decide ((v.toNat >>> s) % 2 = 1) := by
    rw [BitVec.getLsbD, Nat.testBit_eq_decide_div_mod_eq, Nat.shiftRight_eq_div_pow]
  rw [e0, e4]
  generalize v.toNat >>> s = q at hle ⊢
  have e1 : wrap .u8 (q : Int) = (q : Int) := wrap_u8 (by omega) (by omega)
  rw [e1, bits64_small _ (by omega), bits64_one]
  have e2 : Nat.land q 1 = q % 2 := Nat.and_one_is_mod _
  rw [e2]
  have e3 : wrap .u8 (Int.ofNat (q % 2)) = ((q % 2 : Nat) : Int) := by
    show wrap .u8 ((q % 2 : Nat) : Int) = _
    exact wrap_u8 (by omega) (by omega)
  rw [e3]
  by_cases h : q % 2 = 1
  · rw [h]; rfl
  · have : q % 2 = 0 := by omega
    rw [this]; rfl

/-! ### the pure fold computed by the rounds of `encodeBools` -/

/-- one round on the array: `if in[i] { out[i/8] |= 1 << (i%8) }` -/
def encStep (l : List Bool) (arr : Bytes) (i : Nat) : Bytes :=
  if l.getD i false = true then arr.set (i / 8) (arr.getD (i / 8) 0 ||| (1#8 <<< (i % 8))) else arr

/-- rounds `0 … k-1` on `make([]byte, ⌈len/8⌉)` -/
def encFold (l : List Bool) (k : Nat) : Bytes :=
  (List.range k).foldl (encStep l) (List.replicate ((l.length + 7) / 8) 0)

theorem encStep_length (l arr i) : (encStep l arr i).length = arr.length := by
  unfold encStep; split <;> simp

theorem encFold_succ (l k) : encFold l (k + 1) = encStep l (encFold l k) k := by
  simp [encFold, List.range_succ, List.foldl_append]

theorem encFold_length (l k) : (encFold l k).length = (l.length + 7) / 8 := by
  induction k with
  | zero => simp [encFold]
  | succ k ih => rw [encFold_succ, encStep_length, ih]

theorem getLsbD_one_shl (s t : Nat) (hs : s < 8) (ht : t < 8) :
    ((1#8 : Byte) <<< s).getLsbD t = decide (t = s) := by
  rw [BitVec.getLsbD_shiftLeft]
  by_cases h : t < s
  · have : t ≠ s := by omega
    simp [h, this, ht]
  · by_cases h2 : t = s
    · subst h2; simp [ht]
    · have : t - s ≠ 0 := by omega
      simp [h, h2, ht, BitVec.getLsbD_one, this]

/-- after rounds `0 … k-1` (k ≤ len): bit t of byte j is input bit 8j+t if that round has run,
    else 0 -/
theorem encFold_bit (l : List Bool) (k : Nat) (hk : k ≤ l.length) (j t : Nat) (ht : t < 8) :
    ((encFold l k).getD j 0).getLsbD t = (decide (8 * j + t < k) && l.getD (8 * j + t) false) := by
  induction k with
  | zero =>
    simp only [encFold, List.range_zero, List.foldl_nil, Nat.not_lt_zero, decide_false, Bool.false_and]
    rw [List.getD_eq_getElem?_getD]
    by_cases hj : j < (l.length + 7) / 8
    · simp [List.getElem?_replicate, hj]
    · simp [List.getElem?_replicate, hj]
  | succ k ih =>
    have ih := ih (by omega)
    rw [encFold_succ]
    unfold encStep
    by_cases hb : l.getD k false = true
    · rw [if_pos hb]
      have hlen : k / 8 < (encFold l k).length := by rw [encFold_length]; omega
      by_cases hj : j = k / 8
      · subst hj
        rw [List.getD_eq_getElem?_getD, List.getElem?_set_self hlen, Option.getD_some,
          BitVec.getLsbD_or, ih, getLsbD_one_shl _ _ (Nat.mod_lt _ (by decide)) ht]
        by_cases h1 : 8 * (k / 8) + t < k
        · have h2 : 8 * (k / 8) + t < k + 1 := by omega
          have h3 : t ≠ k % 8 := by omega
          simp [h1, h2, h3]
        · by_cases h3 : t = k % 8
          · have h4 : 8 * (k / 8) + t = k := by omega
            rw [h4, hb]; simp [h3]
          · have h2 : ¬ 8 * (k / 8) + t < k + 1 := by omega
            simp [h1, h2, h3]
      · rw [List.getD_eq_getElem?_getD, List.getElem?_set_ne (Ne.symm hj), ← List.getD_eq_getElem?_getD, ih]
        have : (8 * j + t < k + 1) = (8 * j + t < k) := by
          apply propext; constructor <;> intro h <;> omega
        simp only [this]
    · rw [if_neg hb, ih]
      by_cases h1 : 8 * j + t = k
      · have hb' : l.getD k false = false := by simpa using hb
        rw [h1, hb']; simp
      · have : (8 * j + t < k + 1) = (8 * j + t < k) := by
          apply propext; constructor <;> intro h <;> omega
        simp only [this]

/-- the rounds compute the model: all `len` rounds on the zeroed array give `Enc.encodeBools` -/
theorem encFold_eq (l : List Bool) : encFold l l.length = Enc.encodeBools l := by
  apply List.ext_getElem
  · rw [encFold_length, EncLemmas.encodeBools_length]
  · intro j h1 h2
    apply BitVec.eq_of_getLsbD_eq
    intro t ht
    have a := encFold_bit l l.length (Nat.le_refl _) j t ht
    have b := EncLemmas.encodeBools_bit l j t ht
    rw [List.getD_eq_getElem?_getD, List.getElem?_eq_getElem h1, Option.getD_some] at a
    rw [List.getD_eq_getElem?_getD, List.getElem?_eq_getElem h2, Option.getD_some] at b
    rw [a, b]
    by_cases h : 8 * j + t < l.length
    · simp [h]
    · simp [h, List.getD_eq_getElem?_getD, List.getElem?_eq_none (Nat.le_of_not_lt h)]

end Modbus.GoEval
