import ModbusVerif.Model.MultiSession
import ModbusVerif.Lemmas.ServerLemmas
/-
  Lemmas about the multi-connection model `Modbus.Multi` (property C11, routing part).

   1. `blocked`: exactly the short reads; the ending is irrelevant for a read that is not short
   2. one cycle: dead / stalled connections, a complete frame at the head of the input
      (`cycle_frame_spec`: one cycle = `Spec.serverEvents` in the shared state)
   3. a turn touches one connection; projection of a global run on one connection
   4. the global call log is an interleaving of the per-connection call sequences
   5. per-connection events against the specification (`specReplay`, `expectedCalls`)
   6. one connection alone = `Server.run`
   7. handlers that neither read nor write the shared state
   8. stalled connections
-/
namespace Modbus.Multi
open Modbus Modbus.Server

variable {σ : Type}

/-! ### 1. `blocked` -/

theorem shortErr_timeout (n : Nat) : Strm.shortErr n .timeout = .ioTimeout := by
  unfold Strm.shortErr; split <;> rfl

/-- what `readFrame` does with `s` is either a short read for every ending, or one and the same
    result - not a timeout - whatever the ending is -/
theorem readFrame_cases (s : Bytes) :
    (∃ n, ∀ e, Mbap.readFrame s e = (.err (Strm.shortErr n e), [])) ∨
    (∃ r rest, (∀ e, Mbap.readFrame s e = (r, rest)) ∧ r ≠ .err .ioTimeout) := by
  by_cases h7 : s.length < 7
  · exact Or.inl ⟨s.length, fun e => Mbap.readFrame_short7 e h7⟩
  · match s, h7 with
    | t0 :: t1 :: p0 :: p1 :: l0 :: l1 :: u :: tl, _ =>
      by_cases hbad : 254 < (mk16 l0 l1).toNat ∨ (mk16 l0 l1).toNat ≤ 1
      · exact Or.inr ⟨.err .protocolError, tl, fun e => Mbap.readFrame_cons7_badlen e hbad, by simp⟩
      · have h2 : 2 ≤ (mk16 l0 l1).toNat := by omega
        have h254 : (mk16 l0 l1).toNat ≤ 254 := by omega
        by_cases hs : tl.length < (mk16 l0 l1).toNat - 1
        · exact Or.inl ⟨tl.length, fun e => Mbap.readFrame_cons7_short e h2 h254 hs⟩
        · have hsplit : tl = tl.take ((mk16 l0 l1).toNat - 1) ++ tl.drop ((mk16 l0 l1).toNat - 1) :=
            (List.take_append_drop _ _).symm
          have hb : (tl.take ((mk16 l0 l1).toNat - 1)).length = (mk16 l0 l1).toNat - 1 := by
            rw [List.length_take]; omega
          refine Or.inr ⟨(if mk16 p0 p1 ≠ 0 then .err .unknownProtocolId
              else .ok ⟨u, (tl.take ((mk16 l0 l1).toNat - 1)).getD 0 0,
                (tl.take ((mk16 l0 l1).toNat - 1)).drop 1⟩ (mk16 t0 t1)),
            tl.drop ((mk16 l0 l1).toNat - 1), fun e => ?_, ?_⟩
          · have := Mbap.readFrame_cons7_ok (t0 := t0) (t1 := t1) (p0 := p0) (p1 := p1) (u := u)
              (rest := tl.drop ((mk16 l0 l1).toNat - 1)) e h2 h254 hb
            rw [← hsplit] at this
            exact this
          · split <;> simp
    | [], h7 => simp at h7
    | [_], h7 => simp at h7
    | [_, _], h7 => simp at h7
    | [_, _, _], h7 => simp at h7
    | [_, _, _, _], h7 => simp at h7
    | [_, _, _, _, _], h7 => simp at h7
    | [_, _, _, _, _, _], h7 => simp at h7

/-- `blocked` = the read is short, for every ending -/
theorem blocked_iff (s : Bytes) :
    blocked s = true ↔ ∃ n, ∀ e, Mbap.readFrame s e = (.err (Strm.shortErr n e), []) := by
  unfold blocked
  rw [decide_eq_true_iff]
  rcases readFrame_cases s with ⟨n, hn⟩ | ⟨r, rest, hr, hne⟩
  · constructor
    · intro _; exact ⟨n, hn⟩
    · intro _; rw [hn, shortErr_timeout]
  · constructor
    · intro h; rw [hr] at h; exact absurd h hne
    · intro ⟨n, hn⟩
      have := hn .timeout
      rw [hr, shortErr_timeout] at this
      injection this with h1 _
      exact absurd h1 hne

/-- when the read is not short, the ending of the stream plays no role -/
theorem readFrame_ending_irrelevant {s : Bytes} (hb : blocked s = false) (e e' : Ending) :
    Mbap.readFrame s e = Mbap.readFrame s e' := by
  rcases readFrame_cases s with ⟨n, hn⟩ | ⟨r, rest, hr, _⟩
  · have : blocked s = true := (blocked_iff s).mpr ⟨n, hn⟩
    rw [this] at hb; cases hb
  · rw [hr, hr]

/-- a strict prefix of a frame is blocked (a client that stalls mid-frame) -/
theorem blocked_of_strict_prefix {s t : Bytes} {txn : U16} {p : Pdu} (hp : p.payload.length ≤ 252)
    (hst : s ++ t = Mbap.assemble txn p) (ht : t ≠ []) : blocked s = true := by
  rw [blocked_iff]
  rw [Mbap.assemble_eq_assembleProto] at hst
  exact ⟨_, fun e => Mbap.readFrame_strict_prefix e hp hst ht⟩

/-- a complete frame at the head of the input is never blocked -/
theorem not_blocked_of_frame (txn : U16) (req : Pdu) (rest : Bytes) (hp : req.payload.length ≤ 252) :
    blocked (Mbap.assemble txn req ++ rest) = false := by
  unfold blocked
  rw [Mbap.readFrame_assemble txn req rest _ hp]
  simp

/-! ### 2. one cycle -/

theorem respBytes_append (a b : List Event) : respBytes (a ++ b) = respBytes a ++ respBytes b := by
  induction a with
  | nil => rfl
  | cons x r ih => cases x <;> simp [respBytes, ih]

theorem callsOf_append (a b : List Event) : callsOf (a ++ b) = callsOf a ++ callsOf b := by
  induction a with
  | nil => rfl
  | cons x r ih => cases x <;> simp [callsOf, ih]

/-- the connection record after a cycle that read a frame -/
def afterFrame (c : Conn) (rest : Bytes) (txn : U16) (r : σ × Option HReq × Action) : Conn :=
  let evCall := match r.2.1 with | some q => [Event.call q] | none => []
  match r.2.2 with
  | .close => { c with input := rest, events := c.events ++ evCall ++ [.closed], live := false }
  | .panic => { c with input := rest, events := c.events ++ evCall ++ [.panic], live := false }
  | .respond p =>
    { c with input := rest, events := c.events ++ evCall ++ [.respond (Mbap.assemble txn p)],
             output := c.output ++ Mbap.assemble txn p }

/-- the events of a cycle that read a frame -/
def frameEvents (txn : U16) (r : σ × Option HReq × Action) : List Event :=
  (match r.2.1 with | some q => [Event.call q] | none => []) ++
    [match r.2.2 with
     | .close => Event.closed
     | .panic => Event.panic
     | .respond p => Event.respond (Mbap.assemble txn p)]

theorem afterFrame_effect (c : Conn) (rest : Bytes) (txn : U16) (r : σ × Option HReq × Action) :
    (afterFrame c rest txn r).events = c.events ++ frameEvents txn r ∧
      (afterFrame c rest txn r).output = c.output ++ respBytes (frameEvents txn r) ∧
      callsOf (frameEvents txn r) = r.2.1.toList ∧
      (afterFrame c rest txn r).ending = c.ending ∧ (afterFrame c rest txn r).input = rest := by
  obtain ⟨st', call, act⟩ := r
  cases act <;> cases call <;> simp [afterFrame, frameEvents, respBytes, callsOf]

theorem serve_err (h : Handler σ) (st : σ) (c : Conn) {e : Ending} {err : Err} {rest : Bytes}
    (hrf : Mbap.readFrame c.input e = (.err err, rest)) :
    serve h st c e =
      (st, { c with input := rest, events := c.events ++ [.ended err], live := false }, none) := by
  simp only [serve, hrf]

theorem serve_ok (h : Handler σ) (st : σ) (c : Conn) {e : Ending} {req : Pdu} {txn : U16}
    {rest : Bytes} (hrf : Mbap.readFrame c.input e = (.ok req txn, rest)) :
    serve h st c e =
      ((handle h st req).1, afterFrame c rest txn (handle h st req), (handle h st req).2.1) := by
  simp only [serve, hrf, afterFrame]
  rcases handle h st req with ⟨st', call, act⟩
  cases act <;> rfl

theorem cycle_dead (h : Handler σ) (st : σ) {c : Conn} (hl : c.live = false) :
    cycle h st c = (st, c, none) := by
  simp [cycle, hl]

theorem cycle_stalled (h : Handler σ) (st : σ) {c : Conn} (hs : c.stalled = true) :
    cycle h st c = (st, c, none) := by
  simp only [Conn.stalled, Bool.and_eq_true, Option.isNone_iff_eq_none] at hs
  obtain ⟨⟨h1, h2⟩, h3⟩ := hs
  simp [cycle, h1, h2, h3]

/-- the read a live connection performs in its cycle, if it performs one -/
theorem cycle_live (h : Handler σ) (st : σ) {c : Conn} (hl : c.live = true) :
    (c.ending = none ∧ blocked c.input = true ∧ cycle h st c = (st, c, none)) ∨
    (∃ e, (c.ending = some e ∨ (c.ending = none ∧ blocked c.input = false)) ∧
      cycle h st c = serve h st c e) := by
  cases he : c.ending with
  | some e => exact Or.inr ⟨e, Or.inl rfl, by simp [cycle, hl, he]⟩
  | none =>
    cases hb : blocked c.input with
    | true => exact Or.inl ⟨rfl, rfl, by simp [cycle, hl, he, hb]⟩
    | false => exact Or.inr ⟨.timeout, Or.inr ⟨rfl, rfl⟩, by simp [cycle, hl, he, hb]⟩

/-- whatever a cycle does: the ending is kept, events and output only grow - the output by
    exactly the response bytes among the new events - and the new events contain exactly the
    call that the cycle reports -/
theorem cycle_effect (h : Handler σ) (st : σ) (c : Conn) :
    ∃ evs, (cycle h st c).2.1.events = c.events ++ evs ∧
      (cycle h st c).2.1.output = c.output ++ respBytes evs ∧
      callsOf evs = ((cycle h st c).2.2).toList ∧
      (cycle h st c).2.1.ending = c.ending ∧
      (c.live = false → (cycle h st c).2.1.live = false) := by
  have hserve : ∀ e, ∃ evs, (serve h st c e).2.1.events = c.events ++ evs ∧
      (serve h st c e).2.1.output = c.output ++ respBytes evs ∧
      callsOf evs = ((serve h st c e).2.2).toList ∧ (serve h st c e).2.1.ending = c.ending := by
    intro e
    cases hrf : Mbap.readFrame c.input e with
    | mk r rest =>
      cases r with
      | err err =>
        rw [serve_err h st c hrf]
        exact ⟨[.ended err], rfl, by simp [respBytes], rfl, rfl⟩
      | ok req txn =>
        rw [serve_ok h st c hrf]
        obtain ⟨h1, h2, h3, h4, _⟩ := afterFrame_effect c rest txn (handle h st req)
        exact ⟨_, h1, h2, h3, h4⟩
  cases hl : c.live with
  | false =>
    rw [cycle_dead h st hl]
    exact ⟨[], by simp, by simp [respBytes], rfl, rfl, fun _ => hl⟩
  | true =>
    rcases cycle_live h st hl with ⟨_, _, hc⟩ | ⟨e, _, hc⟩
    · rw [hc]; exact ⟨[], by simp, by simp [respBytes], rfl, rfl, fun hf => by cases hf⟩
    · rw [hc]
      obtain ⟨evs, h1, h2, h3, h4⟩ := hserve e
      exact ⟨evs, h1, h2, h3, h4, fun hf => by cases hf⟩

/-- a live connection with a complete frame at the head of its input: the cycle reads exactly
    that frame, whatever the ending and whatever `pendingMore` says -/
theorem cycle_frame (h : Handler σ) (st : σ) {c : Conn} (hl : c.live = true) {txn : U16} {req : Pdu}
    {rest : Bytes} (hin : c.input = Mbap.assemble txn req ++ rest) (hp : req.payload.length ≤ 252) :
    cycle h st c =
      ((handle h st req).1, afterFrame c rest txn (handle h st req), (handle h st req).2.1) := by
  rcases cycle_live h st hl with ⟨_, hb, _⟩ | ⟨e, _, hc⟩
  · rw [hin, not_blocked_of_frame txn req rest hp] at hb; cases hb
  · rw [hc]
    exact serve_ok h st c (by rw [hin]; exact Mbap.readFrame_assemble txn req rest e hp)

/-- the handler call the specification derives from a request PDU -/
def expectedCall (req : Pdu) : Option HReq :=
  match Spec.classify req.unit req.fc req.payload with
  | .valid r => some r
  | _ => none

/-- one cycle on a complete frame IS `Spec.serverEvents` evaluated in the shared handler state
    (handler not answering this request with `ErrProtocolError`: finding F8) -/
theorem cycle_frame_spec (h : Handler σ) (st : σ) {c : Conn} (hl : c.live = true) {txn : U16}
    {req : Pdu} {rest : Bytes} (hin : c.input = Mbap.assemble txn req ++ rest)
    (hp : req.payload.length ≤ 252)
    (hne : ∀ r, Spec.classify req.unit req.fc req.payload = .valid r →
      (Spec.invoke h st r).2 ≠ .error .protocolError) :
    cycle h st c =
      ((Spec.serverEvents h st txn req).1,
       { c with input := rest,
                events := c.events ++ (Spec.serverEvents h st txn req).2,
                output := c.output ++ respBytes (Spec.serverEvents h st txn req).2,
                live := Spec.staysOpen req },
       expectedCall req) := by
  rw [cycle_frame h st hl hin hp]
  obtain ⟨cin, cend, cout, cev, clive⟩ := c
  simp only at hl; subst hl
  rcases handle_cases h st req with ⟨r, hv, he⟩ | ⟨hv, he⟩ | ⟨hv, he⟩ | ⟨hv, he⟩ <;> rw [he]
  · simp [Spec.serverEvents, Spec.staysOpen, expectedCall, hv, afterFrame, hne r hv, respBytes,
      mbapFrame_eq]
  · simp [Spec.serverEvents, Spec.staysOpen, expectedCall, hv, afterFrame, respBytes, mbapFrame_eq]
  · simp [Spec.serverEvents, Spec.staysOpen, expectedCall, hv, afterFrame, respBytes, mbapFrame_eq]
  · simp [Spec.serverEvents, Spec.staysOpen, expectedCall, hv, afterFrame, respBytes]

/-- the same for ANY handler (F8 included): the call is the specification's, the frame is
    consumed; the session goes on only if the specification says so -/
theorem cycle_frame_any (h : Handler σ) (st : σ) {c : Conn} (hl : c.live = true) {txn : U16}
    {req : Pdu} {rest : Bytes} (hin : c.input = Mbap.assemble txn req ++ rest)
    (hp : req.payload.length ≤ 252) :
    (cycle h st c).2.2 = expectedCall req ∧ (cycle h st c).2.1.input = rest ∧
      ((cycle h st c).2.1.live = true → Spec.staysOpen req = true) ∧
      (h.NoProtoErr → (cycle h st c).2.1.live = Spec.staysOpen req) := by
  rw [cycle_frame h st hl hin hp]
  rcases handle_cases h st req with ⟨r, hv, he⟩ | ⟨hv, he⟩ | ⟨hv, he⟩ | ⟨hv, he⟩ <;> rw [he]
  · refine ⟨by simp [expectedCall, hv], (afterFrame_effect c rest txn _).2.2.2.2,
      fun _ => by simp [Spec.staysOpen, hv], fun hn => ?_⟩
    simp [afterFrame, hn.spec st r, Spec.staysOpen, hv, hl]
  · exact ⟨by simp [expectedCall, hv], (afterFrame_effect c rest txn _).2.2.2.2,
      fun _ => by simp [Spec.staysOpen, hv], fun _ => by simp [afterFrame, Spec.staysOpen, hv, hl]⟩
  · exact ⟨by simp [expectedCall, hv], (afterFrame_effect c rest txn _).2.2.2.2,
      fun _ => by simp [Spec.staysOpen, hv], fun _ => by simp [afterFrame, Spec.staysOpen, hv, hl]⟩
  · exact ⟨by simp [expectedCall, hv], (afterFrame_effect c rest txn _).2.2.2.2,
      fun hf => by simp [afterFrame] at hf, fun _ => by simp [afterFrame, Spec.staysOpen, hv]⟩

/-! ### 3. a turn touches one connection; projection of a run on one connection -/

theorem runFrom_nil (h : Handler σ) (s : Sys σ) : runFrom h s [] = s := rfl
theorem runFrom_cons (h : Handler σ) (s : Sys σ) (j : Nat) (r : List Nat) :
    runFrom h s (j :: r) = runFrom h (turn h s j) r := rfl
theorem runFrom_append (h : Handler σ) (s : Sys σ) (a b : List Nat) :
    runFrom h s (a ++ b) = runFrom h (runFrom h s a) b := by
  simp [runFrom, List.foldl_append]

theorem turn_none (h : Handler σ) {s : Sys σ} {i : Nat} (hn : s.conns[i]? = none) :
    turn h s i = s := by
  simp [turn, hn]

theorem turn_some (h : Handler σ) {s : Sys σ} {i : Nat} {c : Conn} (hc : s.conns[i]? = some c) :
    turn h s i =
      { st := (cycle h s.st c).1, conns := s.conns.set i (cycle h s.st c).2.1,
        calls := s.calls ++ (match (cycle h s.st c).2.2 with | some q => [(i, q)] | none => []) } := by
  simp only [turn, hc]
  rfl

theorem turn_length (h : Handler σ) (s : Sys σ) (j : Nat) :
    (turn h s j).conns.length = s.conns.length := by
  cases hc : s.conns[j]? with
  | none => rw [turn_none h hc]
  | some c => rw [turn_some h hc]; simp

theorem runFrom_length (h : Handler σ) (s : Sys σ) (sched : List Nat) :
    (runFrom h s sched).conns.length = s.conns.length := by
  induction sched generalizing s with
  | nil => rfl
  | cons j r ih => rw [runFrom_cons, ih, turn_length]

/-- the turn of `j` leaves the record of every other connection alone -/
theorem turn_conns_ne (h : Handler σ) (s : Sys σ) {i j : Nat} (hne : i ≠ j) :
    (turn h s j).conns[i]? = s.conns[i]? := by
  cases hc : s.conns[j]? with
  | none => rw [turn_none h hc]
  | some c => rw [turn_some h hc]; simp [List.getElem?_set_ne (Ne.symm hne)]

theorem turn_conns_self (h : Handler σ) {s : Sys σ} {i : Nat} {c : Conn}
    (hc : s.conns[i]? = some c) : (turn h s i).conns[i]? = some (cycle h s.st c).2.1 := by
  rw [turn_some h hc]
  have hlt : i < s.conns.length := by
    rcases Nat.lt_or_ge i s.conns.length with hl | hl
    · exact hl
    · rw [List.getElem?_eq_none hl] at hc; cases hc
  simp [List.getElem?_set_self hlt]

theorem replay_nil (h : Handler σ) (c : Conn) : replay h [] c = c := rfl
theorem replay_cons (h : Handler σ) (st : σ) (sts : List σ) (c : Conn) :
    replay h (st :: sts) c = replay h sts (cycle h st c).2.1 := rfl

theorem replay_dead (h : Handler σ) (sts : List σ) {c : Conn} (hl : c.live = false) :
    replay h sts c = c := by
  induction sts with
  | nil => rfl
  | cons st r ih => rw [replay_cons, cycle_dead h st hl]; exact ih

theorem replay_stalled (h : Handler σ) (sts : List σ) {c : Conn} (hs : c.stalled = true) :
    replay h sts c = c := by
  induction sts with
  | nil => rfl
  | cons st r ih => rw [replay_cons, cycle_stalled h st hs]; exact ih

/-- projection: the record of connection `i` after a global run is what `i` alone produces when
    it takes its turns in the handler states it met -/
theorem runFrom_conn (h : Handler σ) (s : Sys σ) (sched : List Nat) (i : Nat) :
    (runFrom h s sched).conns[i]? = (s.conns[i]?).map (replay h (statesMet h s sched i)) := by
  induction sched generalizing s with
  | nil => rw [runFrom_nil]; cases s.conns[i]? <;> rfl
  | cons j r ih =>
    rw [runFrom_cons, ih, statesMet]
    by_cases hj : j = i
    · subst hj
      cases hc : s.conns[j]? with
      | none => rw [turn_none h hc, hc]; rfl
      | some c => rw [turn_conns_self h hc]; simp [replay_cons]
    · rw [turn_conns_ne h s (Ne.symm hj)]; simp [hj]

theorem statesMet_length (h : Handler σ) (s : Sys σ) (sched : List Nat) (i : Nat) :
    (statesMet h s sched i).length = sched.count i := by
  induction sched generalizing s with
  | nil => rfl
  | cons j r ih =>
    rw [statesMet, List.length_append, ih, List.count_cons]
    by_cases hj : j = i <;> simp [hj] <;> omega

/-- every state a connection meets is a state of the global run: the one after some prefix of
    the schedule -/
theorem statesMet_mem (h : Handler σ) (s : Sys σ) (sched : List Nat) (i : Nat) (st : σ)
    (hm : st ∈ statesMet h s sched i) :
    ∃ pre post, sched = pre ++ i :: post ∧ st = (runFrom h s pre).st := by
  induction sched generalizing s with
  | nil => simp [statesMet] at hm
  | cons j r ih =>
    rw [statesMet, List.mem_append] at hm
    rcases hm with hm | hm
    · by_cases hj : j = i
      · subst hj
        simp at hm
        exact ⟨[], r, rfl, hm⟩
      · simp [hj] at hm
    · obtain ⟨pre, post, h1, h2⟩ := ih (turn h s j) hm
      exact ⟨j :: pre, post, by rw [h1]; rfl, by rw [runFrom_cons]; exact h2⟩

/-- output = the response bytes of the events; kept by every cycle -/
def Conn.WF (c : Conn) : Prop := c.output = respBytes c.events

theorem wf_new (input : Bytes) (ending : Option Ending) : (Conn.new input ending).WF := rfl

theorem wf_cycle (h : Handler σ) (st : σ) {c : Conn} (hw : c.WF) : (cycle h st c).2.1.WF := by
  obtain ⟨evs, h1, h2, _⟩ := cycle_effect h st c
  unfold Conn.WF at hw ⊢
  rw [h1, h2, respBytes_append, hw]

theorem wf_replay (h : Handler σ) (sts : List σ) {c : Conn} (hw : c.WF) : (replay h sts c).WF := by
  induction sts generalizing c with
  | nil => exact hw
  | cons st r ih => rw [replay_cons]; exact ih (wf_cycle h st hw)

/-- events and output of a connection only grow -/
theorem replay_grows (h : Handler σ) (sts : List σ) (c : Conn) :
    ∃ evs, (replay h sts c).events = c.events ++ evs ∧
      (replay h sts c).output = c.output ++ respBytes evs ∧ (replay h sts c).ending = c.ending := by
  induction sts generalizing c with
  | nil => exact ⟨[], by simp [replay_nil], by simp [replay_nil, respBytes], rfl⟩
  | cons st r ih =>
    obtain ⟨e1, a1, a2, _, a4, _⟩ := cycle_effect h st c
    obtain ⟨e2, b1, b2, b3⟩ := ih (cycle h st c).2.1
    rw [replay_cons]
    exact ⟨e1 ++ e2, by rw [b1, a1, List.append_assoc],
      by rw [b2, a2, respBytes_append, List.append_assoc], by rw [b3, a4]⟩

/-! ### 4. the global call log -/

/-- `g` is an interleaving of the sequences `parts 0 … parts (n-1)`: its elements can be labelled
    with indices below `n` such that, for every `i`, the elements labelled `i`, in the order in
    which they occur in `g`, are exactly `parts i` -/
def Interleaving {α : Type} (g : List α) (n : Nat) (parts : Nat → List α) : Prop :=
  ∃ tags : List Nat, tags.length = g.length ∧ (∀ t ∈ tags, t < n) ∧
    ∀ i, ((tags.zip g).filter (fun p => p.1 == i)).map Prod.snd = parts i

theorem zip_map_fst_snd {α β : Type} (l : List (α × β)) : (l.map Prod.fst).zip (l.map Prod.snd) = l := by
  induction l with
  | nil => rfl
  | cons x r ih => simp [ih]

/-- the tags of the call log are connections, and the calls tagged `i` are the calls among the
    events of connection `i` -/
structure CallsOK (s : Sys σ) : Prop where
  tags : ∀ p ∈ s.calls, p.1 < s.conns.length
  proj : ∀ i, s.callsBy i = callsOf (s.events i)

theorem callsOK_init (st0 : σ) (conns : List Conn) (h0 : ∀ c ∈ conns, c.events = []) :
    CallsOK ({ st := st0, conns := conns, calls := [] } : Sys σ) := by
  refine ⟨by simp, fun i => ?_⟩
  simp only [Sys.callsBy, Sys.events, List.filter_nil, List.map_nil]
  cases hc : conns[i]? with
  | none => rfl
  | some c => simp [h0 c (List.mem_of_getElem? hc), callsOf]

theorem events_turn_ne (h : Handler σ) (s : Sys σ) {i j : Nat} (hne : i ≠ j) :
    (turn h s j).events i = s.events i := by
  simp [Sys.events, turn_conns_ne h s hne]

theorem callsOK_turn (h : Handler σ) {s : Sys σ} (hs : CallsOK s) (j : Nat) : CallsOK (turn h s j) := by
  cases hc : s.conns[j]? with
  | none => rw [turn_none h hc]; exact hs
  | some c =>
    have hlt : j < s.conns.length := by
      rcases Nat.lt_or_ge j s.conns.length with hl | hl
      · exact hl
      · rw [List.getElem?_eq_none hl] at hc; cases hc
    obtain ⟨evs, h1, _, h3, _⟩ := cycle_effect h s.st c
    refine ⟨?_, fun i => ?_⟩
    · rw [turn_length]
      rw [turn_some h hc]
      intro p hp
      simp only [List.mem_append] at hp
      rcases hp with hp | hp
      · exact hs.tags p hp
      · cases hq : (cycle h s.st c).2.2 with
        | none => rw [hq] at hp; simp at hp
        | some q => rw [hq] at hp; simp at hp; rw [hp]; exact hlt
    · by_cases hi : i = j
      · subst hi
        have e1 : (turn h s i).events i = s.events i ++ evs := by
          simp [Sys.events, turn_conns_self h hc, hc, h1]
        rw [e1, callsOf_append, ← hs.proj i, h3, turn_some h hc]
        simp only [Sys.callsBy, List.filter_append, List.map_append]
        cases (cycle h s.st c).2.2 with
        | none => simp
        | some q => simp
      · rw [events_turn_ne h s hi, ← hs.proj i, turn_some h hc]
        simp only [Sys.callsBy, List.filter_append, List.map_append]
        cases (cycle h s.st c).2.2 with
        | none => simp
        | some q =>
          have : (j == i) = false := by simpa using Ne.symm hi
          simp [this]

theorem callsOK_run (h : Handler σ) {s : Sys σ} (hs : CallsOK s) (sched : List Nat) :
    CallsOK (runFrom h s sched) := by
  induction sched generalizing s with
  | nil => exact hs
  | cons j r ih => exact ih (callsOK_turn h hs j)

theorem interleaving_of_callsOK {s : Sys σ} (hs : CallsOK s) :
    Interleaving s.globalCalls s.conns.length (fun i => callsOf (s.events i)) := by
  refine ⟨s.calls.map Prod.fst, by simp [Sys.globalCalls], ?_, fun i => ?_⟩
  · intro t ht
    obtain ⟨p, hp, rfl⟩ := List.mem_map.mp ht
    exact hs.tags p hp
  · rw [Sys.globalCalls, zip_map_fst_snd]; exact hs.proj i

/-! ### 5. per-connection events against the specification -/

/-- SPECIFICATION of one connection inside a shared server: the connection sent the frames `fs`;
    its k-th frame is handled when the shared handler state is the k-th element of `sts`.
    The events are `Spec.serverEvents` of each frame in that state, in order, up to and including
    the first frame that closes the connection. -/
def specReplay (h : Handler σ) : List σ → List (U16 × Pdu) → List Event
  | st :: sts, (txn, req) :: fs =>
    (Spec.serverEvents h st txn req).2 ++ (if Spec.staysOpen req then specReplay h sts fs else [])
  | _, _ => []

theorem specReplay_nil (h : Handler σ) (fs : List (U16 × Pdu)) : specReplay h [] fs = [] := by
  cases fs <;> rfl

theorem wire_cons (txn : U16) (req : Pdu) (fs : List (U16 × Pdu)) (tail : Bytes) :
    Spec.wire ((txn, req) :: fs) ++ tail = Mbap.assemble txn req ++ (Spec.wire fs ++ tail) := by
  simp [Spec.wire, mbapFrame_eq]

/-- a connection whose input starts with the frames `fs` and that takes at most `fs.length`
    turns, in the states `sts`: its events and its output are the specification's -/
theorem replay_spec (h : Handler σ) (hn : h.NoProtoErr) (tail : Bytes) :
    ∀ (sts : List σ) (fs : List (U16 × Pdu)) (c : Conn), c.live = true →
      c.input = Spec.wire fs ++ tail → (∀ f ∈ fs, f.2.payload.length ≤ 252) →
      sts.length ≤ fs.length →
      (replay h sts c).events = c.events ++ specReplay h sts fs ∧
        (replay h sts c).output = c.output ++ respBytes (specReplay h sts fs) := by
  intro sts
  induction sts with
  | nil => intro fs c _ _ _ _; simp [replay_nil, specReplay_nil, respBytes]
  | cons st sts ih =>
    intro fs c hl hin hf hlen
    match fs, hlen with
    | (txn, req) :: fs', hlen =>
      have hp : req.payload.length ≤ 252 := hf (txn, req) List.mem_cons_self
      have hf' : ∀ g ∈ fs', g.2.payload.length ≤ 252 := fun g hg => hf g (List.mem_cons_of_mem _ hg)
      rw [wire_cons] at hin
      have hc := cycle_frame_spec h st hl hin hp (fun r _ => hn.spec st r)
      rw [replay_cons, hc]
      simp only [specReplay]
      cases hso : Spec.staysOpen req with
      | true =>
        obtain ⟨i1, i2⟩ := ih fs' ⟨Spec.wire fs' ++ tail, c.ending,
            c.output ++ respBytes (Spec.serverEvents h st txn req).2,
            c.events ++ (Spec.serverEvents h st txn req).2, true⟩ rfl rfl hf' (by simpa using hlen)
        simp only [if_true]
        refine ⟨i1.trans ?_, i2.trans ?_⟩
        · exact List.append_assoc _ _ _
        · rw [respBytes_append]; exact List.append_assoc _ _ _
      | false =>
        rw [replay_dead h sts rfl]
        simp
    | [], hlen => simp at hlen

/-- SPECIFICATION of the handler calls of one connection: the decoded valid requests among its
    frames, in order, up to the first frame that closes the connection.  Independent of the
    handler, of the shared state, and of the other connections. -/
def expectedCalls : List (U16 × Pdu) → List HReq
  | [] => []
  | (_, req) :: fs =>
    if Spec.staysOpen req then (expectedCall req).toList ++ expectedCalls fs else []

theorem expectedCall_of_closed {req : Pdu} (h : Spec.staysOpen req = false) : expectedCall req = none := by
  unfold Spec.staysOpen at h
  unfold expectedCall
  cases hc : Spec.classify req.unit req.fc req.payload <;> rw [hc] at h <;> simp at h ⊢

/-- the bytes contain no complete frame (for instance: nothing, or a strict prefix of a frame) -/
def NoFrame (tail : Bytes) : Prop := ∀ e, ∃ err rest, Mbap.readFrame tail e = (.err err, rest)

theorem noFrame_nil : NoFrame [] := by
  intro e; exact ⟨_, _, Mbap.readFrame_short7 e (by simp)⟩

theorem noFrame_of_blocked {s : Bytes} (h : blocked s = true) : NoFrame s := by
  obtain ⟨n, hn⟩ := (blocked_iff s).mp h
  intro e; exact ⟨_, _, hn e⟩

theorem cycle_noframe (h : Handler σ) (st : σ) {c : Conn} (hl : c.live = true) (hnf : NoFrame c.input) :
    cycle h st c = (st, c, none) ∨
    ∃ err rest, cycle h st c =
      (st, { c with input := rest, events := c.events ++ [.ended err], live := false }, none) := by
  rcases cycle_live h st hl with ⟨_, _, hc⟩ | ⟨e, _, hc⟩
  · exact Or.inl hc
  · obtain ⟨err, rest, hrf⟩ := hnf e
    exact Or.inr ⟨err, rest, by rw [hc, serve_err h st c hrf]⟩

/-- ANY handler, any states, any number of turns: the calls a connection makes are a prefix of
    the calls the specification derives from that connection's own frames - all of them once its
    session has ended (handler without `ErrProtocolError`) -/
theorem replay_calls (h : Handler σ) (tail : Bytes) (hnf : NoFrame tail) :
    ∀ (sts : List σ) (fs : List (U16 × Pdu)) (c : Conn), c.live = true →
      c.input = Spec.wire fs ++ tail → (∀ f ∈ fs, f.2.payload.length ≤ 252) →
      ∃ pre, callsOf (replay h sts c).events = callsOf c.events ++ pre ∧
        pre <+: expectedCalls fs ∧
        (h.NoProtoErr → (replay h sts c).live = false → pre = expectedCalls fs) := by
  intro sts
  induction sts with
  | nil =>
    intro fs c hl _ _
    exact ⟨[], by simp [replay_nil], List.nil_prefix, fun _ hd => by rw [replay_nil, hl] at hd; cases hd⟩
  | cons st sts ih =>
    intro fs c hl hin hf
    match fs with
    | [] =>
      have hin' : c.input = tail := by simpa [Spec.wire] using hin
      rcases cycle_noframe h st hl (hin' ▸ hnf) with hc | ⟨err, rest, hc⟩
      · rw [replay_cons, hc]; exact ih [] c hl hin hf
      · rw [replay_cons, hc, replay_dead h sts rfl]
        exact ⟨[], by simp [callsOf_append, callsOf], List.nil_prefix, fun _ _ => rfl⟩
    | (txn, req) :: fs' =>
      have hp : req.payload.length ≤ 252 := hf (txn, req) List.mem_cons_self
      have hf' : ∀ g ∈ fs', g.2.payload.length ≤ 252 := fun g hg => hf g (List.mem_cons_of_mem _ hg)
      rw [wire_cons] at hin
      obtain ⟨a1, a2, a3, a4⟩ := cycle_frame_any h st hl hin hp
      obtain ⟨evs, e1, _, e3, _, _⟩ := cycle_effect h st c
      have hcalls : callsOf (cycle h st c).2.1.events =
          callsOf c.events ++ (expectedCall req).toList := by
        rw [e1, callsOf_append, e3, a1]
      rw [replay_cons]
      cases hl' : (cycle h st c).2.1.live with
      | false =>
        rw [replay_dead h sts hl']
        refine ⟨(expectedCall req).toList, hcalls, ?_, fun hn _ => ?_⟩
        · simp only [expectedCalls]
          cases hso : Spec.staysOpen req with
          | true => simp
          | false => simp [expectedCall_of_closed hso]
        · have hso : Spec.staysOpen req = false := by rw [← a4 hn]; exact hl'
          simp [expectedCalls, hso, expectedCall_of_closed hso]
      | true =>
        have hso := a3 hl'
        obtain ⟨pre', p1, p2, p3⟩ := ih fs' (cycle h st c).2.1 hl' a2 hf'
        refine ⟨(expectedCall req).toList ++ pre', by rw [p1, hcalls, List.append_assoc], ?_,
          fun hn hd => ?_⟩
        · simp only [expectedCalls, hso, if_true]
          exact (List.prefix_append_right_inj _).mpr p2
        · simp only [expectedCalls, hso, if_true]
          rw [p3 hn hd]

/-! ### 6. one connection alone is `Server.run` -/

theorem solo_succ (h : Handler σ) (n : Nat) (st : σ) (c : Conn) :
    solo h (n + 1) st c = solo h n (cycle h st c).1 (cycle h st c).2.1 := rfl

theorem solo_dead (h : Handler σ) (n : Nat) (st : σ) {c : Conn} (hl : c.live = false) :
    solo h n st c = (st, c) := by
  induction n with
  | zero => rfl
  | succ n ih => rw [solo_succ, cycle_dead h st hl]; exact ih

/-- `n` turns of one connection whose stream ends with `e`, handler state threaded through:
    the events are a prefix `pre` of the events of `Server.run` on the same stream; once the
    session has returned they are all of them and the handler state is `Server.run`'s; and
    `input.length + 1` turns are enough for that -/
theorem solo_run (h : Handler σ) :
    ∀ (n : Nat) (st : σ) (c : Conn) (e : Ending), c.live = true → c.ending = some e →
      ∃ pre post, (run h st c.input e).2 = pre ++ post ∧
        (solo h n st c).2.events = c.events ++ pre ∧
        (solo h n st c).2.output = c.output ++ respBytes pre ∧
        ((solo h n st c).2.live = false → post = [] ∧ (solo h n st c).1 = (run h st c.input e).1) ∧
        (c.input.length < n → (solo h n st c).2.live = false) := by
  intro n
  induction n with
  | zero =>
    intro st c e hl _
    exact ⟨[], _, rfl, by simp [solo], by simp [solo, respBytes],
      fun hd => by simp [solo, hl] at hd, fun hlt => by omega⟩
  | succ n ih =>
    intro st c e hl he
    have hcyc : cycle h st c = serve h st c e := by simp [cycle, hl, he]
    rw [solo_succ, hcyc]
    cases hrf : Mbap.readFrame c.input e with
    | mk r rest =>
      cases r with
      | err err =>
        rw [serve_err h st c hrf, run_of_err h st hrf, solo_dead h n st rfl]
        exact ⟨[.ended err], [], rfl, rfl, by simp [respBytes], fun _ => ⟨rfl, rfl⟩, fun _ => rfl⟩
      | ok req txn =>
        have hprog := Mbap.readFrame_progress hrf (Or.inr ⟨req, txn, rfl⟩)
        rw [serve_ok h st c hrf, run_of_ok h st hrf]
        obtain ⟨f1, f2, _, f4, f5⟩ := afterFrame_effect c rest txn (handle h st req)
        rcases hh : handle h st req with ⟨st', call, act⟩
        rw [hh] at f1 f2 f4 f5
        cases act with
        | close =>
          have hd : (afterFrame c rest txn (st', call, Action.close)).live = false := rfl
          rw [solo_dead h n st' hd]
          refine ⟨frameEvents txn (st', call, .close), [], ?_, f1, f2, fun _ => ⟨rfl, rfl⟩, fun _ => hd⟩
          cases call <;> simp [frameStep, frameEvents]
        | panic =>
          have hd : (afterFrame c rest txn (st', call, Action.panic)).live = false := rfl
          rw [solo_dead h n st' hd]
          refine ⟨frameEvents txn (st', call, .panic), [], ?_, f1, f2, fun _ => ⟨rfl, rfl⟩, fun _ => hd⟩
          cases call <;> simp [frameStep, frameEvents]
        | respond p =>
          have hl' : (afterFrame c rest txn (st', call, Action.respond p)).live = true := hl
          obtain ⟨pre, post, i1, i2, i3, i4, i5⟩ :=
            ih st' (afterFrame c rest txn (st', call, Action.respond p)) e hl' (by rw [f4]; exact he)
          rw [f5] at i1 i4 i5
          refine ⟨frameEvents txn (st', call, .respond p) ++ pre, post, ?_, ?_, ?_, ?_, ?_⟩
          · cases call <;> simp [frameStep, frameEvents, i1]
          · rw [i2, f1, List.append_assoc]
          · rw [i3, f2, respBytes_append, List.append_assoc]
          · intro hd
            obtain ⟨j1, j2⟩ := i4 hd
            exact ⟨j1, by rw [j2]; simp [frameStep]⟩
          · intro hlt; exact i5 (by omega)

/-! ### 7. handlers that neither read nor write the shared state -/

/-- the result of every table does not depend on the state and the state is returned unchanged -/
def _root_.Modbus.Server.Handler.Pure (h : Handler σ) : Prop :=
  ∀ st st' r,
    ((h.coils st r).1 = st ∧ (h.coils st r).2 = (h.coils st' r).2) ∧
    ((h.discrete st r).1 = st ∧ (h.discrete st r).2 = (h.discrete st' r).2) ∧
    ((h.holding st r).1 = st ∧ (h.holding st r).2 = (h.holding st' r).2) ∧
    ((h.input st r).1 = st ∧ (h.input st r).2 = (h.input st' r).2)

theorem invoke_pure {h : Handler σ} (hp : h.Pure) (st st' : σ) (r : HReq) :
    (Spec.invoke h st r).1 = st ∧ (Spec.invoke h st r).2 = (Spec.invoke h st' r).2 := by
  obtain ⟨⟨a1, a2⟩, ⟨b1, b2⟩, ⟨c1, c2⟩, ⟨d1, d2⟩⟩ := hp st st' r
  cases r <;> simp only [Spec.invoke]
  · exact ⟨a1, by rw [a2]⟩
  · exact ⟨b1, by rw [b2]⟩
  · exact ⟨c1, by rw [c2]⟩
  · exact ⟨d1, by rw [d2]⟩

theorem handle_pure {h : Handler σ} (hp : h.Pure) (st st' : σ) (req : Pdu) :
    handle h st req = (st, (handle h st' req).2) := by
  rw [handle_eq, handle_eq, handleSpec, handleSpec]
  cases Spec.classify req.unit req.fc req.payload with
  | valid r =>
    obtain ⟨i1, i2⟩ := invoke_pure hp st st' r
    simp only [i1, i2]
  | unsupported => rfl
  | addrRange => rfl
  | malformed => rfl

theorem afterFrame_congr (c : Conn) (rest : Bytes) (txn : U16) {r r' : σ × Option HReq × Action}
    (h : r.2 = r'.2) : afterFrame c rest txn r = afterFrame c rest txn r' := by
  obtain ⟨a, b⟩ := r
  obtain ⟨a', b'⟩ := r'
  simp only at h; subst h; rfl

theorem serve_pure {h : Handler σ} (hp : h.Pure) (st st' : σ) (c : Conn) (e : Ending) :
    (serve h st c e).1 = st ∧ (serve h st c e).2 = (serve h st' c e).2 := by
  cases hrf : Mbap.readFrame c.input e with
  | mk r rest =>
    cases r with
    | err err => rw [serve_err h st c hrf, serve_err h st' c hrf]; exact ⟨rfl, rfl⟩
    | ok req txn =>
      rw [serve_ok h st c hrf, serve_ok h st' c hrf]
      have hh := handle_pure hp st st' req
      refine ⟨by rw [hh], ?_⟩
      have h2 : (handle h st req).2 = (handle h st' req).2 := by rw [hh]
      simp only [afterFrame_congr c rest txn h2, h2]

theorem cycle_pure {h : Handler σ} (hp : h.Pure) (st st' : σ) (c : Conn) :
    (cycle h st c).1 = st ∧ (cycle h st c).2 = (cycle h st' c).2 := by
  unfold cycle
  cases c.live with
  | false => exact ⟨rfl, rfl⟩
  | true =>
    simp only [if_true]
    cases c.ending with
    | some e => exact serve_pure hp st st' c e
    | none =>
      simp only []
      cases blocked c.input with
      | true => exact ⟨rfl, rfl⟩
      | false => exact serve_pure hp st st' c .timeout

theorem solo_pure {h : Handler σ} (hp : h.Pure) (n : Nat) (st : σ) (c : Conn) :
    (solo h n st c).1 = st := by
  induction n generalizing c with
  | zero => rfl
  | succ n ih => rw [solo_succ, (cycle_pure hp st st c).1]; exact ih _

/-- for such a handler the states a connection meets do not matter -/
theorem replay_pure {h : Handler σ} (hp : h.Pure) (st : σ) (sts : List σ) (c : Conn) :
    replay h sts c = (solo h sts.length st c).2 := by
  induction sts generalizing c with
  | nil => rfl
  | cons s1 sts ih =>
    rw [replay_cons, List.length_cons, solo_succ, (cycle_pure hp st st c).1, ih,
      (cycle_pure hp s1 st c).2]

theorem turn_st_pure {h : Handler σ} (hp : h.Pure) (s : Sys σ) (j : Nat) : (turn h s j).st = s.st := by
  cases hc : s.conns[j]? with
  | none => rw [turn_none h hc]
  | some c => rw [turn_some h hc]; exact (cycle_pure hp s.st s.st c).1

theorem runFrom_st_pure {h : Handler σ} (hp : h.Pure) (s : Sys σ) (sched : List Nat) :
    (runFrom h s sched).st = s.st := by
  induction sched generalizing s with
  | nil => rfl
  | cons j r ih => rw [runFrom_cons, ih, turn_st_pure hp]

/-! ### 8. stalled connections -/

theorem set_of_getElem? {α : Type} {l : List α} {j : Nat} {a : α} (h : l[j]? = some a) :
    l.set j a = l := by
  obtain ⟨hlt, rfl⟩ := List.getElem?_eq_some_iff.mp h
  exact List.set_getElem_self hlt

/-- the turn of a stalled connection changes nothing at all -/
theorem turn_stalled (h : Handler σ) {s : Sys σ} {j : Nat} {c : Conn} (hc : s.conns[j]? = some c)
    (hs : c.stalled = true) : turn h s j = s := by
  rw [turn_some h hc, cycle_stalled h s.st hs]
  simp only [set_of_getElem? hc, List.append_nil]

/-- index of a connection after connection `j` has been taken out of the list -/
def reindex (j i : Nat) : Nat := if i < j then i else i - 1

/-- the server without connection `j` -/
def dropConn (j : Nat) (s : Sys σ) : Sys σ :=
  { st := s.st, conns := s.conns.eraseIdx j,
    calls := s.calls.map (fun p => (reindex j p.1, p.2)) }

/-- the schedule without the turns of `j` -/
def dropSched (j : Nat) (sched : List Nat) : List Nat :=
  (sched.filter (fun i => i != j)).map (reindex j)

theorem getElem?_dropConn (s : Sys σ) {i j : Nat} (hne : i ≠ j) :
    (dropConn j s).conns[reindex j i]? = s.conns[i]? := by
  simp only [dropConn, reindex, List.getElem?_eraseIdx]
  by_cases hlt : i < j
  · simp [hlt]
  · have h1 : ¬ (i - 1 < j) := by omega
    have h2 : i - 1 + 1 = i := by omega
    simp [hlt, h1, h2]

theorem turn_dropConn (h : Handler σ) (s : Sys σ) {i j : Nat} (hne : i ≠ j) :
    turn h (dropConn j s) (reindex j i) = dropConn j (turn h s i) := by
  have hg := getElem?_dropConn s hne
  cases hc : s.conns[i]? with
  | none =>
    rw [hc] at hg
    rw [turn_none h hc, turn_none h hg]
  | some c =>
    rw [hc] at hg
    rw [turn_some h hc, turn_some h hg]
    have hset : (s.conns.set i (cycle h s.st c).2.1).eraseIdx j =
        (s.conns.eraseIdx j).set (reindex j i) (cycle h s.st c).2.1 := by
      unfold reindex
      by_cases hlt : i < j
      · rw [if_pos hlt, List.eraseIdx_set_gt hlt]
      · rw [if_neg hlt, List.eraseIdx_set_lt (by omega)]
    simp only [dropConn, hset, List.map_append]
    cases (cycle h s.st c).2.2 <;> rfl

theorem dropSched_cons_self (j : Nat) (r : List Nat) : dropSched j (j :: r) = dropSched j r := by
  simp [dropSched]

theorem dropSched_cons_ne {i j : Nat} (hne : i ≠ j) (r : List Nat) :
    dropSched j (i :: r) = reindex j i :: dropSched j r := by
  simp [dropSched, hne]

/-- with a stalled connection `j`: running the schedule with `j` present and then taking `j`
    out is the same as taking `j` out first (and its turns out of the schedule); and `j` itself
    is exactly as it was -/
theorem runFrom_dropConn (h : Handler σ) {j : Nat} {c : Conn} (hs : c.stalled = true) :
    ∀ (sched : List Nat) (s : Sys σ), s.conns[j]? = some c →
      runFrom h (dropConn j s) (dropSched j sched) = dropConn j (runFrom h s sched) ∧
        (runFrom h s sched).conns[j]? = some c := by
  intro sched
  induction sched with
  | nil => intro s hc; exact ⟨rfl, hc⟩
  | cons i r ih =>
    intro s hc
    by_cases hij : i = j
    · subst hij
      rw [dropSched_cons_self, runFrom_cons, turn_stalled h hc hs]
      exact ih s hc
    · rw [dropSched_cons_ne hij, runFrom_cons, runFrom_cons, turn_dropConn h s hij]
      exact ih (turn h s i) (by rw [turn_conns_ne h s (Ne.symm hij)]; exact hc)

/-- a turn of `i` depends on the shared handler state and on the record of `i` only -/
theorem turn_depends (h : Handler σ) (s₁ s₂ : Sys σ) (i : Nat) (hst : s₁.st = s₂.st)
    (hc : s₁.conns[i]? = s₂.conns[i]?) :
    (turn h s₁ i).st = (turn h s₂ i).st ∧ (turn h s₁ i).conns[i]? = (turn h s₂ i).conns[i]? := by
  cases hc1 : s₁.conns[i]? with
  | none =>
    have hc2 : s₂.conns[i]? = none := by rw [← hc, hc1]
    rw [turn_none h hc1, turn_none h hc2]; exact ⟨hst, by rw [hc1, hc2]⟩
  | some c =>
    have hc2 : s₂.conns[i]? = some c := by rw [← hc, hc1]
    refine ⟨?_, by rw [turn_conns_self h hc1, turn_conns_self h hc2, hst]⟩
    rw [turn_some h hc1, turn_some h hc2, hst]

/-- a schedule that consists of turns of `i` only is `i` alone -/
theorem runFrom_replicate (h : Handler σ) (i : Nat) :
    ∀ (n : Nat) (s : Sys σ) (c : Conn), s.conns[i]? = some c →
      (runFrom h s (List.replicate n i)).st = (solo h n s.st c).1 ∧
        (runFrom h s (List.replicate n i)).conns[i]? = some (solo h n s.st c).2 := by
  intro n
  induction n with
  | zero => intro s c hc; exact ⟨rfl, hc⟩
  | succ n ih =>
    intro s c hc
    rw [List.replicate_succ, runFrom_cons, solo_succ]
    have h1 := turn_conns_self h hc
    have h2 : (turn h s i).st = (cycle h s.st c).1 := by rw [turn_some h hc]
    have := ih (turn h s i) _ h1
    rw [h2] at this
    exact this

theorem events_of_conn {s : Sys σ} {i : Nat} {c : Conn} (hc : s.conns[i]? = some c) :
    s.events i = c.events ∧ s.output i = c.output := by
  simp [Sys.events, Sys.output, hc]

end Modbus.Multi
