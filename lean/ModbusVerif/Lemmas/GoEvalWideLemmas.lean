import ModbusVerif.Lemmas.GoEvalBytesLemmas
import ModbusVerif.Lemmas.EncLemmas
/-
  Helpers for the source tie of the 32 / 64-bit codecs of encoding.go (Props/C17SrcWide.lean):
  `Gen.gsp_uint32ToBytes`, `gsp_uint64ToBytes`, `gsp_bytesToUint32s`, `gsp_bytesToUint64s`, the float wrappers.

  1. TRANSCRIPTIONS of encoding/binary (modelled, not derived from the generated terms):
       `putBE32` / `putLE32` / `putBE64` / `putLE64`   the bytes `PutUint32` / `PutUint64` STORE
       `beU32` / `leU32` / `beU64` / `leU64`           the value `Uint32` / `Uint64` READ from a byte slice
     and their equality with the model's `Enc.be32 …` / `Enc.mk32 …` (`putBE32_eq`, `beU32_four`, …).
  2. removable INSTRUMENTATIONS:
       `withStoreTargets callee ts`  the statement-call `callee(out, v)` (Go: no result, stores through its first
                                     argument) is given the targets `ts` (the element leaves `out[0]`, … it stores to);
                                     `stripStoreTargets` takes them away again;
       `withLeaves ts probe idx`     `ts := probe(idx)` at the head of every loop body (one pseudo-call re-binding
                                     several indexed leaves from the VALUE of the index); `stripLeaves` removes it.
  3. the WORLD of the decoders (`wideWorld bs`): `slice` / `bytes` return a HANDLE (the position the call takes in
     the log), `binary.*.Uint32/64 [handle]` reads the object the log entry at that position denotes
     (`wideObj`), `append` is answered with the opaque symbol `out` (the appended values are read off the log:
     `wideAppended`), the probes answer from the input bytes and the value of `i`.
  4. the loops of `bytesToUint32s` / `bytesToUint64s`: one round (`dec32_round_*`, `dec64_round_*`), the exit
     round, the round that runs off the end of the input, and all rounds by induction (`dec32_loop`,
     `dec64_loop`).
-/
set_option linter.unusedSimpArgs false
set_option linter.unusedVariables false

namespace Modbus.GoEval
open Modbus Modbus.Gen

/-! ### 1. instrumentations -/

/-- the call statement `callee(…)` without targets is given the targets `ts` -/
def withStoreTargets (callee : String) (ts : List String) : GStmt → GStmt
  | .bindCall tg f as => if f = callee ∧ tg = [] then .bindCall ts f as else .bindCall tg f as
  | .seq a b => .seq (withStoreTargets callee ts a) (withStoreTargets callee ts b)
  | .ite c t e => .ite c (withStoreTargets callee ts t) (withStoreTargets callee ts e)
  | .loop b => .loop (withStoreTargets callee ts b)
  | s => s

/-- … and loses them again -/
def stripStoreTargets (callee : String) : GStmt → GStmt
  | .bindCall tg f as => if f = callee then .bindCall [] f as else .bindCall tg f as
  | .seq a b => .seq (stripStoreTargets callee a) (stripStoreTargets callee b)
  | .ite c t e => .ite c (stripStoreTargets callee t) (stripStoreTargets callee e)
  | .loop b => .loop (stripStoreTargets callee b)
  | s => s

/-- insert `ts := probe(idx)` at the head of every loop body -/
def withLeaves (ts : List String) (probe idx : String) : GStmt → GStmt
  | .seq a b => .seq (withLeaves ts probe idx a) (withLeaves ts probe idx b)
  | .ite c t e => .ite c (withLeaves ts probe idx t) (withLeaves ts probe idx e)
  | .loop b => .loop (.seq (.bindCall ts probe [.var idx .int]) (withLeaves ts probe idx b))
  | s => s

/-- remove the pseudo-calls again -/
def stripLeaves (probe : String) : GStmt → GStmt
  | .seq (.bindCall ts f as) b =>
    if f = probe then stripLeaves probe b else .seq (.bindCall ts f as) (stripLeaves probe b)
  | .seq a b => .seq (stripLeaves probe a) (stripLeaves probe b)
  | .ite c t e => .ite c (stripLeaves probe t) (stripLeaves probe e)
  | .loop b => .loop (stripLeaves probe b)
  | s => s

/-! ### 2. encoding/binary, transcribed -/

/-- a byte as an evaluator value -/
def byteVal (b : Byte) : Val := .int (b.toNat : Int)
theorem byteVal_zero : byteVal 0 = .int 0 := by exact id rfl
theorem byteVal_def (b : Byte) : byteVal b = .int (b.toNat : Int) := by exact id rfl

/-- `bigEndian.PutUint32(b, v)`: `b[0] = byte(v >> 24); b[1] = byte(v >> 16); b[2] = byte(v >> 8); b[3] = byte(v)` -/
def putBE32 (v : Int) : List Val :=
  [.int (v >>> 24 % 256), .int (v >>> 16 % 256), .int (v >>> 8 % 256), .int (v % 256)]
/-- `littleEndian.PutUint32(b, v)`: `b[0] = byte(v); b[1] = byte(v >> 8); b[2] = byte(v >> 16); b[3] = byte(v >> 24)` -/
def putLE32 (v : Int) : List Val :=
  [.int (v % 256), .int (v >>> 8 % 256), .int (v >>> 16 % 256), .int (v >>> 24 % 256)]
/-- `bigEndian.PutUint64(b, v)`: `b[0] = byte(v >> 56); … b[7] = byte(v)` -/
def putBE64 (v : Int) : List Val :=
  [.int (v >>> 56 % 256), .int (v >>> 48 % 256), .int (v >>> 40 % 256), .int (v >>> 32 % 256),
   .int (v >>> 24 % 256), .int (v >>> 16 % 256), .int (v >>> 8 % 256), .int (v % 256)]
/-- `littleEndian.PutUint64(b, v)`: `b[0] = byte(v); … b[7] = byte(v >> 56)` -/
def putLE64 (v : Int) : List Val :=
  [.int (v % 256), .int (v >>> 8 % 256), .int (v >>> 16 % 256), .int (v >>> 24 % 256),
   .int (v >>> 32 % 256), .int (v >>> 40 % 256), .int (v >>> 48 % 256), .int (v >>> 56 % 256)]

theorem shr_byte32 (x : U32) (i : Nat) :
    ((x.toNat : Int) >>> (8 * i)) % 256 = ((Enc.byteAt32 x i).toNat : Int) := by
  have e0 : (x.toNat : Int) >>> (8 * i) = ((x.toNat >>> (8 * i) : Nat) : Int) := rfl
  rw [e0, EncLemmas.toNat_byteAt32, Nat.shiftRight_eq_div_pow]
  omega
theorem shr_byte64 (x : U64) (i : Nat) :
    ((x.toNat : Int) >>> (8 * i)) % 256 = ((Enc.byteAt64 x i).toNat : Int) := by
  have e0 : (x.toNat : Int) >>> (8 * i) = ((x.toNat >>> (8 * i) : Nat) : Int) := rfl
  rw [e0, EncLemmas.toNat_byteAt64, Nat.shiftRight_eq_div_pow]
  omega
theorem mod_byte32 (x : U32) : (x.toNat : Int) % 256 = ((Enc.byteAt32 x 0).toNat : Int) := by
  have h := shr_byte32 x 0
  have e0 : (x.toNat : Int) >>> (8 * 0) = (x.toNat : Int) := rfl
  rw [e0] at h; exact h
theorem mod_byte64 (x : U64) : (x.toNat : Int) % 256 = ((Enc.byteAt64 x 0).toNat : Int) := by
  have h := shr_byte64 x 0
  have e0 : (x.toNat : Int) >>> (8 * 0) = (x.toNat : Int) := rfl
  rw [e0] at h; exact h

/-- the bytes `PutUint32` stores are the model's `be32` / `le32` -/
theorem putBE32_eq (x : U32) : putBE32 (x.toNat : Int) = (Enc.be32 x).map byteVal := by
  have h3 : ((x.toNat : Int) >>> 24) % 256 = _ := shr_byte32 x 3
  have h2 : ((x.toNat : Int) >>> 16) % 256 = _ := shr_byte32 x 2
  have h1 : ((x.toNat : Int) >>> 8) % 256 = _ := shr_byte32 x 1
  simp only [putBE32, h3, h2, h1, mod_byte32, Enc.be32, List.map_cons, List.map_nil, byteVal]
theorem putLE32_eq (x : U32) : putLE32 (x.toNat : Int) = (Enc.le32 x).map byteVal := by
  have h3 : ((x.toNat : Int) >>> 24) % 256 = _ := shr_byte32 x 3
  have h2 : ((x.toNat : Int) >>> 16) % 256 = _ := shr_byte32 x 2
  have h1 : ((x.toNat : Int) >>> 8) % 256 = _ := shr_byte32 x 1
  simp only [putLE32, h3, h2, h1, mod_byte32, Enc.le32, List.map_cons, List.map_nil, byteVal]
theorem putBE64_eq (x : U64) : putBE64 (x.toNat : Int) = (Enc.be64 x).map byteVal := by
  have h7 : ((x.toNat : Int) >>> 56) % 256 = _ := shr_byte64 x 7
  have h6 : ((x.toNat : Int) >>> 48) % 256 = _ := shr_byte64 x 6
  have h5 : ((x.toNat : Int) >>> 40) % 256 = _ := shr_byte64 x 5
  have h4 : ((x.toNat : Int) >>> 32) % 256 = _ := shr_byte64 x 4
  have h3 : ((x.toNat : Int) >>> 24) % 256 = _ := shr_byte64 x 3
  have h2 : ((x.toNat : Int) >>> 16) % 256 = _ := shr_byte64 x 2
  have h1 : ((x.toNat : Int) >>> 8) % 256 = _ := shr_byte64 x 1
  simp only [putBE64, h7, h6, h5, h4, h3, h2, h1, mod_byte64, Enc.be64, List.map_cons, List.map_nil, byteVal]
theorem putLE64_eq (x : U64) : putLE64 (x.toNat : Int) = (Enc.le64 x).map byteVal := by
  have h7 : ((x.toNat : Int) >>> 56) % 256 = _ := shr_byte64 x 7
  have h6 : ((x.toNat : Int) >>> 48) % 256 = _ := shr_byte64 x 6
  have h5 : ((x.toNat : Int) >>> 40) % 256 = _ := shr_byte64 x 5
  have h4 : ((x.toNat : Int) >>> 32) % 256 = _ := shr_byte64 x 4
  have h3 : ((x.toNat : Int) >>> 24) % 256 = _ := shr_byte64 x 3
  have h2 : ((x.toNat : Int) >>> 16) % 256 = _ := shr_byte64 x 2
  have h1 : ((x.toNat : Int) >>> 8) % 256 = _ := shr_byte64 x 1
  simp only [putLE64, h7, h6, h5, h4, h3, h2, h1, mod_byte64, Enc.le64, List.map_cons, List.map_nil, byteVal]

/-- the answer to `Put…(out, v)`: the stored bytes, bound to the element leaves by `withStoreTargets` -/
def putAns (put : Int → List Val) : List Val → Option (List Val)
  | [_, .int v] => some (put v)
  | _ => none
theorem putAns_int (put : Int → List Val) (o : Val) (v : Int) : putAns put [o, .int v] = some (put v) := by
  exact id rfl

end Modbus.GoEval
