import ModbusVerif.Lemmas.GoEvalBytesLemmas
import ModbusVerif.Lemmas.EncLemmas
/-
  Helpers for the source tie of the 32 / 64-bit codecs of encoding.go (Props/C17SrcWide.lean):
  `Gen.gsp_uint32ToBytes`, `gsp_uint64ToBytes`, `gsp_bytesToUint32s`, `gsp_bytesToUint64s`, the float wrappers.

  1. TRANSCRIPTIONS of encoding/binary (modelled, not derived from the generated terms):
       `putBE32` / `putLE32` / `putBE64` / `putLE64`   the bytes `PutUint32` / `PutUint64` STORE
       `beU32` / `leU32` / `beU64` / `leU64`           the value `Uint32` / `Uint64` READ from a byte slice
     and their equality with the model's `Enc.be32 …` / `Enc.mk32 …` (`putBE32_eq`, `beU32_four`, …).
  2. removable INSTRUMENTATIONS:
       `withStoreTargets callee ts`  the statement-call `callee(out, v)` (Go: no result, stores through its first
                                     argument) is given the targets `ts` (the element leaves `out[0]`, … it stores to);
                                     `stripStoreTargets` takes them away again;
       `withLeaves ts probe idx`     `ts := probe(idx)` at the head of every loop body (one pseudo-call re-binding
                                     several indexed leaves from the VALUE of the index); `stripLeaves` removes it.
  3. the WORLD of the decoders (`wideWorld bs`): `slice` / `bytes` return a HANDLE (the position the call takes in
     the log), `binary.*.Uint32/64 [handle]` reads the object the log entry at that position denotes
     (`wideObj`), `append` is answered with the opaque symbol `out` (the appended values are read off the log:
     `wideAppended`), the probes answer from the input bytes and the value of `i`.
  4. the loops of `bytesToUint32s` / `bytesToUint64s` (instrumented terms `dec32Gs`, `dec64Gs`; `strip_dec32Gs`):
     one complete round (`dec32_round`, `dec64_round`: every index, every four / eight bytes, both byte orders, every
     word-order value), the exit round (`dec32_exit`), the round that runs off the end of the input (`dec32_short`),
     all rounds by induction on the number of complete groups left (`dec32_loop`, `dec64_loop`); the model decoders
     as "all complete groups" (`wideChunks32`, `bytesToUint32s_chunks`); the same loops with a byte order that is
     neither constant (`dec32_round_invalid`, `dec32_loop_invalid`: ⌈len/4⌉ zeros, nothing read).
  5. the float wrappers: `wideFloatWorld` (the `math` conversions are the identity on bit patterns), the
     instrumented terms `decF32Gs`, `decF64Gs`, their loops (`decF32_loop`, `decF64_loop`) and prefixes
     (`decF32_whole`).
  All evaluation lemmas follow the conventions of Lemmas/GoEvalLemmas.lean (`by exact id rfl`, `go_evalW`);
  `wide_dec_eval [...]` = `go_evalW` + the lemmas of the decoder world.
-/
set_option linter.unusedSimpArgs false
set_option linter.unusedVariables false

namespace Modbus.GoEval
open Modbus Modbus.Gen

/-! ### 1. instrumentations -/

/-- the call statement `callee(…)` without targets is given the targets `ts` -/
def withStoreTargets (callee : String) (ts : List String) : GStmt → GStmt
  | .bindCall tg f as => if f = callee ∧ tg = [] then .bindCall ts f as else .bindCall tg f as
  | .seq a b => .seq (withStoreTargets callee ts a) (withStoreTargets callee ts b)
  | .ite c t e => .ite c (withStoreTargets callee ts t) (withStoreTargets callee ts e)
  | .loop b => .loop (withStoreTargets callee ts b)
  | s => s

/-- … and loses them again -/
def stripStoreTargets (callee : String) : GStmt → GStmt
  | .bindCall tg f as => if f = callee then .bindCall [] f as else .bindCall tg f as
  | .seq a b => .seq (stripStoreTargets callee a) (stripStoreTargets callee b)
  | .ite c t e => .ite c (stripStoreTargets callee t) (stripStoreTargets callee e)
  | .loop b => .loop (stripStoreTargets callee b)
  | s => s

/-- insert `ts := probe(idx)` at the head of every loop body -/
def withLeaves (ts : List String) (probe idx : String) : GStmt → GStmt
  | .seq a b => .seq (withLeaves ts probe idx a) (withLeaves ts probe idx b)
  | .ite c t e => .ite c (withLeaves ts probe idx t) (withLeaves ts probe idx e)
  | .loop b => .loop (.seq (.bindCall ts probe [.var idx .int]) (withLeaves ts probe idx b))
  | s => s

/-- remove the pseudo-calls again -/
def stripLeaves (probe : String) : GStmt → GStmt
  | .seq (.bindCall ts f as) b =>
    if f = probe then stripLeaves probe b else .seq (.bindCall ts f as) (stripLeaves probe b)
  | .seq a b => .seq (stripLeaves probe a) (stripLeaves probe b)
  | .ite c t e => .ite c (stripLeaves probe t) (stripLeaves probe e)
  | .loop b => .loop (stripLeaves probe b)
  | s => s

/-! ### 2. encoding/binary, transcribed -/

/-- a byte as an evaluator value -/
def byteVal (b : Byte) : Val := .int (b.toNat : Int)
theorem byteVal_zero : byteVal 0 = .int 0 := by exact id rfl
theorem byteVal_def (b : Byte) : byteVal b = .int (b.toNat : Int) := by exact id rfl

/-- `bigEndian.PutUint32(b, v)`: `b[0] = byte(v >> 24); b[1] = byte(v >> 16); b[2] = byte(v >> 8); b[3] = byte(v)` -/
def putBE32 (v : Int) : List Val :=
  [.int (v >>> 24 % 256), .int (v >>> 16 % 256), .int (v >>> 8 % 256), .int (v % 256)]
/-- `littleEndian.PutUint32(b, v)`: `b[0] = byte(v); b[1] = byte(v >> 8); b[2] = byte(v >> 16); b[3] = byte(v >> 24)` -/
def putLE32 (v : Int) : List Val :=
  [.int (v % 256), .int (v >>> 8 % 256), .int (v >>> 16 % 256), .int (v >>> 24 % 256)]
/-- `bigEndian.PutUint64(b, v)`: `b[0] = byte(v >> 56); … b[7] = byte(v)` -/
def putBE64 (v : Int) : List Val :=
  [.int (v >>> 56 % 256), .int (v >>> 48 % 256), .int (v >>> 40 % 256), .int (v >>> 32 % 256),
   .int (v >>> 24 % 256), .int (v >>> 16 % 256), .int (v >>> 8 % 256), .int (v % 256)]
/-- `littleEndian.PutUint64(b, v)`: `b[0] = byte(v); … b[7] = byte(v >> 56)` -/
def putLE64 (v : Int) : List Val :=
  [.int (v % 256), .int (v >>> 8 % 256), .int (v >>> 16 % 256), .int (v >>> 24 % 256),
   .int (v >>> 32 % 256), .int (v >>> 40 % 256), .int (v >>> 48 % 256), .int (v >>> 56 % 256)]

theorem shr_byte32 (x : U32) (i : Nat) :
    ((x.toNat : Int) >>> (8 * i)) % 256 = ((Enc.byteAt32 x i).toNat : Int) := by
  have e0 : (x.toNat : Int) >>> (8 * i) = ((x.toNat >>> (8 * i) : Nat) : Int) := rfl
  rw [e0, EncLemmas.toNat_byteAt32, Nat.shiftRight_eq_div_pow]
  omega
theorem shr_byte64 (x : U64) (i : Nat) :
    ((x.toNat : Int) >>> (8 * i)) % 256 = ((Enc.byteAt64 x i).toNat : Int) := by
  have e0 : (x.toNat : Int) >>> (8 * i) = ((x.toNat >>> (8 * i) : Nat) : Int) := rfl
  rw [e0, EncLemmas.toNat_byteAt64, Nat.shiftRight_eq_div_pow]
  omega
theorem mod_byte32 (x : U32) : (x.toNat : Int) % 256 = ((Enc.byteAt32 x 0).toNat : Int) := by
  have h := shr_byte32 x 0
  have e0 : (x.toNat : Int) >>> (8 * 0) = (x.toNat : Int) := rfl
  rw [e0] at h; exact h
theorem mod_byte64 (x : U64) : (x.toNat : Int) % 256 = ((Enc.byteAt64 x 0).toNat : Int) := by
  have h := shr_byte64 x 0
  have e0 : (x.toNat : Int) >>> (8 * 0) = (x.toNat : Int) := rfl
  rw [e0] at h; exact h

/-- the bytes `PutUint32` stores are the model's `be32` / `le32` -/
theorem putBE32_eq (x : U32) : putBE32 (x.toNat : Int) = (Enc.be32 x).map byteVal := by
  have h3 : ((x.toNat : Int) >>> 24) % 256 = _ := shr_byte32 x 3
  have h2 : ((x.toNat : Int) >>> 16) % 256 = _ := shr_byte32 x 2
  have h1 : ((x.toNat : Int) >>> 8) % 256 = _ := shr_byte32 x 1
  simp only [putBE32, h3, h2, h1, mod_byte32, Enc.be32, List.map_cons, List.map_nil, byteVal]
theorem putLE32_eq (x : U32) : putLE32 (x.toNat : Int) = (Enc.le32 x).map byteVal := by
  have h3 : ((x.toNat : Int) >>> 24) % 256 = _ := shr_byte32 x 3
  have h2 : ((x.toNat : Int) >>> 16) % 256 = _ := shr_byte32 x 2
  have h1 : ((x.toNat : Int) >>> 8) % 256 = _ := shr_byte32 x 1
  simp only [putLE32, h3, h2, h1, mod_byte32, Enc.le32, List.map_cons, List.map_nil, byteVal]
theorem putBE64_eq (x : U64) : putBE64 (x.toNat : Int) = (Enc.be64 x).map byteVal := by
  have h7 : ((x.toNat : Int) >>> 56) % 256 = _ := shr_byte64 x 7
  have h6 : ((x.toNat : Int) >>> 48) % 256 = _ := shr_byte64 x 6
  have h5 : ((x.toNat : Int) >>> 40) % 256 = _ := shr_byte64 x 5
  have h4 : ((x.toNat : Int) >>> 32) % 256 = _ := shr_byte64 x 4
  have h3 : ((x.toNat : Int) >>> 24) % 256 = _ := shr_byte64 x 3
  have h2 : ((x.toNat : Int) >>> 16) % 256 = _ := shr_byte64 x 2
  have h1 : ((x.toNat : Int) >>> 8) % 256 = _ := shr_byte64 x 1
  simp only [putBE64, h7, h6, h5, h4, h3, h2, h1, mod_byte64, Enc.be64, List.map_cons, List.map_nil, byteVal]
theorem putLE64_eq (x : U64) : putLE64 (x.toNat : Int) = (Enc.le64 x).map byteVal := by
  have h7 : ((x.toNat : Int) >>> 56) % 256 = _ := shr_byte64 x 7
  have h6 : ((x.toNat : Int) >>> 48) % 256 = _ := shr_byte64 x 6
  have h5 : ((x.toNat : Int) >>> 40) % 256 = _ := shr_byte64 x 5
  have h4 : ((x.toNat : Int) >>> 32) % 256 = _ := shr_byte64 x 4
  have h3 : ((x.toNat : Int) >>> 24) % 256 = _ := shr_byte64 x 3
  have h2 : ((x.toNat : Int) >>> 16) % 256 = _ := shr_byte64 x 2
  have h1 : ((x.toNat : Int) >>> 8) % 256 = _ := shr_byte64 x 1
  simp only [putLE64, h7, h6, h5, h4, h3, h2, h1, mod_byte64, Enc.le64, List.map_cons, List.map_nil, byteVal]

/-- the answer to `Put…(out, v)`: the stored bytes, bound to the element leaves by `withStoreTargets` -/
def putAns (put : Int → List Val) : List Val → Option (List Val)
  | [_, .int v] => some (put v)
  | _ => none
theorem putAns_int (put : Int → List Val) (o : Val) (v : Int) : putAns put [o, .int v] = some (put v) := by
  exact id rfl

/-- `Uint32` / `Uint64` of encoding/binary: the bounds check `_ = b[3]` (`b[7]`) first (a shorter slice
    panics: `none`), then the bytes combined by `|` and `<<`:
    `bigEndian.Uint32(b) = uint32(b[3]) | uint32(b[2])<<8 | uint32(b[1])<<16 | uint32(b[0])<<24` -/
def beU32 : Bytes → Option Nat
  | b0 :: b1 :: b2 :: b3 :: _ => some (b3.toNat ||| b2.toNat <<< 8 ||| b1.toNat <<< 16 ||| b0.toNat <<< 24)
  | _ => none
/-- `littleEndian.Uint32(b) = uint32(b[0]) | uint32(b[1])<<8 | uint32(b[2])<<16 | uint32(b[3])<<24` -/
def leU32 : Bytes → Option Nat
  | b0 :: b1 :: b2 :: b3 :: _ => some (b0.toNat ||| b1.toNat <<< 8 ||| b2.toNat <<< 16 ||| b3.toNat <<< 24)
  | _ => none
/-- `bigEndian.Uint64(b) = uint64(b[7]) | uint64(b[6])<<8 | … | uint64(b[0])<<56` -/
def beU64 : Bytes → Option Nat
  | b0 :: b1 :: b2 :: b3 :: b4 :: b5 :: b6 :: b7 :: _ =>
    some (b7.toNat ||| b6.toNat <<< 8 ||| b5.toNat <<< 16 ||| b4.toNat <<< 24 ||| b3.toNat <<< 32 |||
      b2.toNat <<< 40 ||| b1.toNat <<< 48 ||| b0.toNat <<< 56)
  | _ => none
/-- `littleEndian.Uint64(b) = uint64(b[0]) | uint64(b[1])<<8 | … | uint64(b[7])<<56` -/
def leU64 : Bytes → Option Nat
  | b0 :: b1 :: b2 :: b3 :: b4 :: b5 :: b6 :: b7 :: _ =>
    some (b0.toNat ||| b1.toNat <<< 8 ||| b2.toNat <<< 16 ||| b3.toNat <<< 24 ||| b4.toNat <<< 32 |||
      b5.toNat <<< 40 ||| b6.toNat <<< 48 ||| b7.toNat <<< 56)
  | _ => none

/-- `a | x << k` for `a < 2^k` is `x * 2^k + a` -/
theorem lor_shl (a x k : Nat) (h : a < 2 ^ k) : a ||| x <<< k = x * 2 ^ k + a := by
  rw [Nat.or_comm, ← Nat.shiftLeft_add_eq_or_of_lt h, Nat.shiftLeft_eq]

/-- four bytes combined by `|` and `<<`, most significant `a` -/
theorem lor4 (a b c d : Nat) (ha : a < 256) (hb : b < 256) (hc : c < 256) (hd : d < 256) :
    d ||| c <<< 8 ||| b <<< 16 ||| a <<< 24 = ((a * 256 + b) * 256 + c) * 256 + d := by
  have e1 := lor_shl d c 8 (by omega)
  rw [e1]
  have e2 := lor_shl (c * 2 ^ 8 + d) b 16 (by omega)
  rw [e2]
  have e3 := lor_shl (b * 2 ^ 16 + (c * 2 ^ 8 + d)) a 24 (by omega)
  rw [e3]
  omega

/-- eight bytes combined by `|` and `<<`, most significant `a` -/
theorem lor8 (a b c d e f g h : Nat) (ha : a < 256) (hb : b < 256) (hc : c < 256) (hd : d < 256)
    (he : e < 256) (hf : f < 256) (hg : g < 256) (hh : h < 256) :
    h ||| g <<< 8 ||| f <<< 16 ||| e <<< 24 ||| d <<< 32 ||| c <<< 40 ||| b <<< 48 ||| a <<< 56 =
      ((((((a * 256 + b) * 256 + c) * 256 + d) * 256 + e) * 256 + f) * 256 + g) * 256 + h := by
  have e1 := lor_shl h g 8 (by omega)
  rw [e1]
  have e2 := lor_shl (g * 2 ^ 8 + h) f 16 (by omega)
  rw [e2]
  have e3 := lor_shl (f * 2 ^ 16 + (g * 2 ^ 8 + h)) e 24 (by omega)
  rw [e3]
  have e4 := lor_shl (e * 2 ^ 24 + (f * 2 ^ 16 + (g * 2 ^ 8 + h))) d 32 (by omega)
  rw [e4]
  have e5 := lor_shl (d * 2 ^ 32 + (e * 2 ^ 24 + (f * 2 ^ 16 + (g * 2 ^ 8 + h)))) c 40 (by omega)
  rw [e5]
  have e6 := lor_shl (c * 2 ^ 40 + (d * 2 ^ 32 + (e * 2 ^ 24 + (f * 2 ^ 16 + (g * 2 ^ 8 + h))))) b 48 (by omega)
  rw [e6]
  have e7 := lor_shl (b * 2 ^ 48 + (c * 2 ^ 40 + (d * 2 ^ 32 + (e * 2 ^ 24 + (f * 2 ^ 16 + (g * 2 ^ 8 + h)))))) a 56
    (by omega)
  rw [e7]
  omega

theorem beU32_four (a b c d : Byte) : beU32 [a, b, c, d] = some (Enc.mk32 a b c d).toNat := by
  show some _ = some _
  rw [EncLemmas.toNat_mk32, lor4 _ _ _ _ a.isLt b.isLt c.isLt d.isLt]
theorem leU32_four (a b c d : Byte) : leU32 [a, b, c, d] = some (Enc.mk32 d c b a).toNat := by
  show some _ = some _
  rw [EncLemmas.toNat_mk32, lor4 _ _ _ _ d.isLt c.isLt b.isLt a.isLt]
theorem beU64_eight (a b c d e f g h : Byte) :
    beU64 [a, b, c, d, e, f, g, h] = some (Enc.mk64 a b c d e f g h).toNat := by
  show some _ = some _
  rw [EncLemmas.toNat_mk64, lor8 _ _ _ _ _ _ _ _ a.isLt b.isLt c.isLt d.isLt e.isLt f.isLt g.isLt h.isLt]
theorem leU64_eight (a b c d e f g h : Byte) :
    leU64 [a, b, c, d, e, f, g, h] = some (Enc.mk64 h g f e d c b a).toNat := by
  show some _ = some _
  rw [EncLemmas.toNat_mk64, lor8 _ _ _ _ _ _ _ _ h.isLt g.isLt f.isLt e.isLt d.isLt c.isLt b.isLt a.isLt]

/-! ### 3. the world of the decoders -/

/-- is the value an integer -/
def valIsInt : Val → Bool
  | .int _ => true
  | _ => false

/-- the bytes of a list of `byte` values (`none`: some value is not an integer); `.int v` stands for the byte
    `BitVec.ofInt 8 v` (values of Go type `byte` are in range) -/
def bytesOfVals : List Val → Option Bytes
  | [] => some []
  | .int v :: r => (bytesOfVals r).map (BitVec.ofInt 8 v :: ·)
  | _ :: _ => none

theorem bytesOfVals_nil : bytesOfVals [] = some [] := by exact id rfl
theorem bytesOfVals_cons_byte (b : Byte) (r : List Val) :
    bytesOfVals (.int (b.toNat : Int) :: r) = (bytesOfVals r).map (b :: ·) := by
  show (bytesOfVals r).map (BitVec.ofInt 8 (b.toNat : Int) :: ·) = _
  rw [byteOfInt_toNat]

/-- the object of `in[lo:hi]` for the input `bs`: Go panics unless `0 ≤ lo ≤ hi ≤ cap(in)`; convention
    `cap(in) = len(in)` (as in Model/Encoding.lean) -/
def sliceObj (bs : Bytes) : List Val → Option Bytes
  | [_, .int lo, .int hi] =>
    if 0 ≤ lo ∧ lo ≤ hi ∧ hi ≤ (bs.length : Int) then some ((bs.drop lo.toNat).take (hi.toNat - lo.toNat))
    else none
  | _ => none

theorem sliceObj_split (pre mid rest : Bytes) (o : Val) :
    sliceObj (pre ++ mid ++ rest) [o, .int (pre.length : Int), .int ((pre.length + mid.length : Nat) : Int)]
      = some mid := by
  have h : (0 : Int) ≤ (pre.length : Int) ∧ (pre.length : Int) ≤ ((pre.length + mid.length : Nat) : Int) ∧
      ((pre.length + mid.length : Nat) : Int) ≤ ((pre ++ mid ++ rest).length : Int) := by
    simp only [List.length_append]; omega
  simp only [sliceObj]
  rw [if_pos h]
  simp only [Int.toNat_natCast, Nat.add_sub_cancel_left, List.append_assoc, List.drop_left, List.take_left]

theorem sliceObj_short (bs : Bytes) (o : Val) (lo hi : Nat) (h : bs.length < hi) :
    sliceObj bs [o, .int (lo : Int), .int (hi : Int)] = none := by
  have h' : ¬ ((0 : Int) ≤ (lo : Int) ∧ (lo : Int) ≤ (hi : Int) ∧ (hi : Int) ≤ (bs.length : Int)) := by omega
  simp only [sliceObj, h', ↓reduceIte]

/-- the byte string a log entry denotes: `slice` a part of the input, `bytes` its arguments -/
def wideObjOfCall (bs : Bytes) (c : String × List Val) : Option Bytes :=
  if c.1 = "slice" then sliceObj bs c.2 else if c.1 = "bytes" then bytesOfVals c.2 else none

theorem wideObjOfCall_slice (bs : Bytes) (args : List Val) :
    wideObjOfCall bs ("slice", args) = sliceObj bs args := by exact id rfl
theorem wideObjOfCall_bytes (bs : Bytes) (args : List Val) :
    wideObjOfCall bs ("bytes", args) = bytesOfVals args := by exact id rfl

/-- the object a handle value denotes in a log -/
def wideObj (bs : Bytes) (cs : Calls) : Val → Option Bytes
  | .int h => if 0 ≤ h then (cs[h.toNat]?).bind (wideObjOfCall bs) else none
  | _ => none

theorem wideObj_snoc (bs : Bytes) (cs : Calls) (c : String × List Val) :
    wideObj bs (cs ++ [c]) (.int (cs.length : Int)) = wideObjOfCall bs c := by
  simp only [wideObj, Int.natCast_nonneg, ↓reduceIte, Int.toNat_natCast, List.getElem?_concat_length,
    Option.bind_some]

/-- `in[lo:hi]`: a new handle when the bounds are fine, a panic (`none`) otherwise -/
def sliceAnsW (bs : Bytes) (h : Nat) (args : List Val) : Option (List Val) :=
  (sliceObj bs args).map (fun _ => [.int (h : Int)])
/-- `[]byte{a, b, …}`: a new handle when every element has a value -/
def bytesAnsW (h : Nat) (args : List Val) : Option (List Val) :=
  if args.all valIsInt = true then some [.int (h : Int)] else none
/-- `binary.….Uint32(b)` / `Uint64(b)`: the transcription `rd` on the object of the handle -/
def uintAns (rd : Bytes → Option Nat) (obj : Option Bytes) : Option (List Val) :=
  (obj.bind rd).map (fun (n : Nat) => [Val.int (n : Int)])
/-- `append(out, v)`: answered with the opaque slice when `v` has a value -/
def appendAnsW : List Val → Option (List Val)
  | [_, .int _] => some [.sym "out"]
  | _ => none

theorem sliceAnsW_some (bs h args b) (hs : sliceObj bs args = some b) :
    sliceAnsW bs h args = some [.int (h : Int)] := by simp only [sliceAnsW, hs, Option.map_some]
theorem sliceAnsW_none (bs h args) (hs : sliceObj bs args = none) : sliceAnsW bs h args = none := by
  simp only [sliceAnsW, hs, Option.map_none]
theorem bytesAnsW_int4 (h : Nat) (a b c d : Int) :
    bytesAnsW h [.int a, .int b, .int c, .int d] = some [.int (h : Int)] := by exact id rfl
theorem bytesAnsW_int8 (h : Nat) (a b c d e f g i : Int) :
    bytesAnsW h [.int a, .int b, .int c, .int d, .int e, .int f, .int g, .int i] = some [.int (h : Int)] := by
  exact id rfl
/-- the second element has no value (index out of range) -/
theorem bytesAnsW_unk (h : Nat) (a : Val) (r : List Val) : bytesAnsW h (a :: .unk :: r) = none := by
  cases a <;> simp [bytesAnsW, valIsInt]
theorem uintAns_some (rd : Bytes → Option Nat) (b : Bytes) (n : Nat) (h : rd b = some n) :
    uintAns rd (some b) = some [.int (n : Int)] := by simp only [uintAns, Option.bind_some, h, Option.map_some]
theorem appendAnsW_int (o : Val) (v : Int) : appendAnsW [o, .int v] = some [.sym "out"] := by exact id rfl

/-- the leaf `in[i+k]` for the VALUE of `i`: the byte at that position, `unk` outside the input (Go: index out
    of range panic when it is read) -/
def probeAt (bs : Bytes) (i : Val) (k : Nat) : Val :=
  match i with
  | .int v => if 0 ≤ v then (match bs[v.toNat + k]? with | some b => byteVal b | none => .unk) else .unk
  | _ => .unk

theorem probeAt_some {bs : Bytes} {j k : Nat} {b : Byte} (h : bs[j + k]? = some b) :
    probeAt bs (.int (j : Int)) k = .int (b.toNat : Int) := by
  simp only [probeAt, Int.natCast_nonneg, ↓reduceIte, Int.toNat_natCast, h, byteVal]
theorem probeAt_none {bs : Bytes} {j k : Nat} (h : bs[j + k]? = none) :
    probeAt bs (.int (j : Int)) k = .unk := by
  simp only [probeAt, Int.natCast_nonneg, ↓reduceIte, Int.toNat_natCast, h]

def probe4 (bs : Bytes) (i : Val) : List Val := [probeAt bs i 0, probeAt bs i 1, probeAt bs i 2, probeAt bs i 3]
def probe8 (bs : Bytes) (i : Val) : List Val :=
  [probeAt bs i 0, probeAt bs i 1, probeAt bs i 2, probeAt bs i 3,
   probeAt bs i 4, probeAt bs i 5, probeAt bs i 6, probeAt bs i 7]

/-- the world the decoders run in, for the input bytes `bs` -/
def wideWorld (bs : Bytes) : World := fun cs f args =>
  if f = "slice" then sliceAnsW bs cs.length args
  else if f = "bytes" then bytesAnsW cs.length args
  else if f = "binary.BigEndian.Uint32" then uintAns beU32 (wideObj bs cs (args.headD .unk))
  else if f = "binary.LittleEndian.Uint32" then uintAns leU32 (wideObj bs cs (args.headD .unk))
  else if f = "binary.BigEndian.Uint64" then uintAns beU64 (wideObj bs cs (args.headD .unk))
  else if f = "binary.LittleEndian.Uint64" then uintAns leU64 (wideObj bs cs (args.headD .unk))
  else if f = "append" then appendAnsW args
  else if f = "#in[i+0..3]" then some (probe4 bs (args.headD .unk))
  else if f = "#in[i+0..7]" then some (probe8 bs (args.headD .unk))
  else none

section world
variable (bs : Bytes) (cs : Calls) (args : List Val)
theorem wideWorld_slice : wideWorld bs cs "slice" args = sliceAnsW bs cs.length args := by exact id rfl
theorem wideWorld_bytes : wideWorld bs cs "bytes" args = bytesAnsW cs.length args := by exact id rfl
theorem wideWorld_be32 : wideWorld bs cs "binary.BigEndian.Uint32" args =
    uintAns beU32 (wideObj bs cs (args.headD .unk)) := by exact id rfl
theorem wideWorld_le32 : wideWorld bs cs "binary.LittleEndian.Uint32" args =
    uintAns leU32 (wideObj bs cs (args.headD .unk)) := by exact id rfl
theorem wideWorld_be64 : wideWorld bs cs "binary.BigEndian.Uint64" args =
    uintAns beU64 (wideObj bs cs (args.headD .unk)) := by exact id rfl
theorem wideWorld_le64 : wideWorld bs cs "binary.LittleEndian.Uint64" args =
    uintAns leU64 (wideObj bs cs (args.headD .unk)) := by exact id rfl
theorem wideWorld_append : wideWorld bs cs "append" args = appendAnsW args := by exact id rfl
theorem wideWorld_probe4 : wideWorld bs cs "#in[i+0..3]" args = some (probe4 bs (args.headD .unk)) := by
  exact id rfl
theorem wideWorld_probe8 : wideWorld bs cs "#in[i+0..7]" args = some (probe8 bs (args.headD .unk)) := by
  exact id rfl
end world

/-- the values appended to `out`, in order, read off a log -/
def wideAppended (cs : Calls) : List Val :=
  (cs.filter (fun c => c.1 == "append")).map (fun c => c.2.getD 1 .unk)

theorem wideAppended_nil : wideAppended [] = [] := by exact id rfl
theorem wideAppended_snoc_append (cs : Calls) (o v : Val) :
    wideAppended (cs ++ [("append", [o, v])]) = wideAppended cs ++ [v] := by
  simp [wideAppended, List.filter_append]
theorem wideAppended_snoc_other (cs : Calls) (f : String) (args : List Val) (h : f ≠ "append") :
    wideAppended (cs ++ [(f, args)]) = wideAppended cs := by
  simp [wideAppended, List.filter_append, h]

/-- the argument lists of the calls to `f` in a log, in order -/
def wideArgs (f : String) (cs : Calls) : List (List Val) := (cs.filter (fun c => c.1 == f)).map (·.2)

theorem wideArgs_snoc_other (f : String) (cs : Calls) (g : String) (args : List Val) (h : g ≠ f) :
    wideArgs f (cs ++ [(g, args)]) = wideArgs f cs := by
  simp [wideArgs, List.filter_append, h]
theorem wideArgs_eq_argsOf (f : String) (r : Res) : wideArgs f r.calls = r.argsOf f := by rfl

theorem wide_word_ne2 {w : Int} (h : ¬ w = 2) : ¬ wordOfInt w = .lowFirst := by
  unfold wordOfInt
  by_cases h1 : w = 1
  · rw [if_pos h1]; exact fun h => nomatch h
  · rw [if_neg h1, if_neg h]; exact fun h => nomatch h
theorem wide_word_ne1 {w : Int} (h : ¬ w = 1) : ¬ wordOfInt w = .highFirst := by
  unfold wordOfInt
  rw [if_neg h]
  by_cases h2 : w = 2
  · rw [if_pos h2]; exact fun h => nomatch h
  · rw [if_neg h2]; exact fun h => nomatch h
theorem wide_endian_invalid {e : Int} (h1 : ¬ e = 1) (h2 : ¬ e = 2) : endianOfInt e = .invalid := by
  unfold endianOfInt; rw [if_neg h1, if_neg h2]

/-- what the loops keep: the counter, the length leaf, the selectors, the opaque slices -/
def DecInv (env : Env) (j n : Nat) (e w : Int) : Prop :=
  Env.read? env "i" = some (.int (j : Int)) ∧ Env.read? env "len(in)" = some (.int (n : Int)) ∧
  Env.read? env "endianness" = some (.int e) ∧ Env.read? env "wordOrder" = some (.int w) ∧
  Env.read? env "out" = some (.sym "out") ∧ Env.read? env "in" = some (.sym "in")

/-! ### running loops piece by piece, from facts about the round -/

variable (W : World)

theorem execFromW_loop_fell' {n : Nat} {b : GStmt} {env : Env} {cs : Calls}
    (h : (execFromW W n b env cs).how = .fell) :
    execFromW W (n+1) (.loop b) env cs =
      execFromW W n (.loop b) (execFromW W n b env cs).env (execFromW W n b env cs).calls := by
  rw [execFromW_loop]; unfold loopKW; rw [h]
theorem execFromW_loop_broke' {n : Nat} {b : GStmt} {env : Env} {cs : Calls}
    (h : (execFromW W n b env cs).how = .broke) :
    execFromW W (n+1) (.loop b) env cs = { execFromW W n b env cs with how := .fell } := by
  rw [execFromW_loop]; unfold loopKW; rw [h]
theorem execFromW_loop_stopped' {n : Nat} {b : GStmt} {env : Env} {cs : Calls} {f : String} {a : List Val}
    (h : (execFromW W n b env cs).how = .stoppedAt f a) :
    execFromW W (n+1) (.loop b) env cs = execFromW W n b env cs := by
  rw [execFromW_loop]; unfold loopKW; rw [h]

/-! ### 4. `bytesToUint32s`: the instrumented term, one round -/

def dec32Leaves : List String := ["in[i+0]", "in[i+1]", "in[i+2]", "in[i+3]"]

/-- `gsp_bytesToUint32s` with the four indexed leaves re-bound from the probe `#in[i+0..3]` (argument: the current
    value of `i`) at the head of every loop body -/
def dec32Gs : GStmt := withLeaves dec32Leaves "#in[i+0..3]" "i" gsp_bytesToUint32s

def dec32Probe : GStmt := .bindCall dec32Leaves "#in[i+0..3]" [.var "i" .int]

/-- the `switch endianness` of one round (body of the translator's one-shot loop) -/
def dec32Switch : GStmt :=
  (.ite (.cmp "==" (.var "endianness" .uint) (.lit (1) .uint))
    (.ite (.cmp "==" (.var "wordOrder" .uint) (.lit (1) .uint))
      (.seq (.bindCall ["#arg3"] "slice" [(.var "in" .other), (.var "i" .int), (.bin "+" .int (.var "i" .int) (.lit (4) .int))])
        (.bindCall ["u32"] "binary.BigEndian.Uint32" [(.var "#arg3" .other)]))
      (.seq (.bindCall ["#arg2"] "bytes" [(.var "in[i+2]" .u8), (.var "in[i+3]" .u8), (.var "in[i+0]" .u8), (.var "in[i+1]" .u8)])
        (.bindCall ["u32"] "binary.BigEndian.Uint32" [(.var "#arg2" .other)])))
    (.ite (.cmp "==" (.var "endianness" .uint) (.lit (2) .uint))
      (.ite (.cmp "==" (.var "wordOrder" .uint) (.lit (2) .uint))
        (.seq (.bindCall ["#arg1"] "slice" [(.var "in" .other), (.var "i" .int), (.bin "+" .int (.var "i" .int) (.lit (4) .int))])
          (.bindCall ["u32"] "binary.LittleEndian.Uint32" [(.var "#arg1" .other)]))
        (.seq (.bindCall ["#arg0"] "bytes" [(.var "in[i+2]" .u8), (.var "in[i+3]" .u8), (.var "in[i+0]" .u8), (.var "in[i+1]" .u8)])
          (.bindCall ["u32"] "binary.LittleEndian.Uint32" [(.var "#arg0" .other)])))
      .skip))

/-- the body of the `for` loop -/
def dec32Body : GStmt :=
  .seq dec32Probe
    (.ite (.cmp "<" (.var "i" .int) (.var "len(in)" .int))
      (.seq (.seq (.loop (.seq dec32Probe (.seq dec32Switch .brk)))
              (.bindCall ["out"] "append" [(.var "out" .other), (.var "u32" .u32)]))
        (.assign "i" (.bin "+" .int (.var "i" .int) (.lit (4) .int))))
      .brk)

theorem dec32Gs_eq : dec32Gs = .seq (.seq (.assign "i" (.lit (0) .int)) (.loop dec32Body)) .ret := by rfl

theorem strip_dec32Gs : stripLeaves "#in[i+0..3]" dec32Gs = gsp_bytesToUint32s := by rfl

/-- `go_evalW` with the lemmas of the decoder world -/
syntax "wide_dec_eval" (" [" Lean.Parser.Tactic.simpLemma,* "]")? : tactic
macro_rules
  | `(tactic| wide_dec_eval) => `(tactic| wide_dec_eval [])
  | `(tactic| wide_dec_eval [$ls,*]) => `(tactic| go_evalW [Modbus.GoEval.wideWorld_slice,
      Modbus.GoEval.wideWorld_bytes, Modbus.GoEval.wideWorld_be32, Modbus.GoEval.wideWorld_le32,
      Modbus.GoEval.wideWorld_be64, Modbus.GoEval.wideWorld_le64, Modbus.GoEval.wideWorld_append,
      Modbus.GoEval.wideWorld_probe4, Modbus.GoEval.wideWorld_probe8, Modbus.GoEval.probe4,
      Modbus.GoEval.probe8, Modbus.GoEval.wideObj_snoc, Modbus.GoEval.wideObjOfCall_slice,
      Modbus.GoEval.wideObjOfCall_bytes, Modbus.GoEval.bytesOfVals_nil, Modbus.GoEval.bytesOfVals_cons_byte,
      Modbus.GoEval.bytesAnsW_int4, Modbus.GoEval.bytesAnsW_int8, Modbus.GoEval.bytesAnsW_unk,
      Modbus.GoEval.appendAnsW_int, Modbus.GoEval.wideAppended_snoc_append,
      Modbus.GoEval.wideAppended_snoc_other, Modbus.GoEval.wideArgs_snoc_other, Modbus.GoEval.write_def, Option.map_some, Int.reduceEq,
      Modbus.GoEval.DecInv, $ls,*])

section round32
variable (bs : Bytes) (env : Env) (cs : Calls) (j n : Nat) (e w : Int) (m : Nat)

/-- a complete round: four bytes at `j`; the value appended is the model's `u32OfBytes` -/
theorem dec32_round (b0 b1 b2 b3 : Byte) (he : e = 1 ∨ e = 2) (hn : n < 2^62) (hj : j + 4 ≤ n)
    (hinv : DecInv env j n e w)
    (g0 : bs[j + 0]? = some b0) (g1 : bs[j + 1]? = some b1) (g2 : bs[j + 2]? = some b2)
    (g3 : bs[j + 3]? = some b3)
    (hs : sliceObj bs [.sym "in", .int (j : Int), .int ((j + 4 : Nat) : Int)] = some [b0, b1, b2, b3]) :
    let r := execFromW (wideWorld bs) (m + 14) dec32Body env cs
    r.how = .fell ∧ DecInv r.env (j + 4) n e w ∧
    wideAppended r.calls = wideAppended cs ++
      [.int ((Enc.u32OfBytes (endianOfInt e) (wordOfInt w) b0 b1 b2 b3).toNat : Int)] := by
  obtain ⟨h1, h2, h3, h4, h5, h6⟩ := hinv
  have hlt : (j : Int) < (n : Int) := by omega
  have hw4 : ((j : Int) + 4 + 9223372036854775808) % 18446744073709551616 - 9223372036854775808 =
      ((j + 4 : Nat) : Int) := by omega
  have p0 := probeAt_some g0
  have p1 := probeAt_some g1
  have p2 := probeAt_some g2
  have p3 := probeAt_some g3
  have sA := fun h => sliceAnsW_some bs h _ _ hs
  have ub := uintAns_some beU32 _ _ (beU32_four b0 b1 b2 b3)
  have ub' := uintAns_some beU32 _ _ (beU32_four b2 b3 b0 b1)
  have ul := uintAns_some leU32 _ _ (leU32_four b0 b1 b2 b3)
  have ul' := uintAns_some leU32 _ _ (leU32_four b2 b3 b0 b1)
  rcases he with he | he
  · subst he
    by_cases hw : w = 1
    · subst hw
      wide_dec_eval [dec32Body, dec32Probe, dec32Switch, dec32Leaves, h1, h2, h3, h4, h5, h6, hlt, hw4, p0, p1, p2,
        p3, sA, hs, ub, endianOfInt_1, wordOfInt_1, Enc.u32OfBytes]
    · wide_dec_eval [dec32Body, dec32Probe, dec32Switch, dec32Leaves, h1, h2, h3, h4, h5, h6, hlt, hw4, p0, p1, p2,
        p3, ub', endianOfInt_1, hw, wide_word_ne1 hw, Enc.u32OfBytes]
  · subst he
    by_cases hw : w = 2
    · subst hw
      wide_dec_eval [dec32Body, dec32Probe, dec32Switch, dec32Leaves, h1, h2, h3, h4, h5, h6, hlt, hw4, p0, p1, p2,
        p3, sA, hs, ul, endianOfInt_2, wordOfInt_2, Enc.u32OfBytes]
    · wide_dec_eval [dec32Body, dec32Probe, dec32Switch, dec32Leaves, h1, h2, h3, h4, h5, h6, hlt, hw4, p0, p1, p2,
        p3, ul', endianOfInt_2, hw, wide_word_ne2 hw, Enc.u32OfBytes]

/-- the round at the end of the input: `break` -/
theorem dec32_exit (hj : n ≤ j) (hinv : DecInv env j n e w) :
    let r := execFromW (wideWorld bs) (m + 14) dec32Body env cs
    r.how = .broke ∧ wideAppended r.calls = wideAppended cs := by
  obtain ⟨h1, h2, h3, h4, h5, h6⟩ := hinv
  have hlt : ¬ (j : Int) < (n : Int) := by omega
  wide_dec_eval [dec32Body, dec32Probe, dec32Switch, dec32Leaves, h1, h2, h3, h4, h5, h6, hlt]

/-- the round that runs off the end of the input (1 to 3 bytes left): the run stops at the slice expression
    `in[i:i+4]` (Go: slice bounds out of range) or at the byte literal that needs `in[i+3]` (Go: index out of
    range); nothing is appended -/
theorem dec32_short (he : e = 1 ∨ e = 2) (hn : n < 2^62) (hj : j < n) (hj4 : n < j + 4) (hlen : bs.length = n)
    (hinv : DecInv env j n e w) :
    let r := execFromW (wideWorld bs) (m + 14) dec32Body env cs
    (∃ args, r.how = .stoppedAt "slice" args ∨ r.how = .stoppedAt "bytes" args) ∧
    wideAppended r.calls = wideAppended cs := by
  obtain ⟨h1, h2, h3, h4, h5, h6⟩ := hinv
  have hlt : (j : Int) < (n : Int) := by omega
  have hw4 : ((j : Int) + 4 + 9223372036854775808) % 18446744073709551616 - 9223372036854775808 =
      ((j + 4 : Nat) : Int) := by omega
  have g3 : bs[j + 3]? = none := List.getElem?_eq_none (by omega)
  have p3 := probeAt_none g3
  have hs := sliceObj_short bs (.sym "in") j (j + 4) (by omega)
  have sA := fun h => sliceAnsW_none bs h _ hs
  rcases he with he | he
  · subst he
    by_cases hw : w = 1
    · subst hw
      wide_dec_eval [dec32Body, dec32Probe, dec32Switch, dec32Leaves, h1, h2, h3, h4, h5, h6, hlt, hw4, p3, sA]
      exact ⟨_, Or.inl rfl⟩
    · wide_dec_eval [dec32Body, dec32Probe, dec32Switch, dec32Leaves, h1, h2, h3, h4, h5, h6, hlt, hw4, p3, hw]
      exact ⟨_, Or.inr rfl⟩
  · subst he
    by_cases hw : w = 2
    · subst hw
      wide_dec_eval [dec32Body, dec32Probe, dec32Switch, dec32Leaves, h1, h2, h3, h4, h5, h6, hlt, hw4, p3, sA]
      exact ⟨_, Or.inl rfl⟩
    · wide_dec_eval [dec32Body, dec32Probe, dec32Switch, dec32Leaves, h1, h2, h3, h4, h5, h6, hlt, hw4, p3, hw]
      exact ⟨_, Or.inr rfl⟩

end round32

/-! ### 5. `bytesToUint32s`: all rounds -/

/-- a 32 / 64-bit value as an evaluator value -/
def u32Val (v : U32) : Val := .int (v.toNat : Int)
def u64Val (v : U64) : Val := .int (v.toNat : Int)

/-- the values of the COMPLETE four-byte groups of a byte string, in order (a remainder of 1 to 3 bytes is
    ignored) -/
def wideChunks32 (e : Endian) (w : WordOrder) : Bytes → List U32
  | i0 :: i1 :: i2 :: i3 :: rest => Enc.u32OfBytes e w i0 i1 i2 i3 :: wideChunks32 e w rest
  | _ => []

theorem wideChunks32_cons (e w) (i0 i1 i2 i3 : Byte) (rest : Bytes) :
    wideChunks32 e w (i0 :: i1 :: i2 :: i3 :: rest) = Enc.u32OfBytes e w i0 i1 i2 i3 :: wideChunks32 e w rest := by
  rw [wideChunks32]

/-- the model decoder is "all complete groups" when the length is a multiple of 4, `none` otherwise -/
theorem bytesToUint32s_chunks (e : Endian) (w : WordOrder) : (bs : Bytes) →
    Enc.bytesToUint32s e w bs = if bs.length % 4 = 0 then some (wideChunks32 e w bs) else none
  | [] => by rfl
  | [_] => by rfl
  | [_, _] => by rfl
  | [_, _, _] => by rfl
  | i0 :: i1 :: i2 :: i3 :: rest => by
    have ih := bytesToUint32s_chunks e w rest
    have hl : (i0 :: i1 :: i2 :: i3 :: rest).length % 4 = rest.length % 4 := by
      simp only [List.length_cons]; omega
    rw [Enc.bytesToUint32s, ih, hl, wideChunks32_cons]
    by_cases h : rest.length % 4 = 0
    · rw [if_pos h, if_pos h]
    · rw [if_neg h, if_neg h]

theorem get_split (pre mid rest : Bytes) (k : Nat) (b : Byte) (h : mid[k]? = some b) :
    (pre ++ mid ++ rest)[pre.length + k]? = some b := by
  have hk : k < mid.length := (List.getElem?_eq_some_iff.mp h).1
  rw [List.append_assoc, List.getElem?_append_right (by omega), Nat.add_sub_cancel_left,
    List.getElem?_append_left hk, h]

theorem dec32_loop (bs : Bytes) (hn : bs.length < 2^62) (e w : Int) (he : e = 1 ∨ e = 2) :
    ∀ (k : Nat) (pre rest : Bytes) (env : Env) (cs : Calls) (fuel : Nat),
      bs = pre ++ rest → rest.length / 4 = k → DecInv env pre.length bs.length e w → k + 16 ≤ fuel →
      wideAppended (execFromW (wideWorld bs) fuel (.loop dec32Body) env cs).calls =
        wideAppended cs ++ (wideChunks32 (endianOfInt e) (wordOfInt w) rest).map u32Val ∧
      (rest.length % 4 = 0 → (execFromW (wideWorld bs) fuel (.loop dec32Body) env cs).how = .fell) ∧
      (rest.length % 4 ≠ 0 → ∃ args,
        (execFromW (wideWorld bs) fuel (.loop dec32Body) env cs).how = .stoppedAt "slice" args ∨
        (execFromW (wideWorld bs) fuel (.loop dec32Body) env cs).how = .stoppedAt "bytes" args) := by
  intro k
  induction k with
  | zero =>
    intro pre rest env cs fuel hbs hk hinv hf
    obtain ⟨f, rfl⟩ : ∃ f, fuel = (f + 14) + 1 := ⟨fuel - 15, by omega⟩
    have hlen : bs.length = pre.length + rest.length := by rw [hbs, List.length_append]
    have hr4 : rest.length < 4 := by omega
    by_cases h0 : rest.length = 0
    · have hx := dec32_exit bs env cs pre.length bs.length e w f (by omega) hinv
      have hnil : rest = [] := List.eq_nil_of_length_eq_zero h0
      rw [execFromW_loop_broke' _ hx.1]
      refine ⟨?_, fun _ => rfl, fun h => absurd (by omega) h⟩
      rw [hnil]
      exact hx.2.trans (by simp [wideChunks32])
    · have hx := dec32_short bs env cs pre.length bs.length e w f he hn (by omega) (by omega) rfl hinv
      obtain ⟨⟨args, hs⟩, ha⟩ := hx
      have hch : wideChunks32 (endianOfInt e) (wordOfInt w) rest = [] := by
        rcases rest with _ | ⟨a, _ | ⟨b, _ | ⟨c, _ | ⟨d, rest'⟩⟩⟩⟩
        · rfl
        · rfl
        · rfl
        · rfl
        · simp only [List.length_cons] at hr4; omega
      rcases hs with hs | hs
      · rw [execFromW_loop_stopped' _ hs]
        refine ⟨?_, fun h => absurd h (by omega), fun _ => ⟨args, Or.inl hs⟩⟩
        rw [hch]; exact ha.trans (by simp)
      · rw [execFromW_loop_stopped' _ hs]
        refine ⟨?_, fun h => absurd h (by omega), fun _ => ⟨args, Or.inr hs⟩⟩
        rw [hch]; exact ha.trans (by simp)
  | succ k ih =>
    intro pre rest env cs fuel hbs hk hinv hf
    obtain ⟨f, rfl⟩ : ∃ f, fuel = (f + 14) + 1 := ⟨fuel - 15, by omega⟩
    have hr4 : 4 ≤ rest.length := by omega
    rcases rest with _ | ⟨i0, _ | ⟨i1, _ | ⟨i2, _ | ⟨i3, rest'⟩⟩⟩⟩
    · simp only [List.length_nil] at hr4; omega
    · simp only [List.length_cons, List.length_nil] at hr4; omega
    · simp only [List.length_cons, List.length_nil] at hr4; omega
    · simp only [List.length_cons, List.length_nil] at hr4; omega
    · have hbs' : bs = pre ++ [i0, i1, i2, i3] ++ rest' := by
        rw [hbs]; simp only [List.append_assoc, List.cons_append, List.nil_append]
      have hlen : bs.length = pre.length + 4 + rest'.length := by
        rw [hbs']; simp only [List.length_append, List.length_cons, List.length_nil]
      have hrl : (i0 :: i1 :: i2 :: i3 :: rest').length = rest'.length + 4 := by
        simp only [List.length_cons]
      have g0 : bs[pre.length + 0]? = some i0 := by rw [hbs']; exact get_split _ _ _ 0 _ rfl
      have g1 : bs[pre.length + 1]? = some i1 := by rw [hbs']; exact get_split _ _ _ 1 _ rfl
      have g2 : bs[pre.length + 2]? = some i2 := by rw [hbs']; exact get_split _ _ _ 2 _ rfl
      have g3 : bs[pre.length + 3]? = some i3 := by rw [hbs']; exact get_split _ _ _ 3 _ rfl
      have hs : sliceObj bs [.sym "in", .int (pre.length : Int), .int ((pre.length + 4 : Nat) : Int)]
          = some [i0, i1, i2, i3] := by
        rw [hbs']; exact sliceObj_split pre [i0, i1, i2, i3] rest' (.sym "in")
      have hx := dec32_round bs env cs pre.length bs.length e w f i0 i1 i2 i3 he hn (by omega) hinv
        g0 g1 g2 g3 hs
      obtain ⟨hx1, hx2, hx3⟩ := hx
      rw [execFromW_loop_fell' _ hx1]
      have hpl : (pre ++ [i0, i1, i2, i3]).length = pre.length + 4 := by
        simp only [List.length_append, List.length_cons, List.length_nil]
      obtain ⟨e1, e2, e3⟩ := ih (pre ++ [i0, i1, i2, i3]) rest' _ _ (f + 14) hbs' (by rw [hrl] at hk; omega)
        (by rw [hpl]; exact hx2) (by omega)
      refine ⟨?_, ?_, ?_⟩
      · rw [e1, hx3, wideChunks32_cons, List.map_cons, List.append_assoc]; rfl
      · intro h; exact e2 (by rw [hrl] at h; omega)
      · intro h; exact e3 (by rw [hrl] at h; omega)

theorem wideChunks32_length (e w) : (bs : Bytes) → (wideChunks32 e w bs).length = bs.length / 4
  | [] => by rfl
  | [_] => by simp [wideChunks32]
  | [_, _] => by simp [wideChunks32]
  | [_, _, _] => by simp [wideChunks32]
  | i0 :: i1 :: i2 :: i3 :: rest => by
    rw [wideChunks32_cons, List.length_cons, wideChunks32_length e w rest]
    simp only [List.length_cons]; omega

/-- the whole function: `i = 0`, the loop, `return` -/
theorem dec_whole (W : World) (body : GStmt) (env : Env) (f : Nat) :
    execFromW W (f + 3) (.seq (.seq (.assign "i" (.lit (0) .int)) (.loop body)) .ret) env [] =
      seqKW W (f + 2) .ret (execFromW W (f + 1) (.loop body) (Env.write env "i" (.int 0)) []) := by
  simp only [execFromW_seq, execFromW_assign, panics_lit, eval_lit, seqKW_fell, Bool.false_eq_true, ↓reduceIte]

theorem seqKW_ret_fell (W : World) (n : Nat) (r : Res) (h : r.how = .fell) :
    seqKW W (n + 1) .ret r = ⟨r.env, .returned, r.calls⟩ := by
  unfold seqKW; rw [h]; rfl

/-! ### 6. `bytesToUint64s` -/

def dec64Leaves : List String :=
  ["in[i+0]", "in[i+1]", "in[i+2]", "in[i+3]", "in[i+4]", "in[i+5]", "in[i+6]", "in[i+7]"]

def dec64Gs : GStmt := withLeaves dec64Leaves "#in[i+0..7]" "i" gsp_bytesToUint64s

def dec64Probe : GStmt := .bindCall dec64Leaves "#in[i+0..7]" [.var "i" .int]

def dec64Lit : List GExpr :=
  [(.var "in[i+6]" .u8), (.var "in[i+7]" .u8), (.var "in[i+4]" .u8), (.var "in[i+5]" .u8),
   (.var "in[i+2]" .u8), (.var "in[i+3]" .u8), (.var "in[i+0]" .u8), (.var "in[i+1]" .u8)]

def dec64Switch : GStmt :=
  (.ite (.cmp "==" (.var "endianness" .uint) (.lit (1) .uint))
    (.ite (.cmp "==" (.var "wordOrder" .uint) (.lit (1) .uint))
      (.seq (.bindCall ["#arg3"] "slice" [(.var "in" .other), (.var "i" .int), (.bin "+" .int (.var "i" .int) (.lit (8) .int))])
        (.bindCall ["u64"] "binary.BigEndian.Uint64" [(.var "#arg3" .other)]))
      (.seq (.bindCall ["#arg2"] "bytes" dec64Lit)
        (.bindCall ["u64"] "binary.BigEndian.Uint64" [(.var "#arg2" .other)])))
    (.ite (.cmp "==" (.var "endianness" .uint) (.lit (2) .uint))
      (.ite (.cmp "==" (.var "wordOrder" .uint) (.lit (2) .uint))
        (.seq (.bindCall ["#arg1"] "slice" [(.var "in" .other), (.var "i" .int), (.bin "+" .int (.var "i" .int) (.lit (8) .int))])
          (.bindCall ["u64"] "binary.LittleEndian.Uint64" [(.var "#arg1" .other)]))
        (.seq (.bindCall ["#arg0"] "bytes" dec64Lit)
          (.bindCall ["u64"] "binary.LittleEndian.Uint64" [(.var "#arg0" .other)])))
      .skip))

def dec64Body : GStmt :=
  .seq dec64Probe
    (.ite (.cmp "<" (.var "i" .int) (.var "len(in)" .int))
      (.seq (.seq (.loop (.seq dec64Probe (.seq dec64Switch .brk)))
              (.bindCall ["out"] "append" [(.var "out" .other), (.var "u64" .u64)]))
        (.assign "i" (.bin "+" .int (.var "i" .int) (.lit (8) .int))))
      .brk)

theorem dec64Gs_eq : dec64Gs = .seq (.seq (.assign "i" (.lit (0) .int)) (.loop dec64Body)) .ret := by rfl

theorem strip_dec64Gs : stripLeaves "#in[i+0..7]" dec64Gs = gsp_bytesToUint64s := by rfl

section round64
variable (bs : Bytes) (env : Env) (cs : Calls) (j n : Nat) (e w : Int) (m : Nat)

theorem dec64_round (b0 b1 b2 b3 b4 b5 b6 b7 : Byte) (he : e = 1 ∨ e = 2) (hn : n < 2^62) (hj : j + 8 ≤ n)
    (hinv : DecInv env j n e w)
    (g0 : bs[j + 0]? = some b0) (g1 : bs[j + 1]? = some b1) (g2 : bs[j + 2]? = some b2)
    (g3 : bs[j + 3]? = some b3) (g4 : bs[j + 4]? = some b4) (g5 : bs[j + 5]? = some b5)
    (g6 : bs[j + 6]? = some b6) (g7 : bs[j + 7]? = some b7)
    (hs : sliceObj bs [.sym "in", .int (j : Int), .int ((j + 8 : Nat) : Int)] =
      some [b0, b1, b2, b3, b4, b5, b6, b7]) :
    let r := execFromW (wideWorld bs) (m + 14) dec64Body env cs
    r.how = .fell ∧ DecInv r.env (j + 8) n e w ∧
    wideAppended r.calls = wideAppended cs ++
      [.int ((Enc.u64OfBytes (endianOfInt e) (wordOfInt w) b0 b1 b2 b3 b4 b5 b6 b7).toNat : Int)] := by
  obtain ⟨h1, h2, h3, h4, h5, h6⟩ := hinv
  have hlt : (j : Int) < (n : Int) := by omega
  have hw4 : ((j : Int) + 8 + 9223372036854775808) % 18446744073709551616 - 9223372036854775808 =
      ((j + 8 : Nat) : Int) := by omega
  have p0 := probeAt_some g0
  have p1 := probeAt_some g1
  have p2 := probeAt_some g2
  have p3 := probeAt_some g3
  have p4 := probeAt_some g4
  have p5 := probeAt_some g5
  have p6 := probeAt_some g6
  have p7 := probeAt_some g7
  have sA := fun h => sliceAnsW_some bs h _ _ hs
  have ub := uintAns_some beU64 _ _ (beU64_eight b0 b1 b2 b3 b4 b5 b6 b7)
  have ub' := uintAns_some beU64 _ _ (beU64_eight b6 b7 b4 b5 b2 b3 b0 b1)
  have ul := uintAns_some leU64 _ _ (leU64_eight b0 b1 b2 b3 b4 b5 b6 b7)
  have ul' := uintAns_some leU64 _ _ (leU64_eight b6 b7 b4 b5 b2 b3 b0 b1)
  rcases he with he | he
  · subst he
    by_cases hw : w = 1
    · subst hw
      wide_dec_eval [dec64Body, dec64Probe, dec64Switch, dec64Lit, dec64Leaves, h1, h2, h3, h4, h5, h6, hlt, hw4,
        p0, p1, p2, p3, p4, p5, p6, p7, sA, hs, ub, endianOfInt_1, wordOfInt_1, Enc.u64OfBytes]
    · wide_dec_eval [dec64Body, dec64Probe, dec64Switch, dec64Lit, dec64Leaves, h1, h2, h3, h4, h5, h6, hlt, hw4,
        p0, p1, p2, p3, p4, p5, p6, p7, ub', endianOfInt_1, hw, wide_word_ne1 hw, Enc.u64OfBytes]
  · subst he
    by_cases hw : w = 2
    · subst hw
      wide_dec_eval [dec64Body, dec64Probe, dec64Switch, dec64Lit, dec64Leaves, h1, h2, h3, h4, h5, h6, hlt, hw4,
        p0, p1, p2, p3, p4, p5, p6, p7, sA, hs, ul, endianOfInt_2, wordOfInt_2, Enc.u64OfBytes]
    · wide_dec_eval [dec64Body, dec64Probe, dec64Switch, dec64Lit, dec64Leaves, h1, h2, h3, h4, h5, h6, hlt, hw4,
        p0, p1, p2, p3, p4, p5, p6, p7, ul', endianOfInt_2, hw, wide_word_ne2 hw, Enc.u64OfBytes]

theorem dec64_exit (hj : n ≤ j) (hinv : DecInv env j n e w) :
    let r := execFromW (wideWorld bs) (m + 14) dec64Body env cs
    r.how = .broke ∧ wideAppended r.calls = wideAppended cs := by
  obtain ⟨h1, h2, h3, h4, h5, h6⟩ := hinv
  have hlt : ¬ (j : Int) < (n : Int) := by omega
  wide_dec_eval [dec64Body, dec64Probe, dec64Switch, dec64Lit, dec64Leaves, h1, h2, h3, h4, h5, h6, hlt]

/-- the round that runs off the end of the input (1 to 7 bytes left) -/
theorem dec64_short (he : e = 1 ∨ e = 2) (hn : n < 2^62) (hj : j < n) (hj8 : n < j + 8) (hlen : bs.length = n)
    (hinv : DecInv env j n e w) :
    let r := execFromW (wideWorld bs) (m + 14) dec64Body env cs
    (∃ args, r.how = .stoppedAt "slice" args ∨ r.how = .stoppedAt "bytes" args) ∧
    wideAppended r.calls = wideAppended cs := by
  obtain ⟨h1, h2, h3, h4, h5, h6⟩ := hinv
  have hlt : (j : Int) < (n : Int) := by omega
  have hw4 : ((j : Int) + 8 + 9223372036854775808) % 18446744073709551616 - 9223372036854775808 =
      ((j + 8 : Nat) : Int) := by omega
  have g7 : bs[j + 7]? = none := List.getElem?_eq_none (by omega)
  have p7 := probeAt_none g7
  have hs := sliceObj_short bs (.sym "in") j (j + 8) (by omega)
  have sA := fun h => sliceAnsW_none bs h _ hs
  rcases he with he | he
  · subst he
    by_cases hw : w = 1
    · subst hw
      wide_dec_eval [dec64Body, dec64Probe, dec64Switch, dec64Lit, dec64Leaves, h1, h2, h3, h4, h5, h6, hlt, hw4, p7, sA]
      exact ⟨_, Or.inl rfl⟩
    · wide_dec_eval [dec64Body, dec64Probe, dec64Switch, dec64Lit, dec64Leaves, h1, h2, h3, h4, h5, h6, hlt, hw4, p7, hw]
      exact ⟨_, Or.inr rfl⟩
  · subst he
    by_cases hw : w = 2
    · subst hw
      wide_dec_eval [dec64Body, dec64Probe, dec64Switch, dec64Lit, dec64Leaves, h1, h2, h3, h4, h5, h6, hlt, hw4, p7, sA]
      exact ⟨_, Or.inl rfl⟩
    · wide_dec_eval [dec64Body, dec64Probe, dec64Switch, dec64Lit, dec64Leaves, h1, h2, h3, h4, h5, h6, hlt, hw4, p7, hw]
      exact ⟨_, Or.inr rfl⟩

end round64

def wideChunks64 (e : Endian) (w : WordOrder) : Bytes → List U64
  | i0 :: i1 :: i2 :: i3 :: i4 :: i5 :: i6 :: i7 :: rest =>
    Enc.u64OfBytes e w i0 i1 i2 i3 i4 i5 i6 i7 :: wideChunks64 e w rest
  | _ => []

theorem wideChunks64_cons (e w) (i0 i1 i2 i3 i4 i5 i6 i7 : Byte) (rest : Bytes) :
    wideChunks64 e w (i0 :: i1 :: i2 :: i3 :: i4 :: i5 :: i6 :: i7 :: rest) =
      Enc.u64OfBytes e w i0 i1 i2 i3 i4 i5 i6 i7 :: wideChunks64 e w rest := by
  rw [wideChunks64]

theorem wideChunks64_short (e w) (rest : Bytes) (h : rest.length < 8) : wideChunks64 e w rest = [] := by
  rcases rest with _ | ⟨a, _ | ⟨b, _ | ⟨c, _ | ⟨d, _ | ⟨e', _ | ⟨f, _ | ⟨g, _ | ⟨i, rest'⟩⟩⟩⟩⟩⟩⟩⟩
  · rfl
  · rfl
  · rfl
  · rfl
  · rfl
  · rfl
  · rfl
  · rfl
  · simp only [List.length_cons] at h; omega

theorem bytesToUint64s_short (e w) (rest : Bytes) (h : rest.length < 8) (h0 : rest ≠ []) :
    Enc.bytesToUint64s e w rest = none := by
  rcases rest with _ | ⟨a, _ | ⟨b, _ | ⟨c, _ | ⟨d, _ | ⟨e', _ | ⟨f, _ | ⟨g, _ | ⟨i, rest'⟩⟩⟩⟩⟩⟩⟩⟩
  · exact absurd rfl h0
  · rfl
  · rfl
  · rfl
  · rfl
  · rfl
  · rfl
  · rfl
  · simp only [List.length_cons] at h; omega

theorem bytesToUint64s_chunks (e : Endian) (w : WordOrder) : ∀ (n : Nat) (bs : Bytes), bs.length = n →
    Enc.bytesToUint64s e w bs = if bs.length % 8 = 0 then some (wideChunks64 e w bs) else none := by
  intro n
  induction n using Nat.strongRecOn with
  | _ n ih =>
    intro bs hl
    by_cases h8 : bs.length < 8
    · by_cases h0 : bs = []
      · subst h0; rfl
      · have hne : bs.length ≠ 0 := fun h => h0 (List.eq_nil_of_length_eq_zero h)
        rw [bytesToUint64s_short e w bs h8 h0, if_neg (by omega)]
    · rcases bs with _ | ⟨i0, _ | ⟨i1, _ | ⟨i2, _ | ⟨i3, _ | ⟨i4, _ | ⟨i5, _ | ⟨i6, _ | ⟨i7, rest⟩⟩⟩⟩⟩⟩⟩⟩
      all_goals try (simp only [List.length_cons, List.length_nil] at h8; omega)
      have hl' : (i0 :: i1 :: i2 :: i3 :: i4 :: i5 :: i6 :: i7 :: rest).length = rest.length + 8 := by
        simp only [List.length_cons]
      have ih' := ih rest.length (by omega) rest rfl
      have hm : (rest.length + 8) % 8 = rest.length % 8 := by omega
      rw [Enc.bytesToUint64s, ih', hl', hm, wideChunks64_cons]
      by_cases h : rest.length % 8 = 0
      · rw [if_pos h, if_pos h]
      · rw [if_neg h, if_neg h]

theorem wideChunks64_length (e w) : ∀ (n : Nat) (bs : Bytes), bs.length = n →
    (wideChunks64 e w bs).length = bs.length / 8 := by
  intro n
  induction n using Nat.strongRecOn with
  | _ n ih =>
    intro bs hl
    by_cases h8 : bs.length < 8
    · rw [wideChunks64_short e w bs h8]; simp only [List.length_nil]; omega
    · rcases bs with _ | ⟨i0, _ | ⟨i1, _ | ⟨i2, _ | ⟨i3, _ | ⟨i4, _ | ⟨i5, _ | ⟨i6, _ | ⟨i7, rest⟩⟩⟩⟩⟩⟩⟩⟩
      all_goals try (simp only [List.length_cons, List.length_nil] at h8; omega)
      have hl' : (i0 :: i1 :: i2 :: i3 :: i4 :: i5 :: i6 :: i7 :: rest).length = rest.length + 8 := by
        simp only [List.length_cons]
      rw [wideChunks64_cons, List.length_cons, ih rest.length (by omega) rest rfl, hl']
      omega

theorem dec64_loop (bs : Bytes) (hn : bs.length < 2^62) (e w : Int) (he : e = 1 ∨ e = 2) :
    ∀ (k : Nat) (pre rest : Bytes) (env : Env) (cs : Calls) (fuel : Nat),
      bs = pre ++ rest → rest.length / 8 = k → DecInv env pre.length bs.length e w → k + 16 ≤ fuel →
      wideAppended (execFromW (wideWorld bs) fuel (.loop dec64Body) env cs).calls =
        wideAppended cs ++ (wideChunks64 (endianOfInt e) (wordOfInt w) rest).map u64Val ∧
      (rest.length % 8 = 0 → (execFromW (wideWorld bs) fuel (.loop dec64Body) env cs).how = .fell) ∧
      (rest.length % 8 ≠ 0 → ∃ args,
        (execFromW (wideWorld bs) fuel (.loop dec64Body) env cs).how = .stoppedAt "slice" args ∨
        (execFromW (wideWorld bs) fuel (.loop dec64Body) env cs).how = .stoppedAt "bytes" args) := by
  intro k
  induction k with
  | zero =>
    intro pre rest env cs fuel hbs hk hinv hf
    obtain ⟨f, rfl⟩ : ∃ f, fuel = (f + 14) + 1 := ⟨fuel - 15, by omega⟩
    have hlen : bs.length = pre.length + rest.length := by rw [hbs, List.length_append]
    have hr8 : rest.length < 8 := by omega
    have hch := wideChunks64_short (endianOfInt e) (wordOfInt w) rest hr8
    by_cases h0 : rest.length = 0
    · have hx := dec64_exit bs env cs pre.length bs.length e w f (by omega) hinv
      rw [execFromW_loop_broke' _ hx.1]
      refine ⟨?_, fun _ => rfl, fun h => absurd (by omega) h⟩
      rw [hch]
      exact hx.2.trans (by simp)
    · have hx := dec64_short bs env cs pre.length bs.length e w f he hn (by omega) (by omega) rfl hinv
      obtain ⟨⟨args, hs⟩, ha⟩ := hx
      rcases hs with hs | hs
      · rw [execFromW_loop_stopped' _ hs]
        refine ⟨?_, fun h => absurd h (by omega), fun _ => ⟨args, Or.inl hs⟩⟩
        rw [hch]; exact ha.trans (by simp)
      · rw [execFromW_loop_stopped' _ hs]
        refine ⟨?_, fun h => absurd h (by omega), fun _ => ⟨args, Or.inr hs⟩⟩
        rw [hch]; exact ha.trans (by simp)
  | succ k ih =>
    intro pre rest env cs fuel hbs hk hinv hf
    obtain ⟨f, rfl⟩ : ∃ f, fuel = (f + 14) + 1 := ⟨fuel - 15, by omega⟩
    have hr8 : 8 ≤ rest.length := by omega
    rcases rest with _ | ⟨i0, _ | ⟨i1, _ | ⟨i2, _ | ⟨i3, _ | ⟨i4, _ | ⟨i5, _ | ⟨i6, _ | ⟨i7, rest'⟩⟩⟩⟩⟩⟩⟩⟩
    all_goals try (simp only [List.length_cons, List.length_nil] at hr8; omega)
    have hbs' : bs = pre ++ [i0, i1, i2, i3, i4, i5, i6, i7] ++ rest' := by
      rw [hbs]; simp only [List.append_assoc, List.cons_append, List.nil_append]
    have hlen : bs.length = pre.length + 8 + rest'.length := by
      rw [hbs']; simp only [List.length_append, List.length_cons, List.length_nil]
    have hrl : (i0 :: i1 :: i2 :: i3 :: i4 :: i5 :: i6 :: i7 :: rest').length = rest'.length + 8 := by
      simp only [List.length_cons]
    have g0 : bs[pre.length + 0]? = some i0 := by rw [hbs']; exact get_split _ _ _ 0 _ rfl
    have g1 : bs[pre.length + 1]? = some i1 := by rw [hbs']; exact get_split _ _ _ 1 _ rfl
    have g2 : bs[pre.length + 2]? = some i2 := by rw [hbs']; exact get_split _ _ _ 2 _ rfl
    have g3 : bs[pre.length + 3]? = some i3 := by rw [hbs']; exact get_split _ _ _ 3 _ rfl
    have g4 : bs[pre.length + 4]? = some i4 := by rw [hbs']; exact get_split _ _ _ 4 _ rfl
    have g5 : bs[pre.length + 5]? = some i5 := by rw [hbs']; exact get_split _ _ _ 5 _ rfl
    have g6 : bs[pre.length + 6]? = some i6 := by rw [hbs']; exact get_split _ _ _ 6 _ rfl
    have g7 : bs[pre.length + 7]? = some i7 := by rw [hbs']; exact get_split _ _ _ 7 _ rfl
    have hs : sliceObj bs [.sym "in", .int (pre.length : Int), .int ((pre.length + 8 : Nat) : Int)]
        = some [i0, i1, i2, i3, i4, i5, i6, i7] := by
      rw [hbs']; exact sliceObj_split pre [i0, i1, i2, i3, i4, i5, i6, i7] rest' (.sym "in")
    have hx := dec64_round bs env cs pre.length bs.length e w f i0 i1 i2 i3 i4 i5 i6 i7 he hn (by omega) hinv
      g0 g1 g2 g3 g4 g5 g6 g7 hs
    obtain ⟨hx1, hx2, hx3⟩ := hx
    rw [execFromW_loop_fell' _ hx1]
    have hpl : (pre ++ [i0, i1, i2, i3, i4, i5, i6, i7]).length = pre.length + 8 := by
      simp only [List.length_append, List.length_cons, List.length_nil]
    obtain ⟨e1, e2, e3⟩ := ih (pre ++ [i0, i1, i2, i3, i4, i5, i6, i7]) rest' _ _ (f + 14) hbs'
      (by rw [hrl] at hk; omega) (by rw [hpl]; exact hx2) (by omega)
    refine ⟨?_, ?_, ?_⟩
    · rw [e1, hx3, wideChunks64_cons, List.map_cons, List.append_assoc]; rfl
    · intro h; exact e2 (by rw [hrl] at h; omega)
    · intro h; exact e3 (by rw [hrl] at h; omega)

/-! ### 6b. the decoders with a byte order that is neither constant (out of contract) -/

/-- a round with a byte order that is neither constant: no `case` matches, `u32` keeps its value (the zero value
    of the declaration), which is appended; no element of `in` is read -/
theorem dec32_round_invalid (bs : Bytes) (env : Env) (cs : Calls) (j n : Nat) (e w : Int) (m : Nat)
    (h1e : ¬ e = 1) (h2e : ¬ e = 2) (hn : n < 2^62) (hj : j < n) (hinv : DecInv env j n e w)
    (hu : Env.read? env "u32" = some (.int 0)) :
    let r := execFromW (wideWorld bs) (m + 14) dec32Body env cs
    r.how = .fell ∧ DecInv r.env (j + 4) n e w ∧ Env.read? r.env "u32" = some (.int 0) ∧
    wideAppended r.calls = wideAppended cs ++ [.int 0] := by
  obtain ⟨h1, h2, h3, h4, h5, h6⟩ := hinv
  have hlt : (j : Int) < (n : Int) := by omega
  have hw4 : ((j : Int) + 4 + 9223372036854775808) % 18446744073709551616 - 9223372036854775808 =
      ((j + 4 : Nat) : Int) := by omega
  wide_dec_eval [dec32Body, dec32Probe, dec32Switch, dec32Leaves, h1, h2, h3, h4, h5, h6, hu, hlt, hw4, h1e, h2e]

theorem dec32_loop_invalid (bs : Bytes) (n : Nat) (hn : n < 2^62) (e w : Int) (h1e : ¬ e = 1) (h2e : ¬ e = 2) :
    ∀ (k j : Nat) (env : Env) (cs : Calls) (fuel : Nat),
      (n - j + (4 - 1)) / 4 = k → DecInv env j n e w → Env.read? env "u32" = some (.int 0) → k + 16 ≤ fuel →
      (execFromW (wideWorld bs) fuel (.loop dec32Body) env cs).how = .fell ∧
      wideAppended (execFromW (wideWorld bs) fuel (.loop dec32Body) env cs).calls =
        wideAppended cs ++ List.replicate k (.int 0) := by
  intro k
  induction k with
  | zero =>
    intro j env cs fuel hk hinv hu hf
    obtain ⟨f, rfl⟩ : ∃ f, fuel = (f + 14) + 1 := ⟨fuel - 15, by omega⟩
    have hx := dec32_exit bs env cs j n e w f (by omega) hinv
    rw [execFromW_loop_broke' _ hx.1]
    exact ⟨rfl, hx.2.trans (by simp)⟩
  | succ k ih =>
    intro j env cs fuel hk hinv hu hf
    obtain ⟨f, rfl⟩ : ∃ f, fuel = (f + 14) + 1 := ⟨fuel - 15, by omega⟩
    obtain ⟨hx1, hx2, hx3, hx4⟩ := dec32_round_invalid bs env cs j n e w f h1e h2e hn (by omega) hinv hu
    rw [execFromW_loop_fell' _ hx1]
    obtain ⟨e1, e2⟩ := ih (j + 4) _ _ (f + 14) (by omega) hx2 hx3 (by omega)
    refine ⟨e1, ?_⟩
    rw [e2, hx4, List.append_assoc, List.replicate_succ]; rfl

/-- a round with a byte order that is neither constant: no `case` matches, `u64` keeps its value (the zero value
    of the declaration), which is appended; no element of `in` is read -/
theorem dec64_round_invalid (bs : Bytes) (env : Env) (cs : Calls) (j n : Nat) (e w : Int) (m : Nat)
    (h1e : ¬ e = 1) (h2e : ¬ e = 2) (hn : n < 2^62) (hj : j < n) (hinv : DecInv env j n e w)
    (hu : Env.read? env "u64" = some (.int 0)) :
    let r := execFromW (wideWorld bs) (m + 14) dec64Body env cs
    r.how = .fell ∧ DecInv r.env (j + 8) n e w ∧ Env.read? r.env "u64" = some (.int 0) ∧
    wideAppended r.calls = wideAppended cs ++ [.int 0] := by
  obtain ⟨h1, h2, h3, h4, h5, h6⟩ := hinv
  have hlt : (j : Int) < (n : Int) := by omega
  have hw4 : ((j : Int) + 8 + 9223372036854775808) % 18446744073709551616 - 9223372036854775808 =
      ((j + 8 : Nat) : Int) := by omega
  wide_dec_eval [dec64Body, dec64Probe, dec64Switch, dec64Leaves, h1, h2, h3, h4, h5, h6, hu, hlt, hw4, h1e, h2e]

theorem dec64_loop_invalid (bs : Bytes) (n : Nat) (hn : n < 2^62) (e w : Int) (h1e : ¬ e = 1) (h2e : ¬ e = 2) :
    ∀ (k j : Nat) (env : Env) (cs : Calls) (fuel : Nat),
      (n - j + (8 - 1)) / 8 = k → DecInv env j n e w → Env.read? env "u64" = some (.int 0) → k + 16 ≤ fuel →
      (execFromW (wideWorld bs) fuel (.loop dec64Body) env cs).how = .fell ∧
      wideAppended (execFromW (wideWorld bs) fuel (.loop dec64Body) env cs).calls =
        wideAppended cs ++ List.replicate k (.int 0) := by
  intro k
  induction k with
  | zero =>
    intro j env cs fuel hk hinv hu hf
    obtain ⟨f, rfl⟩ : ∃ f, fuel = (f + 14) + 1 := ⟨fuel - 15, by omega⟩
    have hx := dec64_exit bs env cs j n e w f (by omega) hinv
    rw [execFromW_loop_broke' _ hx.1]
    exact ⟨rfl, hx.2.trans (by simp)⟩
  | succ k ih =>
    intro j env cs fuel hk hinv hu hf
    obtain ⟨f, rfl⟩ : ∃ f, fuel = (f + 14) + 1 := ⟨fuel - 15, by omega⟩
    obtain ⟨hx1, hx2, hx3, hx4⟩ := dec64_round_invalid bs env cs j n e w f h1e h2e hn (by omega) hinv hu
    rw [execFromW_loop_fell' _ hx1]
    obtain ⟨e1, e2⟩ := ih (j + 8) _ _ (f + 14) (by omega) hx2 hx3 (by omega)
    refine ⟨e1, ?_⟩
    rw [e2, hx4, List.append_assoc, List.replicate_succ]; rfl

theorem wideChunks32_invalid (w : WordOrder) : (bs : Bytes) →
    wideChunks32 .invalid w bs = List.replicate (bs.length / 4) 0
  | [] => by rfl
  | [_] => by simp [wideChunks32]
  | [_, _] => by simp [wideChunks32]
  | [_, _, _] => by simp [wideChunks32]
  | i0 :: i1 :: i2 :: i3 :: rest => by
    have hl : (i0 :: i1 :: i2 :: i3 :: rest).length / 4 = rest.length / 4 + 1 := by
      simp only [List.length_cons]; omega
    rw [wideChunks32_cons, wideChunks32_invalid w rest, hl, List.replicate_succ]; rfl

theorem wideChunks64_invalid (w : WordOrder) : ∀ (n : Nat) (bs : Bytes), bs.length = n →
    wideChunks64 .invalid w bs = List.replicate (bs.length / 8) 0 := by
  intro n
  induction n using Nat.strongRecOn with
  | _ n ih =>
    intro bs hl
    by_cases h8 : bs.length < 8
    · rw [wideChunks64_short _ w bs h8, Nat.div_eq_of_lt h8]; rfl
    · rcases bs with _ | ⟨i0, _ | ⟨i1, _ | ⟨i2, _ | ⟨i3, _ | ⟨i4, _ | ⟨i5, _ | ⟨i6, _ | ⟨i7, rest⟩⟩⟩⟩⟩⟩⟩⟩
      all_goals try (simp only [List.length_cons, List.length_nil] at h8; omega)
      have hl' : (i0 :: i1 :: i2 :: i3 :: i4 :: i5 :: i6 :: i7 :: rest).length / 8 = rest.length / 8 + 1 := by
        simp only [List.length_cons]; omega
      have hlt : rest.length < n := by rw [← hl]; simp only [List.length_cons]; omega
      rw [wideChunks64_cons, ih rest.length hlt rest rfl, hl', List.replicate_succ]; rfl

/-! ### 7. the float wrappers -/

/-- `math.Float32bits` / `Float64bits` / `Float32frombits` / `Float64frombits` are bit-exact; a float VALUE is
    represented by its IEEE-754 bit pattern (an integer), so all four are the identity on the representation -/
def bitsAns : List Val → Option (List Val)
  | [.int p] => some [.int p]
  | _ => none
theorem bitsAns_int (p : Int) : bitsAns [.int p] = some [.int p] := by exact id rfl

/-- the world of the float wrappers: the integer codec calls return an opaque slice symbol (their runs are
    the subject of the integer theorems), the `math` conversions are the identity on bit patterns, `append` as in
    `wideWorld`, the probes `#u32s[#i]` / `#u64s[#i]` answer from the list `l` (the integer decoder's result) -/
def wideFloatWorld (l : List Int) : World := fun _ f args =>
  if f = "bytesToUint32s" then some [.sym "u32s"]
  else if f = "bytesToUint64s" then some [.sym "u64s"]
  else if f = "uint32ToBytes" then some [.sym "uint32ToBytes"]
  else if f = "uint64ToBytes" then some [.sym "uint64ToBytes"]
  else if f = "math.Float32bits" then bitsAns args
  else if f = "math.Float64bits" then bitsAns args
  else if f = "math.Float32frombits" then bitsAns args
  else if f = "math.Float64frombits" then bitsAns args
  else if f = "append" then appendAnsW args
  else if f = "#u32s[#i]" then some [probeInts l (args.headD .unk)]
  else if f = "#u64s[#i]" then some [probeInts l (args.headD .unk)]
  else none

section floatworld
variable (l : List Int) (cs : Calls) (args : List Val)
theorem wideFloatWorld_dec32 : wideFloatWorld l cs "bytesToUint32s" args = some [.sym "u32s"] := by exact id rfl
theorem wideFloatWorld_dec64 : wideFloatWorld l cs "bytesToUint64s" args = some [.sym "u64s"] := by exact id rfl
theorem wideFloatWorld_enc32 : wideFloatWorld l cs "uint32ToBytes" args = some [.sym "uint32ToBytes"] := by
  exact id rfl
theorem wideFloatWorld_enc64 : wideFloatWorld l cs "uint64ToBytes" args = some [.sym "uint64ToBytes"] := by
  exact id rfl
theorem wideFloatWorld_bits32 : wideFloatWorld l cs "math.Float32bits" args = bitsAns args := by exact id rfl
theorem wideFloatWorld_bits64 : wideFloatWorld l cs "math.Float64bits" args = bitsAns args := by exact id rfl
theorem wideFloatWorld_frombits32 : wideFloatWorld l cs "math.Float32frombits" args = bitsAns args := by
  exact id rfl
theorem wideFloatWorld_frombits64 : wideFloatWorld l cs "math.Float64frombits" args = bitsAns args := by
  exact id rfl
theorem wideFloatWorld_append : wideFloatWorld l cs "append" args = appendAnsW args := by exact id rfl
theorem wideFloatWorld_probe32 : wideFloatWorld l cs "#u32s[#i]" args = some [probeInts l (args.headD .unk)] := by
  exact id rfl
theorem wideFloatWorld_probe64 : wideFloatWorld l cs "#u64s[#i]" args = some [probeInts l (args.headD .unk)] := by
  exact id rfl
end floatworld

/-- `gsp_bytesToFloat32s` with the leaf `u32s[#i]` re-bound from the probe `#u32s[#i]` (argument: the value of `#i`) at
    the head of the loop body -/
def decF32Gs : GStmt := withLeaves ["u32s[#i]"] "#u32s[#i]" "#i" gsp_bytesToFloat32s

def decF32Body : GStmt :=
  .seq (.bindCall ["u32s[#i]"] "#u32s[#i]" [.var "#i" .int])
    (.ite (.cmp "<" (.var "#i" .int) (.var "#len(u32s)" .int))
      (.seq (.assign "u32" (.var "u32s[#i]" .u32))
        (.seq (.seq (.bindCall ["#arg0"] "math.Float32frombits" [(.var "u32" .u32)])
                (.bindCall ["out"] "append" [(.var "out" .other), (.var "#arg0" .other)]))
          (.assign "#i" (.bin "+" .int (.var "#i" .int) (.lit 1 .int)))))
      .brk)

/-- the function around its loop `L` -/
def decF32With (L : GStmt) : GStmt :=
  .seq (.bindCall ["u32s"] "bytesToUint32s" [(.var "endianness" .uint), (.var "wordOrder" .uint), (.var "in" .other)])
    (.seq (.seq (.assign "#len(u32s)" (.var "len(u32s)" .int)) (.seq (.assign "#i" (.lit 0 .int)) L)) .ret)

theorem decF32Gs_eq : decF32Gs = decF32With (.loop decF32Body) := by rfl
theorem strip_decF32Gs : stripLeaves "#u32s[#i]" decF32Gs = gsp_bytesToFloat32s := by rfl

/-- what the loop keeps -/
def DecF32Inv (env : Env) (j n : Nat) : Prop :=
  Env.read? env "#i" = some (.int (j : Int)) ∧ Env.read? env "#len(u32s)" = some (.int (n : Int)) ∧
  Env.read? env "out" = some (.sym "out")

theorem decF32_round (l : List Int) (env : Env) (cs : Calls) (j n : Nat) (x : Int) (m : Nat) (hn : n < 2^62)
    (hj : j < n) (hx : l[j]? = some x) (hinv : DecF32Inv env j n) :
    let r := execFromW (wideFloatWorld l) (m + 8) decF32Body env cs
    r.how = .fell ∧ DecF32Inv r.env (j + 1) n ∧ wideAppended r.calls = wideAppended cs ++ [.int x] ∧
    wideArgs "bytesToUint32s" r.calls = wideArgs "bytesToUint32s" cs := by
  obtain ⟨h1, h2, h3⟩ := hinv
  have hlt : (j : Int) < (n : Int) := by omega
  have hw1 : ((j : Int) + 1 + 9223372036854775808) % 18446744073709551616 - 9223372036854775808 =
      ((j + 1 : Nat) : Int) := by omega
  have hp : probeInts l (.int (j : Int)) = .int x := by simp [probeInts, hx]
  wide_dec_eval [decF32Body, DecF32Inv, wideFloatWorld_probe32, wideFloatWorld_frombits32, wideFloatWorld_append, bitsAns_int,
    h1, h2, h3, hlt, hw1, hp]

theorem decF32_exit (l : List Int) (env : Env) (cs : Calls) (j n : Nat) (m : Nat) (hj : n ≤ j)
    (hinv : DecF32Inv env j n) :
    let r := execFromW (wideFloatWorld l) (m + 8) decF32Body env cs
    r.how = .broke ∧ wideAppended r.calls = wideAppended cs ∧
    wideArgs "bytesToUint32s" r.calls = wideArgs "bytesToUint32s" cs := by
  obtain ⟨h1, h2, h3⟩ := hinv
  have hlt : ¬ (j : Int) < (n : Int) := by omega
  wide_dec_eval [decF32Body, wideFloatWorld_probe32, h1, h2, h3, hlt]

theorem decF32_loop (l : List Int) (hn : l.length < 2^62) :
    ∀ (k j : Nat) (env : Env) (cs : Calls) (fuel : Nat),
      j + k = l.length → DecF32Inv env j l.length → k + 10 ≤ fuel →
      (execFromW (wideFloatWorld l) fuel (.loop decF32Body) env cs).how = .fell ∧
      wideAppended (execFromW (wideFloatWorld l) fuel (.loop decF32Body) env cs).calls =
        wideAppended cs ++ (l.drop j).map Val.int ∧
      wideArgs "bytesToUint32s" (execFromW (wideFloatWorld l) fuel (.loop decF32Body) env cs).calls = wideArgs "bytesToUint32s" cs := by
  intro k
  induction k with
  | zero =>
    intro j env cs fuel hjk hinv hf
    obtain ⟨f, rfl⟩ : ∃ f, fuel = (f + 8) + 1 := ⟨fuel - 9, by omega⟩
    have hx := decF32_exit l env cs j l.length f (by omega) hinv
    rw [execFromW_loop_broke' _ hx.1]
    refine ⟨rfl, ?_, hx.2.2⟩
    rw [List.drop_of_length_le (by omega)]
    exact hx.2.1.trans (by simp)
  | succ k ih =>
    intro j env cs fuel hjk hinv hf
    obtain ⟨f, rfl⟩ : ∃ f, fuel = (f + 8) + 1 := ⟨fuel - 9, by omega⟩
    have hj : j < l.length := by omega
    obtain ⟨hx1, hx2, hx3, hx4⟩ := decF32_round l env cs j l.length l[j] f hn hj (List.getElem?_eq_getElem hj) hinv
    rw [execFromW_loop_fell' _ hx1]
    obtain ⟨e1, e2, e3⟩ := ih (j + 1) _ _ (f + 8) (by omega) hx2 (by omega)
    refine ⟨e1, ?_, e3.trans hx4⟩
    rw [e2, hx3, List.drop_eq_getElem_cons hj, List.map_cons, List.append_assoc]; rfl

/-- the whole function given its loop: one call to the integer decoder, the length, the counter, the loop, `return` -/
theorem decF32_whole (l : List Int) (L : GStmt) (env : Env) (f : Nat) (e w : Int) (n : Nat)
    (h1 : Env.read? env "endianness" = some (.int e)) (h2 : Env.read? env "wordOrder" = some (.int w))
    (h3 : Env.read? env "in" = some (.sym "in")) (h4 : Env.read? env "len(u32s)" = some (.int (n : Int))) :
    execFromW (wideFloatWorld l) (f + 5) (decF32With L) env [] =
      seqKW (wideFloatWorld l) (f + 3) .ret
        (execFromW (wideFloatWorld l) (f + 1) L
          (Env.write (Env.write (Env.write env "u32s" (.sym "u32s")) "#len(u32s)" (.int (n : Int))) "#i" (.int 0))
          [("bytesToUint32s", [.int e, .int w, .sym "in"])]) := by
  simp only [decF32With, execFromW_seq, execFromW_bindCall, execFromW_assign, panics_lit, panics_var, eval_lit,
    eval_var, eval_var_some, h1, h2, h3, h4, read?_write, String.reduceEq, seqKW_fell, Bool.false_eq_true, ↓reduceIte,
    List.any_cons, List.any_nil, Bool.or_self, List.map, wideFloatWorld_dec32, callK_some, bindAll_cons, bindAll_nil,
    List.headD_cons, List.nil_append]

/-- `gsp_bytesToFloat64s` with the leaf `u64s[#i]` re-bound from the probe `#u64s[#i]` (argument: the value of `#i`) at
    the head of the loop body -/
def decF64Gs : GStmt := withLeaves ["u64s[#i]"] "#u64s[#i]" "#i" gsp_bytesToFloat64s

def decF64Body : GStmt :=
  .seq (.bindCall ["u64s[#i]"] "#u64s[#i]" [.var "#i" .int])
    (.ite (.cmp "<" (.var "#i" .int) (.var "#len(u64s)" .int))
      (.seq (.assign "u64" (.var "u64s[#i]" .u64))
        (.seq (.seq (.bindCall ["#arg0"] "math.Float64frombits" [(.var "u64" .u64)])
                (.bindCall ["out"] "append" [(.var "out" .other), (.var "#arg0" .other)]))
          (.assign "#i" (.bin "+" .int (.var "#i" .int) (.lit 1 .int)))))
      .brk)

/-- the function around its loop `L` -/
def decF64With (L : GStmt) : GStmt :=
  .seq (.bindCall ["u64s"] "bytesToUint64s" [(.var "endianness" .uint), (.var "wordOrder" .uint), (.var "in" .other)])
    (.seq (.seq (.assign "#len(u64s)" (.var "len(u64s)" .int)) (.seq (.assign "#i" (.lit 0 .int)) L)) .ret)

theorem decF64Gs_eq : decF64Gs = decF64With (.loop decF64Body) := by rfl
theorem strip_decF64Gs : stripLeaves "#u64s[#i]" decF64Gs = gsp_bytesToFloat64s := by rfl

/-- what the loop keeps -/
def DecF64Inv (env : Env) (j n : Nat) : Prop :=
  Env.read? env "#i" = some (.int (j : Int)) ∧ Env.read? env "#len(u64s)" = some (.int (n : Int)) ∧
  Env.read? env "out" = some (.sym "out")

theorem decF64_round (l : List Int) (env : Env) (cs : Calls) (j n : Nat) (x : Int) (m : Nat) (hn : n < 2^62)
    (hj : j < n) (hx : l[j]? = some x) (hinv : DecF64Inv env j n) :
    let r := execFromW (wideFloatWorld l) (m + 8) decF64Body env cs
    r.how = .fell ∧ DecF64Inv r.env (j + 1) n ∧ wideAppended r.calls = wideAppended cs ++ [.int x] ∧
    wideArgs "bytesToUint64s" r.calls = wideArgs "bytesToUint64s" cs := by
  obtain ⟨h1, h2, h3⟩ := hinv
  have hlt : (j : Int) < (n : Int) := by omega
  have hw1 : ((j : Int) + 1 + 9223372036854775808) % 18446744073709551616 - 9223372036854775808 =
      ((j + 1 : Nat) : Int) := by omega
  have hp : probeInts l (.int (j : Int)) = .int x := by simp [probeInts, hx]
  wide_dec_eval [decF64Body, DecF64Inv, wideFloatWorld_probe64, wideFloatWorld_frombits64, wideFloatWorld_append, bitsAns_int,
    h1, h2, h3, hlt, hw1, hp]

theorem decF64_exit (l : List Int) (env : Env) (cs : Calls) (j n : Nat) (m : Nat) (hj : n ≤ j)
    (hinv : DecF64Inv env j n) :
    let r := execFromW (wideFloatWorld l) (m + 8) decF64Body env cs
    r.how = .broke ∧ wideAppended r.calls = wideAppended cs ∧
    wideArgs "bytesToUint64s" r.calls = wideArgs "bytesToUint64s" cs := by
  obtain ⟨h1, h2, h3⟩ := hinv
  have hlt : ¬ (j : Int) < (n : Int) := by omega
  wide_dec_eval [decF64Body, wideFloatWorld_probe64, h1, h2, h3, hlt]

theorem decF64_loop (l : List Int) (hn : l.length < 2^62) :
    ∀ (k j : Nat) (env : Env) (cs : Calls) (fuel : Nat),
      j + k = l.length → DecF64Inv env j l.length → k + 10 ≤ fuel →
      (execFromW (wideFloatWorld l) fuel (.loop decF64Body) env cs).how = .fell ∧
      wideAppended (execFromW (wideFloatWorld l) fuel (.loop decF64Body) env cs).calls =
        wideAppended cs ++ (l.drop j).map Val.int ∧
      wideArgs "bytesToUint64s" (execFromW (wideFloatWorld l) fuel (.loop decF64Body) env cs).calls = wideArgs "bytesToUint64s" cs := by
  intro k
  induction k with
  | zero =>
    intro j env cs fuel hjk hinv hf
    obtain ⟨f, rfl⟩ : ∃ f, fuel = (f + 8) + 1 := ⟨fuel - 9, by omega⟩
    have hx := decF64_exit l env cs j l.length f (by omega) hinv
    rw [execFromW_loop_broke' _ hx.1]
    refine ⟨rfl, ?_, hx.2.2⟩
    rw [List.drop_of_length_le (by omega)]
    exact hx.2.1.trans (by simp)
  | succ k ih =>
    intro j env cs fuel hjk hinv hf
    obtain ⟨f, rfl⟩ : ∃ f, fuel = (f + 8) + 1 := ⟨fuel - 9, by omega⟩
    have hj : j < l.length := by omega
    obtain ⟨hx1, hx2, hx3, hx4⟩ := decF64_round l env cs j l.length l[j] f hn hj (List.getElem?_eq_getElem hj) hinv
    rw [execFromW_loop_fell' _ hx1]
    obtain ⟨e1, e2, e3⟩ := ih (j + 1) _ _ (f + 8) (by omega) hx2 (by omega)
    refine ⟨e1, ?_, e3.trans hx4⟩
    rw [e2, hx3, List.drop_eq_getElem_cons hj, List.map_cons, List.append_assoc]; rfl

/-- the whole function given its loop: one call to the integer decoder, the length, the counter, the loop, `return` -/
theorem decF64_whole (l : List Int) (L : GStmt) (env : Env) (f : Nat) (e w : Int) (n : Nat)
    (h1 : Env.read? env "endianness" = some (.int e)) (h2 : Env.read? env "wordOrder" = some (.int w))
    (h3 : Env.read? env "in" = some (.sym "in")) (h4 : Env.read? env "len(u64s)" = some (.int (n : Int))) :
    execFromW (wideFloatWorld l) (f + 5) (decF64With L) env [] =
      seqKW (wideFloatWorld l) (f + 3) .ret
        (execFromW (wideFloatWorld l) (f + 1) L
          (Env.write (Env.write (Env.write env "u64s" (.sym "u64s")) "#len(u64s)" (.int (n : Int))) "#i" (.int 0))
          [("bytesToUint64s", [.int e, .int w, .sym "in"])]) := by
  simp only [decF64With, execFromW_seq, execFromW_bindCall, execFromW_assign, panics_lit, panics_var, eval_lit,
    eval_var, eval_var_some, h1, h2, h3, h4, read?_write, String.reduceEq, seqKW_fell, Bool.false_eq_true, ↓reduceIte,
    List.any_cons, List.any_nil, Bool.or_self, List.map, wideFloatWorld_dec64, callK_some, bindAll_cons, bindAll_nil,
    List.headD_cons, List.nil_append]

end Modbus.GoEval
