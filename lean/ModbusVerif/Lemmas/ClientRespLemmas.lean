import ModbusVerif.Spec.Reply
import ModbusVerif.Lemmas.EncLemmas
import ModbusVerif.Lemmas.MbapLemmas
import ModbusVerif.Lemmas.RtuLemmas
/-
  Lemmas for property C02 (client side: which replies are accepted, what is returned).
  Layers: (A) bit-vector facts, (B) the spec decoders against the model decoders,
  (C) one characterisation of `Core.positive` per core call, (D) the 30 public operations
  against their core call, (E) the call as a function of the transport's read result.
-/
namespace Modbus.ClientResp
open Modbus Modbus.Client Modbus.Spec
open Modbus.EncLemmas (decodeBools_eq hi_mk16 lo_mk16 mk16_hi_lo toNat_mk16 toNat_mk32 toNat_mk64
  u16s_step u32s_step u64s_step u16s_none_iff u32s_none_iff u64s_none_iff)

/-! ### (A) bit vectors -/

theorem toNat_half_up (q : U16) : ((q / 2) + (q % 2)).toNat = (q.toNat + 1) / 2 := by
  have h2 : (2 : U16).toNat = 2 := rfl
  rw [BitVec.toNat_add, BitVec.toNat_udiv, BitVec.toNat_umod, h2]
  have := q.isLt
  omega

theorem u16_half (n : Nat) (h : 2 * n < 65536) : u16OfNat (2 * n) / 2 = u16OfNat n := by
  have h2 : (2 : U16).toNat = 2 := rfl
  apply BitVec.eq_of_toNat_eq
  rw [BitVec.toNat_udiv, h2]
  simp only [u16OfNat, BitVec.toNat_ofNat]
  omega

theorem odd_iff (q : U16) : q % 2 = 1 ↔ q.toNat % 2 = 1 := by
  have h2 : (2 : U16).toNat = 2 := rfl
  rw [← BitVec.toNat_inj, BitVec.toNat_umod, h2]; rfl

theorem fc_facts : ∀ fc ∈ ([0x01, 0x02, 0x03, 0x04, 0x05, 0x06, 0x0f, 0x10] : List Byte),
    fc &&& 0x80 = 0x00 ∧ fc ≠ (fc ||| 0x80) ∧ (fc ||| 0x80) &&& 0x80 = 0x80 := by decide

/-! ### (B) decoders -/

theorem toNat_app16 {n} (a : BitVec n) (b : U16) : (a ++ b).toNat = a.toNat * 65536 + b.toNat := by
  rw [BitVec.toNat_append, ← Nat.shiftLeft_add_eq_or_of_lt b.isLt, Nat.shiftLeft_eq]

theorem mk32_eq_regs (a b c d : Byte) : Enc.mk32 a b c d = (mk16 a b ++ mk16 c d : U32) := by
  apply BitVec.eq_of_toNat_eq
  rw [toNat_mk32, toNat_app16, toNat_mk16, toNat_mk16]
  have := a.isLt; have := b.isLt; have := c.isLt; have := d.isLt
  omega

theorem mk64_eq_regs (a b c d e f g h : Byte) :
    Enc.mk64 a b c d e f g h = (mk16 a b ++ mk16 c d ++ mk16 e f ++ mk16 g h : U64) := by
  apply BitVec.eq_of_toNat_eq
  rw [toNat_mk64, toNat_app16, toNat_app16, toNat_app16]
  simp only [toNat_mk16]
  omega

theorem wireRegs_length (e : Endian) : (b : Bytes) → (wireRegs e b).length = b.length / 2
  | [] => rfl
  | [_] => by simp [wireRegs]
  | _ :: _ :: rest => by
    simp only [wireRegs, List.length_cons, wireRegs_length e rest]; omega

theorem join32_length (w : WordOrder) : (l : List U16) → (join32 w l).length = l.length / 2
  | [] => rfl
  | [_] => by simp [join32]
  | _ :: _ :: rest => by
    simp only [join32, List.length_cons, join32_length w rest]; omega

theorem join64_length (w : WordOrder) : (l : List U16) → (join64 w l).length = l.length / 4
  | [] => rfl
  | [_] => by simp [join64]
  | [_, _] => by simp [join64]
  | [_, _, _] => by simp [join64]
  | _ :: _ :: _ :: _ :: rest => by
    simp only [join64, List.length_cons, join64_length w rest]; omega

theorem u16s_eq_wireRegs (e : Endian) : (b : Bytes) → b.length % 2 = 0 →
    Enc.bytesToUint16s e b = some (wireRegs e b)
  | [], _ => rfl
  | [_], h => by simp at h
  | x :: y :: rest, h => by
    rw [u16s_step, u16s_eq_wireRegs e rest (by simp at h; omega)]
    cases e <;> rfl

theorem u32s_eq_join (e : Endian) (w : WordOrder) (he : e ≠ .invalid) (hw : w ≠ .invalid) :
    (b : Bytes) → b.length % 4 = 0 →
    Enc.bytesToUint32s e w b = some (join32 w (wireRegs e b))
  | [], _ => rfl
  | [_], h => by simp at h
  | [_, _], h => by simp at h
  | [_, _, _], h => by simp at h
  | x :: y :: z :: t :: rest, h => by
    rw [u32s_step, u32s_eq_join e w he hw rest (by simp at h; omega)]
    cases e <;> cases w <;> simp_all [Enc.u32OfBytes, wireRegs, join32, mk32_eq_regs]

theorem u64s_eq_join (e : Endian) (w : WordOrder) (he : e ≠ .invalid) (hw : w ≠ .invalid) :
    (b : Bytes) → b.length % 8 = 0 →
    Enc.bytesToUint64s e w b = some (join64 w (wireRegs e b))
  | [], _ => rfl
  | [_], h => by simp at h
  | [_, _], h => by simp at h
  | [_, _, _], h => by simp at h
  | [_, _, _, _], h => by simp at h
  | [_, _, _, _, _], h => by simp at h
  | [_, _, _, _, _, _], h => by simp at h
  | [_, _, _, _, _, _, _], h => by simp at h
  | x :: y :: z :: t :: x' :: y' :: z' :: t' :: rest, h => by
    rw [u64s_step, u64s_eq_join e w he hw rest (by simp at h; omega)]
    cases e <;> cases w <;> simp_all [Enc.u64OfBytes, wireRegs, join64, mk64_eq_regs]

theorem swapPairs_eq : (b : Bytes) → b.length % 2 = 0 → swapPairs b = some (swapEach b)
  | [], _ => rfl
  | [_], h => by simp at h
  | x :: y :: rest, h => by
    simp only [swapPairs, swapEach, swapPairs_eq rest (by simp at h; omega)]

theorem swapPairs_ne_none (b : Bytes) (h : b.length % 2 = 0) : swapPairs b ≠ none := by
  rw [swapPairs_eq b h]; simp

theorem swapEach_length : (b : Bytes) → (swapEach b).length = b.length
  | [] => rfl
  | [_] => by simp [swapEach]
  | _ :: _ :: rest => by simp [swapEach, swapEach_length rest]

theorem bitsOf_length (d : Bytes) (n : Nat) : (bitsOf d n).length = n := by simp [bitsOf]

/-! ### (C) core calls -/

theorem request_readBools {di : Bool} {a q : U16} {fc : Byte} {p : Bytes}
    (h : (Core.readBools di a q).request = .ok (fc, p)) :
    q.toNat ≤ 2000 ∧ fc = (if di then 0x02 else 0x01) := by
  simp only [Core.request, perr] at h
  split at h; · cases h
  split at h; · cases h
  split at h; · cases h
  injection h with h; injection h with hfc hp
  exact ⟨by omega, hfc.symm⟩

theorem request_readRegs {a : U16} {qty rt : Nat} {fc : Byte} {p : Bytes}
    (h : (Core.readRegs a qty rt).request = .ok (fc, p)) :
    qty ≤ 125 ∧ (rt = 0 ∨ rt = 1) ∧ fc = (if rt = 0 then 0x03 else 0x04) := by
  simp only [Core.request, perr] at h
  split at h; · cases h
  split at h; · cases h
  split at h; · cases h
  split at h; · cases h
  injection h with h; injection h with hfc hp
  exact ⟨by omega, by omega, hfc.symm⟩

theorem request_writeCoil {a : U16} {v : Bool} {fc : Byte} {p : Bytes}
    (h : (Core.writeCoil a v).request = .ok (fc, p)) : fc = 0x05 := by
  simp only [Core.request] at h
  injection h with h; injection h with hfc hp
  exact hfc.symm

theorem request_writeReg {e : Endian} {a v : U16} {fc : Byte} {p : Bytes}
    (h : (Core.writeReg e a v).request = .ok (fc, p)) : fc = 0x06 := by
  simp only [Core.request] at h
  injection h with h; injection h with hfc hp
  exact hfc.symm

theorem request_writeCoils {a : U16} {vs : List Bool} {fc : Byte} {p : Bytes}
    (h : (Core.writeCoils a vs).request = .ok (fc, p)) : vs.length ≤ 0x7b0 ∧ fc = 0x0f := by
  simp only [Core.request, perr] at h
  split at h; · cases h
  split at h; · cases h
  split at h; · cases h
  injection h with h; injection h with hfc hp
  exact ⟨by omega, hfc.symm⟩

theorem request_writeRegs {a : U16} {pay : Bytes} {fc : Byte} {p : Bytes}
    (h : (Core.writeRegs a pay).request = .ok (fc, p)) : pay.length / 2 ≤ 123 ∧ fc = 0x10 := by
  simp only [Core.request, perr] at h
  split at h; · cases h
  split at h; · cases h
  split at h; · cases h
  injection h with h; injection h with hfc hp
  exact ⟨by omega, hfc.symm⟩


theorem decodeBools_eq_bitsOf (q : Nat) (d : Bytes) (h : coilLen q ≤ d.length) :
    Enc.decodeBools q d = some (bitsOf d q) := by
  rw [decodeBools_eq, if_pos (by simpa [coilLen] using h)]; rfl

theorem byteCounted_iff (n : Nat) (hn : n < 256) (pl : Bytes) :
    ByteCounted n pl ↔ pl.length = 1 + n ∧ (pl.getD 0 0).toNat = n := by
  cases pl with
  | nil => simp [ByteCounted]; omega
  | cons x t =>
    have hx : x = byteOfNat n ↔ x.toNat = n := by
      constructor
      · rintro rfl; simp [byteOfNat, BitVec.toNat_ofNat]; omega
      · rintro rfl; simp [byteOfNat]
    simp [ByteCounted, hx]; omega

theorem len4 {pl : Bytes} (h : pl.length = 4) : ∃ a b c d, pl = [a, b, c, d] := by
  match pl, h with
  | [a, b, c, d], _ => exact ⟨a, b, c, d, rfl⟩

theorem mk16_eq_iff (a b : Byte) (v : U16) : mk16 a b = v ↔ a = hi v ∧ b = lo v := by
  constructor
  · rintro rfl; simp [hi_mk16, lo_mk16]
  · rintro ⟨rfl, rfl⟩; exact mk16_hi_lo v

theorem protoErr_ne {raw : Raw} : (some protoErr : Option (Except Err Raw)) ≠ some (.ok raw) := by
  simp [protoErr]

theorem ok_eq_iff {x raw : Raw} : (some (.ok x) : Option (Except Err Raw)) = some (.ok raw) ↔ raw = x := by
  constructor
  · intro h; injection h with h; injection h with h; exact h.symm
  · rintro rfl; rfl

theorem positive_readBools (di : Bool) (a q : U16) (hq : q.toNat ≤ 2000) (pl : Bytes) (raw : Raw) :
    (Core.readBools di a q).positive pl = some (.ok raw) ↔
      ByteCounted (coilLen q.toNat) pl ∧ raw = .bools (bitsOf (pl.drop 1) q.toNat) := by
  have hk : coilLen q.toNat < 256 := by unfold coilLen; omega
  rw [byteCounted_iff _ hk]
  have hE : 1 + q.toNat / 8 + (if q.toNat % 8 ≠ 0 then 1 else 0) = 1 + coilLen q.toNat := by
    unfold coilLen; split <;> omega
  simp only [Core.positive, hE]
  by_cases h1 : pl.length = 1 + coilLen q.toNat
  · by_cases h2 : (pl.getD 0 0).toNat = coilLen q.toNat
    · have h3 : (pl.getD 0 0).toNat + 1 = 1 + coilLen q.toNat := by omega
      rw [if_neg (fun h => h h1), if_neg (fun h => h h3),
        decodeBools_eq_bitsOf _ _ (by simp; omega), ok_eq_iff]
      exact ⟨fun h => ⟨⟨h1, h2⟩, h⟩, fun h => h.2⟩
    · have h3 : (pl.getD 0 0).toNat + 1 ≠ 1 + coilLen q.toNat := by omega
      rw [if_neg (fun h => h h1), if_pos h3]
      exact ⟨fun h => absurd h protoErr_ne, fun h => absurd h.1.2 h2⟩
  · rw [if_pos h1]
    exact ⟨fun h => absurd h protoErr_ne, fun h => absurd h.1.1 h1⟩

theorem positive_readRegs (a : U16) (qty rt : Nat) (hq : qty ≤ 125) (pl : Bytes) (raw : Raw) :
    (Core.readRegs a qty rt).positive pl = some (.ok raw) ↔
      ByteCounted (2 * qty) pl ∧ raw = .bytes (pl.drop 1) := by
  rw [byteCounted_iff _ (by omega)]
  simp only [Core.positive]
  by_cases h1 : pl.length = 1 + 2 * qty
  · by_cases h2 : (pl.getD 0 0).toNat = 2 * qty
    · rw [if_neg (fun h => h h1), if_neg (fun h => h h2), ok_eq_iff]
      exact ⟨fun h => ⟨⟨h1, h2⟩, h⟩, fun h => h.2⟩
    · rw [if_neg (fun h => h h1), if_pos h2]
      exact ⟨fun h => absurd h protoErr_ne, fun h => absurd h.1.2 h2⟩
  · rw [if_pos h1]
    exact ⟨fun h => absurd h protoErr_ne, fun h => absurd h.1.1 h1⟩

theorem be16x2_eq_iff (x y z t : Byte) (a b : U16) :
    [x, y, z, t] = be16 a ++ be16 b ↔ mk16 x y = a ∧ mk16 z t = b := by
  simp [be16, mk16_eq_iff]; 
  constructor
  · rintro ⟨h1, h2, h3, h4⟩; exact ⟨⟨h1, h2⟩, h3, h4⟩ 
  · rintro ⟨⟨h1, h2⟩, h3, h4⟩; exact ⟨h1, h2, h3, h4⟩

theorem positive_writeCoil (a : U16) (v : Bool) (pl : Bytes) (raw : Raw) :
    (Core.writeCoil a v).positive pl = some (.ok raw) ↔
      pl = be16 a ++ (if v then [0xff, 0x00] else [0x00, 0x00]) ∧ raw = .done := by
  by_cases hl : pl.length = 4
  · obtain ⟨x, y, z, t, rfl⟩ := len4 hl
    have hpl : ([x, y, z, t] = be16 a ++ (if v then [0xff, 0x00] else [0x00, 0x00])) ↔
        ¬ (mk16 x y ≠ a ∨ (v = true ∧ z ≠ 0xff) ∨ (v = false ∧ z ≠ 0x00) ∨ t ≠ 0x00) := by
      cases v <;> simp [be16, mk16_eq_iff, and_assoc]
    rw [hpl]
    simp only [Core.positive, List.getD_cons_zero, List.getD_cons_succ]
    split
    · next h => exact ⟨fun h' => absurd h' protoErr_ne, fun h' => absurd (h.resolve_left (fun h => h rfl)) h'.1⟩
    · next h => rw [ok_eq_iff]; exact ⟨fun h' => ⟨fun h'' => h (Or.inr h''), h'⟩, fun h' => h'.2⟩
  · have : pl ≠ be16 a ++ (if v then [0xff, 0x00] else [0x00, 0x00]) := by
      intro h; apply hl; rw [h]; cases v <;> rfl
    simp only [Core.positive]
    rw [if_pos (Or.inl hl)]
    exact ⟨fun h => absurd h protoErr_ne, fun h => absurd h.1 this⟩

theorem positive_echo2 (c : Core) (a n : U16)
    (hc : ∀ pl, c.positive pl = if pl.length ≠ 4 ∨ mk16 (pl.getD 0 0) (pl.getD 1 0) ≠ a
       ∨ mk16 (pl.getD 2 0) (pl.getD 3 0) ≠ n then some protoErr else some (.ok .done))
    (pl : Bytes) (raw : Raw) :
    c.positive pl = some (.ok raw) ↔ pl = be16 a ++ be16 n ∧ raw = .done := by
  rw [hc]
  by_cases hl : pl.length = 4
  · obtain ⟨x, y, z, t, rfl⟩ := len4 hl
    rw [be16x2_eq_iff]
    simp only [List.getD_cons_zero, List.getD_cons_succ]
    split
    · next h =>
      refine ⟨fun h' => absurd h' protoErr_ne, fun h' => ?_⟩
      rcases h with h | h | h
      · exact absurd rfl h
      · exact absurd h'.1.1 h
      · exact absurd h'.1.2 h
    · next h =>
      rw [ok_eq_iff]
      refine ⟨fun h' => ⟨⟨?_, ?_⟩, h'⟩, fun h' => h'.2⟩
      · exact Decidable.by_contra fun h1 => h (Or.inr (Or.inl h1))
      · exact Decidable.by_contra fun h1 => h (Or.inr (Or.inr h1))
  · have : pl ≠ be16 a ++ be16 n := by
      intro h; apply hl; rw [h]; rfl
    rw [if_pos (Or.inl hl)]
    exact ⟨fun h => absurd h protoErr_ne, fun h => absurd h.1 this⟩

theorem positive_writeCoils (a : U16) (vs : List Bool) (pl : Bytes) (raw : Raw) :
    (Core.writeCoils a vs).positive pl = some (.ok raw) ↔
      pl = be16 a ++ be16 (u16OfNat vs.length) ∧ raw = .done :=
  positive_echo2 _ a _ (fun _ => rfl) pl raw

theorem positive_writeRegs (a : U16) (p : Bytes) (pl : Bytes) (raw : Raw) :
    (Core.writeRegs a p).positive pl = some (.ok raw) ↔
      pl = be16 a ++ be16 (u16OfNat p.length / 2) ∧ raw = .done :=
  positive_echo2 _ a _ (fun _ => rfl) pl raw

theorem positive_writeReg (e : Endian) (he : e ≠ .invalid) (a v : U16) (pl : Bytes) (raw : Raw) :
    (Core.writeReg e a v).positive pl = some (.ok raw) ↔
      pl = be16 a ++ layout16 e v ∧ raw = .done := by
  by_cases hl : pl.length = 4
  · obtain ⟨x, y, z, t, rfl⟩ := len4 hl
    have hpl : ([x, y, z, t] = be16 a ++ layout16 e v) ↔
        (mk16 x y = a ∧ Enc.bytesToUint16 e [z, t] = some v) := by
      cases e <;> simp_all [be16, mk16_eq_iff, and_assoc, layout16, regs16, regBytes, Enc.bytesToUint16]
      intro _ _; exact and_comm
    rw [hpl]
    simp only [Core.positive, List.getD_cons_zero, List.getD_cons_succ, List.drop_succ_cons, List.drop_zero]
    rw [if_neg (fun h => h rfl)]
    split
    · next h => exact ⟨fun h' => absurd h' protoErr_ne, fun h' => absurd h'.1.1 h⟩
    · next h =>
      have h := Decidable.not_not.mp h
      split
      · next h2 => exact ⟨fun h' => (by cases h'), fun h' => by (rw [h2] at h'; cases h'.1.2)⟩
      · next x h2 =>
        rw [h2]
        split
        · next h3 => exact ⟨fun h' => absurd h' protoErr_ne, fun h' => by
            have := h'.1.2; injection this with this; exact absurd this h3⟩
        · next h3 =>
          have h3 := Decidable.not_not.mp h3
          rw [ok_eq_iff]; exact ⟨fun h' => ⟨⟨h, by rw [h3]⟩, h'⟩, fun h' => h'.2⟩
  · have : pl ≠ be16 a ++ layout16 e v := by
      intro h; apply hl; rw [h]; cases e <;> rfl
    simp only [Core.positive]
    rw [if_pos hl]
    exact ⟨fun h => absurd h protoErr_ne, fun h => absurd h.1 this⟩

/-- the reply payload a core call accepts -/
def CorePos : Core → Bytes → Prop
  | .readBools _ _ q, pl => ByteCounted (coilLen q.toNat) pl
  | .readRegs _ qty _, pl => ByteCounted (2 * qty) pl
  | .writeCoil a v, pl => pl = be16 a ++ (if v then [0xff, 0x00] else [0x00, 0x00])
  | .writeCoils a vs, pl => pl = be16 a ++ be16 (u16OfNat vs.length)
  | .writeReg e a v, pl => pl = be16 a ++ layout16 e v
  | .writeRegs a p, pl => pl = be16 a ++ be16 (u16OfNat p.length / 2)

/-- the raw result it produces from an accepted payload -/
def coreRaw : Core → Bytes → Raw
  | .readBools _ _ q, pl => .bools (bitsOf (pl.drop 1) q.toNat)
  | .readRegs .., pl => .bytes (pl.drop 1)
  | _, _ => .done

def CoreEndianOk : Core → Prop
  | .writeReg e _ _ => e ≠ .invalid
  | _ => True

theorem positive_ok_iff {c : Core} {fc : Byte} {p : Bytes} (hreq : c.request = .ok (fc, p))
    (he : CoreEndianOk c) (pl : Bytes) (raw : Raw) :
    c.positive pl = some (.ok raw) ↔ CorePos c pl ∧ raw = coreRaw c pl := by
  cases c with
  | readBools di a q => exact positive_readBools di a q (request_readBools hreq).1 pl raw
  | readRegs a qty rt => exact positive_readRegs a qty rt (request_readRegs hreq).1 pl raw
  | writeCoil a v => exact positive_writeCoil a v pl raw
  | writeCoils a vs => exact positive_writeCoils a vs pl raw
  | writeReg e a v => exact positive_writeReg e he a v pl raw
  | writeRegs a pay => exact positive_writeRegs a pay pl raw

theorem mapException_eq (c : Byte) : mapException c = exceptionError c := by
  unfold mapException exceptionError
  repeat' split
  all_goals first | rfl | (exfalso; simp_all; done) | (exfalso; bv_omega)

theorem some_protoErr_ne_none : (some protoErr : Option (Except Err Raw)) ≠ none := by simp

theorem positive_ne_none (c : Core) (pl : Bytes) : c.positive pl ≠ none := by
  cases c with
  | readBools di a q =>
    simp only [Core.positive]
    generalize hE : (1 + q.toNat / 8 + if q.toNat % 8 ≠ 0 then 1 else 0) = E
    have hE' : (q.toNat + 7) / 8 + 1 = E := by rw [← hE]; split <;> omega
    by_cases h1 : pl.length ≠ E
    · rw [if_pos h1]; simp
    · rw [if_neg h1]
      by_cases h2 : (pl.getD 0 0).toNat + 1 ≠ E
      · rw [if_pos h2]; simp
      · rw [if_neg h2, decodeBools_eq, if_pos]
        · simp
        · have h1 := Decidable.not_not.mp h1
          rw [List.length_drop, h1]; omega
  | readRegs a qty rt =>
    simp only [Core.positive]
    split; · simp
    split <;> simp
  | writeCoil a v => simp only [Core.positive]; split <;> simp
  | writeCoils a vs => simp only [Core.positive]; split <;> simp
  | writeRegs a pay => simp only [Core.positive]; split <;> simp
  | writeReg e a v =>
    simp only [Core.positive]
    split; · simp
    split; · simp
    next h1 h2 =>
      have h1 := Decidable.not_not.mp h1
      obtain ⟨x, y, z, t, rfl⟩ := len4 h1
      cases e <;> simp [Enc.bytesToUint16] <;> split <;> simp

theorem request_fc {c : Core} {fc : Byte} {p : Bytes} (hreq : c.request = .ok (fc, p)) :
    fc ∈ ([0x01, 0x02, 0x03, 0x04, 0x05, 0x06, 0x0f, 0x10] : List Byte) := by
  cases c with
  | readBools di a q => rw [(request_readBools hreq).2]; cases di <;> decide
  | readRegs a qty rt =>
    obtain ⟨_, h, hfc⟩ := request_readRegs hreq
    rw [hfc]; rcases h with rfl | rfl <;> decide
  | writeCoil a v => rw [request_writeCoil hreq]; decide
  | writeCoils a vs => rw [(request_writeCoils hreq).2]; decide
  | writeReg e a v => rw [request_writeReg hreq]; decide
  | writeRegs a pay => rw [(request_writeRegs hreq).2]; decide

theorem validate_ok_iff {c : Core} {fc : Byte} {p : Bytes} (hreq : c.request = .ok (fc, p))
    (he : CoreEndianOk c) (res : Pdu) (raw : Raw) :
    c.validate fc res = some (.ok raw) ↔
      res.fc = fc ∧ CorePos c res.payload ∧ raw = coreRaw c res.payload := by
  unfold Core.validate
  split
  · next h => rw [positive_ok_iff hreq he]; exact ⟨fun h' => ⟨h, h'⟩, fun h' => h'.2⟩
  · next h =>
    refine ⟨fun h' => ?_, fun h' => absurd h'.1 h⟩
    split at h'
    · split at h' <;> simp [protoErr] at h'
    · simp [protoErr] at h'

theorem validate_ne_none (c : Core) (fc : Byte) (res : Pdu) : c.validate fc res ≠ none := by
  unfold Core.validate
  split
  · exact positive_ne_none c _
  · split
    · split <;> simp
    · simp

theorem validate_exception {c : Core} {fc : Byte} {p : Bytes} (hreq : c.request = .ok (fc, p))
    (res : Pdu) (code : Byte) (hfc : res.fc = (fc ||| 0x80)) (hp : res.payload = [code]) :
    c.validate fc res = some (.error (exceptionError code)) := by
  have h := (fc_facts fc (request_fc hreq)).2.1
  unfold Core.validate
  rw [if_neg (by rw [hfc]; exact fun h' => h h'.symm), if_pos hfc, hp, mapException_eq]
  simp

theorem unitCheck_ok_inv {u : Byte} {r : Except Err Pdu} {res : Pdu}
    (h : unitCheck u r = .ok res) : r = .ok res := by
  unfold unitCheck at h
  split at h
  · cases h
  · cases h
  · split at h; · cases h
    split at h; · cases h
    exact h

theorem unitCheck_pos {u : Byte} {res : Pdu} (hfc : res.fc &&& 0x80 = 0x00) :
    unitCheck u (.ok res) = .ok res ↔ res.unit = u := by
  have h80 : ¬ (res.fc &&& 0x80 = 0x80) := by rw [hfc]; decide
  simp only [unitCheck]
  by_cases hu : res.unit = u
  · rw [if_neg (fun h => h.2 hu), if_neg (fun h => h80 h.1)]; exact ⟨fun _ => hu, fun _ => rfl⟩
  · rw [if_pos ⟨hfc, hu⟩]; exact ⟨fun h => (by cases h), fun h => absurd h hu⟩

theorem unitCheck_exc {u : Byte} {res : Pdu} (hfc : res.fc &&& 0x80 = 0x80)
    (hu : res.unit = u ∨ res.unit = 0xff) : unitCheck u (.ok res) = .ok res := by
  have h0 : ¬ (res.fc &&& 0x80 = 0x00) := by rw [hfc]; decide
  simp only [unitCheck]
  rw [if_neg (fun h => h0 h.1), if_neg]
  rintro ⟨_, h1, h2⟩
  rcases hu with h | h
  · exact h1 h
  · exact h2 h

/-! ### (D) public operations against their core call -/

theorem flatMap_length_const {α β : Type} (f : α → List β) (k : Nat) (hf : ∀ a, (f a).length = k) :
    (l : List α) → (l.flatMap f).length = k * l.length
  | [] => by simp
  | a :: t => by
    rw [List.flatMap_cons, List.length_append, hf, flatMap_length_const f k hf t, List.length_cons]
    rw [Nat.mul_succ]; omega

theorem u16bytes_length (e : Endian) (v : U16) : (Enc.uint16ToBytes e v).length = 2 := by
  cases e <;> rfl
theorem u32bytes_length (e : Endian) (w : WordOrder) (v : U32) : (Enc.uint32ToBytes e w v).length = 4 := by
  cases e <;> cases w <;> rfl
theorem u64bytes_length (e : Endian) (w : WordOrder) (v : U64) : (Enc.uint64ToBytes e w v).length = 8 := by
  cases e <;> cases w <;> rfl

theorem swapPairs_none : (b : Bytes) → b.length % 2 ≠ 0 → swapPairs b = none
  | [], h => by simp at h
  | [_], _ => rfl
  | x :: y :: rest, h => by
    simp only [swapPairs, swapPairs_none rest (by simp at h; omega)]

theorem swapPairs_length {b r : Bytes} (h : swapPairs b = some r) : r.length = b.length := by
  by_cases hb : b.length % 2 = 0
  · rw [swapPairs_eq b hb] at h; injection h with h; rw [← h, swapEach_length]
  · rw [swapPairs_none b hb] at h; cases h

theorem writeBytesPayload_eq (e : Endian) (o : Bool) (bs : Bytes) :
    writeBytesPayload e o bs =
      if o ∧ e = .little then swapPairs (if bs.length % 2 = 1 then bs ++ [0x00] else bs)
      else some (if bs.length % 2 = 1 then bs ++ [0x00] else bs) := rfl

theorem padded_length (bs : Bytes) :
    (if bs.length % 2 = 1 then bs ++ [0x00] else bs).length = 2 * regsForBytes bs.length := by
  unfold regsForBytes; split
  · rw [List.length_append]; simp only [List.length_cons, List.length_nil]; omega
  · omega

theorem writeBytesPayload_length {e : Endian} {o : Bool} {bs p : Bytes}
    (h : writeBytesPayload e o bs = some p) : p.length = 2 * regsForBytes bs.length := by
  rw [writeBytesPayload_eq] at h
  have hpad := padded_length bs
  generalize (if bs.length % 2 = 1 then bs ++ [0x00] else bs) = padded at h hpad
  split at h
  · rw [swapPairs_length h, hpad]
  · injection h with h; rw [← h, hpad]

theorem writeBytesPayload_ne_none (e : Endian) (o : Bool) (bs : Bytes) :
    writeBytesPayload e o bs ≠ none := by
  rw [writeBytesPayload_eq]
  have hpad := padded_length bs
  generalize (if bs.length % 2 = 1 then bs ++ [0x00] else bs) = padded at hpad
  split
  · exact swapPairs_ne_none _ (by omega)
  · simp

theorem core_ne_none (cfg : Cfg) (op : Op) : op.core cfg ≠ none := by
  cases op <;> simp [Op.core, writeBytesPayload_ne_none]

/-- the core call of a public operation, in terms of the request parameters of the spec -/
inductive CoreView (cfg : Cfg) (op : Op) : Core → Prop
  | bits (di : Bool) (q : U16) :
      fn op = (if di then .readDiscreteInputs else .readCoils) → q.toNat = items op →
      CoreView cfg op (.readBools di (addr op) q)
  | regs (qty rt : Nat) : fn op = .readRegisters → regType? op = some rt → qty = items op →
      CoreView cfg op (.readRegs (addr op) qty rt)
  | coil (a : U16) (v : Bool) : op = .writeCoil a v → CoreView cfg op (.writeCoil a v)
  | coils (a : U16) (vs : List Bool) : op = .writeCoils a vs → CoreView cfg op (.writeCoils a vs)
  | reg (a v : U16) : op = .writeRegister a v → CoreView cfg op (.writeReg cfg.endian a v)
  | mregs (pay : Bytes) : fn op = .writeMultipleRegisters → pay.length = 2 * items op →
      CoreView cfg op (.writeRegs (addr op) pay)

theorem core_view {cfg : Cfg} {op : Op} {c : Core} (h : op.core cfg = some c) : CoreView cfg op c := by
  cases op
  case writeBytes a bs =>
    simp only [Op.core, Option.map_eq_some_iff] at h
    obtain ⟨p, hp, rfl⟩ := h
    exact .mregs p rfl (writeBytesPayload_length hp)
  case writeRawBytes a bs =>
    simp only [Op.core, Option.map_eq_some_iff] at h
    obtain ⟨p, hp, rfl⟩ := h
    exact .mregs p rfl (writeBytesPayload_length hp)
  all_goals
    simp only [Op.core, Option.some.injEq] at h
    subst h
  case readCoils a q => exact .bits false q rfl rfl
  case readCoil a => exact .bits false 1 rfl rfl
  case readDiscreteInputs a q => exact .bits true q rfl rfl
  case readDiscreteInput a => exact .bits true 1 rfl rfl
  case writeCoil a v => exact .coil a v rfl
  case writeCoils a vs => exact .coils a vs rfl
  case writeRegister a v => exact .reg a v rfl
  case readBytes a q rt => exact .regs _ rt rfl rfl (toNat_half_up q)
  case readRawBytes a q rt => exact .regs _ rt rfl rfl (toNat_half_up q)
  case writeRegisters a vs =>
    exact .mregs _ rfl (flatMap_length_const _ 2 (u16bytes_length _) vs)
  case writeUint32s a vs | writeFloat32s a vs =>
    exact .mregs _ rfl (by rw [flatMap_length_const _ 4 (u32bytes_length _ _) vs]; simp only [items]; omega)
  case writeUint64s a vs | writeFloat64s a vs =>
    exact .mregs _ rfl (by rw [flatMap_length_const _ 8 (u64bytes_length _ _) vs]; simp only [items]; omega)
  case writeUint32 a v | writeFloat32 a v => exact .mregs _ rfl (u32bytes_length _ _ v)
  case writeUint64 a v | writeFloat64 a v => exact .mregs _ rfl (u64bytes_length _ _ v)
  all_goals exact .regs _ _ rfl rfl (by simp only [items] <;> omega)

theorem view_endianOk {cfg : Cfg} {op : Op} {c : Core} (hv : CoreView cfg op c)
    (he : cfg.endian ≠ .invalid) : CoreEndianOk c := by
  cases hv <;> first | exact he | trivial

/-- L1: the function code sent is the one of the spec -/
theorem view_fc {cfg : Cfg} {op : Op} {c : Core} {fc : Byte} {p : Bytes} (hv : CoreView cfg op c)
    (hreq : c.request = .ok (fc, p)) : fc = reqFc op := by
  cases hv with
  | bits di q hfn hq =>
    rw [(request_readBools hreq).2]; cases di <;> simp [reqFc, functionCode, hfn]
  | regs qty rt hfn hrt hq =>
    obtain ⟨_, h, hfc⟩ := request_readRegs hreq
    rw [hfc]; rcases h with rfl | rfl <;> simp [reqFc, functionCode, hfn, hrt]
  | coil a v h => subst h; exact request_writeCoil hreq
  | coils a vs h => subst h; exact (request_writeCoils hreq).2
  | reg a v h => subst h; exact request_writeReg hreq
  | mregs pay hfn hlen => rw [(request_writeRegs hreq).2]; simp [reqFc, functionCode, hfn]

/-- L2: the payload the core call accepts is the payload of the spec -/
theorem view_pos {cfg : Cfg} {op : Op} {c : Core} {fc : Byte} {p : Bytes} (hv : CoreView cfg op c)
    (hreq : c.request = .ok (fc, p)) (pl : Bytes) : CorePos c pl ↔ PayloadOk cfg op pl := by
  cases hv with
  | bits di q hfn hq => cases di <;> simp only [CorePos, PayloadOk, hfn, reqItems, hq] <;> rfl
  | regs qty rt hfn hrt hq => simp only [CorePos, PayloadOk, hfn, reqItems, hq]
  | coil a v h => subst h; rfl
  | coils a vs h => subst h; rfl
  | reg a v h => subst h; rfl
  | mregs pay hfn hlen =>
    have h1 := (request_writeRegs hreq).1
    simp only [CorePos, PayloadOk, hfn, reqItems, reqAddr]
    rw [hlen, u16_half _ (by omega)]

theorem decode_done (cfg : Cfg) (op : Op) : op.decode cfg .done = some .unit := by
  cases op <;> rfl

theorem bits_ops {cfg : Cfg} {op : Op} (hfn : fn op = .readCoils ∨ fn op = .readDiscreteInputs) :
    (∀ l, op.decode cfg (.bools l) = some (.bools l)) ∧
    (∀ res, decodeReply cfg op res = .bools (bitsOf (replyData res) (items op))) ∧
    requestedCount op = items op := by
  cases op <;> simp [fn] at hfn <;> exact ⟨fun _ => rfl, fun _ => rfl, rfl⟩

theorem write_ops {cfg : Cfg} {op : Op}
    (hfn : fn op = .writeSingleCoil ∨ fn op = .writeSingleRegister ∨ fn op = .writeMultipleCoils
      ∨ fn op = .writeMultipleRegisters) :
    (∀ res, decodeReply cfg op res = .unit) ∧ requestedCount op = 0 := by
  cases op <;> simp [fn] at hfn <;> exact ⟨fun _ => rfl, rfl⟩

theorem take_odd_even (q : U16) (v : Bytes) (hv : v.length = 2 * regsForBytes q.toNat) :
    (if q % 2 = 1 then v.take (v.length - 1) else v) = v.take q.toNat := by
  unfold regsForBytes at hv
  split
  · next h => rw [odd_iff] at h; congr 1; omega
  · next h => rw [odd_iff] at h; rw [List.take_of_length_le (by omega)]

theorem regs_ops {cfg : Cfg} {op : Op} (hfn : fn op = .readRegisters)
    (he : cfg.endian ≠ .invalid) (hw : cfg.word ≠ .invalid) (res : Pdu)
    (hd : (replyData res).length = 2 * items op) :
    op.decode cfg (.bytes (replyData res)) = some (decodeReply cfg op res) ∧
    valCount (decodeReply cfg op res) = requestedCount op := by
  generalize hdd : replyData res = d at hd
  cases op <;> simp [fn] at hfn <;>
    simp only [Op.decode, decodeReply, requestedCount, valCount, items, hdd] at hd ⊢
  case readRegisters a q rt | readRegister a rt =>
    rw [u16s_eq_wireRegs _ _ (by omega), wireRegs_length]; exact ⟨rfl, by omega⟩
  case readUint32s a q rt | readUint32 a rt | readFloat32s a q rt | readFloat32 a rt =>
    rw [u32s_eq_join _ _ he hw _ (by omega), join32_length, wireRegs_length]; exact ⟨rfl, by omega⟩
  case readUint64s a q rt | readUint64 a rt | readFloat64s a q rt | readFloat64 a rt =>
    rw [u64s_eq_join _ _ he hw _ (by omega), join64_length, wireRegs_length]; exact ⟨rfl, by omega⟩
  case readBytes a q rt =>
    have hlen : q.toNat ≤ d.length := by unfold regsForBytes at hd; omega
    by_cases hl : cfg.endian = .little
    · rw [if_pos hl, if_pos hl, swapPairs_eq _ (by omega)]
      simp only [Option.map_some]
      rw [take_odd_even q _ (by rw [swapEach_length]; exact hd), List.length_take, swapEach_length]
      exact ⟨rfl, by omega⟩
    · rw [if_neg hl, if_neg hl]
      simp only [Option.map_some]
      rw [take_odd_even q _ hd, List.length_take]
      exact ⟨rfl, by omega⟩
  case readRawBytes a q rt =>
    have hlen : q.toNat ≤ d.length := by unfold regsForBytes at hd; omega
    rw [take_odd_even q _ hd, List.length_take]
    exact ⟨rfl, by omega⟩

theorem byteCounted_length {n : Nat} {pl : Bytes} (h : ByteCounted n pl) : (pl.drop 1).length = n := h.2

/-- L3: decoding the raw result of an accepted payload gives the values of the spec -/
theorem view_decode {cfg : Cfg} {op : Op} {c : Core} (hv : CoreView cfg op c)
    (he : cfg.endian ≠ .invalid) (hw : cfg.word ≠ .invalid) (res : Pdu)
    (hpos : CorePos c res.payload) :
    op.decode cfg (coreRaw c res.payload) = some (decodeReply cfg op res) ∧
    valCount (decodeReply cfg op res) = requestedCount op := by
  cases hv with
  | bits di q hfn hq =>
    have hfn' : fn op = .readCoils ∨ fn op = .readDiscreteInputs := by cases di <;> simp [hfn]
    obtain ⟨h1, h2, h3⟩ := bits_ops (cfg := cfg) hfn'
    simp only [coreRaw]
    rw [h1, h2, h3, hq]
    exact ⟨rfl, bitsOf_length _ _⟩
  | regs qty rt hfn hrt hq =>
    subst hq
    exact regs_ops hfn he hw res hpos.2
  | coil a v h =>
    subst h; exact ⟨rfl, rfl⟩
  | coils a vs h =>
    subst h; exact ⟨rfl, rfl⟩
  | reg a v h =>
    subst h; exact ⟨rfl, rfl⟩
  | mregs pay hfn hlen =>
    obtain ⟨h1, h2⟩ := write_ops (cfg := cfg) (op := op) (Or.inr (Or.inr (Or.inr hfn)))
    simp only [coreRaw]
    rw [decode_done, h1, h2]
    exact ⟨rfl, rfl⟩

/-! ### the PDU-level theorems -/

section pdu
variable {cfg : Cfg} {op : Op} {c : Core} {fc : Byte} {p : Bytes}

theorem sound_pdu (he : cfg.endian ≠ .invalid) (hw : cfg.word ≠ .invalid)
    (hcore : op.core cfg = some c) (hreq : c.request = .ok (fc, p))
    {res res' : Pdu} {raw : Raw} {v : Val}
    (hu : unitCheck cfg.unitId (.ok res) = .ok res')
    (hval : c.validate fc res' = some (.ok raw)) (hdec : op.decode cfg raw = some v) :
    PositiveReply cfg op res ∧ v = decodeReply cfg op res ∧ valCount v = requestedCount op := by
  have hv := core_view hcore
  have hres : res' = res := by
    have := unitCheck_ok_inv hu; injection this with this; exact this.symm
  subst hres
  obtain ⟨hfc, hpos, hraw⟩ := (validate_ok_iff hreq (view_endianOk hv he) _ _).mp hval
  have hbit := (fc_facts fc (request_fc hreq)).1
  have hunit := (unitCheck_pos (u := cfg.unitId) (res := res') (by rw [hfc]; exact hbit)).mp hu
  obtain ⟨hd, hcnt⟩ := view_decode hv he hw res' hpos
  rw [hraw, hd] at hdec
  injection hdec with hdec
  subst hdec
  exact ⟨⟨hunit, hfc.trans (view_fc hv hreq), (view_pos hv hreq _).mp hpos⟩, rfl, hcnt⟩

theorem complete_pdu (he : cfg.endian ≠ .invalid) (hw : cfg.word ≠ .invalid)
    (hcore : op.core cfg = some c) (hreq : c.request = .ok (fc, p))
    {res : Pdu} (hpos : PositiveReply cfg op res) :
    unitCheck cfg.unitId (.ok res) = .ok res ∧
    ∃ raw, c.validate fc res = some (.ok raw) ∧
      op.decode cfg raw = some (decodeReply cfg op res) := by
  have hv := core_view hcore
  obtain ⟨hunit, hfc, hpl⟩ := hpos
  have hfc' : res.fc = fc := hfc.trans (view_fc hv hreq).symm
  have hbit := (fc_facts fc (request_fc hreq)).1
  have hcp := (view_pos hv hreq _).mpr hpl
  refine ⟨(unitCheck_pos (by rw [hfc']; exact hbit)).mpr hunit, coreRaw c res.payload, ?_, ?_⟩
  · exact (validate_ok_iff hreq (view_endianOk hv he) _ _).mpr ⟨hfc', hcp, rfl⟩
  · exact (view_decode hv he hw res hcp).1

theorem exception_pdu (hcore : op.core cfg = some c) (hreq : c.request = .ok (fc, p))
    {res : Pdu} {code : Byte} (hex : ExceptionReply cfg op res code) :
    unitCheck cfg.unitId (.ok res) = .ok res ∧
    c.validate fc res = some (.error (exceptionError code)) := by
  have hv := core_view hcore
  obtain ⟨hunit, hfc, hpl⟩ := hex
  rw [← view_fc hv hreq] at hfc
  have hbit := (fc_facts fc (request_fc hreq)).2.2
  exact ⟨unitCheck_exc (by rw [hfc]; exact hbit) hunit, validate_exception hreq res code hfc hpl⟩

end pdu
/-! ### no panic, for every configuration (valid selectors or not) -/

/-- the kind of raw result a core call can produce -/
def RawShape : Core → Raw → Prop
  | .readBools .., raw => ∃ l, raw = .bools l
  | .readRegs _ qty _, raw => ∃ b, raw = .bytes b ∧ b.length = 2 * qty
  | _, raw => raw = .done

theorem positive_ok_shape (c : Core) (pl : Bytes) (raw : Raw)
    (h : c.positive pl = some (.ok raw)) : RawShape c raw := by
  cases c with
  | readBools di a q =>
    simp only [Core.positive] at h
    generalize (1 + q.toNat / 8 + if q.toNat % 8 ≠ 0 then 1 else 0) = E at h
    split at h; · exact absurd h protoErr_ne
    split at h; · exact absurd h protoErr_ne
    split at h
    · next l _ => exact ⟨l, (ok_eq_iff.mp h)⟩
    · cases h
  | readRegs a qty rt =>
    simp only [Core.positive] at h
    split at h; · exact absurd h protoErr_ne
    split at h; · exact absurd h protoErr_ne
    next h1 _ =>
      refine ⟨_, ok_eq_iff.mp h, ?_⟩
      have h1 := Decidable.not_not.mp h1
      rw [List.length_drop, h1]; omega
  | writeCoil a v =>
    simp only [Core.positive] at h
    split at h; · exact absurd h protoErr_ne
    exact ok_eq_iff.mp h
  | writeCoils a vs =>
    simp only [Core.positive] at h
    split at h; · exact absurd h protoErr_ne
    exact ok_eq_iff.mp h
  | writeRegs a pay =>
    simp only [Core.positive] at h
    split at h; · exact absurd h protoErr_ne
    exact ok_eq_iff.mp h
  | writeReg e a v =>
    simp only [Core.positive] at h
    split at h; · exact absurd h protoErr_ne
    split at h; · exact absurd h protoErr_ne
    split at h
    · cases h
    · split at h
      · exact absurd h protoErr_ne
      · exact ok_eq_iff.mp h

theorem validate_ok_shape (c : Core) (fc : Byte) (res : Pdu) (raw : Raw)
    (h : c.validate fc res = some (.ok raw)) : RawShape c raw := by
  unfold Core.validate at h
  split at h
  · exact positive_ok_shape c _ raw h
  · split at h
    · split at h <;> simp [protoErr] at h
    · simp [protoErr] at h

theorem regs_total {cfg : Cfg} {op : Op} (hfn : fn op = .readRegisters) (d : Bytes)
    (hd : d.length = 2 * items op) : op.decode cfg (.bytes d) ≠ none := by
  cases op <;> simp [fn] at hfn <;> simp only [Op.decode, items] at hd ⊢
  case readRegisters a q rt | readRegister a rt =>
    simp only [ne_eq, Option.map_eq_none_iff, u16s_none_iff]; omega
  case readUint32s a q rt | readUint32 a rt | readFloat32s a q rt | readFloat32 a rt =>
    simp only [ne_eq, Option.map_eq_none_iff, u32s_none_iff]; omega
  case readUint64s a q rt | readUint64 a rt | readFloat64s a q rt | readFloat64 a rt =>
    simp only [ne_eq, Option.map_eq_none_iff, u64s_none_iff]; omega
  case readBytes a q rt =>
    simp only [ne_eq, Option.map_eq_none_iff]
    split
    · exact swapPairs_ne_none _ (by omega)
    · simp
  case readRawBytes a q rt => simp

theorem decode_total {cfg : Cfg} {op : Op} {c : Core} (hv : CoreView cfg op c) (raw : Raw)
    (hs : RawShape c raw) : op.decode cfg raw ≠ none := by
  cases hv with
  | bits di q hfn hq =>
    have hfn' : fn op = .readCoils ∨ fn op = .readDiscreteInputs := by cases di <;> simp [hfn]
    obtain ⟨l, rfl⟩ := hs
    rw [(bits_ops (cfg := cfg) hfn').1]; simp
  | regs qty rt hfn hrt hq =>
    obtain ⟨b, rfl, hb⟩ := hs
    exact regs_total hfn b (hq ▸ hb)
  | coil a v h => rw [show raw = .done from hs, decode_done]; simp
  | coils a vs h => rw [show raw = .done from hs, decode_done]; simp
  | reg a v h => rw [show raw = .done from hs, decode_done]; simp
  | mregs pay hfn hlen => rw [show raw = .done from hs, decode_done]; simp

/-! ### (E) the call as a function of what the transport read -/

/-- everything `Op.run` does with the transport's read result -/
def pduOutcome (cfg : Cfg) (op : Op) (c : Core) (fc : Byte) (r : Except Err Pdu) :
    Option (Except Err Val) :=
  match unitCheck cfg.unitId r with
  | .error err => some (.error err)
  | .ok res =>
    match c.validate fc res with
    | none => none
    | some (.error err) => some (.error err)
    | some (.ok raw) => (op.decode cfg raw).map .ok

theorem run_rejected {cfg : Cfg} {op : Op} {c : Core} {err : Err} (st : TState) (arrivals : Bytes)
    (e : Ending) (hcore : op.core cfg = some c) (hreq : c.request = .error err) :
    op.run cfg st arrivals e = { written := none, result := some (.error err), state := st } := by
  simp only [Op.run, hcore, Core.exchange, hreq]

theorem run_accepted {cfg : Cfg} {op : Op} {c : Core} {fc : Byte} {p : Bytes} (st : TState)
    (arrivals : Bytes) (e : Ending) (hcore : op.core cfg = some c) (hreq : c.request = .ok (fc, p)) :
    op.run cfg st arrivals e =
      { written := some (frameFor cfg.kind st ⟨cfg.unitId, fc, p⟩).1,
        result := pduOutcome cfg op c fc
          (transportRead cfg.kind (frameFor cfg.kind st ⟨cfg.unitId, fc, p⟩).2 (st.pending ++ arrivals) e).1,
        state := ⟨(frameFor cfg.kind st ⟨cfg.unitId, fc, p⟩).2,
          (transportRead cfg.kind (frameFor cfg.kind st ⟨cfg.unitId, fc, p⟩).2 (st.pending ++ arrivals) e).2⟩ } := by
  simp only [Op.run, hcore, Core.exchange, hreq, pduOutcome]
  cases unitCheck cfg.unitId _ <;> rfl

theorem pduOutcome_ne_none {cfg : Cfg} {op : Op} {c : Core} (fc : Byte) (r : Except Err Pdu)
    (hcore : op.core cfg = some c) : pduOutcome cfg op c fc r ≠ none := by
  unfold pduOutcome
  split
  · simp
  · next res _ =>
    split
    · next h => exact absurd h (validate_ne_none c fc res)
    · simp
    · next raw h =>
      have := decode_total (core_view hcore) raw (validate_ok_shape c fc res raw h)
      simpa using this

theorem run_total (cfg : Cfg) (op : Op) (st : TState) (arrivals : Bytes) (e : Ending) :
    (op.run cfg st arrivals e).result ≠ none := by
  cases hcore : op.core cfg with
  | none => exact absurd hcore (core_ne_none cfg op)
  | some c =>
    cases hreq : c.request with
    | error err => rw [run_rejected st arrivals e hcore hreq]; simp
    | ok fp =>
      obtain ⟨fc, p⟩ := fp
      rw [run_accepted st arrivals e hcore hreq]
      exact pduOutcome_ne_none fc _ hcore

theorem pduOutcome_ok_inv {cfg : Cfg} {op : Op} {c : Core} {fc : Byte} {r : Except Err Pdu} {v : Val}
    (h : pduOutcome cfg op c fc r = some (.ok v)) :
    ∃ res raw, r = .ok res ∧ unitCheck cfg.unitId (.ok res) = .ok res ∧
      c.validate fc res = some (.ok raw) ∧ op.decode cfg raw = some v := by
  unfold pduOutcome at h
  split at h
  · cases h
  · next res hu =>
    have hr := unitCheck_ok_inv hu
    subst hr
    split at h
    · cases h
    · cases h
    · next raw hval =>
      refine ⟨res, raw, rfl, hu, hval, ?_⟩
      cases hd : op.decode cfg raw with
      | none => rw [hd] at h; cases h
      | some v' => rw [hd] at h; simp at h; rw [h]

theorem pduOutcome_ok {cfg : Cfg} {op : Op} {c : Core} {fc : Byte} {res : Pdu} {raw : Raw} {v : Val}
    (hu : unitCheck cfg.unitId (.ok res) = .ok res) (hval : c.validate fc res = some (.ok raw))
    (hd : op.decode cfg raw = some v) : pduOutcome cfg op c fc (.ok res) = some (.ok v) := by
  simp only [pduOutcome, hu, hval, hd, Option.map_some]

theorem pduOutcome_err {cfg : Cfg} {op : Op} {c : Core} {fc : Byte} {res : Pdu} {err : Err}
    (hu : unitCheck cfg.unitId (.ok res) = .ok res) (hval : c.validate fc res = some (.error err)) :
    pduOutcome cfg op c fc (.ok res) = some (.error err) := by
  simp only [pduOutcome, hu, hval]

theorem pduOutcome_timeout (cfg : Cfg) (op : Op) (c : Core) (fc : Byte) :
    pduOutcome cfg op c fc (.error .ioTimeout) = some (.error .requestTimedOut) := rfl

theorem frameFor_mbap {k : Kind} (hk : k.isRtu = false) (st : TState) (p : Pdu) :
    frameFor k st p = (Mbap.assemble (st.lastTxn + 1) p, st.lastTxn + 1) := by
  simp [frameFor, hk]

theorem frameFor_rtu {k : Kind} (hk : k.isRtu = true) (st : TState) (p : Pdu) :
    frameFor k st p = (Rtu.assemble p, st.lastTxn) := by
  simp [frameFor, hk]

theorem transportRead_mbap {k : Kind} (hk : k.isRtu = false) (txn : U16) (s : Bytes) (e : Ending) :
    transportRead k txn s e = Mbap.readResponse txn s e := by
  simp [transportRead, hk]

theorem transportRead_rtu {k : Kind} (hk : k.isRtu = true) (txn : U16) (s : Bytes) (e : Ending) :
    transportRead k txn s e = Rtu.afterRead (Rtu.readFrame s e) := by
  simp [transportRead, hk]

theorem transportRead_silence (k : Kind) (txn : U16) :
    transportRead k txn [] .timeout = (.error .ioTimeout, []) := by
  cases hk : k.isRtu
  · rw [transportRead_mbap hk, Mbap.readResponse_nil]; rfl
  · rw [transportRead_rtu hk]; rfl

theorem byteCounted_total_length {n : Nat} {pl : Bytes} (h : ByteCounted n pl) : pl.length = 1 + n := by
  have := congrArg List.length h.1
  rw [List.length_append, h.2] at this
  simpa using this

theorem corePos_length {c : Core} {fc : Byte} {p : Bytes} (hreq : c.request = .ok (fc, p))
    {pl : Bytes} (h : CorePos c pl) : pl.length ≤ 252 := by
  cases c with
  | readBools di a q =>
    have := (request_readBools hreq).1
    have hl := byteCounted_total_length h
    unfold coilLen at hl; omega
  | readRegs a qty rt =>
    have := (request_readRegs hreq).1
    have hl := byteCounted_total_length h
    omega
  | writeCoil a v => simp only [CorePos] at h; rw [h]; cases v <;> simp [be16]
  | writeCoils a vs => simp only [CorePos] at h; rw [h]; simp [be16]
  | writeReg e a v => simp only [CorePos] at h; rw [h]; cases e <;> simp [be16, layout16, regs16, regBytes]
  | writeRegs a pay => simp only [CorePos] at h; rw [h]; simp [be16]

section mbap
variable {cfg : Cfg} {op : Op} {c : Core} {fc : Byte} {p : Bytes}

theorem positive_length (hcore : op.core cfg = some c) (hreq : c.request = .ok (fc, p))
    {res : Pdu} (hpos : PositiveReply cfg op res) : res.payload.length ≤ 252 :=
  corePos_length hreq ((view_pos (core_view hcore) hreq _).mpr hpos.2.2)

theorem sound_mbap (he : cfg.endian ≠ .invalid) (hw : cfg.word ≠ .invalid) (hk : cfg.kind.isRtu = false)
    (hcore : op.core cfg = some c) (hreq : c.request = .ok (fc, p))
    {st : TState} {arrivals : Bytes} {e : Ending} {v : Val}
    (h : (op.run cfg st arrivals e).result = some (.ok v)) :
    ∃ pre res post,
      st.pending ++ arrivals = pre ++ Mbap.assemble (st.lastTxn + 1) res ++ post ∧
      Mbap.Skippable (st.lastTxn + 1) pre ∧ PositiveReply cfg op res ∧
      v = decodeReply cfg op res ∧ valCount v = requestedCount op ∧
      (op.run cfg st arrivals e).state = ⟨st.lastTxn + 1, post⟩ := by
  rw [run_accepted st arrivals e hcore hreq] at h ⊢
  simp only [frameFor_mbap hk, transportRead_mbap hk] at h ⊢
  obtain ⟨res, raw, hr, hu, hval, hd⟩ := pduOutcome_ok_inv h
  cases hrr : Mbap.readResponse (st.lastTxn + 1) (st.pending ++ arrivals) e with
  | mk r post =>
    rw [hrr] at hr; simp only at hr; subst hr
    obtain ⟨pre, hpre, _, hs⟩ := Mbap.readResponse_ok_inv _ _ _ (Nat.le_refl _) hrr
    obtain ⟨h1, h2, h3⟩ := sound_pdu he hw hcore hreq hu hval hd
    exact ⟨pre, res, post, hs, hpre, h1, h2, h3, rfl⟩

theorem readResponse_own {txn : U16} {pre : Bytes} (res : Pdu) (post : Bytes) (e : Ending)
    (hpre : Mbap.Skippable txn pre) (hp : res.payload.length ≤ 252) :
    Mbap.readResponse txn (pre ++ Mbap.assemble txn res ++ post) e = (.ok res, post) := by
  rw [List.append_assoc, Mbap.readResponse_skip _ e hpre,
    Mbap.readResponse_ok (Mbap.readFrame_assemble txn res post e hp), if_pos rfl]

theorem complete_mbap (he : cfg.endian ≠ .invalid) (hw : cfg.word ≠ .invalid) (hk : cfg.kind.isRtu = false)
    (hcore : op.core cfg = some c) (hreq : c.request = .ok (fc, p))
    {st : TState} {arrivals pre post : Bytes} {res : Pdu} (e : Ending)
    (hpre : Mbap.Skippable (st.lastTxn + 1) pre) (hpos : PositiveReply cfg op res)
    (hs : st.pending ++ arrivals = pre ++ Mbap.assemble (st.lastTxn + 1) res ++ post) :
    (op.run cfg st arrivals e).result = some (.ok (decodeReply cfg op res)) ∧
    (op.run cfg st arrivals e).state = ⟨st.lastTxn + 1, post⟩ := by
  rw [run_accepted st arrivals e hcore hreq]
  simp only [frameFor_mbap hk, transportRead_mbap hk, hs,
    readResponse_own res post e hpre (positive_length hcore hreq hpos)]
  obtain ⟨hu, raw, hval, hd⟩ := complete_pdu he hw hcore hreq hpos
  exact ⟨pduOutcome_ok hu hval hd, trivial⟩

theorem exception_mbap (hk : cfg.kind.isRtu = false)
    (hcore : op.core cfg = some c) (hreq : c.request = .ok (fc, p))
    {st : TState} {arrivals pre post : Bytes} {res : Pdu} {code : Byte} (e : Ending)
    (hpre : Mbap.Skippable (st.lastTxn + 1) pre) (hex : ExceptionReply cfg op res code)
    (hs : st.pending ++ arrivals = pre ++ Mbap.assemble (st.lastTxn + 1) res ++ post) :
    (op.run cfg st arrivals e).result = some (.error (exceptionError code)) ∧
    (op.run cfg st arrivals e).state = ⟨st.lastTxn + 1, post⟩ := by
  rw [run_accepted st arrivals e hcore hreq]
  have hlen : res.payload.length ≤ 252 := by rw [hex.2.2]; simp
  simp only [frameFor_mbap hk, transportRead_mbap hk, hs, readResponse_own res post e hpre hlen]
  obtain ⟨hu, hval⟩ := exception_pdu hcore hreq hex
  exact ⟨pduOutcome_err hu hval, trivial⟩

theorem silence_is_timeout (hcore : op.core cfg = some c) (hreq : c.request = .ok (fc, p))
    {st : TState} (hp : st.pending = []) :
    (op.run cfg st [] .timeout).result = some (.error .requestTimedOut) := by
  rw [run_accepted st [] .timeout hcore hreq]
  simp only [hp, List.append_nil, transportRead_silence, pduOutcome_timeout]

end mbap
/-! ### RTU kinds -/

theorem byteCounted_head {n : Nat} (hn : n < 256) {pl : Bytes} (h : ByteCounted n pl) :
    pl ≠ [] ∧ (pl.getD 0 0).toNat = pl.length - 1 := by
  have := (byteCounted_iff n hn pl).mp h
  refine ⟨?_, by omega⟩
  intro h0; rw [h0] at this; simp at this; omega

theorem corePos_consistent {c : Core} {fc : Byte} {p : Bytes} (hreq : c.request = .ok (fc, p))
    {res : Pdu} (hfc : res.fc = fc) (h : CorePos c res.payload) : Rtu.Consistent res := by
  have hlen := corePos_length hreq h
  refine ⟨?_, ?_, by omega⟩
  · intro h0
    rw [h0] at h
    cases c with
    | readBools di a q => exact absurd h.1 (by simp)
    | readRegs a qty rt => exact absurd h.1 (by simp)
    | writeCoil a v => simp [CorePos, be16] at h
    | writeCoils a vs => simp [CorePos, be16] at h
    | writeReg e a v => simp [CorePos, be16] at h
    | writeRegs a pay => simp [CorePos, be16] at h
  · rw [hfc]
    cases c with
    | readBools di a q =>
      obtain ⟨hq, hfc'⟩ := request_readBools hreq
      have := (byteCounted_head (by unfold coilLen; omega) h).2
      rw [hfc', ← this]; cases di <;> simp [Rtu.expectedResponseLength]
    | readRegs a qty rt =>
      obtain ⟨hq, hrt, hfc'⟩ := request_readRegs hreq
      have := (byteCounted_head (by omega) h).2
      rw [hfc', ← this]; rcases hrt with rfl | rfl <;> simp [Rtu.expectedResponseLength]
    | writeCoil a v =>
      simp only [CorePos] at h
      rw [request_writeCoil hreq, h]; cases v <;> simp [Rtu.expectedResponseLength, be16]
    | writeCoils a vs =>
      simp only [CorePos] at h
      rw [(request_writeCoils hreq).2, h]; simp [Rtu.expectedResponseLength, be16]
    | writeReg e a v =>
      simp only [CorePos] at h
      rw [request_writeReg hreq, h]
      cases e <;> simp [Rtu.expectedResponseLength, be16, layout16, regs16, regBytes]
    | writeRegs a pay =>
      simp only [CorePos] at h
      rw [(request_writeRegs hreq).2, h]; simp [Rtu.expectedResponseLength, be16]

theorem exception_consistent {c : Core} {fc : Byte} {p : Bytes} (hreq : c.request = .ok (fc, p))
    {res : Pdu} {code : Byte} (hfc : res.fc = (fc ||| 0x80)) (hp : res.payload = [code]) :
    Rtu.Consistent res := by
  have hexp : ∀ f ∈ ([0x01, 0x02, 0x03, 0x04, 0x05, 0x06, 0x0f, 0x10] : List Byte), ∀ b,
      Rtu.expectedResponseLength (f ||| 0x80) b = .ok 0 := by
    intro f hf b
    simp only [List.mem_cons, List.not_mem_nil, or_false] at hf
    rcases hf with rfl | rfl | rfl | rfl | rfl | rfl | rfl | rfl <;> rfl
  refine ⟨by rw [hp]; simp, ?_, by rw [hp]; simp⟩
  rw [hfc, hp, hexp fc (request_fc hreq)]; rfl

section rtu
variable {cfg : Cfg} {op : Op} {c : Core} {fc : Byte} {p : Bytes}

theorem positive_consistent (hcore : op.core cfg = some c) (hreq : c.request = .ok (fc, p))
    {res : Pdu} (hpos : PositiveReply cfg op res) : Rtu.Consistent res :=
  have hv := core_view hcore
  corePos_consistent hreq (hpos.2.1.trans (view_fc hv hreq).symm) ((view_pos hv hreq _).mpr hpos.2.2)

theorem sound_rtu (he : cfg.endian ≠ .invalid) (hw : cfg.word ≠ .invalid) (hk : cfg.kind.isRtu = true)
    (hcore : op.core cfg = some c) (hreq : c.request = .ok (fc, p))
    {st : TState} {arrivals : Bytes} {e : Ending} {v : Val}
    (h : (op.run cfg st arrivals e).result = some (.ok v)) :
    ∃ res post,
      st.pending ++ arrivals = Rtu.assemble res ++ post ∧ Rtu.Consistent res ∧
      PositiveReply cfg op res ∧ v = decodeReply cfg op res ∧ valCount v = requestedCount op ∧
      (op.run cfg st arrivals e).state = ⟨st.lastTxn, post⟩ := by
  rw [run_accepted st arrivals e hcore hreq] at h ⊢
  simp only [frameFor_rtu hk, transportRead_rtu hk] at h ⊢
  obtain ⟨res, raw, hr, hu, hval, hd⟩ := pduOutcome_ok_inv h
  rw [Rtu.afterRead_fst] at hr
  cases hrr : Rtu.readFrame (st.pending ++ arrivals) e with
  | mk r post =>
    rw [hrr] at hr; simp only at hr; subst hr
    obtain ⟨hc, hs⟩ := Rtu.readFrame_ok_inv hrr
    obtain ⟨h1, h2, h3⟩ := sound_pdu he hw hcore hreq hu hval hd
    exact ⟨res, post, hs, hc, h1, h2, h3, rfl⟩

theorem complete_rtu (he : cfg.endian ≠ .invalid) (hw : cfg.word ≠ .invalid) (hk : cfg.kind.isRtu = true)
    (hcore : op.core cfg = some c) (hreq : c.request = .ok (fc, p))
    {st : TState} {arrivals post : Bytes} {res : Pdu} (e : Ending)
    (hpos : PositiveReply cfg op res)
    (hs : st.pending ++ arrivals = Rtu.assemble res ++ post) :
    (op.run cfg st arrivals e).result = some (.ok (decodeReply cfg op res)) ∧
    (op.run cfg st arrivals e).state = ⟨st.lastTxn, post⟩ := by
  rw [run_accepted st arrivals e hcore hreq]
  simp only [frameFor_rtu hk, transportRead_rtu hk, hs,
    Rtu.readFrame_assemble post e (positive_consistent hcore hreq hpos), Rtu.afterRead_ok]
  obtain ⟨hu, raw, hval, hd⟩ := complete_pdu he hw hcore hreq hpos
  exact ⟨pduOutcome_ok hu hval hd, trivial⟩

theorem exception_rtu (hk : cfg.kind.isRtu = true)
    (hcore : op.core cfg = some c) (hreq : c.request = .ok (fc, p))
    {st : TState} {arrivals post : Bytes} {res : Pdu} {code : Byte} (e : Ending)
    (hex : ExceptionReply cfg op res code)
    (hs : st.pending ++ arrivals = Rtu.assemble res ++ post) :
    (op.run cfg st arrivals e).result = some (.error (exceptionError code)) ∧
    (op.run cfg st arrivals e).state = ⟨st.lastTxn, post⟩ := by
  rw [run_accepted st arrivals e hcore hreq]
  have hcons : Rtu.Consistent res :=
    exception_consistent hreq (by rw [hex.2.1, view_fc (core_view hcore) hreq]) hex.2.2
  simp only [frameFor_rtu hk, transportRead_rtu hk, hs, Rtu.readFrame_assemble post e hcons,
    Rtu.afterRead_ok]
  obtain ⟨hu, hval⟩ := exception_pdu hcore hreq hex
  exact ⟨pduOutcome_err hu hval, trivial⟩

end rtu
/-! ### the spec decoders are the two-sided inverses of the documented layout -/

theorem wireRegs_layout16 (e : Endian) (he : e ≠ .invalid) (d : Bytes) (hd : d.length % 2 = 0) :
    (wireRegs e d).flatMap (layout16 e) = d := by
  obtain ⟨vs, h1, h2⟩ := EncLemmas.u16s_converse e he d hd
  rw [u16s_eq_wireRegs e d hd] at h1
  injection h1 with h1
  rw [h1, ← h2, Enc.uint16sToBytes]
  congr 1; funext v; exact (EncLemmas.layout16 e v).symm

theorem layout16_wireRegs (e : Endian) (he : e ≠ .invalid) (vs : List U16) :
    wireRegs e (vs.flatMap (layout16 e)) = vs := by
  have hf : vs.flatMap (layout16 e) = Enc.uint16sToBytes e vs := by
    rw [Enc.uint16sToBytes]; congr 1; funext v; exact (EncLemmas.layout16 e v).symm
  have h := EncLemmas.u16s_roundtrip e he vs
  rw [u16s_eq_wireRegs e _ (by
    rw [Enc.uint16sToBytes, flatMap_length_const _ 2 (u16bytes_length e)]; omega)] at h
  rw [hf]; injection h

theorem join32_layout32 (e : Endian) (w : WordOrder) (he : e ≠ .invalid) (hw : w ≠ .invalid)
    (d : Bytes) (hd : d.length % 4 = 0) :
    (join32 w (wireRegs e d)).flatMap (layout32 e w) = d := by
  obtain ⟨vs, h1, h2⟩ := EncLemmas.u32s_converse e w he hw d hd
  rw [u32s_eq_join e w he hw d hd] at h1
  injection h1 with h1
  rw [h1, ← h2]
  congr 1; funext v; exact (EncLemmas.layout32 e w he hw v).symm

theorem layout32_join32 (e : Endian) (w : WordOrder) (he : e ≠ .invalid) (hw : w ≠ .invalid)
    (vs : List U32) : join32 w (wireRegs e (vs.flatMap (layout32 e w))) = vs := by
  have hf : vs.flatMap (layout32 e w) = vs.flatMap (Enc.uint32ToBytes e w) := by
    congr 1; funext v; exact (EncLemmas.layout32 e w he hw v).symm
  have h := EncLemmas.u32s_roundtrip e w he hw vs
  rw [u32s_eq_join e w he hw _ (by
    rw [flatMap_length_const _ 4 (u32bytes_length e w)]; omega)] at h
  rw [hf]; injection h

theorem join64_layout64 (e : Endian) (w : WordOrder) (he : e ≠ .invalid) (hw : w ≠ .invalid)
    (d : Bytes) (hd : d.length % 8 = 0) :
    (join64 w (wireRegs e d)).flatMap (layout64 e w) = d := by
  obtain ⟨vs, h1, h2⟩ := EncLemmas.u64s_converse e w he hw d hd
  rw [u64s_eq_join e w he hw d hd] at h1
  injection h1 with h1
  rw [h1, ← h2]
  congr 1; funext v; exact (EncLemmas.layout64 e w he hw v).symm

theorem layout64_join64 (e : Endian) (w : WordOrder) (he : e ≠ .invalid) (hw : w ≠ .invalid)
    (vs : List U64) : join64 w (wireRegs e (vs.flatMap (layout64 e w))) = vs := by
  have hf : vs.flatMap (layout64 e w) = vs.flatMap (Enc.uint64ToBytes e w) := by
    congr 1; funext v; exact (EncLemmas.layout64 e w he hw v).symm
  have h := EncLemmas.u64s_roundtrip e w he hw vs
  rw [u64s_eq_join e w he hw _ (by
    rw [flatMap_length_const _ 8 (u64bytes_length e w)]; omega)] at h
  rw [hf]; injection h

theorem bitsOf_packBools (bs : List Bool) : bitsOf (packBools bs) bs.length = bs := by
  have h := EncLemmas.decode_encode bs
  rw [EncLemmas.encodeBools_eq_spec,
    decodeBools_eq_bitsOf _ _ (by simp [packBools])] at h
  injection h

end Modbus.ClientResp
