import ModbusVerif.Model.IoTrace
import ModbusVerif.Lemmas.MbapLemmas
import ModbusVerif.Lemmas.RtuLemmas
import ModbusVerif.Lemmas.ClientRespLemmas
/-
  Lemmas for property C07 (bounded completion of a client call):
  * the `Read` calls of `io.ReadFull` (`rfTrace`);
  * one iteration of the MBAP skip loop (`mbapFrameStep`) against `Mbap.readFrame`: same
    continue/stop decision, same consumption (`step_spec`); progress (from
    `Mbap.readFrame_progress`), fuel independence, the fuel-free unfolding and an induction
    principle along the loop iterations;
  * the RTU read ops against `Rtu.readFrame` / `Rtu.afterRead`;
  * the symbolic clock: accumulated A-deadline (`run_io`), A-sleep (`run_sleep`), the two
    elapsed-time bounds;
  * client level: a transport-level i/o timeout is reported as ErrRequestTimedOut.
-/
namespace Modbus.Io
open Modbus Modbus.Strm Modbus.Mbap

def Op.isEnd : Op → Bool
  | .readEnd .. => true
  | _ => false
def hasEnd (t : List Op) : Bool := t.any Op.isEnd

theorem gotSum_append (a b : List Op) : gotSum (a ++ b) = gotSum a + gotSum b := by
  induction a with
  | nil => simp [gotSum]
  | cons x a ih => simp [gotSum, ih]; omega

theorem rfTrace_isRead (n a : Nat) : ∀ op ∈ rfTrace n a, op.isRead = true := by
  unfold rfTrace
  intro op h
  split at h
  · simp at h
  · split at h
    · simp at h; subst h; rfl
    · split at h
      · simp at h; subst h; rfl
      · simp at h; rcases h with rfl | rfl <;> rfl

theorem rfTrace_length_le (n a : Nat) : (rfTrace n a).length ≤ 2 := by
  unfold rfTrace; repeat' split
  all_goals simp

theorem gotSum_rfTrace (n a : Nat) : gotSum (rfTrace n a) = min n a := by
  unfold rfTrace
  split
  · simp [gotSum]; omega
  · split
    · simp [gotSum, Op.got]; omega
    · split
      · simp [gotSum, Op.got]; omega
      · simp [gotSum, Op.got]; omega

theorem hasEnd_rfTrace (n a : Nat) : hasEnd (rfTrace n a) = decide (a < n) := by
  unfold rfTrace hasEnd
  split
  · simp; omega
  · split
    · simp [Op.isEnd]; omega
    · split
      · simp [Op.isEnd]; omega
      · simp [Op.isEnd]; omega

theorem hasEnd_append (a b : List Op) : hasEnd (a ++ b) = (hasEnd a || hasEnd b) := by
  simp [hasEnd]

theorem rfTrace_full {n a : Nat} (h0 : 0 < n) (h : n ≤ a) : rfTrace n a = [.read n n] := by
  unfold rfTrace; rw [if_neg (by omega), if_pos h]

def cont (txn : U16) : Frame × Bytes → Option Bytes
  | (.err .unknownProtocolId, rest) => some rest
  | (.err _, _) => none
  | (.ok _ t, rest) => if t = txn then none else some rest

def Step.rest? : Step → Option Bytes
  | .stop _ => none
  | .next _ r => some r

theorem shortErr_ne_protocolError (n : Nat) (e : Ending) : shortErr n e ≠ .protocolError := by
  unfold shortErr
  cases e <;> split <;> simp [Ending.err]

theorem cont_shortErr (txn : U16) (k : Nat) (e : Ending) (r : Bytes) :
    cont txn (.err (shortErr k e), r) = none := by
  have h := shortErr_ne_unknownProtocolId k e
  unfold cont
  split
  · next heq => injection heq with h1 _; injection h1 with h1; exact absurd h1 h
  · rfl
  · next heq => injection heq with h1 _; cases h1

/-- everything the proofs need about one loop iteration, against `Mbap.readFrame` -/
theorem step_spec (txn : U16) (s : Bytes) (e : Ending) :
    (mbapFrameStep txn s).rest? = cont txn (readFrame s e) ∧
    gotSum (mbapFrameStep txn s).ops + (readFrame s e).2.length = s.length ∧
    (∀ op ∈ (mbapFrameStep txn s).ops, op.isRead = true) ∧
    (mbapFrameStep txn s).ops.length ≤ 3 ∧
    ((mbapFrameStep txn s).rest?.isSome → (mbapFrameStep txn s).ops.length = 2 ∧ hasEnd (mbapFrameStep txn s).ops = false) ∧
    (hasEnd (mbapFrameStep txn s).ops = true ↔ ∃ k, (readFrame s e).1 = .err (shortErr k e)) := by
  have hpe : ∀ k, Err.protocolError ≠ shortErr k e := fun k h => shortErr_ne_protocolError k e h.symm
  have hup : ∀ k, Err.unknownProtocolId ≠ shortErr k e := fun k h => shortErr_ne_unknownProtocolId k e h.symm
  unfold mbapFrameStep readFrame
  by_cases h7 : mbapHeaderLength ≤ s.length
  · rw [if_pos h7, readFull_ok_of_le e h7]
    simp only []
    have hhdr : rfTrace mbapHeaderLength s.length = [.read 7 7] := rfTrace_full (by decide) h7
    rw [hhdr]
    have hrl : (List.drop mbapHeaderLength s).length + 7 = s.length := by
      simp only [mbapHeaderLength] at h7 ⊢; rw [List.length_drop]; omega
    generalize (mk16 ((List.take mbapHeaderLength s).getD 4 0) ((List.take mbapHeaderLength s).getD 5 0)).toNat = len
    generalize mk16 ((List.take mbapHeaderLength s).getD 2 0) ((List.take mbapHeaderLength s).getD 3 0) = proto
    generalize mk16 ((List.take mbapHeaderLength s).getD 0 0) ((List.take mbapHeaderLength s).getD 1 0) = t
    generalize (List.take mbapHeaderLength s).getD 6 0 = u
    generalize List.drop mbapHeaderLength s = rest at hrl ⊢
    by_cases c1 : len + mbapHeaderLength > maxTCPFrameLength + 1
    · rw [if_pos c1, if_pos c1]
      simp [Step.rest?, Step.ops, cont, gotSum, Op.got, Op.isRead, hasEnd, Op.isEnd]
      exact ⟨by omega, hpe⟩
    · rw [if_neg c1, if_neg c1]
      by_cases c2 : len ≤ 1
      · rw [if_pos c2, if_pos c2]
        simp [Step.rest?, Step.ops, cont, gotSum, Op.got, Op.isRead, hasEnd, Op.isEnd]
        exact ⟨by omega, hpe⟩
      · rw [if_neg c2, if_neg c2]
        by_cases c3 : len - 1 ≤ rest.length
        · rw [if_pos c3, readFull_ok_of_le e c3, rfTrace_full (by omega) c3]
          simp only []
          by_cases c4 : proto ≠ 0
          · rw [if_pos c4, if_pos c4]
            simp [Step.rest?, Step.ops, cont, gotSum, Op.got, Op.isRead, hasEnd, Op.isEnd]
            exact ⟨by omega, hup⟩
          · rw [if_neg c4, if_neg c4]
            by_cases c5 : t = txn
            · rw [if_pos c5]
              simp [Step.rest?, Step.ops, cont, gotSum, Op.got, Op.isRead, hasEnd, Op.isEnd, c5]
              omega
            · rw [if_neg c5]
              simp [Step.rest?, Step.ops, cont, gotSum, Op.got, Op.isRead, hasEnd, Op.isEnd, c5]
              omega
        · rw [if_neg c3, readFull_short_of_lt e (by omega)]
          simp only [Step.rest?, Step.ops, cont_shortErr, List.length_nil, Nat.add_zero,
            gotSum_append, gotSum_rfTrace, List.length_append, Option.isSome_none]
          refine ⟨trivial, ?_, ?_, ?_, ?_, ?_⟩
          · simp [gotSum, Op.got]; omega
          · intro op hop
            rcases List.mem_append.mp hop with h | h
            · simp at h; subst h; rfl
            · exact rfTrace_isRead _ _ op h
          · have := rfTrace_length_le (len - 1) rest.length
            simp; omega
          · intro h; cases h
          · constructor
            · intro _; exact ⟨_, rfl⟩
            · intro _
              rw [hasEnd_append, hasEnd_rfTrace]
              simp; omega
  · rw [if_neg h7, readFull_short_of_lt e (by omega)]
    simp only [Step.rest?, Step.ops, cont_shortErr, List.length_nil, Nat.add_zero,
      gotSum_rfTrace, Option.isSome_none]
    refine ⟨trivial, by omega, rfTrace_isRead _ _, ?_, ?_, ?_⟩
    · have := rfTrace_length_le mbapHeaderLength s.length; omega
    · intro h; cases h
    · constructor
      · intro _; exact ⟨_, rfl⟩
      · intro _; rw [hasEnd_rfTrace]; simp; omega

/-! ### the skip loop -/

theorem cont_some_inv {txn : U16} {r : Frame} {rest rest' : Bytes} (h : cont txn (r, rest) = some rest') :
    rest' = rest ∧ (r = .err .unknownProtocolId ∨ ∃ p t, t ≠ txn ∧ r = .ok p t) := by
  unfold cont at h
  split at h
  · next heq =>
    injection heq with h1 h2; subst h1 h2
    injection h with h; exact ⟨h.symm, Or.inl rfl⟩
  · cases h
  · next p t rest0 heq =>
    injection heq with h1 h2; subst h1 h2
    split at h
    · cases h
    · next hne => injection h with h; exact ⟨h.symm, Or.inr ⟨p, t, hne, rfl⟩⟩

/-- a loop iteration that goes round again has consumed at least 8 bytes
    (`MbapLemmas.readFrame_progress`) -/
theorem step_progress {txn : U16} {s rest : Bytes} {ops : List Op}
    (h : mbapFrameStep txn s = .next ops rest) : rest.length + 8 ≤ s.length := by
  have h1 := (step_spec txn s .timeout).1
  rw [h] at h1
  simp only [Step.rest?] at h1
  cases hrf : readFrame s .timeout with
  | mk r rest0 =>
    rw [hrf] at h1
    obtain ⟨hr, hk⟩ := cont_some_inv h1.symm
    subst hr
    apply readFrame_progress hrf
    rcases hk with hk | ⟨p, t, _, hk⟩
    · exact Or.inl hk
    · exact Or.inr ⟨p, t, hk⟩

theorem mbapReadsAux_stop {fuel : Nat} {txn : U16} {s : Bytes} {ops : List Op}
    (h : mbapFrameStep txn s = .stop ops) : mbapReadsAux (fuel + 1) txn s = some ops := by
  rw [mbapReadsAux, h]

theorem mbapReadsAux_next {fuel : Nat} {txn : U16} {s rest : Bytes} {ops : List Op}
    (h : mbapFrameStep txn s = .next ops rest) :
    mbapReadsAux (fuel + 1) txn s = (mbapReadsAux fuel txn rest).map (ops ++ ·) := by
  rw [mbapReadsAux, h]
  simp only []
  cases mbapReadsAux fuel txn rest <;> rfl

/-- with more fuel than bytes the fuel-exhausted branch is never reached -/
theorem mbapReadsAux_isSome (txn : U16) :
    ∀ (fuel : Nat) (s : Bytes), s.length < fuel → (mbapReadsAux fuel txn s).isSome = true := by
  intro fuel
  induction fuel with
  | zero => intro s h; omega
  | succ fuel ih =>
    intro s h
    cases hst : mbapFrameStep txn s with
    | stop ops => rw [mbapReadsAux_stop hst]; rfl
    | next ops rest =>
      have := step_progress hst
      rw [mbapReadsAux_next hst]
      have := ih rest (by omega)
      cases hr : mbapReadsAux fuel txn rest with
      | none => rw [hr] at this; cases this
      | some t => rfl

/-- any fuel above the stream length gives the same trace -/
theorem mbapReadsAux_fuel (txn : U16) :
    ∀ (f1 f2 : Nat) (s : Bytes), s.length < f1 → s.length < f2 →
      mbapReadsAux f1 txn s = mbapReadsAux f2 txn s := by
  intro f1
  induction f1 with
  | zero => intro f2 s h; omega
  | succ f1 ih =>
    intro f2 s h1 h2
    cases f2 with
    | zero => omega
    | succ f2 =>
      cases hst : mbapFrameStep txn s with
      | stop ops => rw [mbapReadsAux_stop hst, mbapReadsAux_stop hst]
      | next ops rest =>
        have := step_progress hst
        rw [mbapReadsAux_next hst, mbapReadsAux_next hst, ih f2 rest (by omega) (by omega)]

theorem mbapReadsAux_eq_some {fuel : Nat} {txn : U16} {s : Bytes} (h : s.length < fuel) :
    mbapReadsAux fuel txn s = some (mbapReads txn s) := by
  unfold mbapReads
  rw [mbapReadsAux_fuel txn fuel (s.length + 1) s h (by omega)]
  have := mbapReadsAux_isSome txn (s.length + 1) s (by omega)
  cases hr : mbapReadsAux (s.length + 1) txn s with
  | none => rw [hr] at this; cases this
  | some t => rfl

/-- the trace of the skip loop without fuel -/
theorem mbapReads_eq (txn : U16) (s : Bytes) :
    mbapReads txn s =
      match mbapFrameStep txn s with
      | .stop ops => ops
      | .next ops rest => ops ++ mbapReads txn rest := by
  have h := mbapReadsAux_eq_some (txn := txn) (s := s) (fuel := s.length + 1) (by omega)
  cases hst : mbapFrameStep txn s with
  | stop ops =>
    rw [mbapReadsAux_stop hst] at h
    injection h with h; exact h.symm
  | next ops rest =>
    have := step_progress hst
    rw [mbapReadsAux_next hst, mbapReadsAux_eq_some (by omega)] at h
    injection h with h; exact h.symm

theorem mbapReads_stop {txn : U16} {s : Bytes} {ops : List Op}
    (h : mbapFrameStep txn s = .stop ops) : mbapReads txn s = ops := by
  rw [mbapReads_eq, h]

theorem mbapReads_next {txn : U16} {s rest : Bytes} {ops : List Op}
    (h : mbapFrameStep txn s = .next ops rest) : mbapReads txn s = ops ++ mbapReads txn rest := by
  rw [mbapReads_eq, h]

/-- induction along the iterations of the skip loop -/
theorem loop_induct (txn : U16) {P : Bytes → Prop}
    (hstop : ∀ s ops, mbapFrameStep txn s = .stop ops → P s)
    (hnext : ∀ s ops rest, mbapFrameStep txn s = .next ops rest → rest.length + 8 ≤ s.length →
      P rest → P s) : ∀ s, P s := by
  have : ∀ n (s : Bytes), s.length ≤ n → P s := by
    intro n
    induction n with
    | zero =>
      intro s hn
      cases hst : mbapFrameStep txn s with
      | stop ops => exact hstop s ops hst
      | next ops rest => have := step_progress hst; omega
    | succ n ih =>
      intro s hn
      cases hst : mbapFrameStep txn s with
      | stop ops => exact hstop s ops hst
      | next ops rest =>
        have := step_progress hst
        exact hnext s ops rest hst this (ih rest (by omega))
  exact fun s => this s.length s (Nat.le_refl _)

/-! ### value level: the loop decisions of `readResponse` through `cont` -/

def frameResult : Frame → Except Err Pdu
  | .err e => .error e
  | .ok p _ => .ok p

theorem readResponse_stop {txn : U16} {s : Bytes} {e : Ending}
    (h : cont txn (readFrame s e) = none) :
    readResponse txn s e = (frameResult (readFrame s e).1, (readFrame s e).2) := by
  rw [readResponse_eq]
  cases hrf : readFrame s e with
  | mk r rest =>
    rw [hrf] at h
    cases r with
    | ok p t =>
      simp only [cont] at h
      by_cases ht : t = txn
      · simp only [ht, if_true]; rfl
      · rw [if_neg ht] at h; cases h
    | err err =>
      by_cases hu : err = .unknownProtocolId
      · subst hu; simp [cont] at h
      · cases err <;> first | rfl | exact absurd rfl hu

theorem readResponse_next {txn : U16} {s rest : Bytes} {e : Ending}
    (h : cont txn (readFrame s e) = some rest) :
    readResponse txn s e = readResponse txn rest e := by
  cases hrf : readFrame s e with
  | mk r rest0 =>
    rw [hrf] at h
    obtain ⟨hr, hk⟩ := cont_some_inv h
    subst hr
    rcases hk with hk | ⟨p, t, ht, hk⟩
    · subst hk; exact readResponse_skipProto hrf
    · subst hk; rw [readResponse_ok hrf, if_neg ht]

/-! ### properties of the MBAP read trace -/

theorem mbapReads_isRead (txn : U16) : ∀ s, ∀ op ∈ mbapReads txn s, op.isRead = true := by
  refine loop_induct txn (P := fun s => ∀ op ∈ mbapReads txn s, op.isRead = true) ?_ ?_
  · intro s ops hst
    rw [mbapReads_stop hst]
    have := (step_spec txn s .timeout).2.2.1
    rwa [hst] at this
  · intro s ops rest hst _ ih
    rw [mbapReads_next hst]
    have := (step_spec txn s .timeout).2.2.1
    rw [hst] at this
    intro op hop
    rcases List.mem_append.mp hop with h | h
    · exact this op h
    · exact ih op h

theorem mbapReads_length_le (txn : U16) : ∀ s, (mbapReads txn s).length ≤ 2 * (s.length / 8) + 3 := by
  refine loop_induct txn (P := fun s => (mbapReads txn s).length ≤ 2 * (s.length / 8) + 3) ?_ ?_
  · intro s ops hst
    rw [mbapReads_stop hst]
    have := (step_spec txn s .timeout).2.2.2.1
    rw [hst] at this
    simp only [Step.ops] at this
    omega
  · intro s ops rest hst hprog ih
    rw [mbapReads_next hst, List.length_append]
    have := ((step_spec txn s .timeout).2.2.2.2.1 (by rw [hst]; rfl)).1
    rw [hst] at this
    simp only [Step.ops] at this
    omega

theorem mbapReads_consumption (txn : U16) (e : Ending) :
    ∀ s, gotSum (mbapReads txn s) + (readResponse txn s e).2.length = s.length := by
  refine loop_induct txn
    (P := fun s => gotSum (mbapReads txn s) + (readResponse txn s e).2.length = s.length) ?_ ?_
  · intro s ops hst
    obtain ⟨h1, h2, _⟩ := step_spec txn s e
    rw [hst] at h1 h2
    rw [mbapReads_stop hst, readResponse_stop h1.symm]
    exact h2
  · intro s ops rest hst hprog ih
    obtain ⟨h1, h2, _⟩ := step_spec txn s e
    rw [hst] at h1 h2
    simp only [Step.rest?, Step.ops] at h1 h2
    rw [mbapReads_next hst, readResponse_next h1.symm, gotSum_append]
    cases hrf : readFrame s e with
    | mk r rest0 =>
      rw [hrf] at h1 h2
      obtain ⟨hr, _⟩ := cont_some_inv h1.symm
      subst hr
      simp only at h2
      omega

theorem mbapReads_hasEnd (txn : U16) (e : Ending) :
    ∀ s, hasEnd (mbapReads txn s) = true ↔ ∃ k, (readResponse txn s e).1 = .error (shortErr k e) := by
  refine loop_induct txn (P := fun s => hasEnd (mbapReads txn s) = true ↔
    ∃ k, (readResponse txn s e).1 = .error (shortErr k e)) ?_ ?_
  · intro s ops hst
    obtain ⟨h1, _, _, _, _, h6⟩ := step_spec txn s e
    rw [hst] at h1 h6
    rw [mbapReads_stop hst, readResponse_stop h1.symm]
    simp only [Step.ops] at h6
    rw [h6]
    cases (readFrame s e).1 with
    | ok p t => simp [frameResult]
    | err err => simp [frameResult]
  · intro s ops rest hst hprog ih
    obtain ⟨h1, _, _, _, h5, _⟩ := step_spec txn s e
    rw [hst] at h1 h5
    simp only [Step.rest?, Step.ops] at h1 h5
    rw [mbapReads_next hst, readResponse_next h1.symm, hasEnd_append, (h5 rfl).2, Bool.false_or]
    exact ih

/-! ### RTU -/

theorem rtuReadOps_isRead (s : Bytes) : ∀ op ∈ rtuReadOps s, op.isRead = true := by
  intro op hop
  unfold rtuReadOps at hop
  rcases List.mem_append.mp hop with h | h
  · exact rfTrace_isRead _ _ op h
  · split at h
    · simp only [] at h
      split at h
      · simp at h
      · split at h
        · simp at h
        · exact rfTrace_isRead _ _ op h
    · simp at h

theorem rtuReadOps_consumption (s : Bytes) (e : Ending) :
    gotSum (rtuReadOps s) + (Rtu.readFrame s e).2.length = s.length := by
  unfold rtuReadOps Rtu.readFrame
  rw [gotSum_append, gotSum_rfTrace]
  by_cases h3 : 3 ≤ s.length
  · rw [if_pos h3, readFull_ok_of_le e h3]
    simp only []
    have hrl : (List.drop 3 s).length + 3 = s.length := by rw [List.length_drop]; omega
    cases hl : Rtu.expectedResponseLength ((List.take 3 s).getD 1 0) ((List.take 3 s).getD 2 0) with
    | error err => simp only [gotSum]; omega
    | ok n =>
      simp only []
      by_cases c1 : 3 + (n + 2) > Rtu.maxRTUFrameLength
      · rw [if_pos c1, if_pos c1]; simp only [gotSum]; omega
      · rw [if_neg c1, if_neg c1, gotSum_rfTrace]
        by_cases c2 : n + 2 ≤ (List.drop 3 s).length
        · rw [readFull_ok_of_le e c2]
          simp only []
          split <;> (simp only [List.length_drop]; omega)
        · rw [readFull_short_of_lt e (by omega)]
          simp only []
          split
          · simp only [List.length_nil]; omega
          · split <;> (simp only [List.length_nil]; omega)
  · rw [if_neg h3, readFull_short_of_lt e (by omega)]
    simp only []
    split <;> (simp only [gotSum, List.length_nil]; omega)


theorem gotSum_resyncOps (rate k : Nat) : gotSum (resyncOps rate k) = min 1024 k := by
  unfold resyncOps
  rw [gotSum_append, gotSum_rfTrace]
  simp [gotSum, Op.got, Rtu.discardLen]

/-- the tail is empty, or the resynchronisation sequence on the unread rest -/
theorem rtuTail_cases (rate : Nat) (r : (Except Err Pdu) × Bytes) :
    (rtuTail rate r = [] ∧ Rtu.afterRead r = r) ∨
    (rtuTail rate r = resyncOps rate r.2.length ∧ (Rtu.afterRead r).2 = r.2.drop Rtu.discardLen) := by
  obtain ⟨x, rest⟩ := r
  cases x with
  | ok p => exact Or.inl ⟨rfl, rfl⟩
  | error err =>
    cases err <;> first | exact Or.inl ⟨rfl, rfl⟩ | exact Or.inr ⟨rfl, rfl⟩

theorem rtu_consumption (rate : Nat) (s : Bytes) (e : Ending) :
    gotSum (rtuReadOps s ++ rtuTail rate (Rtu.readFrame s e)) +
      (Rtu.afterRead (Rtu.readFrame s e)).2.length = s.length := by
  have h := rtuReadOps_consumption s e
  rw [gotSum_append]
  rcases rtuTail_cases rate (Rtu.readFrame s e) with ⟨h1, h2⟩ | ⟨h1, h2⟩
  · rw [h1, h2]; simp only [gotSum]; omega
  · rw [h1, h2, gotSum_resyncOps, List.length_drop]
    simp only [Rtu.discardLen]; omega

/-! ### clock -/

theorem runClock_cons (ε : Nat) (c : Clock) (op : Op) (d : Nat) (rest : List (Op × Nat)) :
    runClock ε c ((op, d) :: rest) = if durOk ε c op d then runClock ε (c.step op d) rest else none := rfl

/-- running a trace that starts with `op` -/
theorem run_cons_inv {ε : Nat} {c c' : Clock} {durs : List (Op × Nat)} {op : Op} {ops : List Op}
    (hmap : durs.map Prod.fst = op :: ops) (hrun : runClock ε c durs = some c') :
    ∃ d rest, rest.map Prod.fst = ops ∧ durOk ε c op d ∧ runClock ε (c.step op d) rest = some c' := by
  cases durs with
  | nil => cases hmap
  | cons x rest =>
    obtain ⟨op', d⟩ := x
    simp only [List.map_cons, List.cons.injEq] at hmap
    obtain ⟨rfl, hrest⟩ := hmap
    rw [runClock_cons] at hrun
    by_cases hd : durOk ε c op' d
    · rw [if_pos hd] at hrun; exact ⟨d, rest, hrest, hd, hrun⟩
    · rw [if_neg hd] at hrun; cases hrun

/-- running a concatenation -/
theorem run_append_inv {ε : Nat} {a b : List Op} :
    ∀ {c c' : Clock} {durs : List (Op × Nat)}, durs.map Prod.fst = a ++ b →
      runClock ε c durs = some c' →
      ∃ da db c1, da.map Prod.fst = a ∧ db.map Prod.fst = b ∧
        runClock ε c da = some c1 ∧ runClock ε c1 db = some c' := by
  induction a with
  | nil =>
    intro c c' durs hmap hrun
    exact ⟨[], durs, c, rfl, by simpa using hmap, rfl, hrun⟩
  | cons op a ih =>
    intro c c' durs hmap hrun
    obtain ⟨d, rest, hrest, hd, hrun'⟩ := run_cons_inv (by simpa using hmap) hrun
    obtain ⟨da, db, c1, h1, h2, h3, h4⟩ := ih hrest hrun'
    refine ⟨(op, d) :: da, db, c1, by simp [h1], h2, ?_, h4⟩
    rw [runClock_cons, if_pos hd, h3]

/-- `run_cons_inv`, also saying what the list of durations is -/
theorem run_cons_inv_eq {ε : Nat} {c c' : Clock} {durs : List (Op × Nat)} {op : Op} {ops : List Op}
    (hmap : durs.map Prod.fst = op :: ops) (hrun : runClock ε c durs = some c') :
    ∃ d rest, durs = (op, d) :: rest ∧ rest.map Prod.fst = ops ∧ durOk ε c op d ∧
      runClock ε (c.step op d) rest = some c' := by
  cases durs with
  | nil => cases hmap
  | cons x rest =>
    obtain ⟨op', d⟩ := x
    simp only [List.map_cons, List.cons.injEq] at hmap
    obtain ⟨rfl, hrest⟩ := hmap
    rw [runClock_cons] at hrun
    by_cases hd : durOk ε c op' d
    · rw [if_pos hd] at hrun; exact ⟨d, rest, rfl, hrest, hd, hrun⟩
    · rw [if_neg hd] at hrun; cases hrun

/-- `run_append_inv`, also saying how the list of durations splits -/
theorem run_append_inv_eq {ε : Nat} {a b : List Op} :
    ∀ {c c' : Clock} {durs : List (Op × Nat)}, durs.map Prod.fst = a ++ b →
      runClock ε c durs = some c' →
      ∃ da db c1, durs = da ++ db ∧ da.map Prod.fst = a ∧ db.map Prod.fst = b ∧
        runClock ε c da = some c1 ∧ runClock ε c1 db = some c' := by
  induction a with
  | nil =>
    intro c c' durs hmap hrun
    exact ⟨[], durs, c, rfl, rfl, by simpa using hmap, rfl, hrun⟩
  | cons op a ih =>
    intro c c' durs hmap hrun
    obtain ⟨d, rest, hdurs, hrest, hd, hrun'⟩ := run_cons_inv_eq (by simpa using hmap) hrun
    obtain ⟨da, db, c1, h0, h1, h2, h3, h4⟩ := ih hrest hrun'
    refine ⟨(op, d) :: da, db, c1, by rw [hdurs, h0]; rfl, by simp [h1], h2, ?_, h4⟩
    rw [runClock_cons, if_pos hd, h3]

/-- A-deadline, accumulated: any number of reads and writes under an armed deadline `D` ends no
    later than `D` (or at once, if started after `D`), and leaves the deadline alone -/
theorem run_io {ε D : Nat} {ops : List Op} (hio : ∀ op ∈ ops, op.isIO = true) :
    ∀ {c c' : Clock} {durs : List (Op × Nat)}, durs.map Prod.fst = ops → c.deadline = some D →
      runClock ε c durs = some c' → c'.deadline = some D ∧ c'.now ≤ max c.now D := by
  induction ops with
  | nil =>
    intro c c' durs hmap hD hrun
    have : durs = [] := by simpa using hmap
    subst this
    injection hrun with hrun; subst hrun
    exact ⟨hD, Nat.le_max_left _ _⟩
  | cons op ops ih =>
    intro c c' durs hmap hD hrun
    obtain ⟨d, rest, hrest, hd, hrun'⟩ := run_cons_inv hmap hrun
    have hop := hio op List.mem_cons_self
    have hstep : (c.step op d).deadline = some D ∧ (c.step op d).now ≤ max c.now D := by
      cases op <;> simp only [Op.isIO] at hop <;> try cases hop
      all_goals
        simp only [durOk, hD] at hd
        exact ⟨hD, hd⟩
    obtain ⟨h1, h2⟩ := ih (fun o ho => hio o (List.mem_cons_of_mem _ ho)) hrest hstep.1 hrun'
    refine ⟨h1, ?_⟩
    have := hstep.2
    omega

theorem isIO_of_isRead {op : Op} (h : op.isRead = true) : op.isIO = true := by
  cases op <;> first | rfl | cases h

/-- A-sleep: one `Sleep(ns)` ends no later than `now + ns + ε` -/
theorem run_sleep {ε ns : Nat} {c c' : Clock} {durs : List (Op × Nat)}
    (hmap : durs.map Prod.fst = [.sleep ns]) (hrun : runClock ε c durs = some c') :
    c'.deadline = c.deadline ∧ c'.now ≤ c.now + ns + ε ∧ c.now + ns ≤ c'.now := by
  obtain ⟨d, rest, hrest, hd, hrun'⟩ := run_cons_inv hmap hrun
  have : rest = [] := by simpa using hrest
  subst this
  injection hrun' with hrun'; subst hrun'
  simp only [durOk] at hd
  simp only [Clock.step]
  exact ⟨trivial, by omega, by omega⟩

theorem run_setDeadline {ε rel : Nat} {c c' : Clock} {durs : List (Op × Nat)}
    (hmap : durs.map Prod.fst = [.setDeadline rel]) (hrun : runClock ε c durs = some c') :
    c' = ⟨c.now, some (c.now + rel)⟩ := by
  obtain ⟨d, rest, hrest, hd, hrun'⟩ := run_cons_inv hmap hrun
  have : rest = [] := by simpa using hrest
  subst this
  injection hrun' with hrun'; subst hrun'
  simp only [durOk] at hd
  subst hd
  rfl

/-- the assumptions are satisfiable for every trace: e.g. every read and write returns at once
    and no sleep oversleeps -/
def minDurs : List Op → List (Op × Nat)
  | [] => []
  | .sleep ns :: t => (.sleep ns, ns) :: minDurs t
  | op :: t => (op, 0) :: minDurs t

theorem minDurs_fst (t : List Op) : (minDurs t).map Prod.fst = t := by
  induction t with
  | nil => rfl
  | cons op t ih => cases op <;> simp [minDurs, ih]

theorem minDurs_runs (ε : Nat) (t : List Op) : ∀ c, (runClock ε c (minDurs t)).isSome = true := by
  induction t with
  | nil => intro c; rfl
  | cons op t ih =>
    intro c
    have hd : durOk ε c op (match op with | .sleep ns => ns | _ => 0) := by
      obtain ⟨now, dl⟩ := c
      cases op <;> cases dl <;> simp [durOk] <;> omega
    cases op <;> (simp only [minDurs, runClock_cons]; rw [if_pos (by simpa using hd)]; exact ih _)

/-! ### elapsed time -/

/-- one absolute deadline armed at `t0`, then reads and writes only: the end is no later than
    `t0 + T`, whatever the clock's previous deadline was -/
theorem elapsed_single_deadline {ε T t0 : Nat} {dl0 : Option Nat} {ops : List Op}
    (hio : ∀ op ∈ ops, op.isIO = true) {durs : List (Op × Nat)} {c' : Clock}
    (hmap : durs.map Prod.fst = .setDeadline T :: ops)
    (hrun : runClock ε ⟨t0, dl0⟩ durs = some c') :
    c'.now ≤ t0 + T ∧ c'.deadline = some (t0 + T) := by
  obtain ⟨d, rest, hrest, hd, hrun'⟩ := run_cons_inv hmap hrun
  simp only [durOk] at hd
  subst hd
  obtain ⟨h1, h2⟩ := run_io (D := t0 + T) hio hrest rfl hrun'
  simp only [Clock.step, Nat.add_zero] at h2
  exact ⟨by omega, h1⟩

theorem mbapTrace_io (L : Nat) (txn : U16) (s : Bytes) :
    ∀ op ∈ Op.write L :: mbapReads txn s, op.isIO = true := by
  intro op hop
  rcases List.mem_cons.mp hop with rfl | h
  · rfl
  · exact isIO_of_isRead (mbapReads_isRead txn s op h)

theorem rfTrace_isIO (n a : Nat) : ∀ op ∈ rfTrace n a, op.isIO = true :=
  fun op h => isIO_of_isRead (rfTrace_isRead n a op h)

/-- worst-case end of an RTU exchange under the clock semantics. `tW`: the clock when `Write`
    is called, `dWr`: the time `Write` takes (A-deadline: it returns by the FIRST deadline
    `t0 + T`). The reads run under the SECOND deadline, armed when the post-transmission sleep
    is over: they end no later than `T` after it was armed. -/
theorem elapsed_rtu {ε T rate L w post t0 : Nat} {dl0 : Option Nat} {s : Bytes} {e : Ending}
    {durs : List (Op × Nat)} {c' : Clock}
    (hmap : durs.map Prod.fst = rtuTrace T rate L w post s e)
    (hrun : runClock ε ⟨t0, dl0⟩ durs = some c') :
    ∃ tW dWr, (Op.write L, dWr) ∈ durs ∧ t0 + w ≤ tW ∧ tW ≤ t0 + (if w > 0 then w + ε else 0) ∧
      tW + dWr ≤ max tW (t0 + T) ∧
      c'.now ≤ tW + dWr + (post + ε) + T + (Timing.maxRTUFrameLength * Timing.t1 rate + ε + 500000) ∧
      (rtuTail rate (Rtu.readFrame s e) = [] → c'.now ≤ tW + dWr + (post + ε) + T) := by
  unfold rtuTrace at hmap
  obtain ⟨d1, dTail, c6, e1, h1, hTail, r1, rTail⟩ := run_append_inv_eq hmap hrun
  obtain ⟨d2, dR, c5, e2, h2, hR, r2, rR⟩ := run_append_inv_eq h1 r1
  obtain ⟨d3, dM, c2, e3, h3, hM, r3, rM⟩ := run_append_inv_eq h2 r2
  obtain ⟨dA, dW, c1, _, hA, hW, rA, rW⟩ := run_append_inv_eq h3 r3
  -- SetDeadline(now + T)
  have hc1 := run_setDeadline hA rA
  simp only at hc1
  -- the optional pre-transmission sleep
  have hc2 : c2.deadline = some (t0 + T) ∧ t0 + w ≤ c2.now ∧
      c2.now ≤ t0 + (if w > 0 then w + ε else 0) := by
    by_cases hw : w > 0
    · rw [if_pos hw] at hW ⊢
      obtain ⟨h1, h2, h2'⟩ := run_sleep hW rW
      rw [hc1] at h1 h2 h2'
      simp only at h2 h2'
      exact ⟨h1, by omega, by omega⟩
    · rw [if_neg hw] at hW ⊢
      have : dW = [] := by simpa using hW
      subst this
      injection rW with rW
      rw [← rW, hc1]
      exact ⟨rfl, by simp only; omega, Nat.le_refl _⟩
  -- Write, under the first deadline
  obtain ⟨dWr, dRest, e4, hRest, hdWr, rRest⟩ :=
    run_cons_inv_eq (op := .write L) (ops := [.sleep post, .setDeadline T]) hM rM
  simp only [durOk, hc2.1] at hdWr
  -- the post-transmission sleep, then SetDeadline(now + T) again
  obtain ⟨dSl, dSd, c4, _, hSl, hSd, rSl, rSd⟩ :=
    run_append_inv_eq (a := [.sleep post]) (b := [.setDeadline T]) hRest rRest
  obtain ⟨_, hc4, _⟩ := run_sleep hSl rSl
  simp only [Clock.step] at hc4
  have hc5 := run_setDeadline hSd rSd
  -- readRTUFrame, under the second deadline
  obtain ⟨hc6d, hc6⟩ := run_io (D := c4.now + T)
    (fun op h => isIO_of_isRead (rtuReadOps_isRead s op h)) hR (by rw [hc5]) rR
  rw [hc5] at hc6
  simp only at hc6
  have hmem : (Op.write L, dWr) ∈ durs := by
    rw [e1, e2, e3, e4]; simp
  have hbase : c6.now ≤ c2.now + dWr + (post + ε) + T := by omega
  refine ⟨c2.now, dWr, hmem, hc2.2.1, hc2.2.2, hdWr, ?_⟩
  rcases rtuTail_cases rate (Rtu.readFrame s e) with ⟨ht, _⟩ | ⟨ht, _⟩
  · rw [ht] at hTail
    have : dTail = [] := by simpa using hTail
    subst this
    injection rTail with rTail
    subst rTail
    exact ⟨by omega, fun _ => hbase⟩
  · rw [ht] at hTail ⊢
    unfold resyncOps at hTail
    obtain ⟨dS, dF, c8, hS, hF, rS, rF⟩ := run_append_inv hTail rTail
    obtain ⟨dS1, dS2, c7, hS1, hS2, rS1, rS2⟩ := run_append_inv
      (a := [.sleep (Timing.maxRTUFrameLength * Timing.t1 rate)]) (b := [.setDeadline 500000]) hS rS
    obtain ⟨_, hc7, _⟩ := run_sleep hS1 rS1
    have hc8 := run_setDeadline hS2 rS2
    obtain ⟨_, hc'⟩ := run_io (D := c7.now + 500000) (rfTrace_isIO _ _) hF (by rw [hc8]) rF
    rw [hc8] at hc'
    simp only at hc'
    refine ⟨by omega, fun h => ?_⟩
    simp [resyncOps] at h

/-- the bound of `elapsed_rtu` in terms of the margin: `t0 + T + rtuMargin + dWr` -/
theorem rtuMargin_bound {ε T rate w post t0 tW dWr : Nat}
    (htW : tW ≤ t0 + (if w > 0 then w + ε else 0)) :
    tW + dWr + (post + ε) + T + (Timing.maxRTUFrameLength * Timing.t1 rate + ε + 500000) ≤
      t0 + T + rtuMargin rate w post ε + dWr := by
  unfold rtuMargin
  split at htW <;> rename_i hw <;> simp only [hw, if_true, if_false] <;> omega

/-- the margin shrinks as the baud rate grows -/
theorem rtuMargin_anti {r1 r2 : Nat} (h1 : 1 ≤ r1) (h : r1 ≤ r2) (w post ε : Nat) :
    rtuMargin r2 w post ε ≤ rtuMargin r1 w post ε := by
  have ht : Timing.t1 r2 ≤ Timing.t1 r1 := by
    unfold Timing.t1 Timing.charTime
    exact Nat.div_le_div_left h (by omega)
  have := Nat.mul_le_mul_left Timing.maxRTUFrameLength ht
  unfold rtuMargin
  omega

theorem rtuMargin_19200 (w post ε : Nat) :
    rtuMargin 19200 w post ε = (if w > 0 then w + ε else 0) + post + 2 * ε + 147166496 := by
  have : Timing.maxRTUFrameLength * Timing.t1 19200 = 146666496 := by decide
  unfold rtuMargin
  rw [this]
  omega

/-! ### client level -/

theorem shortErr_timeout (k : Nat) : shortErr k .timeout = .ioTimeout := by
  unfold shortErr; split <;> rfl

open Modbus.Client in
/-- whatever the transport, an i/o timeout out of `ExecuteRequest` is reported by the public
    call as ErrRequestTimedOut (`executeRequest`: `os.IsTimeout(err)`) -/
theorem run_of_transport_timeout {cfg : Cfg} {op : Client.Op} {c : Core} {fc : Byte} {p : Bytes}
    (hcore : op.core cfg = some c) (hreq : c.request = .ok (fc, p))
    {st : TState} {arrivals : Bytes} {e : Ending}
    (h : (transportRead cfg.kind (frameFor cfg.kind st ⟨cfg.unitId, fc, p⟩).2
      (st.pending ++ arrivals) e).1 = .error .ioTimeout) :
    (op.run cfg st arrivals e).result = some (.error .requestTimedOut) := by
  rw [ClientResp.run_accepted st arrivals e hcore hreq]
  simp only [h, ClientResp.pduOutcome_timeout]

/-! ### shape of the traces -/

theorem countDeadlines_append (a b : List Op) :
    countDeadlines (a ++ b) = countDeadlines a + countDeadlines b := by
  simp [countDeadlines]

theorem countDeadlines_reads {t : List Op} (h : ∀ op ∈ t, op.isRead = true) : countDeadlines t = 0 := by
  unfold countDeadlines
  rw [List.length_eq_zero_iff, List.filter_eq_nil_iff]
  intro op hop
  have := h op hop
  cases op <;> simp_all [Op.isRead, Op.isSetDeadline]

theorem filter_isRead_reads {t : List Op} (h : ∀ op ∈ t, op.isRead = true) : t.filter Op.isRead = t :=
  List.filter_eq_self.mpr h

theorem gotSum_mbapTrace (T L : Nat) (txn : U16) (s : Bytes) :
    gotSum (mbapTrace T L txn s) = gotSum (mbapReads txn s) := by
  simp [mbapTrace, gotSum, Op.got]

theorem hasEnd_mbapTrace (T L : Nat) (txn : U16) (s : Bytes) :
    hasEnd (mbapTrace T L txn s) = hasEnd (mbapReads txn s) := by
  simp [mbapTrace, hasEnd, Op.isEnd]

theorem hasEnd_iff (t : List Op) : hasEnd t = true ↔ ∃ n, Op.readEnd n ∈ t := by
  unfold hasEnd
  rw [List.any_eq_true]
  constructor
  · rintro ⟨op, hop, h⟩
    cases op <;> first | exact ⟨_, hop⟩ | cases h
  · rintro ⟨n, h⟩
    exact ⟨_, h, rfl⟩

/-- the part of the RTU trace between the two `SetDeadline(T)`: sleeps and the write -/
def rtuPre (L w post : Nat) : List Op :=
  (if w > 0 then [Op.sleep w] else []) ++ [.write L, .sleep post]

/-- `SetDeadline(T)`, sleeps and the write, `SetDeadline(T)` again, then reads and the tail -/
theorem rtuTrace_eq (T rate L w post : Nat) (s : Bytes) (e : Ending) :
    rtuTrace T rate L w post s e =
      .setDeadline T :: (rtuPre L w post ++
        .setDeadline T :: (rtuReadOps s ++ rtuTail rate (Rtu.readFrame s e))) := by
  simp [rtuTrace, rtuPre]

theorem rtuPre_spec (L w post : Nat) :
    (∀ op ∈ rtuPre L w post, op.isSetDeadline = false ∧ op.isRead = false) ∧
    gotSum (rtuPre L w post) = 0 ∧ countDeadlines (rtuPre L w post) = 0 := by
  unfold rtuPre
  split <;> simp [gotSum, Op.got, countDeadlines, Op.isSetDeadline, Op.isRead]

theorem rtuTail_shape (rate : Nat) (r : (Except Err Pdu) × Bytes) :
    rtuTail rate r = [] ∨
    rtuTail rate r = .sleep (256 * Timing.t1 rate) :: .setDeadline 500000 :: rfTrace 1024 r.2.length := by
  rcases rtuTail_cases rate r with ⟨h, _⟩ | ⟨h, _⟩
  · exact Or.inl h
  · exact Or.inr h

theorem countDeadlines_cons_setDeadline (T : Nat) (l : List Op) :
    countDeadlines (Op.setDeadline T :: l) = 1 + countDeadlines l := by
  unfold countDeadlines
  rw [List.filter_cons_of_pos (by rfl), List.length_cons]; omega

theorem countDeadlines_rtuTail (rate : Nat) (r : (Except Err Pdu) × Bytes) :
    countDeadlines (rtuTail rate r) = if rtuTail rate r = [] then 0 else 1 := by
  rcases rtuTail_shape rate r with h | h
  · rw [h]; simp [countDeadlines]
  · rw [h, if_neg (by simp)]
    have := countDeadlines_reads (rfTrace_isRead 1024 r.2.length)
    simp only [countDeadlines, List.filter_cons, Op.isSetDeadline] at this ⊢
    simp [this]

/-- exactly two deadlines per exchange, and a third one if (and only if) the exchange ends
    with the resynchronisation flush -/
theorem countDeadlines_rtuTrace (T rate L w post : Nat) (s : Bytes) (e : Ending) :
    countDeadlines (rtuTrace T rate L w post s e) =
      if rtuTail rate (Rtu.readFrame s e) = [] then 2 else 3 := by
  rw [rtuTrace_eq, countDeadlines_cons_setDeadline, countDeadlines_append,
    countDeadlines_cons_setDeadline, countDeadlines_append, (rtuPre_spec L w post).2.2,
    countDeadlines_reads (rtuReadOps_isRead s), countDeadlines_rtuTail]
  split <;> rfl

theorem gotSum_rtuTrace (T rate L w post : Nat) (s : Bytes) (e : Ending) :
    gotSum (rtuTrace T rate L w post s e) =
      gotSum (rtuReadOps s ++ rtuTail rate (Rtu.readFrame s e)) := by
  rw [rtuTrace_eq]
  simp only [gotSum, Op.got, gotSum_append, (rtuPre_spec L w post).2.1]
  omega

end Modbus.Io
