import ModbusVerif.Model.Lifecycle
/-
  Lemmas about the life-cycle model: the connection table as a function, the swap-with-last
  removal, the inductive invariant `Inv` (preserved by every step from every state that
  satisfies it, hence true in every reachable state), termination measure, admission sequences.
-/
namespace Modbus.Lifecycle

theorem find_put (l : List (ConnId × Conn)) (c c' : ConnId) (v : Conn) :
    find (put l c v) c' = if c' = c then some v else find l c' := by
  induction l with
  | nil => simp [put, find, eq_comm]
  | cons p r ih =>
    obtain ⟨k, w⟩ := p
    simp only [put]
    split <;> simp only [find] <;> grind

theorem keys_put (l : List (ConnId × Conn)) (c : ConnId) (v : Conn) :
    (put l c v).map Prod.fst = if c ∈ l.map Prod.fst then l.map Prod.fst else l.map Prod.fst ++ [c] := by
  induction l with
  | nil => simp [put]
  | cons p r ih =>
    obtain ⟨k, w⟩ := p
    simp only [put]
    split <;> grind

theorem find_mapVals (f : ConnId → Conn → Conn) (l : List (ConnId × Conn)) (c : ConnId) :
    find (l.map (fun p => (p.1, f p.1 p.2))) c = (find l c).map (f c) := by
  induction l with
  | nil => simp [find]
  | cons p r ih => obtain ⟨k, w⟩ := p; simp only [List.map, find]; grind

theorem swapRemove_cons (x : ConnId) (xs : List ConnId) (c : ConnId) :
    swapRemove (x :: xs) c =
      if x = c then (match xs.getLast? with | none => [] | some z => z :: xs.dropLast)
      else x :: swapRemove xs c := by
  unfold swapRemove
  rw [List.findIdx?_cons]
  by_cases h : x = c
  · subst h
    cases xs with
    | nil => simp
    | cons y ys =>
      have : (y :: ys).getLast? = some ((y :: ys).getLast (by simp)) := List.getLast?_eq_some_getLast _
      simp [List.getLast?_cons_cons, this]
  · have h' : (x == c) = false := by simpa using h
    simp only [h', h, if_false]
    cases hi : xs.findIdx? (· == c) with
    | none => simp
    | some i =>
      have hlt := (List.findIdx?_eq_some_iff_findIdx_eq.mp hi).1
      cases xs with
      | nil => simp at hlt
      | cons y ys =>
        simp [List.getLast?_cons_cons]
        rw [List.dropLast_cons_of_ne_nil]
        intro h0
        have := congrArg List.length h0
        simp at this

theorem swapRemove_perm (l : List ConnId) (c : ConnId) (h : c ∈ l) :
    (swapRemove l c).Perm (l.erase c) := by
  induction l with
  | nil => simp at h
  | cons x xs ih =>
    rw [swapRemove_cons]
    by_cases hx : x = c
    · subst hx
      simp only [if_true, List.erase_cons_head]
      cases hl : xs.getLast? with
      | none => simp at hl; simp [hl]
      | some z =>
        obtain ⟨ys, rfl⟩ := List.getLast?_eq_some_iff.mp hl
        simp only [List.dropLast_concat]
        exact (List.perm_append_singleton z ys).symm
    · have hc : c ∈ xs := by simpa [Ne.symm hx] using h
      have hx' : (x == c) = false := by simpa using hx
      simp only [hx, if_false, List.erase_cons, hx']
      exact (ih hc).cons x

theorem swapRemove_not_mem (l : List ConnId) (c : ConnId) (h : c ∉ l) : swapRemove l c = l := by
  induction l with
  | nil => rfl
  | cons x xs ih =>
    rw [swapRemove_cons]
    simp at h
    simp [Ne.symm h.1, ih h.2]

/-! ### the connection table seen as a function -/

@[simp] theorem conn_setConn (s : State) (c c' : ConnId) (k : Conn) :
    (s.setConn c k).conn c' = if c' = c then k else s.conn c' := by
  simp only [State.conn, State.setConn, find_put]; split <;> simp

@[simp] theorem conn_setPhase (s : State) (c c' : ConnId) (p : Phase) :
    (s.setPhase c p).conn c' = if c' = c then { s.conn c with phase := p } else s.conn c' := by
  simp [State.setPhase]

theorem conn_of_conns {s s' : State} (h : s'.conns = s.conns) (c : ConnId) : s'.conn c = s.conn c := by
  simp [State.conn, h]

theorem conn_fresh_of_find_none {s : State} {c : ConnId} (h : find s.conns c = none) :
    s.conn c = Conn.fresh := by simp [State.conn, h]

theorem find_ne_none_of_phase {s : State} {c : ConnId} (h : (s.conn c).phase ≠ .fresh) :
    find s.conns c ≠ none := by
  intro h0; rw [conn_fresh_of_find_none h0] at h; exact h rfl

structure Inv (s : State) : Prop where
  started_open : s.started = s.listenerOpen
  acc_len : s.acceptors.length = s.gen
  acc_gen : ∀ (i : Nat) (A : Acceptor), s.acceptors[i]? = some A → A.gen = i + 1
  acc_hold : ∀ (i g : Nat) (c : ConnId), s.acceptors[i]? = some (Acceptor.mk g (.holding c)) →
    (s.conn c).phase.held = true ∧ (s.conn c).gen = g
  backlog_nodup : s.backlog.Nodup
  backlog_iff : ∀ c, c ∈ s.backlog ↔ (s.conn c).phase = .backlog
  backlog_closed : s.listenerOpen = false → s.backlog = []
  clients_nodup : s.clients.Nodup
  clients_iff : ∀ c, c ∈ s.clients ↔ (s.conn c).phase.inList = true
  clients_le : s.clients.length ≤ s.maxClients
  stopped_closed : s.started = false → ∀ c ∈ s.clients, (s.conn c).sockClosed = true
  keys_nodup : (s.conns.map Prod.fst).Nodup
  served_phase : ∀ c, Event.served c ∈ s.log → (s.conn c).phase.session = true
  reject_iff : ∀ c, Event.reject c ∈ s.log ↔ (s.conn c).phase.isRejected = true
  admit_iff : ∀ c, Event.admit c ∈ s.log ↔ (s.conn c).phase.wasAdmitted = true
  term_closed : ∀ c, (s.conn c).phase.terminal = true → (s.conn c).sockClosed = true
  backlog_gen : ∀ c, (s.conn c).phase = .backlog → (s.conn c).gen = s.gen
  open_gen : s.listenerOpen = true → 1 ≤ s.gen
  conn_gen : ∀ c, (s.conn c).phase ≠ .fresh → 1 ≤ (s.conn c).gen ∧ (s.conn c).gen ≤ s.gen

theorem inv_init (m : Nat) : Inv (init m) := by
  constructor <;> simp [init, State.conn, find, Conn.fresh, Phase.inList, Phase.session,
    Phase.isRejected, Phase.wasAdmitted, Phase.terminal, Phase.held]



theorem conn_mk (a : Bool) (b : Nat) (c : Bool) (d e : List ConnId) (cs : List (ConnId × Conn))
    (g : List Acceptor) (h : Nat) (i : List Event) (x : ConnId) :
    (State.mk a b c d e cs g h i).conn x = (find cs x).getD Conn.fresh := rfl
theorem conn_fold (s : State) (c : ConnId) : (find s.conns c).getD Conn.fresh = s.conn c := rfl
theorem ite_getD {α : Type} (p : Prop) [Decidable p] (a : α) (o : Option α) (d : α) :
    (if p then some a else o).getD d = if p then a else o.getD d := by split <;> rfl

attribute [local grind] Phase.inList Phase.session Phase.isRejected Phase.wasAdmitted Phase.terminal Phase.held


macro "lc_norm" : tactic => `(tactic|
  simp only [State.setPhase, State.setConn, conn_mk, find_put, ite_getD, conn_fold, keys_put])

theorem inv_decide {s : State} (h : Inv s) (c : ConnId) (he : (s.conn c).phase = .accepted) :
    Inv (doDecide s c) := by
  obtain ⟨h1, h2, h3, h4, h5, h6, h7, h8, h9, h10, h11, h12, h13, h14, h15, h16, h17, h18, h19⟩ := h
  unfold doDecide
  split <;> constructor <;> lc_norm <;> grind

theorem inv_start {s : State} (h : Inv s) : Inv (doStart s) := by
  obtain ⟨h1, h2, h3, h4, h5, h6, h7, h8, h9, h10, h11, h12, h13, h14, h15, h16, h17, h18, h19⟩ := h
  unfold doStart
  split
  · constructor <;> assumption
  · constructor <;> lc_norm
    all_goals grind [release]

theorem inv_arrive {s : State} (h : Inv s) (c : ConnId) (ho : s.listenerOpen = true)
    (he : (s.conn c).phase = .fresh) : Inv (doArrive s c) := by
  obtain ⟨h1, h2, h3, h4, h5, h6, h7, h8, h9, h10, h11, h12, h13, h14, h15, h16, h17, h18, h19⟩ := h
  unfold doArrive
  constructor <;> lc_norm
  all_goals grind [release]

theorem inv_accept {s : State} (h : Inv s) (a : Nat) (c : ConnId) (g : Nat)
    (ha : s.acceptors[a]? = some ⟨g, .accepting⟩) (hg : g = s.gen) (hc : c ∈ s.backlog) :
    Inv (doAccept s a c) := by
  obtain ⟨h1, h2, h3, h4, h5, h6, h7, h8, h9, h10, h11, h12, h13, h14, h15, h16, h17, h18, h19⟩ := h
  unfold doAccept
  constructor <;> lc_norm
  all_goals grind [release]

theorem inv_acceptorExit {s : State} (h : Inv s) (a : Nat) : Inv (doAcceptorExit s a) := by
  obtain ⟨h1, h2, h3, h4, h5, h6, h7, h8, h9, h10, h11, h12, h13, h14, h15, h16, h17, h18, h19⟩ := h
  unfold doAcceptorExit
  constructor <;> lc_norm
  all_goals grind [release]

theorem inv_launch {s : State} (h : Inv s) (c : ConnId)
    (he : (s.conn c).phase = .admitted ∨ (s.conn c).phase = .rejecting) : Inv (doLaunch s c) := by
  obtain ⟨h1, h2, h3, h4, h5, h6, h7, h8, h9, h10, h11, h12, h13, h14, h15, h16, h17, h18, h19⟩ := h
  unfold doLaunch
  by_cases hp : (s.conn c).phase = .admitted <;> simp only [hp, beq_self_eq_true, if_true, beq_iff_eq, if_false]
  all_goals constructor <;> lc_norm
  all_goals grind [release]

theorem inv_finish {s : State} (h : Inv s) (c : ConnId) (he : (s.conn c).phase = .serving) :
    Inv (doFinish s c) := by
  obtain ⟨h1, h2, h3, h4, h5, h6, h7, h8, h9, h10, h11, h12, h13, h14, h15, h16, h17, h18, h19⟩ := h
  unfold doFinish
  constructor <;> lc_norm
  all_goals grind [release]

theorem inv_close {s : State} (h : Inv s) (c : ConnId) (he : (s.conn c).phase = .removed) :
    Inv (doClose s c) := by
  obtain ⟨h1, h2, h3, h4, h5, h6, h7, h8, h9, h10, h11, h12, h13, h14, h15, h16, h17, h18, h19⟩ := h
  unfold doClose
  constructor <;> lc_norm
  all_goals grind [release]

theorem inv_request {s : State} (h : Inv s) (c : ConnId) : Inv (doRequest s c) := by
  obtain ⟨h1, h2, h3, h4, h5, h6, h7, h8, h9, h10, h11, h12, h13, h14, h15, h16, h17, h18, h19⟩ := h
  unfold doRequest State.wouldServe
  split
  · constructor <;> lc_norm
    all_goals grind [release]
  · constructor <;> assumption


theorem mem_swapRemove {l : List ConnId} (hn : l.Nodup) (c x : ConnId) :
    x ∈ swapRemove l c ↔ x ∈ l ∧ x ≠ c := by
  by_cases h : c ∈ l
  · rw [(swapRemove_perm l c h).mem_iff, hn.mem_erase_iff]; exact And.comm
  · rw [swapRemove_not_mem l c h]; constructor
    · intro hx; exact ⟨hx, fun e => h (e ▸ hx)⟩
    · exact And.left

theorem nodup_swapRemove {l : List ConnId} (hn : l.Nodup) (c : ConnId) : (swapRemove l c).Nodup := by
  by_cases h : c ∈ l
  · exact (swapRemove_perm l c h).nodup_iff.mpr (hn.erase c)
  · rw [swapRemove_not_mem l c h]; exact hn

theorem length_swapRemove {l : List ConnId} {c : ConnId} (h : c ∈ l) :
    (swapRemove l c).length + 1 = l.length := by
  rw [(swapRemove_perm l c h).length_eq, List.length_erase_of_mem h]
  have := List.length_pos_of_mem h
  omega

theorem length_swapRemove_le (l : List ConnId) (c : ConnId) : (swapRemove l c).length ≤ l.length := by
  by_cases h : c ∈ l
  · have := length_swapRemove h; omega
  · rw [swapRemove_not_mem l c h]; exact Nat.le_refl _

theorem inv_remove {s : State} (h : Inv s) (c : ConnId) (he : (s.conn c).phase = .finished) :
    Inv (doRemove s c) := by
  obtain ⟨h1, h2, h3, h4, h5, h6, h7, h8, h9, h10, h11, h12, h13, h14, h15, h16, h17, h18, h19⟩ := h
  have hm := mem_swapRemove h8 c
  have hn := nodup_swapRemove h8 c
  have hl := length_swapRemove_le s.clients c
  unfold doRemove
  constructor <;> lc_norm
  all_goals grind

theorem stopConn_fresh {cl : List ConnId} {c : ConnId} (h : c ∉ cl) : stopConn cl c Conn.fresh = Conn.fresh := by
  simp [stopConn, h, Conn.fresh]

theorem conn_stopped (s : State) (h : ∀ c ∈ s.clients, (s.conn c).phase ≠ .fresh) (c : ConnId) :
    ((find s.conns c).map (stopConn s.clients c)).getD Conn.fresh = stopConn s.clients c (s.conn c) := by
  cases hf : find s.conns c with
  | none =>
    have hc : s.conn c = Conn.fresh := conn_fresh_of_find_none hf
    have : c ∉ s.clients := fun hm => h c hm (by rw [hc]; rfl)
    simp [hc, stopConn_fresh this]
  | some k => simp [State.conn, hf]

theorem find_stop (cl : List ConnId) (l : List (ConnId × Conn)) (c : ConnId) :
    find (l.map (fun p => (p.1, stopConn cl p.1 p.2))) c = (find l c).map (stopConn cl c) :=
  find_mapVals (stopConn cl) l c

theorem keys_stop (cl : List ConnId) (l : List (ConnId × Conn)) :
    (l.map (fun p => (p.1, stopConn cl p.1 p.2))).map Prod.fst = l.map Prod.fst := by
  simp [List.map_map, Function.comp_def]

theorem inv_stop {s : State} (h : Inv s) : Inv (doStop s) := by
  obtain ⟨h1, h2, h3, h4, h5, h6, h7, h8, h9, h10, h11, h12, h13, h14, h15, h16, h17, h18, h19⟩ := h
  have hc := conn_stopped s (by grind)
  unfold doStop
  split
  · constructor <;> lc_norm <;> (try simp only [find_stop, keys_stop, hc]) <;> (try simp only [stopConn, List.contains_iff_mem])
    all_goals grind
  · constructor <;> assumption

/-! ### enabling conditions in propositional form -/

theorem enabled_accept_iff (s : State) (a : Nat) (c : ConnId) :
    enabled s (.accept a c) = true ↔
      s.acceptors[a]? = some ⟨s.gen, .accepting⟩ ∧ s.listenerOpen = true ∧ c ∈ s.backlog := by
  simp only [enabled, State.listening]
  split
  · next g h => simp [h]; grind
  · next h =>
    constructor
    · intro hf; cases hf
    · intro ⟨h1, _⟩; exact absurd h1 (h _)

theorem enabled_exit_iff (s : State) (a : Nat) :
    enabled s (.acceptorExit a) = true ↔
      ∃ g, s.acceptors[a]? = some ⟨g, .accepting⟩ ∧ s.listening g = false := by
  simp only [enabled]
  split
  · next g h => simp [h]
  · next h =>
    constructor
    · intro hf; cases hf
    · intro ⟨g, h1, _⟩; exact absurd h1 (h g)

theorem inv_step {s : State} (h : Inv s) (st : Step) : Inv (step s st) := by
  unfold step
  split
  · next he =>
    cases st with
    | start => exact inv_start h
    | stop => exact inv_stop h
    | arrive c =>
      simp only [enabled, Bool.and_eq_true, beq_iff_eq] at he
      exact inv_arrive h c he.1 he.2
    | accept a c =>
      obtain ⟨h1, _, h3⟩ := (enabled_accept_iff s a c).mp he
      exact inv_accept h a c s.gen h1 rfl h3
    | acceptorExit a => exact inv_acceptorExit h a
    | decide c =>
      simp only [enabled, beq_iff_eq] at he
      exact inv_decide h c he
    | launch c =>
      simp only [enabled, Bool.or_eq_true, beq_iff_eq] at he
      exact inv_launch h c he
    | finish c r =>
      simp only [enabled, Bool.and_eq_true, beq_iff_eq] at he
      exact inv_finish h c he.1
    | remove c =>
      simp only [enabled, beq_iff_eq] at he
      exact inv_remove h c he
    | close c =>
      simp only [enabled, beq_iff_eq] at he
      exact inv_close h c he
    | request c => exact inv_request h c
  · exact h

theorem run_nil (s : State) : run s [] = s := rfl
theorem run_cons (s : State) (st : Step) (steps : List Step) :
    run s (st :: steps) = run (step s st) steps := rfl
theorem run_append (s : State) (l₁ l₂ : List Step) : run s (l₁ ++ l₂) = run (run s l₁) l₂ := by
  simp [run, List.foldl_append]

theorem inv_run {s : State} (h : Inv s) (steps : List Step) : Inv (run s steps) := by
  induction steps generalizing s with
  | nil => exact h
  | cons st r ih => exact ih (inv_step h st)

/-- the states the server can be in: any schedule, from the initial state, for any MaxClients -/
def Reachable (s : State) : Prop := ∃ m steps, s = run (init m) steps

theorem Reachable.inv {s : State} (h : Reachable s) : Inv s := by
  obtain ⟨m, steps, rfl⟩ := h; exact inv_run (inv_init m) steps

theorem Reachable.step {s : State} (h : Reachable s) (st : Step) : Reachable (step s st) := by
  obtain ⟨m, steps, rfl⟩ := h
  exact ⟨m, steps ++ [st], by rw [run_append]; rfl⟩

theorem Reachable.run {s : State} (h : Reachable s) (steps : List Step) : Reachable (run s steps) := by
  obtain ⟨m, pre, rfl⟩ := h
  exact ⟨m, pre ++ steps, by rw [run_append]⟩

theorem reachable_init (m : Nat) : Reachable (init m) := ⟨m, [], rfl⟩

end Modbus.Lifecycle
