import ModbusVerif.Model.Lifecycle
/-
  Lemmas about the life-cycle model: the connection table as a function, the swap-with-last
  removal, the inductive invariant `Inv` (preserved by every step from every state that
  satisfies it, hence true in every reachable state), termination measure, admission sequences.
-/
namespace Modbus.Lifecycle

/-! ### the connection table -/

theorem find_put (l : List (ConnId × Conn)) (c c' : ConnId) (v : Conn) :
    find (put l c v) c' = if c' = c then some v else find l c' := by
  induction l with
  | nil => simp [put, find, eq_comm]
  | cons p r ih =>
    obtain ⟨k, w⟩ := p
    simp only [put]
    split <;> simp only [find] <;> grind

theorem keys_put (l : List (ConnId × Conn)) (c : ConnId) (v : Conn) :
    (put l c v).map Prod.fst = if c ∈ l.map Prod.fst then l.map Prod.fst else l.map Prod.fst ++ [c] := by
  induction l with
  | nil => simp [put]
  | cons p r ih =>
    obtain ⟨k, w⟩ := p
    simp only [put]
    split <;> grind

theorem find_mapVals (f : ConnId → Conn → Conn) (l : List (ConnId × Conn)) (c : ConnId) :
    find (l.map (fun p => (p.1, f p.1 p.2))) c = (find l c).map (f c) := by
  induction l with
  | nil => simp [find]
  | cons p r ih => obtain ⟨k, w⟩ := p; simp only [List.map, find]; grind

theorem swapRemove_cons (x : ConnId) (xs : List ConnId) (c : ConnId) :
    swapRemove (x :: xs) c =
      if x = c then (match xs.getLast? with | none => [] | some z => z :: xs.dropLast)
      else x :: swapRemove xs c := by
  unfold swapRemove
  rw [List.findIdx?_cons]
  by_cases h : x = c
  · subst h
    cases xs with
    | nil => simp
    | cons y ys =>
      have : (y :: ys).getLast? = some ((y :: ys).getLast (by simp)) := List.getLast?_eq_some_getLast _
      simp [List.getLast?_cons_cons, this]
  · have h' : (x == c) = false := by simpa using h
    simp only [h', h, if_false]
    cases hi : xs.findIdx? (· == c) with
    | none => simp
    | some i =>
      have hlt := (List.findIdx?_eq_some_iff_findIdx_eq.mp hi).1
      cases xs with
      | nil => simp at hlt
      | cons y ys =>
        simp [List.getLast?_cons_cons]
        rw [List.dropLast_cons_of_ne_nil]
        intro h0
        have := congrArg List.length h0
        simp at this

theorem swapRemove_perm (l : List ConnId) (c : ConnId) (h : c ∈ l) :
    (swapRemove l c).Perm (l.erase c) := by
  induction l with
  | nil => simp at h
  | cons x xs ih =>
    rw [swapRemove_cons]
    by_cases hx : x = c
    · subst hx
      simp only [if_true, List.erase_cons_head]
      cases hl : xs.getLast? with
      | none => simp at hl; simp [hl]
      | some z =>
        obtain ⟨ys, rfl⟩ := List.getLast?_eq_some_iff.mp hl
        simp only [List.dropLast_concat]
        exact (List.perm_append_singleton z ys).symm
    · have hc : c ∈ xs := by simpa [Ne.symm hx] using h
      have hx' : (x == c) = false := by simpa using hx
      simp only [hx, if_false, List.erase_cons, hx']
      exact (ih hc).cons x

theorem swapRemove_not_mem (l : List ConnId) (c : ConnId) (h : c ∉ l) : swapRemove l c = l := by
  induction l with
  | nil => rfl
  | cons x xs ih =>
    rw [swapRemove_cons]
    simp at h
    simp [Ne.symm h.1, ih h.2]

/-! ### the connection table seen as a function -/

@[simp] theorem conn_setConn (s : State) (c c' : ConnId) (k : Conn) :
    (s.setConn c k).conn c' = if c' = c then k else s.conn c' := by
  simp only [State.conn, State.setConn, find_put]; split <;> simp

@[simp] theorem conn_setPhase (s : State) (c c' : ConnId) (p : Phase) :
    (s.setPhase c p).conn c' = if c' = c then { s.conn c with phase := p } else s.conn c' := by
  simp [State.setPhase]

theorem conn_of_conns {s s' : State} (h : s'.conns = s.conns) (c : ConnId) : s'.conn c = s.conn c := by
  simp [State.conn, h]

theorem conn_fresh_of_find_none {s : State} {c : ConnId} (h : find s.conns c = none) :
    s.conn c = Conn.fresh := by simp [State.conn, h]

theorem find_ne_none_of_phase {s : State} {c : ConnId} (h : (s.conn c).phase ≠ .fresh) :
    find s.conns c ≠ none := by
  intro h0; rw [conn_fresh_of_find_none h0] at h; exact h rfl

/-- the inductive invariant of the life-cycle machine -/
structure Inv (s : State) : Prop where
  started_open : s.started = s.listenerOpen
  acc_len : s.acceptors.length = s.gen
  acc_gen : ∀ (i : Nat) (A : Acceptor), s.acceptors[i]? = some A → A.gen = i + 1
  acc_hold : ∀ (i g : Nat) (c : ConnId), s.acceptors[i]? = some (Acceptor.mk g (.holding c)) →
    (s.conn c).phase.held = true ∧ (s.conn c).gen = g
  backlog_nodup : s.backlog.Nodup
  backlog_iff : ∀ c, c ∈ s.backlog ↔ (s.conn c).phase = .backlog
  backlog_closed : s.listenerOpen = false → s.backlog = []
  clients_nodup : s.clients.Nodup
  clients_iff : ∀ c, c ∈ s.clients ↔ (s.conn c).phase.inList = true
  clients_le : s.clients.length ≤ s.maxClients
  stopped_closed : s.started = false → ∀ c ∈ s.clients, (s.conn c).sockClosed = true
  keys_nodup : (s.conns.map Prod.fst).Nodup
  served_phase : ∀ c, Event.served c ∈ s.log → (s.conn c).phase.session = true
  reject_iff : ∀ c, Event.reject c ∈ s.log ↔ (s.conn c).phase.isRejected = true
  admit_iff : ∀ c, Event.admit c ∈ s.log ↔ (s.conn c).phase.wasAdmitted = true
  term_closed : ∀ c, (s.conn c).phase.terminal = true → (s.conn c).sockClosed = true
  backlog_gen : ∀ c, (s.conn c).phase = .backlog → (s.conn c).gen = s.gen
  open_gen : s.listenerOpen = true → 1 ≤ s.gen
  conn_gen : ∀ c, (s.conn c).phase ≠ .fresh → 1 ≤ (s.conn c).gen ∧ (s.conn c).gen ≤ s.gen

theorem inv_init (m : Nat) : Inv (init m) := by
  constructor <;> simp [init, State.conn, find, Conn.fresh, Phase.inList, Phase.session,
    Phase.isRejected, Phase.wasAdmitted, Phase.terminal, Phase.held]

/-! ### every step preserves the invariant -/

theorem conn_mk (a : Bool) (b : Nat) (c : Bool) (d e : List ConnId) (cs : List (ConnId × Conn))
    (g : List Acceptor) (h : Nat) (i : List Event) (x : ConnId) :
    (State.mk a b c d e cs g h i).conn x = (find cs x).getD Conn.fresh := rfl
theorem conn_fold (s : State) (c : ConnId) : (find s.conns c).getD Conn.fresh = s.conn c := rfl
theorem ite_getD {α : Type} (p : Prop) [Decidable p] (a : α) (o : Option α) (d : α) :
    (if p then some a else o).getD d = if p then a else o.getD d := by split <;> rfl

attribute [local grind] Phase.inList Phase.session Phase.isRejected Phase.wasAdmitted Phase.terminal Phase.held

/-- normal form of the post-state of a step: fields projected, table lookups as `s.conn` -/
macro "lc_norm" : tactic => `(tactic|
  simp only [State.setPhase, State.setConn, conn_mk, find_put, ite_getD, conn_fold, keys_put])

theorem inv_decide {s : State} (h : Inv s) (c : ConnId) (he : (s.conn c).phase = .accepted) :
    Inv (doDecide s c) := by
  obtain ⟨h1, h2, h3, h4, h5, h6, h7, h8, h9, h10, h11, h12, h13, h14, h15, h16, h17, h18, h19⟩ := h
  unfold doDecide
  split <;> constructor <;> lc_norm <;> grind

theorem inv_start {s : State} (h : Inv s) : Inv (doStart s) := by
  obtain ⟨h1, h2, h3, h4, h5, h6, h7, h8, h9, h10, h11, h12, h13, h14, h15, h16, h17, h18, h19⟩ := h
  unfold doStart
  split
  · constructor <;> assumption
  · constructor <;> lc_norm
    all_goals grind [release]

theorem inv_arrive {s : State} (h : Inv s) (c : ConnId) (ho : s.listenerOpen = true)
    (he : (s.conn c).phase = .fresh) : Inv (doArrive s c) := by
  obtain ⟨h1, h2, h3, h4, h5, h6, h7, h8, h9, h10, h11, h12, h13, h14, h15, h16, h17, h18, h19⟩ := h
  unfold doArrive
  constructor <;> lc_norm
  all_goals grind [release]

theorem inv_accept {s : State} (h : Inv s) (a : Nat) (c : ConnId) (g : Nat)
    (ha : s.acceptors[a]? = some ⟨g, .accepting⟩) (hg : g = s.gen) (hc : c ∈ s.backlog) :
    Inv (doAccept s a c) := by
  obtain ⟨h1, h2, h3, h4, h5, h6, h7, h8, h9, h10, h11, h12, h13, h14, h15, h16, h17, h18, h19⟩ := h
  unfold doAccept
  constructor <;> lc_norm
  all_goals grind [release]

theorem inv_acceptorExit {s : State} (h : Inv s) (a : Nat) : Inv (doAcceptorExit s a) := by
  obtain ⟨h1, h2, h3, h4, h5, h6, h7, h8, h9, h10, h11, h12, h13, h14, h15, h16, h17, h18, h19⟩ := h
  unfold doAcceptorExit
  constructor <;> lc_norm
  all_goals grind [release]

theorem inv_launch {s : State} (h : Inv s) (c : ConnId)
    (he : (s.conn c).phase = .admitted ∨ (s.conn c).phase = .rejecting) : Inv (doLaunch s c) := by
  obtain ⟨h1, h2, h3, h4, h5, h6, h7, h8, h9, h10, h11, h12, h13, h14, h15, h16, h17, h18, h19⟩ := h
  unfold doLaunch
  by_cases hp : (s.conn c).phase = .admitted <;> simp only [hp, beq_self_eq_true, if_true, beq_iff_eq, if_false]
  all_goals constructor <;> lc_norm
  all_goals grind [release]

theorem inv_finish {s : State} (h : Inv s) (c : ConnId) (he : (s.conn c).phase = .serving) :
    Inv (doFinish s c) := by
  obtain ⟨h1, h2, h3, h4, h5, h6, h7, h8, h9, h10, h11, h12, h13, h14, h15, h16, h17, h18, h19⟩ := h
  unfold doFinish
  constructor <;> lc_norm
  all_goals grind [release]

theorem inv_close {s : State} (h : Inv s) (c : ConnId) (he : (s.conn c).phase = .removed) :
    Inv (doClose s c) := by
  obtain ⟨h1, h2, h3, h4, h5, h6, h7, h8, h9, h10, h11, h12, h13, h14, h15, h16, h17, h18, h19⟩ := h
  unfold doClose
  constructor <;> lc_norm
  all_goals grind [release]

theorem inv_request {s : State} (h : Inv s) (c : ConnId) : Inv (doRequest s c) := by
  obtain ⟨h1, h2, h3, h4, h5, h6, h7, h8, h9, h10, h11, h12, h13, h14, h15, h16, h17, h18, h19⟩ := h
  unfold doRequest State.wouldServe
  split
  · constructor <;> lc_norm
    all_goals grind [release]
  · constructor <;> assumption

theorem mem_swapRemove {l : List ConnId} (hn : l.Nodup) (c x : ConnId) :
    x ∈ swapRemove l c ↔ x ∈ l ∧ x ≠ c := by
  by_cases h : c ∈ l
  · rw [(swapRemove_perm l c h).mem_iff, hn.mem_erase_iff]; exact And.comm
  · rw [swapRemove_not_mem l c h]; constructor
    · intro hx; exact ⟨hx, fun e => h (e ▸ hx)⟩
    · exact And.left

theorem nodup_swapRemove {l : List ConnId} (hn : l.Nodup) (c : ConnId) : (swapRemove l c).Nodup := by
  by_cases h : c ∈ l
  · exact (swapRemove_perm l c h).nodup_iff.mpr (hn.erase c)
  · rw [swapRemove_not_mem l c h]; exact hn

theorem length_swapRemove {l : List ConnId} {c : ConnId} (h : c ∈ l) :
    (swapRemove l c).length + 1 = l.length := by
  rw [(swapRemove_perm l c h).length_eq, List.length_erase_of_mem h]
  have := List.length_pos_of_mem h
  omega

theorem length_swapRemove_le (l : List ConnId) (c : ConnId) : (swapRemove l c).length ≤ l.length := by
  by_cases h : c ∈ l
  · have := length_swapRemove h; omega
  · rw [swapRemove_not_mem l c h]; exact Nat.le_refl _

theorem inv_remove {s : State} (h : Inv s) (c : ConnId) (he : (s.conn c).phase = .finished) :
    Inv (doRemove s c) := by
  obtain ⟨h1, h2, h3, h4, h5, h6, h7, h8, h9, h10, h11, h12, h13, h14, h15, h16, h17, h18, h19⟩ := h
  have hm := mem_swapRemove h8 c
  have hn := nodup_swapRemove h8 c
  have hl := length_swapRemove_le s.clients c
  unfold doRemove
  constructor <;> lc_norm
  all_goals grind

theorem stopConn_fresh {cl : List ConnId} {c : ConnId} (h : c ∉ cl) : stopConn cl c Conn.fresh = Conn.fresh := by
  simp [stopConn, h, Conn.fresh]

theorem conn_stopped (s : State) (h : ∀ c ∈ s.clients, (s.conn c).phase ≠ .fresh) (c : ConnId) :
    ((find s.conns c).map (stopConn s.clients c)).getD Conn.fresh = stopConn s.clients c (s.conn c) := by
  cases hf : find s.conns c with
  | none =>
    have hc : s.conn c = Conn.fresh := conn_fresh_of_find_none hf
    have : c ∉ s.clients := fun hm => h c hm (by rw [hc]; rfl)
    simp [hc, stopConn_fresh this]
  | some k => simp [State.conn, hf]

theorem find_stop (cl : List ConnId) (l : List (ConnId × Conn)) (c : ConnId) :
    find (l.map (fun p => (p.1, stopConn cl p.1 p.2))) c = (find l c).map (stopConn cl c) :=
  find_mapVals (stopConn cl) l c

theorem keys_stop (cl : List ConnId) (l : List (ConnId × Conn)) :
    (l.map (fun p => (p.1, stopConn cl p.1 p.2))).map Prod.fst = l.map Prod.fst := by
  simp [List.map_map, Function.comp_def]

theorem inv_stop {s : State} (h : Inv s) : Inv (doStop s) := by
  obtain ⟨h1, h2, h3, h4, h5, h6, h7, h8, h9, h10, h11, h12, h13, h14, h15, h16, h17, h18, h19⟩ := h
  have hc := conn_stopped s (by grind)
  unfold doStop
  split
  · constructor <;> lc_norm <;> (try simp only [find_stop, keys_stop, hc]) <;> (try simp only [stopConn, List.contains_iff_mem])
    all_goals grind
  · constructor <;> assumption

/-! ### enabling conditions in propositional form -/

theorem enabled_accept_iff (s : State) (a : Nat) (c : ConnId) :
    enabled s (.accept a c) = true ↔
      s.acceptors[a]? = some ⟨s.gen, .accepting⟩ ∧ s.listenerOpen = true ∧ c ∈ s.backlog := by
  simp only [enabled, State.listening]
  split
  · next g h => simp [h]; grind
  · next h =>
    constructor
    · intro hf; cases hf
    · intro ⟨h1, _⟩; exact absurd h1 (h _)

theorem enabled_exit_iff (s : State) (a : Nat) :
    enabled s (.acceptorExit a) = true ↔
      ∃ g, s.acceptors[a]? = some ⟨g, .accepting⟩ ∧ s.listening g = false := by
  simp only [enabled]
  split
  · next g h => simp [h]
  · next h =>
    constructor
    · intro hf; cases hf
    · intro ⟨g, h1, _⟩; exact absurd h1 (h g)

theorem inv_step {s : State} (h : Inv s) (st : Step) : Inv (step s st) := by
  unfold step
  split
  · next he =>
    cases st with
    | start => exact inv_start h
    | stop => exact inv_stop h
    | arrive c =>
      simp only [enabled, Bool.and_eq_true, beq_iff_eq] at he
      exact inv_arrive h c he.1 he.2
    | accept a c =>
      obtain ⟨h1, _, h3⟩ := (enabled_accept_iff s a c).mp he
      exact inv_accept h a c s.gen h1 rfl h3
    | acceptorExit a => exact inv_acceptorExit h a
    | decide c =>
      simp only [enabled, beq_iff_eq] at he
      exact inv_decide h c he
    | launch c =>
      simp only [enabled, Bool.or_eq_true, beq_iff_eq] at he
      exact inv_launch h c he
    | finish c r =>
      simp only [enabled, Bool.and_eq_true, beq_iff_eq] at he
      exact inv_finish h c he.1
    | remove c =>
      simp only [enabled, beq_iff_eq] at he
      exact inv_remove h c he
    | close c =>
      simp only [enabled, beq_iff_eq] at he
      exact inv_close h c he
    | request c => exact inv_request h c
  · exact h

theorem run_nil (s : State) : run s [] = s := rfl
theorem run_cons (s : State) (st : Step) (steps : List Step) :
    run s (st :: steps) = run (step s st) steps := rfl
theorem run_append (s : State) (l₁ l₂ : List Step) : run s (l₁ ++ l₂) = run (run s l₁) l₂ := by
  simp [run, List.foldl_append]

theorem inv_run {s : State} (h : Inv s) (steps : List Step) : Inv (run s steps) := by
  induction steps generalizing s with
  | nil => exact h
  | cons st r ih => exact ih (inv_step h st)

/-- the states the server can be in: any schedule, from the initial state, for any MaxClients -/
def Reachable (s : State) : Prop := ∃ m steps, s = run (init m) steps

theorem Reachable.inv {s : State} (h : Reachable s) : Inv s := by
  obtain ⟨m, steps, rfl⟩ := h; exact inv_run (inv_init m) steps

theorem Reachable.step {s : State} (h : Reachable s) (st : Step) : Reachable (step s st) := by
  obtain ⟨m, steps, rfl⟩ := h
  exact ⟨m, steps ++ [st], by rw [run_append]; rfl⟩

theorem Reachable.run {s : State} (h : Reachable s) (steps : List Step) : Reachable (run s steps) := by
  obtain ⟨m, pre, rfl⟩ := h
  exact ⟨m, pre ++ steps, by rw [run_append]⟩

theorem reachable_init (m : Nat) : Reachable (init m) := ⟨m, [], rfl⟩

/-! ### frame facts: what a step never changes -/

theorem step_eq (s : State) (st : Step) (h : enabled s st = true) : step s st = apply s st := by
  simp [step, h]

theorem step_disabled (s : State) (st : Step) (h : enabled s st = false) : step s st = s := by
  simp [step, h]

theorem maxClients_step (s : State) (st : Step) : (step s st).maxClients = s.maxClients := by
  unfold step; split
  · cases st <;> simp only [apply, doStart, doStop, doArrive, doAccept, doAcceptorExit, doDecide,
      doLaunch, doFinish, doRemove, doClose, doRequest, State.setPhase, State.setConn] <;>
      (repeat' split) <;> rfl
  · rfl

theorem maxClients_run (s : State) (steps : List Step) : (run s steps).maxClients = s.maxClients := by
  induction steps generalizing s with
  | nil => rfl
  | cons st r ih => rw [run_cons, ih, maxClients_step]

/-- the log only grows -/
theorem log_step (s : State) (st : Step) : ∃ l, (step s st).log = s.log ++ l := by
  unfold step; split
  · cases st <;> simp only [apply, doStart, doStop, doArrive, doAccept, doAcceptorExit, doDecide,
      doLaunch, doFinish, doRemove, doClose, doRequest, State.setPhase, State.setConn] <;>
      (repeat' split) <;> first | exact ⟨[_], rfl⟩ | exact ⟨[], (List.append_nil _).symm⟩
  · exact ⟨[], by simp⟩

theorem log_run (s : State) (steps : List Step) : ∃ l, (run s steps).log = s.log ++ l := by
  induction steps generalizing s with
  | nil => exact ⟨[], by simp [run_nil]⟩
  | cons st r ih =>
    obtain ⟨l₁, h₁⟩ := log_step s st
    obtain ⟨l₂, h₂⟩ := ih (step s st)
    exact ⟨l₁ ++ l₂, by rw [run_cons, h₂, h₁, List.append_assoc]⟩

theorem log_mono {s : State} {e : Event} (steps : List Step) (h : e ∈ s.log) :
    e ∈ (run s steps).log := by
  obtain ⟨l, hl⟩ := log_run s steps
  rw [hl]; exact List.mem_append_left _ h

/-- an acceptor keeps the listener generation it was created with -/
theorem acceptor_gen_step (s : State) (st : Step) (a : Nat) (g : Nat)
    (h : (s.acceptors[a]?).map Acceptor.gen = some g) :
    ((step s st).acceptors[a]?).map Acceptor.gen = some g := by
  unfold step; split
  · cases st <;> simp only [apply, doStart, doStop, doArrive, doAccept, doAcceptorExit, doDecide,
      doLaunch, doFinish, doRemove, doClose, doRequest, State.setPhase, State.setConn] <;>
      (repeat' split) <;> grind [release]
  · exact h

theorem acceptor_gen_run (s : State) (steps : List Step) (a : Nat) (g : Nat)
    (h : (s.acceptors[a]?).map Acceptor.gen = some g) :
    ((run s steps).acceptors[a]?).map Acceptor.gen = some g := by
  induction steps generalizing s with
  | nil => exact h
  | cons st r ih => exact ih (step s st) (acceptor_gen_step s st a g h)

/-! ### counting -/

theorem length_le_of_nodup_subset {l₁ l₂ : List ConnId} (hn : l₁.Nodup) (hs : ∀ x ∈ l₁, x ∈ l₂) :
    l₁.length ≤ l₂.length := by
  induction l₁ generalizing l₂ with
  | nil => simp
  | cons a t ih =>
    have ha : a ∈ l₂ := hs a (by simp)
    have hnt := List.nodup_cons.mp hn
    have h1 : ∀ x ∈ t, x ∈ l₂.erase a := by
      intro x hx
      have hxa : x ≠ a := fun e => hnt.1 (e ▸ hx)
      exact (List.mem_erase_of_ne hxa).mpr (hs x (List.mem_cons_of_mem _ hx))
    have h2 := ih hnt.2 h1
    have h3 := List.length_erase_of_mem ha
    have h4 := List.length_pos_of_mem ha
    simp only [List.length_cons]
    omega

theorem find_of_mem_nodup {l : List (ConnId × Conn)} (hn : (l.map Prod.fst).Nodup) {c : ConnId}
    {k : Conn} (h : (c, k) ∈ l) : find l c = some k := by
  induction l with
  | nil => simp at h
  | cons p r ih =>
    obtain ⟨c', k'⟩ := p
    simp only [List.map_cons, List.nodup_cons] at hn
    simp only [find]
    rcases List.mem_cons.mp h with he | hr
    · cases he; simp
    · have : c' ≠ c := fun e => hn.1 (e ▸ List.mem_map_of_mem (f := Prod.fst) hr)
      simp [this, ih hn.2 hr]

theorem mem_of_find {l : List (ConnId × Conn)} {c : ConnId} {k : Conn} (h : find l c = some k) :
    (c, k) ∈ l := by
  induction l with
  | nil => simp [find] at h
  | cons p r ih =>
    obtain ⟨c', k'⟩ := p
    simp only [find] at h
    split at h
    · next e => cases h; simp [e]
    · exact List.mem_cons_of_mem _ (ih h)

theorem conn_of_mem {s : State} (hi : Inv s) {c : ConnId} {k : Conn} (h : (c, k) ∈ s.conns) :
    s.conn c = k := by
  simp [State.conn, find_of_mem_nodup hi.keys_nodup h]

theorem mem_conns_of_phase {s : State} {c : ConnId} (h : (s.conn c).phase ≠ .fresh) :
    (c, s.conn c) ∈ s.conns := by
  cases hf : find s.conns c with
  | none => exact absurd (by rw [conn_fresh_of_find_none hf]; rfl) h
  | some k => simpa [State.conn, hf] using mem_of_find hf

theorem mem_servingConns {s : State} (hi : Inv s) (c : ConnId) :
    c ∈ s.servingConns ↔ (s.conn c).phase = .serving := by
  simp only [State.servingConns, List.mem_map, List.mem_filter, beq_iff_eq]
  constructor
  · rintro ⟨⟨c', k⟩, ⟨hm, hp⟩, rfl⟩
    rw [conn_of_mem hi hm]; exact hp
  · intro h
    exact ⟨(c, s.conn c), ⟨mem_conns_of_phase (by rw [h]; simp), h⟩, rfl⟩

theorem nodup_servingConns {s : State} (hi : Inv s) : s.servingConns.Nodup := by
  unfold State.servingConns
  exact List.Nodup.sublist (List.Sublist.map _ List.filter_sublist) hi.keys_nodup

theorem serving_le_clients {s : State} (hi : Inv s) (L : List ConnId) (hn : L.Nodup)
    (hL : ∀ c ∈ L, (s.conn c).phase = .serving) : L.length ≤ s.clients.length :=
  length_le_of_nodup_subset hn (fun c hc => (hi.clients_iff c).mpr (by rw [hL c hc]; rfl))

theorem servingConns_le_clients {s : State} (hi : Inv s) :
    s.servingConns.length ≤ s.clients.length :=
  serving_le_clients hi _ (nodup_servingConns hi) (fun c hc => (mem_servingConns hi c).mp hc)

/-! ### effects of single steps -/

theorem step_decide (s : State) (c : ConnId) (h : (s.conn c).phase = .accepted) :
    step s (.decide c) = doDecide s c := by
  rw [step_eq]; rfl
  simp [enabled, h]

/-- the admission test, exactly: append iff `started ∧ len(tcpClients) < MaxClients` -/
theorem decide_admits (s : State) (c : ConnId) (h : (s.conn c).phase = .accepted)
    (hr : s.started = true ∧ s.clients.length < s.maxClients) :
    ((step s (.decide c)).conn c).phase = .admitted ∧ (step s (.decide c)).clients = s.clients ++ [c] ∧
      (step s (.decide c)).log = s.log ++ [.admit c] := by
  rw [step_decide s c h]
  simp [doDecide, hr.1, hr.2, conn_mk, find_put, State.setPhase, State.setConn]

theorem decide_rejects (s : State) (c : ConnId) (h : (s.conn c).phase = .accepted)
    (hr : ¬(s.started = true ∧ s.clients.length < s.maxClients)) :
    ((step s (.decide c)).conn c).phase = .rejecting ∧ (step s (.decide c)).clients = s.clients ∧
      (step s (.decide c)).log = s.log ++ [.reject c] := by
  rw [step_decide s c h]
  have : (s.started && decide (s.clients.length < s.maxClients)) = false := by
    cases hs : s.started <;> simp_all
  simp [doDecide, this, conn_mk, find_put, State.setPhase, State.setConn]

theorem step_finish (s : State) (c : ConnId) (r : Reason) (h : enabled s (.finish c r) = true) :
    step s (.finish c r) = s.setPhase c .finished := by
  rw [step_eq _ _ h]; rfl

theorem step_remove (s : State) (c : ConnId) (h : (s.conn c).phase = .finished) :
    step s (.remove c) = doRemove s c := by
  rw [step_eq]; rfl
  simp [enabled, h]

/-- after the request loop of a serving session has ended (any reason), its removal step is
    enabled, and it frees exactly one slot: the session's own -/
theorem reclaim {s : State} (hi : Inv s) (c : ConnId) (r : Reason)
    (he : enabled s (.finish c r) = true) :
    let s₁ := step s (.finish c r)
    let s₂ := step s₁ (.remove c)
    enabled s₁ (.remove c) = true ∧ s₁.clients = s.clients ∧
      s₂.clients.length + 1 = s.clients.length ∧ c ∉ s₂.clients ∧
      (∀ c', c' ≠ c → (c' ∈ s₂.clients ↔ c' ∈ s.clients)) ∧
      s₂.started = s.started ∧ s₂.maxClients = s.maxClients := by
  have hp : (s.conn c).phase = .serving := by
    simp only [enabled, Bool.and_eq_true, beq_iff_eq] at he; exact he.1
  have hc : c ∈ s.clients := (hi.clients_iff c).mpr (by rw [hp]; rfl)
  have h1 : ((s.setPhase c .finished).conn c).phase = .finished := by simp
  intro s₁ s₂
  have e1 : s₁ = s.setPhase c .finished := step_finish s c r he
  have e2 : s₂ = doRemove s₁ c :=
    step_remove s₁ c (by rw [e1]; exact h1)
  have hcl : s₁.clients = s.clients := by rw [e1]; rfl
  have hm := mem_swapRemove hi.clients_nodup c
  refine ⟨by simp [enabled, e1], hcl, ?_, ?_, ?_, ?_, ?_⟩
  · rw [e2]; simp only [doRemove, hcl]; exact length_swapRemove hc
  · rw [e2]; simp only [doRemove, hcl]; intro h; exact ((hm c).mp h).2 rfl
  · intro c' hne; rw [e2]; simp only [doRemove, hcl]; rw [hm c']; exact ⟨And.left, fun h => ⟨h, hne⟩⟩
  · rw [e2, e1]; rfl
  · rw [e2, e1]; rfl

theorem clients_nil_of_no_sessions {s : State} (hi : Inv s)
    (h : ∀ c, (s.conn c).phase.inList = false) : s.clients = [] := by
  cases hc : s.clients with
  | nil => rfl
  | cons c r =>
    have : c ∈ s.clients := by rw [hc]; simp
    have := (hi.clients_iff c).mp this
    rw [h c] at this; cases this

/-! ### a full admission: arrive, accept, decide, launch -/

/-- the four steps through which acceptor `a` takes a new connection `c` -/
def admitSeq (a : Nat) (c : ConnId) : List Step := [.arrive c, .accept a c, .decide c, .launch c]

theorem run_admitSeq {s : State} (a : Nat) (c : ConnId)
    (hst : s.started = true) (hop : s.listenerOpen = true)
    (ha : s.acceptors[a]? = some ⟨s.gen, .accepting⟩)
    (hf : (s.conn c).phase = .fresh) (hroom : s.clients.length < s.maxClients) :
    let s' := run s (admitSeq a c)
    s'.clients = s.clients ++ [c] ∧ (s'.conn c).phase = .serving ∧ (s'.conn c).sockClosed = false ∧
      s'.log = s.log ++ [.admit c] ∧
      s'.started = true ∧ s'.listenerOpen = true ∧ s'.gen = s.gen ∧ s'.maxClients = s.maxClients ∧
      s'.acceptors[a]? = some ⟨s.gen, .accepting⟩ ∧ (∀ c', c' ≠ c → s'.conn c' = s.conn c') := by
  -- arrive
  have e1 : step s (.arrive c) = doArrive s c := by
    rw [step_eq]; rfl
    simp [enabled, hop, hf]
  -- accept
  have e2 : step (doArrive s c) (.accept a c) = doAccept (doArrive s c) a c := by
    rw [step_eq]; rfl
    rw [enabled_accept_iff]; simp [doArrive, ha, hop]
  have p2 : ((doAccept (doArrive s c) a c).conn c).phase = .accepted := by simp [doAccept, conn_mk, conn_fold]
  have e3 := step_decide _ c p2
  have hd : ((doAccept (doArrive s c) a c).started &&
      decide ((doAccept (doArrive s c) a c).clients.length < (doAccept (doArrive s c) a c).maxClients)) = true := by
    simp [doAccept, doArrive, State.setPhase, State.setConn, hst, hroom]
  have p3 : ((doDecide (doAccept (doArrive s c) a c) c).conn c).phase = .admitted := by
    simp [doDecide, hd, conn_mk, conn_fold]
  have e4 : step (doDecide (doAccept (doArrive s c) a c) c) (.launch c) =
      doLaunch (doDecide (doAccept (doArrive s c) a c) c) c := by
    rw [step_eq]; rfl
    simp [enabled, p3]
  intro s'
  have es : s' = doLaunch (doDecide (doAccept (doArrive s c) a c) c) c := by
    show run s (admitSeq a c) = _
    simp only [admitSeq, run_cons, run_nil, e1, e2, e3, e4]
  rw [es]
  have hlt : a < s.acceptors.length := by
    rcases Nat.lt_or_ge a s.acceptors.length with h | h
    · exact h
    · rw [List.getElem?_eq_none h] at ha; cases ha
  simp only [doLaunch, p3, beq_self_eq_true, if_true]
  simp only [doDecide, hd, if_true]
  refine ⟨?_, ?_, ?_, ?_, ?_, ?_, ?_, ?_, ?_, ?_⟩
  · simp [State.setPhase, State.setConn, doAccept, doArrive]
  · lc_norm; simp
  · lc_norm; simp [doAccept, doArrive]; lc_norm; simp
  · simp [State.setPhase, State.setConn, doAccept, doArrive]
  · simp [State.setPhase, State.setConn, doAccept, doArrive, hst]
  · simp [State.setPhase, State.setConn, doAccept, doArrive, hop]
  · simp [State.setPhase, State.setConn, doAccept, doArrive]
  · simp [State.setPhase, State.setConn, doAccept, doArrive]
  · simp only [State.setPhase, State.setConn, doAccept, doArrive]
    grind [release]
  · intro c' hne
    lc_norm; simp only [hne, if_false]
    simp only [doAccept, doArrive]; lc_norm; simp [hne]

/-! ### locality: which connection a step belongs to -/

/-- the connection a step is about (none for Start, Stop and the exit of an acceptor) -/
def Step.connOf : Step → Option ConnId
  | .arrive c | .accept _ c | .decide c | .launch c | .finish c _ | .remove c | .close c
  | .request c => some c
  | _ => none

/-- only `Stop` touches a connection other than the one the step is about -/
theorem conn_step_of_ne (s : State) (st : Step) (c' : ConnId) (hs : st ≠ .stop)
    (hc : st.connOf ≠ some c') : (step s st).conn c' = s.conn c' := by
  unfold step; split
  · cases st <;> simp only [Step.connOf, ne_eq, Option.some.injEq, not_true_eq_false,
        reduceCtorEq, not_false_eq_true] at hc hs <;>
      simp only [apply, doStart, doArrive, doAccept, doAcceptorExit, doDecide,
        doLaunch, doFinish, doRemove, doClose, doRequest] <;>
      (repeat' split) <;> lc_norm <;> (try simp only [conn_mk, conn_fold, conn_setConn]) <;>
      first | rfl | (simp [Ne.symm hc])
  · rfl

theorem conn_run_of_ne (s : State) (steps : List Step) (c' : ConnId)
    (h : ∀ st ∈ steps, st ≠ .stop ∧ st.connOf ≠ some c') : (run s steps).conn c' = s.conn c' := by
  induction steps generalizing s with
  | nil => rfl
  | cons st r ih =>
    rw [run_cons, ih _ (fun x hx => h x (List.mem_cons_of_mem _ hx))]
    exact conn_step_of_ne s st c' (h st (by simp)).1 (h st (by simp)).2

/-- `cs` new connections, one after the other, while there is room: all are admitted and served -/
theorem run_admitSeqs {s : State} (a : Nat) (cs : List ConnId)
    (hst : s.started = true) (hop : s.listenerOpen = true)
    (ha : s.acceptors[a]? = some ⟨s.gen, .accepting⟩)
    (hf : ∀ c ∈ cs, (s.conn c).phase = .fresh) (hnd : cs.Nodup)
    (hroom : s.clients.length + cs.length ≤ s.maxClients) :
    let s' := run s (cs.flatMap (admitSeq a))
    s'.clients = s.clients ++ cs ∧
      (∀ c ∈ cs, (s'.conn c).phase = .serving ∧ (s'.conn c).sockClosed = false) ∧
      s'.log = s.log ++ cs.map .admit ∧ s'.started = true := by
  induction cs generalizing s with
  | nil => simp [run_nil, hst]
  | cons c r ih =>
    have hc := hf c (by simp)
    have hn := List.nodup_cons.mp hnd
    simp only [List.length_cons] at hroom
    obtain ⟨h1, h2, h3, h4, h5, h6, h7, h8, h9, h10⟩ :=
      run_admitSeq (s := s) a c hst hop ha hc (by omega)
    have hf' : ∀ c' ∈ r, ((run s (admitSeq a c)).conn c').phase = .fresh := by
      intro c' hc'
      have : c' ≠ c := fun e => hn.1 (e ▸ hc')
      rw [h10 c' this]; exact hf c' (List.mem_cons_of_mem _ hc')
    obtain ⟨i1, i2, i3, i4⟩ := ih (s := run s (admitSeq a c)) h5 h6 (by rw [h7]; exact h9) hf' hn.2
      (by rw [h1, h8]; simp; omega)
    simp only [List.flatMap_cons, run_append]
    refine ⟨by rw [i1, h1]; simp, ?_, by rw [i3, h4]; simp, i4⟩
    intro c' hc'
    rcases List.mem_cons.mp hc' with e | hr
    · subst e
      have : (run (run s (admitSeq a c')) (r.flatMap (admitSeq a))).conn c' =
          (run s (admitSeq a c')).conn c' := by
        apply conn_run_of_ne
        intro st hst'
        obtain ⟨x, hx, hxs⟩ := List.mem_flatMap.mp hst'
        have hne : x ≠ c' := fun e => hn.1 (e ▸ hx)
        simp only [admitSeq, List.mem_cons, List.not_mem_nil, or_false] at hxs
        rcases hxs with e | e | e | e <;> subst e <;> simp [Step.connOf, hne]
      rw [this]; exact ⟨h2, h3⟩
    · exact i2 c' hr

/-! ### after Stop -/

/-- while the server is stopped no request reaches a handler -/
theorem request_not_served_when_stopped {s : State} (hi : Inv s) (hs : s.started = false)
    (c : ConnId) : s.wouldServe c = false := by
  unfold State.wouldServe
  cases hp : (s.conn c).phase == .serving with
  | false => rfl
  | true =>
    have hp' : (s.conn c).phase = .serving := by simpa using hp
    have hc : c ∈ s.clients := (hi.clients_iff c).mpr (by rw [hp']; rfl)
    simp [hi.stopped_closed hs c hc]

theorem started_step_of_ne_start (s : State) (st : Step) (hne : st ≠ .start)
    (hs : s.started = false) : (step s st).started = false := by
  unfold step; split
  · cases st <;> simp only [apply, doStop, doArrive, doAccept, doAcceptorExit, doDecide,
      doLaunch, doFinish, doRemove, doClose, doRequest, State.setPhase, State.setConn] <;>
      (repeat' split) <;> first | exact hs | rfl | exact absurd rfl hne
  · exact hs

/-- the `served` events of a log -/
def servedOf (l : List Event) : List ConnId := l.filterMap fun | .served c => some c | _ => none

theorem servedOf_step_stopped {s : State} (hi : Inv s) (hs : s.started = false) (st : Step)
    (hne : st ≠ .start) : servedOf (step s st).log = servedOf s.log := by
  unfold step; split
  · cases st <;> simp only [apply, doStop, doArrive, doAccept, doAcceptorExit, doDecide,
      doLaunch, doFinish, doRemove, doClose, doRequest, State.setPhase, State.setConn,
      request_not_served_when_stopped hi hs] <;>
      (repeat' split) <;> first | rfl | exact absurd rfl hne | contradiction | simp [servedOf]
  · rfl

theorem servedOf_run_stopped {s : State} (hi : Inv s) (hs : s.started = false) (steps : List Step)
    (hne : .start ∉ steps) :
    servedOf (run s steps).log = servedOf s.log ∧ (run s steps).started = false := by
  induction steps generalizing s with
  | nil => exact ⟨rfl, hs⟩
  | cons st r ih =>
    have h1 : st ≠ .start := fun e => hne (by simp [e])
    have h2 : .start ∉ r := fun h => hne (List.mem_cons_of_mem _ h)
    obtain ⟨i1, i2⟩ := ih (inv_step hi st) (started_step_of_ne_start s st h1 hs) h2
    exact ⟨by rw [run_cons, i1, servedOf_step_stopped hi hs st h1], i2⟩

/-! ### a closed listener stays closed -/

theorem listening_closed_step (s : State) (st : Step) (g : Nat) (hg : g ≤ s.gen)
    (h : s.listening g = false) : g ≤ (step s st).gen ∧ (step s st).listening g = false := by
  unfold step; split
  · cases st <;> simp only [apply, doStart, doStop, doArrive, doAccept, doAcceptorExit, doDecide,
      doLaunch, doFinish, doRemove, doClose, doRequest, State.setPhase, State.setConn] <;>
      (repeat' split) <;> simp only [State.listening] at h ⊢ <;> first | exact ⟨hg, h⟩ | grind
  · exact ⟨hg, h⟩

theorem listening_closed_run (s : State) (steps : List Step) (g : Nat) (hg : g ≤ s.gen)
    (h : s.listening g = false) : (run s steps).listening g = false := by
  induction steps generalizing s with
  | nil => exact h
  | cons st r ih =>
    obtain ⟨h1, h2⟩ := listening_closed_step s st g hg h
    exact ih (step s st) h1 h2

/-! ### termination measure of the goroutines -/

def connW (l : List (ConnId × Conn)) : Nat := (l.map (fun p => p.2.phase.weight)).sum
def accW (l : List Acceptor) : Nat := (l.map Acceptor.weight).sum

theorem goroutines_eq (s : State) : s.goroutines = accW s.acceptors + connW s.conns := rfl

theorem connW_put (l : List (ConnId × Conn)) (c : ConnId) (v : Conn) :
    connW (put l c v) + ((find l c).getD Conn.fresh).phase.weight = connW l + v.phase.weight := by
  induction l with
  | nil => simp [put, find, connW, Conn.fresh, Phase.weight]
  | cons p r ih =>
    obtain ⟨k, w⟩ := p
    simp only [put, find]
    split
    · simp [connW]; omega
    · simp only [connW, List.map_cons, List.sum_cons] at ih ⊢; omega

theorem accW_modify (l : List Acceptor) (a : Nat) (f : Acceptor → Acceptor) (A : Acceptor)
    (h : l[a]? = some A) : accW (l.modify a f) + A.weight = accW l + (f A).weight := by
  induction l generalizing a with
  | nil => simp at h
  | cons x r ih =>
    cases a with
    | zero => simp at h; subst h; simp [accW, List.modify_cons]; omega
    | succ n =>
      simp at h
      have := ih n h
      simp only [accW, List.modify_succ_cons, List.map_cons, List.sum_cons] at this ⊢; omega

theorem weight_release (c : ConnId) (A : Acceptor) : (release c A).weight = A.weight := by
  unfold release; split
  · next h => simp [Acceptor.weight, h]
  · rfl

theorem accW_release (l : List Acceptor) (c : ConnId) : accW (l.map (release c)) = accW l := by
  induction l with
  | nil => rfl
  | cons x r ih => simp only [accW, List.map_cons, List.sum_cons, weight_release] at ih ⊢; omega

theorem le_sum_of_mem {α : Type} (f : α → Nat) {l : List α} {x : α} (h : x ∈ l) :
    f x ≤ (l.map f).sum := by
  induction l with
  | nil => simp at h
  | cons y r ih =>
    rcases List.mem_cons.mp h with e | hr
    · subst e; simp
    · have := ih hr; simp only [List.map_cons, List.sum_cons]; omega

theorem exists_of_sum_pos {α : Type} (f : α → Nat) {l : List α} (h : 0 < (l.map f).sum) :
    ∃ x ∈ l, 0 < f x := by
  induction l with
  | nil => simp at h
  | cons y r ih =>
    simp only [List.map_cons, List.sum_cons] at h
    by_cases hy : 0 < f y
    · exact ⟨y, by simp, hy⟩
    · obtain ⟨x, hx, hfx⟩ := ih (by omega)
      exact ⟨x, List.mem_cons_of_mem _ hx, hfx⟩

theorem sum_map_eq_zero {α : Type} (f : α → Nat) (l : List α) :
    (l.map f).sum = 0 ↔ ∀ x ∈ l, f x = 0 := by
  induction l with
  | nil => simp
  | cons y r ih => simp only [List.map_cons, List.sum_cons, List.mem_cons, forall_eq_or_imp, ← ih]; omega

/-- every enabled shutdown-path step strictly decreases the measure -/
theorem teardown_decreases (s : State) (st : Step) (he : enabled s st = true)
    (ht : st.teardown = true) : (step s st).goroutines < s.goroutines := by
  rw [step_eq s st he]
  cases st with
  | acceptorExit a =>
    obtain ⟨g, h1, _⟩ := (enabled_exit_iff s a).mp he
    have := accW_modify s.acceptors a (fun A => { A with pc := .exited }) _ h1
    simp only [apply, doAcceptorExit, goroutines_eq]
    simp only [Acceptor.weight] at this; omega
  | decide c =>
    simp only [enabled, beq_iff_eq] at he
    simp only [apply, doDecide]
    split <;> simp only [goroutines_eq, State.setPhase, State.setConn]
    · have := connW_put s.conns c { s.conn c with phase := .admitted }
      rw [conn_fold, he] at this; simp only [Phase.weight] at this; omega
    · have := connW_put s.conns c { s.conn c with phase := .rejecting }
      rw [conn_fold, he] at this; simp only [Phase.weight] at this; omega
  | launch c =>
    simp only [enabled, Bool.or_eq_true, beq_iff_eq] at he
    simp only [apply, doLaunch]
    split
    · next hp =>
      have hp' : (s.conn c).phase = .admitted := by simpa using hp
      simp only [goroutines_eq, State.setPhase, State.setConn, accW_release]
      have := connW_put s.conns c { s.conn c with phase := .serving }
      rw [conn_fold, hp'] at this; simp only [Phase.weight] at this; omega
    · next hp =>
      have hp' : (s.conn c).phase = .rejecting := by
        rcases he with h | h
        · simp [h] at hp
        · exact h
      simp only [goroutines_eq, State.setConn, accW_release]
      have := connW_put s.conns c { s.conn c with phase := .rejected, sockClosed := true }
      rw [conn_fold, hp'] at this; simp only [Phase.weight] at this; omega
  | finish c r =>
    simp only [enabled, Bool.and_eq_true, beq_iff_eq] at he
    simp only [apply, doFinish, goroutines_eq, State.setPhase, State.setConn]
    have := connW_put s.conns c { s.conn c with phase := .finished }
    rw [conn_fold, he.1] at this; simp only [Phase.weight] at this; omega
  | remove c =>
    simp only [enabled, beq_iff_eq] at he
    simp only [apply, doRemove, goroutines_eq, State.setPhase, State.setConn]
    have := connW_put s.conns c { s.conn c with phase := .removed }
    rw [conn_fold, he] at this; simp only [Phase.weight] at this; omega
  | close c =>
    simp only [enabled, beq_iff_eq] at he
    simp only [apply, doClose, goroutines_eq, State.setConn]
    have := connW_put s.conns c { s.conn c with phase := .closed, sockClosed := true }
    rw [conn_fold, he] at this; simp only [Phase.weight] at this; omega
  | _ => simp [Step.teardown] at ht

/-- while the server is stopped, as long as a goroutine is left one of them can take a step of
    its shutdown path; a session whose socket Stop closed ends with `socketClosedByServer` -/
theorem teardown_progress {s : State} (hi : Inv s) (hs : s.started = false)
    (hpos : 0 < s.goroutines) : ∃ st, st.teardown = true ∧ enabled s st = true := by
  rw [goroutines_eq] at hpos
  by_cases hc : 0 < connW s.conns
  · obtain ⟨⟨c, k⟩, hm, hw⟩ := exists_of_sum_pos _ hc
    have hk : s.conn c = k := conn_of_mem hi hm
    subst hk
    simp only at hw
    cases hp : (s.conn c).phase <;> rw [hp] at hw <;> simp only [Phase.weight, Nat.lt_irrefl] at hw
    · exact ⟨.decide c, rfl, by simp [enabled, hp]⟩
    · exact ⟨.launch c, rfl, by simp [enabled, hp]⟩
    · exact ⟨.launch c, rfl, by simp [enabled, hp]⟩
    · have hcl : c ∈ s.clients := (hi.clients_iff c).mpr (by rw [hp]; rfl)
      have := hi.stopped_closed hs c hcl
      exact ⟨.finish c .socketClosedByServer, rfl, by simp [enabled, hp, this]⟩
    · exact ⟨.remove c, rfl, by simp [enabled, hp]⟩
    · exact ⟨.close c, rfl, by simp [enabled, hp]⟩
  · have ha : 0 < accW s.acceptors := by omega
    obtain ⟨A, hm, hw⟩ := exists_of_sum_pos _ ha
    obtain ⟨i, hi'⟩ := List.mem_iff_getElem?.mp hm
    obtain ⟨g, pc⟩ := A
    cases pc with
    | accepting =>
      refine ⟨.acceptorExit i, rfl, (enabled_exit_iff s i).mpr ⟨g, hi', ?_⟩⟩
      simp [State.listening, ← hi.started_open, hs]
    | holding c =>
      exfalso
      have hh := (hi.acc_hold i g c hi').1
      have hne : (s.conn c).phase ≠ .fresh := by intro e; rw [e] at hh; cases hh
      have hmem := mem_conns_of_phase hne
      have hle : (s.conn c).phase.weight ≤ connW s.conns :=
        le_sum_of_mem (fun p : ConnId × Conn => p.2.phase.weight) hmem
      have : 0 < (s.conn c).phase.weight := by
        cases hp : (s.conn c).phase <;> rw [hp] at hh <;> simp [Phase.held, Phase.weight] at hh ⊢
      omega
    | exited => simp [Acceptor.weight] at hw

/-- from every stopped state the goroutines can all be brought to their end by shutdown-path
    steps only (no Start, no new connection, no request needed) -/
theorem teardown_terminates {s : State} (hi : Inv s) (hs : s.started = false) :
    ∃ steps, (∀ st ∈ steps, st.teardown = true) ∧ (run s steps).goroutines = 0 ∧
      (run s steps).started = false := by
  generalize hn : s.goroutines = n
  induction n using Nat.strongRecOn generalizing s with
  | _ n ih =>
    by_cases h0 : n = 0
    · exact ⟨[], by simp, by rw [run_nil, hn, h0], hs⟩
    · obtain ⟨st, ht, he⟩ := teardown_progress hi hs (by omega)
      have hd := teardown_decreases s st he ht
      have hne : st ≠ .start := by intro e; rw [e] at ht; cases ht
      obtain ⟨steps, h1, h2, h3⟩ := ih (step s st).goroutines (by omega) (inv_step hi st)
        (started_step_of_ne_start s st hne hs) rfl
      refine ⟨st :: steps, ?_, by rw [run_cons]; exact h2, by rw [run_cons]; exact h3⟩
      intro x hx
      rcases List.mem_cons.mp hx with e | hr
      · rw [e]; exact ht
      · exact h1 x hr

theorem goroutines_zero_iff {s : State} (hi : Inv s) :
    s.goroutines = 0 ↔ (∀ A ∈ s.acceptors, A.pc = .exited) ∧ ∀ c, (s.conn c).phase.weight = 0 := by
  rw [goroutines_eq]
  constructor
  · intro h
    have h1 : accW s.acceptors = 0 := by omega
    have h2 : connW s.conns = 0 := by omega
    rw [accW, sum_map_eq_zero] at h1
    rw [connW, sum_map_eq_zero] at h2
    refine ⟨fun A hA => ?_, fun c => ?_⟩
    · have := h1 A hA
      unfold Acceptor.weight at this
      split at this
      · assumption
      · cases this
    · by_cases hf : (s.conn c).phase = .fresh
      · rw [hf]; rfl
      · exact h2 _ (mem_conns_of_phase hf)
  · intro ⟨h1, h2⟩
    have e1 : accW s.acceptors = 0 := by
      rw [accW, sum_map_eq_zero]; intro A hA; simp [Acceptor.weight, h1 A hA]
    have e2 : connW s.conns = 0 := by
      rw [connW, sum_map_eq_zero]; intro ⟨c, k⟩ hm
      have := h2 c; rw [conn_of_mem hi hm] at this; exact this
    omega

/-! ### session-level locality (C11) -/

/-- steps taken by the goroutine that currently owns the connection (admission, session) or by
    its peer: everything except the listener-level steps -/
def Step.isLocal : Step → Bool
  | .decide _ | .launch _ | .finish _ _ | .remove _ | .close _ | .request _ => true
  | _ => false

/-- whether a connection-level step is enabled is a function of that connection's record only:
    no lock, list or other session is consulted -/
theorem enabled_local (s₁ s₂ : State) (st : Step) (c' : ConnId) (hl : st.isLocal = true)
    (hc : st.connOf = some c') (h : s₁.conn c' = s₂.conn c') : enabled s₁ st = enabled s₂ st := by
  cases st <;> simp only [Step.isLocal, Bool.false_eq_true] at hl <;>
    simp only [Step.connOf, Option.some.injEq] at hc <;> subst hc <;> simp only [enabled, h]

theorem wouldServe_local (s₁ s₂ : State) (c' : ConnId) (h : s₁.conn c' = s₂.conn c') :
    s₁.wouldServe c' = s₂.wouldServe c' := by simp only [State.wouldServe, h]

/-- a serving session can always run to its end on its own -/
theorem session_completes (s : State) (c : ConnId) (h : (s.conn c).phase = .serving) :
    let s' := run s [.request c, .finish c .peerClosed, .remove c, .close c]
    (s'.conn c).phase = .closed ∧ ((s.conn c).sockClosed = false → s'.log = s.log ++ [.served c]) ∧
      ((s.conn c).sockClosed = true → s'.log = s.log) := by
  have e1 : step s (.request c) = doRequest s c := by
    rw [step_eq]; rfl
    simp [enabled, h]
  have c1 : (doRequest s c).conn c = s.conn c := by
    unfold doRequest; split <;> rfl
  have e2 : step (doRequest s c) (.finish c .peerClosed) = (doRequest s c).setPhase c .finished := by
    apply step_finish; simp [enabled, c1, h]
  have e3 := step_remove ((doRequest s c).setPhase c .finished) c (by simp)
  have e4 : step (doRemove ((doRequest s c).setPhase c .finished) c) (.close c) =
      doClose (doRemove ((doRequest s c).setPhase c .finished) c) c := by
    rw [step_eq]; rfl
    simp [enabled, doRemove, conn_mk, conn_fold]
  intro s'
  have es : s' = doClose (doRemove ((doRequest s c).setPhase c .finished) c) c := by
    show run s [.request c, .finish c .peerClosed, .remove c, .close c] = _
    simp only [run_cons, run_nil, e1, e2, e3, e4]
  rw [es]
  refine ⟨by simp [doClose], ?_, ?_⟩
  · intro hc
    simp [doClose, doRemove, State.setConn, State.setPhase, doRequest, State.wouldServe, h, hc]
  · intro hc
    simp [doClose, doRemove, State.setConn, State.setPhase, doRequest, State.wouldServe, h, hc]

/-! ### Start / Stop -/

theorem step_start (s : State) : step s .start = doStart s := rfl
theorem step_stop (s : State) : step s .stop = doStop s := rfl

theorem start_idempotent (s : State) : step (step s .start) .start = step s .start := by
  simp only [step_start]
  unfold doStart
  by_cases h : s.started = true <;> simp [h]

theorem stop_idempotent (s : State) : step (step s .stop) .stop = step s .stop := by
  simp only [step_stop]
  unfold doStop
  by_cases h : s.started = true <;> simp [h]

theorem stop_start (s : State) (hi : Inv s) :
    let s' := run s [.stop, .start]
    s'.started = true ∧ s'.listenerOpen = true ∧ s'.gen = s.gen + 1 ∧ s'.clients = s.clients ∧
      s'.maxClients = s.maxClients ∧ s'.acceptors[s.gen]? = some ⟨s'.gen, .accepting⟩ := by
  intro s'
  have es : s' = doStart (doStop s) := rfl
  have hl := hi.acc_len
  rw [es]; unfold doStart doStop
  by_cases h : s.started = true <;> simp [h, ← hl]

end Modbus.Lifecycle
