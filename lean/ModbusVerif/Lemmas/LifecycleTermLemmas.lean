import ModbusVerif.Lemmas.LifecycleLemmas
/-
  Termination of the shutdown path for EVERY schedule (property C10, gap A of the statement audit).

  `LifecycleLemmas` has: `teardown_decreases` (an enabled shutdown-path step strictly decreases
  `goroutines`), `teardown_progress` (stopped + goroutines > 0 ⇒ some shutdown-path step is
  enabled) and `teardown_terminates` (∃ a schedule that reaches 0).  Here: the universally
  quantified versions.

    TeardownSched s steps     every step of `steps` is a shutdown-path step that is enabled in the
                              state in which it is taken (starting from `s`)
    Maximal s                 no shutdown-path step is enabled in `s`
    effective s steps         number of steps of an arbitrary schedule that are shutdown-path steps
                              enabled when taken (the others - disabled steps, environment steps -
                              are counted as 0)
    exec s f n                the state after the first n steps of the infinite schedule f
-/
namespace Modbus.Lifecycle

/-! ### schedules of enabled shutdown-path steps -/

/-- every step of the schedule is a shutdown-path step and is enabled in the state where it is
    taken -/
def TeardownSched : State → List Step → Prop
  | _, [] => True
  | s, st :: r => enabled s st = true ∧ st.teardown = true ∧ TeardownSched (step s st) r

instance instDecidableTeardownSched : (s : State) → (l : List Step) → Decidable (TeardownSched s l)
  | _, [] => isTrue trivial
  | s, st :: r =>
    have := instDecidableTeardownSched (step s st) r
    inferInstanceAs (Decidable (enabled s st = true ∧ st.teardown = true ∧ TeardownSched (step s st) r))

theorem teardownSched_nil (s : State) : TeardownSched s [] := trivial

theorem teardownSched_cons (s : State) (st : Step) (r : List Step) :
    TeardownSched s (st :: r) ↔
      enabled s st = true ∧ st.teardown = true ∧ TeardownSched (step s st) r := Iff.rfl

theorem teardownSched_append (s : State) (l₁ l₂ : List Step) :
    TeardownSched s (l₁ ++ l₂) ↔ TeardownSched s l₁ ∧ TeardownSched (run s l₁) l₂ := by
  induction l₁ generalizing s with
  | nil => simp [TeardownSched, run_nil]
  | cons st r ih =>
    simp only [List.cons_append, teardownSched_cons, run_cons, ih, and_assoc]

/-- the steps of such a schedule are all shutdown-path steps -/
theorem TeardownSched.all_teardown {s : State} {steps : List Step} (h : TeardownSched s steps) :
    ∀ st ∈ steps, st.teardown = true := by
  induction steps generalizing s with
  | nil => intro st hst; cases hst
  | cons x r ih =>
    obtain ⟨_, h2, h3⟩ := h
    intro st hst
    rcases List.mem_cons.mp hst with e | hr
    · rw [e]; exact h2
    · exact ih h3 st hr

/-- no shutdown-path step is enabled -/
def Maximal (s : State) : Prop := ∀ st : Step, st.teardown = true → enabled s st = false

theorem teardown_ne_start {st : Step} (h : st.teardown = true) : st ≠ .start := by
  intro e; rw [e] at h; cases h

/-- strict decrease, summed up: the length of ANY schedule of enabled shutdown-path steps plus
    the measure at its end is at most the measure at its beginning (any state, no invariant) -/
theorem teardownSched_length_add (s : State) (steps : List Step) (h : TeardownSched s steps) :
    steps.length + (run s steps).goroutines ≤ s.goroutines := by
  induction steps generalizing s with
  | nil => simp [run_nil]
  | cons st r ih =>
    obtain ⟨h1, h2, h3⟩ := h
    have hd := teardown_decreases s st h1 h2
    have := ih (step s st) h3
    rw [run_cons, List.length_cons]
    omega

/-- such a schedule keeps the server stopped -/
theorem teardownSched_started {s : State} (hs : s.started = false) (steps : List Step)
    (h : TeardownSched s steps) : (run s steps).started = false := by
  induction steps generalizing s with
  | nil => exact hs
  | cons st r ih =>
    obtain ⟨_, h2, h3⟩ := h
    rw [run_cons]
    exact ih (started_step_of_ne_start s st (teardown_ne_start h2) hs) h3

/-- in a stopped state that satisfies the invariant: no shutdown-path step enabled ⇔ measure 0 -/
theorem maximal_iff {s : State} (hi : Inv s) (hs : s.started = false) :
    Maximal s ↔ s.goroutines = 0 := by
  constructor
  · intro hm
    cases hg : s.goroutines with
    | zero => rfl
    | succ n =>
      obtain ⟨st, ht, he⟩ := teardown_progress hi hs (by omega)
      rw [hm st ht] at he; cases he
  · intro h0 st ht
    cases he : enabled s st with
    | false => rfl
    | true => have := teardown_decreases s st he ht; omega

/-- measure 0 ⇒ nothing of the shutdown path is enabled (any state) -/
theorem maximal_of_zero {s : State} (h0 : s.goroutines = 0) : Maximal s := by
  intro st ht
  cases he : enabled s st with
  | false => rfl
  | true => have := teardown_decreases s st he ht; omega

/-! ### the environment while the server is stopped -/

/-- while the server is stopped, every step that is neither `Start` nor a shutdown-path step of a
    server goroutine (that is: `Stop` again, a peer connecting, an `Accept` returning a
    connection, a peer sending a request) leaves the whole state unchanged: the first is a no-op,
    the next two are not enabled (the listener is closed), the last reaches no handler -/
theorem env_step_stopped {s : State} (hi : Inv s) (hs : s.started = false) (st : Step)
    (hne : st ≠ .start) (ht : st.teardown = false) : step s st = s := by
  have hop : s.listenerOpen = false := by rw [← hi.started_open]; exact hs
  cases st with
  | start => exact absurd rfl hne
  | stop => show doStop s = s; simp [doStop, hs]
  | arrive c => exact step_disabled s _ (by simp [enabled, hop])
  | accept a c =>
    apply step_disabled
    cases he : enabled s (.accept a c) with
    | false => rfl
    | true => have := ((enabled_accept_iff s a c).mp he).2.1; rw [hop] at this; cases this
  | request c =>
    unfold step; split
    · simp [apply, doRequest, request_not_served_when_stopped hi hs c]
    · rfl
  | acceptorExit a => cases ht
  | decide c => cases ht
  | launch c => cases ht
  | finish c r => cases ht
  | remove c => cases ht
  | close c => cases ht

/-- while stopped, no step other than `Start` increases the measure, and the server stays
    stopped -/
theorem goroutines_step_stopped {s : State} (hi : Inv s) (hs : s.started = false) (st : Step)
    (hne : st ≠ .start) :
    (step s st).goroutines ≤ s.goroutines ∧ (step s st).started = false := by
  refine ⟨?_, started_step_of_ne_start s st hne hs⟩
  cases ht : st.teardown with
  | false => rw [env_step_stopped hi hs st hne ht]; exact Nat.le_refl _
  | true =>
    cases he : enabled s st with
    | false => rw [step_disabled s st he]; exact Nat.le_refl _
    | true => exact Nat.le_of_lt (teardown_decreases s st he ht)

/-! ### arbitrary interleavings -/

/-- the number of steps of an arbitrary schedule that are shutdown-path steps AND enabled when
    they are taken -/
def effective : State → List Step → Nat
  | _, [] => 0
  | s, st :: r => (if st.teardown && enabled s st then 1 else 0) + effective (step s st) r

theorem effective_eq_length {s : State} {steps : List Step} (h : TeardownSched s steps) :
    effective s steps = steps.length := by
  induction steps generalizing s with
  | nil => rfl
  | cons st r ih =>
    obtain ⟨h1, h2, h3⟩ := h
    simp [effective, h1, h2, ih h3]; omega

/-- any schedule without `Start` from a stopped state: effective shutdown-path steps + final
    measure ≤ initial measure; still stopped; invariant kept -/
theorem interleaving_bound {s : State} (hi : Inv s) (hs : s.started = false) (steps : List Step)
    (hns : Step.start ∉ steps) :
    effective s steps + (run s steps).goroutines ≤ s.goroutines ∧
      (run s steps).started = false := by
  induction steps generalizing s with
  | nil => exact ⟨by simp [effective, run_nil], hs⟩
  | cons st r ih =>
    have h1 : st ≠ .start := fun e => hns (by simp [e])
    have h2 : Step.start ∉ r := fun h => hns (List.mem_cons_of_mem _ h)
    obtain ⟨hle, hst'⟩ := goroutines_step_stopped hi hs st h1
    obtain ⟨i1, i2⟩ := ih (inv_step hi st) hst' h2
    refine ⟨?_, by rw [run_cons]; exact i2⟩
    rw [run_cons]
    simp only [effective]
    by_cases hc : (st.teardown && enabled s st) = true
    · simp only [Bool.and_eq_true] at hc
      have := teardown_decreases s st hc.2 hc.1
      simp only [hc.1, hc.2, Bool.and_self, if_true]
      omega
    · rw [Bool.not_eq_true] at hc
      simp only [hc, Bool.false_eq_true, if_false]
      omega

/-! ### infinite schedules and fairness -/

/-- the state after the first `n` steps of the infinite schedule `f` -/
def exec (s : State) (f : Nat → Step) : Nat → State
  | 0 => s
  | n + 1 => step (exec s f n) (f n)

/-- the number of effective shutdown-path steps among the first `n` -/
def execEffective (s : State) (f : Nat → Step) : Nat → Nat
  | 0 => 0
  | n + 1 => execEffective s f n +
      (if (f n).teardown && enabled (exec s f n) (f n) then 1 else 0)

/-- weak fairness for the shutdown path: whenever some shutdown-path step is enabled, at that
    time or later an enabled shutdown-path step is taken -/
def Fair (s : State) (f : Nat → Step) : Prop :=
  ∀ n, (∃ st, st.teardown = true ∧ enabled (exec s f n) st = true) →
    ∃ m, n ≤ m ∧ (f m).teardown = true ∧ enabled (exec s f m) (f m) = true

theorem exec_invariants {s : State} (hi : Inv s) (hs : s.started = false) (f : Nat → Step)
    (hns : ∀ n, f n ≠ .start) (n : Nat) :
    Inv (exec s f n) ∧ (exec s f n).started = false ∧
      execEffective s f n + (exec s f n).goroutines ≤ s.goroutines := by
  induction n with
  | zero => exact ⟨hi, hs, by simp [exec, execEffective]⟩
  | succ n ih =>
    obtain ⟨i1, i2, i3⟩ := ih
    obtain ⟨hle, hst'⟩ := goroutines_step_stopped i1 i2 (f n) (hns n)
    refine ⟨inv_step i1 _, hst', ?_⟩
    simp only [exec, execEffective]
    by_cases hc : ((f n).teardown && enabled (exec s f n) (f n)) = true
    · simp only [Bool.and_eq_true] at hc
      have := teardown_decreases _ _ hc.2 hc.1
      simp only [hc.1, hc.2, Bool.and_self, if_true]
      omega
    · rw [Bool.not_eq_true] at hc
      simp only [hc, Bool.false_eq_true, if_false]
      omega

theorem exec_goroutines_mono {s : State} (hi : Inv s) (hs : s.started = false) (f : Nat → Step)
    (hns : ∀ n, f n ≠ .start) {n m : Nat} (h : n ≤ m) :
    (exec s f m).goroutines ≤ (exec s f n).goroutines := by
  induction m with
  | zero => have : n = 0 := by omega
            subst this; exact Nat.le_refl _
  | succ m ih =>
    by_cases hnm : n = m + 1
    · subst hnm; exact Nat.le_refl _
    · obtain ⟨i1, i2, _⟩ := exec_invariants hi hs f hns m
      have := (goroutines_step_stopped i1 i2 (f m) (hns m)).1
      have := ih (by omega)
      simp only [exec]
      omega

/-- every fair infinite schedule without `Start`, from a stopped state, reaches measure 0 -/
theorem fair_reaches_zero {s : State} (hi : Inv s) (hs : s.started = false) (f : Nat → Step)
    (hns : ∀ n, f n ≠ .start) (hf : Fair s f) :
    ∃ n, (exec s f n).goroutines = 0 := by
  suffices h : ∀ k n, (exec s f n).goroutines = k → ∃ m, (exec s f m).goroutines = 0 from
    h _ 0 rfl
  intro k
  induction k using Nat.strongRecOn with
  | _ k ih =>
    intro n hk
    by_cases h0 : k = 0
    · exact ⟨n, by rw [hk, h0]⟩
    · obtain ⟨i1, i2, _⟩ := exec_invariants hi hs f hns n
      obtain ⟨st, ht, he⟩ := teardown_progress i1 i2 (by omega)
      obtain ⟨m, hnm, hmt, hme⟩ := hf n ⟨st, ht, he⟩
      have hmono := exec_goroutines_mono hi hs f hns hnm
      have hd := teardown_decreases _ _ hme hmt
      exact ih (exec s f (m + 1)).goroutines (by simp only [exec]; omega) (m + 1) rfl

end Modbus.Lifecycle
