import ModbusVerif.Lemmas.CliLemmas
import ModbusVerif.Lemmas.SystemLemmas
/-
  Extension of the C20 proofs (modbus-cli front end); statements live in Props/C20Ext.lean.

    A. the numeral grammar of `strconv.ParseUint / ParseInt` with base 0 as an explicit inductive
       definition (`Tail`, `UNumeral`, `SNumeral`: SPECIFICATION, written from the Go language
       specification of integer literals plus the "leading 0 = octal" rule of strconv), and the
       proof that the transcription `Cli.parseUintE / parseIntE` accepts exactly that grammar
       (`parseUintE_iff`, `parseIntE_iff`, `parseUintE_range_of`);
    B. the run loop of the CLI as a history of the closed-loop system (`opCmds`, `cmdsOf`,
       `sessionCmds`, `sessionCfg`, `runWritten`: MODEL glue, mirrors `cliRun` of
       Driver/Main.lean), specification vocabulary for "the device's contents interpreted in the
       requested type" (`Holds`, `byteAt`, `valueLayout`, `valueRegs`, `readBack`), for "the
       requests on the wire" (`wireSpec`, `sentCount`) and for "what the device sees"
       (`deviceSpec`), and the composition with the C04 theorems (`step_read_typed`,
       `step_read_bools`, `step_write_typed`, `step_write_coil`, `step_write_read`,
       `runWritten_cmdsOf`, `session_wire`, `regfileCalls_cmdsOf`);
    C. the complete characterisation of the accepted argument strings (`AddrField`, `WrValue`,
       `Accepts`: SPECIFICATION; `parseAQ_iff`, `accept_*`, `parseParts_iff`,
       `malformed_refused`).

  Core Lean only.
-/
namespace Modbus.CliExt
open Modbus Modbus.Cli Modbus.Spec Modbus.CliLemmas

/-! ## A. the numeral grammar -/

/-- SPECIFICATION.  `Tail b acc s v`: `s` is a (possibly empty) sequence of base-`b` digits, each
    optionally preceded by ONE underscore (so no leading-position restriction here: the character
    before the tail — a digit or the base prefix — "counts as a digit"), no trailing underscore,
    no double underscore; reading the digits left to right from the accumulator `acc`
    (`acc := acc * b + d`) gives `v`.  Digit values: `Cli.digitVal`. -/
inductive Tail (b : Nat) : Nat → List Char → Nat → Prop
  | done (acc : Nat) : Tail b acc [] acc
  | digit {acc : Nat} {c : Char} {d : Nat} {rest : List Char} {v : Nat} :
      digitVal c = some d → d < b → Tail b (acc * b + d) rest v → Tail b acc (c :: rest) v
  | sep {acc : Nat} {c : Char} {d : Nat} {rest : List Char} {v : Nat} :
      digitVal c = some d → d < b → Tail b (acc * b + d) rest v → Tail b acc ('_' :: c :: rest) v

/-- SPECIFICATION.  The unsigned integer literals `strconv.ParseUint(s, 0, _)` accepts, with
    their values:
      dec   a digit 1–9 followed by a decimal tail                      "300", "1_000"
      oct   `0` followed by an octal tail (leading 0 = octal)           "0", "00", "017", "0_17"
      bin   `0b` / `0B` followed by a NON-EMPTY binary tail             "0b101", "0B_1"
      octP  `0o` / `0O` followed by a non-empty octal tail              "0o17"
      hex   `0x` / `0X` followed by a non-empty hexadecimal tail,
            digits of either case                                       "0x100", "0XfF", "0x_1f"
    Nothing else: no sign, no blank, no other character, not the empty string. -/
inductive UNumeral : List Char → Nat → Prop
  | dec {c : Char} {d : Nat} {rest : List Char} {v : Nat} :
      digitVal c = some d → 1 ≤ d → d < 10 → Tail 10 d rest v → UNumeral (c :: rest) v
  | oct {rest : List Char} {v : Nat} : Tail 8 0 rest v → UNumeral ('0' :: rest) v
  | bin {p c : Char} {rest : List Char} {v : Nat} :
      p = 'b' ∨ p = 'B' → Tail 2 0 (c :: rest) v → UNumeral ('0' :: p :: c :: rest) v
  | octP {p c : Char} {rest : List Char} {v : Nat} :
      p = 'o' ∨ p = 'O' → Tail 8 0 (c :: rest) v → UNumeral ('0' :: p :: c :: rest) v
  | hex {p c : Char} {rest : List Char} {v : Nat} :
      p = 'x' ∨ p = 'X' → Tail 16 0 (c :: rest) v → UNumeral ('0' :: p :: c :: rest) v

/-- SPECIFICATION.  What `strconv.ParseInt(s, 0, _)` accepts: an unsigned literal, optionally
    preceded by exactly one `+` or `-` ("-0" is 0) -/
inductive SNumeral : List Char → Int → Prop
  | bare {s : List Char} {n : Nat} : UNumeral s n → SNumeral s (n : Int)
  | plus {s : List Char} {n : Nat} : UNumeral s n → SNumeral ('+' :: s) (n : Int)
  | minus {s : List Char} {n : Nat} : UNumeral s n → SNumeral ('-' :: s) (-(n : Int))

/-! ### characters -/

theorem digitVal_us : digitVal '_' = none := by decide
theorem digitVal_plus : digitVal '+' = none := by decide
theorem digitVal_minus : digitVal '-' = none := by decide

theorem char_of_toNat {c : Char} {n : Nat} (h : c.toNat = n) (d : Char) (hd : d.toNat = n) : c = d := by
  apply Char.ext
  apply UInt32.toNat_inj.mp
  show c.toNat = d.toNat
  omega

theorem char_le_toNat {a b : Char} : a ≤ b ↔ a.toNat ≤ b.toNat := by
  rw [Char.le_def]; exact UInt32.le_iff_toNat_le

/-- the digit classes of `digitVal`: a decimal digit, or a letter with value ≥ 10 -/
theorem digitVal_cases {c : Char} {d : Nat} (h : digitVal c = some d) :
    (isDec c = true ∧ d < 10 ∧ d = c.toNat - 48) ∨
    (isDec c = false ∧ 10 ≤ d ∧ (('a' ≤ c ∧ c ≤ 'z' ∧ d = c.toNat - 97 + 10) ∨
                                    ('A' ≤ c ∧ c ≤ 'Z' ∧ d = c.toNat - 65 + 10))) := by
  unfold digitVal at h
  split at h
  · rename_i h1
    injection h with h; subst h
    left
    have := char_le_toNat.mp h1.1
    have := char_le_toNat.mp h1.2
    refine ⟨by simp [isDec, h1.1, h1.2], ?_, rfl⟩
    change 48 ≤ c.toNat at *
    rename_i h9; change c.toNat ≤ 57 at h9; omega
  · rename_i h1
    have hnd : isDec c = false := by
      simp only [isDec, Bool.and_eq_false_imp, decide_eq_true_eq, decide_eq_false_iff_not]
      intro ha hb; exact h1 ⟨ha, hb⟩
    split at h
    · rename_i h2; injection h with h; subst h
      right; exact ⟨hnd, by omega, .inl ⟨h2.1, h2.2, rfl⟩⟩
    · split at h
      · rename_i h3; injection h with h; subst h
        right; exact ⟨hnd, by omega, .inr ⟨h3.1, h3.2, rfl⟩⟩
      · cases h


/-- the digit test of `underscoreOK` -/
def usDigit (hex : Bool) (c : Char) : Bool := isDec c || (hex && isHexLetter c)

/-- base and `hex` flag as they occur together in ParseUint / underscoreOK -/
def Compat (b : Nat) (hex : Bool) : Prop := 2 ≤ b ∧ (b ≤ 10 ∨ (b ≤ 16 ∧ hex = true))

theorem usDigit_of_digit {b : Nat} {hex : Bool} (hc : Compat b hex) {c : Char} {d : Nat}
    (h : digitVal c = some d) (hd : d < b) : usDigit hex c = true := by
  rcases digitVal_cases h with ⟨h1, _, _⟩ | ⟨_, h10, hl⟩
  · simp [usDigit, h1]
  · rcases hc.2 with hb | ⟨hb, hx⟩
    · omega
    · subst hx
      have : isHexLetter c = true := by
        rcases hl with ⟨ha, _, he⟩ | ⟨ha, _, he⟩
        · have h1 := char_le_toNat.mp ha
          change 97 ≤ c.toNat at h1
          have : c ≤ 'f' := char_le_toNat.mpr (by change c.toNat ≤ 102; omega)
          simp [isHexLetter, ha, this]
        · have h1 := char_le_toNat.mp ha
          change 65 ≤ c.toNat at h1
          have : c ≤ 'F' := char_le_toNat.mpr (by change c.toNat ≤ 70; omega)
          simp [isHexLetter, ha, this]
      simp [usDigit, this]

theorem usDigit_ne_us {hex : Bool} {c : Char} (h : usDigit hex c = true) : c ≠ '_' := by
  intro e; subst e; cases hex <;> revert h <;> decide

theorem digit_ne_us {c : Char} {d : Nat} (h : digitVal c = some d) : c ≠ '_' := by
  intro e; subst e; rw [digitVal_us] at h; cases h

theorem underscoreLoop_digit {hex : Bool} {saw : Saw} {c : Char} {cs : List Char}
    (h : usDigit hex c = true) :
    underscoreLoop hex saw (c :: cs) = underscoreLoop hex .digit cs := by
  unfold usDigit at h
  rw [underscoreLoop, if_pos h]

theorem underscoreLoop_us {hex : Bool} {cs : List Char} :
    underscoreLoop hex .digit ('_' :: cs) = underscoreLoop hex .underscore cs := by
  rw [underscoreLoop]
  cases hex <;> simp [isDec, isHexLetter] <;> decide

/-- after an underscore only a digit may follow -/
theorem underscoreLoop_after_us {hex : Bool} {cs : List Char}
    (h : underscoreLoop hex .underscore cs = true) :
    ∃ c rest, cs = c :: rest ∧ usDigit hex c = true ∧ underscoreLoop hex .digit rest = true := by
  cases cs with
  | nil => simp [underscoreLoop] at h
  | cons c rest =>
    by_cases hd : usDigit hex c = true
    · exact ⟨c, rest, rfl, hd, by rwa [underscoreLoop_digit hd] at h⟩
    · exfalso
      rw [underscoreLoop] at h
      unfold usDigit at hd
      rw [if_neg hd] at h
      by_cases hu : c = '_' <;> simp [hu] at h

/-! ### the digit loop -/

theorem digitsLoop_us_true {maxVal b : Nat} : ∀ (s : List Char) (n : Nat) (v : Nat) (us' : Bool),
    digitsLoop maxVal b n true s = .ok (v, us') → us' = true := by
  intro s
  induction s with
  | nil => intro n v us' h; simp [digitsLoop] at h; exact h.2
  | cons c cs ih =>
    intro n v us' h
    rw [digitsLoop] at h
    split at h
    · exact ih _ _ _ h
    · split at h
      · cases h
      · split at h
        · cases h
        · split at h
          · cases h
          · exact ih _ _ _ h

theorem digitsLoop_cons_us {maxVal b n : Nat} {us : Bool} {cs : List Char} :
    digitsLoop maxVal b n us ('_' :: cs) = digitsLoop maxVal b n true cs := by
  rw [digitsLoop, if_pos rfl]

theorem digitsLoop_cons_digit {maxVal b n : Nat} {us : Bool} {c : Char} {cs : List Char}
    {d : Nat} (hm : maxVal < two64) (hb : 1 ≤ b) (hb16 : b ≤ 36)
    (hc : digitVal c = some d) (hd : d < b) :
    digitsLoop maxVal b n us (c :: cs) =
      if n * b + d ≤ maxVal then digitsLoop maxVal b (n * b + d) us cs else .error .range := by
  rw [digitsLoop, if_neg (digit_ne_us hc), hc]
  simp only
  rw [if_neg (by omega), accum_eq hb (by unfold two64; omega) hm]
  by_cases hx : n * b + d ≤ maxVal
  · rw [if_pos hx, if_pos hx]
  · rw [if_neg hx, if_neg hx]

/-- a character that is neither `_` nor a digit of the base ends the loop with a syntax error -/
theorem digitsLoop_cons_bad {maxVal b n : Nat} {us : Bool} {c : Char} {cs : List Char}
    (hu : c ≠ '_') (hbad : ∀ d, digitVal c = some d → b ≤ d) :
    digitsLoop maxVal b n us (c :: cs) = .error .syntax := by
  rw [digitsLoop, if_neg hu]
  cases hc : digitVal c with
  | none => rfl
  | some d => simp only; rw [if_pos (hbad d hc)]

theorem Tail.le {b : Nat} (hb : 1 ≤ b) {acc : Nat} {s : List Char} {v : Nat}
    (h : Tail b acc s v) : acc ≤ v := by
  induction h with
  | done => exact Nat.le_refl _
  | @digit acc _ _ _ _ _ _ _ ih => have := Nat.le_mul_of_pos_right acc hb; omega
  | @sep acc _ _ _ _ _ _ _ ih => have := Nat.le_mul_of_pos_right acc hb; omega


theorem tail_complete {b : Nat} {hex : Bool} (hc : Compat b hex) (hb36 : b ≤ 36) {maxVal : Nat}
    (hm : maxVal < two64) {acc : Nat} {s : List Char} {v : Nat} (h : Tail b acc s v)
    (hv : v ≤ maxVal) :
    ∀ us, (∃ us', digitsLoop maxVal b acc us s = .ok (v, us')) ∧
      underscoreLoop hex .digit s = true := by
  have hb1 : 1 ≤ b := by have := hc.1; omega
  induction h with
  | done acc => intro us; exact ⟨⟨us, rfl⟩, by simp [underscoreLoop]⟩
  | @digit acc c d rest v hd hlt ht ih =>
    intro us
    have hle := ht.le hb1
    obtain ⟨⟨us', h1⟩, h2⟩ := ih hv us
    refine ⟨⟨us', ?_⟩, ?_⟩
    · rw [digitsLoop_cons_digit hm hb1 hb36 hd hlt, if_pos (by omega), h1]
    · rw [underscoreLoop_digit (usDigit_of_digit hc hd hlt)]; exact h2
  | @sep acc c d rest v hd hlt ht ih =>
    intro us
    have hle := ht.le hb1
    obtain ⟨⟨us', h1⟩, h2⟩ := ih hv true
    refine ⟨⟨us', ?_⟩, ?_⟩
    · rw [digitsLoop_cons_us, digitsLoop_cons_digit hm hb1 hb36 hd hlt, if_pos (by omega), h1]
    · rw [underscoreLoop_us, underscoreLoop_digit (usDigit_of_digit hc hd hlt)]; exact h2

/-- a successful step of the loop on a non-underscore character -/
theorem digitsLoop_cons_ok {maxVal b n : Nat} {us us' : Bool} {c : Char} {cs : List Char} {v : Nat}
    (hm : maxVal < two64) (hb : 1 ≤ b) (hb36 : b ≤ 36) (hu : c ≠ '_')
    (h : digitsLoop maxVal b n us (c :: cs) = .ok (v, us')) :
    ∃ d, digitVal c = some d ∧ d < b ∧ n * b + d ≤ maxVal ∧
      digitsLoop maxVal b (n * b + d) us cs = .ok (v, us') := by
  cases hc : digitVal c with
  | none => rw [digitsLoop_cons_bad hu (by intro d hd; rw [hc] at hd; cases hd)] at h; cases h
  | some d =>
    by_cases hd : d < b
    · rw [digitsLoop_cons_digit hm hb hb36 hc hd] at h
      by_cases hx : n * b + d ≤ maxVal
      · rw [if_pos hx] at h; exact ⟨d, rfl, hd, hx, h⟩
      · rw [if_neg hx] at h; cases h
    · rw [digitsLoop_cons_bad hu (by intro d' hd'; rw [hc] at hd'; injection hd' with e; omega)] at h
      cases h

theorem tail_sound {b : Nat} {hex : Bool} (hc : Compat b hex) (hb36 : b ≤ 36) {maxVal : Nat}
    (hm : maxVal < two64) :
    ∀ (k : Nat) (s : List Char), s.length ≤ k → ∀ (acc : Nat) (us us' : Bool) (v : Nat),
      acc ≤ maxVal → digitsLoop maxVal b acc us s = .ok (v, us') →
      (us' = true → underscoreLoop hex .digit s = true) → Tail b acc s v ∧ v ≤ maxVal := by
  have hb1 : 1 ≤ b := by have := hc.1; omega
  intro k
  induction k with
  | zero =>
    intro s hs acc us us' v hacc h _
    have : s = [] := List.length_eq_zero_iff.mp (by omega)
    subst this
    simp only [digitsLoop, Except.ok.injEq, Prod.mk.injEq] at h
    rw [← h.1]; exact ⟨.done acc, hacc⟩
  | succ k ih =>
    intro s hs acc us us' v hacc h hu
    cases s with
    | nil =>
      simp only [digitsLoop, Except.ok.injEq, Prod.mk.injEq] at h
      rw [← h.1]; exact ⟨.done acc, hacc⟩
    | cons c cs =>
      by_cases hcu : c = '_'
      · subst hcu
        rw [digitsLoop_cons_us] at h
        have hus' := digitsLoop_us_true _ _ _ _ h
        have h2 := hu hus'
        rw [underscoreLoop_us] at h2
        obtain ⟨c2, rest, rfl, hd2, h3⟩ := underscoreLoop_after_us h2
        obtain ⟨d, hdv, hdb, hle, h4⟩ := digitsLoop_cons_ok hm hb1 hb36 (usDigit_ne_us hd2) h
        have := ih rest (by simp only [List.length_cons] at hs; omega) _ true us' v hle h4
          (fun _ => h3)
        exact ⟨.sep hdv hdb this.1, this.2⟩
      · obtain ⟨d, hdv, hdb, hle, h4⟩ := digitsLoop_cons_ok hm hb1 hb36 hcu h
        have := ih cs (by simp only [List.length_cons] at hs; omega) _ us us' v hle h4
          (fun e => by
            have := hu e
            rwa [underscoreLoop_digit (usDigit_of_digit hc hdv hdb)] at this)
        exact ⟨.digit hdv hdb this.1, this.2⟩


/-! ### ParseUint -/

theorem parseUintE_ok_iff (bits : Nat) (c0 : Char) (rest : List Char) (n : Nat) :
    parseUintE bits (c0 :: rest) = .ok n ↔
      ∃ us, digitsLoop (2 ^ bits - 1) (basePrefix (c0 :: rest)).1 0 false
              (basePrefix (c0 :: rest)).2 = .ok (n, us) ∧
            (us = true → underscoreOK (c0 :: rest) = true) := by
  unfold parseUintE
  simp only
  cases hl : digitsLoop (2 ^ bits - 1) (basePrefix (c0 :: rest)).1 0 false
      (basePrefix (c0 :: rest)).2 with
  | error e => simp
  | ok p =>
    obtain ⟨n', us⟩ := p
    simp only
    cases us <;> cases hu : underscoreOK (c0 :: rest) <;> simp

/-- the shape shared by all four bases -/
theorem parseUintE_core {bits : Nat} (hbits : bits ≤ 64) {c0 : Char} {rest body : List Char}
    {b : Nat} {hex : Bool} (hc : Compat b hex) (hb36 : b ≤ 36)
    (hbp : basePrefix (c0 :: rest) = (b, body))
    (hus : underscoreOK (c0 :: rest) = underscoreLoop hex .digit body) (n : Nat) :
    parseUintE bits (c0 :: rest) = .ok n ↔ Tail b 0 body n ∧ n < 2 ^ bits := by
  have hm := pow_bits_le hbits
  have hpos : 0 < 2 ^ bits := Nat.pow_pos (by omega)
  rw [parseUintE_ok_iff, hbp, hus]
  constructor
  · rintro ⟨us, h1, h2⟩
    have := tail_sound hc hb36 hm body.length body (Nat.le_refl _) 0 false us n (Nat.zero_le _) h1 h2
    exact ⟨this.1, by omega⟩
  · rintro ⟨h1, h2⟩
    obtain ⟨⟨us, h3⟩, h4⟩ := tail_complete hc hb36 hm h1 (by omega) false
    exact ⟨us, h3, fun _ => h4⟩

theorem digitVal_zero {c : Char} (h : digitVal c = some 0) : c = '0' := by
  rcases digitVal_cases h with ⟨h1, _, h3⟩ | ⟨_, h10, _⟩
  · have : '0' ≤ c := by simp [isDec] at h1; exact h1.1
    have := char_le_toNat.mp this
    change 48 ≤ c.toNat at this
    exact char_of_toNat (n := 48) (by omega) '0' rfl
  · omega

theorem digitVal_c0 : digitVal '0' = some 0 := by decide

theorem isDec_of_digit10 {c : Char} {d : Nat} (h : digitVal c = some d) (hd : d < 10) :
    isDec c = true := by
  rcases digitVal_cases h with ⟨h1, _, _⟩ | ⟨_, h10, _⟩
  · exact h1
  · omega

theorem digit_not_sign {c : Char} {d : Nat} (h : digitVal c = some d) : c ≠ '+' ∧ c ≠ '-' := by
  constructor <;> intro e <;> subst e
  · rw [digitVal_plus] at h; cases h
  · rw [digitVal_minus] at h; cases h

/-- reading the first digit -/
theorem tail_first {b : Nat} {c : Char} {d : Nat} {rest : List Char} {v : Nat}
    (hd : digitVal c = some d) :
    Tail b 0 (c :: rest) v ↔ d < b ∧ Tail b d rest v := by
  constructor
  · intro h
    cases h with
    | digit h1 h2 h3 =>
      rw [hd] at h1; injection h1 with e; subst e
      simp only [Nat.zero_mul, Nat.zero_add] at h3
      exact ⟨h2, h3⟩
    | sep h1 _ _ => rw [digitVal_us] at hd; cases hd
  · rintro ⟨h1, h2⟩
    exact .digit hd h1 (by simpa using h2)

theorem basePrefix_dec {c : Char} {rest : List Char} (h : c ≠ '0') :
    basePrefix (c :: rest) = (10, c :: rest) := by simp [basePrefix, h]

theorem underscoreOK_dec {c : Char} {rest : List Char} (h0 : c ≠ '0') (hd : isDec c = true) :
    underscoreOK (c :: rest) = underscoreLoop false .digit (c :: rest) := by
  have hs : c ≠ '-' ∧ c ≠ '+' := by
    constructor <;> intro e <;> subst e <;> revert hd <;> decide
  have hu : usDigit false c = true := by simp [usDigit, hd]
  unfold underscoreOK
  simp only [hs.1, hs.2, or_self, if_false]
  rw [underscoreLoop_digit hu]
  cases rest with
  | nil => simp only; rw [underscoreLoop_digit hu]
  | cons c1 r => simp only [h0, false_and, if_false]; rw [underscoreLoop_digit hu]


/-- the six base-prefix letters -/
def isPfx (c : Char) : Prop := c = 'b' ∨ c = 'B' ∨ c = 'o' ∨ c = 'O' ∨ c = 'x' ∨ c = 'X'

instance (c : Char) : Decidable (isPfx c) := by unfold isPfx; infer_instance

theorem pfx_not_oct {p : Char} (hp : isPfx p) : p ≠ '_' ∧ ∀ d, digitVal p = some d → 8 ≤ d := by
  rcases hp with rfl | rfl | rfl | rfl | rfl | rfl <;> refine ⟨by decide, ?_⟩ <;> intro d hd <;>
    injection hd with hd <;> omega

theorem tail8_head_not_pfx {p : Char} {r : List Char} {acc n : Nat} (h : Tail 8 acc (p :: r) n) :
    ¬ isPfx p := by
  intro hp
  have := pfx_not_oct hp
  cases h with
  | digit h1 h2 _ => have := this.2 _ h1; omega
  | sep _ _ _ => exact this.1 rfl

theorem basePrefix_zero_pfx {p c : Char} {r : List Char} (hp : isPfx p) :
    basePrefix ('0' :: p :: c :: r) =
      (if p = 'b' ∨ p = 'B' then 2 else if p = 'o' ∨ p = 'O' then 8 else 16, c :: r) := by
  rcases hp with rfl | rfl | rfl | rfl | rfl | rfl <;> simp [basePrefix]

theorem basePrefix_zero_oct {rest : List Char}
    (h : ∀ p c r, rest = p :: c :: r → ¬ isPfx p) : basePrefix ('0' :: rest) = (8, rest) := by
  match rest, h with
  | [], _ => rfl
  | [_], _ => rfl
  | p :: c :: r, h =>
    have := h p c r rfl
    unfold isPfx at this
    simp only [not_or] at this
    simp [basePrefix, this]

theorem underscoreOK_zero_pfx {p : Char} {r : List Char} (hp : isPfx p) :
    underscoreOK ('0' :: p :: r) = underscoreLoop (decide (p = 'x' ∨ p = 'X')) .digit r := by
  rcases hp with rfl | rfl | rfl | rfl | rfl | rfl <;> simp [underscoreOK]

theorem underscoreOK_zero_oct {rest : List Char} (h : ∀ p r, rest = p :: r → ¬ isPfx p) :
    underscoreOK ('0' :: rest) = underscoreLoop false .digit rest := by
  have hu : usDigit false '0' = true := by decide
  match rest, h with
  | [], _ => simp [underscoreOK, underscoreLoop, isDec]
  | p :: r, h =>
    have := h p r rfl
    unfold isPfx at this
    simp only [not_or] at this
    simp only [underscoreOK, Char.reduceEq, or_self, if_false, this, and_false]
    exact underscoreLoop_digit hu

theorem underscoreOK_us {rest : List Char} : underscoreOK ('_' :: rest) = false := by
  cases rest <;> simp [underscoreOK, underscoreLoop, isDec, isHexLetter]

/-- the spellings that start with `0` -/
theorem unumeral_zero {rest : List Char} {n : Nat} :
    UNumeral ('0' :: rest) n ↔
      Tail 8 0 rest n ∨
      ∃ p c r, rest = p :: c :: r ∧
        (((p = 'b' ∨ p = 'B') ∧ Tail 2 0 (c :: r) n) ∨ ((p = 'o' ∨ p = 'O') ∧ Tail 8 0 (c :: r) n) ∨
         ((p = 'x' ∨ p = 'X') ∧ Tail 16 0 (c :: r) n)) := by
  constructor
  · intro h
    cases h with
    | dec h1 h2 _ _ => rw [digitVal_c0] at h1; injection h1 with e; omega
    | oct h => exact .inl h
    | bin hp h => exact .inr ⟨_, _, _, rfl, .inl ⟨hp, h⟩⟩
    | octP hp h => exact .inr ⟨_, _, _, rfl, .inr (.inl ⟨hp, h⟩)⟩
    | hex hp h => exact .inr ⟨_, _, _, rfl, .inr (.inr ⟨hp, h⟩)⟩
  · rintro (h | ⟨p, c, r, rfl, ⟨hp, h⟩ | ⟨hp, h⟩ | ⟨hp, h⟩⟩)
    · exact .oct h
    · exact .bin hp h
    · exact .octP hp h
    · exact .hex hp h

theorem unumeral_nonzero {c : Char} {rest : List Char} {n : Nat} (h0 : c ≠ '0') :
    UNumeral (c :: rest) n ↔ ∃ d, digitVal c = some d ∧ 1 ≤ d ∧ d < 10 ∧ Tail 10 d rest n := by
  constructor
  · intro h
    cases h with
    | dec h1 h2 h3 h4 => exact ⟨_, h1, h2, h3, h4⟩
    | oct _ => exact absurd rfl h0
    | bin _ _ => exact absurd rfl h0
    | octP _ _ => exact absurd rfl h0
    | hex _ _ => exact absurd rfl h0
  · rintro ⟨d, h1, h2, h3, h4⟩
    exact .dec h1 h2 h3 h4

set_option linter.unusedSimpArgs false in
/-- **strconv.ParseUint(s, 0, bits)** accepts exactly the numerals of the grammar whose value
    fits `bits` bits, and returns that value -/
theorem parseUintE_iff {bits : Nat} (hbits : bits ≤ 64) (s : List Char) (n : Nat) :
    parseUintE bits s = .ok n ↔ UNumeral s n ∧ n < 2 ^ bits := by
  cases s with
  | nil => exact ⟨fun h => by simp [parseUintE] at h, fun h => nomatch h.1⟩
  | cons c0 rest =>
    by_cases h0 : c0 = '0'
    · subst h0
      rw [unumeral_zero]
      by_cases hp : ∃ p c r, rest = p :: c :: r ∧ isPfx p
      · obtain ⟨p, c, r, rfl, hp⟩ := hp
        have hnot : ¬ Tail 8 0 (p :: c :: r) n := fun h => tail8_head_not_pfx h hp
        have hbp := basePrefix_zero_pfx (c := c) (r := r) hp
        have hus := underscoreOK_zero_pfx (r := c :: r) hp
        rcases hp with rfl | rfl | rfl | rfl | rfl | rfl
        all_goals
          simp only [Char.reduceEq, or_self, or_true, true_or, or_false, false_or, if_true, if_false,
            decide_true, decide_false] at hbp hus
        · rw [parseUintE_core hbits (b := 2) (hex := false) ⟨by omega, .inl (by omega)⟩ (by omega) hbp hus]
          constructor
          · rintro ⟨h1, h2⟩; exact ⟨.inr ⟨_, _, _, rfl, .inl ⟨.inl rfl, h1⟩⟩, h2⟩
          · rintro ⟨h1 | ⟨p, c', r', he, h1⟩, h2⟩
            · exact absurd h1 hnot
            · injection he with e1 e2; injection e2 with e2 e3; subst e1 e2 e3
              simp only [Char.reduceEq, or_self, false_and, or_false, false_or, true_or, true_and] at h1
              exact ⟨h1, h2⟩
        · rw [parseUintE_core hbits (b := 2) (hex := false) ⟨by omega, .inl (by omega)⟩ (by omega) hbp hus]
          constructor
          · rintro ⟨h1, h2⟩; exact ⟨.inr ⟨_, _, _, rfl, .inl ⟨.inr rfl, h1⟩⟩, h2⟩
          · rintro ⟨h1 | ⟨p, c', r', he, h1⟩, h2⟩
            · exact absurd h1 hnot
            · injection he with e1 e2; injection e2 with e2 e3; subst e1 e2 e3
              simp only [Char.reduceEq, or_self, false_and, or_false, false_or, or_true, true_and] at h1
              exact ⟨h1, h2⟩
        · rw [parseUintE_core hbits (b := 8) (hex := false) ⟨by omega, .inl (by omega)⟩ (by omega) hbp hus]
          constructor
          · rintro ⟨h1, h2⟩; exact ⟨.inr ⟨_, _, _, rfl, .inr (.inl ⟨.inl rfl, h1⟩)⟩, h2⟩
          · rintro ⟨h1 | ⟨p, c', r', he, h1⟩, h2⟩
            · exact absurd h1 hnot
            · injection he with e1 e2; injection e2 with e2 e3; subst e1 e2 e3
              simp only [Char.reduceEq, or_self, false_and, or_false, false_or, true_or, true_and] at h1
              exact ⟨h1, h2⟩
        · rw [parseUintE_core hbits (b := 8) (hex := false) ⟨by omega, .inl (by omega)⟩ (by omega) hbp hus]
          constructor
          · rintro ⟨h1, h2⟩; exact ⟨.inr ⟨_, _, _, rfl, .inr (.inl ⟨.inr rfl, h1⟩)⟩, h2⟩
          · rintro ⟨h1 | ⟨p, c', r', he, h1⟩, h2⟩
            · exact absurd h1 hnot
            · injection he with e1 e2; injection e2 with e2 e3; subst e1 e2 e3
              simp only [Char.reduceEq, or_self, false_and, or_false, false_or, or_true, true_and] at h1
              exact ⟨h1, h2⟩
        · rw [parseUintE_core hbits (b := 16) (hex := true) ⟨by omega, .inr ⟨by omega, rfl⟩⟩ (by omega) hbp hus]
          constructor
          · rintro ⟨h1, h2⟩; exact ⟨.inr ⟨_, _, _, rfl, .inr (.inr ⟨.inl rfl, h1⟩)⟩, h2⟩
          · rintro ⟨h1 | ⟨p, c', r', he, h1⟩, h2⟩
            · exact absurd h1 hnot
            · injection he with e1 e2; injection e2 with e2 e3; subst e1 e2 e3
              simp only [Char.reduceEq, or_self, false_and, or_false, false_or, true_or, true_and] at h1
              exact ⟨h1, h2⟩
        · rw [parseUintE_core hbits (b := 16) (hex := true) ⟨by omega, .inr ⟨by omega, rfl⟩⟩ (by omega) hbp hus]
          constructor
          · rintro ⟨h1, h2⟩; exact ⟨.inr ⟨_, _, _, rfl, .inr (.inr ⟨.inr rfl, h1⟩)⟩, h2⟩
          · rintro ⟨h1 | ⟨p, c', r', he, h1⟩, h2⟩
            · exact absurd h1 hnot
            · injection he with e1 e2; injection e2 with e2 e3; subst e1 e2 e3
              simp only [Char.reduceEq, or_self, false_and, or_false, false_or, or_true, true_and] at h1
              exact ⟨h1, h2⟩
      · -- no base prefix of length ≥ 3: octal
        have hbp : basePrefix ('0' :: rest) = (8, rest) :=
          basePrefix_zero_oct (fun p c r e hp' => hp ⟨p, c, r, e, hp'⟩)
        constructor
        · intro h
          -- the first character after the 0 is not a prefix letter, else the loop fails on it
          have hhead : ∀ p r, rest = p :: r → ¬ isPfx p := by
            intro p r e hp'
            subst e
            rw [parseUintE_ok_iff, hbp] at h
            obtain ⟨us, h1, _⟩ := h
            have := pfx_not_oct hp'
            rw [digitsLoop_cons_bad this.1 this.2] at h1
            cases h1
          rw [parseUintE_core hbits (b := 8) (hex := false) ⟨by omega, .inl (by omega)⟩ (by omega) hbp
            (underscoreOK_zero_oct hhead)] at h
          exact ⟨.inl h.1, h.2⟩
        · rintro ⟨h1 | ⟨p, c, r, e, h1⟩, h2⟩
          · have hhead : ∀ p r, rest = p :: r → ¬ isPfx p := by
              intro p r e; subst e; exact tail8_head_not_pfx h1
            rw [parseUintE_core hbits (b := 8) (hex := false) ⟨by omega, .inl (by omega)⟩ (by omega) hbp
              (underscoreOK_zero_oct hhead)]
            exact ⟨h1, h2⟩
          · exfalso
            apply hp
            refine ⟨p, c, r, e, ?_⟩
            unfold isPfx
            rcases h1 with ⟨h | h, _⟩ | ⟨h | h, _⟩ | ⟨h | h, _⟩ <;> simp [h]
    · rw [unumeral_nonzero h0]
      have hbp := basePrefix_dec (rest := rest) h0
      constructor
      · intro h
        have h' := h
        rw [parseUintE_ok_iff, hbp] at h'
        obtain ⟨us, h1, h2⟩ := h'
        by_cases hu : c0 = '_'
        · subst hu
          rw [digitsLoop_cons_us] at h1
          have := h2 (digitsLoop_us_true _ _ _ _ h1)
          rw [underscoreOK_us] at this; cases this
        · obtain ⟨d, hd, hd10, _, _⟩ :=
            digitsLoop_cons_ok (pow_bits_le hbits) (by omega) (by omega) hu h1
          have hd0 : d ≠ 0 := fun e => h0 (digitVal_zero (e ▸ hd))
          rw [parseUintE_core hbits (b := 10) (hex := false) ⟨by omega, .inl (by omega)⟩ (by omega) hbp
            (underscoreOK_dec h0 (isDec_of_digit10 hd hd10)), tail_first hd] at h
          exact ⟨⟨d, hd, by omega, hd10, h.1.2⟩, h.2⟩
      · rintro ⟨⟨d, hd, h1, h10, ht⟩, h2⟩
        rw [parseUintE_core hbits (b := 10) (hex := false) ⟨by omega, .inl (by omega)⟩ (by omega) hbp
          (underscoreOK_dec h0 (isDec_of_digit10 hd h10)), tail_first hd]
        exact ⟨⟨h10, ht⟩, h2⟩


/-- the value of a numeral is unique -/
theorem Tail.unique {b acc : Nat} {s : List Char} {v w : Nat} (h1 : Tail b acc s v)
    (h2 : Tail b acc s w) : v = w := by
  induction h1 with
  | done => cases h2; rfl
  | digit hd _ _ ih =>
    cases h2 with
    | digit hd' _ h3 => rw [hd] at hd'; injection hd' with e; subst e; exact ih h3
    | sep _ _ _ => rw [digitVal_us] at hd; cases hd
  | sep hd _ _ ih =>
    cases h2 with
    | digit hd' _ _ => rw [digitVal_us] at hd'; cases hd'
    | sep hd' _ h3 => rw [hd] at hd'; injection hd' with e; subst e; exact ih h3

set_option linter.unusedSimpArgs false in
/-- a numeral has at most one value -/
theorem UNumeral.unique {s : List Char} {v w : Nat} (h1 : UNumeral s v) (h2 : UNumeral s w) :
    v = w := by
  cases s with
  | nil => nomatch h1
  | cons c rest =>
    by_cases h0 : c = '0'
    · subst h0
      rw [unumeral_zero] at h1 h2
      rcases h1 with h1 | ⟨p, c, r, rfl, h1⟩
      · rcases h2 with h2 | ⟨p, c, r, rfl, h2⟩
        · exact h1.unique h2
        · exfalso; apply tail8_head_not_pfx h1; unfold isPfx
          rcases h2 with ⟨h | h, _⟩ | ⟨h | h, _⟩ | ⟨h | h, _⟩ <;> simp [h]
      · have hp : isPfx p := by
          unfold isPfx; rcases h1 with ⟨h | h, _⟩ | ⟨h | h, _⟩ | ⟨h | h, _⟩ <;> simp [h]
        rcases h2 with h2 | ⟨p', c', r', e, h2⟩
        · exact absurd hp (tail8_head_not_pfx h2)
        · injection e with e1 e2; injection e2 with e2 e3; subst e1 e2 e3
          rcases h1 with ⟨h | h, t1⟩ | ⟨h | h, t1⟩ | ⟨h | h, t1⟩ <;> subst h <;>
            simp only [Char.reduceEq, or_self, false_and, or_false, false_or, true_or, or_true,
              true_and] at h2 <;> exact t1.unique h2
    · rw [unumeral_nonzero h0] at h1 h2
      obtain ⟨d, hd, _, _, t1⟩ := h1
      obtain ⟨d', hd', _, _, t2⟩ := h2
      rw [hd] at hd'; injection hd' with e; subst e
      exact t1.unique t2

theorem UNumeral.head_digit {c : Char} {rest : List Char} {n : Nat} (h : UNumeral (c :: rest) n) :
    ∃ d, digitVal c = some d := by
  cases h with
  | dec h1 _ _ _ => exact ⟨_, h1⟩
  | oct _ => exact ⟨0, digitVal_c0⟩
  | bin _ _ => exact ⟨0, digitVal_c0⟩
  | octP _ _ => exact ⟨0, digitVal_c0⟩
  | hex _ _ => exact ⟨0, digitVal_c0⟩

theorem UNumeral.head_not_sign {c : Char} {rest : List Char} {n : Nat}
    (h : UNumeral (c :: rest) n) : c ≠ '+' ∧ c ≠ '-' := by
  obtain ⟨d, hd⟩ := h.head_digit
  exact digit_not_sign hd

theorem snumeral_bare {c : Char} {rest : List Char} {z : Int} (h1 : c ≠ '+') (h2 : c ≠ '-') :
    SNumeral (c :: rest) z ↔ ∃ n : Nat, UNumeral (c :: rest) n ∧ z = n := by
  constructor
  · intro h
    cases h with
    | bare h => exact ⟨_, h, rfl⟩
    | plus _ => exact absurd rfl h1
    | minus _ => exact absurd rfl h2
  · rintro ⟨n, h, rfl⟩; exact .bare h

theorem snumeral_plus {rest : List Char} {z : Int} :
    SNumeral ('+' :: rest) z ↔ ∃ n : Nat, UNumeral rest n ∧ z = n := by
  constructor
  · intro h
    cases h with
    | bare h => exact absurd rfl h.head_not_sign.1
    | plus h => exact ⟨_, h, rfl⟩
  · rintro ⟨n, h, rfl⟩; exact .plus h

theorem snumeral_minus {rest : List Char} {z : Int} :
    SNumeral ('-' :: rest) z ↔ ∃ n : Nat, UNumeral rest n ∧ z = -(n : Int) := by
  constructor
  · intro h
    cases h with
    | bare h => exact absurd rfl h.head_not_sign.2
    | minus h => exact ⟨_, h, rfl⟩
  · rintro ⟨n, h, rfl⟩; exact .minus h

theorem parseIntE_plus {bits : Nat} {cs : List Char} :
    parseIntE bits ('+' :: cs) =
      match parseUintE bits cs with
      | .error .syntax => .error .syntax
      | .error .range =>
        if 2 ^ bits - 1 ≥ 2 ^ (bits - 1) then .error .range else .ok ((2 ^ bits - 1 : Nat) : Int)
      | .ok un => if un ≥ 2 ^ (bits - 1) then .error .range else .ok (un : Int) := by
  unfold parseIntE
  simp only [true_or, if_true, Char.reduceEq, decide_false, Bool.not_false, Bool.true_and,
    Bool.false_and]
  split <;> simp_all

/-- **strconv.ParseInt(s, 0, bits)** accepts exactly an optional sign followed by a numeral of
    the grammar, with the signed value in the two's-complement range of `bits` bits -/
theorem parseIntE_iff {bits : Nat} (h2 : 2 ≤ bits) (hbits : bits ≤ 64) (s : List Char) (z : Int) :
    parseIntE bits s = .ok z ↔
      SNumeral s z ∧ -(2 ^ (bits - 1) : Int) ≤ z ∧ z < (2 ^ (bits - 1) : Int) := by
  obtain ⟨k, rfl⟩ : ∃ k, bits = k + 1 := ⟨bits - 1, by omega⟩
  have hP : 2 ≤ 2 ^ k := by
    have := Nat.pow_le_pow_right (n := 2) (by omega) (show 1 ≤ k by omega); omega
  have hpow : 2 ^ (k + 1) = 2 * 2 ^ k := by rw [Nat.pow_succ]; omega
  have hcast : ((2 ^ k : Nat) : Int) = (2 : Int) ^ k := by simp
  simp only [Nat.add_sub_cancel]
  rw [← hcast]
  have hU := fun t n => parseUintE_iff (bits := k + 1) hbits t n
  cases s with
  | nil => exact ⟨fun h => by simp [parseIntE] at h, fun h => nomatch h.1⟩
  | cons c rest =>
    by_cases hp : c = '+'
    · subst hp
      rw [parseIntE_plus, snumeral_plus]
      simp only [Nat.add_sub_cancel]
      cases hx : parseUintE (k + 1) rest with
      | error e =>
        cases e
        · simp only
          refine ⟨fun h => (by cases h), ?_⟩
          rintro ⟨⟨n, hn, rfl⟩, _, hlt⟩
          have := (hU rest n).mpr ⟨hn, by omega⟩
          rw [hx] at this; cases this
        · simp only
          rw [if_pos (by omega)]
          refine ⟨fun h => (by cases h), ?_⟩
          rintro ⟨⟨n, hn, rfl⟩, _, hlt⟩
          have := (hU rest n).mpr ⟨hn, by omega⟩
          rw [hx] at this; cases this
      | ok un =>
        have hun := (hU rest un).mp hx
        simp only
        constructor
        · intro h
          split at h
          · cases h
          · injection h with h; subst h
            exact ⟨⟨un, hun.1, rfl⟩, by omega, by omega⟩
        · rintro ⟨⟨n, hn, rfl⟩, _, hlt⟩
          have := hun.1.unique hn; subst this
          rw [if_neg (by omega)]
    · by_cases hm : c = '-'
      · subst hm
        rw [parseIntE_minus, snumeral_minus]
        simp only [Nat.add_sub_cancel]
        cases hx : parseUintE (k + 1) rest with
        | error e =>
          cases e
          · simp only
            refine ⟨fun h => (by cases h), ?_⟩
            rintro ⟨⟨n, hn, rfl⟩, hge, _⟩
            have := (hU rest n).mpr ⟨hn, by omega⟩
            rw [hx] at this; cases this
          · simp only
            rw [if_pos (by omega)]
            refine ⟨fun h => (by cases h), ?_⟩
            rintro ⟨⟨n, hn, rfl⟩, hge, _⟩
            have := (hU rest n).mpr ⟨hn, by omega⟩
            rw [hx] at this; cases this
        | ok un =>
          have hun := (hU rest un).mp hx
          simp only
          constructor
          · intro h
            split at h
            · cases h
            · injection h with h; subst h
              exact ⟨⟨un, hun.1, rfl⟩, by omega, by omega⟩
          · rintro ⟨⟨n, hn, rfl⟩, hge, _⟩
            have := hun.1.unique hn; subst this
            rw [if_neg (by omega)]
      · rw [parseIntE_nosign hp hm, snumeral_bare hp hm]
        simp only [Nat.add_sub_cancel]
        cases hx : parseUintE (k + 1) (c :: rest) with
        | error e =>
          cases e
          · simp only
            refine ⟨fun h => (by cases h), ?_⟩
            rintro ⟨⟨n, hn, rfl⟩, _, hlt⟩
            have := (hU _ n).mpr ⟨hn, by omega⟩
            rw [hx] at this; cases this
          · simp only
            rw [if_pos (by omega)]
            refine ⟨fun h => (by cases h), ?_⟩
            rintro ⟨⟨n, hn, rfl⟩, _, hlt⟩
            have := (hU _ n).mpr ⟨hn, by omega⟩
            rw [hx] at this; cases this
        | ok un =>
          have hun := (hU _ un).mp hx
          simp only
          constructor
          · intro h
            split at h
            · cases h
            · injection h with h; subst h
              exact ⟨⟨un, hun.1, rfl⟩, by omega, by omega⟩
          · rintro ⟨⟨n, hn, rfl⟩, _, hlt⟩
            have := hun.1.unique hn; subst this
            rw [if_neg (by omega)]


/-! ### numerals that do not fit -/

theorem tail_overflow {b : Nat} (hb1 : 1 ≤ b) (hb36 : b ≤ 36) {maxVal : Nat} (hm : maxVal < two64)
    {acc : Nat} {s : List Char} {v : Nat} (h : Tail b acc s v) (hv : maxVal < v) :
    acc ≤ maxVal → ∀ us, digitsLoop maxVal b acc us s = .error .range := by
  induction h with
  | done acc => intro h; omega
  | @digit acc c d rest v hd hlt _ ih =>
    intro _ us
    rw [digitsLoop_cons_digit hm hb1 hb36 hd hlt]
    by_cases hx : acc * b + d ≤ maxVal
    · rw [if_pos hx]; exact ih hv hx us
    · rw [if_neg hx]
  | @sep acc c d rest v hd hlt _ ih =>
    intro _ us
    rw [digitsLoop_cons_us, digitsLoop_cons_digit hm hb1 hb36 hd hlt]
    by_cases hx : acc * b + d ≤ maxVal
    · rw [if_pos hx]; exact ih hv hx true
    · rw [if_neg hx]

theorem parseUintE_range_core {bits : Nat} (hbits : bits ≤ 64) {c0 : Char} {rest body : List Char}
    {b n : Nat} (hb1 : 1 ≤ b) (hb36 : b ≤ 36) (hbp : basePrefix (c0 :: rest) = (b, body))
    (ht : Tail b 0 body n) (hn : 2 ^ bits ≤ n) : parseUintE bits (c0 :: rest) = .error .range := by
  have hpos : 0 < 2 ^ bits := Nat.pow_pos (by omega)
  unfold parseUintE
  simp only [hbp]
  rw [tail_overflow hb1 hb36 (pow_bits_le hbits) ht (by omega) (Nat.zero_le _) false]

/-- a numeral of the grammar whose value needs more than `bits` bits is refused with
    "value out of range" -/
theorem parseUintE_range_of {bits : Nat} (hbits : bits ≤ 64) {s : List Char} {n : Nat}
    (h : UNumeral s n) (hn : 2 ^ bits ≤ n) : parseUintE bits s = .error .range := by
  cases h with
  | @dec c d rest v hd h1 h10 ht =>
    have h0 : c ≠ '0' := by
      intro e; subst e; rw [digitVal_c0] at hd; injection hd with hd; omega
    exact parseUintE_range_core hbits (by omega) (by omega) (basePrefix_dec h0)
      ((tail_first hd).mpr ⟨h10, ht⟩) hn
  | @oct rest v ht =>
    refine parseUintE_range_core hbits (by omega) (by omega) (basePrefix_zero_oct ?_) ht hn
    intro p c r e; subst e; exact tail8_head_not_pfx ht
  | @bin p c rest v hp ht =>
    have hbp := basePrefix_zero_pfx (p := p) (c := c) (r := rest) (by unfold isPfx; rcases hp with h | h <;> simp [h])
    rw [if_pos hp] at hbp
    exact parseUintE_range_core hbits (by omega) (by omega) hbp ht hn
  | @octP p c rest v hp ht =>
    have hbp := basePrefix_zero_pfx (p := p) (c := c) (r := rest) (by unfold isPfx; rcases hp with h | h <;> simp [h])
    rw [if_neg (by rcases hp with h | h <;> subst h <;> decide), if_pos hp] at hbp
    exact parseUintE_range_core hbits (by omega) (by omega) hbp ht hn
  | @hex p c rest v hp ht =>
    have hbp := basePrefix_zero_pfx (p := p) (c := c) (r := rest) (by unfold isPfx; rcases hp with h | h <;> simp [h])
    rw [if_neg (by rcases hp with h | h <;> subst h <;> decide),
      if_neg (by rcases hp with h | h <;> subst h <;> decide)] at hbp
    exact parseUintE_range_core hbits (by omega) (by omega) hbp ht hn

/-! ### the parse helpers of the CLI -/

theorem ofNat_toNat_iff {k : Nat} (a : BitVec k) (n : Nat) (hn : n < 2 ^ k) :
    BitVec.ofNat k n = a ↔ n = a.toNat := by
  constructor
  · intro h; subst h; simp [Nat.mod_eq_of_lt hn]
  · intro h; subst h; simp

theorem parseUintBV_iff {bits : Nat} (hbits : bits ≤ 64) (s : List Char) (a : BitVec bits) :
    (parseUintE bits s).map (BitVec.ofNat bits) = .ok a ↔ UNumeral s a.toNat := by
  constructor
  · intro h
    cases hx : parseUintE bits s with
    | error e => rw [hx] at h; cases h
    | ok n =>
      rw [hx] at h
      have hn := (parseUintE_iff hbits s n).mp hx
      have : BitVec.ofNat bits n = a := by simpa [Except.map] using h
      rw [(ofNat_toNat_iff a n hn.2).mp this] at hn
      exact hn.1
  · intro h
    rw [(parseUintE_iff hbits s a.toNat).mpr ⟨h, a.isLt⟩]
    simp [Except.map]

theorem parseUint16E_iff (s : List Char) (a : U16) : parseUint16E s = .ok a ↔ UNumeral s a.toNat :=
  parseUintBV_iff (by omega) s a
theorem parseUint32E_iff (s : List Char) (a : U32) : parseUint32E s = .ok a ↔ UNumeral s a.toNat :=
  parseUintBV_iff (by omega) s a
theorem parseUint64E_iff (s : List Char) (a : U64) : parseUint64E s = .ok a ↔ UNumeral s a.toNat :=
  parseUintBV_iff (by omega) s a
theorem parseUnitIdE_iff (s : List Char) (a : Byte) : parseUnitIdE s = .ok a ↔ UNumeral s a.toNat :=
  parseUintBV_iff (by omega) s a

theorem parseIntBV_iff {bits : Nat} (h2 : 2 ≤ bits) (hbits : bits ≤ 64) (s : List Char)
    (a : BitVec bits) :
    (parseIntE bits s).map (BitVec.ofInt bits) = .ok a ↔ SNumeral s a.toInt := by
  have hr : -(2 ^ (bits - 1) : Int) ≤ a.toInt ∧ a.toInt < (2 ^ (bits - 1) : Int) := by
    have h1 := @BitVec.le_toInt bits a
    have h3 := @BitVec.toInt_lt bits a
    have : ((2 ^ (bits - 1) : Nat) : Int) = (2 : Int) ^ (bits - 1) := by simp
    rw [← this]
    constructor <;> omega
  constructor
  · intro h
    cases hx : parseIntE bits s with
    | error e => rw [hx] at h; cases h
    | ok z =>
      rw [hx] at h
      have hz := (parseIntE_iff h2 hbits s z).mp hx
      have : BitVec.ofInt bits z = a := by simpa [Except.map] using h
      have h4 := toInt_ofInt_range (by omega) hz.2
      rw [this] at h4
      rw [h4]; exact hz.1
  · intro h
    rw [(parseIntE_iff h2 hbits s a.toInt).mpr ⟨h, hr⟩]
    simp [Except.map]


open Modbus.Client (Op Cfg TState Val Kind)
open Modbus.System (Mem memHandler)
open Modbus.SystemLemmas (IsTcp)

/-! ## B. end to end -/

/-- registers occupied by the value of a `wr` command -/
def valueRegs : CliValue → Nat
  | .uint16 _ | .int16 _ => 1
  | .uint32 _ | .int32 _ | .float32 _ => 2
  | .uint64 _ | .int64 _ | .float64 _ => 4
  | .bytes bs => (bs.length + 1) / 2

/-- the documented register bytes of a `wr` value -/
def valueLayout (e : Endian) (w : WordOrder) : CliValue → Bytes
  | .uint16 x => layout16 e x
  | .int16 z => layout16 e (BitVec.ofInt 16 z)
  | .uint32 x => layout32 e w x
  | .int32 z => layout32 e w (BitVec.ofInt 32 z)
  | .float32 b => layout32 e w b
  | .uint64 x => layout64 e w x
  | .int64 z => layout64 e w (BitVec.ofInt 64 z)
  | .float64 b => layout64 e w b
  | .bytes bs => (bytePairs bs).flatMap (fun p => if e = .little then [p.2, p.1] else [p.1, p.2])

theorem writeLayout_writeTyped (cfg : Cfg) (a : U16) (v : CliValue) :
    writeLayout cfg (writeTyped a v) = valueLayout cfg.endian cfg.word v := by cases v <;> rfl

theorem items_writeTyped (a : U16) (v : CliValue) : items (writeTyped a v) = valueRegs v := by
  cases v <;> rfl

theorem addr_writeTyped (a : U16) (v : CliValue) : addr (writeTyped a v) = a := by cases v <;> rfl

theorem fn_writeTyped (a : U16) (v : CliValue) :
    fn (writeTyped a v) = .writeSingleRegister ∨ fn (writeTyped a v) = .writeMultipleRegisters := by
  cases v <;> simp [writeTyped, fn]

theorem breaks_writeTyped (a : U16) (v : CliValue) :
    breaksLimits (writeTyped a v) = true ↔
      valueRegs v = 0 ∨ valueRegs v > 123 ∨ a.toNat + valueRegs v > 65536 := by
  have ha : a.toNat < 65536 := a.isLt
  cases v <;>
    simp [writeTyped, breaksLimits, items, limit, fn, Fn.limit, Spec.addr, regTypeOk, regType?,
      valueRegs, regsForBytes] <;> omega

/-! ### tables -/

theorem window_succ {α : Type} (t : Nat → α) (a n : Nat) :
    window t a (n + 1) = t a :: window t (a + 1) n := by
  rw [← SystemLemmas.readAt_eq_window, ← SystemLemmas.readAt_eq_window]; rfl

theorem window_getElem? {α : Type} (t : Nat → α) (a n i : Nat) :
    (window t a n)[i]? = if i < n then some (t (a + i)) else none := by
  unfold window
  by_cases h : i < n
  · simp [h]
  · simp [h]


theorem window_length' {α : Type} (t : Nat → α) (a n : Nat) : (window t a n).length = n := by
  simp [window]

theorem store_in {α : Type} [Inhabited α] (t : Nat → α) (a : Nat) (vs : List α) (i : Nat)
    (h : i < vs.length) : store t a vs (a + i) = vs[i] := by
  simp only [store]
  rw [if_pos (by omega), Nat.add_sub_cancel_left, List.getD_eq_getElem?_getD,
    List.getElem?_eq_getElem h]; rfl

theorem store_out {α : Type} [Inhabited α] (t : Nat → α) (a : Nat) (vs : List α) (x : Nat)
    (h : x < a ∨ a + vs.length ≤ x) : store t a vs x = t x := by
  simp only [store]; rw [if_neg (by omega)]

/-- reading back exactly the stored entries -/
theorem window_store {α : Type} [Inhabited α] (t : Nat → α) (a : Nat) (vs : List α) :
    window (store t a vs) a vs.length = vs := by
  apply List.ext_getElem?
  intro i
  rw [window_getElem?]
  by_cases h : i < vs.length
  · rw [if_pos h, store_in t a vs i h, List.getElem?_eq_getElem h]
  · rw [if_neg h, List.getElem?_eq_none (by omega)]

/-! ### register writes on the abstract register file -/

theorem writeLayout_length (cfg : Cfg) (op : Op)
    (hfn : fn op = .writeSingleRegister ∨ fn op = .writeMultipleRegisters)
    (h1 : fn op = .writeSingleRegister → items op = 1) :
    (writeLayout cfg op).length = 2 * items op := by
  rcases SystemLemmas.writeLayout_eq_data cfg op with h | h
  · rw [h, ClientReq.data_length]
    unfold ClientReq.dataLen
    rcases hfn with hf | hf
    · rw [hf]; simp [h1 hf]
    · rw [hf]
  · rcases hfn with hf | hf
    · exact absurd hf h.1
    · exact absurd hf h.2

theorem regImage_length (cfg : Cfg) (op : Op)
    (hfn : fn op = .writeSingleRegister ∨ fn op = .writeMultipleRegisters)
    (h1 : fn op = .writeSingleRegister → items op = 1) :
    (regImage cfg op).length = items op := by
  have h := congrArg List.length (SystemLemmas.wireImage_regImage cfg op)
  rw [writeLayout_length cfg op hfn h1, wireImage, Server.flatMap_regBytes_length] at h
  omega

theorem regfileStep_regWrite (cfg : Cfg) (mem : Mem) (op : Op)
    (hfn : fn op = .writeSingleRegister ∨ fn op = .writeMultipleRegisters)
    (hb : breaksLimits op = false) :
    regfileStep cfg mem op =
      (.ok .unit, { mem with holding := store mem.holding (addr op).toNat (regImage cfg op) }) := by
  unfold regfileStep
  rcases hfn with hf | hf <;> simp [hb, hf]

theorem regfileStep_coilWrite (cfg : Cfg) (mem : Mem) (a : U16) (b : Bool) :
    regfileStep cfg mem (.writeCoil a b) =
      (.ok .unit, { mem with coils := store mem.coils a.toNat [b] }) := by
  have hb : breaksLimits (.writeCoil a b) = false := by
    have := a.isLt
    simp [breaksLimits, items, limit, fn, Fn.limit, Spec.addr, regTypeOk, regType?]; omega
  simp [regfileStep, hb, fn, Spec.addr, coilArgs]


/-! ### decoding a window of registers -/

/-- one register as the client sees it under byte order `e` (the server sends high byte first) -/
def dec16 (e : Endian) (r : U16) : U16 := (wireRegs e (wireImage [r])).headD 0
/-- two consecutive registers as a 32-bit value -/
def dec32 (e : Endian) (w : WordOrder) (r0 r1 : U16) : U32 :=
  (join32 w (wireRegs e (wireImage [r0, r1]))).headD 0
/-- four consecutive registers as a 64-bit value -/
def dec64 (e : Endian) (w : WordOrder) (r0 r1 r2 r3 : U16) : U64 :=
  (join64 w (wireRegs e (wireImage [r0, r1, r2, r3]))).headD 0

theorem wireImage_cons (r : U16) (rs : List U16) :
    wireImage (r :: rs) = hi r :: lo r :: wireImage rs := by
  simp [wireImage, regBytes]

theorem wireRegs_cons2 (e : Endian) (a b : Byte) (rest : Bytes) :
    wireRegs e (a :: b :: rest) = wireRegs e [a, b] ++ wireRegs e rest := by
  simp [wireRegs]

theorem dec16_layout (e : Endian) (he : e ≠ .invalid) (r : U16) :
    layout16 e (dec16 e r) = wireImage [r] := by
  have h := ClientResp.wireRegs_layout16 e he (wireImage [r]) (by simp [wireImage, regBytes])
  have h2 : wireRegs e (wireImage [r]) = [dec16 e r] := by
    simp [dec16, wireImage, regBytes, wireRegs]
  rw [h2] at h; simpa using h

theorem dec32_layout (e : Endian) (w : WordOrder) (he : e ≠ .invalid) (hw : w ≠ .invalid)
    (r0 r1 : U16) : layout32 e w (dec32 e w r0 r1) = wireImage [r0, r1] := by
  have h := ClientResp.join32_layout32 e w he hw (wireImage [r0, r1]) (by simp [wireImage, regBytes])
  have h2 : join32 w (wireRegs e (wireImage [r0, r1])) = [dec32 e w r0 r1] := by
    simp [dec32, wireImage, regBytes, wireRegs, join32]
  rw [h2] at h; simpa using h

theorem dec64_layout (e : Endian) (w : WordOrder) (he : e ≠ .invalid) (hw : w ≠ .invalid)
    (r0 r1 r2 r3 : U16) : layout64 e w (dec64 e w r0 r1 r2 r3) = wireImage [r0, r1, r2, r3] := by
  have h := ClientResp.join64_layout64 e w he hw (wireImage [r0, r1, r2, r3])
    (by simp [wireImage, regBytes])
  have h2 : join64 w (wireRegs e (wireImage [r0, r1, r2, r3])) = [dec64 e w r0 r1 r2 r3] := by
    simp [dec64, wireImage, regBytes, wireRegs, join64]
  rw [h2] at h; simpa using h

theorem range_succ_map {β : Type} (n : Nat) (F : Nat → β) :
    (List.range (n + 1)).map F = F 0 :: (List.range n).map (fun i => F (i + 1)) := by
  rw [List.range_succ_eq_map]; simp [Function.comp_def]

theorem regs16_window (e : Endian) (t : Nat → U16) : ∀ (n a : Nat),
    wireRegs e (wireImage (window t a n)) = (List.range n).map (fun i => dec16 e (t (a + i))) := by
  intro n
  induction n with
  | zero => intro a; simp [window, wireImage, wireRegs]
  | succ n ih =>
    intro a
    rw [window_succ, wireImage_cons, wireRegs_cons2, ih, range_succ_map]
    simp [dec16, wireImage, regBytes, wireRegs, Nat.add_assoc, Nat.add_comm 1]

theorem regs32_window (e : Endian) (w : WordOrder) (t : Nat → U16) : ∀ (n a : Nat),
    join32 w (wireRegs e (wireImage (window t a (2 * n)))) =
      (List.range n).map (fun i => dec32 e w (t (a + 2 * i)) (t (a + 2 * i + 1))) := by
  intro n
  induction n with
  | zero => intro a; simp [window, wireImage, wireRegs, join32]
  | succ n ih =>
    intro a
    have h2 : 2 * (n + 1) = (2 * n + 1) + 1 := by omega
    rw [h2, window_succ, window_succ, wireImage_cons, wireImage_cons, range_succ_map]
    have := ih (a + 1 + 1)
    simp only [wireRegs, join32, this]
    simp [dec32, wireImage, regBytes, wireRegs, join32]
    intro i _
    have e1 : a + 1 + 1 + 2 * i = a + 2 * (i + 1) := by omega
    rw [e1]

theorem regs64_window (e : Endian) (w : WordOrder) (t : Nat → U16) : ∀ (n a : Nat),
    join64 w (wireRegs e (wireImage (window t a (4 * n)))) =
      (List.range n).map (fun i =>
        dec64 e w (t (a + 4 * i)) (t (a + 4 * i + 1)) (t (a + 4 * i + 2)) (t (a + 4 * i + 3))) := by
  intro n
  induction n with
  | zero => intro a; simp [window, wireImage, wireRegs, join64]
  | succ n ih =>
    intro a
    have h2 : 4 * (n + 1) = (4 * n + 1 + 1 + 1) + 1 := by omega
    rw [h2, window_succ, window_succ, window_succ, window_succ, wireImage_cons, wireImage_cons,
      wireImage_cons, wireImage_cons, range_succ_map]
    have := ih (a + 1 + 1 + 1 + 1)
    simp only [wireRegs, join64, this]
    simp [dec64, wireImage, regBytes, wireRegs, join64]
    intro i _
    have e1 : a + 1 + 1 + 1 + 1 + 4 * i = a + 4 * (i + 1) := by omega
    rw [e1]


/-! ### byte strings -/

/-- byte number `j` of the byte string held by the registers from address `a`: two bytes per
    register, the first one in the high half — in the low half under LITTLE_ENDIAN -/
def byteAt (e : Endian) (t : Nat → U16) (a j : Nat) : Byte :=
  let r := t (a + j / 2)
  if e = .little then (if j % 2 = 0 then lo r else hi r) else (if j % 2 = 0 then hi r else lo r)

theorem pairs_getElem? (f g : U16 → Byte) : ∀ (regs : List U16) (j : Nat),
    (regs.flatMap (fun r => [f r, g r]))[j]? =
      (regs[j / 2]?).map (fun r => if j % 2 = 0 then f r else g r) := by
  intro regs
  induction regs with
  | nil => intro j; simp
  | cons r rs ih =>
    intro j
    match j with
    | 0 => simp
    | 1 => simp
    | j + 2 =>
      have h1 : (j + 2) / 2 = j / 2 + 1 := by omega
      have h2 : (j + 2) % 2 = j % 2 := by omega
      simp only [List.flatMap_cons, List.cons_append, List.nil_append, List.getElem?_cons_succ, h1, h2]
      exact ih j

theorem wireImage_pairs (regs : List U16) : wireImage regs = regs.flatMap (fun r => [hi r, lo r]) := by
  unfold wireImage; congr 1

theorem swapEach_wireImage : ∀ regs : List U16,
    swapEach (wireImage regs) = regs.flatMap (fun r => [lo r, hi r])
  | [] => rfl
  | r :: rs => by
    rw [wireImage_cons, swapEach, swapEach_wireImage rs]; simp

/-- the bytes `ReadBytes` returns for the stored registers -/
theorem bytes_window (e : Endian) (t : Nat → U16) (a m j : Nat) (hj : j / 2 < m) :
    (if e = .little then swapEach (wireImage (window t a m)) else wireImage (window t a m))[j]? =
      some (byteAt e t a j) := by
  unfold byteAt
  by_cases he : e = .little
  · simp only [he, if_true]
    rw [swapEach_wireImage, pairs_getElem?, window_getElem?, if_pos hj]; rfl
  · simp only [he, if_false]
    rw [wireImage_pairs, pairs_getElem?, window_getElem?, if_pos hj]; rfl

theorem bytes_window_length (e : Endian) (t : Nat → U16) (a m : Nat) :
    (if e = .little then swapEach (wireImage (window t a m)) else wireImage (window t a m)).length
      = 2 * m := by
  have : (wireImage (window t a m)).length = 2 * m := by
    rw [wireImage, Server.flatMap_regBytes_length, window_length']
  split
  · rw [ClientResp.swapEach_length, this]
  · exact this

/-! ### the device's contents in the requested type -/

/-- `v` is what the `n` values of type `ty` at address `a` of the register table `t` are: value
    number `i` occupies 1 / 2 / 4 consecutive registers and its DOCUMENTED LAYOUT
    (`Spec.layout16/32/64`, byte order `e`, word order `w`) is the content of exactly these
    registers (`Spec.wireImage`: two bytes per register, high byte first).  Since the layouts are
    injective (`layout_injective`), this determines `v`.  For `bytes`: `n` bytes, two per
    register (`byteAt`). -/
def Holds (ty : CliType) (e : Endian) (w : WordOrder) (t : Nat → U16) (a n : Nat) (v : Val) : Prop :=
  match ty, v with
  | .uint16, .u16s vs | .int16, .u16s vs =>
    vs.length = n ∧ ∀ i x, vs[i]? = some x → layout16 e x = wireImage [t (a + i)]
  | .uint32, .u32s vs | .int32, .u32s vs | .float32, .u32s vs =>
    vs.length = n ∧ ∀ i x, vs[i]? = some x →
      layout32 e w x = wireImage [t (a + 2 * i), t (a + 2 * i + 1)]
  | .uint64, .u64s vs | .int64, .u64s vs | .float64, .u64s vs =>
    vs.length = n ∧ ∀ i x, vs[i]? = some x →
      layout64 e w x = wireImage [t (a + 4 * i), t (a + 4 * i + 1), t (a + 4 * i + 2), t (a + 4 * i + 3)]
  | .bytes, .bytes bs => bs.length = n ∧ ∀ j b, bs[j]? = some b → b = byteAt e t a j
  | _, _ => False

theorem map_range_getElem? {β : Type} (n : Nat) (F : Nat → β) (i : Nat) (x : β)
    (h : ((List.range n).map F)[i]? = some x) : i < n ∧ x = F i := by
  rw [List.getElem?_map] at h
  by_cases hi : i < n
  · rw [List.getElem?_range hi] at h
    simp at h; exact ⟨hi, h.symm⟩
  · rw [List.getElem?_eq_none (by simp; omega)] at h; simp at h

theorem regTable_readTyped (mem : Mem) (ty : CliType) (a : U16) (n rt : Nat) :
    regTable mem (readTyped ty a n rt) = if rt = 1 then mem.input else mem.holding := by
  cases ty <;> simp [regTable, readTyped, regType?]

theorem fn_readTyped (ty : CliType) (a : U16) (n rt : Nat) : fn (readTyped ty a n rt) = .readRegisters := by
  cases ty <;> rfl

theorem addr_readTyped (ty : CliType) (a : U16) (n rt : Nat) : addr (readTyped ty a n rt) = a := by
  cases ty <;> rfl

/-- the value of the abstract register file for a typed read is the contents in that type -/
theorem regValue_holds (cfg : Cfg) (he : cfg.endian ≠ .invalid) (hw : cfg.word ≠ .invalid)
    (ty : CliType) (a : U16) (e : Option U16) (rt : Nat) (t : Nat → U16) (hc : count e ≤ 65535) :
    Holds ty cfg.endian cfg.word t a.toNat (count e)
      (regValue cfg (readTyped ty a (count e) rt) (window t a.toNat (ty.regsFor (count e)))) := by
  have hq := count_nowrap e hc
  cases ty
  case uint16 | int16 =>
    simp only [readTyped, regValue, CliType.regsFor, Holds]
    rw [regs16_window]
    refine ⟨by simp, fun i x h => ?_⟩
    obtain ⟨_, rfl⟩ := map_range_getElem? _ _ _ _ h
    exact dec16_layout _ he _
  case uint32 | int32 | float32 =>
    simp only [readTyped, regValue, CliType.regsFor, Holds]
    rw [regs32_window]
    refine ⟨by simp, fun i x h => ?_⟩
    obtain ⟨_, rfl⟩ := map_range_getElem? _ _ _ _ h
    exact dec32_layout _ _ he hw _ _
  case uint64 | int64 | float64 =>
    simp only [readTyped, regValue, CliType.regsFor, Holds]
    rw [regs64_window]
    refine ⟨by simp, fun i x h => ?_⟩
    obtain ⟨_, rfl⟩ := map_range_getElem? _ _ _ _ h
    exact dec64_layout _ _ he hw _ _ _ _
  case bytes =>
    simp only [readTyped, regValue, CliType.regsFor, Holds, hq]
    refine ⟨?_, fun j b h => ?_⟩
    · rw [List.length_take, bytes_window_length]; omega
    · rw [List.getElem?_take] at h
      split at h
      · rename_i hj
        rw [bytes_window _ _ _ _ _ (by omega)] at h
        injection h with h; exact h.symm
      · cases h


/-! ### one client call of the CLI through the closed loop -/

theorem breaks_false_readTyped (ty : CliType) (a : U16) (e : Option U16) (rt : Nat)
    (hrt : rt = 0 ∨ rt = 1)
    (hlim : ty.regsFor (count e) ≤ 125 ∧ a.toNat + ty.regsFor (count e) ≤ 65536) :
    breaksLimits (readTyped ty a (count e) rt) = false := by
  cases hb : breaksLimits (readTyped ty a (count e) rt) with
  | false => rfl
  | true => have := (breaks_readTyped ty a e rt hrt).mp hb; omega

theorem count_le_of_regs (ty : CliType) (e : Option U16) (h : ty.regsFor (count e) ≤ 125) :
    count e ≤ 65535 := by
  cases ty <;> simp only [CliType.regsFor] at h <;> omega

/-- a typed read that respects the protocol limits returns the device's contents -/
theorem step_read_typed (cfg : Cfg) (st : TState) (mem : Mem)
    (hk : IsTcp cfg.kind) (he : cfg.endian ≠ .invalid) (hw : cfg.word ≠ .invalid)
    (hp : st.pending = []) (ty : CliType) (a : U16) (e : Option U16) (rt : Nat)
    (hrt : rt = 0 ∨ rt = 1)
    (hlim : ty.regsFor (count e) ≤ 125 ∧ a.toNat + ty.regsFor (count e) ≤ 65536) :
    ∃ v, (System.step memHandler cfg st mem (readTyped ty a (count e) rt)).1.result = some (.ok v) ∧
      Holds ty cfg.endian cfg.word (if rt = 1 then mem.input else mem.holding) a.toNat (count e) v ∧
      (System.step memHandler cfg st mem (readTyped ty a (count e) rt)).2 = mem ∧
      (System.step memHandler cfg st mem (readTyped ty a (count e) rt)).1.state
        = ⟨st.lastTxn + 1, []⟩ := by
  have hb := breaks_false_readTyped ty a e rt hrt hlim
  have hc := count_le_of_regs ty e hlim.1
  obtain ⟨h1, h2, h3⟩ := SystemLemmas.step_mem st mem (readTyped ty a (count e) rt) he hw hk hp
  have hstep : regfileStep cfg mem (readTyped ty a (count e) rt) =
      (.ok (regValue cfg (readTyped ty a (count e) rt)
        (window (if rt = 1 then mem.input else mem.holding) a.toNat (ty.regsFor (count e)))), mem) := by
    simp only [regfileStep, hb, fn_readTyped, addr_readTyped, regTable_readTyped,
      items_readTyped ty a e rt hc]
    rfl
  rw [hstep] at h1 h3
  refine ⟨_, h1, regValue_holds cfg he hw ty a e rt _ hc, h3, ?_⟩
  rw [h2, hb]; rfl

theorem breaks_false_readBools (coil : Bool) (a : U16) (e : Option U16)
    (hlim : count e ≤ 2000 ∧ a.toNat + count e ≤ 65536) :
    breaksLimits (if coil then Op.readCoils a (u16OfNat (count e))
                  else Op.readDiscreteInputs a (u16OfNat (count e))) = false := by
  cases hb : breaksLimits (if coil then Op.readCoils a (u16OfNat (count e))
                  else Op.readDiscreteInputs a (u16OfNat (count e))) with
  | false => rfl
  | true => have := (breaks_readBools coil a e).mp hb; omega

/-- a coil / discrete-input read that respects the limits returns the addressed bits -/
theorem step_read_bools (cfg : Cfg) (st : TState) (mem : Mem)
    (hk : IsTcp cfg.kind) (he : cfg.endian ≠ .invalid) (hw : cfg.word ≠ .invalid)
    (hp : st.pending = []) (coil : Bool) (a : U16) (e : Option U16)
    (hlim : count e ≤ 2000 ∧ a.toNat + count e ≤ 65536) :
    let op := if coil then Op.readCoils a (u16OfNat (count e))
              else Op.readDiscreteInputs a (u16OfNat (count e))
    (System.step memHandler cfg st mem op).1.result =
      some (.ok (.bools ((List.range (count e)).map
        (fun i => (if coil then mem.coils else mem.discrete) (a.toNat + i))))) ∧
    (System.step memHandler cfg st mem op).2 = mem ∧
    (System.step memHandler cfg st mem op).1.state = ⟨st.lastTxn + 1, []⟩ := by
  intro op
  have hb := breaks_false_readBools coil a e hlim
  have hq := count_nowrap e (by omega)
  obtain ⟨h1, h2, h3⟩ := SystemLemmas.step_mem st mem op he hw hk hp
  have hstep : regfileStep cfg mem op =
      (.ok (.bools (window (if coil then mem.coils else mem.discrete) a.toNat (count e))), mem) := by
    show regfileStep cfg mem (if coil then _ else _) = _
    cases coil <;> simp only [Bool.false_eq_true, if_false, if_true] at hb ⊢ <;>
      simp [regfileStep, hb, fn, Spec.addr, items, hq]
  rw [hstep] at h1 h3
  refine ⟨h1, h3, ?_⟩
  rw [h2]; show (if breaksLimits (if coil then _ else _) = true then _ else _) = _
  rw [hb]; rfl

/-- a `wr` value that fits: stored in the documented layout, nothing else touched -/
theorem step_write_typed (cfg : Cfg) (st : TState) (mem : Mem)
    (hk : IsTcp cfg.kind) (he : cfg.endian ≠ .invalid) (hw : cfg.word ≠ .invalid)
    (hp : st.pending = []) (a : U16) (v : CliValue)
    (hfit : 1 ≤ valueRegs v ∧ valueRegs v ≤ 123 ∧ a.toNat + valueRegs v ≤ 65536) :
    let r := System.step memHandler cfg st mem (writeTyped a v)
    r.1.result = some (.ok .unit) ∧
    wireImage (window r.2.holding a.toNat (valueRegs v)) = valueLayout cfg.endian cfg.word v ∧
    (∀ x, x < a.toNat ∨ a.toNat + valueRegs v ≤ x → r.2.holding x = mem.holding x) ∧
    r.2.coils = mem.coils ∧ r.2.discrete = mem.discrete ∧ r.2.input = mem.input ∧
    r.1.state = ⟨st.lastTxn + 1, []⟩ := by
  intro r
  have hb : breaksLimits (writeTyped a v) = false := by
    cases hb : breaksLimits (writeTyped a v) with
    | false => rfl
    | true => have := (breaks_writeTyped a v).mp hb; omega
  have hfn := fn_writeTyped a v
  have h1' : fn (writeTyped a v) = .writeSingleRegister → items (writeTyped a v) = 1 := by
    cases v <;> simp [writeTyped, fn, items]
  obtain ⟨h1, h2, h3⟩ := SystemLemmas.step_mem st mem (writeTyped a v) he hw hk hp
  rw [regfileStep_regWrite cfg mem _ hfn hb] at h1 h3
  have hlen := regImage_length cfg (writeTyped a v) hfn h1'
  rw [items_writeTyped] at hlen
  simp only [addr_writeTyped] at h3
  refine ⟨h1, ?_, ?_, ?_, ?_, ?_, ?_⟩
  · show wireImage (window (System.step memHandler cfg st mem (writeTyped a v)).2.holding _ _) = _
    rw [h3]
    show wireImage (window (store mem.holding a.toNat (regImage cfg (writeTyped a v))) _ _) = _
    rw [← hlen, window_store, SystemLemmas.wireImage_regImage, writeLayout_writeTyped]
  · intro x hx
    show (System.step memHandler cfg st mem (writeTyped a v)).2.holding x = _
    rw [h3]
    exact store_out _ _ _ _ (by rw [hlen]; exact hx)
  · show (System.step memHandler cfg st mem (writeTyped a v)).2.coils = _; rw [h3]
  · show (System.step memHandler cfg st mem (writeTyped a v)).2.discrete = _; rw [h3]
  · show (System.step memHandler cfg st mem (writeTyped a v)).2.input = _; rw [h3]
  · show (System.step memHandler cfg st mem (writeTyped a v)).1.state = _
    rw [h2, hb]; rfl

/-- `wc`: the coil is set, nothing else touched -/
theorem step_write_coil (cfg : Cfg) (st : TState) (mem : Mem)
    (hk : IsTcp cfg.kind) (he : cfg.endian ≠ .invalid) (hw : cfg.word ≠ .invalid)
    (hp : st.pending = []) (a : U16) (b : Bool) :
    let r := System.step memHandler cfg st mem (.writeCoil a b)
    r.1.result = some (.ok .unit) ∧ r.2.coils a.toNat = b ∧
    (∀ x, x ≠ a.toNat → r.2.coils x = mem.coils x) ∧
    r.2.holding = mem.holding ∧ r.2.discrete = mem.discrete ∧ r.2.input = mem.input := by
  intro r
  obtain ⟨h1, _, h3⟩ := SystemLemmas.step_mem st mem (.writeCoil a b) he hw hk hp
  rw [regfileStep_coilWrite] at h1 h3
  refine ⟨h1, ?_, ?_, ?_, ?_, ?_⟩
  · show (System.step memHandler cfg st mem (.writeCoil a b)).2.coils _ = _
    rw [h3]; exact store_in mem.coils a.toNat [b] 0 (by simp)
  · intro x hx
    show (System.step memHandler cfg st mem (.writeCoil a b)).2.coils _ = _
    rw [h3]; exact store_out _ _ _ _ (by simp; omega)
  · show (System.step memHandler cfg st mem (.writeCoil a b)).2.holding = _; rw [h3]
  · show (System.step memHandler cfg st mem (.writeCoil a b)).2.discrete = _; rw [h3]
  · show (System.step memHandler cfg st mem (.writeCoil a b)).2.input = _; rw [h3]


/-! ### the run loop as a history of the closed loop -/

/-- the run loop's treatment of one operation, as commands of the closed-loop system: `sid` is
    `client.SetUnitId`, every other modelled operation is its client call(s) -/
def opCmds : Operation → List System.Cmd
  | .setUnitId u => [.setUnit u]
  | o => (execute o).map .op

/-- the whole run loop -/
def cmdsOf (ops : List Operation) : List System.Cmd := ops.flatMap opCmds

/-- the run loop of an invocation (nothing at all unless `main` reaches it) -/
def sessionCmds : Outcome → List System.Cmd
  | .go _ _ _ ops => cmdsOf ops
  | _ => []

/-- the client as `main` sets it up: `NewClient` (transport from the --target scheme),
    `SetEncoding(--endianness, --word-order)`, `SetUnitId(--unit-id)` -/
def sessionCfg (k : Kind) : Outcome → Cfg
  | .go e w u _ => { kind := k, unitId := u, endian := e, word := w }
  | _ => { kind := k, unitId := 0, endian := .big, word := .highFirst }

/-- the frames written to the connection during a history, in order -/
def runWritten (h : Server.Handler Mem) (cfg : Cfg) (st : TState) (mem : Mem) :
    List System.Cmd → List Bytes
  | [] => []
  | c :: cs =>
    let x := System.exec h cfg st mem c
    (match c with | .op o => (System.step h cfg st mem o).1.written.toList | _ => []) ++
      runWritten h x.2.1 x.2.2.1 x.2.2.2 cs

/-- SPECIFICATION of the wire: for a list of library calls, each with the unit id it is made
    under: every call within the protocol limits puts exactly its request frame
    (`Spec.request`, C01) on the wire, in order, with consecutive transaction ids; a call that
    breaks the limits puts nothing -/
def wireSpec (cfg : Cfg) (txn : U16) : List (Byte × Op) → List Bytes
  | [] => []
  | (u, op) :: rest =>
    match Spec.request { cfg with unitId := u } ⟨txn, []⟩ op with
    | .ok f => f :: wireSpec cfg (txn + 1) rest
    | .error _ => wireSpec cfg txn rest

/-- number of requests sent -/
def sentCount : List (Byte × Op) → Nat
  | [] => 0
  | (_, op) :: rest => (if breaksLimits op then 0 else 1) + sentCount rest

theorem wireSpec_unit (cfg : Cfg) (u : Byte) : ∀ (l : List (Byte × Op)) (txn : U16),
    wireSpec { cfg with unitId := u } txn l = wireSpec cfg txn l := by
  intro l
  induction l with
  | nil => intro _; rfl
  | cons p rest ih =>
    intro txn
    obtain ⟨u', op⟩ := p
    simp only [wireSpec]
    split <;> simp [ih]

theorem request_error_iff (cfg : Cfg) (st : TState) (op : Op) :
    (∃ e, Spec.request cfg st op = .error e) ↔ breaksLimits op = true := by
  unfold Spec.request
  cases breaksLimits op <;> simp

theorem wireSpec_append (cfg : Cfg) : ∀ (l1 l2 : List (Byte × Op)) (txn : U16),
    wireSpec cfg txn (l1 ++ l2) =
      wireSpec cfg txn l1 ++ wireSpec cfg (txn + BitVec.ofNat 16 (sentCount l1)) l2 := by
  intro l1
  induction l1 with
  | nil => intro l2 txn; simp [wireSpec, sentCount]
  | cons p rest ih =>
    intro l2 txn
    obtain ⟨u, op⟩ := p
    simp only [List.cons_append, wireSpec, sentCount]
    cases hb : breaksLimits op with
    | true =>
      have : Spec.request { cfg with unitId := u } ⟨txn, []⟩ op = .error .unexpectedParameters := by
        simp [Spec.request, hb]
      rw [this]; simp [ih]
    | false =>
      have : ∃ f, Spec.request { cfg with unitId := u } ⟨txn, []⟩ op = .ok f := by
        simp [Spec.request, hb]
      obtain ⟨f, hf⟩ := this
      rw [hf]
      simp only [List.cons_append, ih, Bool.false_eq_true, if_false]
      congr 2
      rw [BitVec.add_assoc, BitVec.ofNat_add]; rfl

theorem execute_shape (o : Operation) : execute o = [] ∨ ∃ c, execute o = [c] := by
  cases o with
  | readBools c a q => cases c <;> exact .inr ⟨_, rfl⟩
  | readRegs ty h a q => cases ty <;> exact .inr ⟨_, rfl⟩
  | setUnitId u => exact .inl rfl
  | other n => exact .inl rfl
  | _ => exact .inr ⟨_, rfl⟩

theorem opCmds_not_sid (o : Operation) (h : ∀ u, o ≠ .setUnitId u) :
    opCmds o = (execute o).map .op ∧ ∀ u, nextUnit u o = u := by
  cases o <;> first | exact ⟨rfl, fun _ => rfl⟩ | exact absurd rfl (h _)

theorem trace_append (ops1 ops2 : List Operation) : ∀ u,
    trace u (ops1 ++ ops2) = trace u ops1 ++ trace (ops1.foldl nextUnit u) ops2 := by
  induction ops1 with
  | nil => intro u; rfl
  | cons o rest ih => intro u; simp [trace, ih]

/-- the frames the closed loop writes during the run loop are those of the specification, for the
    calls `Cli.trace` lists -/
theorem runWritten_cmdsOf : ∀ (ops : List Operation) (cfg : Cfg) (st : TState) (mem : Mem),
    SystemLemmas.Valid cfg → st.pending = [] →
    runWritten memHandler cfg st mem (cmdsOf ops) = wireSpec cfg st.lastTxn (trace cfg.unitId ops) := by
  intro ops
  induction ops with
  | nil => intros; rfl
  | cons o rest ih =>
    intro cfg st mem hv hp
    by_cases hs : ∃ u, o = .setUnitId u
    · obtain ⟨u, rfl⟩ := hs
      have hv' : SystemLemmas.Valid { cfg with unitId := u } := hv
      show [] ++ runWritten memHandler { cfg with unitId := u } st mem (cmdsOf rest) = _
      rw [List.nil_append, ih _ st mem hv' hp, wireSpec_unit]
      rfl
    · have hs' : ∀ u, o ≠ .setUnitId u := fun u e => hs ⟨u, e⟩
      obtain ⟨hc, hu⟩ := opCmds_not_sid o hs'
      have hcm : cmdsOf (o :: rest) = (execute o).map .op ++ cmdsOf rest := by
        simp [cmdsOf, hc]
      rw [hcm]
      simp only [trace, hu]
      rcases execute_shape o with he | ⟨c, he⟩
      · rw [he]; simpa using ih cfg st mem hv hp
      · rw [he]
        obtain ⟨h1, h2, h3⟩ := SystemLemmas.step_mem st mem c hv.2.1 hv.2.2 hv.1 hp
        have hw := SystemLemmas.step_mem_written st mem c hv.2.1 hv.2.2 hv.1 hp
        have hst : st = ⟨st.lastTxn, []⟩ := by cases st; simp_all
        have hp' : (System.step memHandler cfg st mem c).1.state.pending = [] := by
          rw [h2]; split <;> simp [hp]
        have ih' := ih cfg _ (System.step memHandler cfg st mem c).2 hv hp'
        show (System.step memHandler cfg st mem c).1.written.toList ++
            runWritten memHandler cfg (System.step memHandler cfg st mem c).1.state
              (System.step memHandler cfg st mem c).2 (cmdsOf rest) = _
        rw [ih', hw, h2]
        simp only [List.map_cons, List.map_nil, List.cons_append, List.nil_append, wireSpec]
        have hcfg : ({ cfg with unitId := cfg.unitId } : Cfg) = cfg := rfl
        rw [hcfg, ← hst]
        cases hb : breaksLimits c with
        | true =>
          have : Spec.request cfg st c = .error .unexpectedParameters := by
            simp [Spec.request, hb]
          rw [this]; simp
        | false =>
          have : ∃ f, Spec.request cfg st c = .ok f := by simp [Spec.request, hb]
          obtain ⟨f, hf⟩ := this
          rw [hf]; simp



/-! ### the layouts are injective: `Holds` determines the values -/

theorem layout16_inj (e : Endian) (he : e ≠ .invalid) {x y : U16}
    (h : layout16 e x = layout16 e y) : x = y := by
  have hx := ClientResp.layout16_wireRegs e he [x]
  have hy := ClientResp.layout16_wireRegs e he [y]
  simp only [List.flatMap_cons, List.flatMap_nil, List.append_nil] at hx hy
  rw [h, hy] at hx
  injection hx with hx; exact hx.symm

theorem layout32_inj (e : Endian) (w : WordOrder) (he : e ≠ .invalid) (hw : w ≠ .invalid)
    {x y : U32} (h : layout32 e w x = layout32 e w y) : x = y := by
  have hx := ClientResp.layout32_join32 e w he hw [x]
  have hy := ClientResp.layout32_join32 e w he hw [y]
  simp only [List.flatMap_cons, List.flatMap_nil, List.append_nil] at hx hy
  rw [h, hy] at hx
  injection hx with hx; exact hx.symm

theorem layout64_inj (e : Endian) (w : WordOrder) (he : e ≠ .invalid) (hw : w ≠ .invalid)
    {x y : U64} (h : layout64 e w x = layout64 e w y) : x = y := by
  have hx := ClientResp.layout64_join64 e w he hw [x]
  have hy := ClientResp.layout64_join64 e w he hw [y]
  simp only [List.flatMap_cons, List.flatMap_nil, List.append_nil] at hx hy
  rw [h, hy] at hx
  injection hx with hx; exact hx.symm

theorem list_len1 {α : Type} {l : List α} (h : l.length = 1) : ∃ x, l = [x] := by
  match l, h with
  | [x], _ => exact ⟨x, rfl⟩

theorem window1 {α : Type} (t : Nat → α) (a : Nat) : window t a 1 = [t (a + 0)] := by
  simp [window, List.range_succ]
theorem window2 {α : Type} (t : Nat → α) (a : Nat) : window t a 2 = [t (a + 2 * 0), t (a + 2 * 0 + 1)] := by
  simp [window, List.range_succ]
theorem window4 {α : Type} (t : Nat → α) (a : Nat) :
    window t a 4 = [t (a + 4 * 0), t (a + 4 * 0 + 1), t (a + 4 * 0 + 2), t (a + 4 * 0 + 3)] := by
  simp [window, List.range_succ]

/-- the value a single-value read returns when the addressed registers hold the layout of `x` -/
theorem holds16_single {ty : CliType} (hty : ty = .uint16 ∨ ty = .int16) {e : Endian} {w : WordOrder}
    (he : e ≠ .invalid) {t : Nat → U16} {a : Nat} {v : Val} {x : U16}
    (h : Holds ty e w t a 1 v) (hx : wireImage (window t a 1) = layout16 e x) : v = .u16s [x] := by
  rcases hty with rfl | rfl <;> cases v <;> simp only [Holds] at h <;>
  · obtain ⟨hl, hv⟩ := h
    obtain ⟨y, rfl⟩ := list_len1 hl
    have := hv 0 y rfl
    rw [← window1, hx] at this
    rw [layout16_inj e he this]

theorem holds32_single {ty : CliType} (hty : ty = .uint32 ∨ ty = .int32 ∨ ty = .float32)
    {e : Endian} {w : WordOrder} (he : e ≠ .invalid) (hw : w ≠ .invalid) {t : Nat → U16} {a : Nat}
    {v : Val} {x : U32}
    (h : Holds ty e w t a 1 v) (hx : wireImage (window t a 2) = layout32 e w x) : v = .u32s [x] := by
  rcases hty with rfl | rfl | rfl <;> cases v <;> simp only [Holds] at h <;>
  · obtain ⟨hl, hv⟩ := h
    obtain ⟨y, rfl⟩ := list_len1 hl
    have := hv 0 y rfl
    rw [← window2, hx] at this
    rw [layout32_inj e w he hw this]

theorem holds64_single {ty : CliType} (hty : ty = .uint64 ∨ ty = .int64 ∨ ty = .float64)
    {e : Endian} {w : WordOrder} (he : e ≠ .invalid) (hw : w ≠ .invalid) {t : Nat → U16} {a : Nat}
    {v : Val} {x : U64}
    (h : Holds ty e w t a 1 v) (hx : wireImage (window t a 4) = layout64 e w x) : v = .u64s [x] := by
  rcases hty with rfl | rfl | rfl <;> cases v <;> simp only [Holds] at h <;>
  · obtain ⟨hl, hv⟩ := h
    obtain ⟨y, rfl⟩ := list_len1 hl
    have := hv 0 y rfl
    rw [← window4, hx] at this
    rw [layout64_inj e w he hw this]

/-- the value `rh:<type>:<addr>` obtains after `wr:<type>:<addr>:<value>` -/
def readBack : CliValue → Val
  | .uint16 x => .u16s [x]
  | .int16 z => .u16s [BitVec.ofInt 16 z]
  | .uint32 x => .u32s [x]
  | .int32 z => .u32s [BitVec.ofInt 32 z]
  | .float32 b => .u32s [b]
  | .uint64 x => .u64s [x]
  | .int64 z => .u64s [BitVec.ofInt 64 z]
  | .float64 b => .u64s [b]
  | .bytes bs => .bytes bs

theorem count_none : count none = 1 := rfl

/-- write, then read the same type at the same address: the value comes back bit for bit -/
theorem step_write_read (cfg : Cfg) (st : TState) (mem : Mem)
    (hk : IsTcp cfg.kind) (he : cfg.endian ≠ .invalid) (hw : cfg.word ≠ .invalid)
    (hp : st.pending = []) (a : U16) (v : CliValue) (hnb : v.ty ≠ .bytes)
    (hfit : a.toNat + valueRegs v ≤ 65536) :
    let r1 := System.step memHandler cfg st mem (writeTyped a v)
    (System.step memHandler cfg r1.1.state r1.2 (readTyped v.ty a (count none) 0)).1.result
      = some (.ok (readBack v)) := by
  intro r1
  have hregs : 1 ≤ valueRegs v ∧ valueRegs v ≤ 4 := by
    cases v <;> first | exact absurd rfl hnb | (simp [valueRegs])
  have hregs' : v.ty.regsFor (count none) = valueRegs v := by
    cases v <;> first | rfl | exact absurd rfl hnb
  obtain ⟨_, hland, _, _, _, _, hst⟩ :=
    step_write_typed cfg st mem hk he hw hp a v ⟨hregs.1, by omega, hfit⟩
  have hp1 : r1.1.state.pending = [] := by
    show (System.step memHandler cfg st mem (writeTyped a v)).1.state.pending = []
    rw [hst]
  obtain ⟨v', hres, hholds, _, _⟩ :=
    step_read_typed cfg r1.1.state r1.2 hk he hw hp1 v.ty a none 0 (.inl rfl)
      ⟨by rw [hregs']; omega, by rw [hregs']; exact hfit⟩
  rw [hres]
  simp only [Nat.zero_ne_one, if_false, count_none] at hholds
  congr 2
  cases v with
  | bytes bs => exact absurd rfl hnb
  | uint16 x => exact holds16_single (.inl rfl) he hholds hland
  | int16 z => exact holds16_single (.inr rfl) he hholds hland
  | uint32 x => exact holds32_single (.inl rfl) he hw hholds hland
  | int32 z => exact holds32_single (.inr (.inl rfl)) he hw hholds hland
  | float32 b => exact holds32_single (.inr (.inr rfl)) he hw hholds hland
  | uint64 x => exact holds64_single (.inl rfl) he hw hholds hland
  | int64 z => exact holds64_single (.inr (.inl rfl)) he hw hholds hland
  | float64 b => exact holds64_single (.inr (.inr rfl)) he hw hholds hland


/-! ### what is printed -/

theorem natDigitsAux_eq (b : Nat) : ∀ f n, natDigitsAux b f n = digitsAux b f n := by
  intro f
  induction f with
  | zero => intro n; rfl
  | succ f ih => intro n; simp only [natDigitsAux, digitsAux, ih]

theorem hexDigit_eq (d : Nat) : hexDigit d = digitChar d := rfl

/-- `%v` of an unsigned integer is the canonical decimal numeral of the grammar -/
theorem decStr_eq (n : Nat) : decStr n = toDecimal n := by
  unfold decStr toDecimal toDecimalL natDigits digits
  rw [natDigitsAux_eq]; rfl

theorem intStr_eq (z : Int) : intStr z = intDecimal z := by
  unfold intStr intDecimal intDecimalL
  split
  · rw [decStr_eq]; unfold toDecimal
    apply String.toList_inj.mp
    simp
  · rw [decStr_eq]; rfl

/-- the decimal text printed for a value denotes that value (by Go's own numeral syntax) -/
theorem printed_unsigned {bits : Nat} (hb : bits ≤ 64) (x : BitVec bits) :
    parseUint bits (decStr x.toNat) = some x.toNat := by
  rw [decStr_eq]
  unfold parseUint parseUintL toDecimal
  rw [String.toList_ofList, parseUintE_dec hb, if_pos x.isLt]; rfl

theorem printed_signed {bits : Nat} (h2 : 2 ≤ bits) (hb : bits ≤ 64) (x : BitVec bits) :
    parseInt bits (intStr x.toInt) = some x.toInt := by
  have hr : -(2 ^ (bits - 1) : Int) ≤ x.toInt ∧ x.toInt < (2 ^ (bits - 1) : Int) := by
    have h1 := @BitVec.le_toInt bits x
    have h3 := @BitVec.toInt_lt bits x
    have : ((2 ^ (bits - 1) : Nat) : Int) = (2 : Int) ^ (bits - 1) := by simp
    rw [← this]
    constructor <;> omega
  rw [intStr_eq]
  unfold parseInt parseIntL intDecimal
  rw [String.toList_ofList, show intDecimalL x.toInt = intNumeral .dec x.toInt from rfl,
    parseIntE_num h2 hb, if_pos hr]; rfl

/-- the address column of line `i` (uint16 arithmetic in the program) is the address of the
    first register of value `i` whenever the span stays inside the address space -/
theorem addr_column (a : U16) (i k : Nat) (hk : k = 1 ∨ k = 2 ∨ k = 4 ∨ k = 8)
    (h : a.toNat + k * i < 65536) :
    (a + BitVec.ofNat 16 i * BitVec.ofNat 16 k).toNat = a.toNat + k * i := by
  rcases hk with rfl | rfl | rfl | rfl <;>
    simp only [BitVec.toNat_add, BitVec.toNat_mul, BitVec.toNat_ofNat] <;> omega

/-! ### floats: the value text goes to the float oracle only -/

theorem parts_wr_float32 {nm a lit : List Char} {addr : U16} (h : cmdOf nm = some .wr)
    (ha : parseUint16E a = .ok addr) :
    (∀ f, parseUint32E lit = .ok f →
      parseParts [nm, "float32".toList, a, lit] = .ok (.writeF32 addr f)) ∧
    (∀ e, parseUint32E lit = .error e → Refused (parseParts [nm, "float32".toList, a, lit])) := by
  rw [parts_wr h (show wrTyOf "float32".toList = some (.reg .float32) by decide) ha]
  constructor
  · intro f hf; simp [parseWrValue, hf]
  · intro e he; simp [parseWrValue, he]

theorem parts_wr_float64 {nm a lit : List Char} {addr : U16} (h : cmdOf nm = some .wr)
    (ha : parseUint16E a = .ok addr) :
    (∀ f, parseUint64E lit = .ok f →
      parseParts [nm, "float64".toList, a, lit] = .ok (.writeF64 addr f)) ∧
    (∀ e, parseUint64E lit = .error e → Refused (parseParts [nm, "float64".toList, a, lit])) := by
  rw [parts_wr h (show wrTyOf "float64".toList = some (.reg .float64) by decide) ha]
  constructor
  · intro f hf; simp [parseWrValue, hf]
  · intro e he; simp [parseWrValue, he]

/-! ### the invocation -/

theorem invoke_go {i : Invocation} {e : Endian} {w : WordOrder} {u : Byte} {ops : List Operation}
    (h : invoke i = .go e w u ops) :
    e ≠ .invalid ∧ w ≠ .invalid ∧ run i.args = .ok ops ∧ u = BitVec.ofNat 8 i.unitId ∧
    i.unitId ≤ 255 := by
  unfold Cli.invoke at h
  simp only at h
  split at h
  · cases h
  · rename_i e' he'
    split at h
    · cases h
    · rename_i w' hw'
      split at h
      · cases h
      · split at h
        · cases h
        · rename_i ops' hr
          split at h
          · cases h
          · rename_i hu
            injection h with h1 h2 h3 h4
            subst h1 h2 h3 h4
            refine ⟨?_, ?_, hr, rfl, by omega⟩
            · intro hc; subst hc
              split at he'
              · cases he'
              · split at he' <;> cases he'
            · intro hc; subst hc
              split at hw'
              · cases hw'
              · split at hw' <;> cases hw'

theorem sessionCfg_valid (k : Kind) (hk : IsTcp k) (i : Invocation) :
    SystemLemmas.Valid (sessionCfg k (invoke i)) := by
  cases h : invoke i with
  | go e w u ops =>
    obtain ⟨he, hw, _⟩ := invoke_go h
    exact ⟨hk, he, hw⟩
  | _ => exact ⟨hk, by simp [sessionCfg], by simp [sessionCfg]⟩

/-- for every invocation: the frames on the wire are those of the specification for the calls
    `Outcome.requests` lists -/
theorem session_wire (i : Invocation) (k : Kind) (hk : IsTcp k) (st : TState) (mem : Mem)
    (hp : st.pending = []) :
    runWritten memHandler (sessionCfg k (invoke i)) st mem (sessionCmds (invoke i)) =
      wireSpec (sessionCfg k (invoke i)) st.lastTxn (invoke i).requests := by
  have hv := sessionCfg_valid k hk i
  cases h : invoke i with
  | go e w u ops =>
    rw [h] at hv
    exact runWritten_cmdsOf ops _ st mem hv hp
  | _ => rfl

/-- a refused invocation leaves the device alone -/
theorem session_refused (i : Invocation) (h : ∃ a ∈ i.args, Refused (parseArg a)) :
    sessionCmds (invoke i) = [] ∧ (invoke i).requests = [] := by
  rcases invoke_refuse i h with ⟨m, hm⟩ | ⟨m, hm⟩ <;> rw [hm] <;> exact ⟨rfl, rfl⟩

theorem documentedTrace_append (cs1 cs2 : List Command) : ∀ u,
    documentedTrace u (cs1 ++ cs2) =
      documentedTrace u cs1 ++ documentedTrace (cs1.foldl documentedUnit u) cs2 := by
  induction cs1 with
  | nil => intro u; rfl
  | cons c rest ih => intro u; simp [documentedTrace, ih]



/-! ### what the device sees -/

/-- SPECIFICATION: the handler invocations for a list of (unit id, library call): one request
    object (`Spec.handlerSees`, C04) per call within the limits, in order -/
def deviceSpec (cfg : Cfg) (calls : List (Byte × Op)) : List Server.HReq :=
  calls.flatMap (fun p => (handlerSees { cfg with unitId := p.1 } p.2).toList)

theorem deviceSpec_unit (cfg : Cfg) (u : Byte) (l : List (Byte × Op)) :
    deviceSpec { cfg with unitId := u } l = deviceSpec cfg l := rfl

theorem regfileCalls_cmdsOf : ∀ (ops : List Operation) (cfg : Cfg),
    regfileCalls cfg (cmdsOf ops) = deviceSpec cfg (trace cfg.unitId ops) := by
  intro ops
  induction ops with
  | nil => intro _; rfl
  | cons o rest ih =>
    intro cfg
    by_cases hs : ∃ u, o = .setUnitId u
    · obtain ⟨u, rfl⟩ := hs
      show regfileCalls { cfg with unitId := u } (cmdsOf rest) = _
      rw [ih]; rfl
    · have hs' : ∀ u, o ≠ .setUnitId u := fun u e => hs ⟨u, e⟩
      obtain ⟨hc, hu⟩ := opCmds_not_sid o hs'
      have hcm : cmdsOf (o :: rest) = (execute o).map .op ++ cmdsOf rest := by
        simp [cmdsOf, hc]
      rw [hcm]
      simp only [trace, hu]
      rcases execute_shape o with he | ⟨c, he⟩
      · rw [he]; simpa using ih cfg
      · rw [he]
        simp only [List.map_cons, List.map_nil, List.cons_append, List.nil_append, regfileCalls, ih]
        simp [deviceSpec]



/-! ## C. complete characterisation of the accepted arguments -/

theorem joinWith_cons2 (sep : Char) (p q : List Char) (rest : List (List Char)) :
    joinWith sep (p :: q :: rest) = p ++ sep :: joinWith sep (q :: rest) := rfl

/-- `strings.Split` is the inverse of joining: the parts contain no separator and joined with
    it they give the string back -/
theorem splitOn_spec (sep : Char) : ∀ s : List Char,
    joinWith sep (splitOn sep s) = s ∧ ∀ p ∈ splitOn sep s, sep ∉ p := by
  intro s
  induction s with
  | nil => exact ⟨rfl, by simp [splitOn]⟩
  | cons c cs ih =>
    obtain ⟨ih1, ih2⟩ := ih
    have hne := splitOn_ne_nil sep cs
    match hs : splitOn sep cs, hne with
    | h :: t, _ =>
      rw [hs] at ih1 ih2
      by_cases hc : c = sep
      · subst hc
        have : splitOn c (c :: cs) = [] :: h :: t := by simp [splitOn, hs]
        rw [this]
        refine ⟨by rw [joinWith_cons2, ih1]; rfl, ?_⟩
        intro p hp
        rcases List.mem_cons.mp hp with rfl | hp
        · simp
        · exact ih2 p hp
      · have : splitOn sep (c :: cs) = (c :: h) :: t := by simp [splitOn, hc, hs]
        rw [this]
        constructor
        · cases t with
          | nil => simp only [joinWith] at ih1 ⊢; rw [ih1]
          | cons q r => rw [joinWith_cons2] at ih1 ⊢; rw [List.cons_append, ih1]
        · intro p hp
          rcases List.mem_cons.mp hp with rfl | hp
          · intro hm
            rcases List.mem_cons.mp hm with e | hm
            · exact hc e.symm
            · exact ih2 h (List.mem_cons_self ..) hm
          · exact ih2 p (List.mem_cons_of_mem _ hp)

theorem splitOn_iff (sep : Char) (s : List Char) (parts : List (List Char)) :
    splitOn sep s = parts ↔ parts ≠ [] ∧ joinWith sep parts = s ∧ ∀ p ∈ parts, sep ∉ p := by
  constructor
  · intro h; subst h
    exact ⟨splitOn_ne_nil sep s, (splitOn_spec sep s).1, (splitOn_spec sep s).2⟩
  · rintro ⟨h1, h2, h3⟩
    rw [← h2]; exact splitOn_join parts h1 h3

/-- the characters of a numeral: digits, letters, underscores only -/
theorem Tail.chars {b acc : Nat} {s : List Char} {v : Nat} (h : Tail b acc s v) :
    ∀ c ∈ s, c = '_' ∨ ∃ d, digitVal c = some d := by
  induction h with
  | done => intro c hc; cases hc
  | digit hd _ _ ih =>
    intro c hc
    rcases List.mem_cons.mp hc with rfl | hc
    · exact .inr ⟨_, hd⟩
    · exact ih c hc
  | sep hd _ _ ih =>
    intro c hc
    rcases List.mem_cons.mp hc with rfl | hc
    · exact .inl rfl
    · rcases List.mem_cons.mp hc with rfl | hc
      · exact .inr ⟨_, hd⟩
      · exact ih c hc

theorem UNumeral.chars {s : List Char} {n : Nat} (h : UNumeral s n) :
    ∀ c ∈ s, c = '_' ∨ ∃ d, digitVal c = some d := by
  have hpfx : ∀ p, isPfx p → ∃ d, digitVal p = some d := by
    intro p hp
    rcases hp with rfl | rfl | rfl | rfl | rfl | rfl <;> exact ⟨_, rfl⟩
  cases h with
  | dec hd _ _ ht =>
    intro c hc
    rcases List.mem_cons.mp hc with rfl | hc
    · exact .inr ⟨_, hd⟩
    · exact ht.chars c hc
  | oct ht =>
    intro c hc
    rcases List.mem_cons.mp hc with rfl | hc
    · exact .inr ⟨0, digitVal_c0⟩
    · exact ht.chars c hc
  | bin hp ht =>
    intro c hc
    rcases List.mem_cons.mp hc with rfl | hc
    · exact .inr ⟨0, digitVal_c0⟩
    · rcases List.mem_cons.mp hc with rfl | hc
      · exact .inr (hpfx _ (by unfold isPfx; rcases hp with h | h <;> simp [h]))
      · exact ht.chars c hc
  | octP hp ht =>
    intro c hc
    rcases List.mem_cons.mp hc with rfl | hc
    · exact .inr ⟨0, digitVal_c0⟩
    · rcases List.mem_cons.mp hc with rfl | hc
      · exact .inr (hpfx _ (by unfold isPfx; rcases hp with h | h <;> simp [h]))
      · exact ht.chars c hc
  | hex hp ht =>
    intro c hc
    rcases List.mem_cons.mp hc with rfl | hc
    · exact .inr ⟨0, digitVal_c0⟩
    · rcases List.mem_cons.mp hc with rfl | hc
      · exact .inr (hpfx _ (by unfold isPfx; rcases hp with h | h <;> simp [h]))
      · exact ht.chars c hc

theorem UNumeral.no_plus {s : List Char} {n : Nat} (h : UNumeral s n) : '+' ∉ s := by
  intro hm
  rcases h.chars _ hm with e | ⟨d, hd⟩
  · cases e
  · rw [digitVal_plus] at hd; cases hd

theorem UNumeral.no_colon {s : List Char} {n : Nat} (h : UNumeral s n) : ':' ∉ s := by
  intro hm
  rcases h.chars _ hm with e | ⟨d, hd⟩
  · cases e
  · have : digitVal ':' = none := by decide
    rw [this] at hd; cases hd

/-- the `<addr>[+n]` field, for every string: one numeral (no additional quantity), or two
    numerals separated by ONE `+` -/
theorem parseAQ_iff (s : List Char) (a q : U16) :
    parseAddressAndQuantityE s = .ok (a, q) ↔
      (UNumeral s a.toNat ∧ q = 0) ∨
      (∃ p0 p1, s = p0 ++ '+' :: p1 ∧ UNumeral p0 a.toNat ∧ UNumeral p1 q.toNat) := by
  constructor
  · intro h
    unfold parseAddressAndQuantityE at h
    obtain ⟨hj, hn⟩ := splitOn_spec '+' s
    split at h
    · rename_i x hx
      rw [hx] at hj
      simp only [joinWith] at hj; subst hj
      cases hp : parseUint16E x with
      | error e => rw [hp] at h; simp [withNum, Except.map] at h
      | ok a' =>
        rw [hp] at h
        simp only [withNum, Except.map, Except.ok.injEq, Prod.mk.injEq] at h
        obtain ⟨rfl, rfl⟩ := h
        exact .inl ⟨(parseUint16E_iff _ _).mp hp, rfl⟩
    · rename_i p0 p1 hx
      rw [hx] at hj
      simp only [joinWith] at hj
      cases hp0 : parseUint16E p0 with
      | error e => rw [hp0] at h; simp [withNum] at h
      | ok a' =>
        cases hp1 : parseUint16E p1 with
        | error e => rw [hp0, hp1] at h; simp [withNum, Except.map] at h
        | ok q' =>
          rw [hp0, hp1] at h
          simp only [withNum, Except.map, Except.ok.injEq, Prod.mk.injEq] at h
          obtain ⟨rfl, rfl⟩ := h
          exact .inr ⟨p0, p1, hj.symm, (parseUint16E_iff _ _).mp hp0, (parseUint16E_iff _ _).mp hp1⟩
    · cases h
  · rintro (⟨h, rfl⟩ | ⟨p0, p1, rfl, h0, h1⟩)
    · unfold parseAddressAndQuantityE
      rw [splitOn_nosep h.no_plus, (parseUint16E_iff _ _).mpr h]
      rfl
    · unfold parseAddressAndQuantityE
      rw [splitOn_append _ h0.no_plus, splitOn_nosep h1.no_plus]
      simp only
      rw [(parseUint16E_iff _ _).mpr h0, (parseUint16E_iff _ _).mpr h1]
      rfl


/-! ### the argument switch, command by command: accepted iff … -/

theorem accept_rc {nm : List Char} {args : List (List Char)} {o : Operation}
    (h : cmdOf nm = some .rc ∨ cmdOf nm = some .rdi) :
    parseParts (nm :: args) = .ok o ↔
      ∃ f a q, args = [f] ∧ parseAddressAndQuantityE f = .ok (a, q) ∧
        o = .readBools (decide (cmdOf nm = some .rc)) a q := by
  match args with
  | [] =>
    refine ⟨fun hx => ?_, fun ⟨_, _, _, e, _⟩ => by cases e⟩
    have := refuse_arity_rc (args := []) h (by simp)
    obtain ⟨m, hm⟩ := this; rw [hm] at hx; cases hx
  | x :: y :: r =>
    refine ⟨fun hx => ?_, fun ⟨_, _, _, e, _⟩ => by cases e⟩
    have := refuse_arity_rc (nm := nm) (args := x :: y :: r) h (by simp)
    obtain ⟨m, hm⟩ := this; rw [hm] at hx; cases hx
  | [f] =>
    cases hp : parseAddressAndQuantityE f with
    | error e =>
      constructor
      · intro hx
        obtain ⟨m, hm⟩ := refuse_aq_rc h ⟨e, hp⟩
        rw [hm] at hx; cases hx
      · rintro ⟨f', a, q, e1, e2, _⟩
        injection e1 with e1; subst e1; rw [hp] at e2; cases e2
    | ok p =>
      obtain ⟨a, q⟩ := p
      have : parseParts [nm, f] = .ok (.readBools (decide (cmdOf nm = some .rc)) a q) := by
        rcases h with h | h
        · rw [parts_rc_ok h hp]; simp [h]
        · rw [parts_rdi_ok h hp]; simp [h]
      rw [this]
      constructor
      · intro hx; injection hx with hx; exact ⟨f, a, q, rfl, hp, hx.symm⟩
      · rintro ⟨f', a', q', e1, e2, e3⟩
        injection e1 with e1; subst e1; rw [hp] at e2
        injection e2 with e2; injection e2 with e2 e2'; subst e2 e2' e3; rfl

theorem accept_rh {nm : List Char} {args : List (List Char)} {o : Operation}
    (h : cmdOf nm = some .rh ∨ cmdOf nm = some .ri) :
    parseParts (nm :: args) = .ok o ↔
      ∃ t f ty a q, args = [t, f] ∧ regTyOf t = some ty ∧
        parseAddressAndQuantityE f = .ok (a, q) ∧
        o = .readRegs ty (decide (cmdOf nm = some .rh)) a q := by
  by_cases hl : args.length = 2
  · match args, hl with
    | [t, f], _ =>
      cases ht : regTyOf t with
      | none =>
        constructor
        · intro hx
          obtain ⟨m, hm⟩ := refuse_type_rh (a := f) h ht
          rw [hm] at hx; cases hx
        · rintro ⟨t', f', ty, a, q, e1, e2, _⟩
          injection e1 with e1 e1'; subst e1; rw [ht] at e2; cases e2
      | some ty =>
        cases hp : parseAddressAndQuantityE f with
        | error e =>
          constructor
          · intro hx
            obtain ⟨m, hm⟩ := refuse_aq_rh (t := t) h ⟨e, hp⟩
            rw [hm] at hx; cases hx
          · rintro ⟨t', f', ty', a, q, e1, _, e3, _⟩
            injection e1 with e1 e1'; injection e1' with e1'; subst e1 e1'
            rw [hp] at e3; cases e3
        | ok p =>
          obtain ⟨a, q⟩ := p
          have : parseParts [nm, t, f] = .ok (.readRegs ty (decide (cmdOf nm = some .rh)) a q) := by
            rcases h with h | h
            · rw [parts_rh_ok h ht hp]; simp [h]
            · rw [parts_ri_ok h ht hp]; simp [h]
          rw [this]
          constructor
          · intro hx; injection hx with hx; exact ⟨t, f, ty, a, q, rfl, ht, hp, hx.symm⟩
          · rintro ⟨t', f', ty', a', q', e1, e2, e3, e4⟩
            injection e1 with e1 e1'; injection e1' with e1'; subst e1 e1'
            rw [ht] at e2; injection e2 with e2; subst e2
            rw [hp] at e3; injection e3 with e3; injection e3 with e3 e3'; subst e3 e3' e4; rfl
  · constructor
    · intro hx
      obtain ⟨m, hm⟩ := refuse_arity_rh (nm := nm) h hl
      rw [hm] at hx; cases hx
    · rintro ⟨t, f, ty, a, q, e1, _⟩
      subst e1; exact absurd rfl hl

theorem accept_wc {nm : List Char} {args : List (List Char)} {o : Operation}
    (h : cmdOf nm = some .wc) :
    parseParts (nm :: args) = .ok o ↔
      ∃ f v a b, args = [f, v] ∧ parseUint16E f = .ok a ∧
        ((str v = "true" ∧ b = true) ∨ (str v = "false" ∧ b = false)) ∧ o = .writeCoil a b := by
  by_cases hl : args.length = 2
  · match args, hl with
    | [f, v], _ =>
      cases hp : parseUint16E f with
      | error e =>
        constructor
        · intro hx
          obtain ⟨m, hm⟩ := refuse_addr_wc (v := v) h hp
          rw [hm] at hx; cases hx
        · rintro ⟨f', v', a, b, e1, e2, _⟩
          injection e1 with e1 e1'; subst e1; rw [hp] at e2; cases e2
      | ok a =>
        by_cases hv : str v = "true"
        · have : parseParts [nm, f, v] = .ok (.writeCoil a true) := by
            simp [parseParts, h, hp, withNum, hv]
          rw [this]
          constructor
          · intro hx; injection hx with hx
            exact ⟨f, v, a, true, rfl, hp, .inl ⟨hv, rfl⟩, hx.symm⟩
          · rintro ⟨f', v', a', b, e1, e2, e3, e4⟩
            injection e1 with e1 e1'; injection e1' with e1'; subst e1 e1'
            rw [hp] at e2; injection e2 with e2; subst e2
            rcases e3 with ⟨_, rfl⟩ | ⟨hf, rfl⟩
            · rw [e4]
            · rw [hv] at hf; exact absurd hf (by decide)
        · by_cases hf : str v = "false"
          · have : parseParts [nm, f, v] = .ok (.writeCoil a false) := by
              simp [parseParts, h, hp, withNum, hf]
            rw [this]
            constructor
            · intro hx; injection hx with hx
              exact ⟨f, v, a, false, rfl, hp, .inr ⟨hf, rfl⟩, hx.symm⟩
            · rintro ⟨f', v', a', b, e1, e2, e3, e4⟩
              injection e1 with e1 e1'; injection e1' with e1'; subst e1 e1'
              rw [hp] at e2; injection e2 with e2; subst e2
              rcases e3 with ⟨ht, rfl⟩ | ⟨_, rfl⟩
              · exact absurd ht hv
              · rw [e4]
          · constructor
            · intro hx
              obtain ⟨m, hm⟩ := refuse_coil_value (a := f) h ⟨hv, hf⟩
              rw [hm] at hx; cases hx
            · rintro ⟨f', v', a', b, e1, _, e3, _⟩
              injection e1 with e1 e1'; injection e1' with e1'; subst e1 e1'
              rcases e3 with ⟨ht, _⟩ | ⟨hf', _⟩
              · exact absurd ht hv
              · exact absurd hf' hf
  · constructor
    · intro hx
      obtain ⟨m, hm⟩ := refuse_arity_wc (nm := nm) h hl
      rw [hm] at hx; cases hx
    · rintro ⟨f, v, a, b, e1, _⟩
      subst e1; exact absurd rfl hl

theorem accept_sid {nm : List Char} {args : List (List Char)} {o : Operation}
    (h : cmdOf nm = some .sid) :
    parseParts (nm :: args) = .ok o ↔
      ∃ f u, args = [f] ∧ parseUnitIdE f = .ok u ∧ o = .setUnitId u := by
  by_cases hl : args.length = 1
  · match args, hl with
    | [f], _ =>
      cases hp : parseUnitIdE f with
      | error e =>
        constructor
        · intro hx
          obtain ⟨m, hm⟩ := refuse_sid h hp
          rw [hm] at hx; cases hx
        · rintro ⟨f', u, e1, e2, _⟩
          injection e1 with e1; subst e1; rw [hp] at e2; cases e2
      | ok u =>
        rw [parts_sid_ok h hp]
        constructor
        · intro hx; injection hx with hx; exact ⟨f, u, rfl, hp, hx.symm⟩
        · rintro ⟨f', u', e1, e2, e3⟩
          injection e1 with e1; subst e1
          rw [hp] at e2; injection e2 with e2; subst e2 e3; rfl
  · constructor
    · intro hx
      obtain ⟨m, hm⟩ := refuse_arity_sid (nm := nm) h hl
      rw [hm] at hx; cases hx
    · rintro ⟨f, u, e1, _⟩
      subst e1; exact absurd rfl hl

theorem accept_wr {nm : List Char} {args : List (List Char)} {o : Operation}
    (h : cmdOf nm = some .wr) :
    parseParts (nm :: args) = .ok o ↔
      ∃ t f v a ty, args = [t, f, v] ∧ parseUint16E f = .ok a ∧ wrTyOf t = some ty ∧
        parseWrValue ty t a v = .ok o := by
  by_cases hl : args.length = 3
  · match args, hl with
    | [t, f, v], _ =>
      cases hp : parseUint16E f with
      | error e =>
        constructor
        · intro hx
          obtain ⟨m, hm⟩ := refuse_addr_wr (t := t) (v := v) h hp
          rw [hm] at hx; cases hx
        · rintro ⟨t', f', v', a, ty, e1, e2, _⟩
          injection e1 with e1 e1'; injection e1' with e1'; subst e1'; rw [hp] at e2; cases e2
      | ok a =>
        cases ht : wrTyOf t with
        | none =>
          constructor
          · intro hx
            obtain ⟨m, hm⟩ := refuse_type_wr (a := f) (v := v) h ht
            rw [hm] at hx; cases hx
          · rintro ⟨t', f', v', a', ty, e1, _, e3, _⟩
            injection e1 with e1; subst e1; rw [ht] at e3; cases e3
        | some ty =>
          rw [parts_wr h ht hp]
          constructor
          · intro hx; exact ⟨t, f, v, a, ty, rfl, hp, ht, hx⟩
          · rintro ⟨t', f', v', a', ty', e1, e2, e3, e4⟩
            injection e1 with e1 e1'; injection e1' with e1' e1''; injection e1'' with e1''
            subst e1 e1' e1''
            rw [hp] at e2; injection e2 with e2; subst e2
            rw [ht] at e3; injection e3 with e3; subst e3
            exact e4
  · constructor
    · intro hx
      obtain ⟨m, hm⟩ := refuse_arity_wr (nm := nm) h hl
      rw [hm] at hx; cases hx
    · rintro ⟨t, f, v, a, ty, e1, _⟩
      subst e1; exact absurd rfl hl

/-- the <value> of `wr`, type by type -/
theorem wrValue_iff (t v : List Char) (a : U16) (o : Operation) :
    (parseWrValue (.reg .uint16) t a v = .ok o ↔ ∃ x, parseUint16E v = .ok x ∧ o = .writeU16 a x false) ∧
    (parseWrValue (.reg .int16) t a v = .ok o ↔ ∃ x, parseInt16E v = .ok x ∧ o = .writeU16 a x true) ∧
    (parseWrValue (.reg .uint32) t a v = .ok o ↔ ∃ x, parseUint32E v = .ok x ∧ o = .writeU32 a x false) ∧
    (parseWrValue (.reg .int32) t a v = .ok o ↔ ∃ x, parseInt32E v = .ok x ∧ o = .writeU32 a x true) ∧
    (parseWrValue (.reg .float32) t a v = .ok o ↔ ∃ x, parseUint32E v = .ok x ∧ o = .writeF32 a x) ∧
    (parseWrValue (.reg .uint64) t a v = .ok o ↔ ∃ x, parseUint64E v = .ok x ∧ o = .writeU64 a x false) ∧
    (parseWrValue (.reg .int64) t a v = .ok o ↔ ∃ x, parseInt64E v = .ok x ∧ o = .writeU64 a x true) ∧
    (parseWrValue (.reg .float64) t a v = .ok o ↔ ∃ x, parseUint64E v = .ok x ∧ o = .writeF64 a x) ∧
    (parseWrValue (.reg .bytes) t a v = .ok o ↔ ∃ bs, parseHexBytesE v = .ok bs ∧ o = .writeBytes a bs) ∧
    (parseWrValue .string t a v = .ok o ↔ o = .writeBytes a (utf8Bytes v)) := by
  refine ⟨?_, ?_, ?_, ?_, ?_, ?_, ?_, ?_, ?_, ?_⟩
  · cases h : parseUint16E v <;> simp [parseWrValue, h, eq_comm]
  · cases h : parseInt16E v <;> simp [parseWrValue, h, eq_comm]
  · cases h : parseUint32E v <;> simp [parseWrValue, h, eq_comm]
  · cases h : parseInt32E v <;> simp [parseWrValue, h, eq_comm]
  · cases h : parseUint32E v <;> simp [parseWrValue, h, eq_comm]
  · cases h : parseUint64E v <;> simp [parseWrValue, h, eq_comm]
  · cases h : parseInt64E v <;> simp [parseWrValue, h, eq_comm]
  · cases h : parseUint64E v <;> simp [parseWrValue, h, eq_comm]
  · cases h : parseHexBytesE v <;> simp [parseWrValue, h, eq_comm]
  · simp [parseWrValue, eq_comm]


/-! ### the name tables -/

theorem lookup_some_iff {β : Type} : ∀ (l : List (String × β)) (k : String) (v : β),
    (l.map Prod.fst).Nodup → (l.lookup k = some v ↔ (k, v) ∈ l) := by
  intro l
  induction l with
  | nil => intro k v _; simp
  | cons p rest ih =>
    intro k v hn
    obtain ⟨k', v'⟩ := p
    simp only [List.map_cons, List.nodup_cons] at hn
    by_cases hk : k = k'
    · subst hk
      simp only [List.lookup, beq_self_eq_true, Option.some.injEq, List.mem_cons, Prod.mk.injEq,
        true_and]
      constructor
      · intro h; exact .inl h.symm
      · rintro (h | h)
        · exact h.symm
        · exact absurd (List.mem_map.mpr ⟨(k, v), h, rfl⟩) hn.1
    · have : (k == k') = false := by simp [hk]
      simp only [List.lookup, this, List.mem_cons, Prod.mk.injEq, hk, false_and, false_or]
      exact ih k v hn.2

theorem cmdTable_nodup : (cmdTable.map Prod.fst).Nodup := by decide +kernel
theorem regTyTable_nodup : (regTyTable.map Prod.fst).Nodup := by decide +kernel

/-- the spellings of the seven modelled commands -/
theorem cmdOf_iff (nm : List Char) :
    (cmdOf nm = some .rc ↔ str nm ∈ ["rc", "readCoil", "readCoils"]) ∧
    (cmdOf nm = some .rdi ↔ str nm ∈ ["rdi", "readDiscreteInput", "readDiscreteInputs"]) ∧
    (cmdOf nm = some .rh ↔ str nm ∈ ["rh", "readHoldingRegister", "readHoldingRegisters"]) ∧
    (cmdOf nm = some .ri ↔ str nm ∈ ["ri", "readInputRegister", "readInputRegisters"]) ∧
    (cmdOf nm = some .wc ↔ str nm ∈ ["wc", "writeCoil"]) ∧
    (cmdOf nm = some .wr ↔ str nm ∈ ["wr", "writeRegister"]) ∧
    (cmdOf nm = some .sid ↔ str nm ∈ ["suid", "setUnitId", "sid"]) := by
  unfold cmdOf str
  refine ⟨?_, ?_, ?_, ?_, ?_, ?_, ?_⟩ <;> rw [lookup_some_iff _ _ _ cmdTable_nodup] <;>
    simp [cmdTable]

/-- the type names -/
theorem regTyOf_iff (t : List Char) (ty : RegTy) :
    regTyOf t = some ty ↔ (str t, ty) ∈ regTyTable := by
  unfold regTyOf str; exact lookup_some_iff _ _ _ regTyTable_nodup


/-! ### the accepted arguments in terms of the numeral grammar -/

/-- SPECIFICATION: the `<addr>[+additional quantity]` field -/
def AddrField (f : List Char) (a q : U16) : Prop :=
  (UNumeral f a.toNat ∧ q = 0) ∨
  (∃ p0 p1, f = p0 ++ '+' :: p1 ∧ UNumeral p0 a.toNat ∧ UNumeral p1 q.toNat)

/-- SPECIFICATION: the `<value>` field of `wr` for each type, and the operation it yields.
    Unsigned types: a numeral; signed types: an optionally signed numeral, stored as two's
    complement; float32 / float64: the numeral of the bit pattern (model input convention, see
    Model/Cli.lean); bytes: `hex.DecodeString`; string: the bytes of the text itself -/
def WrValue (ty : WrTy) (a : U16) (v : List Char) (o : Operation) : Prop :=
  match ty with
  | .reg .uint16 => ∃ x : U16, UNumeral v x.toNat ∧ o = .writeU16 a x false
  | .reg .int16 => ∃ x : U16, SNumeral v x.toInt ∧ o = .writeU16 a x true
  | .reg .uint32 => ∃ x : U32, UNumeral v x.toNat ∧ o = .writeU32 a x false
  | .reg .int32 => ∃ x : U32, SNumeral v x.toInt ∧ o = .writeU32 a x true
  | .reg .float32 => ∃ x : U32, UNumeral v x.toNat ∧ o = .writeF32 a x
  | .reg .uint64 => ∃ x : U64, UNumeral v x.toNat ∧ o = .writeU64 a x false
  | .reg .int64 => ∃ x : U64, SNumeral v x.toInt ∧ o = .writeU64 a x true
  | .reg .float64 => ∃ x : U64, UNumeral v x.toNat ∧ o = .writeF64 a x
  | .reg .bytes => ∃ bs, parseHexBytesE v = .ok bs ∧ o = .writeBytes a bs
  | .string => o = .writeBytes a (utf8Bytes v)

theorem parseAQ_iff' (f : List Char) (a q : U16) :
    parseAddressAndQuantityE f = .ok (a, q) ↔ AddrField f a q := parseAQ_iff f a q

theorem parseInt16E_iff (s : List Char) (a : U16) : parseInt16E s = .ok a ↔ SNumeral s a.toInt :=
  parseIntBV_iff (by omega) (by omega) s a
theorem parseInt32E_iff (s : List Char) (a : U32) : parseInt32E s = .ok a ↔ SNumeral s a.toInt :=
  parseIntBV_iff (by omega) (by omega) s a
theorem parseInt64E_iff (s : List Char) (a : U64) : parseInt64E s = .ok a ↔ SNumeral s a.toInt :=
  parseIntBV_iff (by omega) (by omega) s a

theorem wrValue_spec (ty : WrTy) (t v : List Char) (a : U16) (o : Operation) :
    parseWrValue ty t a v = .ok o ↔ WrValue ty a v o := by
  have h := wrValue_iff t v a o
  cases ty with
  | string => exact h.2.2.2.2.2.2.2.2.2
  | reg r =>
    cases r
    · rw [h.1]; simp only [WrValue, parseUint16E_iff]
    · rw [h.2.1]; simp only [WrValue, parseInt16E_iff]
    · rw [h.2.2.1]; simp only [WrValue, parseUint32E_iff]
    · rw [h.2.2.2.1]; simp only [WrValue, parseInt32E_iff]
    · rw [h.2.2.2.2.1]; simp only [WrValue, parseUint32E_iff]
    · rw [h.2.2.2.2.2.1]; simp only [WrValue, parseUint64E_iff]
    · rw [h.2.2.2.2.2.2.1]; simp only [WrValue, parseInt64E_iff]
    · rw [h.2.2.2.2.2.2.2.1]; simp only [WrValue, parseUint64E_iff]
    · rw [h.2.2.2.2.2.2.2.2.1]; simp only [WrValue]

/-- SPECIFICATION: the argument `parts` (already split at ':') denotes the operation `o` of one
    of the seven documented commands -/
def Accepts (parts : List (List Char)) (o : Operation) : Prop :=
  match parts with
  | [] => False
  | nm :: args =>
    (str nm ∈ ["rc", "readCoil", "readCoils"] ∧
      ∃ f a q, args = [f] ∧ AddrField f a q ∧ o = .readBools true a q) ∨
    (str nm ∈ ["rdi", "readDiscreteInput", "readDiscreteInputs"] ∧
      ∃ f a q, args = [f] ∧ AddrField f a q ∧ o = .readBools false a q) ∨
    (str nm ∈ ["rh", "readHoldingRegister", "readHoldingRegisters"] ∧
      ∃ t f ty a q, args = [t, f] ∧ (str t, ty) ∈ regTyTable ∧ AddrField f a q ∧
        o = .readRegs ty true a q) ∨
    (str nm ∈ ["ri", "readInputRegister", "readInputRegisters"] ∧
      ∃ t f ty a q, args = [t, f] ∧ (str t, ty) ∈ regTyTable ∧ AddrField f a q ∧
        o = .readRegs ty false a q) ∨
    (str nm ∈ ["wc", "writeCoil"] ∧
      ∃ f v a b, args = [f, v] ∧ UNumeral f a.toNat ∧
        ((str v = "true" ∧ b = true) ∨ (str v = "false" ∧ b = false)) ∧ o = .writeCoil a b) ∨
    (str nm ∈ ["wr", "writeRegister"] ∧
      ∃ t f v a ty, args = [t, f, v] ∧ UNumeral f a.toNat ∧ wrTyOf t = some ty ∧
        WrValue ty a v o) ∨
    (str nm ∈ ["suid", "setUnitId", "sid"] ∧
      ∃ f u, args = [f] ∧ UNumeral f u.toNat ∧ o = .setUnitId u)

/-- the operations of the seven documented commands -/
def Modelled : Operation → Prop
  | .other _ => False
  | _ => True

/-- the unmodelled commands (sleep, repeat, date, scan, ping) yield `.other` only -/
theorem parseParts_other {nm : List Char} {args : List (List Char)} {o : Operation}
    (hc : cmdOf nm = some .sleep ∨ cmdOf nm = some .repeat ∨ cmdOf nm = some .date ∨
          cmdOf nm = some .scan ∨ cmdOf nm = some .ping)
    (h : parseParts (nm :: args) = .ok o) : ∃ n, o = .other n := by
  simp only [parseParts] at h
  split at h
  · cases h
  · rcases hc with hc | hc | hc | hc | hc <;> simp only [hc] at h
    · split at h
      · split at h
        · cases h
        · injection h with h; exact ⟨_, h.symm⟩
      · cases h
    · split at h
      · injection h with h; exact ⟨_, h.symm⟩
      · cases h
    · split at h
      · injection h with h; exact ⟨_, h.symm⟩
      · cases h
    · split at h
      · split at h
        · injection h with h; exact ⟨_, h.symm⟩
        · cases h
      · cases h
    · split at h
      · cases h
      · split at h
        · cases h
        · split at h
          · cases h
          · split at h
            · split at h
              · cases h
              · injection h with h; exact ⟨_, h.symm⟩
            · injection h with h; exact ⟨_, h.symm⟩

/-- **every accepted argument**: `parseParts` yields a modelled operation iff the parts are
    one of the seven documented command forms -/
theorem parseParts_iff (parts : List (List Char)) (o : Operation) (hm : Modelled o) :
    parseParts parts = .ok o ↔ Accepts parts o := by
  cases parts with
  | nil => simp [parseParts, Accepts]
  | cons nm args =>
    have hn := cmdOf_iff nm
    simp only [Accepts, ← hn.1, ← hn.2.1, ← hn.2.2.1, ← hn.2.2.2.1, ← hn.2.2.2.2.1,
      ← hn.2.2.2.2.2.1, ← hn.2.2.2.2.2.2, ← regTyOf_iff, ← parseAQ_iff', ← parseUint16E_iff,
      ← parseUnitIdE_iff]
    cases hc : cmdOf nm with
    | none =>
      simp only [reduceCtorEq, false_and, or_self, iff_false]
      intro hx
      obtain ⟨m, hm'⟩ := refuse_unknown_cmd (args := args) hc
      rw [hm'] at hx; cases hx
    | some c =>
      cases c
      case rc => rw [accept_rc (.inl hc)]; simp [hc]
      case rdi => rw [accept_rc (.inr hc)]; simp [hc]
      case rh => rw [accept_rh (.inl hc)]; simp [hc]
      case ri => rw [accept_rh (.inr hc)]; simp [hc]
      case wc => rw [accept_wc hc]; simp
      case wr => rw [accept_wr hc]; simp [wrValue_spec]
      case sid => rw [accept_sid hc]; simp
      case sleep =>
        simp only [Option.some.injEq, reduceCtorEq, false_and, or_self, iff_false]
        intro hx
        obtain ⟨n, rfl⟩ := parseParts_other (.inl hc) hx
        exact hm
      case «repeat» =>
        simp only [Option.some.injEq, reduceCtorEq, false_and, or_self, iff_false]
        intro hx
        obtain ⟨n, rfl⟩ := parseParts_other (.inr (.inl hc)) hx
        exact hm
      case date =>
        simp only [Option.some.injEq, reduceCtorEq, false_and, or_self, iff_false]
        intro hx
        obtain ⟨n, rfl⟩ := parseParts_other (.inr (.inr (.inl hc))) hx
        exact hm
      case scan =>
        simp only [Option.some.injEq, reduceCtorEq, false_and, or_self, iff_false]
        intro hx
        obtain ⟨n, rfl⟩ := parseParts_other (.inr (.inr (.inr (.inl hc)))) hx
        exact hm
      case ping =>
        simp only [Option.some.injEq, reduceCtorEq, false_and, or_self, iff_false]
        intro hx
        obtain ⟨n, rfl⟩ := parseParts_other (.inr (.inr (.inr (.inr hc)))) hx
        exact hm



/-- an `.other` operation comes from one of the five unmodelled commands only -/
theorem parseParts_other_name {parts : List (List Char)} {n : String}
    (h : parseParts parts = .ok (.other n)) :
    ∃ nm args, parts = nm :: args ∧ str nm ∈ ["sleep", "repeat", "date", "scan", "ping"] := by
  cases parts with
  | nil => simp [parseParts] at h
  | cons nm args =>
    refine ⟨nm, args, rfl, ?_⟩
    have hlk : ∀ c, cmdOf nm = some c → (str nm, c) ∈ cmdTable := by
      intro c hc
      unfold cmdOf at hc
      exact (lookup_some_iff _ _ _ cmdTable_nodup).mp hc
    cases hc : cmdOf nm with
    | none =>
      obtain ⟨m, hm⟩ := refuse_unknown_cmd (args := args) hc
      rw [hm] at h; cases h
    | some c =>
      have hmem := hlk c hc
      cases c
      case rc => obtain ⟨_, _, _, _, _, e⟩ := (accept_rc (.inl hc)).mp h; cases e
      case rdi => obtain ⟨_, _, _, _, _, e⟩ := (accept_rc (.inr hc)).mp h; cases e
      case rh => obtain ⟨_, _, _, _, _, _, _, _, e⟩ := (accept_rh (.inl hc)).mp h; cases e
      case ri => obtain ⟨_, _, _, _, _, _, _, _, e⟩ := (accept_rh (.inr hc)).mp h; cases e
      case wc => obtain ⟨_, _, _, _, _, _, _, e⟩ := (accept_wc hc).mp h; cases e
      case wr =>
        obtain ⟨t, f, v, a, ty, _, _, _, e⟩ := (accept_wr hc).mp h
        rw [wrValue_spec] at e
        cases ty with
        | string => cases e
        | reg r => cases r <;> simp only [WrValue] at e <;> obtain ⟨_, _, e⟩ := e <;> cases e
      case sid => obtain ⟨_, _, _, _, e⟩ := (accept_sid hc).mp h; cases e
      all_goals (simp [cmdTable] at hmem; simp [hmem])

/-- **malformed arguments are refused**: an argument that is none of the seven documented command
    forms (`Accepts`) and whose name is not one of the five remaining commands is refused -/
theorem malformed_refused (parts : List (List Char))
    (h : ∀ o, ¬ Accepts parts o)
    (hn : ∀ nm args, parts = nm :: args → str nm ∉ ["sleep", "repeat", "date", "scan", "ping"]) :
    Refused (parseParts parts) := by
  cases hx : parseParts parts with
  | error e => exact ⟨e, rfl⟩
  | ok o =>
    exfalso
    by_cases hm : Modelled o
    · exact h o ((parseParts_iff parts o hm).mp hx)
    · cases o <;> first | exact hm trivial | skip
      obtain ⟨nm, args, e, hmem⟩ := parseParts_other_name hx
      exact hn nm args e hmem


end Modbus.CliExt
