import ModbusVerif.Model.Crc
/-
  Helper lemmas for property C06 (CRC-16/MODBUS).

  Contents
  * the lookup table equals eight bit-steps (`table_eq_step8`, kernel evaluation);
  * GF(2)-linearity of the bit step (`step1_lin`) and "low byte zero ⇒ eight plain shifts";
  * table-driven byte step = bit-serial reference byte step (`step_eq_refStep`);
  * `hi`/`lo`/`mk16` round trips, `isEqual_iff`;
  * the receiver's whole-frame check `crcOk` and its residue form (`crcOk_iff_residue`);
  * bit-serial feeding `feed`, frames as bit strings `bitsOf`, error patterns `applyErr`;
  * affinity of `feed`, the backward-induction burst lemma (`feed_zero_eq_zero`),
    and the bounded order check used for double-bit errors (`noHit`).
  Core Lean only; no axioms beyond propext / Classical.choice / Quot.sound.
-/
namespace Modbus.Crc
open Modbus

/-! ### the table -/

set_option maxRecDepth 100000 in
theorem table_eq_step8 : ∀ i : Fin 256, table[i.val]! = step8 (BitVec.ofNat 16 i.val) := by
  decide +kernel

/-! ### linearity of the LFSR step over xor -/

theorem xor_shuffle (a b c : BitVec 16) : a ^^^ c ^^^ (b ^^^ c) = a ^^^ b := by
  calc a ^^^ c ^^^ (b ^^^ c) = a ^^^ b ^^^ (c ^^^ c) := by ac_rfl
    _ = a ^^^ b := by simp

theorem step1_lin (x y : BitVec 16) : step1 (x ^^^ y) = step1 x ^^^ step1 y := by
  unfold step1
  have h : (x ^^^ y).getLsbD 0 = ((x.getLsbD 0) ^^ (y.getLsbD 0)) := by simp
  rw [h]
  cases hx : x.getLsbD 0 <;> cases hy : y.getLsbD 0 <;> simp [BitVec.ushiftRight_xor_distrib]
  · ac_rfl
  · ac_rfl
  · exact (xor_shuffle _ _ _).symm

theorem step1_zero : step1 0 = 0 := by decide

theorem step8_lin (x y : BitVec 16) : step8 (x ^^^ y) = step8 x ^^^ step8 y := by
  simp only [step8, step1_lin]

theorem step1_of_lsb_false (x : BitVec 16) (h : x.getLsbD 0 = false) : step1 x = x >>> 1 := by
  unfold step1; rw [h]; rfl

/-- low byte zero ⇒ eight plain shifts -/
theorem step8_of_lo_zero (x : BitVec 16) (h : ∀ i, i < 8 → x.getLsbD i = false) :
    step8 x = x >>> 8 := by
  have e : ∀ (y : BitVec 16) (k : Nat), k < 8 → y = x >>> k → step1 y = x >>> (k+1) := by
    intro y k hk hy
    subst hy
    rw [step1_of_lsb_false _ (by simpa using h k hk), ← BitVec.shiftRight_add]
  unfold step8
  rw [e x 0 (by omega) (by simp), e _ 1 (by omega) rfl, e _ 2 (by omega) rfl, e _ 3 (by omega) rfl,
    e _ 4 (by omega) rfl, e _ 5 (by omega) rfl, e _ 6 (by omega) rfl, e _ 7 (by omega) rfl]

/-! ### table-driven byte step = reference byte step -/

theorem table_lookup (k : Byte) : table[k.toNat]! = step8 (k.setWidth 16) := by
  have := table_eq_step8 k.toFin
  have e : BitVec.ofNat 16 k.toFin.val = k.setWidth 16 := by
    apply BitVec.eq_of_toNat_eq
    simp
  rw [e] at this
  exact this

theorem mask_getLsbD (i : Nat) :
    (0xFF00#16).getLsbD i = (decide (8 ≤ i) && decide (i < 16)) := by
  by_cases h : i < 16
  · have : ∀ j : Fin 16,
        (0xFF00#16).getLsbD j.val = (decide (8 ≤ j.val) && decide (j.val < 16)) := by decide
    exact this ⟨i, h⟩
  · rw [BitVec.getLsbD_of_ge _ _ (by omega)]; simp; omega

theorem step_eq_refStep (s : U16) (b : Byte) : step s b = refStep s b := by
  unfold step refStep
  rw [table_lookup]
  have hsplit : s ^^^ b.setWidth 16 = (s &&& 0xFF00#16) ^^^ (b ^^^ lo s).setWidth 16 := by
    apply BitVec.eq_of_getLsbD_eq
    intro i hi
    simp only [BitVec.getLsbD_xor, BitVec.getLsbD_and, lo, BitVec.getLsbD_setWidth,
      BitVec.getLsbD_extractLsb', mask_getLsbD, Nat.zero_add]
    by_cases h8 : i < 8
    · have : ¬ 8 ≤ i := by omega
      simp only [h8, hi, this, decide_true, decide_false, Bool.true_and, Bool.and_false,
        Bool.false_and, Bool.false_xor]
      cases s.getLsbD i <;> cases b.getLsbD i <;> rfl
    · have : 8 ≤ i := by omega
      simp only [h8, hi, this, decide_true, decide_false, Bool.true_and, Bool.and_true,
        Bool.false_and, Bool.xor_false]
  rw [hsplit, step8_lin, step8_of_lo_zero (s &&& 0xFF00#16)]
  · congr 1
    apply BitVec.eq_of_getLsbD_eq
    intro i hi
    simp only [BitVec.getLsbD_and, BitVec.getLsbD_ushiftRight, mask_getLsbD]
    have h1 : 8 ≤ 8 + i := by omega
    have h2 : 8 + i < 16 ↔ i < 8 := by omega
    by_cases h8 : i < 8
    · simp [h1, h2, h8]
    · rw [BitVec.getLsbD_of_ge _ _ (by omega)]; simp
  · intro i hi
    simp only [BitVec.getLsbD_and, mask_getLsbD]
    have : ¬ 8 ≤ i := by omega
    simp [this]

theorem add_eq_refAdd (s : U16) (bs : Bytes) : add s bs = refAdd s bs := by
  induction bs generalizing s with
  | nil => rfl
  | cons b bs ih =>
    show add (step s b) bs = refAdd (refStep s b) bs
    rw [step_eq_refStep, ih]

theorem add_append (s : U16) (xs ys : Bytes) : add (add s xs) ys = add s (xs ++ ys) := by
  simp [add, List.foldl_append]

/-! ### hi / lo / mk16 -/

theorem lo_mk16 (h l : Byte) : lo (mk16 h l) = l := by
  apply BitVec.eq_of_getLsbD_eq
  intro i hi
  simp only [lo, mk16, BitVec.getLsbD_extractLsb', BitVec.getLsbD_append, Nat.zero_add]
  simp [hi]

theorem hi_mk16 (h l : Byte) : hi (mk16 h l) = h := by
  apply BitVec.eq_of_getLsbD_eq
  intro i hi
  simp only [Modbus.hi, mk16, BitVec.getLsbD_extractLsb', BitVec.getLsbD_append]
  have : ¬ (8 + i < 8) := by omega
  simp [hi, this]

theorem mk16_hi_lo (s : U16) : mk16 (hi s) (lo s) = s := by
  apply BitVec.eq_of_getLsbD_eq
  intro i hi
  simp only [Modbus.hi, lo, mk16, BitVec.getLsbD_extractLsb', BitVec.getLsbD_append, Nat.zero_add]
  by_cases h8 : i < 8
  · simp [h8]
  · have : i - 8 < 8 := by omega
    have e : 8 + (i - 8) = i := by omega
    simp [h8, this, e]

theorem isEqual_iff (s : U16) (l h : Byte) :
    isEqual s l h = true ↔ (l = lo s ∧ h = hi s) := by
  unfold isEqual
  rw [beq_iff_eq]
  constructor
  · intro e; subst e; exact ⟨(lo_mk16 h l).symm, (hi_mk16 h l).symm⟩
  · rintro ⟨rfl, rfl⟩; exact mk16_hi_lo s

/-! ### the receiver's check on a whole frame -/

/-- the receiver's CRC check on a whole frame `f = body ++ [l, h]`: at least two bytes, and the
    checksum of everything but the last two bytes `isEqual` to the last two (low byte first) -/
def crcOk (f : Bytes) : Bool :=
  decide (f.length ≥ 2) &&
    isEqual (add init (f.take (f.length - 2))) (f.getD (f.length - 2) 0) (f.getD (f.length - 1) 0)

theorem crcOk_append_pair (body : Bytes) (l h : Byte) :
    crcOk (body ++ [l, h]) = isEqual (add init body) l h := by
  unfold crcOk
  have h1 : (body ++ [l, h]).length - 2 = body.length := by simp
  have h2 : (body ++ [l, h]).length - 1 = body.length + 1 := by simp
  rw [h1, h2]
  simp [List.getD_eq_getElem?_getD]

theorem exists_body (f : Bytes) (h : 2 ≤ f.length) : ∃ body l hh, f = body ++ [l, hh] := by
  have hd : (f.drop (f.length - 2)).length = 2 := by simp; omega
  match hq : f.drop (f.length - 2), hd with
  | [l, hh], _ =>
    refine ⟨f.take (f.length - 2), l, hh, ?_⟩
    rw [← hq, List.take_append_drop]

/-! ### bit-serial feeding; frames as bit strings -/

def bit16 (b : Bool) : U16 := if b then 1 else 0

/-- one bit time with input bit `b` (bits enter at the LSB end, reflected CRC) -/
def feedBit (s : U16) (b : Bool) : U16 := step1 (s ^^^ bit16 b)

def feed (s : U16) (bits : List Bool) : U16 := bits.foldl feedBit s

/-- bits of a byte, LSB first -/
def bitsOfByte (b : Byte) : List Bool :=
  [b.getLsbD 0, b.getLsbD 1, b.getLsbD 2, b.getLsbD 3,
   b.getLsbD 4, b.getLsbD 5, b.getLsbD 6, b.getLsbD 7]

/-- bit position `p` of a frame is bit `p % 8` (LSB = 0) of byte `p / 8` -/
def bitsOf : Bytes → List Bool
  | [] => []
  | b :: bs => bitsOfByte b ++ bitsOf bs

def xorBits (x y : List Bool) : List Bool := List.zipWith (· ^^ ·) x y

def zeros (n : Nat) : List Bool := List.replicate n false

/-- byte from ≤ 8 bits, LSB first -/
def byteOfBits (l : List Bool) : Byte :=
  l.foldr (fun b acc => (acc <<< 1) ||| (if b then 1#8 else 0#8)) 0#8

/-- flip the bits of frame `f` where `e` is true (`e` has length `8 * f.length`) -/
def applyErr : Bytes → List Bool → Bytes
  | [], _ => []
  | b :: f, e => (b ^^^ byteOfBits (e.take 8)) :: applyErr f (e.drop 8)

@[simp] theorem feed_nil (s : U16) : feed s [] = s := rfl
@[simp] theorem feed_cons (s : U16) (b : Bool) (bs : List Bool) :
    feed s (b :: bs) = feed (feedBit s b) bs := rfl
theorem feed_append (s : U16) (x y : List Bool) : feed s (x ++ y) = feed (feed s x) y := by
  simp [feed, List.foldl_append]

theorem bit16_xor (a b : Bool) : bit16 (a ^^ b) = bit16 a ^^^ bit16 b := by
  cases a <;> cases b <;> decide

theorem feedBit_lin (s t : U16) (a b : Bool) :
    feedBit (s ^^^ t) (a ^^ b) = feedBit s a ^^^ feedBit t b := by
  unfold feedBit
  rw [← step1_lin, bit16_xor]
  congr 1
  ac_rfl

theorem feed_lin : ∀ (x y : List Bool) (s t : U16), x.length = y.length →
    feed (s ^^^ t) (xorBits x y) = feed s x ^^^ feed t y
  | [], [], s, t, _ => rfl
  | a :: x, b :: y, s, t, h => by
      have h' : x.length = y.length := by simpa using h
      simp only [xorBits, List.zipWith_cons_cons, feed_cons, feedBit_lin]
      exact feed_lin x y _ _ h'
  | [], _ :: _, _, _, h => by simp at h
  | _ :: _, [], _, _, h => by simp at h

theorem feedBit_zero_false : feedBit 0 false = 0 := by decide

theorem feedBit_false (s : U16) : feedBit s false = step1 s := by
  simp [feedBit, bit16]

theorem feed_zero_zeros (n : Nat) : feed 0 (zeros n) = 0 := by
  induction n with
  | zero => rfl
  | succ n ih =>
    rw [zeros, List.replicate_succ, feed_cons, feedBit_zero_false]; exact ih

/-- affinity: flipping input bits by `e` changes the register by `feed 0 e` -/
theorem feed_affine (s : U16) (x e : List Bool) (h : x.length = e.length) :
    feed s (xorBits x e) = feed s x ^^^ feed 0 e := by
  have := feed_lin x e s 0 h
  simpa using this

theorem feed_zeros8 (s : U16) : feed s (zeros 8) = step8 s := by
  simp [zeros, List.replicate, feedBit, bit16, step8]

theorem step8_byte : ∀ i : Fin 256,
    step8 ((BitVec.ofFin i : Byte).setWidth 16) = feed 0 (bitsOfByte (BitVec.ofFin i)) := by
  decide +kernel

theorem bitsOfByte_length (b : Byte) : (bitsOfByte b).length = 8 := rfl

theorem xorBits_zeros_left (x : List Bool) : xorBits (zeros x.length) x = x := by
  induction x with
  | nil => rfl
  | cons a x ih =>
    simp only [List.length_cons, zeros, List.replicate_succ, xorBits, List.zipWith_cons_cons,
      Bool.false_xor]
    congr 1

theorem refStep_eq_feed (s : U16) (b : Byte) : refStep s b = feed s (bitsOfByte b) := by
  unfold refStep
  rw [step8_lin]
  have h := feed_affine s (zeros 8) (bitsOfByte b) rfl
  have hx : xorBits (zeros 8) (bitsOfByte b) = bitsOfByte b := xorBits_zeros_left (bitsOfByte b)
  rw [hx, feed_zeros8] at h
  rw [h]
  congr 1
  exact step8_byte b.toFin

/-- the table-driven checksum of a byte string = the bit-serial LFSR run over its bits -/
theorem add_eq_feed (s : U16) (bs : Bytes) : add s bs = feed s (bitsOf bs) := by
  induction bs generalizing s with
  | nil => rfl
  | cons b bs ih =>
    show add (step s b) bs = _
    rw [ih, bitsOf, feed_append, step_eq_refStep, refStep_eq_feed]

theorem bitsOf_length (f : Bytes) : (bitsOf f).length = 8 * f.length := by
  induction f with
  | nil => rfl
  | cons b f ih => simp [bitsOf, bitsOfByte_length, ih]; omega

theorem bitsOf_append (f g : Bytes) : bitsOf (f ++ g) = bitsOf f ++ bitsOf g := by
  induction f with
  | nil => rfl
  | cons b f ih => simp [bitsOf, ih]

/-! ### backward induction: a short input that drives 0 to 0 is all zeros -/

theorem lsb_mod (x : BitVec 16) : x.getLsbD 0 = decide (x.toNat % 2 = 1) := by
  simp [BitVec.getLsbD, Nat.testBit]; rfl

theorem step1_small (x : BitVec 16) (h : (step1 x).toNat < 2^15) :
    x.toNat = 2 * (step1 x).toNat := by
  unfold step1 at *
  by_cases hx : x.getLsbD 0 = true
  · exfalso
    rw [if_pos hx] at h
    have hm : ((x >>> 1) ^^^ 0xA001#16).msb = true := by simp [BitVec.msb_eq_getLsbD_last]
    have := (BitVec.msb_eq_true_iff_two_mul_ge).mp hm
    omega
  · rw [if_neg hx] at h ⊢
    rw [lsb_mod] at hx; simp at hx
    simp [BitVec.toNat_ushiftRight, Nat.shiftRight_eq_div_pow]; omega

theorem step1_eq_zero (x : U16) (h : step1 x = 0) : x = 0 := by
  apply BitVec.eq_of_toNat_eq
  have := step1_small x (by rw [h]; decide)
  rw [h] at this
  simpa using this

theorem step1_inj (x y : U16) (h : step1 x = step1 y) : x = y := by
  have : step1 (x ^^^ y) = 0 := by rw [step1_lin, h]; simp
  exact BitVec.xor_eq_zero_iff.mp (step1_eq_zero _ this)

theorem feed_zeros_eq_zero (n : Nat) (s : U16) (h : feed s (zeros n) = 0) : s = 0 := by
  induction n generalizing s with
  | zero => exact h
  | succ n ih =>
    rw [zeros, List.replicate_succ, feed_cons] at h
    have := ih _ h
    rw [feedBit_false] at this
    exact step1_eq_zero _ this

theorem bit16_toNat_lt (b : Bool) : (bit16 b).toNat < 2 := by cases b <;> decide

/-- size bound, going backwards from a small final state -/
theorem feed_bound : ∀ (w : List Bool) (s : U16) (j : Nat), j + w.length ≤ 16 →
    (feed s w).toNat < 2 ^ j → s.toNat < 2 ^ (j + w.length)
  | [], s, j, _, h => by simpa using h
  | b :: w, s, j, hl, h => by
    simp only [List.length_cons] at hl ⊢
    rw [feed_cons] at h
    have ih := feed_bound w (feedBit s b) j (by omega) h
    have hp : 2 ^ (j + w.length) ≤ 2 ^ 15 := Nat.pow_le_pow_right (by omega) (by omega)
    have hs := step1_small (s ^^^ bit16 b) (by unfold feedBit at ih; omega)
    have hx : (s ^^^ bit16 b).toNat < 2 ^ (j + (w.length + 1)) := by
      unfold feedBit at ih
      rw [hs, ← Nat.add_assoc, Nat.pow_succ]; omega
    have hb : (bit16 b).toNat < 2 ^ (j + (w.length + 1)) := by
      have := bit16_toNat_lt b
      have : 2 ^ 1 ≤ 2 ^ (j + (w.length + 1)) := Nat.pow_le_pow_right (by omega) (by omega)
      omega
    have e : s = (s ^^^ bit16 b) ^^^ bit16 b := by
      rw [BitVec.xor_assoc]; simp
    rw [e, BitVec.toNat_xor]
    exact Nat.xor_lt_two_pow hx hb

/-- feeding at most 16 bits into the all-zero register ends in 0 only if all bits are 0 -/
theorem feed_zero_eq_zero : ∀ (w : List Bool), w.length ≤ 16 → feed 0 w = 0 → ∀ b ∈ w, b = false
  | [], _, _ => by simp
  | b :: w, hl, h => by
    simp only [List.length_cons] at hl
    rw [feed_cons] at h
    have hb := feed_bound w (feedBit 0 b) 0 (by omega) (by rw [h]; decide)
    have hp : 2 ^ (0 + w.length) ≤ 2 ^ 15 := Nat.pow_le_pow_right (by omega) (by omega)
    have hs := step1_small (0 ^^^ bit16 b) (by unfold feedBit at hb; omega)
    have hbf : b = false := by
      cases b
      · rfl
      · exfalso
        have : ((0 : U16) ^^^ bit16 true).toNat = 1 := by decide
        omega
    subst hbf
    rw [feedBit_zero_false] at h
    have ih := feed_zero_eq_zero w (by omega) h
    intro c hc
    rcases List.mem_cons.mp hc with rfl | hc
    · rfl
    · exact ih c hc

/-- burst pattern: at most 16 bits wide, not all zero ⇒ nonzero syndrome -/
theorem feed_burst_ne_zero (a b : Nat) (w : List Bool) (hw : w.length ≤ 16) (ht : true ∈ w) :
    feed 0 (zeros a ++ w ++ zeros b) ≠ 0 := by
  intro h
  rw [feed_append, feed_append, feed_zero_zeros] at h
  have h0 := feed_zeros_eq_zero _ _ h
  have := feed_zero_eq_zero w hw h0 true ht
  exact Bool.noConfusion this

/-! ### bounded order check for double-bit errors -/

/-- `step1^[k] s ≠ t` for all `k ≤ n` -/
def noHit (t : U16) : Nat → U16 → Bool
  | 0, s => s != t
  | n+1, s => s != t && noHit t n (step1 s)

theorem noHit_spec (t : U16) : ∀ (n : Nat) (s : U16), noHit t n s = true →
    ∀ d, d ≤ n → feed s (zeros d) ≠ t
  | 0, s, h, d, hd => by
    have : d = 0 := by omega
    subst this
    show s ≠ t
    simpa [noHit] using h
  | n+1, s, h, d, hd => by
    simp only [noHit, Bool.and_eq_true] at h
    cases d with
    | zero =>
      show s ≠ t
      simpa using h.1
    | succ d =>
      rw [zeros, List.replicate_succ, feed_cons, feedBit_false]
      exact noHit_spec t n (step1 s) h.2 d (by omega)

set_option maxRecDepth 100000 in
theorem noHit_2046 : noHit 1#16 2046 0xA001#16 = true := by decide +kernel

theorem feed_double_ne_zero (a d b : Nat) (hd : d ≤ 2046) :
    feed 0 (zeros a ++ [true] ++ zeros d ++ [true] ++ zeros b) ≠ 0 := by
  intro h
  rw [feed_append, feed_append, feed_append, feed_append, feed_zero_zeros] at h
  have h0 := feed_zeros_eq_zero _ _ h
  have hc : feed 0 [true] = 0xA001#16 := by decide
  rw [hc] at h0
  simp only [feed_cons, feed_nil] at h0
  unfold feedBit at h0
  have h1 := BitVec.xor_eq_zero_iff.mp (step1_eq_zero _ h0)
  exact noHit_spec _ _ _ noHit_2046 d hd h1

/-! ### residue form of the receiver's check -/

theorem table_zero : table[0]! = 0#16 := by decide +kernel

theorem xorBits_append {x y x' y' : List Bool} (h : x.length = y.length) :
    xorBits (x ++ x') (y ++ y') = xorBits x y ++ xorBits x' y' := by
  unfold xorBits; exact List.zipWith_append h

theorem add_own_crc (s : U16) : add s [lo s, hi s] = 0 := by
  show step (step s (lo s)) (hi s) = 0
  have h1 : step s (lo s) = s >>> 8 := by
    unfold step; simp [table_zero]
  rw [h1]
  unfold step
  have h2 : lo (s >>> 8) = hi s := by
    apply BitVec.eq_of_getLsbD_eq
    intro i hi
    simp only [lo, Modbus.hi, BitVec.getLsbD_extractLsb', BitVec.getLsbD_ushiftRight, Nat.zero_add]
  rw [h2]
  have h3 : s >>> 8 >>> 8 = 0 := by
    rw [← BitVec.shiftRight_add]
    apply BitVec.eq_of_getLsbD_eq
    intro i hi
    rw [BitVec.getLsbD_ushiftRight, BitVec.getLsbD_of_ge _ _ (by omega)]; simp
  rw [h3]
  simp [table_zero]

theorem bitsOfByte_xor (a b : Byte) :
    bitsOfByte (a ^^^ b) = xorBits (bitsOfByte a) (bitsOfByte b) := by
  simp [bitsOfByte, xorBits]

theorem bitsOfByte_eq_zero (a : Byte) (h : ∀ b ∈ bitsOfByte a, b = false) : a = 0 := by
  apply BitVec.eq_of_getLsbD_eq
  intro i hi
  simp only [bitsOfByte, List.mem_cons, List.not_mem_nil, or_false] at h
  have : i = 0 ∨ i = 1 ∨ i = 2 ∨ i = 3 ∨ i = 4 ∨ i = 5 ∨ i = 6 ∨ i = 7 := by omega
  rcases this with rfl | rfl | rfl | rfl | rfl | rfl | rfl | rfl <;> simp [h]

theorem add_pair_eq_zero_iff (s : U16) (l h : Byte) :
    add s [l, h] = 0 ↔ (l = lo s ∧ h = hi s) := by
  constructor
  · intro h0
    have hx : bitsOf [l, h] = xorBits (bitsOf [lo s, hi s]) (bitsOf [l ^^^ lo s, h ^^^ hi s]) := by
      have e1 : l = lo s ^^^ (l ^^^ lo s) := by rw [← BitVec.xor_assoc, BitVec.xor_comm (lo s) l, BitVec.xor_assoc]; simp
      have e2 : h = hi s ^^^ (h ^^^ hi s) := by rw [← BitVec.xor_assoc, BitVec.xor_comm (hi s) h, BitVec.xor_assoc]; simp
      conv => lhs; rw [e1, e2]
      simp only [bitsOf, bitsOfByte_xor, List.append_nil]
      exact (xorBits_append (by rfl)).symm
    rw [add_eq_feed, hx, feed_affine _ _ _ (by rfl), ← add_eq_feed, add_own_crc] at h0
    have h1 : feed 0 (bitsOf [l ^^^ lo s, h ^^^ hi s]) = 0 := by simpa using h0
    have hall := feed_zero_eq_zero _ (by simp [bitsOf_length]) h1
    simp only [bitsOf, List.append_nil, List.mem_append] at hall
    have hl := bitsOfByte_eq_zero _ (fun b hb => hall b (Or.inl hb))
    have hh := bitsOfByte_eq_zero _ (fun b hb => hall b (Or.inr hb))
    exact ⟨BitVec.xor_eq_zero_iff.mp hl, BitVec.xor_eq_zero_iff.mp hh⟩
  · rintro ⟨rfl, rfl⟩; exact add_own_crc s

/-- residue form: a frame passes the receiver's check iff running the checksum over the
    whole frame (CRC bytes included) leaves the register at 0 -/
theorem crcOk_iff_residue (f : Bytes) : crcOk f = true ↔ (2 ≤ f.length ∧ add init f = 0) := by
  constructor
  · intro h
    have hl : 2 ≤ f.length := by
      unfold crcOk at h
      simp only [Bool.and_eq_true, decide_eq_true_eq] at h
      exact h.1
    refine ⟨hl, ?_⟩
    obtain ⟨body, l, hh, rfl⟩ := exists_body f hl
    rw [crcOk_append_pair, isEqual_iff] at h
    rw [← add_append]
    exact (add_pair_eq_zero_iff _ _ _).mpr h
  · rintro ⟨hl, h⟩
    obtain ⟨body, l, hh, rfl⟩ := exists_body f hl
    rw [crcOk_append_pair, isEqual_iff]
    rw [← add_append] at h
    exact (add_pair_eq_zero_iff _ _ _).mp h

/-! ### error patterns -/

theorem bitsOfByte_byteOfBits : ∀ e0 e1 e2 e3 e4 e5 e6 e7 : Bool,
    bitsOfByte (byteOfBits [e0, e1, e2, e3, e4, e5, e6, e7]) = [e0, e1, e2, e3, e4, e5, e6, e7] := by
  decide +kernel

theorem applyErr_length : ∀ (f : Bytes) (e : List Bool), (applyErr f e).length = f.length
  | [], _ => rfl
  | b :: f, e => by simp [applyErr, applyErr_length f]

theorem list_length_eight (l : List Bool) (h : l.length = 8) :
    ∃ e0 e1 e2 e3 e4 e5 e6 e7, l = [e0, e1, e2, e3, e4, e5, e6, e7] := by
  match l, h with
  | [e0, e1, e2, e3, e4, e5, e6, e7], _ => exact ⟨e0, e1, e2, e3, e4, e5, e6, e7, rfl⟩

/-- `applyErr` flips exactly the frame bits selected by `e` -/
theorem bitsOf_applyErr : ∀ (f : Bytes) (e : List Bool), e.length = 8 * f.length →
    bitsOf (applyErr f e) = xorBits (bitsOf f) e
  | [], e, h => by
    have : e = [] := List.eq_nil_of_length_eq_zero (by simpa using h)
    subst this; rfl
  | b :: f, e, h => by
    simp only [List.length_cons] at h
    have ht : (e.take 8).length = 8 := by simp; omega
    have hd : (e.drop 8).length = 8 * f.length := by simp; omega
    obtain ⟨e0, e1, e2, e3, e4, e5, e6, e7, he⟩ := list_length_eight _ ht
    have ih := bitsOf_applyErr f (e.drop 8) hd
    simp only [applyErr, bitsOf, ih, bitsOfByte_xor, he, bitsOfByte_byteOfBits]
    conv => rhs; rw [← List.take_append_drop 8 e, he]
    exact (xorBits_append (by rfl)).symm

/-- the bit at position `p` of a frame is bit `p % 8` (LSB = 0) of byte `p / 8` -/
theorem bitsOf_getD : ∀ (f : Bytes) (p : Nat),
    (bitsOf f).getD p false = (f.getD (p / 8) 0).getLsbD (p % 8)
  | [], p => by simp [bitsOf]
  | b :: f, p => by
    unfold bitsOf
    by_cases hp : p < 8
    · rw [List.getD_eq_getElem?_getD, List.getElem?_append_left (by rw [bitsOfByte_length]; exact hp),
        ← List.getD_eq_getElem?_getD]
      have h0 : p / 8 = 0 := by omega
      have h1 : p % 8 = p := by omega
      rw [h0, h1]
      have : p = 0 ∨ p = 1 ∨ p = 2 ∨ p = 3 ∨ p = 4 ∨ p = 5 ∨ p = 6 ∨ p = 7 := by omega
      rcases this with rfl | rfl | rfl | rfl | rfl | rfl | rfl | rfl <;> rfl
    · rw [List.getD_eq_getElem?_getD, List.getElem?_append_right (by rw [bitsOfByte_length]; omega),
        ← List.getD_eq_getElem?_getD, bitsOfByte_length, bitsOf_getD f (p - 8)]
      have h0 : p / 8 = (p - 8) / 8 + 1 := by omega
      have h1 : (p - 8) % 8 = p % 8 := by omega
      rw [h0, h1]
      rfl

/-- any error pattern with nonzero syndrome turns an accepted frame into a rejected one -/
theorem crcOk_applyErr_false (f : Bytes) (e : List Bool) (hok : crcOk f = true)
    (hlen : e.length = 8 * f.length) (hne : feed 0 e ≠ 0) : crcOk (applyErr f e) = false := by
  cases hc : crcOk (applyErr f e) with
  | false => rfl
  | true =>
    exfalso
    have h1 := ((crcOk_iff_residue _).mp hc).2
    have h0 := ((crcOk_iff_residue _).mp hok).2
    rw [add_eq_feed] at h0 h1
    rw [bitsOf_applyErr f e hlen, feed_affine _ _ _ (by rw [bitsOf_length, hlen]), h0] at h1
    exact hne (by simpa using h1)

end Modbus.Crc
