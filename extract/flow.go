package main

// flow.go: a purely syntactic, structured rendering of every ModbusClient / ModbusServer method
// for the lock analysis that is done (and proved sound) in Lean (Model/LockFlow.lean).
//
//   skip | act kind name | seq a b | alt a b | loop body | block body | ret | brk | cont
//   | deferRel | stuck why
//
// Nothing is decided here: no "held" flag is computed. Control structure is kept (if/else and
// switch/select become `alt`, for/range become `block (loop …)`, `break`/`continue` become
// `brk`/`cont`, caught by the innermost `block` / `loop`; a switch is wrapped in `block`), so that
// the analysis follows every path. Anything this translator does not understand, or that could
// touch the receiver outside the method's own control flow (closures over the receiver, labelled
// jumps, fallthrough, deferred calls other than `recv.lock.Unlock()` that mention the receiver),
// becomes `stuck`, which the analysis rejects.
//
// Aliases: a local variable of reference type (pointer, interface, slice, map, chan, func)
// initialised or assigned from `recv.f` is an alias of `recv.f`: every later mention is a read of
// `f`, and a method call through an alias of `transport` is i/o on the shared transport
// ("transport!"), exactly as `recv.transport.M(…)`. A copy of the receiver itself (`x := recv`)
// is `stuck`.

import (
	"fmt"
	"go/ast"
	"go/token"
	"go/types"
	"strings"
)

type flow struct {
	op   string // skip act seq alt loop block ret brk cont deferRel stuck
	kind string // act: acq rel rd wr call go
	name string // act: field / method; stuck: why
	a, b *flow
}

func fSkip() *flow { return &flow{op: "skip"} }
func fAct(kind, name string) *flow {
	return &flow{op: "act", kind: kind, name: name}
}
func fStuck(why string) *flow { return &flow{op: "stuck", name: why} }
func fSeq(l ...*flow) *flow {
	var out *flow
	for i := len(l) - 1; i >= 0; i-- {
		if l[i] == nil || l[i].op == "skip" {
			continue
		}
		if out == nil {
			out = l[i]
		} else {
			out = &flow{op: "seq", a: l[i], b: out}
		}
	}
	if out == nil {
		return fSkip()
	}
	return out
}
func fAlt(l ...*flow) *flow {
	if len(l) == 0 {
		return fSkip()
	}
	out := l[len(l)-1]
	for i := len(l) - 2; i >= 0; i-- {
		out = &flow{op: "alt", a: l[i], b: out}
	}
	return out
}

func (f *flow) lean() string {
	switch f.op {
	case "skip", "ret", "brk", "cont", "deferRel":
		return "." + f.op
	case "act":
		return fmt.Sprintf("(.act .%s %s)", f.kind, leanStr(f.name))
	case "stuck":
		return fmt.Sprintf("(.stuck %s)", leanStr(f.name))
	case "seq", "alt":
		return fmt.Sprintf("(.%s %s %s)", f.op, f.a.lean(), f.b.lean())
	case "loop", "block":
		return fmt.Sprintf("(.%s %s)", f.op, f.a.lean())
	}
	return "(.stuck \"translator\")"
}

func isRefType(t types.Type) bool {
	if t == nil {
		return false
	}
	switch t.Underlying().(type) {
	case *types.Pointer, *types.Interface, *types.Slice, *types.Map, *types.Chan, *types.Signature:
		return true
	}
	return false
}

func collectFlow(fn string, fd *ast.FuncDecl, out map[string]*flow) {
	if fd.Recv == nil || len(fd.Recv.List) == 0 || len(fd.Recv.List[0].Names) == 0 {
		return
	}
	if !(strings.HasPrefix(fn, "ModbusClient.") || strings.HasPrefix(fn, "ModbusServer.")) {
		return
	}
	recvIdent := fd.Recv.List[0].Names[0]
	recvObj := info.Defs[recvIdent]
	isRecv := func(e ast.Expr) bool {
		id, ok := e.(*ast.Ident)
		return ok && recvObj != nil && info.Uses[id] == recvObj
	}
	recvSel := func(e ast.Expr) (string, bool) {
		se, ok := e.(*ast.SelectorExpr)
		if !ok || !isRecv(se.X) {
			return "", false
		}
		return se.Sel.Name, true
	}
	alias := map[types.Object]string{} // local variable -> receiver field it aliases
	mentionsRecv := func(n ast.Node) bool {
		found := false
		ast.Inspect(n, func(x ast.Node) bool {
			if id, ok := x.(*ast.Ident); ok {
				if o := info.Uses[id]; o != nil && (o == recvObj || alias[o] != "") {
					found = true
				}
			}
			return !found
		})
		return found
	}
	lockCall := func(c *ast.CallExpr) string { // "Lock" / "Unlock" on recv.lock, else ""
		se, ok := c.Fun.(*ast.SelectorExpr)
		if !ok {
			return ""
		}
		if f, ok := recvSel(se.X); ok && f == "lock" {
			return se.Sel.Name
		}
		return ""
	}

	var expr func(e ast.Expr, write bool) *flow
	exprs := func(l []ast.Expr) *flow {
		var fs []*flow
		for _, e := range l {
			fs = append(fs, expr(e, false))
		}
		return fSeq(fs...)
	}
	expr = func(e ast.Expr, write bool) *flow {
		switch x := e.(type) {
		case nil:
			return fSkip()
		case *ast.Ident:
			if o := info.Uses[x]; o != nil {
				if o == recvObj {
					// the receiver itself used as a value (passed on, copied, compared)
					return fStuck("receiver used as a value")
				}
				if f := alias[o]; f != "" {
					return fAct("rd", f)
				}
			}
			return fSkip()
		case *ast.BasicLit:
			return fSkip()
		case *ast.ParenExpr:
			return expr(x.X, write)
		case *ast.SelectorExpr:
			if f, ok := recvSel(x); ok {
				if sel, ok := info.Selections[x]; ok && sel.Kind() == types.MethodVal {
					return fStuck("method value " + f) // recv.m without a call: may run anywhere
				}
				if write {
					return fAct("wr", f)
				}
				return fAct("rd", f)
			}
			return expr(x.X, write)
		case *ast.StarExpr:
			return expr(x.X, write)
		case *ast.UnaryExpr:
			return expr(x.X, write && x.Op == token.AND)
		case *ast.BinaryExpr:
			return fSeq(expr(x.X, false), expr(x.Y, false))
		case *ast.IndexExpr:
			return fSeq(expr(x.Index, false), expr(x.X, write))
		case *ast.SliceExpr:
			return fSeq(expr(x.Low, false), expr(x.High, false), expr(x.Max, false), expr(x.X, write))
		case *ast.TypeAssertExpr:
			return expr(x.X, false)
		case *ast.KeyValueExpr:
			return fSeq(expr(x.Key, false), expr(x.Value, false))
		case *ast.CompositeLit:
			var fs []*flow
			for _, el := range x.Elts {
				if kv, ok := el.(*ast.KeyValueExpr); ok {
					fs = append(fs, expr(kv.Value, false))
				} else {
					fs = append(fs, expr(el, false))
				}
			}
			return fSeq(fs...)
		case *ast.FuncLit:
			if mentionsRecv(x.Body) {
				return fStuck("closure over the receiver")
			}
			return fSkip()
		case *ast.CallExpr:
			if m := lockCall(x); m == "Lock" {
				return fAct("acq", "lock")
			} else if m == "Unlock" {
				return fAct("rel", "lock")
			} else if m != "" {
				return fStuck("lock." + m)
			}
			if id, ok := x.Fun.(*ast.Ident); ok && (id.Name == "panic") && info.Uses[id] != nil && info.Uses[id].Pkg() == nil {
				return fSeq(exprs(x.Args), &flow{op: "ret"})
			}
			if se, ok := x.Fun.(*ast.SelectorExpr); ok {
				// recv.transport.M(args) — i/o through the shared transport
				if f, ok := recvSel(se.X); ok && f == "transport" {
					return fSeq(exprs(x.Args), fAct("rd", "transport"), fAct("wr", "transport!"))
				}
				// alias.M(args) where alias aliases recv.f
				if id, ok := se.X.(*ast.Ident); ok {
					if f := alias[info.Uses[id]]; f != "" {
						if f == "transport" {
							return fSeq(exprs(x.Args), fAct("rd", "transport"), fAct("wr", "transport!"))
						}
						return fSeq(exprs(x.Args), fAct("rd", f))
					}
				}
				// recv.m(args)
				if m, ok := recvSel(se); ok {
					if sel, ok := info.Selections[se]; ok && sel.Kind() == types.MethodVal {
						return fSeq(exprs(x.Args), fAct("call", m))
					}
				}
				// recv.f.M(args), pkg.F(args), other.M(args)
				return fSeq(exprs(x.Args), expr(se.X, false))
			}
			return fSeq(exprs(x.Args), expr(x.Fun, false))
		}
		if mentionsRecv(e) {
			return fStuck(fmt.Sprintf("expression %T", e))
		}
		return fSkip()
	}

	// assignment `lhs = rhs` / `lhs := rhs`: alias bookkeeping
	noteAlias := func(lhs, rhs ast.Expr) *flow {
		id, ok := lhs.(*ast.Ident)
		if !ok {
			return nil
		}
		obj := info.Defs[id]
		if obj == nil {
			obj = info.Uses[id]
		}
		if obj == nil || obj == recvObj {
			return nil
		}
		src := rhs
		for {
			switch y := src.(type) {
			case *ast.ParenExpr:
				src = y.X
				continue
			case *ast.UnaryExpr:
				if y.Op == token.AND {
					src = y.X
					continue
				}
			}
			break
		}
		if isRecv(src) {
			return fStuck("copy of the receiver")
		}
		byAddr := false
		if u, ok := rhs.(*ast.UnaryExpr); ok && u.Op == token.AND {
			byAddr = true
		}
		if f, ok := recvSel(src); ok {
			if byAddr || isRefType(info.TypeOf(src)) {
				alias[obj] = f
			}
			return nil
		}
		if sid, ok := src.(*ast.Ident); ok {
			if f := alias[info.Uses[sid]]; f != "" {
				alias[obj] = f
				return nil
			}
		}
		delete(alias, obj)
		return nil
	}

	var stmt func(s ast.Stmt) *flow
	stmts := func(l []ast.Stmt) *flow {
		var fs []*flow
		for _, s := range l {
			fs = append(fs, stmt(s))
		}
		return fSeq(fs...)
	}
	stmt = func(s ast.Stmt) *flow {
		switch x := s.(type) {
		case nil:
			return fSkip()
		case *ast.EmptyStmt:
			return fSkip()
		case *ast.ExprStmt:
			return expr(x.X, false)
		case *ast.DeclStmt:
			var fs []*flow
			if gd, ok := x.Decl.(*ast.GenDecl); ok {
				for _, sp := range gd.Specs {
					if vs, ok := sp.(*ast.ValueSpec); ok {
						fs = append(fs, exprs(vs.Values))
						for i, n := range vs.Names {
							if i < len(vs.Values) {
								if st := noteAlias(n, vs.Values[i]); st != nil {
									fs = append(fs, st)
								}
							}
						}
					}
				}
			}
			return fSeq(fs...)
		case *ast.AssignStmt:
			var fs []*flow
			fs = append(fs, exprs(x.Rhs))
			for _, l := range x.Lhs {
				if _, isId := l.(*ast.Ident); isId {
					continue // a local variable (aliases are handled below)
				}
				fs = append(fs, expr(l, true))
			}
			if len(x.Lhs) == len(x.Rhs) {
				for i := range x.Lhs {
					if st := noteAlias(x.Lhs[i], x.Rhs[i]); st != nil {
						fs = append(fs, st)
					}
				}
			} else {
				for _, l := range x.Lhs {
					if id, ok := l.(*ast.Ident); ok {
						if o := info.Defs[id]; o != nil {
							delete(alias, o)
						} else if o := info.Uses[id]; o != nil {
							delete(alias, o)
						}
					}
				}
			}
			return fSeq(fs...)
		case *ast.IncDecStmt:
			return expr(x.X, true)
		case *ast.SendStmt:
			return fSeq(expr(x.Value, false), expr(x.Chan, false))
		case *ast.DeferStmt:
			if m := lockCall(x.Call); m == "Unlock" {
				return &flow{op: "deferRel"}
			}
			if mentionsRecv(x.Call) {
				return fStuck("deferred call mentioning the receiver")
			}
			return fSkip()
		case *ast.GoStmt:
			if se, ok := x.Call.Fun.(*ast.SelectorExpr); ok {
				if m, ok := recvSel(se); ok {
					if sel, ok := info.Selections[se]; ok && sel.Kind() == types.MethodVal {
						return fSeq(exprs(x.Call.Args), fAct("go", m))
					}
				}
			}
			if mentionsRecv(x.Call) {
				return fStuck("go statement mentioning the receiver")
			}
			return fSkip()
		case *ast.ReturnStmt:
			return fSeq(exprs(x.Results), &flow{op: "ret"})
		case *ast.BranchStmt:
			if x.Label != nil {
				return fStuck("labelled " + x.Tok.String())
			}
			switch x.Tok {
			case token.BREAK:
				return &flow{op: "brk"}
			case token.CONTINUE:
				return &flow{op: "cont"}
			}
			return fStuck(x.Tok.String())
		case *ast.BlockStmt:
			return stmts(x.List)
		case *ast.LabeledStmt:
			return fStuck("label")
		case *ast.IfStmt:
			els := fSkip()
			if x.Else != nil {
				els = stmt(x.Else)
			}
			return fSeq(stmt(x.Init), expr(x.Cond, false), fAlt(stmt(x.Body), els))
		case *ast.ForStmt:
			if x.Post != nil && mentionsRecv(x.Post) {
				// Go runs Post after `continue`; here Post follows the body, which `cont` leaves early
				hasCont := false
				ast.Inspect(x.Body, func(n ast.Node) bool {
					if b, ok := n.(*ast.BranchStmt); ok && b.Tok == token.CONTINUE {
						hasCont = true
					}
					return true
				})
				if hasCont {
					return fStuck("for-post touching the receiver with continue in the body")
				}
			}
			body := fSeq(expr(x.Cond, false), stmt(x.Body), stmt(x.Post))
			return fSeq(stmt(x.Init), &flow{op: "block", a: fSeq(&flow{op: "loop", a: body}, expr(x.Cond, false))})
		case *ast.RangeStmt:
			return fSeq(expr(x.X, false), &flow{op: "block", a: &flow{op: "loop", a: stmt(x.Body)}})
		case *ast.SwitchStmt:
			var alts []*flow
			hasDefault := false
			for _, c := range x.Body.List {
				cc := c.(*ast.CaseClause)
				if cc.List == nil {
					hasDefault = true
				}
				alts = append(alts, fSeq(exprs(cc.List), stmts(cc.Body)))
			}
			if !hasDefault {
				alts = append(alts, fSkip())
			}
			return fSeq(stmt(x.Init), expr(x.Tag, false), &flow{op: "block", a: fAlt(alts...)})
		case *ast.TypeSwitchStmt:
			var alts []*flow
			hasDefault := false
			for _, c := range x.Body.List {
				cc := c.(*ast.CaseClause)
				if cc.List == nil {
					hasDefault = true
				}
				alts = append(alts, stmts(cc.Body))
			}
			if !hasDefault {
				alts = append(alts, fSkip())
			}
			return fSeq(stmt(x.Init), stmt(x.Assign), &flow{op: "block", a: fAlt(alts...)})
		case *ast.SelectStmt:
			var alts []*flow
			for _, c := range x.Body.List {
				cc := c.(*ast.CommClause)
				alts = append(alts, fSeq(stmt(cc.Comm), stmts(cc.Body)))
			}
			return &flow{op: "block", a: fAlt(alts...)}
		}
		return fStuck(fmt.Sprintf("statement %T", s))
	}
	// `fallthrough` would make a case body continue into the next one: not modelled
	hasFallthrough := false
	ast.Inspect(fd.Body, func(n ast.Node) bool {
		if b, ok := n.(*ast.BranchStmt); ok && b.Tok == token.FALLTHROUGH {
			hasFallthrough = true
		}
		return true
	})
	body := stmts(fd.Body.List)
	if hasFallthrough {
		body = fSeq(fStuck("fallthrough"), body)
	}
	out[fn] = body
}

// handlerCall: one call `recv.handler.M(&T{ k: v, … })` with the literal's fields.
type handlerCall struct {
	fn, method, typ string
	kvs             [][2]string
}

// collectHandlerCalls records every call through the `handler` field of the receiver, with the
// request literal it passes, and which parameters of the function are ever assigned or have their
// address taken (so that "ClientRole: clientRole" can be read as "the parameter").
var paramNames = map[string][]string{}

func collectHandlerCalls(fn string, fd *ast.FuncDecl, calls *[]handlerCall, paramWrites map[string][]string) {
	if fd.Recv == nil || len(fd.Recv.List) == 0 || len(fd.Recv.List[0].Names) == 0 || !strings.HasPrefix(fn, "ModbusServer.") {
		return
	}
	recv := fd.Recv.List[0].Names[0].Name
	params := map[types.Object]string{}
	for _, f := range fd.Type.Params.List {
		for _, n := range f.Names {
			if o := info.Defs[n]; o != nil {
				params[o] = n.Name
			}
		}
	}
	written := map[string]bool{}
	ast.Inspect(fd.Body, func(n ast.Node) bool {
		switch x := n.(type) {
		case *ast.AssignStmt:
			for _, l := range x.Lhs {
				if id, ok := l.(*ast.Ident); ok {
					if p, ok := params[info.Uses[id]]; ok {
						written[p] = true
					}
				}
			}
		case *ast.IncDecStmt:
			if id, ok := x.X.(*ast.Ident); ok {
				if p, ok := params[info.Uses[id]]; ok {
					written[p] = true
				}
			}
		case *ast.UnaryExpr:
			if x.Op == token.AND {
				if id, ok := x.X.(*ast.Ident); ok {
					if p, ok := params[info.Uses[id]]; ok {
						written[p] = true
					}
				}
			}
		case *ast.CallExpr:
			se, ok := x.Fun.(*ast.SelectorExpr)
			if !ok {
				return true
			}
			inner, ok := se.X.(*ast.SelectorExpr)
			if !ok {
				return true
			}
			if id, ok := inner.X.(*ast.Ident); !ok || id.Name != recv || inner.Sel.Name != "handler" {
				return true
			}
			hc := handlerCall{fn: fn, method: se.Sel.Name, typ: "?"}
			if len(x.Args) == 1 {
				a := x.Args[0]
				if u, ok := a.(*ast.UnaryExpr); ok && u.Op == token.AND {
					a = u.X
				}
				if cl, ok := a.(*ast.CompositeLit); ok {
					hc.typ = exprStr(cl.Type)
					for _, el := range cl.Elts {
						if kv, ok := el.(*ast.KeyValueExpr); ok {
							hc.kvs = append(hc.kvs, [2]string{exprStr(kv.Key), strings.Join(strings.Fields(exprStr(kv.Value)), " ")})
						} else {
							hc.kvs = append(hc.kvs, [2]string{"?", "positional"})
						}
					}
				}
			}
			*calls = append(*calls, hc)
		}
		return true
	})
	ws := []string{}
	ps := []string{}
	for _, f := range fd.Type.Params.List {
		for _, n := range f.Names {
			ps = append(ps, n.Name)
			if written[n.Name] {
				ws = append(ws, n.Name)
			}
		}
	}
	paramWrites[fn] = ws
	paramNames[fn] = ps
}
